import Splipy.Driver.All

/-!
Line-protocol driver:  `lake env lean --run Driver.lean < ops.txt > out.txt`
One request line in, one response line out.
-/
open Splipy.Driver


def dispatch (line : String) : String :=
  let toks := (line.trimAscii.toString.splitOn " ").filter (· ≠ "")
  match toks with
  | [] => "bad-op"
  | op :: args =>
    match args.mapM Val.parse with
    | none => "bad-args"
    | some vs =>
      match handlers.findSome? (fun h => h op vs) with
      | some v => v.render
      | none => "unknown-op"

partial def loop (h : IO.FS.Stream) (out : IO.FS.Stream) : IO Unit := do
  let line ← h.getLine
  if line.isEmpty then return ()
  out.putStrLn (dispatch line)
  loop h out

def main : IO Unit := do
  let stdin ← IO.getStdin
  let stdout ← IO.getStdout
  loop stdin stdout
  stdout.flush
