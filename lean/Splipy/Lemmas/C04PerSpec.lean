import Splipy.Lemmas.C04PerCoef
import Splipy.Lemmas.C04Periodic

/-!
# C04 helper lemmas, part 9: periodic Boehm at the specification level

`wsum s τ q nAll n c d t = Σ_{i<nAll} c (i mod n) · dB s τ q i d t` is the periodic spline (sum over all
wrapped images; `nAll = n + k + 1` functions live on the ghost-extended knot vector).
-/

namespace Splipy
namespace C04

set_option linter.unusedSectionVars false

variable {K : Type} [Field K] [LinearOrder K] [IsStrictOrderedRing K]

/-- Periodic spline: wrapped-image sum (same definition as `wsum` of the C06 files). -/
def wsum (s : Side) (τ : ℕ → K) (q nAll n : ℕ) (c : ℕ → K) (d : ℕ) (t : K) : K :=
  (Finset.range nAll).sum (fun i => c (i % n) * dB s τ q i d t)

theorem wsum_eq_splineDeriv (s : Side) (τ : ℕ → K) (q nAll n : ℕ) (c : ℕ → K) (d : ℕ) (t : K) :
    wsum s τ q nAll n c d t = splineDeriv s τ q nAll (fun i => c (i % n)) d t := rfl

/-! ### facts about the entries -/

theorem diagE_lo {τ : ℕ → K} {x : K} {p mu i : ℕ} (h : i + p < mu) : diagE τ x p mu i = 1 := by
  unfold diagE; rw [if_pos h]
theorem subE_lo {τ : ℕ → K} {x : K} {p mu i : ℕ} (h : i + p < mu) : subE τ x p mu i = 0 := by
  unfold subE; rw [if_pos h]
theorem diagE_hi {τ : ℕ → K} {x : K} {p mu i : ℕ} (h : mu ≤ i) : diagE τ x p mu i = 0 := by
  unfold diagE; rw [if_neg (by omega), if_neg (by omega)]
theorem subE_hi {τ : ℕ → K} {x : K} {p mu i : ℕ} (h : mu ≤ i) : subE τ x p mu i = 1 := by
  unfold subE; rw [if_neg (by omega), if_neg (by omega)]

/-- the last column written by the middle loop has sub-diagonal entry 1 (`τ (μ-1) ≤ x ≤ τ μ`) -/
theorem subE_last {τ : ℕ → K} {x : K} {p mu : ℕ} (hp : 1 ≤ p) (hmu : 1 ≤ mu) (hx : τ (mu - 1) ≤ x ∧ x ≤ τ mu) :
    subE τ x p mu (mu - 1) = 1 := by
  unfold subE
  by_cases h : mu - 1 + p < mu
  · omega
  · rw [if_neg h, if_pos (by omega)]
    unfold gs
    rw [show mu - 1 + 1 = mu by omega, if_pos hx]

/-- the first column written by the middle loop has diagonal entry 1 -/
theorem diagE_first {τ : ℕ → K} {x : K} {p mu i : ℕ} (hp : 1 ≤ p) (hi : i + p = mu)
    (hx : τ (mu - 1) ≤ x ∧ x ≤ τ mu) : diagE τ x p mu i = 1 := by
  unfold diagE
  rw [if_neg (by omega), if_pos (by omega)]
  unfold gd
  rw [show i + p - 1 = mu - 1 by omega, hi, if_pos hx]

/-- and sub-diagonal entry … whatever `gs` says; columns strictly left of `μ-p` are identity. -/
theorem subE_first_lo {τ : ℕ → K} {x : K} {p mu i : ℕ} (h : i + p < mu) :
    subE τ x p mu i = 0 := subE_lo h


/-! ### index arithmetic -/

theorem mod_add_n (n e : ℕ) (he : e < n) : (n + e) % n = e := by
  rw [Nat.add_mod_left, Nat.mod_eq_of_lt he]

theorem mod_add_n1 (n e : ℕ) (he : e < n + 1) : (n + 1 + e) % (n + 1) = e := by
  rw [Nat.add_mod_left, Nat.mod_eq_of_lt he]


/-! ### rows of the unrolled single insertion with periodically extended coefficients -/

/-- rows `r ≤ n` (needs only `μ ≤ n`) -/
theorem coef_low (τ : ℕ → K) (x : K) (n p k mu : ℕ) (h2 : mu ≤ n) (c : ℕ → K) (r : ℕ) (hr : r ≤ n) :
    mulVecF (codeF τ x p mu) (n + k + 1) (fun i => c (i % n)) r
      = mulVecF (codeF τ x p mu) n c r := by
  rw [mulVecF_codeF, mulVecF_codeF]
  by_cases ha : r < n
  · rw [if_pos (by omega), if_pos ha]
    simp only [Nat.mod_eq_of_lt ha]
    congr 1
    by_cases h0 : 1 ≤ r
    · rw [if_pos ⟨h0, by omega⟩, if_pos ⟨h0, by omega⟩, Nat.mod_eq_of_lt (show r - 1 < n by omega)]
    · rw [if_neg (by omega), if_neg (by omega)]
  · have hb : r = n := by omega
    subst hb
    by_cases h0 : 1 ≤ r
    · rw [if_pos (by omega), if_neg (lt_irrefl r),
        if_pos ⟨by omega, by omega⟩, if_pos ⟨by omega, by omega⟩, diagE_hi h2, zero_mul,
        Nat.mod_eq_of_lt (show r - 1 < r by omega)]
    · have : r = 0 := by omega
      subst this
      simp [diagE_hi h2]

/-- rows `r = n+1+e` in the right ghost zone (needs only `μ ≤ n`): the coefficient is `c e` -/
theorem coef_high (τ : ℕ → K) (x : K) (n p k mu : ℕ) (h2 : mu ≤ n) (c : ℕ → K) (e : ℕ) (he : e ≤ k)
    (hkn : k < n) :
    mulVecF (codeF τ x p mu) (n + k + 1) (fun i => c (i % n)) (n + 1 + e) = c e := by
  rw [mulVecF_codeF, diagE_hi (show mu ≤ n + 1 + e by omega), zero_mul, ite_self, zero_add]
  by_cases h : n + 1 + e - 1 < n + k + 1
  · rw [if_pos ⟨by omega, h⟩, subE_hi (show mu ≤ n + 1 + e - 1 by omega), one_mul,
      show n + 1 + e - 1 = n + e by omega]
    simp only [mod_add_n n e (by omega)]
  · exfalso; exact h (by omega)

/-! ### branch 3: `p+k < μ ≤ n` — no periodic image of `x` inside the knot array -/

/-- coefficient identity: the unrolled open-case coefficients of the periodically extended `c` are the
    wrapped images of the `(n+1)`-periodic coefficients `C·c`. -/
theorem coef_branch3 (τ : ℕ → K) (x : K) (n p k mu : ℕ) (hp : k + 2 ≤ p) (hguard : p + k ≤ n)
    (h1 : p + k < mu) (h2 : mu ≤ n) (c : ℕ → K) (r : ℕ)
    (hr : r < n + k + 1 + 1) :
    mulVecF (codeF τ x p mu) (n + k + 1) (fun i => c (i % n)) r
      = mulVecF (codeF τ x p mu) n c (r % (n + 1)) := by
  rw [mulVecF_codeF, mulVecF_codeF]
  by_cases ha : r < n
  · rw [Nat.mod_eq_of_lt (show r < n + 1 by omega), if_pos (by omega), if_pos ha]
    simp only [Nat.mod_eq_of_lt ha]
    congr 1
    by_cases h0 : 1 ≤ r
    · rw [if_pos ⟨h0, by omega⟩, if_pos ⟨h0, by omega⟩, Nat.mod_eq_of_lt (show r - 1 < n by omega)]
    · rw [if_neg (by omega), if_neg (by omega)]
  · by_cases hb : r = n
    · subst hb
      rw [Nat.mod_eq_of_lt (show r < r + 1 by omega), if_pos (by omega), if_neg (lt_irrefl r),
        if_pos ⟨by omega, by omega⟩, if_pos ⟨by omega, by omega⟩, diagE_hi h2, zero_mul,
        Nat.mod_eq_of_lt (show r - 1 < r by omega)]
    · obtain ⟨e, he, rfl⟩ : ∃ e, e ≤ k ∧ r = n + 1 + e := ⟨r - (n + 1), by omega, by omega⟩
      rw [mod_add_n1 n e (by omega), diagE_hi (show mu ≤ n + 1 + e by omega), zero_mul, ite_self,
        zero_add, if_pos ⟨by omega, by omega⟩, subE_hi (show mu ≤ n + 1 + e - 1 by omega), one_mul,
        show n + 1 + e - 1 = n + e by omega]
      simp only [mod_add_n n e (by omega)]
      rw [if_pos (by omega), diagE_lo (show e + p < mu by omega), one_mul]
      by_cases h0 : 1 ≤ e
      · rw [if_pos ⟨h0, by omega⟩, subE_lo (show e - 1 + p < mu by omega), zero_mul, add_zero]
      · rw [if_neg (by omega), add_zero]


/-- Branch 3 at the spline level: no periodic image of `x` lies in the knot array, the repaired vector
    is `insertSeq τ μ x`, and the wrapped sums agree at every parameter. -/
theorem wsum_branch3 (s : Side) (τ : ℕ → K) (hτ : Monotone τ) (x : K) (n q k mu : ℕ)
    (hp : k + 2 ≤ q + 1) (hguard : q + 1 + k ≤ n) (h1 : q + 1 + k < mu) (h2 : mu ≤ n)
    (hx : τ (mu - 1) ≤ x ∧ x ≤ τ mu) (c : ℕ → K) (d : ℕ) (t : K) :
    wsum s (insertSeq τ mu x) q (n + k + 1 + 1) (n + 1) (mulVecF (codeF τ x (q + 1) mu) n c) d t
      = wsum s τ q (n + k + 1) n c d t := by
  rw [wsum_eq_splineDeriv s τ, ← splineDeriv_codeF s τ hτ mu x q (n + k + 1) (by omega) hx]
  unfold wsum splineDeriv
  apply Finset.sum_congr rfl
  intro r hr
  rw [coef_branch3 τ x n (q + 1) k mu hp hguard h1 h2 c r (Finset.mem_range.1 hr)]

/-! ### shifting an entry by one period -/

theorem gd_shift (τ σ : ℕ → K) (x T : K) (p i j : ℕ) (h0 : σ j = τ i + T)
    (h1 : σ (j + p - 1) = τ (i + p - 1) + T) (h2 : σ (j + p) = τ (i + p) + T) :
    gd σ (x + T) p j = gd τ x p i := by
  unfold gd
  rw [h0, h1, h2]
  have e1 : (τ (i + p - 1) + T ≤ x + T ∧ x + T ≤ τ (i + p) + T) ↔ (τ (i + p - 1) ≤ x ∧ x ≤ τ (i + p)) := by
    constructor
    · rintro ⟨a, b⟩; exact ⟨by linarith, by linarith⟩
    · rintro ⟨a, b⟩; exact ⟨by linarith, by linarith⟩
  rw [if_congr e1 rfl rfl]
  congr 1
  rw [show x + T - (τ i + T) = x - τ i by ring, show τ (i + p - 1) + T - (τ i + T) = τ (i + p - 1) - τ i by ring]

theorem gs_shift (τ σ : ℕ → K) (x T : K) (p i j : ℕ) (h0 : σ j = τ i + T)
    (h1 : σ (j + 1) = τ (i + 1) + T) (h2 : σ (j + p) = τ (i + p) + T) :
    gs σ (x + T) p j = gs τ x p i := by
  unfold gs
  rw [h0, h1, h2]
  have e1 : (τ i + T ≤ x + T ∧ x + T ≤ τ (i + 1) + T) ↔ (τ i ≤ x ∧ x ≤ τ (i + 1)) := by
    constructor
    · rintro ⟨a, b⟩; exact ⟨by linarith, by linarith⟩
    · rintro ⟨a, b⟩; exact ⟨by linarith, by linarith⟩
  rw [if_congr e1 rfl rfl]
  congr 1
  rw [show τ (i + p) + T - (x + T) = τ (i + p) - x by ring,
    show τ (i + p) + T - (τ (i + 1) + T) = τ (i + p) - τ (i + 1) by ring]


/-! ### branch 1: `μ ≤ p+k` — the image `x+T` also lies in the knot array (right ghost zone) -/

section branch1

variable (τ : ℕ → K) (x T : K) (n p k mu : ℕ)

/-- the sequence after `np.insert`, one period to the right -/
theorem sigma_shift (hg : ∀ i, i ≤ p + k → τ (i + n) = τ i + T) (hmn : mu ≤ n) (j : ℕ)
    (hj : j ≤ p + k) : insertSeq τ mu x (n + 1 + j) = τ j + T := by
  rw [bo_ins_gt (k := n + j) (by omega) (by omega), Nat.add_comm n j, hg j hj]

theorem diagE_shift1 (hp : 1 ≤ p) (hg : ∀ i, i ≤ p + k → τ (i + n) = τ i + T) (hmn : mu ≤ n)
    (e : ℕ) (he : e ≤ k) :
    diagE (insertSeq τ mu x) (x + T) p (n + 1 + mu) (n + 1 + e) = diagE τ x p mu e := by
  unfold diagE
  have c1 : (n + 1 + e + p < n + 1 + mu) ↔ (e + p < mu) := by omega
  have c2 : (n + 1 + e < n + 1 + mu) ↔ (e < mu) := by omega
  rw [if_congr c1 rfl rfl, if_congr c2 rfl rfl]
  rw [gd_shift τ (insertSeq τ mu x) x T p e (n + 1 + e)
    (sigma_shift τ x T n p k mu hg hmn e (by omega))
    (by rw [show n + 1 + e + p - 1 = n + 1 + (e + p - 1) by omega]
        exact sigma_shift τ x T n p k mu hg hmn _ (by omega))
    (by rw [show n + 1 + e + p = n + 1 + (e + p) by omega]
        exact sigma_shift τ x T n p k mu hg hmn _ (by omega))]

theorem subE_shift1 (hp : 1 ≤ p) (hg : ∀ i, i ≤ p + k → τ (i + n) = τ i + T) (hmn : mu ≤ n)
    (e : ℕ) (he : e ≤ k) :
    subE (insertSeq τ mu x) (x + T) p (n + 1 + mu) (n + 1 + e) = subE τ x p mu e := by
  unfold subE
  have c1 : (n + 1 + e + p < n + 1 + mu) ↔ (e + p < mu) := by omega
  have c2 : (n + 1 + e < n + 1 + mu) ↔ (e < mu) := by omega
  rw [if_congr c1 rfl rfl, if_congr c2 rfl rfl]
  rw [gs_shift τ (insertSeq τ mu x) x T p e (n + 1 + e)
    (sigma_shift τ x T n p k mu hg hmn e (by omega))
    (by rw [show n + 1 + e + 1 = n + 1 + (e + 1) by omega]
        exact sigma_shift τ x T n p k mu hg hmn _ (by omega))
    (by rw [show n + 1 + e + p = n + 1 + (e + p) by omega]
        exact sigma_shift τ x T n p k mu hg hmn _ (by omega))]

/-- coefficient identity of branch 1: two unrolled insertions (`x` at `μ`, `x+T` at `n+1+μ`) of the
    periodically extended coefficients give the wrapped images of `C·c`. -/
theorem coef_branch1 (hp : k + 2 ≤ p) (hguard : p + k ≤ n)
    (hg : ∀ i, i ≤ p + k → τ (i + n) = τ i + T) (h1 : p ≤ mu) (h2 : mu ≤ p + k) (c : ℕ → K) (r : ℕ)
    (hr : r < n + k + 1 + 1) :
    mulVecF (codeF (insertSeq τ mu x) (x + T) p (n + 1 + mu)) (n + k + 1 + 1)
        (mulVecF (codeF τ x p mu) (n + k + 1) (fun i => c (i % n))) r
      = mulVecF (codeF τ x p mu) n c (r % (n + 1)) := by
  have hmn : mu ≤ n := by omega
  rw [mulVecF_codeF]
  by_cases ha : r ≤ n
  · rw [Nat.mod_eq_of_lt (show r < n + 1 by omega), if_pos hr,
      diagE_lo (show r + p < n + 1 + mu by omega), one_mul, coef_low τ x n p k mu hmn c r ha]
    by_cases h0 : 1 ≤ r
    · rw [if_pos ⟨h0, by omega⟩, subE_lo (show r - 1 + p < n + 1 + mu by omega), zero_mul, add_zero]
    · rw [if_neg (by omega), add_zero]
  · obtain ⟨e, he, rfl⟩ : ∃ e, e ≤ k ∧ r = n + 1 + e := ⟨r - (n + 1), by omega, by omega⟩
    rw [mod_add_n1 n e (by omega), if_pos hr, diagE_shift1 τ x T n p k mu (by omega) hg hmn e he,
      coef_high τ x n p k mu hmn c e he (by omega), if_pos ⟨by omega, by omega⟩, mulVecF_codeF τ x p mu n,
      if_pos (show e < n by omega)]
    congr 1
    by_cases h0 : 1 ≤ e
    · rw [if_pos ⟨h0, by omega⟩, show n + 1 + e - 1 = n + 1 + (e - 1) by omega,
        subE_shift1 τ x T n p k mu (by omega) hg hmn (e - 1) (by omega),
        coef_high τ x n p k mu hmn c (e - 1) (by omega) (by omega)]
    · have : e = 0 := by omega
      subst this
      rw [if_neg (by omega), subE_lo (show n + 1 + 0 - 1 + p < n + 1 + mu by omega), zero_mul]

/-- Branch 1 at the spline level.  `ρ` is any sequence that agrees with the doubly refined sequence
    (`x` at `μ`, `x+T` at `n+1+μ`) on the `n+k+2+p` knots of the new array; `t` lies (one-sidedly)
    below the end `τ (n+k+1)` of the domain. -/
theorem wsum_branch1 (s : Side) (hτ : Monotone τ) (q : ℕ) (hpq : p = q + 1) (hp : k + 2 ≤ p)
    (hguard : p + k ≤ n) (hg : ∀ i, i ≤ p + k → τ (i + n) = τ i + T) (h1 : p ≤ mu)
    (h2 : mu ≤ p + k) (hx : τ (mu - 1) ≤ x ∧ x ≤ τ mu) (ρ : ℕ → K)
    (hρ : ∀ j, j ≤ n + k + 1 + p →
      ρ j = insertSeq (insertSeq τ mu x) (n + 1 + mu) (x + T) j)
    (c : ℕ → K) (d : ℕ) (a t : K) (ht : s.mem a (τ (n + k + 1)) t) :
    wsum s ρ q (n + k + 1 + 1) (n + 1) (mulVecF (codeF τ x p mu) n c) d t
      = wsum s τ q (n + k + 1) n c d t := by
  subst hpq
  have hmn : mu ≤ n := by omega
  obtain ⟨hlo, hhi⟩ := bo_bounds τ hτ mu x hx
  have hσ : Monotone (insertSeq τ mu x) := bo_insertSeq_mono τ hτ mu x hlo hhi
  have hx2 : insertSeq τ mu x (n + 1 + mu - 1) ≤ x + T ∧ x + T ≤ insertSeq τ mu x (n + 1 + mu) := by
    rw [show n + 1 + mu - 1 = n + 1 + (mu - 1) by omega,
      sigma_shift τ x T n (q + 1) k mu hg hmn (mu - 1) (by omega),
      sigma_shift τ x T n (q + 1) k mu hg hmn mu (by omega)]
    exact ⟨by linarith [hx.1], by linarith [hx.2]⟩
  obtain ⟨hlo2, hhi2⟩ := bo_bounds _ hσ (n + 1 + mu) (x + T) hx2
  have hσ2 : Monotone (insertSeq (insertSeq τ mu x) (n + 1 + mu) (x + T)) :=
    bo_insertSeq_mono _ hσ _ _ hlo2 hhi2
  rw [wsum_eq_splineDeriv s τ, ← splineDeriv_codeF s τ hτ mu x q (n + k + 1) (by omega) hx,
    ← splineDeriv_codeF s _ hσ (n + 1 + mu) (x + T) q (n + k + 1 + 1) (by omega) hx2]
  unfold wsum splineDeriv
  rw [Finset.sum_range_succ _ (n + k + 1 + 1)]
  have hlast : dB s (insertSeq (insertSeq τ mu x) (n + 1 + mu) (x + T)) q (n + k + 1 + 1) d t = 0 := by
    apply dB_zero_after s _ hσ2 q _ d a (τ (n + k + 1)) t ht
    rw [bo_ins_lt (show n + k + 1 + 1 < n + 1 + mu by omega),
      bo_ins_gt (k := n + k + 1) (by omega) rfl]
  rw [hlast, mul_zero, add_zero]
  apply Finset.sum_congr rfl
  intro r hr
  have hr' := Finset.mem_range.1 hr
  rw [coef_branch1 τ x T n (q + 1) k mu hp hguard hg h1 h2 c r hr',
    dB_congr_knots s ρ (insertSeq (insertSeq τ mu x) (n + 1 + mu) (x + T)) q r r d t
      (fun j hj => hρ (r + j) (by omega))]

end branch1

end C04
end Splipy
