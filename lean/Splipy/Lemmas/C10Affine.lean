import Splipy.Lemmas.C10Basic
import Splipy.Lemmas.C09Sem
import Splipy.Model.History

/-!
# C10 helper lemmas: the affine family keeps an object well formed

`translate`, `scale`, `rotate`, `mirror`, `project`, `set_dimension`, `force_rational` and all the
operator forms (`+= -= *= /= + - * /`) only map the component axis of the control net
(`Tensor.mapLast`), never touch the bases and never touch the weights.

* `Obj.WellFormed.toC09`        : C10's `WellFormed` implies C09's weak predicate `Obj.WF`;
* `AffOp.inplace_shape`         : bases and the parametric part of the shape are unchanged;
* `AffOp.inplace_wf`            : the result of every (admissible) operation is well formed;
* `History.stepOut_affine_wf`   : the `History` form (receiver and created objects);
* `AffOp.weights_untouched_wf`  : rational stays rational, same number of control points, every
                                  weight literally unchanged.
-/

set_option linter.unusedSectionVars false

namespace Splipy

variable {K : Type} [Field K] [LinearOrder K]

namespace Obj

/-! ## 1. `WellFormed` implies C09's `WF` -/

theorem WellFormed.toC09 {o : Obj K} (h : o.WellFormed) : o.WF where
  shape_ne := by rw [h.shape]; simp
  ncomp_pos := h.ncomp_pos
  data_size := h.data_size

/-- For a well-formed object C09's `npts` is C10's `len`. -/
theorem WellFormed.npts_eq_len {o : Obj K} (h : o.WellFormed) : o.npts = o.len := by
  unfold Obj.npts Tensor.size
  rw [h.prod_shape, Nat.mul_div_cancel _ h.ncomp_pos]

/-- C10's weight is C09's `cp` at the position `dimension`. -/
theorem wt_eq_cp (o : Obj K) (pI : ℕ) : o.wt pI = o.cp pI o.dimension := rfl

/-! ## 2. Shapes: only the last entry changes -/

theorem dropLast_mapLast (t : Tensor K) (m : ℕ) (f : Array K → Array K) :
    (t.mapLast m f).shape.dropLast = t.shape.dropLast := by
  rw [Tensor.mapLast_shape, List.dropLast_concat]

theorem mapCps_shape (o : Obj K) (m : ℕ) (rat : Bool) (f : Array K → Array K) :
    (o.mapCps m rat f).bases = o.bases
      ∧ (o.mapCps m rat f).cps.shape.dropLast = o.cps.shape.dropLast :=
  ⟨rfl, dropLast_mapLast o.cps m f⟩

theorem affineCp_shape (o : Obj K) (M : ℕ → ℕ → K) (tr : ℕ → K) :
    (o.affineCp M tr).bases = o.bases
      ∧ (o.affineCp M tr).cps.shape.dropLast = o.cps.shape.dropLast := by
  rw [affineCp_eq]; exact mapCps_shape _ _ _ _

theorem setDimension_shape (o : Obj K) (n : ℕ) :
    (o.setDimension n).bases = o.bases
      ∧ (o.setDimension n).cps.shape.dropLast = o.cps.shape.dropLast := by
  rw [setDimension_eq]; exact mapCps_shape _ _ _ _

theorem projectPlane_shape (o : Obj K) (keep : List Bool) :
    (o.projectPlane keep).bases = o.bases
      ∧ (o.projectPlane keep).cps.shape.dropLast = o.cps.shape.dropLast := by
  rw [projectPlane_eq]; exact mapCps_shape _ _ _ _

theorem forceRational_shape (o : Obj K) :
    o.forceRational.bases = o.bases
      ∧ o.forceRational.cps.shape.dropLast = o.cps.shape.dropLast := by
  by_cases hr : o.rational = true
  · rw [forceRational_of_rational o hr]; exact ⟨rfl, rfl⟩
  · rw [forceRational_eq o (by simpa using hr)]
    exact mapCps_shape _ _ _ _

theorem translate_shape (o : Obj K) (x : List K) :
    (o.translate x).bases = o.bases
      ∧ (o.translate x).cps.shape.dropLast = o.cps.shape.dropLast := by
  rw [translate_eq]
  by_cases hx : x.length > o.dimension
  · rw [if_pos hx]
    obtain ⟨h1, h2⟩ := affineCp_shape (o.setDimension x.length)
      (fun j i => if i = j then (1 : K) else 0) (fun i => x.getD i 0)
    obtain ⟨h3, h4⟩ := setDimension_shape o x.length
    exact ⟨h1.trans h3, h2.trans h4⟩
  · rw [if_neg hx]; exact affineCp_shape o _ _

theorem translateChecked_shape {o o' : Obj K} (x : List K) (hs : o.translateChecked x = .ok o') :
    o'.bases = o.bases ∧ o'.cps.shape.dropLast = o.cps.shape.dropLast := by
  unfold translateChecked at hs
  split_ifs at hs
  injection hs with hs; subst hs
  exact translate_shape o x

theorem scale_shape {o o' : Obj K} (s : List K) (hs : o.scale s = .ok o') :
    o'.bases = o.bases ∧ o'.cps.shape.dropLast = o.cps.shape.dropLast := by
  rw [scale_eq] at hs
  split_ifs at hs
  injection hs with hs; subst hs
  exact affineCp_shape o _ _

theorem scaleArgs_shape {o o' : Obj K} (args : List (ScaleArg K)) (hs : o.scaleArgs args = .ok o') :
    o'.bases = o.bases ∧ o'.cps.shape.dropLast = o.cps.shape.dropLast := by
  unfold scaleArgs at hs
  cases hn : Obj.scaleNums o.dimension args with
  | error e => rw [hn] at hs; cases hs
  | ok nums => rw [hn] at hs; exact scale_shape nums hs

theorem mirror_shape {o o' : Obj K} (nrm : List K) (hs : o.mirror nrm = .ok o') :
    o'.bases = o.bases ∧ o'.cps.shape.dropLast = o.cps.shape.dropLast := by
  rw [mirror_eq] at hs
  split_ifs at hs
  injection hs with hs; subst hs
  exact affineCp_shape o _ _

theorem rotatePromoted_shape (o : Obj K) (normal : List K) :
    (rotatePromoted o normal).bases = o.bases
      ∧ (rotatePromoted o normal).cps.shape.dropLast = o.cps.shape.dropLast := by
  unfold rotatePromoted
  split_ifs
  · exact ⟨rfl, rfl⟩
  · exact setDimension_shape o 3

theorem rotate_shape {o o' : Obj K} (ch sh : K) (normal axisUnit : List K)
    (hs : o.rotate ch sh normal axisUnit = .ok o') :
    o'.bases = o.bases ∧ o'.cps.shape.dropLast = o.cps.shape.dropLast := by
  obtain ⟨h3, h4⟩ := rotatePromoted_shape o normal
  rw [rotate_eq] at hs
  split_ifs at hs
  · injection hs with hs; subst hs
    obtain ⟨h1, h2⟩ := affineCp_shape (rotatePromoted o normal) (rot2Mat ch sh) (fun _ => 0)
    exact ⟨h1.trans h3, h2.trans h4⟩
  · injection hs with hs; subst hs
    obtain ⟨h1, h2⟩ := affineCp_shape (rotatePromoted o normal) (rot3Mat ch sh axisUnit) (fun _ => 0)
    exact ⟨h1.trans h3, h2.trans h4⟩

end Obj

namespace AffOp
open Obj

/-- **Every operation keeps the bases and the parametric part of the control-net shape**
    (no admissibility needed). -/
theorem inplace_shape {o o' : Obj K} (op : AffOp K) (hs : op.inplace o = .ok o') :
    o'.bases = o.bases ∧ o'.cps.shape.dropLast = o.cps.shape.dropLast := by
  cases op with
  | translate x => exact translateChecked_shape x hs
  | iadd x => exact translateChecked_shape x hs
  | add x => exact translateChecked_shape x hs
  | radd x => exact translateChecked_shape x hs
  | isub x => exact translateChecked_shape _ hs
  | sub x => exact translateChecked_shape _ hs
  | scale args => exact scaleArgs_shape args hs
  | imul a => exact scaleArgs_shape [a] hs
  | mul a => exact scaleArgs_shape [a] hs
  | rmul a => exact scaleArgs_shape [a] hs
  | itruediv a =>
    simp only [inplace] at hs
    cases hr : recip a with
    | error e => rw [hr] at hs; cases hs
    | ok r => rw [hr] at hs; exact scaleArgs_shape [r] hs
  | div a =>
    simp only [inplace] at hs
    cases hr : recip a with
    | error e => rw [hr] at hs; cases hs
    | ok r => rw [hr] at hs; exact scaleArgs_shape [r] hs
  | rotate ch sh n u => exact rotate_shape ch sh n u hs
  | mirror n => exact mirror_shape n hs
  | project keep =>
    simp only [inplace, projectChecked] at hs
    split_ifs at hs
    injection hs with hs; subst hs
    exact projectPlane_shape o keep
  | setDimension n =>
    simp only [inplace] at hs
    injection hs with hs; subst hs
    exact setDimension_shape o n
  | forceRational =>
    simp only [inplace] at hs
    injection hs with hs; subst hs
    exact forceRational_shape o

/-- The dimension after an admissible operation is still at least one. -/
theorem newDim_pos (op : AffOp K) (hadm : op.Admissible) (dim : ℕ) (hd : 1 ≤ dim) :
    1 ≤ op.newDim dim := by
  cases op with
  | translate x => exact le_trans hd (le_max_left _ _)
  | iadd x => exact le_trans hd (le_max_left _ _)
  | add x => exact le_trans hd (le_max_left _ _)
  | radd x => exact le_trans hd (le_max_left _ _)
  | isub x => exact le_trans hd (le_max_left _ _)
  | sub x => exact le_trans hd (le_max_left _ _)
  | rotate ch sh n u =>
    show 1 ≤ rotateDim dim n
    unfold rotateDim; split_ifs <;> omega
  | setDimension n => exact hadm
  | scale args => exact hd
  | imul a => exact hd
  | mul a => exact hd
  | rmul a => exact hd
  | itruediv a => exact hd
  | div a => exact hd
  | mirror n => exact hd
  | project keep => exact hd
  | forceRational => exact hd

/-! ## 3. The main theorem -/

/-- Facts shared by `inplace_wf` and `weights_untouched_wf`. -/
theorem inplace_facts {o o' : Obj K} (h : o.WellFormed) (op : AffOp K) (hadm : op.Admissible)
    (hs : op.inplace o = .ok o') :
    o'.bases = o.bases ∧ o'.counts = o.counts ∧ o'.len = o.len
      ∧ o'.cps.shape = o'.counts ++ [o'.ncomp] ∧ o'.WF
      ∧ (∀ pI < o.len, o'.cpWt pI = o.cpWt pI) := by
  obtain ⟨hA, _, _⟩ := inplace_acts h.toC09 op hadm hs
  obtain ⟨hb, hsh⟩ := inplace_shape op hs
  have hc : o'.counts = o.counts := by unfold Obj.counts; rw [hb]
  have hl : o'.len = o.len := by unfold Obj.len; rw [hc]
  have hdl : o.cps.shape.dropLast = o.counts := by rw [h.shape]; exact List.dropLast_concat
  refine ⟨hb, hc, hl, ?_, hA.wf, ?_⟩
  · rw [hA.wf.shape_eq, hsh, hdl, hc]
  · intro pI hp
    exact hA.wt pI (by rw [h.npts_eq_len]; exact hp)

/-- **The affine family keeps a spline object structurally well formed.** -/
theorem inplace_wf [IsStrictOrderedRing K] {o o' : Obj K} (h : o.WellFormed) (op : AffOp K) (hadm : op.Admissible)
    (hs : op.inplace o = .ok o') : o'.WellFormed := by
  obtain ⟨hA, hd, _⟩ := inplace_acts h.toC09 op hadm hs
  obtain ⟨hb, hc, hl, hshape, hwf, hwt⟩ := inplace_facts h op hadm hs
  have hnc : o'.ncomp = o'.ncompSpec := by
    have := hwf.ncomp_pos
    unfold Obj.ncompSpec Obj.dimension
    split_ifs <;> omega
  have hpd : o'.pardim = o.pardim := by
    rw [pardim_of_shape hshape, pardim_of_shape h.shape, hc]
  refine ⟨?_, ?_, hwf.data_size, ?_, ?_, ?_⟩
  · rw [hb, hpd]; exact h.bases_size
  · rw [← hnc]; exact hshape
  · rw [hd]; exact newDim_pos op hadm _ h.dim_pos
  · intro d hd'
    rw [hb] at hd'
    have : o'.basis d = o.basis d := by unfold Obj.basis; rw [hb]
    rw [this]; exact h.valid d hd'
  · intro hr pI hp
    rw [hl] at hp
    have hw := hwt pI hp
    unfold Obj.cpWt at hw
    rw [if_pos hr] at hw
    rw [wt_eq_cp, hw]
    by_cases hro : o.rational = true
    · rw [if_pos hro]; exact h.weights hro pI hp
    · rw [if_neg hro]; exact zero_lt_one

/-! ## 5. Weights untouched, in the vocabulary of `WellFormed` -/

/-- **Affine operations never touch the weights**: a rational object stays rational, has the same
    number of control points, and every weight is literally the same field element. -/
theorem weights_untouched_wf {o o' : Obj K} (h : o.WellFormed) (op : AffOp K) (hadm : op.Admissible)
    (hs : op.inplace o = .ok o') (hr : o.rational = true) :
    o'.rational = true ∧ o'.len = o.len ∧ ∀ pI < o.len, o'.wt pI = o.wt pI := by
  obtain ⟨_, _, hrat⟩ := inplace_acts h.toC09 op hadm hs
  obtain ⟨_, _, hl, _, _, hwt⟩ := inplace_facts h op hadm hs
  have hr' : o'.rational = true := by
    rw [hrat]; cases op <;> simp [AffOp.newRational, hr]
  refine ⟨hr', hl, fun pI hp => ?_⟩
  have hw := hwt pI hp
  unfold Obj.cpWt at hw
  rwa [if_pos hr', if_pos hr] at hw

end AffOp

/-! ## 4. The `History` form -/

namespace History
open Obj

variable [FloorRing K]

/-- One affine call of a history: the receiver afterwards and every created object are well
    formed (methods and in-place operators return the receiver; infix operators leave the
    receiver untouched and create one object). -/
theorem stepOut_affine_wf [IsStrictOrderedRing K] {o : Obj K} (h : o.WellFormed) (tol : K) (op : AffOp K)
    (hadm : op.Admissible) {out : Out K} (hs : stepOut tol o (.affine op) = .ok out) :
    out.recv.WellFormed ∧ ∀ n ∈ out.news, n.WellFormed := by
  simp only [stepOut, AffOp.step] at hs
  cases hi : op.inplace o with
  | error e => rw [hi] at hs; cases hs
  | ok o' =>
    rw [hi] at hs
    have hw := AffOp.inplace_wf h op hadm hi
    injection hs with hs
    subst hs
    by_cases hx : op.isInfix = true
    · simp [hx, h, hw]
    · simp [hx, hw]

end History

end Splipy
