import Splipy.Lemmas.C12Stages
import Mathlib.Tactic.NormNum
import Mathlib.Data.Rat.Floor
import Mathlib.Tactic.IntervalCases

/-!
# C12 — concrete instances for the non-vacuity examples of `Properties/C12.lean`
-/

namespace Splipy

namespace C12

/-- Decidable equality of concrete bases / tensors / objects (used only by kernel-evaluated examples). -/
@[instance_reducible] def basisDecEq : DecidableEq (Basis ℚ) := fun a b =>
  decidable_of_iff (a.order = b.order ∧ a.knots = b.knots ∧ a.periodic = b.periodic)
    ⟨fun ⟨h1, h2, h3⟩ => by cases a; cases b; simp_all, fun h => by subst h; exact ⟨rfl, rfl, rfl⟩⟩

@[instance_reducible] def tensorDecEq : DecidableEq (Tensor ℚ) := fun a b =>
  decidable_of_iff (a.shape = b.shape ∧ a.data = b.data)
    ⟨fun ⟨h1, h2⟩ => by cases a; cases b; simp_all, fun h => by subst h; exact ⟨rfl, rfl⟩⟩

attribute [local instance] basisDecEq tensorDecEq

@[instance_reducible] def objDecEq : DecidableEq (Obj ℚ) := fun a b =>
  decidable_of_iff (a.bases = b.bases ∧ a.cps = b.cps ∧ a.rational = b.rational)
    ⟨fun ⟨h1, h2, h3⟩ => by cases a; cases b; simp_all, fun h => by subst h; exact ⟨rfl, rfl, rfl⟩⟩

attribute [local instance] objDecEq

/-- `state.knot_tolerance`. -/
def exTol : ℚ := 1 / 10 ^ 10

/-- Order 2 on `[0,2]` resp. `[0,4]` with the same relative interior knot: after `reparam` the two
    knot vectors coincide. -/
def exBasisA : Basis ℚ := ⟨2, #[0, 0, 1, 2, 2], -1⟩
def exBasisB : Basis ℚ := ⟨2, #[0, 0, 2, 4, 4], -1⟩
def exBasisU : Basis ℚ := ⟨2, #[0, 0, 1/2, 1, 1], -1⟩

def exA : Obj ℚ := { bases := #[exBasisA], cps := ⟨[3, 2], #[0, 0, 1, 2, 3, 1]⟩, rational := false }
def exB : Obj ℚ := { bases := #[exBasisB], cps := ⟨[3, 2], #[5, 0, 1, 1, 0, 1]⟩, rational := false }
def exA' : Obj ℚ := { bases := #[exBasisU], cps := ⟨[3, 2], #[0, 0, 1, 2, 3, 1]⟩, rational := false }
def exB' : Obj ℚ := { bases := #[exBasisU], cps := ⟨[3, 2], #[5, 0, 1, 1, 0, 1]⟩, rational := false }

theorem exBasisA_valid : exBasisA.Valid where
  order_pos := by decide
  size_ge := by decide
  sorted := by
    intro i hi
    have hi' : i + 1 < 5 := hi
    have hi'' : i < 4 := by omega
    interval_cases i <;> norm_num [Basis.kn, exBasisA]
  periodic_ge := by decide
  periodic_le := by decide
  start_lt_stop := by norm_num [Basis.start, Basis.stop, Basis.kn, exBasisA]
  ghosts := fun h => absurd h (by decide)

theorem exBasisB_valid : exBasisB.Valid where
  order_pos := by decide
  size_ge := by decide
  sorted := by
    intro i hi
    have hi' : i + 1 < 5 := hi
    have hi'' : i < 4 := by omega
    interval_cases i <;> norm_num [Basis.kn, exBasisB]
  periodic_ge := by decide
  periodic_le := by decide
  start_lt_stop := by norm_num [Basis.start, Basis.stop, Basis.kn, exBasisB]
  ghosts := fun h => absurd h (by decide)

theorem exA_wf : C06.WF exA 1 where
  size := rfl
  valid := by
    intro d
    match d with
    | ⟨0, _⟩ => exact exBasisA_valid
  shape := by decide

theorem exB_wf : C06.WF exB 1 where
  size := rfl
  valid := by
    intro d
    match d with
    | ⟨0, _⟩ => exact exBasisB_valid
  shape := by decide

/-- The four stages on `(exA, exB)`, evaluated by the kernel: only `reparam` changes anything. -/
theorem ex_stages :
    Obj.stageReparam (exA, exB) 0 = .ok (exA', exB')
    ∧ Obj.stagePeriodic (exA', exB') 0 = .ok (exA', exB')
    ∧ Obj.stageOrder exTol true true (exA', exB') 0 = .ok (exA', exB')
    ∧ Obj.stageMerge exTol (max ((exA', exB').1.basis 0).order ((exA', exB').2.basis 0).order) (exA', exB') 0
        = .ok (exA', exB') := by
  refine ⟨?_, ?_, ?_, ?_⟩ <;> decide +kernel

/-- Two WF objects for `C12_compatible`: a non-rational planar curve and a rational space curve. -/
def exP : Obj ℚ := { bases := #[exBasisA], cps := ⟨[3, 2], #[0, 0, 1, 2, 3, 1]⟩, rational := false }
def exR : Obj ℚ :=
  { bases := #[exBasisB], cps := ⟨[3, 4], #[5, 0, 1, 2, 1, 1, 0, 1, 0, 1, 4, 3]⟩, rational := true }

theorem exP_WF : exP.WF := ⟨by decide, by decide, by decide⟩
theorem exR_WF : exR.WF := ⟨by decide, by decide, by decide⟩

/-- A quadratic with a double and a single interior knot on `[0,3]` against a rational quadratic with one
    interior knot on `[1,3]` (a worked example of `harness/props/C12.py`; equal orders, so that the
    kernel can evaluate the whole call — `raise_order` sorts with `mergeSort`, which it cannot unfold). -/
def exQ : Obj ℚ :=
  { bases := #[⟨3, #[0, 0, 0, 1, 2, 2, 3, 3, 3], -1⟩],
    cps := ⟨[6, 2], #[0, 0, 1, 2, 2, 1, 3, 0, 4, 1, 5, 5]⟩, rational := false }
def exL : Obj ℚ :=
  { bases := #[⟨3, #[1, 1, 1, 2, 3, 3, 3], -1⟩],
    cps := ⟨[4, 4], #[0, 0, 1, 1, 1, 2, 0, 2, 2, 1, 3, 1, 0, 1, 1, 1]⟩, rational := true }

/-- `exQ`, `exL` after the `reparam` stage. -/
def exQa : Obj ℚ :=
  { bases := #[⟨3, #[0, 0, 0, 1/3, 2/3, 2/3, 1, 1, 1], -1⟩],
    cps := ⟨[6, 2], #[0, 0, 1, 2, 2, 1, 3, 0, 4, 1, 5, 5]⟩, rational := false }
def exLa : Obj ℚ :=
  { bases := #[⟨3, #[0, 0, 0, 1/2, 1, 1, 1], -1⟩],
    cps := ⟨[4, 4], #[0, 0, 1, 1, 1, 2, 0, 2, 2, 1, 3, 1, 0, 1, 1, 1]⟩, rational := true }

theorem exQ_basis_valid : (exQ.basis 0).Valid where
  order_pos := by decide
  size_ge := by decide
  sorted := by
    intro i hi
    have hi' : i + 1 < 9 := hi
    have hi'' : i < 8 := by omega
    interval_cases i <;> norm_num [Basis.kn, exQ, Obj.basis]
  periodic_ge := by decide
  periodic_le := by decide
  start_lt_stop := by norm_num [Basis.start, Basis.stop, Basis.kn, exQ, Obj.basis]
  ghosts := fun h => absurd h (by decide)

theorem exL_basis_valid : (exL.basis 0).Valid where
  order_pos := by decide
  size_ge := by decide
  sorted := by
    intro i hi
    have hi' : i + 1 < 7 := hi
    have hi'' : i < 6 := by omega
    interval_cases i <;> norm_num [Basis.kn, exL, Obj.basis]
  periodic_ge := by decide
  periodic_le := by decide
  start_lt_stop := by norm_num [Basis.start, Basis.stop, Basis.kn, exL, Obj.basis]
  ghosts := fun h => absurd h (by decide)

theorem exQ_wf : C06.WF exQ 1 where
  size := rfl
  valid := by
    intro d
    match d with
    | ⟨0, _⟩ => exact exQ_basis_valid
  shape := by decide

theorem exL_wf : C06.WF exL 1 where
  size := rfl
  valid := by
    intro d
    match d with
    | ⟨0, _⟩ => exact exL_basis_valid
  shape := by decide

/-- The `reparam` stage of `(exQ, exL)` and the common-entry form of the resulting bases:
    interior entries `1/3` (1, absent), `1/2` (absent, 1), `2/3` (2, absent). -/
theorem exQL_reparam :
    Obj.stageReparam (exQ, exL) 0 = .ok (exQa, exLa)
    ∧ exQa.basis 0 = openBasis 3 (clampedU 0 1 [1/3, 1/2, 2/3]) (clampedM 3 [1, 0, 2])
    ∧ exLa.basis 0 = openBasis 3 (clampedU 0 1 [1/3, 1/2, 2/3]) (clampedM 3 [0, 1, 0]) := by
  refine ⟨?_, ?_, ?_⟩ <;> decide +kernel

/-- A rational LINEAR curve on `[1,3]` (the partner of `exQ` in the worked example of the harness with
    different orders) and its `reparam` stage. -/
def exL2 : Obj ℚ :=
  { bases := #[⟨2, #[1, 1, 2, 3, 3], -1⟩],
    cps := ⟨[3, 4], #[0, 0, 1, 1, 1, 2, 0, 2, 2, 1, 3, 1]⟩, rational := true }
def exL2a : Obj ℚ :=
  { bases := #[⟨2, #[0, 0, 1/2, 1, 1], -1⟩],
    cps := ⟨[3, 4], #[0, 0, 1, 1, 1, 2, 0, 2, 2, 1, 3, 1]⟩, rational := true }

theorem exL2_basis_valid : (exL2.basis 0).Valid where
  order_pos := by decide
  size_ge := by decide
  sorted := by
    intro i hi
    have hi' : i + 1 < 5 := hi
    have hi'' : i < 4 := by omega
    interval_cases i <;> norm_num [Basis.kn, exL2, Obj.basis]
  periodic_ge := by decide
  periodic_le := by decide
  start_lt_stop := by norm_num [Basis.start, Basis.stop, Basis.kn, exL2, Obj.basis]
  ghosts := fun h => absurd h (by decide)

theorem exL2_wf : C06.WF exL2 1 where
  size := rfl
  valid := by
    intro d
    match d with
    | ⟨0, _⟩ => exact exL2_basis_valid
  shape := by decide

theorem exQL2_reparam :
    Obj.stageReparam (exQ, exL2) 0 = .ok (exQa, exL2a)
    ∧ exQa.basis 0 = openBasis 3 (clampedU 0 1 [1/3, 1/2, 2/3]) (clampedM 3 [1, 0, 2])
    ∧ exL2a.basis 0 = openBasis 2 (clampedU 0 1 [1/3, 1/2, 2/3]) (clampedM 2 [0, 1, 0]) := by
  refine ⟨?_, ?_, ?_⟩ <;> decide +kernel

/-- Two bilinear / mixed-order surfaces for the any-pardim theorem: direction 0 has order 2 in both
    (`[0,0,1,2,2]` on `[0,2]` against `[0,0,4,4]` on `[0,4]`), direction 1 differs (order 2 against 3). -/
def exSu0 : Basis ℚ := ⟨2, #[0, 0, 1, 2, 2], -1⟩
def exSu1 : Basis ℚ := ⟨2, #[0, 0, 1, 1], -1⟩
def exSv0 : Basis ℚ := ⟨2, #[0, 0, 4, 4], -1⟩
def exSv1 : Basis ℚ := ⟨3, #[0, 0, 0, 1, 1, 1], -1⟩
def exSA : Obj ℚ :=
  { bases := #[exSu0, exSu1], cps := ⟨[3, 2, 2], #[0, 0, 0, 1, 1, 0, 1, 2, 3, 0, 3, 1]⟩, rational := false }
def exSB : Obj ℚ :=
  { bases := #[exSv0, exSv1], cps := ⟨[2, 3, 2], #[0, 0, 0, 1, 0, 3, 2, 0, 2, 2, 3, 3]⟩, rational := false }
def exSAa : Obj ℚ :=
  { bases := #[⟨2, #[0, 0, 1/2, 1, 1], -1⟩, exSu1], cps := ⟨[3, 2, 2], #[0, 0, 0, 1, 1, 0, 1, 2, 3, 0, 3, 1]⟩,
    rational := false }
def exSBa : Obj ℚ :=
  { bases := #[⟨2, #[0, 0, 1, 1], -1⟩, exSv1], cps := ⟨[2, 3, 2], #[0, 0, 0, 1, 0, 3, 2, 0, 2, 2, 3, 3]⟩,
    rational := false }

theorem exSu0_valid : (exSu0).Valid where
  order_pos := by decide
  size_ge := by decide
  sorted := by
    intro i hi
    have hi' : i + 1 < 5 := hi
    have hi'' : i < 4 := by omega
    interval_cases i <;> norm_num [Basis.kn, exSu0]
  periodic_ge := by decide
  periodic_le := by decide
  start_lt_stop := by norm_num [Basis.start, Basis.stop, Basis.kn, exSu0]
  ghosts := fun h => absurd h (by decide)

theorem exSu1_valid : (exSu1).Valid where
  order_pos := by decide
  size_ge := by decide
  sorted := by
    intro i hi
    have hi' : i + 1 < 4 := hi
    have hi'' : i < 3 := by omega
    interval_cases i <;> norm_num [Basis.kn, exSu1]
  periodic_ge := by decide
  periodic_le := by decide
  start_lt_stop := by norm_num [Basis.start, Basis.stop, Basis.kn, exSu1]
  ghosts := fun h => absurd h (by decide)

theorem exSv0_valid : (exSv0).Valid where
  order_pos := by decide
  size_ge := by decide
  sorted := by
    intro i hi
    have hi' : i + 1 < 4 := hi
    have hi'' : i < 3 := by omega
    interval_cases i <;> norm_num [Basis.kn, exSv0]
  periodic_ge := by decide
  periodic_le := by decide
  start_lt_stop := by norm_num [Basis.start, Basis.stop, Basis.kn, exSv0]
  ghosts := fun h => absurd h (by decide)

theorem exSv1_valid : (exSv1).Valid where
  order_pos := by decide
  size_ge := by decide
  sorted := by
    intro i hi
    have hi' : i + 1 < 6 := hi
    have hi'' : i < 5 := by omega
    interval_cases i <;> norm_num [Basis.kn, exSv1]
  periodic_ge := by decide
  periodic_le := by decide
  start_lt_stop := by norm_num [Basis.start, Basis.stop, Basis.kn, exSv1]
  ghosts := fun h => absurd h (by decide)

theorem exSA_wf : C06.WF exSA 2 where
  size := rfl
  valid := by
    intro d
    match d with
    | ⟨0, _⟩ => exact exSu0_valid
    | ⟨1, _⟩ => exact exSu1_valid
  shape := by decide

theorem exSB_wf : C06.WF exSB 2 where
  size := rfl
  valid := by
    intro d
    match d with
    | ⟨0, _⟩ => exact exSv0_valid
    | ⟨1, _⟩ => exact exSv1_valid
  shape := by decide

theorem exS_reparam :
    Obj.stageReparam (exSA, exSB) 0 = .ok (exSAa, exSBa)
    ∧ exSAa.basis 0 = openBasis 2 (clampedU 0 1 [1/2]) (clampedM 2 [1])
    ∧ exSBa.basis 0 = openBasis 2 (clampedU 0 1 [1/2]) (clampedM 2 [0]) := by
  refine ⟨?_, ?_, ?_⟩ <;> decide +kernel

/-- Direction `v` of the two example surfaces: already on `[0,1]`, orders 2 and 3, no interior knots. -/
theorem exS_reparam_v :
    Obj.stageReparam (exSA, exSB) 1 = .ok (exSA, exSB)
    ∧ exSA.basis 1 = openBasis 2 (clampedU 0 1 []) (clampedM 2 [])
    ∧ exSB.basis 1 = openBasis 3 (clampedU 0 1 []) (clampedM 3 [])
    ∧ exSA.basis 0 = openBasis 2 (clampedU 0 2 [1]) (clampedM 2 [1])
    ∧ exSA.bases.toList = [openBasis 2 (clampedU 0 2 [1]) (clampedM 2 [1]), exSu1] := by
  refine ⟨?_, ?_, ?_, ?_, ?_⟩ <;> decide +kernel

/-- A `C^0`-periodic piecewise linear curve on `[0,2]` (two control points, `n = 2 = p + k`) against an
    open segment: the pair of `C12_periodic_curves_partial`. -/
def exPerB : Basis ℚ := ⟨2, #[-1, 0, 1, 2, 3], 0⟩
def exPer : Obj ℚ := { bases := #[exPerB], cps := ⟨[2, 2], #[0, 0, 1, 2]⟩, rational := false }
def exSeg : Obj ℚ := { bases := #[⟨2, #[0, 0, 1, 1], -1⟩], cps := ⟨[2, 2], #[3, 1, 0, 5]⟩, rational := false }
def exPera : Obj ℚ :=
  { bases := #[⟨2, #[-1/2, 0, 1/2, 1, 3/2], 0⟩], cps := ⟨[2, 2], #[0, 0, 1, 2]⟩, rational := false }

theorem exPerB_valid : exPerB.Valid where
  order_pos := by decide
  size_ge := by decide
  sorted := by
    intro i hi
    have hi' : i + 1 < 5 := hi
    have hi'' : i < 4 := by omega
    interval_cases i <;> norm_num [Basis.kn, exPerB]
  periodic_ge := by decide
  periodic_le := by decide
  start_lt_stop := by norm_num [Basis.start, Basis.stop, Basis.kn, exPerB]
  ghosts := by
    intro _ i hi
    have hi' : i + 2 < 5 := hi
    have hi'' : i < 3 := by omega
    interval_cases i <;> norm_num [Basis.kn, Basis.start, Basis.stop, Basis.numFunctions, exPerB]

theorem exPer_wf : C06.WF exPer 1 where
  size := rfl
  valid := by
    intro d
    match d with
    | ⟨0, _⟩ => exact exPerB_valid
  shape := by decide

theorem exSeg_wf : C06.WF exSeg 1 where
  size := rfl
  valid := by
    intro d
    match d with
    | ⟨0, _⟩ => exact exSu1_valid
  shape := by decide

/-- `reparam` of `(exSeg, exPer)`, and what `lower_periodic(-1)` makes of the periodic basis. -/
theorem exPer_stages :
    Obj.stageReparam (exSeg, exPer) 0 = .ok (exSeg, exPera)
    ∧ exSeg.basis 0 = openBasis 2 (clampedU 0 1 [1/2]) (clampedM 2 [0])
    ∧ (match exPera.lowerPeriodic (-1) 0 with
        | .ok o2 => decide (o2.basis 0 = openBasis 2 (clampedU 0 1 [1/2]) (clampedM 2 [1]))
        | .error _ => false) = true
    ∧ (exPera.basis 0).periodic = ((0 : ℕ) : Int)
    ∧ (exPera.basis 0).order + 0 ≤ (exPera.basis 0).numFunctions
    ∧ (exPera.basis 0).start < (exPera.basis 0).kn (exPera.basis 0).order := by
  refine ⟨?_, ?_, ?_, ?_, ?_, ?_⟩ <;> decide +kernel

/-! ### Normalised bases of the example objects (kernel-evaluated) -/

theorem exQL_norm :
    C06.reparamOk (exQ.basis 0) 0 1 = openBasis 3 (clampedU 0 1 [1/3, 1/2, 2/3]) (clampedM 3 [1, 0, 2])
    ∧ C06.reparamOk (exL.basis 0) 0 1 = openBasis 3 (clampedU 0 1 [1/3, 1/2, 2/3]) (clampedM 3 [0, 1, 0])
    ∧ C06.reparamOk (exL2.basis 0) 0 1 = openBasis 2 (clampedU 0 1 [1/3, 1/2, 2/3]) (clampedM 2 [0, 1, 0]) := by
  refine ⟨?_, ?_, ?_⟩ <;> decide +kernel

theorem exS_norm :
    C06.reparamOk (exSA.basis 0) 0 1 = openBasis 2 (clampedU 0 1 [1/2]) (clampedM 2 [1])
    ∧ C06.reparamOk (exSB.basis 0) 0 1 = openBasis 2 (clampedU 0 1 [1/2]) (clampedM 2 [0])
    ∧ C06.reparamOk (exSA.basis 1) 0 1 = openBasis 2 (clampedU 0 1 []) (clampedM 2 [])
    ∧ C06.reparamOk (exSB.basis 1) 0 1 = openBasis 3 (clampedU 0 1 []) (clampedM 3 [])
    ∧ exSA.basis 0 = openBasis 2 (clampedU 0 2 [1]) (clampedM 2 [1])
    ∧ (C06.reparamObj exSA 1 0 1).bases.toList
        = [openBasis 2 (clampedU 0 2 [1]) (clampedM 2 [1]), openBasis 2 (clampedU 0 1 []) (clampedM 2 [])] := by
  refine ⟨?_, ?_, ?_, ?_, ?_, ?_⟩ <;> decide +kernel

theorem exP_WF' : exSA.WF ∧ exSB.WF := ⟨⟨by decide, by decide, by decide⟩, ⟨by decide, by decide, by decide⟩⟩

theorem exPer_norm :
    C06.reparamOk (exSeg.basis 0) 0 1 = openBasis 2 (clampedU 0 1 [1/2]) (clampedM 2 [0])
    ∧ (match (C06.reparamObj exPer 0 0 1).lowerPeriodic (-1) 0 with
        | .ok o2 => decide (o2.basis 0 = openBasis 2 (clampedU 0 1 [1/2]) (clampedM 2 [1]))
        | .error _ => false) = true
    ∧ (exPer.basis 0).periodic = ((0 : ℕ) : Int)
    ∧ (exPer.basis 0).order + 0 ≤ (exPer.basis 0).numFunctions
    ∧ (exPer.basis 0).start < (exPer.basis 0).kn (exPer.basis 0).order := by
  refine ⟨?_, ?_, ?_, ?_, ?_⟩ <;> decide +kernel

/-! ### Two example volumes (direction 0: different domains and knots; direction 2: different orders) -/

def exVA : Obj ℚ :=
  { bases := #[exSu0, exSu1, exSu1], cps := ⟨[3, 2, 2, 1], #[0, 1, 2, 3, 4, 5, 6, 7, 8, 9, 10, 12]⟩,
    rational := false }
def exVB : Obj ℚ :=
  { bases := #[exSv0, exSu1, exSv1], cps := ⟨[2, 2, 3, 1], #[1, 0, 2, 0, 3, 1, 0, 5, 4, 2, 2, 7]⟩,
    rational := false }

theorem exVA_wf : C06.WF exVA 3 where
  size := rfl
  valid := by
    intro d
    match d with
    | ⟨0, _⟩ => exact exSu0_valid
    | ⟨1, _⟩ => exact exSu1_valid
    | ⟨2, _⟩ => exact exSu1_valid
  shape := by decide

theorem exVB_wf : C06.WF exVB 3 where
  size := rfl
  valid := by
    intro d
    match d with
    | ⟨0, _⟩ => exact exSv0_valid
    | ⟨1, _⟩ => exact exSu1_valid
    | ⟨2, _⟩ => exact exSv1_valid
  shape := by decide

theorem exV_WF : exVA.WF ∧ exVB.WF := ⟨⟨by decide, by decide, by decide⟩, ⟨by decide, by decide, by decide⟩⟩

/-! ### Two periodic quadratic curves of different continuity (`C^0` on `[0,3]`, `C^1` on `[0,4]`) -/

def exPP0 : Basis ℚ := ⟨3, #[-1, 0, 0, 1, 2, 3, 3, 4], 0⟩
def exPP1 : Basis ℚ := ⟨3, #[-2, -1, 0, 1, 2, 3, 4, 5, 6], 1⟩
def exPPA : Obj ℚ := { bases := #[exPP0], cps := ⟨[4, 2], #[0, 0, 1, 2, 3, 1, 2, -1]⟩, rational := false }
def exPPB : Obj ℚ := { bases := #[exPP1], cps := ⟨[4, 2], #[1, 0, 0, 2, -1, 1, 0, -2]⟩, rational := false }

theorem exPP0_valid : exPP0.Valid where
  order_pos := by decide
  size_ge := by decide
  sorted := by
    intro i hi
    have hi' : i + 1 < 8 := hi
    have hi'' : i < 7 := by omega
    interval_cases i <;> norm_num [Basis.kn, exPP0]
  periodic_ge := by decide
  periodic_le := by decide
  start_lt_stop := by norm_num [Basis.start, Basis.stop, Basis.kn, exPP0]
  ghosts := by
    intro _ i hi
    have hi' : i + 4 < 8 := hi
    have hi'' : i < 4 := by omega
    interval_cases i <;> norm_num [Basis.kn, Basis.start, Basis.stop, Basis.numFunctions, exPP0]

theorem exPP1_valid : exPP1.Valid where
  order_pos := by decide
  size_ge := by decide
  sorted := by
    intro i hi
    have hi' : i + 1 < 9 := hi
    have hi'' : i < 8 := by omega
    interval_cases i <;> norm_num [Basis.kn, exPP1]
  periodic_ge := by decide
  periodic_le := by decide
  start_lt_stop := by norm_num [Basis.start, Basis.stop, Basis.kn, exPP1]
  ghosts := by
    intro _ i hi
    have hi' : i + 4 < 9 := hi
    have hi'' : i < 5 := by omega
    interval_cases i <;> decide +kernel

theorem exPPA_wf : C06.WF exPPA 1 where
  size := rfl
  valid := by
    intro d
    match d with
    | ⟨0, _⟩ => exact exPP0_valid
  shape := by decide

theorem exPPB_wf : C06.WF exPPB 1 where
  size := rfl
  valid := by
    intro d
    match d with
    | ⟨0, _⟩ => exact exPP1_valid
  shape := by decide

/-! ### Periodic with FEWER than `p + k` functions: a `C^1`-periodic quadratic curve with `n = 3 < 3 + 1` -/

def exPP2 : Basis ℚ := ⟨3, #[-2, -1, 0, 1, 2, 3, 4, 5], 1⟩
def exPPC : Obj ℚ := { bases := #[exPP2], cps := ⟨[3, 2], #[1, 0, 0, 2, -1, 1]⟩, rational := false }
def exSeg3 : Obj ℚ :=
  { bases := #[⟨3, #[0, 0, 0, 1, 1, 1], -1⟩], cps := ⟨[3, 2], #[3, 1, 0, 5, 2, 2]⟩, rational := false }

theorem exPP2_valid : exPP2.Valid where
  order_pos := by decide
  size_ge := by decide
  sorted := by
    intro i hi
    have hi' : i + 1 < 8 := hi
    have hi'' : i < 7 := by omega
    interval_cases i <;> norm_num [Basis.kn, exPP2]
  periodic_ge := by decide
  periodic_le := by decide
  start_lt_stop := by norm_num [Basis.start, Basis.stop, Basis.kn, exPP2]
  ghosts := by
    intro _ i hi
    have hi' : i + 3 < 8 := hi
    have hi'' : i < 5 := by omega
    interval_cases i <;> decide +kernel

theorem exPPC_wf : C06.WF exPPC 1 where
  size := rfl
  valid := by
    intro d
    match d with
    | ⟨0, _⟩ => exact exPP2_valid
  shape := by decide

theorem exSeg3_wf : C06.WF exSeg3 1 where
  size := rfl
  valid := by
    intro d
    match d with
    | ⟨0, _⟩ => exact exSv1_valid
  shape := by decide

/-- The example has fewer functions than `p + k`; the normalised open partner and what `lower_periodic(-1)`
    (cover branch of the periodic insertion) makes of the periodic basis; the whole model run on the two
    pairs, evaluated by the kernel. -/
theorem exPPC_norm :
    (exPPC.basis 0).numFunctions < (exPPC.basis 0).order + 1
    ∧ (exPPC.basis 0).periodic = ((1 : ℕ) : Int)
    ∧ C06.reparamOk (exSeg3.basis 0) 0 1 = openBasis 3 (clampedU 0 1 [1/3, 2/3]) (clampedM 3 [0, 0])
    ∧ (match (C06.reparamObj exPPC 0 0 1).lowerPeriodic (-1) 0 with
        | .ok o2 => decide (o2.basis 0 = openBasis 3 (clampedU 0 1 [1/3, 2/3]) (clampedM 3 [1, 1]))
        | .error _ => false) = true
    ∧ (match Obj.identicalDir exTol true true (exSeg3, exPPC) 0 with
        | .ok r => decide ((r.1.basis 0).knots = #[0, 0, 0, 1/3, 2/3, 1, 1, 1] ∧ r.2.basis 0 = r.1.basis 0)
        | .error _ => false) = true
    ∧ (match Obj.identicalDir exTol true true (exPPA, exPPC) 0 with
        | .ok r => decide ((r.1.basis 0).knots = #[-1/3, 0, 0, 1/3, 2/3, 1, 1, 4/3] ∧ r.2.basis 0 = r.1.basis 0)
        | .error _ => false) = true := by
  refine ⟨?_, ?_, ?_, ?_, ?_, ?_⟩ <;> decide +kernel

end C12

end Splipy
