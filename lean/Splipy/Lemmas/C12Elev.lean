import Splipy.Lemmas.Elevation

/-!
# C12 — degree elevation: ONE matrix for the specification and for the executable rows

`Lemmas/Elevation.lean` proves `elevation_openBasis` (Cox–de Boor level, every `t`, both sides) and
`elevation_H_incl` (rows of the executable `Basis.evaluate`), each with its own existentially
quantified matrix.  `elevation_both` is the proof of `elevation_H_incl` (copied from there) with the
conclusion kept for both levels and the SAME matrix `A`: this is what lets the net returned by the
model's `raise_order` (determined through the executable rows, C05) be read at the specification
level (`C06.TP.eval`).
-/

namespace Splipy

set_option linter.unusedSectionVars false

variable {K : Type} [Field K] [LinearOrder K] [IsStrictOrderedRing K] [FloorRing K]

namespace C12

theorem elevation_both (tol : K) (htol : 0 < tol) (q a : ℕ) (x0 xl : K) (umid : List K)
    (mmid : List ℕ) (hlen : umid.length = mmid.length)
    (hsep : Separated tol (clampedU x0 xl umid)) (hm : ∀ j ∈ mmid, 1 ≤ j) :
    ∃ A : ℕ → ℕ → K, (∀ i j, 0 ≤ A i j) ∧
      (∀ (s : Side) (c : ℕ → K) (t : K),
        ∑ k ∈ Finset.range
              (openBasis (q+1+a) (clampedU x0 xl umid) (clampedM (q+1+a) (mmid.map (· + a)))).numFunctions,
            B s (openBasis (q+1+a) (clampedU x0 xl umid) (clampedM (q+1+a) (mmid.map (· + a)))).kn (q+a) k t
              * (∑ j ∈ Finset.range
                  (openBasis (q+1) (clampedU x0 xl umid) (clampedM (q+1) mmid)).numFunctions, c j * A j k)
          = ∑ j ∈ Finset.range (openBasis (q+1) (clampedU x0 xl umid) (clampedM (q+1) mmid)).numFunctions,
              B s (openBasis (q+1) (clampedU x0 xl umid) (clampedM (q+1) mmid)).kn q j t * c j) ∧
      ∀ (c : ℕ → K) (t : K),
      ∑ k ∈ Finset.range
            (openBasis (q+1+a) (clampedU x0 xl umid) (clampedM (q+1+a) (mmid.map (· + a)))).numFunctions,
          ((openBasis (q+1+a) (clampedU x0 xl umid) (clampedM (q+1+a) (mmid.map (· + a)))).evaluate
              tol t 0 true).getD k 0
            * (∑ j ∈ Finset.range
                (openBasis (q+1) (clampedU x0 xl umid) (clampedM (q+1) mmid)).numFunctions, c j * A j k)
        = ∑ j ∈ Finset.range (openBasis (q+1) (clampedU x0 xl umid) (clampedM (q+1) mmid)).numFunctions,
            ((openBasis (q+1) (clampedU x0 xl umid) (clampedM (q+1) mmid)).evaluate tol t 0 true).getD j 0
              * c j := by
  have h0 : 0 ≤ tol := le_of_lt htol
  have hMmap := clampedM_map (q+1) a mmid
  rw [← hMmap]
  generalize hU : clampedU x0 xl umid = U at *
  generalize hM : clampedM (q+1) mmid = M at *
  have hlenU : U.length = M.length := by
    rw [← hU, ← hM]; exact clamped_lengths (q+1) x0 xl umid mmid hlen
  have hM1 : ∀ k ∈ M, 1 ≤ k := by
    rw [← hM]; exact clampedM_pos (q+1) (by omega) mmid hm
  have hlenU' : U.length = (M.map (· + a)).length := by simpa using hlenU
  have hM1' : ∀ k ∈ M.map (· + a), 1 ≤ k := by
    intro k hk; rw [List.mem_map] at hk; obtain ⟨j, hj, rfl⟩ := hk
    have := hM1 j hj; omega
  have hu : U.Pairwise (· ≤ ·) := by
    apply List.Pairwise.imp _ hsep
    intro x y h; linarith
  have hU2 : 2 ≤ U.length := by rw [← hU]; simp [clampedU]
  -- validity
  have hv : (openBasis (q+1) U M).Valid := by
    rw [← hU, ← hM]
    exact openBasis_clamped_valid tol h0 (q+1) (by omega) x0 xl umid mmid hlen (hU ▸ hsep)
  have hv' : (openBasis (q+1+a) U (M.map (· + a))).Valid := by
    rw [← hM, clampedM_map (q+1) a mmid, ← hU]
    exact openBasis_clamped_valid tol h0 (q+1+a) (by omega) x0 xl umid _ (by simpa using hlen)
      (hU ▸ hsep)
  have hS := openBasis_separated tol (q+1) U M hsep
  have hS' := openBasis_separated tol (q+1+a) U (M.map (· + a)) hsep
  have hstart : (openBasis (q+1+a) U (M.map (· + a))).start = (openBasis (q+1) U M).start := by
    rw [← hM, clampedM_map (q+1) a mmid, ← hU, clamped_start (q+1+a) (by omega), clamped_start (q+1) (by omega)]
  have hstop : (openBasis (q+1+a) U (M.map (· + a))).stop = (openBasis (q+1) U M).stop := by
    rw [← hM, clampedM_map (q+1) a mmid, ← hU, clamped_stop (q+1+a) (by omega) x0 xl umid _ (by simpa using hlen),
      clamped_stop (q+1) (by omega) x0 xl umid mmid hlen]
  -- numbers of functions
  have hsz : 2 * (q+1) ≤ (expand U M).length := by
    have := hv.size_ge; simpa [openBasis] using this
  have hn : (openBasis (q+1) U M).numFunctions = (expand U M).length - (q+1) := by
    simp [Basis.numFunctions, openBasis]
  have hn' : (openBasis (q+1+a) U (M.map (· + a))).numFunctions
      = (expand U M).length - (q+1) + a * (U.length - 1) := by
    have h1 := length_expand_add a U M hlenU
    have h2 : a * U.length = a * (U.length - 1) + a := by
      obtain ⟨w, hw⟩ : ∃ w, U.length = w + 1 := ⟨U.length - 1, by omega⟩
      rw [hw, Nat.add_sub_cancel, Nat.mul_succ]
    simp only [Basis.numFunctions, openBasis, List.size_toArray]
    rw [h1]
    simp
    omega
  obtain ⟨A, hA, hB⟩ := elevation_openBasis U hu M hlenU hM1 q ((expand U M).length - (q+1))
    (by omega) a
  refine ⟨A, hA, ?_, ?_⟩
  · intro s c t
    rw [hn, hn']
    exact hB s c t
  intro c t
  rw [hn, hn']
  -- snapping
  have hsnap : snap (openBasis (q+1+a) U (M.map (· + a))) tol t = snap (openBasis (q+1) U M) tol t :=
    snap_eq_of_values hv'.kn_mono hv.kn_mono tol t
      (kn_values_expand (q+1+a) (q+1) U (M.map (· + a)) M hlenU hM1)
      (kn_values_expand (q+1) (q+1+a) U M (M.map (· + a)) hlenU' hM1')
  have hex := exactAt_snap hv hS t
  have hex' := exactAt_snap hv' hS' t
  rw [hsnap] at hex'
  rw [evaluate_snap hv htol hS t 0 true, evaluate_snap hv' htol hS' t 0 true, hsnap]
  generalize snap (openBasis (q+1) U M) tol t = t' at hex hex'
  by_cases hin : (openBasis (q+1) U M).start ≤ t' ∧ t' ≤ (openBasis (q+1) U M).stop
  · have hside : effSide (openBasis (q+1+a) U (M.map (· + a))) t' true
        = effSide (openBasis (q+1) U M) t' true := by
      unfold effSide; rw [hstop]
    have e1 : ∀ j ∈ Finset.range ((expand U M).length - (q+1)),
        ((openBasis (q+1) U M).evaluate tol t' 0 true).getD j 0 * c j
          = B (effSide (openBasis (q+1) U M) t' true) (openBasis (q+1) U M).kn q j t' * c j := by
      intro j hj
      rw [Finset.mem_range, ← hn] at hj
      rw [evaluate_inside_right hv rfl htol hex hin.1 hin.2 hj]
      rfl
    have e2 : ∀ k ∈ Finset.range ((expand U M).length - (q+1) + a * (U.length - 1)),
        ((openBasis (q+1+a) U (M.map (· + a))).evaluate tol t' 0 true).getD k 0
            * (∑ j ∈ Finset.range ((expand U M).length - (q+1)), c j * A j k)
          = B (effSide (openBasis (q+1) U M) t' true) (openBasis (q+1+a) U (M.map (· + a))).kn (q+a) k t'
            * (∑ j ∈ Finset.range ((expand U M).length - (q+1)), c j * A j k) := by
      intro k hk
      rw [Finset.mem_range, ← hn'] at hk
      rw [evaluate_inside_right hv' rfl htol hex' (by rw [hstart]; exact hin.1)
        (by rw [hstop]; exact hin.2) hk, hside]
      have eo : (openBasis (q+1+a) U (M.map (· + a))).order - 1 = q + a := by
        show q + 1 + a - 1 = q + a
        omega
      rw [eo]
    rw [Finset.sum_congr rfl e1, Finset.sum_congr rfl e2]
    exact hB _ c t'
  · have hout : t' < (openBasis (q+1) U M).start ∨ (openBasis (q+1) U M).stop < t' := by
      by_contra hc
      push Not at hc
      exact hin ⟨hc.1, hc.2⟩
    have hout' : t' < (openBasis (q+1+a) U (M.map (· + a))).start
        ∨ (openBasis (q+1+a) U (M.map (· + a))).stop < t' := by
      rw [hstart, hstop]; exact hout
    rw [Finset.sum_eq_zero, Finset.sum_eq_zero]
    · intro j _
      rw [evaluate_outside_right hv rfl htol hex hout, zero_mul]
    · intro k _
      rw [evaluate_outside_right hv' rfl htol hex' hout', zero_mul]

end C12

end Splipy
