import Splipy.Lemmas.C14Unique

/-!
# C14 helper lemmas: interpolation and least squares are projections (matrix level)
-/

namespace Splipy
open Finset

namespace Interp
variable {K : Type} [Field K] [LinearOrder K]

/-- If `N` is invertible (the model computes `invC N`) and `N·c = N·c0` column `j`, then the columns agree. -/
theorem solve_unique {N Ni c x : Mat K} (c0 : ℕ → ℕ → K) (hinv : invC N = .ok Ni) (hc : solveC N x = .ok c)
    (j : ℕ) (hj : j < c.ncols) (hn : 0 < N.size)
    (hx : ∀ i < N.size, x.get i j = ∑ l ∈ range N.size, N.get i l * c0 l j) :
    ∀ l < N.size, c.get l j = c0 l j := by
  have hrows : c.nrows = N.size := by
    have := (solveC_ok hc).1
    unfold Mat.nrows; rw [this]
    exact (invC_ok hinv).1 0 hn
  apply solution_unique_c14 N.size (fun p r => N.get p r) (fun p r => Ni.get p r) (fun l => c.get l j) (fun l => c0 l j)
  · intro p hp i hi
    exact invC_entries hinv p i hp hi
  · intro i hi
    have := solveC_entries hc i j hi hj
    rw [hrows] at this
    rw [this, hx i hi]

/-- Entries of the normal matrix `NᵀN`. -/
theorem get_normal (N : Mat K) (i l : ℕ) (hi : i < N.ncols) (hl : l < N.ncols) :
    (Mat.mul (Mat.transpose N) N).get i l = ∑ r ∈ range N.nrows, N.get r i * N.get r l := by
  rw [Mat.get_mul_c14 _ _ _ _ (by rw [Mat.nrows_transpose_c14]; exact hi) hl]
  exact sum_congr rfl (fun r hr => by rw [Mat.get_transpose_c14 N i r hi (mem_range.mp hr)])

theorem get_normal_rhs (N x : Mat K) (i j : ℕ) (hi : i < N.ncols) (hj : j < x.ncols) (hx : x.nrows = N.nrows) :
    (Mat.mul (Mat.transpose N) x).get i j = ∑ r ∈ range N.nrows, N.get r i * x.get r j := by
  rw [Mat.get_mul_c14 _ _ _ _ (by rw [Mat.nrows_transpose_c14]; exact hi) hj, hx]
  exact sum_congr rfl (fun r hr => by rw [Mat.get_transpose_c14 N i r hi (mem_range.mp hr)])

end Interp
end Splipy
