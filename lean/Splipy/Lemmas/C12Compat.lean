import Splipy.Model.Identical
import Splipy.Lemmas.C09Ops

/-!
# C12 — `make_splines_compatible`: both objects end in the same space, geometry embedded

`Obj.Embeds o o'`: `o'` has the bases and the number of control points of `o`, at least its
dimension, the same zero-padded physical coordinates at every control point (so coordinates
`o.dimension ≤ c < o'.dimension` are zero) and the same weights (`1` standing for "non-rational").
`force_rational` and a growing `set_dimension` are embeddings (C09: `forceRational_acts`,
`setDimension_acts`); `make_splines_compatible` applies at most one of each to each object.
-/

namespace Splipy

set_option linter.unusedSectionVars false

namespace Obj

variable {K : Type} [Field K]

/-- `o'` is `o` embedded in a (possibly) higher-dimensional, (possibly) rational representation. -/
structure Embeds (o o' : Obj K) : Prop where
  bases : o'.bases = o.bases
  npts : o'.npts = o.npts
  wf : o'.WF
  dim_le : o.dimension ≤ o'.dimension
  phys : ∀ pI < o.npts, o'.cpPhys pI = o.cpPhys pI
  wt : ∀ pI < o.npts, o'.cpWt pI = o.cpWt pI

theorem Embeds.refl {o : Obj K} (h : o.WF) : Embeds o o :=
  ⟨rfl, rfl, h, le_rfl, fun _ _ => rfl, fun _ _ => rfl⟩

theorem Embeds.trans {o o' o'' : Obj K} (h1 : Embeds o o') (h2 : Embeds o' o'') : Embeds o o'' where
  bases := h2.bases.trans h1.bases
  npts := h2.npts.trans h1.npts
  wf := h2.wf
  dim_le := le_trans h1.dim_le h2.dim_le
  phys := fun pI hp => (h2.phys pI (by rw [h1.npts]; exact hp)).trans (h1.phys pI hp)
  wt := fun pI hp => (h2.wt pI (by rw [h1.npts]; exact hp)).trans (h1.wt pI hp)

/-- An action by a homogeneous-linear map that fixes every point supported in the first
    `o.dimension` coordinates, without translation, is an embedding. -/
theorem Embeds.of_acts {o o' : Obj K} {A : HomAffine K} (h : Acts o o' A) (hd : o.dimension ≤ o'.dimension)
    (hlin : ∀ p : ℕ → K, (∀ i, o.dimension ≤ i → p i = 0) → A.lin p = p) (htr : A.tr = 0) :
    Embeds o o' where
  bases := h.bases
  npts := h.npts
  wf := h.wf
  dim_le := hd
  phys := by
    intro pI hp
    rw [h.phys pI hp, hlin _ (o.cpPhys_support pI), htr]
    simp
  wt := h.wt

theorem forceRational_embeds {o : Obj K} (h : o.WF) : Embeds o o.forceRational :=
  Embeds.of_acts (forceRational_acts h) (by rw [forceRational_dimension])
    (fun p _ => by simp [HomAffine.id]) (by simp [HomAffine.id])

section
variable [LinearOrder K] [FloorRing K]

theorem setDimensionTo_embeds {o : Obj K} (h : o.WF) (n : ℕ) (hn : o.dimension ≤ n) :
    Embeds o (o.setDimensionTo n) := by
  unfold setDimensionTo
  by_cases he : n = o.dimension
  · rw [if_pos he]; exact Embeds.refl h
  · rw [if_neg he]
    have hpos : 0 < n := by omega
    refine Embeds.of_acts (setDimension_acts h n (Or.inl hpos)) (by rw [setDimension_dimension h]; exact hn)
      ?_ rfl
    intro p hp
    funext i
    rw [C09.linTrunc_apply]
    by_cases hi : i < n
    · rw [if_pos hi]
    · rw [if_neg hi, hp i (by omega)]

theorem setDimensionTo_dimension {o : Obj K} (h : o.WF) (n : ℕ) : (o.setDimensionTo n).dimension = n := by
  unfold setDimensionTo
  by_cases he : n = o.dimension
  · rw [if_pos he, he]
  · rw [if_neg he, setDimension_dimension h]

theorem setDimensionTo_rational (o : Obj K) (n : ℕ) : (o.setDimensionTo n).rational = o.rational := by
  unfold setDimensionTo
  split_ifs <;> rfl

theorem setDimensionTo_self (o : Obj K) : o.setDimensionTo o.dimension = o := by
  unfold setDimensionTo; rw [if_pos rfl]

/-- **`make_splines_compatible`**: both results embed their inputs; common dimension
    `max d₁ d₂`, common rationality `r₁ ∨ r₂`. -/
theorem makeCompatible_spec {o1 o2 : Obj K} (h1 : o1.WF) (h2 : o2.WF) :
    Embeds o1 (makeCompatible o1 o2).1 ∧ Embeds o2 (makeCompatible o1 o2).2
    ∧ (makeCompatible o1 o2).1.dimension = max o1.dimension o2.dimension
    ∧ (makeCompatible o1 o2).2.dimension = max o1.dimension o2.dimension
    ∧ (makeCompatible o1 o2).1.rational = (o1.rational || o2.rational)
    ∧ (makeCompatible o1 o2).2.rational = (o1.rational || o2.rational) := by
  -- the rational step
  set p : Obj K × Obj K :=
    if o1.rational then (o1, o2.forceRational)
    else if o2.rational then (o1.forceRational, o2) else (o1, o2) with hp
  have hP : Embeds o1 p.1 ∧ Embeds o2 p.2 ∧ p.1.dimension = o1.dimension ∧ p.2.dimension = o2.dimension
      ∧ p.1.rational = (o1.rational || o2.rational) ∧ p.2.rational = (o1.rational || o2.rational) := by
    by_cases hr1 : o1.rational = true
    · have : p = (o1, o2.forceRational) := by rw [hp, if_pos hr1]
      rw [this]
      exact ⟨Embeds.refl h1, forceRational_embeds h2, rfl, forceRational_dimension o2,
        by simp [hr1], by simp [forceRational_rational, hr1]⟩
    · have hr1' : o1.rational = false := by simpa using hr1
      by_cases hr2 : o2.rational = true
      · have : p = (o1.forceRational, o2) := by rw [hp, if_neg hr1, if_pos hr2]
        rw [this]
        exact ⟨forceRational_embeds h1, Embeds.refl h2, forceRational_dimension o1, rfl,
          by simp [forceRational_rational, hr2], by simp [hr2]⟩
      · have hr2' : o2.rational = false := by simpa using hr2
        have : p = (o1, o2) := by rw [hp, if_neg hr1, if_neg hr2]
        rw [this]
        exact ⟨Embeds.refl h1, Embeds.refl h2, rfl, rfl, by simp [hr1', hr2'], by simp [hr1', hr2']⟩
  obtain ⟨e1, e2, d1, d2, r1, r2⟩ := hP
  have hmc : makeCompatible o1 o2 =
      if p.1.dimension > p.2.dimension then (p.1, p.2.setDimensionTo p.1.dimension)
      else (p.1.setDimensionTo p.2.dimension, p.2) := rfl
  rw [hmc]
  by_cases hgt : p.1.dimension > p.2.dimension
  · rw [if_pos hgt]
    refine ⟨e1, e2.trans (setDimensionTo_embeds e2.wf _ (le_of_lt hgt)), ?_, ?_, r1, ?_⟩
    · show p.1.dimension = _
      rw [d1]; rw [d1, d2] at hgt; exact (max_eq_left (le_of_lt hgt)).symm
    · show (p.2.setDimensionTo p.1.dimension).dimension = _
      rw [setDimensionTo_dimension e2.wf, d1]; rw [d1, d2] at hgt; exact (max_eq_left (le_of_lt hgt)).symm
    · show (p.2.setDimensionTo p.1.dimension).rational = _
      rw [setDimensionTo_rational, r2]
  · rw [if_neg hgt]
    have hle : p.1.dimension ≤ p.2.dimension := not_lt.mp hgt
    refine ⟨e1.trans (setDimensionTo_embeds e1.wf _ hle), e2, ?_, ?_, ?_, r2⟩
    · show (p.1.setDimensionTo p.2.dimension).dimension = _
      rw [setDimensionTo_dimension e1.wf, d2]; rw [d1, d2] at hle; exact (max_eq_right hle).symm
    · show p.2.dimension = _
      rw [d2]; rw [d1, d2] at hle; exact (max_eq_right hle).symm
    · show (p.1.setDimensionTo p.2.dimension).rational = _
      rw [setDimensionTo_rational, r1]

/-- `make_splines_compatible` is idempotent: on its own output it changes nothing (the reason why
    the recursive calls of `make_splines_identical(direction=None)` may repeat it). -/
theorem makeCompatible_idem {o1 o2 : Obj K} (h1 : o1.WF) (h2 : o2.WF) :
    makeCompatible (makeCompatible o1 o2).1 (makeCompatible o1 o2).2 = makeCompatible o1 o2 := by
  obtain ⟨_, _, d1, d2, r1, r2⟩ := makeCompatible_spec h1 h2
  set c := makeCompatible o1 o2 with hc
  have hdim : c.1.dimension = c.2.dimension := d1.trans d2.symm
  have hrat : c.1.rational = c.2.rational := r1.trans r2.symm
  unfold makeCompatible
  by_cases hr : c.1.rational = true
  · have hr2 : c.2.rational = true := by rw [← hrat]; exact hr
    simp only [hr, if_true, forceRational_of_rational c.2 hr2]
    rw [if_neg (by rw [hdim]; exact lt_irrefl _), ← hdim, setDimensionTo_self]
  · have hr' : c.1.rational = false := by simpa using hr
    have hr2 : c.2.rational = false := by rw [← hrat]; exact hr'
    simp only [hr', hr2, Bool.false_eq_true, if_false]
    rw [if_neg (by rw [hdim]; exact lt_irrefl _), ← hdim, setDimensionTo_self]

end

/-- The evaluated point (any finite family of basis weights over the control points) of an
    embedded object is the old one, zero-padded. -/
theorem Embeds.evalPt {o o' : Obj K} (h : Embeds o o') (s : Finset ℕ) (hs : ∀ i ∈ s, i < o.npts)
    (w : ℕ → K) : C09.evalPt s w o'.cpPhys o'.cpWt = C09.evalPt s w o.cpPhys o.cpWt :=
  C09.evalPt_congr s w (fun i hi => h.phys i (hs i hi)) (fun i hi => h.wt i (hs i hi))

/-- Componentwise reading of `Embeds`: old coordinates kept, padded coordinates zero. -/
theorem Embeds.cp {o o' : Obj K} (h : Embeds o o') (pI : ℕ) (hp : pI < o.npts) (c : ℕ)
    (hc : c < o'.dimension) : o'.cp pI c = if c < o.dimension then o.cp pI c else 0 := by
  have := congrFun (h.phys pI hp) c
  unfold cpPhys at this
  rw [if_pos hc] at this
  exact this

/-- A promoted object (non-rational before, rational after) has all weights `1`. -/
theorem Embeds.weight_one {o o' : Obj K} (h : Embeds o o') (hr : o.rational = false)
    (hr' : o'.rational = true) (pI : ℕ) (hp : pI < o.npts) : o'.cp pI o'.dimension = 1 := by
  have := h.wt pI hp
  unfold cpWt at this
  rw [if_pos hr', hr] at this
  simpa using this

/-- An object that was rational keeps its weights. -/
theorem Embeds.weight_kept {o o' : Obj K} (h : Embeds o o') (hr : o.rational = true)
    (hr' : o'.rational = true) (pI : ℕ) (hp : pI < o.npts) :
    o'.cp pI o'.dimension = o.cp pI o.dimension := by
  have := h.wt pI hp
  unfold cpWt at this
  rwa [if_pos hr', if_pos hr] at this

end Obj

end Splipy
