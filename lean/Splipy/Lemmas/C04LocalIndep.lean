import Splipy.Lemmas.SchoenbergWhitney
import Splipy.Lemmas.Triangle

/-!
# C04 helper lemmas, part 18: local linear independence of B-splines

On a non-empty knot interval `(τ μ, τ (μ+1))` the `q+1` B-splines of degree `q ≥ 1` that do not
vanish there are linearly independent (total positivity of the collocation matrix at `q+1` points
of the interval, `colloc_det_nonneg_pos`).
-/

namespace Splipy
namespace C04

set_option linter.unusedSectionVars false

variable {K : Type} [Field K] [LinearOrder K] [IsStrictOrderedRing K]

theorem local_indep (τ : ℕ → K) (hτ : Monotone τ) (q μ : ℕ) (hq : 1 ≤ q) (hμ : q ≤ μ)
    (hlt : τ μ < τ (μ + 1)) (e : ℕ → K)
    (h : ∀ t, τ μ < t → t < τ (μ + 1) →
        ∑ j ∈ Finset.range (q + 1), e j * B .right τ q (μ - q + j) t = 0) :
    ∀ j, j < q + 1 → e j = 0 := by
  set hh := τ (μ + 1) - τ μ with hhdef
  have hhpos : 0 < hh := sub_pos.2 hlt
  have hq2 : (0 : K) < (q : K) + 2 := by positivity
  let x : Fin (q + 1) → K := fun a => τ μ + (((a.val : K) + 1) / ((q : K) + 2)) * hh
  let J : Fin (q + 1) → ℕ := fun a => μ - q + a.val
  have hx : StrictMono x := by
    intro a b hab
    have hab' : (a.val : K) < (b.val : K) := by exact_mod_cast hab
    show τ μ + (((a.val : K) + 1) / ((q : K) + 2)) * hh < τ μ + (((b.val : K) + 1) / ((q : K) + 2)) * hh
    have : ((a.val : K) + 1) / ((q : K) + 2) < ((b.val : K) + 1) / ((q : K) + 2) :=
      div_lt_div_of_pos_right (by linarith) hq2
    have := mul_lt_mul_of_pos_right this hhpos
    linarith
  have hJ : StrictMono J := by
    intro a b hab
    show μ - q + a.val < μ - q + b.val
    have : a.val < b.val := hab
    omega
  have hx1 : ∀ a, τ μ < x a := by
    intro a
    show τ μ < τ μ + (((a.val : K) + 1) / ((q : K) + 2)) * hh
    have : 0 < ((a.val : K) + 1) / ((q : K) + 2) := by positivity
    have := mul_pos this hhpos
    linarith
  have hx2 : ∀ a, x a < τ (μ + 1) := by
    intro a
    show τ μ + (((a.val : K) + 1) / ((q : K) + 2)) * hh < τ (μ + 1)
    have ha : (a.val : K) + 1 < (q : K) + 2 := by
      have : a.val < q + 1 := a.isLt
      have : (a.val : K) < (q : K) + 1 := by exact_mod_cast this
      linarith
    have : ((a.val : K) + 1) / ((q : K) + 2) < 1 := (div_lt_one hq2).2 ha
    have := mul_lt_mul_of_pos_right this hhpos
    rw [one_mul] at this
    linarith
  have hnest : Nested τ q x J := by
    intro a
    refine ⟨lt_of_le_of_lt (hτ (show J a ≤ μ by show μ - q + a.val ≤ μ; have := a.isLt; omega)) (hx1 a),
      lt_of_lt_of_le (hx2 a) (hτ (show μ + 1 ≤ J a + q + 1 by show μ + 1 ≤ μ - q + a.val + q + 1; omega))⟩
  have hdet := (colloc_det_nonneg_pos τ hτ q hq x hx
    (fun a => ⟨μ, hμ, le_of_lt (hx1 a), hx2 a⟩) J hJ).2 hnest
  have hmv : (colloc τ q x J).mulVec (fun b : Fin (q + 1) => e b.val) = 0 := by
    funext a
    have := h (x a) (hx1 a) (hx2 a)
    simp only [Matrix.mulVec, dotProduct, colloc, Matrix.of_apply, Pi.zero_apply]
    rw [← this, Fin.sum_univ_eq_sum_range
      (fun b => B .right τ q (μ - q + b) (x a) * e b) (q + 1)]
    apply Finset.sum_congr rfl
    intro b _
    ring
  have hz := Matrix.eq_zero_of_mulVec_eq_zero (ne_of_gt hdet) hmv
  intro j hj
  have := congrFun hz ⟨j, hj⟩
  simpa using this

/-- **Uniqueness on a window.**  If a combination of the first `L` B-splines vanishes on the
    whole interval `[κ q, κ L)`, then at every parameter of the interval (one-sided), for every
    function either its coefficient is zero or the function (with all derivatives) vanishes there. -/
theorem uniq_window (κ : ℕ → K) (hκ : Monotone κ) (q L : ℕ) (hq : 1 ≤ q) (E : ℕ → K)
    (hz : ∀ t, κ q ≤ t → t < κ L → ∑ i ∈ Finset.range L, E i * B .right κ q i t = 0)
    (s : Side) (d : ℕ) (t : K) (ht : s.mem (κ q) (κ L) t) (i : ℕ) (hi : i < L) :
    E i = 0 ∨ dB s κ q i d t = 0 := by
  -- the knot interval that contains `t`
  obtain ⟨μ, hμq, hμL, hlt, hmem⟩ : ∃ μ, q ≤ μ ∧ μ + 1 ≤ L ∧ κ μ < κ (μ + 1) ∧
      s.mem (κ μ) (κ (μ + 1)) t := by
    cases s with
    | right =>
      obtain ⟨h1, h2, h3⟩ := bisectRight_spec κ hκ t (L + 1)
      set m := bisectRight κ t (L + 1) with hm
      have hmL : m ≤ L := by
        by_contra hc
        exact absurd (h2 L (by omega)) (not_le.2 ht.2)
      have hmq : q < m := by
        by_contra hc
        have hqL : q < L + 1 := by
          by_contra hc'
          exact absurd (lt_of_le_of_lt ht.1 ht.2) (not_lt.2 (hκ (by omega)))
        exact absurd (h3 q (by omega) hqL) (not_lt.2 ht.1)
      refine ⟨m - 1, by omega, by omega, ?_, ?_⟩
      · rw [show m - 1 + 1 = m by omega]
        exact lt_of_le_of_lt (h2 (m - 1) (by omega)) (h3 m le_rfl (by omega))
      · rw [show m - 1 + 1 = m by omega]
        exact ⟨h2 (m - 1) (by omega), h3 m le_rfl (by omega)⟩
    | left =>
      obtain ⟨h1, h2, h3⟩ := bisectLeft_spec κ hκ t (L + 1)
      set m := bisectLeft κ t (L + 1) with hm
      have hmL : m ≤ L := by
        by_contra hc
        exact absurd (h2 L (by omega)) (not_lt.2 ht.2)
      have hmq : q < m := by
        by_contra hc
        have hqL : q < L + 1 := by
          by_contra hc'
          exact absurd (lt_of_lt_of_le ht.1 ht.2) (not_lt.2 (hκ (by omega)))
        exact absurd (h3 q (by omega) hqL) (not_le.2 ht.1)
      refine ⟨m - 1, by omega, by omega, ?_, ?_⟩
      · rw [show m - 1 + 1 = m by omega]
        exact lt_of_lt_of_le (h2 (m - 1) (by omega)) (h3 m le_rfl (by omega))
      · rw [show m - 1 + 1 = m by omega]
        exact ⟨h2 (m - 1) (by omega), h3 m le_rfl (by omega)⟩
  -- local independence on that interval
  have hE : ∀ j, j < q + 1 → E (μ - q + j) = 0 := by
    apply local_indep κ hκ q μ hq hμq hlt (fun j => E (μ - q + j))
    intro t' h1 h2
    have h0 := hz t' (le_trans (hκ hμq) (le_of_lt h1)) (lt_of_lt_of_le h2 (hκ hμL))
    rw [show L = (μ - q) + ((q + 1) + (L - μ - 1)) by omega, Finset.sum_range_add,
      Finset.sum_range_add] at h0
    have z1 : ∑ x ∈ Finset.range (μ - q), E x * B .right κ q x t' = 0 := by
      apply Finset.sum_eq_zero
      intro x hx
      have hx' := Finset.mem_range.1 hx
      rw [B_support_right κ hκ q x t' (Or.inr (le_trans (hκ (by omega)) (le_of_lt h1))), mul_zero]
    have z2 : ∑ x ∈ Finset.range (L - μ - 1),
        E (μ - q + (q + 1 + x)) * B .right κ q (μ - q + (q + 1 + x)) t' = 0 := by
      apply Finset.sum_eq_zero
      intro x _
      rw [B_support_right κ hκ q _ t' (Or.inl (lt_of_lt_of_le h2 (hκ (by omega)))), mul_zero]
    rw [z1, z2, zero_add, add_zero] at h0
    exact h0
  by_cases hin : μ - q ≤ i ∧ i ≤ μ
  · left
    have := hE (i - (μ - q)) (by omega)
    rwa [show μ - q + (i - (μ - q)) = i by omega] at this
  · right
    cases s with
    | right =>
      apply dB_support_right κ hκ
      by_cases h : i ≤ μ
      · exact Or.inr (le_trans (hκ (by omega)) hmem.1)
      · exact Or.inl (lt_of_lt_of_le hmem.2 (hκ (by omega)))
    | left =>
      apply dB_support_left κ hκ
      by_cases h : i ≤ μ
      · exact Or.inr (lt_of_le_of_lt (hκ (by omega)) hmem.1)
      · exact Or.inl (le_trans hmem.2 (hκ (by omega)))

end C04
end Splipy
