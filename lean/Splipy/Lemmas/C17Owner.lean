import Splipy.Lemmas.C17Lookup

/-!
# Frame lemmas for `TNode.owner` in the catalogue (used by property C18)

"A node keeps its owner unless it is an owner-less facet of a node that is being created (or
lies below such a facet)": through `transferOwnership`, `newNode`, `addNode`, `resolve`,
`lookupPoint` and the nested loops of `lookup`.  Everything is in the namespace `Splipy.MP.Own`.
-/

namespace Splipy.MP.Own

open Splipy.MP

/-- facets are existing nodes of parametric dimension exactly one less -/
def DimOK (m : Model) : Prop :=
  ∀ c, c < m.nodes.size → ∀ k ∈ (m.node c).lower.getLastD [], k < m.nodes.size ∧ (m.node k).pardim + 1 = (m.node c).pardim

theorem DimOK.of_same {m m' : Model} (h : DimOK m) (hs : SameCore m m') : DimOK m' := by
  intro c hc k hk
  rw [hs.size] at hc
  rw [hs.lower] at hk
  obtain ⟨h1, h2⟩ := h c hc k hk
  exact ⟨by rw [hs.size]; exact h1, by rw [hs.pardim, hs.pardim]; exact h2⟩

theorem node_default {m : Model} {c : ℕ} (h : ¬ c < m.nodes.size) : m.node c = default := by
  unfold Model.node
  rw [Array.getD_eq_getD_getElem?, Array.getElem?_eq_none (by omega)]; rfl

theorem owner_modify_other (m : Model) (i c : ℕ) (f : TNode → TNode) (h : c ≠ i) :
    ((m.modifyNode i f).node c).owner = (m.node c).owner := by
  rw [Model.node_modifyNode, if_neg (fun hh => h hh.1.symm)]

/-- `transferOwnership` on `self` changes the owner of `self` and of nodes of smaller dimension only -/
theorem transfer_owner (fuel : ℕ) : ∀ (m : Model) (self newOwner : ℕ), DimOK m →
    ∀ c, c ≠ self → (m.node self).pardim ≤ (m.node c).pardim →
      ((Model.transferOwnership fuel m self newOwner).node c).owner = (m.node c).owner := by
  induction fuel with
  | zero => intro m self newOwner _ c _ _; rfl
  | succ fuel ih =>
    intro m self newOwner hD c hcs hdim
    simp only [Model.transferOwnership]
    set m1 := m.modifyNode self (fun n => { n with owner := some newOwner }) with hm1
    have hS1 : SameCore m m1 := SameCore.modifyNode m self _ (fun _ => ⟨rfl, rfl, rfl⟩)
    have hc1 : (m1.node c).owner = (m.node c).owner := owner_modify_other m self c _ hcs
    split
    · -- the loop over the facets of `self`
      have key : ∀ (L : List ℕ) (m' : Model), SameCore m m' →
          (∀ child ∈ L, (m.node child).pardim < (m.node self).pardim) →
          ((L.foldl (fun m child =>
              let c := m.node child
              if c.owner == some self || c.owner == none then Model.transferOwnership fuel m child newOwner else m) m').node c).owner
            = (m'.node c).owner := by
        intro L
        induction L with
        | nil => intro m' _ _; rfl
        | cons child L ihL =>
          intro m' hS hL
          simp only [List.foldl_cons]
          have hchild := hL child (by simp)
          split
          · rw [ihL _ (hS.trans (SameCore.transferOwnership _ _ _ _)) (fun x hx => hL x (List.mem_cons_of_mem _ hx))]
            refine ih m' child newOwner (hD.of_same hS) c ?_ ?_
            · intro h; subst h; omega
            · rw [hS.pardim, hS.pardim]; omega
          · exact ihL m' hS (fun x hx => hL x (List.mem_cons_of_mem _ hx))
      rw [key _ m1 hS1 ?_, hc1]
      intro child hchild
      rw [hS1.lower] at hchild
      by_cases hself : self < m.nodes.size
      · have := (hD self hself child hchild).2
        omega
      · rw [node_default hself] at hchild
        have hd : (default : TNode).lower = [] := rfl
        rw [hd] at hchild
        simp at hchild
    · exact hc1

/-- the loop over the children inside `transferOwnership` / `newNode` keeps the owner of every node
    that is none of the children and not below them -/
theorem foldChildren_owner (fuel : ℕ) (m0 : Model) (hD : DimOK m0) (c : ℕ) (step : Model → ℕ → Bool) (newOwner : ℕ) :
    ∀ (L : List ℕ) (m' : Model), SameCore m0 m' →
      (∀ child ∈ L, c ≠ child ∧ (m0.node child).pardim ≤ (m0.node c).pardim) →
      ((L.foldl (fun m child => if step m child then Model.transferOwnership fuel m child newOwner else m) m').node c).owner
        = (m'.node c).owner := by
  intro L
  induction L with
  | nil => intro m' _ _; rfl
  | cons child L ihL =>
    intro m' hS hL
    simp only [List.foldl_cons]
    obtain ⟨hne, hle⟩ := hL child (by simp)
    split
    · rw [ihL _ (hS.trans (SameCore.transferOwnership _ _ _ _)) (fun x hx => hL x (List.mem_cons_of_mem _ hx))]
      exact transfer_owner fuel m' child newOwner (hD.of_same hS) c hne (by rw [hS.pardim, hS.pardim]; exact hle)
    · exact ihL m' hS (fun x hx => hL x (List.mem_cons_of_mem _ hx))

/-- `transferOwnership` gives `self` the new owner -/
theorem transfer_self (fuel : ℕ) (m : Model) (self newOwner : ℕ) (hD : DimOK m) (hself : self < m.nodes.size) :
    ((Model.transferOwnership (fuel + 1) m self newOwner).node self).owner = some newOwner := by
  simp only [Model.transferOwnership]
  set m1 := m.modifyNode self (fun n => { n with owner := some newOwner }) with hm1
  have hS1 : SameCore m m1 := SameCore.modifyNode m self _ (fun _ => ⟨rfl, rfl, rfl⟩)
  have h1 : (m1.node self).owner = some newOwner := by
    rw [hm1, Model.node_modifyNode, if_pos ⟨rfl, hself⟩]
  split
  · have := foldChildren_owner fuel m hD self
      (fun m child => (m.node child).owner == some self || (m.node child).owner == none) newOwner
      ((m1.node self).lower.getLastD []) m1 hS1 (by
        intro child hchild
        rw [hS1.lower] at hchild
        have := (hD self hself child hchild).2
        exact ⟨by intro h; subst h; omega, by omega⟩)
    rw [← h1, ← this]
  · exact h1

/-- the ownership loop of `TopologicalNode.__init__`: owner-less facets get the new node -/
theorem takeFacets_owner (pd T : ℕ) (m0 : Model) (hD : DimOK m0) (facets : List ℕ)
    (hfac : ∀ k ∈ facets, k < m0.nodes.size) (c : ℕ)
    (hc : ∀ k ∈ facets, (m0.node k).pardim ≤ (m0.node c).pardim) :
    ∀ (L : List ℕ) (m' : Model), SameCore m0 m' → (∀ k ∈ L, k ∈ facets) →
      ((L.foldl (fun m k => if (m.node k).owner == none then Model.transferOwnership (pd + 1) m k T else m) m').node c).owner
        = if c ∈ L ∧ (m'.node c).owner = none then some T else (m'.node c).owner := by
  intro L
  induction L with
  | nil => intro m' _ _; simp
  | cons k L ihL =>
    intro m' hS hL
    simp only [List.foldl_cons]
    have hkf := hL k (by simp)
    have hk : k < m'.nodes.size := by rw [hS.size]; exact hfac k hkf
    have hL' : ∀ x ∈ L, x ∈ facets := fun x hx => hL x (List.mem_cons_of_mem _ hx)
    by_cases hnone : (m'.node k).owner = none
    · have hcond : ((m'.node k).owner == none) = true := by rw [hnone]; rfl
      rw [if_pos hcond, ihL _ (hS.trans (SameCore.transferOwnership _ _ _ _)) hL']
      by_cases hck : c = k
      · subst hck
        rw [transfer_self pd m' c T (hD.of_same hS) hk]
        simp [hnone]
      · have hsame := transfer_owner (pd + 1) m' k T (hD.of_same hS) c hck
          (by rw [hS.pardim, hS.pardim]; exact hc k hkf)
        rw [hsame]
        simp [hck]
    · have hcond : ((m'.node k).owner == none) = false := by
        cases h : (m'.node k).owner with
        | none => exact absurd h hnone
        | some v => rfl
      rw [hcond, if_neg (by simp), ihL m' hS hL']
      by_cases hck : c = k
      · subst hck; simp [hnone]
      · simp [hck]

theorem owner_appendHigher (m : Model) (l : List ℕ) (e : ℕ × ℕ) (c : ℕ) :
    ((appendHigher m l e).node c).owner = (m.node c).owner := by
  unfold appendHigher
  induction l generalizing m with
  | nil => rfl
  | cons k l ih =>
    simp only [List.foldl_cons]
    rw [ih]
    rw [Model.node_modifyNode]
    split <;> rfl

theorem owner_assignHigher (e : ℕ × ℕ) (c : ℕ) : ∀ (ls : List (List ℕ)) (mm : Model),
    ((ls.foldl (fun mm dimNodes =>
        dimNodes.foldl (fun mm k => mm.modifyNode k (fun n => { n with higher := n.higher ++ [e] })) mm) mm).node c).owner
      = (mm.node c).owner
  | [], _ => rfl
  | dn :: rest, mm => by
    simp only [List.foldl_cons]
    rw [owner_assignHigher e c rest]
    exact owner_appendHigher mm dn e c

/-- **`TopologicalNode.__init__` and the owners**: the new node has no owner; an old node whose
    dimension is at least that of the facets keeps its owner, unless it is an owner-less facet of
    the new node — then the new node takes it. -/
theorem newNode_owner (m : Model) (obj : Obj) (lower : List (List ℕ)) (index : ℕ) (hD : DimOK m)
    (hfac : ∀ k ∈ lower.getLastD [], k < m.nodes.size ∧ (m.node k).pardim + 1 = obj.pardim) :
    ((m.newNode obj lower index).1.node m.nodes.size).owner = none ∧
    ∀ c, c < m.nodes.size → obj.pardim ≤ (m.node c).pardim + 1 →
      ((m.newNode obj lower index).1.node c).owner =
        if c ∈ lower.getLastD [] ∧ (m.node c).owner = none then some m.nodes.size else (m.node c).owner := by
  let nd : TNode := { pardim := obj.pardim, obj := obj, lower := lower, higher := [], owner := none, index := index }
  let m0 : Model := { m with nodes := m.nodes.push nd }
  have hnew : m0.node m.nodes.size = nd := by simp [m0, Model.node]
  have hold : ∀ k, k < m.nodes.size → m0.node k = m.node k := by
    intro k hk
    simp [m0, Model.node, Array.getD_eq_getD_getElem?, Array.getElem?_push, hk, Nat.ne_of_lt hk]
  have hsz0 : m0.nodes.size = m.nodes.size + 1 := by simp [m0]
  have hD0 : DimOK m0 := by
    intro c hc k hk
    rw [hsz0] at hc
    by_cases hcn : c = m.nodes.size
    · subst hcn
      rw [hnew] at hk ⊢
      obtain ⟨h1, h2⟩ := hfac k hk
      exact ⟨by rw [hsz0]; omega, by rw [hold k h1]; exact h2⟩
    · have hc' : c < m.nodes.size := by omega
      rw [hold c hc'] at hk ⊢
      obtain ⟨h1, h2⟩ := hD c hc' k hk
      exact ⟨by rw [hsz0]; omega, by rw [hold k h1]; exact h2⟩
  -- the `assign_higher` loops
  set T := m.nodes.size with hT
  set mA := lower.foldl (fun mm dimNodes =>
      dimNodes.foldl (fun mm k => mm.modifyNode k (fun n => { n with higher := n.higher ++ [(obj.pardim, T)] })) mm) m0
    with hmA
  have hSA : SameCore m0 mA := by
    refine SameCore.foldl _ _ ?_ _
    intro m' dn
    refine SameCore.foldl _ _ ?_ _
    intro m'' k
    exact SameCore.modifyNode _ _ _ (fun _ => ⟨rfl, rfl, rfl⟩)
  have hownA : ∀ c, (mA.node c).owner = (m0.node c).owner := fun c => owner_assignHigher (obj.pardim, T) c lower m0
  have hres : (m.newNode obj lower index).1 =
      if obj.pardim > 0 then
        (lower.getLastD []).foldl (fun mm k =>
          if (mm.node k).owner == none then Model.transferOwnership obj.pardim mm k T else mm) mA
      else mA := by
    unfold Model.newNode
    rfl
  rw [hres]
  by_cases hpd : obj.pardim > 0
  · rw [if_pos hpd]
    obtain ⟨pd', hpd'⟩ : ∃ pd', obj.pardim = pd' + 1 := ⟨obj.pardim - 1, by omega⟩
    have hfac0 : ∀ k ∈ lower.getLastD [], k < m0.nodes.size := fun k hk => by
      rw [hsz0]; have := (hfac k hk).1; omega
    have main : ∀ c, (∀ k ∈ lower.getLastD [], (m0.node k).pardim ≤ (m0.node c).pardim) →
        (((lower.getLastD []).foldl (fun mm k =>
          if (mm.node k).owner == none then Model.transferOwnership obj.pardim mm k T else mm) mA).node c).owner =
        if c ∈ lower.getLastD [] ∧ (mA.node c).owner = none then some T else (mA.node c).owner := by
      intro c hc
      rw [hpd']
      exact takeFacets_owner pd' T m0 hD0 _ hfac0 c hc _ mA hSA (fun k hk => hk)
    constructor
    · have := main T (fun k hk => by
        rw [hnew, hold k (hfac k hk).1]
        have := (hfac k hk).2
        show (m.node k).pardim ≤ obj.pardim
        omega)
      rw [this, hownA, hnew]
      have hT' : T ∉ lower.getLastD [] := fun hmem => by have := (hfac T hmem).1; omega
      rw [if_neg (fun h => hT' h.1)]
    · intro c hc hdim
      have := main c (fun k hk => by
        rw [hold k (hfac k hk).1, hold c hc]
        have := (hfac k hk).2
        omega)
      rw [this, hownA, hold c hc]
  · rw [if_neg hpd]
    have hnil : lower.getLastD [] = [] := by
      rcases hl : lower.getLastD [] with _ | ⟨k, rest⟩
      · rfl
      · have := (hfac k (by rw [hl]; simp)).2
        omega
    constructor
    · rw [hownA, hnew]
    · intro c hc _
      rw [hownA, hold c hc, hnil]
      simp

/-! ## from the catalogue invariant -/

theorem dimOK_of_inv {nc : ℕ} {S : Obj → Prop} {m : Model} (hI : Inv nc S m) : DimOK m := by
  intro c hc k hk
  obtain ⟨hlen, hlens⟩ := hI.lowshape c hc
  have hgu := hI.gu hc
  set pd := (m.node c).obj.pardim with hpd
  by_cases h0 : pd = 0
  · have : (m.node c).lower = [] := List.length_eq_zero_iff.1 (by rw [hlen, h0])
    rw [this] at hk; simp at hk
  · have h1 : 1 ≤ pd := by omega
    rw [getLastD_eq_getD _ _ pd hlen h1] at hk
    obtain ⟨j, hj, hkj⟩ := List.getElem_of_mem hk
    have hjl : j < (sections pd (pd - 1)).length := by rw [← hlens (pd - 1) (by omega)]; exact hj
    have hrep := hI.low c hc (pd - 1) (by omega) j hjl
    have hkeq : ((m.node c).lower.getD (pd - 1) []).getD j 0 = k := by
      rw [List.getD_eq_getElem _ _ hj]; exact hkj
    rw [hkeq] at hrep
    have hsmem : (sections pd (pd - 1)).getD j [] ∈ sections pd (pd - 1) := by
      rw [List.getD_eq_getElem _ _ hjl]; exact List.getElem_mem _
    obtain ⟨_, hsp, _⟩ := sect_pardim_of_mem hgu.small (by omega) hsmem (m.node c).obj
    have hke := hrep.2.pardim_eq
    rw [hsp] at hke
    refine ⟨hrep.1, ?_⟩
    rw [hI.pdfield k hrep.1, hI.pdfield c hc, hke]
    omega

/-! ## one lookup -/

/-- what looking up the object `y` (result: node `id`) does to the owners:
    old nodes of dimension ≥ dim `y` keep their owner; new nodes have dimension ≤ dim `y`, and the only
    new node of dimension = dim `y` is `id`, which stores `y` and has no owner. -/
structure OwnStep (m m' : Model) (y : Obj) (id : ℕ) : Prop where
  keep : ∀ c, c < m.nodes.size → y.pardim ≤ (m.node c).obj.pardim → (m'.node c).owner = (m.node c).owner
  fresh : ∀ c, m.nodes.size ≤ c → c < m'.nodes.size → (m'.node c).obj.pardim ≤ y.pardim ∧
    ((m'.node c).obj.pardim = y.pardim → c = id ∧ (m'.node c).obj = y ∧ (m'.node c).owner = none)

theorem OwnStep.same (m : Model) (y : Obj) (id : ℕ) : OwnStep m m y id :=
  ⟨fun _ _ _ => rfl, fun c h1 h2 => by omega⟩

theorem OwnStep.of_nodes {m m' : Model} (h : m'.nodes = m.nodes) (y : Obj) (id : ℕ) : OwnStep m m' y id := by
  have hn : ∀ c, m'.node c = m.node c := fun c => by simp [Model.node, h]
  exact ⟨fun c _ _ => by rw [hn], fun c h1 h2 => by rw [h] at h2; omega⟩

/-- creating a node for `y` over the facets `lower` (`newNode`, then anything that leaves the nodes alone) -/
theorem ownStep_newNode {nc : ℕ} {S : Obj → Prop} {m : Model} (hI : Inv nc S m) (y : Obj)
    (lower : List (List ℕ)) (index : ℕ)
    (hfac : ∀ k ∈ lower.getLastD [], k < m.nodes.size ∧ (m.node k).obj.pardim + 1 = y.pardim)
    (m' : Model) (hm' : m'.nodes = (m.newNode y lower index).1.nodes) :
    OwnStep m m' y m.nodes.size := by
  have hn : ∀ c, m'.node c = (m.newNode y lower index).1.node c := fun c => by simp [Model.node, hm']
  obtain ⟨_, hspec⟩ := Model.newNode_full m y lower index
  have hfac' : ∀ k ∈ lower.getLastD [], k < m.nodes.size ∧ (m.node k).pardim + 1 = y.pardim := by
    intro k hk
    obtain ⟨h1, h2⟩ := hfac k hk
    exact ⟨h1, by rw [hI.pdfield k h1]; exact h2⟩
  obtain ⟨hnone, hold⟩ := newNode_owner m y lower index (dimOK_of_inv hI) hfac'
  refine ⟨fun c hc hdim => ?_, fun c h1 h2 => ?_⟩
  · rw [hn, hold c hc (by rw [hI.pdfield c hc]; omega)]
    rw [if_neg]
    rintro ⟨hmem, _⟩
    have := (hfac c hmem).2
    omega
  · rw [hm', hspec.size] at h2
    have hc : c = m.nodes.size := by omega
    subst hc
    rw [hn, hspec.new_obj]
    exact ⟨le_refl _, fun _ => ⟨rfl, rfl, hnone⟩⟩

theorem addNode_nodes (m : Model) (y : Obj) (lower : List (List ℕ)) :
    (m.addNode y lower).1.nodes = (m.newNode y lower (m.level y.pardim).count).1.nodes := by
  unfold Model.addNode
  simp [Model.modifyLevel]

theorem resolve_cases (m : Model) (y : Obj) (lower : List (List ℕ)) (add : Bool) (tw : List ℕ)
    {m' : Model} {id : ℕ} {o : Orientation} (h : m.resolve y lower add tw = .ok (m', id, o)) :
    m' = m ∨ (m', id, o) = m.addNode y lower := by
  unfold Model.resolve at h
  simp only at h
  split at h
  · split at h
    · cases h
    · right; exact (Except.ok.inj h).symm
  · split at h
    · left; cases h; rfl
    · split at h
      · cases h
      · split at h
        · cases h
        · right; exact (Except.ok.inj h).symm
  · split at h
    · cases h
    · split at h
      · left; cases h; rfl
      · split at h
        · cases h
        · right; exact (Except.ok.inj h).symm

/-- soundness of a lookup with respect to the owners -/
def OwnAt (nc : ℕ) (S : Obj → Prop) (look : Model → Obj → Except MErr (Model × ℕ × Orientation))
    (add : Bool) (d : ℕ) : Prop :=
  ∀ (m : Model) (y : Obj) (m' : Model) (id : ℕ) (o : Orientation), Inv nc S m → GU nc y →
    y.pardim ≤ d → y.pardim < m.levels.size → (add = true → S y) → look m y = .ok (m', id, o) →
    OwnStep m m' y id

theorem bump_nodes (m : Model) : (bump m).nodes = m.nodes := by
  simp [bump, Model.modifyLevel]

theorem ownStep_lookupPoint {nc : ℕ} {S : Obj → Prop} {m : Model} (hI : Inv nc S m) {y : Obj}
    (h0 : y.pardim = 0) (add : Bool) {m' : Model} {id : ℕ} {o : Orientation}
    (h : m.lookupPoint y add = .ok (m', id, o)) : OwnStep m m' y id := by
  rw [lookupPoint_eq m y add] at h
  cases add with
  | false =>
    simp only [Bool.false_eq_true, if_false] at h
    split at h
    · cases h; exact OwnStep.same _ _ _
    · cases h
  | true =>
    simp only [if_true] at h
    split at h
    · cases h; exact OwnStep.of_nodes (bump_nodes m) _ _
    · simp only [Except.ok.injEq] at h
      unfold pointNew at h
      simp only [Prod.mk.injEq] at h
      obtain ⟨hm', hid', -⟩ := h
      have hIb : Inv nc S (bump m) := hI.bump
      have hnodes : m'.nodes = ((bump m).newNode y [] (m.level 0).count).1.nodes := by rw [← hm']
      have := ownStep_newNode hIb y [] (m.level 0).count (by simp) m' hnodes
      have hid : id = m.nodes.size := by
        rw [← hid', (Model.newNode_full (bump m) y [] (m.level 0).count).1, bump_nodes]
      rw [hid]
      -- transport from `bump m` to `m` (same nodes)
      have hn : ∀ c, (bump m).node c = m.node c := fun c => by simp [Model.node, bump_nodes]
      rw [bump_nodes] at this
      exact ⟨fun c hc hd => by rw [this.keep c (by rw [bump_nodes]; exact hc) (by rw [hn]; exact hd), hn],
        fun c h1 h2 => this.fresh c (by rw [bump_nodes]; exact h1) h2⟩

/-! ## the loops of `lookup` -/

/-- effect of a sequence of lookups of objects of dimension ≤ `D` on the owners: old nodes of
    dimension ≥ `D` keep their owner, new nodes have dimension ≤ `D` and, when of dimension `D`, no owner -/
structure SubFrame (D : ℕ) (m m' : Model) : Prop where
  keep : ∀ c, c < m.nodes.size → D ≤ (m.node c).obj.pardim → (m'.node c).owner = (m.node c).owner
  fresh : ∀ c, m.nodes.size ≤ c → c < m'.nodes.size → (m'.node c).obj.pardim ≤ D ∧
    ((m'.node c).obj.pardim = D → (m'.node c).owner = none)

theorem SubFrame.refl (D : ℕ) (m : Model) : SubFrame D m m := ⟨fun _ _ _ => rfl, fun c h1 h2 => by omega⟩

theorem SubFrame.of_step {D : ℕ} {m m' : Model} {y : Obj} {id : ℕ} (h : OwnStep m m' y id) (hy : y.pardim ≤ D) :
    SubFrame D m m' := by
  refine ⟨fun c hc hd => h.keep c hc (by omega), fun c h1 h2 => ?_⟩
  obtain ⟨a, b⟩ := h.fresh c h1 h2
  exact ⟨by omega, fun hD => (b (by omega)).2.2⟩

theorem SubFrame.trans {D : ℕ} {m m1 m2 : Model} (h1 : SubFrame D m m1) (h2 : SubFrame D m1 m2)
    (hE1 : Ext m m1) (hE2 : Ext m1 m2) : SubFrame D m m2 := by
  refine ⟨fun c hc hd => ?_, fun c hc1 hc2 => ?_⟩
  · have hc' : c < m1.nodes.size := lt_of_lt_of_le hc hE1.size_le
    rw [h2.keep c hc' (by rw [hE1.obj c hc]; exact hd), h1.keep c hc hd]
  · by_cases hlt : c < m1.nodes.size
    · obtain ⟨a, b⟩ := h1.fresh c hc1 hlt
      rw [hE2.obj c hlt]
      refine ⟨a, fun hD => ?_⟩
      rw [h2.keep c hlt (by omega)]
      exact b hD
    · exact h2.fresh c (by omega) hc2

theorem lookupList_own {nc : ℕ} {S : Obj → Prop}
    {look : Model → Obj → Except MErr (Model × ℕ × Orientation)} {add : Bool} {d L : ℕ}
    (hlook : SoundAt nc S look add d) (hown : OwnAt nc S look add d) {x : Obj} (hx : GU nc x)
    (hSx : add = true → S x)
    (hsect : ∀ y sec, S y → sec.length = y.pardim → secTgtDim sec < y.pardim → S (y.sect sec))
    (D i : ℕ) (hiD : i ≤ D) (secs : List Sec) (hsecs : SecsOK x secs d L)
    (hdim : ∀ s ∈ secs, (x.sect s).pardim = i) :
    ∀ (m m' : Model) (ids : List ℕ), Inv nc S m → m.levels.size = L →
      Model.lookupList look x secs m = .ok (m', ids) →
      SubFrame D m m' ∧
      (∀ j, j < secs.length → m.nodes.size ≤ ids.getD j 0 →
        ∃ j0, j0 ≤ j ∧ ids.getD j0 0 = ids.getD j 0 ∧ (m'.node (ids.getD j 0)).obj = x.sect (secs.getD j0 [])) ∧
      (∀ c, m.nodes.size ≤ c → c < m'.nodes.size → (m'.node c).obj.pardim = i →
        ∃ j, j < secs.length ∧ ids.getD j 0 = c) := by
  induction secs with
  | nil =>
    intro m m' ids _ _ h
    simp only [Model.lookupList, Except.ok.injEq, Prod.mk.injEq] at h
    obtain ⟨rfl, rfl⟩ := h
    exact ⟨SubFrame.refl _ _, fun j hj => by simp at hj, fun c h1 h2 => by omega⟩
  | cons s rest ih =>
    intro m m' ids hI hL h
    simp only [Model.lookupList] at h
    obtain ⟨hsl, hsd, hsL, hst⟩ := hsecs s (by simp)
    cases h1 : look m (x.sect s) with
    | error e => rw [h1] at h; simp at h
    | ok r1 =>
      obtain ⟨m1, id, o1⟩ := r1
      rw [h1] at h
      simp only at h
      have hargs : (add = true → S (x.sect s)) := fun ha => hsect x s (hSx ha) hsl hst
      obtain ⟨hI1, hE1, hR1, _, _⟩ := hlook m (x.sect s) m1 id o1 hI (hx.sect hsl) hsd
        (by rw [hL]; exact hsL) hargs h1
      have hO1 := hown m (x.sect s) m1 id o1 hI (hx.sect hsl) hsd (by rw [hL]; exact hsL) hargs h1
      cases h2 : Model.lookupList look x rest m1 with
      | error e => rw [h2] at h; simp at h
      | ok r2 =>
        obtain ⟨m2, ids'⟩ := r2
        rw [h2] at h
        simp only [Except.ok.injEq, Prod.mk.injEq] at h
        obtain ⟨rfl, rfl⟩ := h
        have hsecs' : SecsOK x rest d L := fun t ht => hsecs t (List.mem_cons_of_mem _ ht)
        obtain ⟨hI2, hE2, hlen2, hR2, _⟩ := lookupList_sound hlook hx hSx hsect rest hsecs' m1 m2 ids' hI1
          (by rw [hE1.lsize]; exact hL) h2
        obtain ⟨hF2, hP2, hN2⟩ := ih hsecs' (fun t ht => hdim t (List.mem_cons_of_mem _ ht)) m1 m2 ids' hI1
          (by rw [hE1.lsize]; exact hL) h2
        have hys : (x.sect s).pardim = i := hdim s (by simp)
        have hF1 : SubFrame D m m1 := SubFrame.of_step hO1 (by omega)
        refine ⟨hF1.trans hF2 hE1 hE2, ?_, ?_⟩
        swap
        · intro c hc1 hc2 hci
          by_cases hlt : c < m1.nodes.size
          · rw [hE2.obj c hlt] at hci
            have := (hO1.fresh c hc1 hlt).2 (by rw [hci, hys])
            exact ⟨0, by simp, by simpa using this.1.symm⟩
          · obtain ⟨j, hj, hjc⟩ := hN2 c (by omega) hc2 hci
            exact ⟨j + 1, by simpa using hj, by simpa using hjc⟩
        -- the node of the first section
        have hfirst : m.nodes.size ≤ id → (m2.node id).obj = x.sect s := by
          intro hid
          have hdimid : (m1.node id).obj.pardim = (x.sect s).pardim := hR1.2.pardim_eq
          have := (hO1.fresh id hid hR1.1).2 hdimid
          rw [hE2.obj id hR1.1]; exact this.2.1
        intro j hj hnew
        cases j with
        | zero => exact ⟨0, le_refl _, rfl, by simpa using hfirst (by simpa using hnew)⟩
        | succ j =>
          simp only [List.getD_cons_succ] at hnew ⊢
          have hj' : j < rest.length := by simpa using hj
          by_cases hlt : ids'.getD j 0 < m1.nodes.size
          · -- created by the lookup of the first section
            have hRj := hR2 j hj'
            have hdj : (m2.node (ids'.getD j 0)).obj.pardim = i := by
              rw [hRj.2.pardim_eq]; exact hdim _ (by
                rw [List.getD_eq_getElem _ _ hj']; exact List.mem_cons_of_mem _ (List.getElem_mem _))
            rw [hE2.obj _ hlt] at hdj
            have := (hO1.fresh _ hnew hlt).2 (by rw [hdj, hys])
            refine ⟨0, Nat.zero_le _, by simpa using this.1.symm, ?_⟩
            simp only [List.getD_cons_zero]
            rw [hE2.obj _ hlt]; exact this.2.1
          · obtain ⟨j0, hj0, he, hobj⟩ := hP2 j hj' (by omega)
            exact ⟨j0 + 1, by omega, by simpa using he, by simpa using hobj⟩

theorem lookupLower_own {nc : ℕ} {S : Obj → Prop}
    {look : Model → Obj → Except MErr (Model × ℕ × Orientation)} {add : Bool} {d L : ℕ}
    (hlook : SoundAt nc S look add d) (hown : OwnAt nc S look add d) {x : Obj} (hx : GU nc x)
    (hSx : add = true → S x)
    (hsect : ∀ y sec, S y → sec.length = y.pardim → secTgtDim sec < y.pardim → S (y.sect sec))
    (pd D : ℕ) (dims : List ℕ) (hdims : ∀ i ∈ dims, SecsOK x (sections pd i) d L)
    (hD : ∀ i ∈ dims, i ≤ D ∧ ∀ s ∈ sections pd i, (x.sect s).pardim = i)
    (hsorted : dims.Pairwise (· < ·)) :
    ∀ (m m' : Model) (lower : List (List ℕ)), Inv nc S m → m.levels.size = L →
      Model.lookupLower look x pd dims m = .ok (m', lower) →
      SubFrame D m m' ∧
      (∀ t, t < dims.length → ∀ j, j < (sections pd (dims.getD t 0)).length →
        m.nodes.size ≤ (lower.getD t []).getD j 0 →
        ∃ j0, j0 ≤ j ∧ (lower.getD t []).getD j0 0 = (lower.getD t []).getD j 0 ∧
          (m'.node ((lower.getD t []).getD j 0)).obj = x.sect ((sections pd (dims.getD t 0)).getD j0 [])) ∧
      (∀ t, t + 1 = dims.length → ∀ c, m.nodes.size ≤ c → c < m'.nodes.size →
        (m'.node c).obj.pardim = dims.getD t 0 →
        ∃ j, j < (sections pd (dims.getD t 0)).length ∧ (lower.getD t []).getD j 0 = c) := by
  induction dims with
  | nil =>
    intro m m' lower _ _ h
    simp only [Model.lookupLower, Except.ok.injEq, Prod.mk.injEq] at h
    obtain ⟨rfl, rfl⟩ := h
    exact ⟨SubFrame.refl _ _, fun t ht => by simp at ht, fun t ht => by simp at ht⟩
  | cons i rest ih =>
    intro m m' lower hI hL h
    simp only [Model.lookupLower] at h
    cases h1 : Model.lookupList look x (sections pd i) m with
    | error e => rw [h1] at h; simp at h
    | ok r1 =>
      obtain ⟨m1, ids⟩ := r1
      rw [h1] at h
      simp only at h
      obtain ⟨hI1, hE1, hlen1, hR1, _⟩ := lookupList_sound hlook hx hSx hsect _
        (hdims i (by simp)) m m1 ids hI hL h1
      obtain ⟨hF1, hP1, hN1⟩ := lookupList_own hlook hown hx hSx hsect D i (hD i (by simp)).1 _
        (hdims i (by simp)) (hD i (by simp)).2 m m1 ids hI hL h1
      obtain ⟨hF1i, -, -⟩ := lookupList_own hlook hown hx hSx hsect i i (le_refl _) _
        (hdims i (by simp)) (hD i (by simp)).2 m m1 ids hI hL h1
      cases h2 : Model.lookupLower look x pd rest m1 with
      | error e => rw [h2] at h; simp at h
      | ok r2 =>
        obtain ⟨m2, lower'⟩ := r2
        rw [h2] at h
        simp only [Except.ok.injEq, Prod.mk.injEq] at h
        obtain ⟨rfl, rfl⟩ := h
        have hdims' : ∀ t ∈ rest, SecsOK x (sections pd t) d L := fun t ht => hdims t (List.mem_cons_of_mem _ ht)
        obtain ⟨hI2, hE2, _, hR2, _⟩ := lookupLower_sound hlook hx hSx hsect pd rest hdims' m1 m2 lower' hI1
          (by rw [hE1.lsize]; exact hL) h2
        obtain ⟨hF2, hP2, hN2⟩ := ih hdims' (fun t ht => hD t (List.mem_cons_of_mem _ ht))
          (List.pairwise_cons.1 hsorted).2 m1 m2 lower' hI1 (by rw [hE1.lsize]; exact hL) h2
        refine ⟨hF1.trans hF2 hE1 hE2, ?_, ?_⟩
        swap
        · intro t ht c hc1 hc2 hcd
          cases t with
          | zero =>
            -- `rest = []`: nothing happens after the first list
            have hrest : rest = [] := by
              cases rest with
              | nil => rfl
              | cons a as => simp at ht
            subst hrest
            simp only [Model.lookupLower, Except.ok.injEq, Prod.mk.injEq] at h2
            obtain ⟨rfl, rfl⟩ := h2
            simp only [List.getD_cons_zero] at hcd ⊢
            exact hN1 c hc1 hc2 hcd
          | succ t =>
            simp only [List.getD_cons_succ] at hcd ⊢
            have ht' : t + 1 = rest.length := by simpa using ht
            by_cases hlt : c < m1.nodes.size
            · exfalso
              have hfr := (hF1i.fresh c hc1 hlt).1
              rw [hE2.obj c hlt] at hcd
              have hti : rest.getD t 0 ∈ rest := by
                rw [List.getD_eq_getElem _ _ (by omega)]; exact List.getElem_mem _
              have := (List.pairwise_cons.1 hsorted).1 _ hti
              omega
            · exact hN2 t ht' c (by omega) hc2 hcd
        intro t ht j hj hnew
        cases t with
        | zero =>
          simp only [List.getD_cons_zero] at hj hnew ⊢
          obtain ⟨j0, hj0, he, hobj⟩ := hP1 j hj hnew
          refine ⟨j0, hj0, he, ?_⟩
          rw [hE2.obj _ (hR1 j hj).1]; exact hobj
        | succ t =>
          simp only [List.getD_cons_succ] at hj hnew ⊢
          have ht' : t < rest.length := by simpa using ht
          by_cases hlt : (lower'.getD t []).getD j 0 < m1.nodes.size
          · -- impossible: a node created while the sections of dimension `i` were looked up has
            -- dimension ≤ `i`, the node of a section of a later list has a larger dimension
            exfalso
            have hfr := (hF1i.fresh _ hnew hlt).1
            have hRj := (hR2 t ht').2 j hj
            have hsm : (sections pd (rest.getD t 0)).getD j [] ∈ sections pd (rest.getD t 0) := by
              rw [List.getD_eq_getElem _ _ hj]; exact List.getElem_mem _
            have hti : rest.getD t 0 ∈ rest := by
              rw [List.getD_eq_getElem _ _ ht']; exact List.getElem_mem _
            have hdimsec := (hD _ (List.mem_cons_of_mem _ hti)).2 _ hsm
            have hdn : (m2.node ((lower'.getD t []).getD j 0)).obj.pardim = rest.getD t 0 := by
              rw [hRj.2.pardim_eq, hdimsec]
            rw [hE2.obj _ hlt] at hdn
            have hlt2 := (List.pairwise_cons.1 hsorted).1 _ hti
            omega
          · exact hP2 t ht' j hj (by omega)


theorem facets_of_lowerOK {nc : ℕ} {m : Model} {y : Obj} (hy : GU nc y) (hpd : 1 ≤ y.pardim)
    {lower : List (List ℕ)} (hL : LowerOK m y lower) :
    ∀ k ∈ lower.getLastD [], k < m.nodes.size ∧ (m.node k).obj.pardim + 1 = y.pardim := by
  intro k hk
  rw [getLastD_eq_getD _ _ y.pardim hL.len hpd] at hk
  obtain ⟨j, hj, hkj⟩ := List.getElem_of_mem hk
  have hjl : j < (sections y.pardim (y.pardim - 1)).length := by rw [← hL.lens (y.pardim - 1) (by omega)]; exact hj
  have hrep := hL.rep (y.pardim - 1) (by omega) j hjl
  have hkeq : (lower.getD (y.pardim - 1) []).getD j 0 = k := by
    rw [List.getD_eq_getElem _ _ hj]; exact hkj
  rw [hkeq] at hrep
  have hsmem : (sections y.pardim (y.pardim - 1)).getD j [] ∈ sections y.pardim (y.pardim - 1) := by
    rw [List.getD_eq_getElem _ _ hjl]; exact List.getElem_mem _
  obtain ⟨_, hsp, _⟩ := sect_pardim_of_mem hy.small (by omega) hsmem y
  have hke := hrep.2.pardim_eq
  rw [hsp] at hke
  exact ⟨hrep.1, by omega⟩

theorem resolve_own {nc : ℕ} {S : Obj → Prop} {m : Model} (hI : Inv nc S m) {y : Obj} (hy : GU nc y)
    (hpd : 1 ≤ y.pardim) (hlv : y.pardim < m.levels.size) {lower : List (List ℕ)} (hL : LowerOK m y lower)
    (add : Bool) (tw : List ℕ) {m' : Model} {id : ℕ} {o : Orientation}
    (h : m.resolve y lower add tw = .ok (m', id, o)) :
    OwnStep m m' y id ∧ (m' = m ∨ ((m', id, o) = m.addNode y lower ∧ id = m.nodes.size)) := by
  rcases resolve_cases m y lower add tw h with rfl | hadd
  · exact ⟨OwnStep.same _ _ _, Or.inl rfl⟩
  · have hid : id = m.nodes.size := by
      have := (Model.addNode_full m y lower hlv).1
      rw [← hadd] at this; exact this
    have hm' : m' = (m.addNode y lower).1 := by rw [← hadd]
    refine ⟨?_, Or.inr ⟨hadd, hid⟩⟩
    rw [hid]
    exact ownStep_newNode hI y lower _ (facets_of_lowerOK hy hpd hL) m' (by rw [hm']; exact addNode_nodes m y lower)

/-- **`ObjectCatalogue.lookup` and the owners, by induction on the dimension.** -/
theorem lookup_own {nc : ℕ} {S : Obj → Prop}
    (hsect : ∀ y sec, S y → sec.length = y.pardim → secTgtDim sec < y.pardim → S (y.sect sec))
    (add : Bool) (tw : List ℕ) :
    ∀ fuel, OwnAt nc S (fun m y => Model.lookup fuel m y add tw) add fuel := by
  intro fuel
  induction fuel with
  | zero =>
    intro m y m' id o hI hy hd hlv hS h
    beta_reduce at h
    have h0 : y.pardim = 0 := by omega
    rw [Model.lookup_point _ _ _ _ _ h0] at h
    exact ownStep_lookupPoint hI h0 add h
  | succ fuel ih =>
    intro m y m' id o hI hy hd hlv hS h
    beta_reduce at h
    by_cases h0 : y.pardim = 0
    · rw [Model.lookup_point _ _ _ _ _ h0] at h
      exact ownStep_lookupPoint hI h0 add h
    · simp only [Model.lookup_succ _ _ _ _ _ h0] at h
      cases h1 : Model.lookupLower (fun m' z => Model.lookup fuel m' z add tw) y y.pardim
          (List.range y.pardim) m with
      | error e => rw [h1] at h; simp at h
      | ok r1 =>
        obtain ⟨m1, lower⟩ := r1
        rw [h1] at h
        simp only at h
        have hsound := lookup_sound (nc := nc) hsect add tw fuel
        obtain ⟨hI1, hE1, hlen, hR, _⟩ := lookupLower_sound hsound hy hS hsect y.pardim _
          (dims_ok hy hd hlv) m m1 lower hI rfl h1
        have hL := lowerOK_of_loop hlen hR
        have hDs : ∀ i ∈ List.range y.pardim, i ≤ y.pardim - 1 ∧ ∀ s ∈ sections y.pardim i, (y.sect s).pardim = i := by
          intro i hi
          have hi' := List.mem_range.1 hi
          exact ⟨by omega, fun s hs => (sect_pardim_of_mem hy.small (by omega) hs y).2.1⟩
        obtain ⟨hF, _⟩ := lookupLower_own hsound ih hy hS hsect y.pardim (y.pardim - 1) _ (dims_ok hy hd hlv) hDs
          (List.pairwise_lt_range) m m1 lower hI rfl h1
        obtain ⟨hI2, hE2, hrep, _, _⟩ := resolve_sound hI1 hy (by omega)
          (by rw [hE1.lsize]; exact hlv) add hS hL tw h
        obtain ⟨hO, _⟩ := resolve_own hI1 hy (by omega) (by rw [hE1.lsize]; exact hlv) hL add tw h
        refine ⟨fun c hc hdim => ?_, fun c hc1 hc2 => ?_⟩
        · have hc' : c < m1.nodes.size := lt_of_lt_of_le hc hE1.size_le
          rw [hO.keep c hc' (by rw [hE1.obj c hc]; exact hdim), hF.keep c hc (by omega)]
        · by_cases hlt : c < m1.nodes.size
          · obtain ⟨a, _⟩ := hF.fresh c hc1 hlt
            rw [hE2.obj c hlt]
            exact ⟨by omega, fun he => by omega⟩
          · exact hO.fresh c (by omega) hc2

/-! ## adding one top-level patch -/

/-- everything that happens to the owners when a patch `y` is added and becomes a NEW node `id`:
    the state `m1` after its sections were looked up, the lower links, and the take-over. -/
structure PatchAdded (nc : ℕ) (S : Obj → Prop) (m m' : Model) (y : Obj) (id : ℕ) : Prop where
  ex : ∃ (m1 : Model) (lower : List (List ℕ)),
    Inv nc S m1 ∧ Ext m m1 ∧ Ext m1 m' ∧ LowerOK m1 y lower ∧ SubFrame (y.pardim - 1) m m1 ∧
    id = m1.nodes.size ∧ AddNodeSpec m1 m' y lower ∧
    (∀ j, j < (sections y.pardim (y.pardim - 1)).length →
      m.nodes.size ≤ (lower.getD (y.pardim - 1) []).getD j 0 →
      ∃ j0, j0 ≤ j ∧ (lower.getD (y.pardim - 1) []).getD j0 0 = (lower.getD (y.pardim - 1) []).getD j 0 ∧
        (m1.node ((lower.getD (y.pardim - 1) []).getD j 0)).obj = y.sect ((sections y.pardim (y.pardim - 1)).getD j0 [])) ∧
    ((m'.node id).owner = none) ∧
    (∀ c, c < m1.nodes.size → y.pardim ≤ (m1.node c).obj.pardim + 1 →
      (m'.node c).owner = if c ∈ lower.getLastD [] ∧ (m1.node c).owner = none then some id else (m1.node c).owner) ∧
    (∀ c, m.nodes.size ≤ c → c < m1.nodes.size → (m1.node c).obj.pardim + 1 = y.pardim →
      ∃ j, j < (sections y.pardim (y.pardim - 1)).length ∧ (lower.getD (y.pardim - 1) []).getD j 0 = c)

theorem lookup_patch_own {nc : ℕ} {S : Obj → Prop}
    (hsect : ∀ y sec, S y → sec.length = y.pardim → secTgtDim sec < y.pardim → S (y.sect sec))
    (tw : List ℕ) (fuel : ℕ) {m : Model} (hI : Inv nc S m) {y : Obj} (hy : GU nc y) (hpd : 1 ≤ y.pardim)
    (hd : y.pardim ≤ fuel + 1) (hlv : y.pardim < m.levels.size) (hS : S y)
    {m' : Model} {id : ℕ} {o : Orientation}
    (h : Model.lookup (fuel + 1) m y true tw = .ok (m', id, o)) (hnew : m.nodes.size ≤ id) :
    PatchAdded nc S m m' y id := by
  have h0 : y.pardim ≠ 0 := by omega
  simp only [Model.lookup_succ _ _ _ _ _ h0] at h
  cases h1 : Model.lookupLower (fun m' z => Model.lookup fuel m' z true tw) y y.pardim
      (List.range y.pardim) m with
  | error e => rw [h1] at h; simp at h
  | ok r1 =>
    obtain ⟨m1, lower⟩ := r1
    rw [h1] at h
    simp only at h
    have hsound := lookup_sound (nc := nc) hsect true tw fuel
    have hownf := lookup_own (nc := nc) hsect true tw fuel
    obtain ⟨hI1, hE1, hlen, hR, _⟩ := lookupLower_sound hsound hy (fun _ => hS) hsect y.pardim _
      (dims_ok hy hd hlv) m m1 lower hI rfl h1
    have hL := lowerOK_of_loop hlen hR
    have hDs : ∀ i ∈ List.range y.pardim, i ≤ y.pardim - 1 ∧ ∀ s ∈ sections y.pardim i, (y.sect s).pardim = i := by
      intro i hi
      have hi' := List.mem_range.1 hi
      exact ⟨by omega, fun s hs => (sect_pardim_of_mem hy.small (by omega) hs y).2.1⟩
    obtain ⟨hF, hP, hN⟩ := lookupLower_own hsound hownf hy (fun _ => hS) hsect y.pardim (y.pardim - 1) _
      (dims_ok hy hd hlv) hDs (List.pairwise_lt_range) m m1 lower hI rfl h1
    have hlv1 : y.pardim < m1.levels.size := by rw [hE1.lsize]; exact hlv
    obtain ⟨hI2, hE2, hrep, _, _⟩ := resolve_sound hI1 hy hpd hlv1 true (fun _ => hS) hL tw h
    obtain ⟨_, hcase⟩ := resolve_own hI1 hy hpd hlv1 hL true tw h
    rcases hcase with rfl | ⟨hadd, hid⟩
    · -- found: then `id` is an old node of dimension `pardim`, not a new one
      exfalso
      have hdim : (m'.node id).obj.pardim = y.pardim := hrep.2.pardim_eq
      have := (hF.fresh id hnew hrep.1).1
      omega
    · obtain ⟨_, _, hspec⟩ := Model.addNode_full m1 y lower hlv1
      have hm' : m' = (m1.addNode y lower).1 := by rw [← hadd]
      have hnn : ∀ c, m'.node c = (m1.newNode y lower (m1.level y.pardim).count).1.node c := fun c => by
        simp [Model.node, hm', addNode_nodes]
      have hfac := facets_of_lowerOK hy hpd hL
      have hfac' : ∀ k ∈ lower.getLastD [], k < m1.nodes.size ∧ (m1.node k).pardim + 1 = y.pardim := by
        intro k hk
        obtain ⟨a, b⟩ := hfac k hk
        exact ⟨a, by rw [hI1.pdfield k a]; exact b⟩
      obtain ⟨hnone, hold⟩ := newNode_owner m1 y lower (m1.level y.pardim).count (dimOK_of_inv hI1) hfac'
      refine ⟨⟨m1, lower, hI1, hE1, hE2, hL, hF, hid, by rw [hm']; exact hspec, ?_, ?_, ?_, ?_⟩⟩
      rotate_left 3
      · intro c hc1 hc2 hcd
        have := hN (y.pardim - 1) (by simp; omega) c hc1 hc2 (by rw [Orientation.range_getD (by omega)]; omega)
        rw [Orientation.range_getD (by omega)] at this
        exact this
      · intro j hj hjnew
        have := hP (y.pardim - 1) (by simp; omega) j (by rw [Orientation.range_getD (by omega)]; exact hj)
          hjnew
        rw [Orientation.range_getD (by omega)] at this
        exact this
      · rw [hid, hnn]; exact hnone
      · intro c hc hdim
        rw [hnn, hid]
        exact hold c hc (by rw [hI1.pdfield c hc]; exact hdim)

end Splipy.MP.Own
