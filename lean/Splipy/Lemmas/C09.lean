import Mathlib.Algebra.BigOperators.Group.Finset.Basic
import Mathlib.Algebra.BigOperators.Pi
import Mathlib.Algebra.BigOperators.Ring.Finset
import Mathlib.Algebra.Module.LinearMap.Defs
import Mathlib.Algebra.Module.Pi
import Mathlib.Algebra.Module.BigOperators
import Mathlib.Algebra.Order.Ring.Nat
import Mathlib.Tactic.Ring
import Mathlib.Tactic.FieldSimp
import Splipy.Model.AffineOps
import Splipy.Lemmas.C09Tensor

/-!
# C09 helper lemmas

1. `C09.homPhys / homW / evalPt`: one evaluated point as a weighted sum of control points, and the
   commutation of linear / homogeneous-affine control-point maps with it.
2. `Obj.cp / cpPhys / cpWt / WF`: control points of a model object, and what the model's
   `affineCp`, `setDimension`, `forceRational`, `projectPlane` do to each of them (`Obj.Acts`).
-/

set_option linter.unusedSectionVars false

namespace Splipy

/-! ## 1. One evaluated point -/

namespace C09

variable {K : Type} [Field K] {ι : Type}

/-- Physical part `Σ_i w_i P_i` of the homogeneous evaluated point.  `w i` are the products of
    basis-function values, `P i` the physical (for rational objects: weight-premultiplied)
    coordinates of control point `i`, padded by zeros beyond the dimension. -/
def homPhys (s : Finset ι) (w : ι → K) (P : ι → ℕ → K) : ℕ → K := ∑ i ∈ s, w i • P i

/-- Weight part `Σ_i w_i W_i` (`W i = 1` for a non-rational object, so this is `Σ_i w_i`). -/
def homW (s : Finset ι) (w : ι → K) (W : ι → K) : K := ∑ i ∈ s, w i * W i

/-- The evaluated point: projective division of the homogeneous point. -/
def evalPt (s : Finset ι) (w : ι → K) (P : ι → ℕ → K) (W : ι → K) : ℕ → K :=
  (homW s w W)⁻¹ • homPhys s w P

theorem homPhys_apply (s : Finset ι) (w : ι → K) (P : ι → ℕ → K) (c : ℕ) :
    homPhys s w P c = ∑ i ∈ s, w i * P i c := by
  simp [homPhys, Finset.sum_apply]

theorem evalPt_apply (s : Finset ι) (w : ι → K) (P : ι → ℕ → K) (W : ι → K) (c : ℕ) :
    evalPt s w P W c = (∑ i ∈ s, w i * P i c) / (∑ i ∈ s, w i * W i) := by
  simp [evalPt, homPhys_apply, homW, div_eq_inv_mul]

/-- A linear map on the physical coordinates commutes with the weighted sum. -/
theorem homPhys_linear (s : Finset ι) (w : ι → K) (P : ι → ℕ → K)
    (L : (ℕ → K) →ₗ[K] (ℕ → K)) :
    homPhys s w (fun i => L (P i)) = L (homPhys s w P) := by
  simp [homPhys, map_sum, map_smul]

/-- Homogeneous-affine control-point map `P ↦ L P + W • t` (the weight multiplies the
    translation): the homogeneous point is mapped the same way. -/
theorem homPhys_affine (s : Finset ι) (w : ι → K) (P : ι → ℕ → K) (W : ι → K)
    (L : (ℕ → K) →ₗ[K] (ℕ → K)) (t : ℕ → K) :
    homPhys s w (fun i => L (P i) + W i • t) = L (homPhys s w P) + homW s w W • t := by
  simp only [homPhys, homW, map_sum, map_smul, smul_add, Finset.sum_add_distrib, Finset.sum_smul,
    smul_smul]

/-- Linear maps commute with the projective division whatever the weight sum is. -/
theorem evalPt_linear (s : Finset ι) (w : ι → K) (P : ι → ℕ → K) (W : ι → K)
    (L : (ℕ → K) →ₗ[K] (ℕ → K)) :
    evalPt s w (fun i => L (P i)) W = L (evalPt s w P W) := by
  simp [evalPt, homPhys_linear, map_smul]

/-- **Affine maps commute with evaluation** (weights unchanged), provided the weight sum does not
    vanish (`Σ w = 1` for non-rational objects on the domain; `> 0` for positive weights). -/
theorem evalPt_affine (s : Finset ι) (w : ι → K) (P : ι → ℕ → K) (W : ι → K)
    (L : (ℕ → K) →ₗ[K] (ℕ → K)) (t : ℕ → K) (hW : homW s w W ≠ 0) :
    evalPt s w (fun i => L (P i) + W i • t) W = L (evalPt s w P W) + t := by
  simp only [evalPt, homPhys_affine, smul_add, map_smul, smul_smul, inv_mul_cancel₀ hW, one_smul]

/-- Non-rational objects: no division takes place; with `Σ w = 1` that is the same thing. -/
theorem evalPt_nonrational (s : Finset ι) (w : ι → K) (P : ι → ℕ → K)
    (hw : ∑ i ∈ s, w i = 1) : evalPt s w P (fun _ => 1) = homPhys s w P := by
  simp [evalPt, homW, hw]

end C09

/-! ## 2. Control points of a model object -/

namespace Obj

variable {K : Type} [Field K]

/-- Number of control points. -/
def npts (o : Obj K) : ℕ := o.cps.size / o.ncomp

/-- Component `j` of control point `pI` (C-order flat index) – for a rational object the
    components are the weight-premultiplied coordinates followed by the weight. -/
def cp (o : Obj K) (pI j : ℕ) : K := o.cps.get (pI * o.ncomp + j)

/-- Physical (premultiplied) coordinates of control point `pI`, padded by zeros. -/
def cpPhys (o : Obj K) (pI : ℕ) : ℕ → K := fun j => if j < o.dimension then o.cp pI j else 0

/-- Weight of control point `pI` (`1` for a non-rational object). -/
def cpWt (o : Obj K) (pI : ℕ) : K := if o.rational then o.cp pI o.dimension else 1

/-- The control-point array is a genuine `… × ncomp` array with `ncomp > 0`. -/
structure WF (o : Obj K) : Prop where
  shape_ne : o.cps.shape ≠ []
  ncomp_pos : 0 < o.ncomp
  data_size : o.cps.data.size = o.cps.size

/-- All of `affineCp`, `setDimension`, `forceRational`, `projectPlane` have this shape. -/
def mapCps (o : Obj K) (m : ℕ) (rat : Bool) (f : Array K → Array K) : Obj K :=
  { o with cps := o.cps.mapLast m f, rational := rat }

theorem getLastD_of_ne_nil {l : List ℕ} (h : l ≠ []) (a b : ℕ) : l.getLastD a = l.getLastD b := by
  rcases List.eq_nil_or_concat l with rfl | ⟨l', x, rfl⟩
  · exact absurd rfl h
  · simp

theorem WF.last_eq {o : Obj K} (h : o.WF) : o.cps.shape.getLastD 1 = o.ncomp :=
  getLastD_of_ne_nil h.shape_ne 1 0

theorem WF.shape_eq {o : Obj K} (h : o.WF) : o.cps.shape = o.cps.shape.dropLast ++ [o.ncomp] := by
  unfold ncomp
  rcases List.eq_nil_or_concat o.cps.shape with h0 | ⟨l', x, h1⟩
  · exact absurd h0 h.shape_ne
  · rw [h1]; simp

theorem WF.size_eq {o : Obj K} (h : o.WF) : o.cps.size = o.npts * o.ncomp := by
  have h1 : o.cps.size = Tensor.prod o.cps.shape.dropLast * o.ncomp := by
    unfold Tensor.size
    conv_lhs => rw [h.shape_eq]
    exact Tensor.prod_append_singleton _ _
  unfold npts
  rw [h1, Nat.mul_div_cancel _ h.ncomp_pos]

theorem WF.npts_eq {o : Obj K} (h : o.WF) : o.npts = Tensor.prod o.cps.shape.dropLast := by
  have h1 : o.cps.size = Tensor.prod o.cps.shape.dropLast * o.ncomp := by
    unfold Tensor.size
    conv_lhs => rw [h.shape_eq]
    exact Tensor.prod_append_singleton _ _
  unfold npts
  rw [h1, Nat.mul_div_cancel _ h.ncomp_pos]

theorem WF.row_getD {o : Obj K} (h : o.WF) (pI j : ℕ) (hj : j < o.ncomp) :
    (o.cps.row pI).getD j 0 = o.cp pI j := by
  unfold cp
  rw [Tensor.row_getD _ _ _ (by rw [h.last_eq]; exact hj), h.last_eq]

theorem WF.row_size {o : Obj K} (h : o.WF) (pI : ℕ) (hp : pI < o.npts) :
    (o.cps.row pI).size = o.ncomp := by
  rw [Tensor.row_size _ _ (by
    rw [h.last_eq, h.data_size, h.size_eq]
    exact Nat.mul_le_mul_right _ hp), h.last_eq]

section mapCps
variable {o : Obj K} (h : o.WF) (m : ℕ) (rat : Bool) (f : Array K → Array K)

theorem mapCps_ncomp : (o.mapCps m rat f).ncomp = m := by
  simp [mapCps, ncomp, Tensor.mapLast_shape]

theorem mapCps_bases : (o.mapCps m rat f).bases = o.bases := rfl

theorem mapCps_rational : (o.mapCps m rat f).rational = rat := rfl

include h in
theorem mapCps_size : (o.mapCps m rat f).cps.size = o.npts * m := by
  show Tensor.prod (o.cps.mapLast m f).shape = _
  rw [Tensor.mapLast_shape, Tensor.prod_append_singleton, h.npts_eq]

include h in
theorem mapCps_npts (hm : 0 < m) : (o.mapCps m rat f).npts = o.npts := by
  unfold npts
  rw [mapCps_size h, mapCps_ncomp, Nat.mul_div_cancel _ hm]
  rfl

include h in
theorem mapCps_WF (hm : 0 < m) : (o.mapCps m rat f).WF where
  shape_ne := by simp [mapCps, Tensor.mapLast_shape]
  ncomp_pos := by rw [mapCps_ncomp]; exact hm
  data_size := by
    rw [mapCps_size h]
    show (o.cps.mapLast m f).data.size = _
    rw [Tensor.mapLast_data_size, h.last_eq]
    rfl

include h in
theorem mapCps_cp (pI c : ℕ) (hp : pI < o.npts) (hc : c < m) :
    (o.mapCps m rat f).cp pI c = (f (o.cps.row pI)).getD c 0 := by
  unfold cp
  rw [mapCps_ncomp]
  show (o.cps.mapLast m f).get (pI * m + c) = _
  exact Tensor.mapLast_get _ _ _ _ _ (by rw [h.last_eq]; exact hp) hc

end mapCps

/-! ## 3. Homogeneous-affine actions on control points -/

end Obj

/-- `phys ↦ lin phys + wt • tr`, weight untouched: the form of every C09 operation on one
    (homogeneous) control point, and – by `C09.evalPt_affine` – on every evaluated point
    (`p ↦ lin p + tr`). -/
structure HomAffine (K : Type) [Field K] where
  lin : (ℕ → K) →ₗ[K] (ℕ → K)
  tr : ℕ → K

namespace HomAffine
variable {K : Type} [Field K]

/-- The map on points of space. -/
def apply (A : HomAffine K) (p : ℕ → K) : ℕ → K := A.lin p + A.tr

protected def id : HomAffine K := ⟨LinearMap.id, 0⟩

/-- `B` after `A`. -/
def comp (B A : HomAffine K) : HomAffine K := ⟨B.lin.comp A.lin, B.lin A.tr + B.tr⟩

@[simp] theorem id_apply (p : ℕ → K) : (HomAffine.id : HomAffine K).apply p = p := by
  simp [apply, HomAffine.id]

theorem comp_apply (B A : HomAffine K) (p : ℕ → K) : (B.comp A).apply p = B.apply (A.apply p) := by
  simp [apply, comp, map_add, add_assoc]

end HomAffine

namespace C09
variable {K : Type} [Field K]

/-- `p ↦ p · M` on the first `dim` coordinates (row vector times matrix, as `cp @ M`), zero
    beyond. -/
def linMat (dim : ℕ) (M : ℕ → ℕ → K) : (ℕ → K) →ₗ[K] (ℕ → K) where
  toFun p := fun i => if i < dim then ∑ j ∈ Finset.range dim, p j * M j i else 0
  map_add' p q := by
    funext i
    simp only [Pi.add_apply]
    split_ifs
    · simp [add_mul, Finset.sum_add_distrib]
    · simp
  map_smul' a p := by
    funext i
    simp only [Pi.smul_apply, smul_eq_mul, RingHom.id_apply]
    split_ifs
    · simp [Finset.mul_sum, mul_assoc]
    · simp

/-- Keep the first `n` coordinates, zero the others. -/
def linTrunc (n : ℕ) : (ℕ → K) →ₗ[K] (ℕ → K) where
  toFun p := fun i => if i < n then p i else 0
  map_add' p q := by funext i; simp only [Pi.add_apply]; split_ifs <;> simp
  map_smul' a p := by
    funext i; simp only [Pi.smul_apply, smul_eq_mul, RingHom.id_apply]; split_ifs <;> simp

/-- Zero the coordinates `i < dim` with `keep i = false`. -/
def linKeep (dim : ℕ) (keep : ℕ → Bool) : (ℕ → K) →ₗ[K] (ℕ → K) where
  toFun p := fun i => if i < dim ∧ keep i = false then 0 else p i
  map_add' p q := by funext i; simp only [Pi.add_apply]; split_ifs <;> simp
  map_smul' a p := by
    funext i; simp only [Pi.smul_apply, smul_eq_mul, RingHom.id_apply]; split_ifs <;> simp

/-- Per-axis factors on the first `dim` coordinates. -/
def linDiag (dim : ℕ) (f : ℕ → K) : (ℕ → K) →ₗ[K] (ℕ → K) where
  toFun p := fun i => if i < dim then p i * f i else 0
  map_add' p q := by funext i; simp only [Pi.add_apply]; split_ifs <;> simp [add_mul]
  map_smul' a p := by
    funext i; simp only [Pi.smul_apply, smul_eq_mul, RingHom.id_apply]; split_ifs <;> simp [mul_assoc]

theorem linMat_apply (dim : ℕ) (M : ℕ → ℕ → K) (p : ℕ → K) (i : ℕ) :
    linMat dim M p i = if i < dim then ∑ j ∈ Finset.range dim, p j * M j i else 0 := rfl

theorem linTrunc_apply (n : ℕ) (p : ℕ → K) (i : ℕ) : linTrunc n p i = if i < n then p i else 0 := rfl

theorem linKeep_apply (dim : ℕ) (keep : ℕ → Bool) (p : ℕ → K) (i : ℕ) :
    linKeep dim keep p i = if i < dim ∧ keep i = false then 0 else p i := rfl

theorem linDiag_apply (dim : ℕ) (f : ℕ → K) (p : ℕ → K) (i : ℕ) :
    linDiag dim f p i = if i < dim then p i * f i else 0 := rfl

/-- A diagonal matrix acts per axis. -/
theorem linMat_diag (dim : ℕ) (f : ℕ → K) :
    linMat dim (fun j i => if i = j then f i else 0) = linDiag dim f := by
  apply LinearMap.ext; intro p; funext i
  rw [linMat_apply, linDiag_apply]
  split_ifs with hi
  · rw [Finset.sum_eq_single i]
    · simp
    · intro j _ hj; simp [Ne.symm hj]
    · intro h; exact absurd (Finset.mem_range.mpr hi) h
  · rfl

/-- The identity matrix keeps the first `dim` coordinates. -/
theorem linMat_one (dim : ℕ) :
    linMat dim (fun j i => if i = j then (1 : K) else 0) = linTrunc dim := by
  rw [linMat_diag]
  apply LinearMap.ext; intro p; funext i
  simp [linDiag_apply, linTrunc_apply]

/-- Points supported in the first `dim` coordinates are not changed by truncation at `n ≥ dim`. -/
theorem linTrunc_of_support {n dim : ℕ} (hn : dim ≤ n) {p : ℕ → K} (hp : ∀ i, dim ≤ i → p i = 0) :
    linTrunc n p = p := by
  funext i
  rw [linTrunc_apply]
  split_ifs with h
  · rfl
  · exact (hp i (by omega)).symm

/-- `linMat dim M` only reads the first `dim` coordinates. -/
theorem linMat_trunc (dim : ℕ) (M : ℕ → ℕ → K) (p : ℕ → K) :
    linMat dim M (linTrunc dim p) = linMat dim M p := by
  funext i
  simp only [linMat_apply, linTrunc_apply]
  split_ifs
  · exact Finset.sum_congr rfl (fun j hj => by rw [if_pos (Finset.mem_range.mp hj)])
  · rfl

theorem foldl_add_eq_sum (n : ℕ) (g : ℕ → K) :
    (List.range n).foldl (fun acc j => acc + g j) 0 = ∑ j ∈ Finset.range n, g j := by
  induction n with
  | zero => simp
  | succ n ih => rw [List.range_succ, List.foldl_append, ih, Finset.sum_range_succ]; rfl

theorem evalPt_congr {ι : Type} (s : Finset ι) (w : ι → K) {P P' : ι → ℕ → K} {W W' : ι → K}
    (hP : ∀ i ∈ s, P i = P' i) (hW : ∀ i ∈ s, W i = W' i) :
    evalPt s w P W = evalPt s w P' W' := by
  have h1 : homPhys s w P = homPhys s w P' :=
    Finset.sum_congr rfl (fun i hi => by rw [hP i hi])
  have h2 : homW s w W = homW s w W' :=
    Finset.sum_congr rfl (fun i hi => by rw [hW i hi])
  unfold evalPt
  rw [h1, h2]

end C09

namespace Obj
variable {K : Type} [Field K]
open C09

theorem cpPhys_support (o : Obj K) (pI i : ℕ) (hi : o.dimension ≤ i) : o.cpPhys pI i = 0 := by
  unfold cpPhys; rw [if_neg (by omega)]

/-- `o'` arises from `o` by the homogeneous-affine action `A` on every control point; bases
    (parametrisation) and weights are untouched. -/
structure Acts (o o' : Obj K) (A : HomAffine K) : Prop where
  bases : o'.bases = o.bases
  npts : o'.npts = o.npts
  wf : o'.WF
  phys : ∀ pI < o.npts, o'.cpPhys pI = A.lin (o.cpPhys pI) + o.cpWt pI • A.tr
  wt : ∀ pI < o.npts, o'.cpWt pI = o.cpWt pI

theorem Acts.refl {o : Obj K} (h : o.WF) : Acts o o HomAffine.id where
  bases := rfl
  npts := rfl
  wf := h
  phys := by intro pI _; simp [HomAffine.id]
  wt := by intro pI _; rfl

theorem Acts.trans {o o' o'' : Obj K} {A B : HomAffine K} (h1 : Acts o o' A) (h2 : Acts o' o'' B) :
    Acts o o'' (B.comp A) where
  bases := h2.bases.trans h1.bases
  npts := h2.npts.trans h1.npts
  wf := h2.wf
  phys := by
    intro pI hp
    rw [h2.phys pI (by rw [h1.npts]; exact hp), h1.phys pI hp, h1.wt pI hp]
    simp only [HomAffine.comp, LinearMap.comp_apply, map_add, map_smul, smul_add, add_assoc]
  wt := by
    intro pI hp
    rw [h2.wt pI (by rw [h1.npts]; exact hp), h1.wt pI hp]

/-- Only the values of `A.lin` on points supported in the first `dimension` coordinates matter. -/
theorem Acts.congr {o o' : Obj K} {A B : HomAffine K} (h : Acts o o' A)
    (hlin : ∀ p : ℕ → K, (∀ i, o.dimension ≤ i → p i = 0) → A.lin p = B.lin p) (htr : A.tr = B.tr) :
    Acts o o' B where
  bases := h.bases
  npts := h.npts
  wf := h.wf
  phys := by
    intro pI hp
    rw [h.phys pI hp, hlin _ (o.cpPhys_support pI), htr]
  wt := h.wt

/-- **Evaluation commutes with the action** for every finite family of basis-function weights `w`
    over control-point indices, as long as the weight sum does not vanish. -/
theorem Acts.evalPt {o o' : Obj K} {A : HomAffine K} (h : Acts o o' A) (s : Finset ℕ)
    (hs : ∀ i ∈ s, i < o.npts) (w : ℕ → K) (hW : homW s w o.cpWt ≠ 0) :
    C09.evalPt s w o'.cpPhys o'.cpWt = A.apply (C09.evalPt s w o.cpPhys o.cpWt) := by
  rw [evalPt_congr s w (fun i hi => h.phys i (hs i hi)) (fun i hi => h.wt i (hs i hi))]
  exact evalPt_affine s w _ _ A.lin A.tr hW

end Obj

end Splipy
