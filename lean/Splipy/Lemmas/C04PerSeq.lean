import Splipy.Lemmas.C04PerModel
import Splipy.Lemmas.C04Tensor

/-!
# C04 helper lemmas, part 15: sequences of periodic insertions, and objects
-/

namespace Splipy
namespace C04

set_option linter.unusedSectionVars false

variable {K : Type} [Field K] [LinearOrder K] [IsStrictOrderedRing K] [FloorRing K]

/-- Periodic analogue of `Refines`: `b'` is a valid periodic basis with the same order, continuity
    and domain, `k` more knots and functions; `C` is `(n+k) × n` and maps the coefficients of any
    periodic spline on `b` (wrapped-image sum `wsum`) to coefficients of the SAME function on `b'`, at
    every parameter of the domain (one-sided), with all derivatives. -/
structure PerRefines (b b' : Basis K) (C : Mat K) (k : ℕ) : Prop where
  valid : b'.Valid
  order_eq : b'.order = b.order
  periodic_eq : b'.periodic = b.periodic
  size_eq : b'.knots.size = b.knots.size + k
  num_eq : b'.numFunctions = b.numFunctions + k
  start_eq : b'.start = b.start
  stop_eq : b'.stop = b.stop
  shape : Shape (b.numFunctions + k) b.numFunctions C
  same : ∀ (c : ℕ → K) (s : Side) (d : ℕ) (t : K), s.mem b.start b.stop t →
    wsum s b'.kn (b.order - 1) (b.nAll + k) (b.numFunctions + k) (mulVec C b.numFunctions c) d t
      = wsum s b.kn (b.order - 1) b.nAll b.numFunctions c d t

theorem PerRefines.nAll_eq {b b' : Basis K} {C : Mat K} {k : ℕ} (h : PerRefines b b' C k)
    (hv : b.Valid) : b'.nAll = b.nAll + k := by
  have := hv.size_ge
  unfold Basis.nAll
  rw [h.size_eq, h.order_eq]; omega

theorem perRefines_refl (b : Basis K) (hv : b.Valid) :
    PerRefines b b (Mat.identity b.numFunctions) 0 := by
  refine ⟨hv, rfl, rfl, rfl, rfl, rfl, rfl, shape_identity _, fun c s d t _ => ?_⟩
  exact wsum_congr s _ _ _ _ (numFunctions_pos hv) _ _ d t (fun r hr => mulVec_identity _ c r hr)

theorem perRefines_trans {b b1 b2 : Basis K} {C1 C2 : Mat K} {k1 k2 : ℕ} (hv : b.Valid)
    (h1 : PerRefines b b1 C1 k1) (h2 : PerRefines b1 b2 C2 k2) :
    PerRefines b b2 (Mat.mul C2 C1) (k1 + k2) := by
  have hn := numFunctions_pos hv
  have hA : Shape (b.numFunctions + k1 + k2) (b.numFunctions + k1) C2 := by
    have := h2.shape; rwa [h1.num_eq] at this
  have hmv : ∀ (c : ℕ → K) r, r < b.numFunctions + (k1 + k2) →
      mulVec (Mat.mul C2 C1) b.numFunctions c r
        = mulVec C2 (b.numFunctions + k1) (mulVec C1 b.numFunctions c) r :=
    fun c r hr => mulVec_mul hA h1.shape (by omega) c r (by omega)
  refine ⟨h2.valid, h2.order_eq.trans h1.order_eq, h2.periodic_eq.trans h1.periodic_eq, ?_, ?_,
    h2.start_eq.trans h1.start_eq, h2.stop_eq.trans h1.stop_eq, ?_, fun c s d t ht => ?_⟩
  · rw [h2.size_eq, h1.size_eq]; omega
  · rw [h2.num_eq, h1.num_eq]; omega
  · rw [← Nat.add_assoc]; exact shape_mul hA h1.shape (by omega)
  · rw [wsum_congr s _ _ _ _ (by omega) _ _ d t (hmv c)]
    have e2 := h2.same (mulVec C1 b.numFunctions c) s d t (by rw [h1.start_eq, h1.stop_eq]; exact ht)
    rw [h1.order_eq, h1.num_eq, h1.nAll_eq hv] at e2
    rw [← Nat.add_assoc, ← Nat.add_assoc, e2]
    exact h1.same c s d t ht

/-- one periodic insertion of ANY real (wrapped; the domain end included), as a `PerRefines` step -/
theorem insertKnot_per_step_any (b : Basis K) (hv : b.Valid) (k : ℕ) (hk : b.periodic = (k : Int))
    (hguard : b.order + k ≤ b.numFunctions) (x0 : K) :
    ∃ b' C, b.insertKnot x0 = .ok (b', C) ∧ PerRefines b b' C 1 := by
  obtain ⟨h1, h2, _⟩ := wrapVal_mem b hv.start_lt_stop x0
  obtain ⟨b', C, e1, e2, e3, e4, e5, e6, e7, e8, _, e10, e11⟩ :=
    insertKnot_periodic_geom_le b hv k hk hguard (wrapVal b x0) ⟨h1, h2⟩
  refine ⟨b', C, ?_, ⟨e2, e3, e4, e5, e6, e7, e8, e10, e11⟩⟩
  rw [insertKnot_wrap b (by rw [hk]; omega) hv.start_lt_stop x0]
  exact e1

/-- (kept for its users) the same with the superfluous hypothesis `wrapVal b x0 ≠ b.stop` -/
theorem insertKnot_per_step (b : Basis K) (hv : b.Valid) (k : ℕ) (hk : b.periodic = (k : Int))
    (hguard : b.order + k ≤ b.numFunctions) (x0 : K) (_hne : wrapVal b x0 ≠ b.stop) :
    ∃ b' C, b.insertKnot x0 = .ok (b', C) ∧ PerRefines b b' C 1 :=
  insertKnot_per_step_any b hv k hk hguard x0

theorem wrapVal_congr (b b1 : Basis K) (h1 : b1.start = b.start) (h2 : b1.stop = b.stop) (x0 : K) :
    wrapVal b1 x0 = wrapVal b x0 := by
  unfold wrapVal; rw [h1, h2]

/-- Sequence of periodic insertions (any reals whose wrapped images avoid the domain end),
    generalised over the accumulated matrix. -/
theorem insertMany_periodic_aux (b0 : Basis K) (hv0 : b0.Valid) (k : ℕ)
    (hk : b0.periodic = (k : Int)) (hguard : b0.order + k ≤ b0.numFunctions) (xs : List K) :
    ∀ (b : Basis K) (Cacc : Mat K) (m : ℕ), PerRefines b0 b Cacc m →
      ∃ b' C, insertMany b Cacc xs = .ok (b', C) ∧ PerRefines b0 b' C (m + xs.length) := by
  induction xs with
  | nil =>
    intro b Cacc m h
    exact ⟨b, Cacc, rfl, h⟩
  | cons x xs ih =>
    intro b Cacc m h
    obtain ⟨b1, C1, hins, hr1⟩ := insertKnot_per_step_any b h.valid k (h.periodic_eq.trans hk)
      (by rw [h.order_eq, h.num_eq]; omega) x
    obtain ⟨b', C, hm, hr⟩ := ih b1 (Mat.mul C1 Cacc) (m + 1) (perRefines_trans hv0 h hr1)
    refine ⟨b', C, ?_, ?_⟩
    · unfold insertMany at hm ⊢
      rw [List.foldlM_cons]
      have : stepIns (b, Cacc) x = .ok (b1, Mat.mul C1 Cacc) := by
        unfold stepIns
        simp only [hins]
        rfl
      rw [this]
      exact hm
    · have e : m + (x :: xs).length = m + 1 + xs.length := by simp; omega
      rw [e]; exact hr

theorem insertMany_periodic_any (b : Basis K) (hv : b.Valid) (k : ℕ) (hk : b.periodic = (k : Int))
    (hguard : b.order + k ≤ b.numFunctions) (xs : List K) :
    ∃ b' C, insertMany b (Mat.identity b.numFunctions) xs = .ok (b', C) ∧
      PerRefines b b' C xs.length := by
  obtain ⟨b', C, h1, h2⟩ :=
    insertMany_periodic_aux b hv k hk hguard xs b (Mat.identity b.numFunctions) 0
      (perRefines_refl b hv)
  exact ⟨b', C, h1, by simpa using h2⟩

/-- `Obj.insertKnots` along a valid PERIODIC direction (guard `n ≥ p+k`, control-net length `n`):
    success, refined periodic basis, every control-net fibre along `dir` is `C` applied to the old
    fibre. -/
theorem insertKnots_fibres_periodic_any (o : Obj K) (dir : ℕ) (hdir : dir < o.bases.size)
    (hax : dir < o.cps.shape.length) (hv : (o.basis dir).Valid) (k : ℕ)
    (hk : (o.basis dir).periodic = (k : Int))
    (hguard : (o.basis dir).order + k ≤ (o.basis dir).numFunctions)
    (hshape : o.cps.shape.getD dir 0 = (o.basis dir).numFunctions) (xs : List K) :
    ∃ o' C, o.insertKnots xs dir = .ok o' ∧
      PerRefines (o.basis dir) (o'.basis dir) C xs.length ∧
      (∀ d, d ≠ dir → o'.basis d = o.basis d) ∧ o'.rational = o.rational ∧
      o'.cps.shape = o.cps.shape.set dir ((o.basis dir).numFunctions + xs.length) ∧
      outerN o' dir = outerN o dir ∧ innerN o' dir = innerN o dir ∧
      (∀ a i r, a < outerN o dir → i < innerN o dir → r < (o.basis dir).numFunctions + xs.length →
        fibre o' dir a i r = mulVec C (o.basis dir).numFunctions (fibre o dir a i) r) ∧
      o'.bases = o.bases.set! dir (o'.basis dir) := by
  obtain ⟨b', C, hm, hr⟩ := insertMany_periodic_any (o.basis dir) hv k hk hguard xs
  have hCsize : C.size = (o.basis dir).numFunctions + xs.length := hr.shape.1
  have hmid : (Tensor.split3 o.cps.shape dir).2.1 = (o.basis dir).numFunctions := by
    rw [← hshape]
    simp only [Tensor.split3, List.getD_eq_getElem?_getD, List.getElem?_eq_getElem hax]
    rfl
  refine ⟨{ o with bases := o.bases.set! dir b', cps := Tensor.applyAxis C o.cps dir }, C, ?_, ?_,
    fun d hd => basis_set_ne o dir d hd _ _, rfl, ?_, ?_, ?_, ?_, ?_⟩
  · rw [insertKnots_eq, hshape, hm]; rfl
  · rw [basis_set o dir hdir]; exact hr
  rotate_right
  · rw [basis_set o dir hdir]
  · change (Tensor.applyAxis C o.cps dir).shape = _
    rw [applyAxis_shape, hCsize]
  · change (Tensor.split3 (Tensor.applyAxis C o.cps dir).shape dir).1 = _
    rw [applyAxis_shape]
    simp only [Tensor.split3]
    rw [List.take_set_of_le (le_refl _)]
    rfl
  · change (Tensor.split3 (Tensor.applyAxis C o.cps dir).shape dir).2.2 = _
    rw [applyAxis_shape]
    simp only [Tensor.split3]
    rw [List.drop_set_of_lt (by omega)]
    rfl
  · intro a i r ha hi hr'
    change (Tensor.applyAxis C o.cps dir).at3 dir a r i = _
    rw [applyAxis_fibre C o.cps dir hax a r i ha (by omega) hi, hmid]
    rfl

/-- (kept for its users) `insertMany_periodic_any` with the superfluous end-exclusion hypothesis -/
theorem insertMany_periodic (b : Basis K) (hv : b.Valid) (k : ℕ) (hk : b.periodic = (k : Int))
    (hguard : b.order + k ≤ b.numFunctions) (xs : List K)
    (_hxs : ∀ x ∈ xs, wrapVal b x ≠ b.stop) :
    ∃ b' C, insertMany b (Mat.identity b.numFunctions) xs = .ok (b', C) ∧
      PerRefines b b' C xs.length :=
  insertMany_periodic_any b hv k hk hguard xs

/-- (kept for its users) `insertKnots_fibres_periodic_any` with the superfluous end-exclusion hypothesis -/
theorem insertKnots_fibres_periodic (o : Obj K) (dir : ℕ) (hdir : dir < o.bases.size)
    (hax : dir < o.cps.shape.length) (hv : (o.basis dir).Valid) (k : ℕ)
    (hk : (o.basis dir).periodic = (k : Int))
    (hguard : (o.basis dir).order + k ≤ (o.basis dir).numFunctions)
    (hshape : o.cps.shape.getD dir 0 = (o.basis dir).numFunctions) (xs : List K)
    (_hxs : ∀ x ∈ xs, wrapVal (o.basis dir) x ≠ (o.basis dir).stop) :
    ∃ o' C, o.insertKnots xs dir = .ok o' ∧
      PerRefines (o.basis dir) (o'.basis dir) C xs.length ∧
      (∀ d, d ≠ dir → o'.basis d = o.basis d) ∧ o'.rational = o.rational ∧
      o'.cps.shape = o.cps.shape.set dir ((o.basis dir).numFunctions + xs.length) ∧
      outerN o' dir = outerN o dir ∧ innerN o' dir = innerN o dir ∧
      (∀ a i r, a < outerN o dir → i < innerN o dir → r < (o.basis dir).numFunctions + xs.length →
        fibre o' dir a i r = mulVec C (o.basis dir).numFunctions (fibre o dir a i) r) ∧
      o'.bases = o.bases.set! dir (o'.basis dir) :=
  insertKnots_fibres_periodic_any o dir hdir hax hv k hk hguard hshape xs

end C04
end Splipy
