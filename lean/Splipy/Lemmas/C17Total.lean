import Splipy.Lemmas.C17Count

/-! Lemmas for C17: with twins tolerated, `lookup(add=True)` and `SplineModel.add` never raise. -/

namespace Splipy.MP

theorem lookupPoint_total (m : Model) (y : Obj) : ∃ r, m.lookupPoint y true = .ok r := by
  unfold Model.lookupPoint
  dsimp only
  simp only [if_true]
  split <;> exact ⟨_, rfl⟩

theorem resolve_total (m : Model) (y : Obj) (lower : List (List ℕ)) :
    ∃ r, m.resolve y lower true [] = .ok r := by
  unfold Model.resolve
  dsimp only
  split
  · exact ⟨_, rfl⟩
  · split <;> simp
  · simp only [List.contains_nil, Bool.false_eq_true, if_false]
    split <;> simp

theorem lookupList_total {look : Model → Obj → Except MErr (Model × ℕ × Orientation)} {d : ℕ}
    (hlook : ∀ m y, y.pardim ≤ d ∧ y.pardim ≤ 3 → ∃ r, look m y = .ok r) (x : Obj) (secs : List Sec)
    (hsecs : ∀ s ∈ secs, (x.sect s).pardim ≤ d ∧ (x.sect s).pardim ≤ 3) :
    ∀ m, ∃ r, Model.lookupList look x secs m = .ok r := by
  induction secs with
  | nil => intro m; exact ⟨_, rfl⟩
  | cons s rest ih =>
    intro m
    obtain ⟨⟨m1, id, o⟩, h1⟩ := hlook m (x.sect s) (hsecs s (by simp))
    obtain ⟨r2, h2⟩ := ih (fun t ht => hsecs t (List.mem_cons_of_mem _ ht)) m1
    simp only [Model.lookupList, h1, h2]
    exact ⟨_, rfl⟩

theorem lookupLower_total {look : Model → Obj → Except MErr (Model × ℕ × Orientation)} {d : ℕ}
    (hlook : ∀ m y, y.pardim ≤ d ∧ y.pardim ≤ 3 → ∃ r, look m y = .ok r) (x : Obj) (pd : ℕ) (dims : List ℕ)
    (hdims : ∀ i ∈ dims, ∀ s ∈ sections pd i, (x.sect s).pardim ≤ d ∧ (x.sect s).pardim ≤ 3) :
    ∀ m, ∃ r, Model.lookupLower look x pd dims m = .ok r := by
  induction dims with
  | nil => intro m; exact ⟨_, rfl⟩
  | cons i rest ih =>
    intro m
    obtain ⟨⟨m1, ids⟩, h1⟩ := lookupList_total hlook x (sections pd i) (hdims i (by simp)) m
    obtain ⟨r2, h2⟩ := ih (fun t ht => hdims t (List.mem_cons_of_mem _ ht)) m1
    simp only [Model.lookupLower, h1, h2]
    exact ⟨_, rfl⟩

theorem lookup_total : ∀ fuel (m : Model) (y : Obj), y.pardim ≤ fuel → y.pardim ≤ 3 →
    ∃ r, Model.lookup fuel m y true [] = .ok r := by
  intro fuel
  induction fuel with
  | zero =>
    intro m y hd _
    rw [Model.lookup_point _ _ _ _ _ (by omega)]
    exact lookupPoint_total m y
  | succ fuel ih =>
    intro m y hd h3
    by_cases h0 : y.pardim = 0
    · rw [Model.lookup_point _ _ _ _ _ h0]; exact lookupPoint_total m y
    · rw [Model.lookup_succ _ _ _ _ _ h0]
      have hlook : ∀ m' z, z.pardim ≤ fuel ∧ z.pardim ≤ 3 →
          ∃ r, Model.lookup fuel m' z true [] = .ok r := fun m' z hz => ih m' z hz.1 hz.2
      obtain ⟨⟨m1, lower⟩, h1⟩ := lookupLower_total (d := fuel) hlook y y.pardim (List.range y.pardim)
        (fun i hi s hs => by
          have hi' := List.mem_range.1 hi
          obtain ⟨_, hp, _⟩ := sect_pardim_of_mem h3 (by omega) hs y
          rw [hp]; omega) m
      rw [h1]
      exact resolve_total m1 y lower

/-- with twins tolerated and handedness not forced, `SplineModel.add` does not raise -/
theorem SplineModel.add_total (ktol : ℚ) (sm : SplineModel) (objs : List Obj)
    (hfr : sm.forceRightHand = false) (hP : sm.pardim ≤ 3)
    (hobjs : ∀ p ∈ objs, p.dimension = sm.dimension ∧ p.pardim ≤ sm.pardim) :
    ∃ sm', sm.add ktol objs [] = .ok sm' := by
  unfold SplineModel.add
  have h1 : objs.any (fun p => decide (p.dimension ≠ sm.dimension)) = false := by
    rw [List.any_eq_false]; intro p hp; simp [(hobjs p hp).1]
  have h2 : objs.any (fun p => decide (p.pardim > sm.pardim)) = false := by
    rw [List.any_eq_false]; intro p hp; have := (hobjs p hp).2; simp; omega
  simp only [h1, h2, hfr, Bool.false_and, Bool.false_eq_true, if_false]
  have hfold : ∀ (l : List Obj), (∀ p ∈ l, p.pardim ≤ sm.pardim) → ∀ m,
      ∃ cat, l.foldlM (fun m p => (Model.lookup sm.pardim m p true []).map (·.1)) m = .ok cat := by
    intro l
    induction l with
    | nil => intro _ m; exact ⟨m, rfl⟩
    | cons p rest ih =>
      intro hl m
      obtain ⟨⟨m1, id, o⟩, hr⟩ := lookup_total sm.pardim m p (hl p (by simp)) (by have := hl p (by simp); omega)
      obtain ⟨cat, hc⟩ := ih (fun q hq => hl q (List.mem_cons_of_mem _ hq)) m1
      refine ⟨cat, ?_⟩
      rw [List.foldlM_cons, hr]
      simpa [Except.map, bind, Except.bind] using hc
  obtain ⟨cat, hc⟩ := hfold objs (fun p hp => (hobjs p hp).2) sm.cat
  rw [hc]
  exact ⟨_, rfl⟩

end Splipy.MP
