import Mathlib.Algebra.BigOperators.Intervals
import Mathlib.Algebra.BigOperators.Ring.Finset
import Mathlib.Tactic.Ring
import Mathlib.Tactic.Linarith
import Splipy.Model.Interp

/-!
# C14 helper lemmas: the array matrices of `Model/LinAlg.lean` as entry functions

`Mat.get`, `Mat.mul`, `Mat.identity`, `Mat.transpose` expressed with `Finset` sums; the certificate
of `Interp.solveC`.
-/

namespace Splipy

open Finset

section
variable {K : Type} [Field K]

/-- The accumulation loop `foldl (acc + f l)` over `List.range k` is the finite sum. -/
theorem foldl_add_eq_sum_c14 (f : ℕ → K) (k : ℕ) :
    (List.range k).foldl (fun acc l => acc + f l) 0 = ∑ l ∈ range k, f l := by
  induction k with
  | zero => simp
  | succ n ih => rw [List.range_succ, List.foldl_append, ih, sum_range_succ]; simp

theorem getD_ofFn_c14 {α : Type} (n : ℕ) (f : Fin n → α) (d : α) (i : ℕ) (h : i < n) :
    (Array.ofFn f).getD i d = f ⟨i, h⟩ := by
  simp [Array.getD, h]

theorem getD_ofFn_ge_c14 {α : Type} (n : ℕ) (f : Fin n → α) (d : α) (i : ℕ) (h : n ≤ i) :
    (Array.ofFn f).getD i d = d := by
  simp [Array.getD, Nat.not_lt.mpr h]

namespace Mat


theorem nrows_mul_c14 (A B : Mat K) : (Mat.mul A B).nrows = A.nrows := by
  simp [Mat.mul, Mat.nrows]

theorem row_size_mul_c14 (A B : Mat K) (i : ℕ) (hi : i < A.nrows) :
    ((Mat.mul A B).getD i #[]).size = B.ncols := by
  unfold Mat.mul
  simp only
  rw [getD_ofFn_c14 _ _ _ _ hi]
  simp

/-- Entries of the model's matrix product. -/
theorem get_mul_c14 (A B : Mat K) (i j : ℕ) (hi : i < A.nrows) (hj : j < B.ncols) :
    (Mat.mul A B).get i j = ∑ l ∈ range B.nrows, A.get i l * B.get l j := by
  unfold Mat.mul Mat.get
  simp only
  rw [getD_ofFn_c14 _ _ _ _ hi, getD_ofFn_c14 _ _ _ _ hj]
  exact foldl_add_eq_sum_c14 (fun l => A.get i l * B.get l j) B.nrows

theorem get_identity_c14 (n i j : ℕ) (hi : i < n) (hj : j < n) :
    (Mat.identity n : Mat K).get i j = if i = j then 1 else 0 := by
  unfold Mat.identity Mat.get
  rw [getD_ofFn_c14 _ _ _ _ hi, getD_ofFn_c14 _ _ _ _ hj]

theorem nrows_identity_c14 (n : ℕ) : (Mat.identity n : Mat K).nrows = n := by
  simp [Mat.identity, Mat.nrows]

theorem ncols_identity_c14 (n : ℕ) (hn : 0 < n) : (Mat.identity n : Mat K).ncols = n := by
  unfold Mat.identity Mat.ncols
  rw [getD_ofFn_c14 _ _ _ _ hn]
  simp

theorem nrows_transpose_c14 (A : Mat K) : (Mat.transpose A).nrows = A.ncols := by
  simp [Mat.transpose, Mat.nrows]

theorem get_transpose_c14 (A : Mat K) (i j : ℕ) (hi : i < A.ncols) (hj : j < A.nrows) :
    (Mat.transpose A).get i j = A.get j i := by
  unfold Mat.transpose Mat.get
  rw [getD_ofFn_c14 _ _ _ _ hi, getD_ofFn_c14 _ _ _ _ hj]

/-- Out-of-range entries are `0`. -/
theorem get_of_nrows_le_c14 (A : Mat K) (i j : ℕ) (h : A.nrows ≤ i) : A.get i j = 0 := by
  unfold Mat.get Mat.nrows at *
  have : A.getD i #[] = #[] := by simp [Array.getD, Nat.not_lt.mpr h]
  rw [this]; simp [Array.getD]

end Mat
end

namespace Interp
variable {K : Type} [Field K] [LinearOrder K] [FloorRing K]

omit [FloorRing K] in
/-- The certificate of the model's solve: a successful `solveC A B = X` satisfies `A·X = B`. -/
theorem solveC_ok {A B X : Mat K} (h : solveC A B = .ok X) : X.size = A.ncols ∧ Mat.mul A X = B := by
  unfold solveC at h
  split at h
  · exact absurd h (by simp)
  · split at h
    · rename_i hc
      cases h
      exact hc
    · exact absurd h (by simp)

omit [FloorRing K] in
/-- Entry form of the certificate. -/
theorem solveC_entries {A B X : Mat K} (h : solveC A B = .ok X) (i j : ℕ) (hi : i < A.nrows)
    (hj : j < X.ncols) : ∑ l ∈ range X.nrows, A.get i l * X.get l j = B.get i j := by
  obtain ⟨_, hm⟩ := solveC_ok h
  rw [← hm, Mat.get_mul_c14 A X i j hi hj]

end Interp

end Splipy
