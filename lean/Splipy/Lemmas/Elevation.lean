import Splipy.Lemmas.Basic
import Splipy.Lemmas.Boehm
import Mathlib.Order.Monotone.Basic
import Splipy.Lemmas.C05Knots
import Mathlib.Data.List.GetD
import Splipy.Lemmas.EvalRow
import Mathlib.Data.Rat.Floor
import Mathlib.Tactic.NormNum

/-!
# L15: degree elevation — every spline of degree `q` is a spline of degree `q+1` on the knot
# sequence with all multiplicities raised by one

1. `elevation_window` — the single-B-spline degree-elevation identity
   `(q+1) · B_{i,q,τ} = Σ_{k=0}^{q+1} B_{i,q+1,τ^{(i+k)}}` where `τ^{(m)} = dbl τ m` is `τ` with the
   knot number `m` doubled (Prautzsch 1984 / Cohen–Lyche–Schumaker); all `t`, both sides.
2. `refine_nonneg` — a B-spline on a subsequence `σ ∘ ψ` of a knot sequence `σ` is a non-negative
   combination of the B-splines of the same degree on `σ` (iterated Boehm insertion).
3. `elevation_incl`, `elevation_matrix`, `elevation_splineVal` — if `σ` contains every knot of `τ`
   once more (index map `φ`), every `B_{i,q,τ}` is a non-negative combination of the `B_{j,q+1,σ}`;
   spline-level corollaries.  The coefficients do not depend on `t` nor on the side.
4. `elevation_expand_matrix`, `elevation_expand_iter`, `elevation_openBasis` — the same for the
   concrete knot vectors `expand u m` ↦ `expand u (m.map (· + a))` of `C05Knots.lean`
   (knot sequences continued by their last entry, i.e. `Basis.kn`), degree `q ↦ q + a`.
5. `elevation_H_incl`, `elevation_H_incl_net` — hypothesis `H_incl` of `C05_geometry_partial`
   (an identity between rows of the executable `Basis.evaluate`) for clamped non-periodic bases,
   every parameter `t`.
-/

namespace Splipy

set_option linter.unusedSectionVars false

variable {K : Type} [Field K] [LinearOrder K] [IsStrictOrderedRing K]

/-! ## 1. The elevation identity for one B-spline -/

/-- `τ` with the knot number `m` doubled. -/
def dbl (τ : ℕ → K) (m : ℕ) : ℕ → K := fun j => if j ≤ m then τ j else τ (j-1)

omit [IsStrictOrderedRing K] in
theorem dbl_le {τ : ℕ → K} {m j : ℕ} (h : j ≤ m) : dbl τ m j = τ j := by
  simp [dbl, h]

omit [IsStrictOrderedRing K] in
theorem dbl_gt {τ : ℕ → K} {m j k : ℕ} (h : m < j) (hk : j = k + 1) : dbl τ m j = τ k := by
  subst hk
  have : ¬ (k + 1 ≤ m) := by omega
  simp [dbl, this]

omit [IsStrictOrderedRing K] in
theorem dbl_mono (τ : ℕ → K) (hτ : Monotone τ) (m : ℕ) : Monotone (dbl τ m) := by
  apply monotone_nat_of_le_succ
  intro n
  rcases Nat.lt_or_ge n m with h | h
  · rw [dbl_le (show n ≤ m by omega), dbl_le (show n + 1 ≤ m by omega)]
    exact hτ (Nat.le_succ n)
  · rcases Nat.eq_or_lt_of_le h with h1 | h1
    · subst h1
      rw [dbl_le (le_refl m), dbl_gt (show m < m + 1 by omega) rfl]
    · obtain ⟨k, rfl⟩ : ∃ k, n = k + 1 := ⟨n - 1, by omega⟩
      rw [dbl_gt (show m < k + 1 by omega) rfl, dbl_gt (show m < k + 1 + 1 by omega) rfl]
      exact hτ (Nat.le_succ k)

/-- **Degree elevation of a single B-spline** (both one-sided versions, all `t`):
`(q+1) · B_{i,q,τ} = Σ_{k=0}^{q+1} B_{i,q+1,τ^{(i+k)}}`, `τ^{(m)}` = `τ` with knot `m` doubled. -/
theorem elevation_window (s : Side) (τ : ℕ → K) (hτ : Monotone τ) (q i : ℕ) (t : K) :
    ((q : K) + 1) * B s τ q i t
      = ∑ k ∈ Finset.range (q+2), B s (dbl τ (i+k)) (q+1) i t := by
  induction q generalizing i with
  | zero =>
    rw [Finset.sum_range_succ, Finset.sum_range_one, B_succ, B_succ, B_zero, B_zero, B_zero, B_zero,
      B_zero]
    simp only [Nat.add_zero]
    rw [dbl_le (show i ≤ i by omega), dbl_gt (show i < i + 1 by omega) rfl,
      dbl_gt (show i < i + 2 by omega) (show i + 2 = i + 1 + 1 by omega),
      dbl_le (show i ≤ i + 1 by omega), dbl_le (show i + 1 ≤ i + 1 by omega),
      dbl_gt (show i + 1 < i + 2 by omega) (show i + 2 = i + 1 + 1 by omega)]
    by_cases h : τ (i+1) = τ i
    · have hz : ind s (τ i) (τ (i+1)) t = 0 := by
        have := B_eq_zero_of_knots_eq s τ hτ 0 i t (by simpa using h)
        rwa [B_zero] at this
      rw [hz, h]; simp
    · have h' : τ (i+1) - τ i ≠ 0 := sub_ne_zero.mpr h
      simp only [sub_self, div_zero, zero_mul, zero_add, add_zero, Nat.cast_zero]
      field_simp
      ring
  | succ q ih =>
    have hsplit : ∀ k, B s (dbl τ (i+k)) (q+2) i t
        = (t - dbl τ (i+k) i) / (dbl τ (i+k) (i+q+2) - dbl τ (i+k) i) * B s (dbl τ (i+k)) (q+1) i t
          + (dbl τ (i+k) (i+q+3) - t) / (dbl τ (i+k) (i+q+3) - dbl τ (i+k) (i+1))
              * B s (dbl τ (i+k)) (q+1) (i+1) t := by
      intro k
      rw [B_succ s _ (q+1) i t, show i + (q+1) + 1 = i + q + 2 by omega,
        show i + (q+1) + 2 = i + q + 3 by omega]
    rw [Finset.sum_congr rfl (fun k _ => hsplit k), Finset.sum_add_distrib,
      Finset.sum_range_succ, Finset.sum_range_succ' (fun k => (dbl τ (i+k) (i+q+3) - t)
        / (dbl τ (i+k) (i+q+3) - dbl τ (i+k) (i+1)) * B s (dbl τ (i+k)) (q+1) (i+1) t)]
    -- first group, `k < q+2`
    have hA : ∑ k ∈ Finset.range (q+2), (t - dbl τ (i+k) i)
          / (dbl τ (i+k) (i+q+2) - dbl τ (i+k) i) * B s (dbl τ (i+k)) (q+1) i t
        = (t - τ i) / (τ (i+q+1) - τ i) * (((q:K)+1) * B s τ q i t) := by
      rw [ih i, Finset.mul_sum]
      apply Finset.sum_congr rfl
      intro k hk
      rw [Finset.mem_range] at hk
      rw [dbl_le (show i ≤ i + k by omega),
        dbl_gt (show i + k < i + q + 2 by omega) (show i + q + 2 = i + q + 1 + 1 by omega)]
    -- first group, `k = q+2`
    have hA' : B s (dbl τ (i+(q+2))) (q+1) i t = B s τ (q+1) i t := by
      apply B_congr_knots
      intro j hj
      exact dbl_le (by omega)
    -- second group, `k ≥ 1`
    have hC : ∑ k ∈ Finset.range (q+2), (dbl τ (i+(k+1)) (i+q+3) - t)
          / (dbl τ (i+(k+1)) (i+q+3) - dbl τ (i+(k+1)) (i+1)) * B s (dbl τ (i+(k+1))) (q+1) (i+1) t
        = (τ (i+q+2) - t) / (τ (i+q+2) - τ (i+1)) * (((q:K)+1) * B s τ q (i+1) t) := by
      rw [ih (i+1), Finset.mul_sum]
      apply Finset.sum_congr rfl
      intro k hk
      rw [Finset.mem_range] at hk
      rw [dbl_le (show i + 1 ≤ i + (k+1) by omega),
        dbl_gt (show i + (k+1) < i + q + 3 by omega) (show i + q + 3 = i + q + 2 + 1 by omega),
        show i + (k+1) = i + 1 + k by omega]
    -- second group, `k = 0`
    have hC' : B s (dbl τ (i+0)) (q+1) (i+1) t = B s τ (q+1) i t := by
      apply B_congr_knots
      intro j hj
      exact dbl_gt (by omega) (by omega)
    rw [hA, hA', hC, hC', dbl_le (show i ≤ i + (q+2) by omega),
      dbl_le (show i + q + 2 ≤ i + (q+2) by omega),
      dbl_gt (show i + 0 < i + q + 3 by omega) (show i + q + 3 = i + q + 2 + 1 by omega),
      dbl_gt (show i + 0 < i + 1 by omega) rfl]
    by_cases h : τ (i+q+2) = τ i
    · have hz : B s τ (q+1) i t = 0 :=
        B_eq_zero_of_knots_eq s τ hτ (q+1) i t (by rw [show i + (q+1) + 1 = i + q + 2 by omega]; exact h)
      have hz' := hz
      rw [B_succ] at hz'
      rw [hz]
      push_cast
      linear_combination (-((q:K)+1)) * hz'
    · have h' : τ (i+q+2) - τ i ≠ 0 := sub_ne_zero.mpr h
      have e : (t - τ i) / (τ (i+q+2) - τ i) + (τ (i+q+2) - t) / (τ (i+q+2) - τ i) = 1 := by
        field_simp; ring
      have := B_succ s τ q i t
      push_cast
      linear_combination (-(B s τ (q+1) i t)) * e + ((q:K)+1) * this


/-! ## 2. A B-spline on a subsequence is a non-negative combination of the refined B-splines -/

/-- index sequence with the index `m` inserted at position `μ` -/
def insN (ψ : ℕ → ℕ) (μ m : ℕ) : ℕ → ℕ :=
  fun j => if j < μ then ψ j else if j = μ then m else ψ (j-1)

theorem insN_lt {ψ : ℕ → ℕ} {μ m j : ℕ} (h : j < μ) : insN ψ μ m j = ψ j := by
  simp [insN, h]

theorem insN_self {ψ : ℕ → ℕ} {μ m : ℕ} : insN ψ μ m μ = m := by
  simp [insN]

theorem insN_gt {ψ : ℕ → ℕ} {μ m j k : ℕ} (h : μ ≤ k) (hj : j = k + 1) : insN ψ μ m j = ψ k := by
  subst hj
  have h1 : ¬ (k + 1 < μ) := by omega
  have h2 : ¬ (k + 1 = μ) := by omega
  simp [insN, h1, h2]

theorem insN_strictMono (ψ : ℕ → ℕ) (hψ : StrictMono ψ) (μ m : ℕ)
    (hlo : ∀ j, j < μ → ψ j < m) (hhi : ∀ j, μ ≤ j → m < ψ j) : StrictMono (insN ψ μ m) := by
  apply strictMono_nat_of_lt_succ
  intro n
  rcases lt_trichotomy (n+1) μ with h | h | h
  · rw [insN_lt (show n < μ by omega), insN_lt h]
    exact hψ (Nat.lt_succ_self n)
  · subst h
    rw [insN_lt (Nat.lt_succ_self n), insN_self]
    exact hlo n (Nat.lt_succ_self n)
  · rcases Nat.eq_or_lt_of_le (show μ ≤ n by omega) with h1 | h1
    · subst h1
      rw [insN_self, insN_gt (le_refl μ) rfl]
      exact hhi μ (le_refl μ)
    · obtain ⟨k, rfl⟩ : ∃ k, n = k + 1 := ⟨n - 1, by omega⟩
      rw [insN_gt (show μ ≤ k by omega) rfl, insN_gt (show μ ≤ k + 1 by omega) rfl]
      exact hψ (Nat.lt_succ_self k)

theorem comp_insN (σ : ℕ → K) (ψ : ℕ → ℕ) (μ m : ℕ) :
    (fun n => σ (insN ψ μ m n)) = insertSeq (fun n => σ (ψ n)) μ (σ m) := by
  funext n
  simp only [insN, insertSeq]
  split_ifs <;> rfl

theorem boehmAlpha_nonneg (τ : ℕ → K) (hτ : Monotone τ) (μ : ℕ) (x : K)
    (hlo : ∀ j, j < μ → τ j ≤ x) (q i : ℕ) : 0 ≤ boehmAlpha τ μ x q i := by
  unfold boehmAlpha
  split_ifs with h1 h2
  · exact zero_le_one
  · exact le_refl 0
  · exact div_nonneg (sub_nonneg.2 (hlo i (by omega))) (sub_nonneg.2 (hτ (by omega)))

theorem boehmAlpha_le_one (τ : ℕ → K) (hτ : Monotone τ) (μ : ℕ) (x : K)
    (hhi : ∀ j, μ ≤ j → x ≤ τ j) (q i : ℕ) : boehmAlpha τ μ x q i ≤ 1 := by
  unfold boehmAlpha
  split_ifs with h1 h2
  · exact le_refl 1
  · exact zero_le_one
  · exact div_le_one_of_le₀ (sub_le_sub_right (hhi (i+q) (by omega)) _)
      (sub_nonneg.2 (hτ (by omega)))

theorem el_no_gap_le (ψ : ℕ → ℕ) (i : ℕ) : ∀ n, (∀ j, j < n → ψ (i+j+1) ≤ ψ (i+j) + 1) →
    ψ (i+n) ≤ ψ i + n := by
  intro n
  induction n with
  | zero => intro _; simp
  | succ n ih =>
    intro h
    have h1 := ih (fun j hj => h j (by omega))
    have h2 := h n (by omega)
    rw [show i + (n+1) = i + n + 1 by omega]
    omega

/-- **Refinement.**  If `ψ` is a strictly increasing index map then the B-spline number `i` of
degree `p` on the subsequence `σ ∘ ψ` of the monotone knot sequence `σ` is a combination, with
non-negative coefficients `a j` independent of `t` and of the side `s`, of the B-splines `B_{j,p,σ}`,
`ψ i ≤ j ≤ ψ (i+p+1) - p - 1` (iterated Boehm knot insertion).  `g` bounds the number of knots of
`σ` strictly inside the window that are missing in the subsequence. -/
theorem refine_nonneg_aux (σ : ℕ → K) (hσ : Monotone σ) (p g : ℕ) :
    ∀ (ψ : ℕ → ℕ) (i : ℕ), StrictMono ψ → ψ (i+p+1) ≤ ψ i + p + 1 + g →
    ∃ a : ℕ → K, (∀ j, 0 ≤ a j) ∧ (∀ j, a j ≠ 0 → ψ i ≤ j ∧ j + p + 1 ≤ ψ (i+p+1)) ∧
      ∀ (s : Side) N t, ψ (i+p+1) ≤ N + p →
        B s (fun n => σ (ψ n)) p i t = ∑ j ∈ Finset.range N, a j * B s σ p j t := by
  induction g with
  | zero =>
    intro ψ i hψ hg
    have hlin : ∀ j, j ≤ p + 1 → ψ (i+j) = ψ i + j := by
      intro j hj
      have h1 := hψ.add_le_nat j i
      have h2 := hψ.add_le_nat (p+1-j) (i+j)
      rw [show p + 1 - j + (i + j) = i + p + 1 by omega] at h2
      rw [show j + i = i + j by omega] at h1
      omega
    refine ⟨fun j => if j = ψ i then 1 else 0, ?_, ?_, ?_⟩
    · intro j; beta_reduce; split_ifs <;> simp
    · intro j hj
      have : j = ψ i := by
        by_contra hne
        exact hj (if_neg hne)
      subst this
      have := hlin (p+1) (le_refl _)
      rw [show i + (p+1) = i + p + 1 by omega] at this
      omega
    · intro s N t hN
      have h1 := hlin (p+1) (le_refl _)
      rw [show i + (p+1) = i + p + 1 by omega] at h1
      rw [Finset.sum_eq_single (ψ i)]
      · beta_reduce
        rw [if_pos rfl, one_mul]
        apply B_congr_knots
        intro j hj
        show σ (ψ (i+j)) = σ (ψ i + j)
        rw [hlin j hj]
      · intro j _ hj
        beta_reduce
        rw [if_neg hj, zero_mul]
      · intro h
        exact absurd (Finset.mem_range.2 (by omega)) h
  | succ g ih =>
    intro ψ i hψ hg
    by_cases hle : ψ (i+p+1) ≤ ψ i + p + 1 + g
    · exact ih ψ i hψ hle
    -- there is a gap
    have hgap : ∃ j0, j0 ≤ p ∧ ψ (i+j0) + 1 < ψ (i+j0+1) := by
      by_contra hc
      push Not at hc
      have := el_no_gap_le ψ i (p+1) (fun j hj => hc j (by omega))
      rw [show i + (p+1) = i + p + 1 by omega] at this
      omega
    obtain ⟨j0, hj0, hgap⟩ := hgap
    have hψm := hψ.monotone
    have hlo : ∀ j, j < i+j0+1 → ψ j < ψ (i+j0) + 1 := fun j hj =>
      Nat.lt_succ_of_le (hψm (by omega))
    have hhi : ∀ j, i+j0+1 ≤ j → ψ (i+j0) + 1 < ψ j := fun j hj =>
      lt_of_lt_of_le hgap (hψm hj)
    have hψ' : StrictMono (insN ψ (i+j0+1) (ψ (i+j0) + 1)) :=
      insN_strictMono ψ hψ _ _ hlo hhi
    have hρ : Monotone (fun n => σ (ψ n)) := fun a b hab => hσ (hψm hab)
    have hlo' : ∀ j, j < i+j0+1 → (fun n => σ (ψ n)) j ≤ σ (ψ (i+j0) + 1) := fun j hj =>
      hσ (le_of_lt (hlo j hj))
    have hhi' : ∀ j, i+j0+1 ≤ j → σ (ψ (i+j0) + 1) ≤ (fun n => σ (ψ n)) j := fun j hj =>
      hσ (le_of_lt (hhi j hj))
    -- facts about the new index map
    have e0 : insN ψ (i+j0+1) (ψ (i+j0) + 1) i = ψ i := insN_lt (by omega)
    have e1 : insN ψ (i+j0+1) (ψ (i+j0) + 1) (i+p+1) < ψ (i+p+1) := by
      rcases Nat.eq_or_lt_of_le hj0 with h | h
      · subst h; rw [insN_self]; exact hgap
      · rw [insN_gt (show i+j0+1 ≤ i+p by omega) rfl]
        exact hψ (by omega)
    have e2 : insN ψ (i+j0+1) (ψ (i+j0) + 1) (i+1+p+1) = ψ (i+p+1) :=
      insN_gt (by omega) (by omega)
    have e3 : ψ i < insN ψ (i+j0+1) (ψ (i+j0) + 1) (i+1) := by
      rcases Nat.eq_zero_or_pos j0 with h | h
      · subst h; rw [show i + 0 + 1 = i + 1 by omega, insN_self]; simp
      · rw [insN_lt (by omega)]
        exact hψ (by omega)
    obtain ⟨a1, ha1, hs1, hB1⟩ := ih _ i hψ' (by rw [e0]; omega)
    obtain ⟨a2, ha2, hs2, hB2⟩ := ih _ (i+1) hψ' (by rw [e2]; omega)
    rw [e0] at hs1
    rw [e2] at hs2
    have hα0 := boehmAlpha_nonneg (fun n => σ (ψ n)) hρ (i+j0+1) (σ (ψ (i+j0) + 1)) hlo' p i
    have hα1 := boehmAlpha_le_one (fun n => σ (ψ n)) hρ (i+j0+1) (σ (ψ (i+j0) + 1)) hhi' p (i+1)
    refine ⟨fun j => boehmAlpha (fun n => σ (ψ n)) (i+j0+1) (σ (ψ (i+j0) + 1)) p i * a1 j
      + (1 - boehmAlpha (fun n => σ (ψ n)) (i+j0+1) (σ (ψ (i+j0) + 1)) p (i+1)) * a2 j, ?_, ?_, ?_⟩
    · intro j
      exact add_nonneg (mul_nonneg hα0 (ha1 j)) (mul_nonneg (sub_nonneg.2 hα1) (ha2 j))
    · intro j hj
      by_cases h1 : a1 j = 0
      · by_cases h2 : a2 j = 0
        · exact absurd (by simp [h1, h2]) hj
        · have := hs2 j h2
          omega
      · have := hs1 j h1
        omega
    · intro s N t hN
      rw [boehm_of_bounds s (fun n => σ (ψ n)) hρ (i+j0+1) (σ (ψ (i+j0) + 1)) hlo' hhi' p i t,
        ← comp_insN, hB1 s N t (by omega), hB2 s N t (by rw [e2]; exact hN), Finset.mul_sum,
        Finset.mul_sum, ← Finset.sum_add_distrib]
      apply Finset.sum_congr rfl
      intro j _
      ring

/-- **Refinement**, without the auxiliary bound. -/
theorem refine_nonneg (σ : ℕ → K) (hσ : Monotone σ) (p : ℕ) (ψ : ℕ → ℕ)
    (hψ : StrictMono ψ) (i : ℕ) :
    ∃ a : ℕ → K, (∀ j, 0 ≤ a j) ∧ (∀ j, a j ≠ 0 → ψ i ≤ j ∧ j + p + 1 ≤ ψ (i+p+1)) ∧
      ∀ (s : Side) N t, ψ (i+p+1) ≤ N + p →
        B s (fun n => σ (ψ n)) p i t = ∑ j ∈ Finset.range N, a j * B s σ p j t :=
  refine_nonneg_aux σ hσ p (ψ (i+p+1)) ψ i hψ (by omega)

/-! ## 3. Inclusion: degree `q` on `τ` inside degree `q+1` on `σ` -/

/-- index map of "`τ` with knot `m` doubled" inside `σ`, when `τ n = σ (φ n) = σ (φ n + 1)` -/
def dblN (φ : ℕ → ℕ) (m : ℕ) : ℕ → ℕ := fun j => if j ≤ m then φ j else φ (j-1) + 1

theorem dblN_le {φ : ℕ → ℕ} {m j : ℕ} (h : j ≤ m) : dblN φ m j = φ j := by
  simp [dblN, h]

theorem dblN_gt {φ : ℕ → ℕ} {m j k : ℕ} (h : m < j) (hk : j = k + 1) :
    dblN φ m j = φ k + 1 := by
  subst hk
  have : ¬ (k + 1 ≤ m) := by omega
  simp [dblN, this]

theorem dblN_strictMono (φ : ℕ → ℕ) (hφ : StrictMono φ) (m : ℕ) : StrictMono (dblN φ m) := by
  apply strictMono_nat_of_lt_succ
  intro n
  rcases Nat.lt_or_ge n m with h | h
  · rw [dblN_le (show n ≤ m by omega), dblN_le (show n + 1 ≤ m by omega)]
    exact hφ (Nat.lt_succ_self n)
  · rcases Nat.eq_or_lt_of_le h with h1 | h1
    · subst h1
      rw [dblN_le (le_refl m), dblN_gt (show m < m + 1 by omega) rfl]
      exact Nat.lt_succ_self _
    · obtain ⟨k, rfl⟩ : ∃ k, n = k + 1 := ⟨n - 1, by omega⟩
      rw [dblN_gt (show m < k + 1 by omega) rfl, dblN_gt (show m < k + 1 + 1 by omega) rfl]
      exact Nat.succ_lt_succ (hφ (Nat.lt_succ_self k))

omit [IsStrictOrderedRing K] in
theorem dbl_eq_comp (τ σ : ℕ → K) (φ : ℕ → ℕ) (h1 : ∀ n, σ (φ n) = τ n)
    (h2 : ∀ n, σ (φ n + 1) = τ n) (m : ℕ) : dbl τ m = fun n => σ (dblN φ m n) := by
  funext n
  simp only [dbl, dblN]
  split_ifs
  · exact (h1 n).symm
  · exact (h2 (n-1)).symm

/-- **L15, degree-elevation inclusion for one B-spline.**  Let `σ` be a monotone knot sequence
which contains every knot of `τ` once more: there is a strictly increasing index map `φ` with
`σ (φ n) = τ n` and also `σ (φ n + 1) = τ n` for every `n` (so every distinct value of `τ` of
multiplicity `r` occurs at least `r+1` times in `σ`; for `σ` = "`τ` with every multiplicity raised
by one" `φ n = n + #{j < n | τ j < τ (j+1)}`).  Then `B_{i,q,τ}` is a combination with
NON-NEGATIVE coefficients `a j` (independent of `t` and of the side) of the degree-`q+1`
B-splines `B_{j,q+1,σ}`, `φ i ≤ j ≤ φ (i+q+1) - q - 1`, as functions on all of `K`. -/
theorem elevation_incl (τ σ : ℕ → K) (hσ : Monotone σ) (φ : ℕ → ℕ)
    (hφ : StrictMono φ) (h1 : ∀ n, σ (φ n) = τ n) (h2 : ∀ n, σ (φ n + 1) = τ n) (q i : ℕ) :
    ∃ a : ℕ → K, (∀ j, 0 ≤ a j) ∧ (∀ j, a j ≠ 0 → φ i ≤ j ∧ j + q + 1 ≤ φ (i+q+1)) ∧
      ∀ (s : Side) N t, φ (i+q+1) ≤ N + q →
        B s τ q i t = ∑ j ∈ Finset.range N, a j * B s σ (q+1) j t := by
  have hτ : Monotone τ := by
    intro a b hab
    rw [← h1 a, ← h1 b]
    exact hσ (hφ.monotone hab)
  choose a ha hs hB using fun k =>
    refine_nonneg σ hσ (q+1) (dblN φ (i+k)) (dblN_strictMono φ hφ (i+k)) i
  have e0 : ∀ k, dblN φ (i+k) i = φ i := fun k => dblN_le (by omega)
  have e1 : ∀ k, k < q + 2 → dblN φ (i+k) (i+(q+1)+1) = φ (i+q+1) + 1 := fun k hk =>
    dblN_gt (by omega) (by omega)
  have hq : (0:K) < (q:K) + 1 := by
    have : (0:K) ≤ (q:K) := Nat.cast_nonneg q
    linarith
  refine ⟨fun j => 1 / ((q:K)+1) * ∑ k ∈ Finset.range (q+2), a k j, ?_, ?_, ?_⟩
  · intro j
    exact mul_nonneg (div_nonneg zero_le_one hq.le) (Finset.sum_nonneg (fun k _ => ha k j))
  · intro j hj
    have : ∃ k ∈ Finset.range (q+2), a k j ≠ 0 := by
      by_contra hc
      push Not at hc
      exact hj (by beta_reduce; rw [Finset.sum_eq_zero hc, mul_zero])
    obtain ⟨k, hk, hkj⟩ := this
    rw [Finset.mem_range] at hk
    have := hs k j hkj
    rw [e0 k, e1 k hk] at this
    omega
  · intro s N t hN
    have key : B s τ q i t = 1 / ((q:K)+1) * (((q:K)+1) * B s τ q i t) := by
      field_simp
    rw [key, elevation_window s τ hτ q i t]
    have : ∀ k ∈ Finset.range (q+2), B s (dbl τ (i+k)) (q+1) i t
        = ∑ j ∈ Finset.range N, a k j * B s σ (q+1) j t := by
      intro k hk
      rw [Finset.mem_range] at hk
      rw [dbl_eq_comp τ σ φ h1 h2 (i+k)]
      exact hB k s N t (by rw [e1 k hk]; omega)
    rw [Finset.sum_congr rfl this, Finset.sum_comm, Finset.mul_sum]
    apply Finset.sum_congr rfl
    intro j _
    beta_reduce
    rw [← Finset.sum_mul, mul_assoc]

/-- **L15, the elevation matrix.**  Same hypotheses; there is one non-negative matrix `A`
(`A i j` = coefficient of `B_{j,q+1,σ}` in `B_{i,q,τ}`, zero unless
`φ i ≤ j ≤ φ (i+q+1) - q - 1`) such that for every number `n` of functions, every coefficient
vector `c`, every `N` with `φ (n+q) ≤ N + q` and every `t` (both sides)
`Σ_{i<n} c_i B_{i,q,τ}(t) = Σ_{j<N} (Σ_{i<n} c_i A_{i,j}) B_{j,q+1,σ}(t)`. -/
theorem elevation_matrix (τ σ : ℕ → K) (hσ : Monotone σ) (φ : ℕ → ℕ)
    (hφ : StrictMono φ) (h1 : ∀ n, σ (φ n) = τ n) (h2 : ∀ n, σ (φ n + 1) = τ n) (q : ℕ) :
    ∃ A : ℕ → ℕ → K, (∀ i j, 0 ≤ A i j) ∧
      (∀ i j, A i j ≠ 0 → φ i ≤ j ∧ j + q + 1 ≤ φ (i+q+1)) ∧
      ∀ (s : Side) (n : ℕ) (c : ℕ → K) (N : ℕ) (t : K), φ (n+q) ≤ N + q →
        splineVal s τ q n c t
          = splineVal s σ (q+1) N (fun j => ∑ i ∈ Finset.range n, c i * A i j) t := by
  choose A hA hS hB using fun i => elevation_incl τ σ hσ φ hφ h1 h2 q i
  refine ⟨A, hA, hS, ?_⟩
  intro s n c N t hN
  unfold splineVal
  have : ∀ i ∈ Finset.range n, c i * B s τ q i t
      = ∑ j ∈ Finset.range N, c i * A i j * B s σ (q+1) j t := by
    intro i hi
    rw [Finset.mem_range] at hi
    rw [hB i s N t (le_trans (hφ.monotone (by omega)) hN), Finset.mul_sum]
    apply Finset.sum_congr rfl
    intro j _
    ring
  rw [Finset.sum_congr rfl this, Finset.sum_comm]
  apply Finset.sum_congr rfl
  intro j _
  rw [Finset.sum_mul]

/-- **L15, spline level.**  Every spline of degree `q` on `τ` (first `n` functions) is a spline of
degree `q+1` on `σ` (first `N` functions, any `N ≥ φ (n+q) - q`), with non-negative new
coefficients if the old ones are non-negative. -/
theorem elevation_splineVal (τ σ : ℕ → K) (hσ : Monotone σ) (φ : ℕ → ℕ)
    (hφ : StrictMono φ) (h1 : ∀ n, σ (φ n) = τ n) (h2 : ∀ n, σ (φ n + 1) = τ n) (q n N : ℕ)
    (hN : φ (n+q) ≤ N + q) (c : ℕ → K) :
    ∃ c' : ℕ → K, ((∀ i, i < n → 0 ≤ c i) → ∀ j, 0 ≤ c' j) ∧
      ∀ (s : Side) t, splineVal s τ q n c t = splineVal s σ (q+1) N c' t := by
  obtain ⟨A, hA, _, hB⟩ := elevation_matrix τ σ hσ φ hφ h1 h2 q
  refine ⟨fun j => ∑ i ∈ Finset.range n, c i * A i j, ?_, fun s t => hB s n c N t hN⟩
  intro hc j
  exact Finset.sum_nonneg (fun i hi => mul_nonneg (hc i (Finset.mem_range.1 hi)) (hA i j))

/-! ## 4. Concrete knot vectors `expand u m` (distinct knots `u`, multiplicities `m`) -/

/-- The knot sequence of a knot list, continued by its last entry (this is `Basis.kn`). -/
def knSeq (l : List K) : ℕ → K := fun i => l.getD i (l.getD (l.length - 1) 0)

theorem kn_eq_knSeq (b : Basis K) (l : List K) (hk : b.knots = l.toArray) : b.kn = knSeq l := by
  funext i
  simp [Basis.kn, knSeq, hk]

/-- Number of the block (distinct knot) that position `n` of `expand u m` belongs to. -/
def blk : List ℕ → ℕ → ℕ
  | [], _ => 0
  | k :: ms, n => if n < k then 0 else blk ms (n - k) + 1

theorem blk_cons_lt {k n : ℕ} (ms : List ℕ) (h : n < k) : blk (k :: ms) n = 0 := by
  simp [blk, h]

theorem blk_cons_ge {k n : ℕ} (ms : List ℕ) (h : k ≤ n) :
    blk (k :: ms) n = blk ms (n - k) + 1 := by
  have : ¬ n < k := by omega
  simp [blk, this]

theorem blk_succ_ge (m : List ℕ) : ∀ n, blk m n ≤ blk m (n+1) := by
  induction m with
  | nil => intro n; simp [blk]
  | cons k ms ih =>
    intro n
    simp only [blk]
    split_ifs with h1 h2 h2
    · exact le_refl _
    · exact Nat.zero_le _
    · omega
    · rw [show n + 1 - k = n - k + 1 by omega]
      exact Nat.succ_le_succ (ih (n - k))

theorem blk_mono (m : List ℕ) : Monotone (blk m) := monotone_nat_of_le_succ (blk_succ_ge m)

theorem blk_lt (m : List ℕ) : ∀ n, n < m.sum → blk m n < m.length := by
  induction m with
  | nil => intro n h; simp at h
  | cons k ms ih =>
    intro n h
    simp only [blk, List.length_cons]
    split_ifs with h1
    · omega
    · have := ih (n - k) (by simp only [List.sum_cons] at h; omega)
      omega

theorem blk_ge (m : List ℕ) : ∀ n, m.sum ≤ n → blk m n = m.length := by
  induction m with
  | nil => intro n _; simp [blk]
  | cons k ms ih =>
    intro n h
    simp only [List.sum_cons] at h
    simp only [blk, List.length_cons]
    rw [if_neg (by omega), ih (n - k) (by omega)]

theorem blk_raise (m : List ℕ) : ∀ n, blk (m.map (· + 1)) (n + blk m n) = blk m n := by
  induction m with
  | nil => intro n; simp [blk]
  | cons k ms ih =>
    intro n
    simp only [blk, List.map_cons]
    by_cases h : n < k
    · rw [if_pos h, if_pos (by omega)]
    · rw [if_neg h, if_neg (by omega),
        show n + (blk ms (n - k) + 1) - (k + 1) = (n - k) + blk ms (n - k) by omega, ih (n - k)]

theorem blk_raise' (m : List ℕ) : ∀ n, blk (m.map (· + 1)) (n + blk m n + 1) = blk m n := by
  induction m with
  | nil => intro n; simp [blk]
  | cons k ms ih =>
    intro n
    simp only [blk, List.map_cons]
    by_cases h : n < k
    · rw [if_pos h, if_pos (by omega)]
    · rw [if_neg h, if_neg (by omega),
        show n + (blk ms (n - k) + 1) + 1 - (k + 1) = (n - k) + blk ms (n - k) + 1 by omega,
        ih (n - k)]

theorem el_sum_map_succ (m : List ℕ) : (m.map (· + 1)).sum = m.sum + m.length := by
  induction m with
  | nil => simp
  | cons k ms ih => simp only [List.map_cons, List.sum_cons, List.length_cons, ih]; omega

theorem el_length_expand : ∀ (u : List K) (m : List ℕ), u.length = m.length →
    (expand u m).length = m.sum := by
  intro u
  induction u with
  | nil => intro m h; cases m <;> simp_all
  | cons x u ih =>
    intro m hlen
    cases m with
    | nil => simp at hlen
    | cons k m =>
      simp only [expand_cons, List.length_append, List.length_replicate, List.sum_cons]
      rw [ih m (by simpa using hlen)]

theorem el_getElem?_expand : ∀ (u : List K) (m : List ℕ), u.length = m.length →
    ∀ n, n < m.sum → (expand u m)[n]? = u[blk m n]? := by
  intro u
  induction u with
  | nil => intro m h; cases m <;> simp_all
  | cons x u ih =>
    intro m hlen
    cases m with
    | nil => simp at hlen
    | cons k m =>
      intro n hn
      simp only [expand_cons, blk]
      by_cases h : n < k
      · rw [if_pos h, List.getElem?_append_left (by simpa using h), List.getElem?_replicate,
          if_pos h, List.getElem?_cons_zero]
      · rw [if_neg h, List.getElem?_append_right (by simpa using h), List.length_replicate,
          List.getElem?_cons_succ]
        exact ih m (by simpa using hlen) (n - k) (by simp only [List.sum_cons] at hn; omega)

/-- block number, capped at the last block (positions past the end belong to the last block) -/
def blkC (m : List ℕ) (n : ℕ) : ℕ := min (blk m n) (m.length - 1)

theorem blkC_mono (m : List ℕ) : Monotone (blkC m) := fun _ _ h =>
  min_le_min (blk_mono m h) (le_refl _)

theorem blk_last (m : List ℕ) (hm : ∀ k ∈ m, 1 ≤ k) (hne : m ≠ []) :
    blk m (m.sum - 1) = m.length - 1 := by
  induction m with
  | nil => exact absurd rfl hne
  | cons k ms ih =>
    have hk : 1 ≤ k := hm k (by simp)
    by_cases hms : ms = []
    · subst hms
      rw [blk_cons_lt _ (by simp only [List.sum_cons, List.sum_nil]; omega)]
      simp
    · have hpos : 1 ≤ ms.sum := by
        cases ms with
        | nil => exact absurd rfl hms
        | cons k' ms' =>
          have : 1 ≤ k' := hm k' (by simp)
          simp only [List.sum_cons]; omega
      have hl : 1 ≤ ms.length := by
        cases ms with
        | nil => exact absurd rfl hms
        | cons k' ms' => simp
      rw [blk_cons_ge _ (by simp only [List.sum_cons]; omega), List.sum_cons,
        show k + ms.sum - 1 - k = ms.sum - 1 by omega,
        ih (fun j hj => hm j (by simp [hj])) hms, List.length_cons]
      omega

/-- The knot sequence of `expand u m` in terms of the block number. -/
theorem knSeq_expand (u : List K) (m : List ℕ) (hlen : u.length = m.length)
    (hm : ∀ k ∈ m, 1 ≤ k) (n : ℕ) : knSeq (expand u m) n = u.getD (blkC m n) 0 := by
  by_cases hne : m = []
  · subst hne
    have : u = [] := by simpa using hlen
    subst this
    simp [knSeq]
  have hL := el_length_expand u m hlen
  have hl : 1 ≤ m.length := by
    cases m with
    | nil => exact absurd rfl hne
    | cons k' ms' => simp
  have hpos : 1 ≤ m.sum := by
    cases m with
    | nil => exact absurd rfl hne
    | cons k' ms' =>
      have : 1 ≤ k' := hm k' (by simp)
      simp only [List.sum_cons]; omega
  have hin : ∀ n, n < m.sum → ∀ d, (expand u m).getD n d = u.getD (blkC m n) 0 := by
    intro n hn d
    have h1 := blk_lt m n hn
    rw [List.getD_eq_getElem?_getD, el_getElem?_expand u m hlen n hn, blkC,
      min_eq_left (by omega), ← List.getD_eq_getElem?_getD,
      List.getD_eq_getElem _ _ (by omega), List.getD_eq_getElem _ _ (by omega)]
  unfold knSeq
  by_cases hn : n < m.sum
  · exact hin n hn _
  · rw [List.getD_eq_default _ _ (by omega), hL, hin (m.sum - 1) (by omega) 0]
    congr 1
    unfold blkC
    rw [blk_last m hm hne, blk_ge m n (by omega)]
    simp

/-- the index map `τ`-position ↦ `σ`-position for `τ = expand u m`, `σ = expand u (m + 1)` -/
def elevIdx (m : List ℕ) (n : ℕ) : ℕ := n + blkC m n

theorem elevIdx_strictMono (m : List ℕ) : StrictMono (elevIdx m) := by
  apply strictMono_nat_of_lt_succ
  intro n
  have := blkC_mono m (Nat.le_add_right n 1)
  unfold elevIdx
  omega

theorem elevIdx_le (m : List ℕ) (n : ℕ) : elevIdx m n ≤ n + (m.length - 1) := by
  unfold elevIdx blkC
  have := min_le_right (blk m n) (m.length - 1)
  omega

theorem blkC_elevIdx (m : List ℕ) (hm : ∀ k ∈ m, 1 ≤ k) (n : ℕ) :
    blkC (m.map (· + 1)) (elevIdx m n) = blkC m n ∧
    blkC (m.map (· + 1)) (elevIdx m n + 1) = blkC m n := by
  by_cases hne : m = []
  · subst hne; simp [blkC, blk]
  have hl : 1 ≤ m.length := by
    cases m with
    | nil => exact absurd rfl hne
    | cons k' ms' => simp
  unfold elevIdx blkC
  simp only [List.length_map]
  by_cases hn : n < m.sum
  · have h1 := blk_lt m n hn
    have hC : min (blk m n) (m.length - 1) = blk m n := min_eq_left (by omega)
    simp only [hC, blk_raise, blk_raise', and_self]
  · have h1 := blk_ge m n (by omega)
    have hm' : ∀ k ∈ m.map (· + 1), 1 ≤ k := by
      intro k hk; rw [List.mem_map] at hk; obtain ⟨j, _, rfl⟩ := hk; omega
    have hne' : m.map (· + 1) ≠ [] := by simpa using hne
    have h2 := blk_last (m.map (· + 1)) hm' hne'
    rw [el_sum_map_succ, List.length_map] at h2
    have h3 : blk (m.map (· + 1)) (m.sum + m.length - 1) ≤ blk (m.map (· + 1)) (n + (m.length - 1)) :=
      blk_mono _ (by omega)
    have h4 : blk (m.map (· + 1)) (m.sum + m.length - 1) ≤ blk (m.map (· + 1)) (n + (m.length - 1) + 1) :=
      blk_mono _ (by omega)
    rw [h1, min_eq_right (show m.length - 1 ≤ m.length by omega)]
    exact ⟨by rw [min_eq_right (by omega)], by rw [min_eq_right (by omega)]⟩

theorem knSeq_expand_mono (u : List K) (hu : u.Pairwise (· ≤ ·)) (m : List ℕ)
    (hlen : u.length = m.length) (hm : ∀ k ∈ m, 1 ≤ k) : Monotone (knSeq (expand u m)) := by
  intro a b hab
  rw [knSeq_expand u m hlen hm, knSeq_expand u m hlen hm]
  by_cases hne : m = []
  · subst hne
    have : u = [] := by simpa using hlen
    subst this
    simp
  have hl : 1 ≤ m.length := by
    cases m with
    | nil => exact absurd rfl hne
    | cons k' ms' => simp
  have h1 : blkC m a ≤ m.length - 1 := min_le_right _ _
  have h2 : blkC m b ≤ m.length - 1 := min_le_right _ _
  rw [List.getD_eq_getElem _ _ (by omega), List.getD_eq_getElem _ _ (by omega)]
  rcases Nat.eq_or_lt_of_le (blkC_mono m hab) with h | h
  · simp only [h]; exact le_refl _
  · exact (List.pairwise_iff_getElem.mp hu) _ _ (by omega) (by omega) h

/-- **L15 for knot vectors, one step.**  `τ` = knot sequence of `expand u m` (distinct knots `u`
sorted, multiplicities `m ≥ 1`), `σ` = knot sequence of `expand u (m.map (· + 1))` (every
multiplicity raised by one).  There is a non-negative matrix `A` such that for every `n` with
`n + q + 1 ≤ #τ` (at most all the B-splines of degree `q` on `τ`), every `c` and every `t`
`Σ_{i<n} c_i B_{i,q,τ}(t) = Σ_{j<n+#u-1} (Σ_{i<n} c_i A_{i,j}) B_{j,q+1,σ}(t)`; for
`n = #τ - (q+1)` the right-hand side runs over exactly all the B-splines of degree `q+1` on `σ`. -/
theorem elevation_expand_matrix (u : List K) (hu : u.Pairwise (· ≤ ·)) (m : List ℕ)
    (hlen : u.length = m.length) (hm : ∀ k ∈ m, 1 ≤ k) (q : ℕ) :
    ∃ A : ℕ → ℕ → K, (∀ i j, 0 ≤ A i j) ∧
      ∀ (s : Side) (n : ℕ) (c : ℕ → K) (t : K), n + q + 1 ≤ (expand u m).length →
        splineVal s (knSeq (expand u m)) q n c t
          = splineVal s (knSeq (expand u (m.map (· + 1)))) (q+1) (n + (u.length - 1))
              (fun j => ∑ i ∈ Finset.range n, c i * A i j) t := by
  have hlen' : u.length = (m.map (· + 1)).length := by simpa using hlen
  have hm' : ∀ k ∈ m.map (· + 1), 1 ≤ k := by
    intro k hk; rw [List.mem_map] at hk; obtain ⟨j, _, rfl⟩ := hk; omega
  have hσ := knSeq_expand_mono u hu (m.map (· + 1)) hlen' hm'
  have h1 : ∀ n, knSeq (expand u (m.map (· + 1))) (elevIdx m n) = knSeq (expand u m) n := by
    intro n
    rw [knSeq_expand u _ hlen' hm', knSeq_expand u m hlen hm, (blkC_elevIdx m hm n).1]
  have h2 : ∀ n, knSeq (expand u (m.map (· + 1))) (elevIdx m n + 1) = knSeq (expand u m) n := by
    intro n
    rw [knSeq_expand u _ hlen' hm', knSeq_expand u m hlen hm, (blkC_elevIdx m hm n).2]
  obtain ⟨A, hA, _, hB⟩ := elevation_matrix _ _ hσ (elevIdx m) (elevIdx_strictMono m) h1 h2 q
  refine ⟨A, hA, ?_⟩
  intro s n c t hn
  apply hB s n c _ t
  have := elevIdx_le m (n+q)
  rw [← hlen] at this
  omega

/-- **L15 for knot vectors, raising the degree by `a`.**  `τ` = knot sequence of `expand u m`,
`σ` = knot sequence of `expand u (m.map (· + a))`.  For every `n` with `n + q + 1 ≤ #τ` there is a
non-negative `n × (n + a (#u - 1))` matrix `A` with
`Σ_{i<n} c_i B_{i,q,τ}(t) = Σ_{j<n+a(#u-1)} (Σ_{i<n} c_i A_{i,j}) B_{j,q+a,σ}(t)` for all `c`, `t`
and both sides `s` (`A` does not depend on them).  For `n = #τ - (q+1)` (all B-splines on `τ`), `n + a (#u - 1) = #σ - (q+a+1)`
(all B-splines on `σ`). -/
theorem elevation_expand_iter (u : List K) (hu : u.Pairwise (· ≤ ·)) (m : List ℕ)
    (hlen : u.length = m.length) (hm : ∀ k ∈ m, 1 ≤ k) (q n : ℕ)
    (hn : n + q + 1 ≤ (expand u m).length) (a : ℕ) :
    ∃ A : ℕ → ℕ → K, (∀ i j, 0 ≤ A i j) ∧
      ∀ (s : Side) (c : ℕ → K) (t : K),
        splineVal s (knSeq (expand u m)) q n c t
          = splineVal s (knSeq (expand u (m.map (· + a)))) (q+a) (n + a * (u.length - 1))
              (fun j => ∑ i ∈ Finset.range n, c i * A i j) t := by
  induction a with
  | zero =>
    refine ⟨fun i j => if i = j then 1 else 0, fun i j => by beta_reduce; split_ifs <;> simp, ?_⟩
    intro s c t
    have e : m.map (· + 0) = m := by simp
    rw [e]
    unfold splineVal
    simp only [Nat.zero_mul, Nat.add_zero]
    apply Finset.sum_congr rfl
    intro j hj
    congr 1
    rw [Finset.sum_eq_single j]
    · simp
    · intro i _ hij; simp [hij]
    · intro h; exact absurd hj h
  | succ a ih =>
    obtain ⟨A, hA, hB⟩ := ih
    have hlen' : u.length = (m.map (· + a)).length := by simpa using hlen
    have hm' : ∀ k ∈ m.map (· + a), 1 ≤ k := by
      intro k hk; rw [List.mem_map] at hk; obtain ⟨j, hj, rfl⟩ := hk
      have := hm j hj; omega
    obtain ⟨A1, hA1, hB1⟩ := elevation_expand_matrix u hu (m.map (· + a)) hlen' hm' (q+a)
    have e : (m.map (· + a)).map (· + 1) = m.map (· + (a+1)) := by
      rw [List.map_map]; rfl
    rw [e] at hB1
    have hL : n + a * (u.length - 1) + (q+a) + 1 ≤ (expand u (m.map (· + a))).length := by
      rw [length_expand_add a u m hlen]
      have : a * (u.length - 1) ≤ a * u.length := Nat.mul_le_mul_left a (Nat.sub_le _ _)
      by_cases hu0 : u.length = 0
      · have hm0 : m = [] := List.length_eq_zero_iff.mp (by omega)
        have hu1 : u = [] := List.length_eq_zero_iff.mp hu0
        subst hm0 hu1
        simp at hn
      · have : a * u.length = a * (u.length - 1) + a := by
          obtain ⟨w, hw⟩ : ∃ w, u.length = w + 1 := ⟨u.length - 1, by omega⟩
          rw [hw, Nat.add_sub_cancel, Nat.mul_succ]
        omega
    refine ⟨fun i j => ∑ k ∈ Finset.range (n + a * (u.length - 1)), A i k * A1 k j, ?_, ?_⟩
    · intro i j
      exact Finset.sum_nonneg (fun k _ => mul_nonneg (hA i k) (hA1 k j))
    · intro s c t
      rw [hB s c t, hB1 s _ _ t hL]
      have e2 : n + a * (u.length - 1) + (u.length - 1) = n + (a+1) * (u.length - 1) := by
        rw [Nat.succ_mul]; omega
      rw [e2]
      show splineVal s _ (q+(a+1)) _ _ t = _
      unfold splineVal
      apply Finset.sum_congr rfl
      intro j _
      congr 1
      simp only [Finset.sum_mul, Finset.mul_sum]
      rw [Finset.sum_comm]
      apply Finset.sum_congr rfl
      intro i _
      apply Finset.sum_congr rfl
      intro k _
      ring

/-- **L15 in the shape needed for `raise_order(a)` of a non-periodic basis** (the mathematical
content of hypothesis `H_incl` of `C05_geometry_partial`).  `b = openBasis (q+1) u m` and
`b' = openBasis (q+1+a) u (m.map (· + a))` (what `C05_knots` proves `b.raise_order(a)` returns).
For `n` = number of B-splines of `b` (or fewer) there is a non-negative matrix `A` such that every
spline `Σ_{j<n} c_j B_{j,q,b.kn}` equals the spline `Σ_{k<n'} c'_k B_{k,q+a,b'.kn}`,
`c'_k = Σ_{j<n} c_j A_{j,k}`, `n' = n + a (#u - 1)`, at EVERY `t` and for both one-sided versions
`s` (so also in the code's convention: right-continuous, left limit at the end of the domain). -/
theorem elevation_openBasis (u : List K) (hu : u.Pairwise (· ≤ ·)) (m : List ℕ)
    (hlen : u.length = m.length) (hm : ∀ k ∈ m, 1 ≤ k) (q n : ℕ)
    (hn : n + q + 1 ≤ (expand u m).length) (a : ℕ) :
    ∃ A : ℕ → ℕ → K, (∀ i j, 0 ≤ A i j) ∧
      ∀ (s : Side) (c : ℕ → K) (t : K),
        ∑ k ∈ Finset.range (n + a * (u.length - 1)),
            B s (openBasis (q+1+a) u (m.map (· + a))).kn (q+a) k t
              * (∑ j ∈ Finset.range n, c j * A j k)
          = ∑ j ∈ Finset.range n, B s (openBasis (q+1) u m).kn q j t * c j := by
  obtain ⟨A, hA, hB⟩ := elevation_expand_iter u hu m hlen hm q n hn a
  refine ⟨A, hA, ?_⟩
  intro s c t
  have h := hB s c t
  unfold splineVal at h
  rw [kn_eq_knSeq (openBasis (q+1+a) u (m.map (· + a))) _ rfl,
    kn_eq_knSeq (openBasis (q+1) u m) _ rfl]
  simp only [mul_comm (B s _ _ _ t)]
  exact h.symm

/-! ## 5. Bridge to the model: hypothesis `H_incl` of `C05_geometry_partial` for clamped bases -/

theorem el_mem_expand_of_pos : ∀ (u : List K) (m : List ℕ), u.length = m.length →
    (∀ k ∈ m, 1 ≤ k) → ∀ y ∈ u, y ∈ expand u m := by
  intro u
  induction u with
  | nil => intro m _ _ y hy; simp at hy
  | cons x u ih =>
    intro m hlen hm y hy
    cases m with
    | nil => simp at hlen
    | cons k m =>
      rw [expand_cons, List.mem_append]
      rcases List.mem_cons.mp hy with rfl | h
      · left
        have : 1 ≤ k := hm k (by simp)
        rw [List.mem_replicate]
        exact ⟨by omega, rfl⟩
      · right
        exact ih m (by simpa using hlen) (fun j hj => hm j (by simp [hj])) y h

/-- Two bases on knot lists with the same distinct knots take the same knot values. -/
theorem kn_values_expand (p p' : ℕ) (u : List K) (m m' : List ℕ) (hlen' : u.length = m'.length)
    (hm' : ∀ k ∈ m', 1 ≤ k) (i : ℕ) (hi : i < (openBasis p u m).knots.size) :
    ∃ j, j < (openBasis p' u m').knots.size ∧ (openBasis p' u m').kn j = (openBasis p u m).kn i := by
  have hi' : i < (expand u m).length := by simpa [openBasis] using hi
  rw [kn_of_lt_list (openBasis p u m) (expand u m) rfl hi']
  have h1 : (expand u m)[i] ∈ u := mem_expand u m _ (List.getElem_mem hi')
  have h2 := el_mem_expand_of_pos u m' hlen' hm' _ h1
  obtain ⟨j, hj, hjv⟩ := List.getElem_of_mem h2
  refine ⟨j, by simpa [openBasis] using hj, ?_⟩
  rw [kn_of_lt_list (openBasis p' u m') (expand u m') rfl hj, hjv]

theorem openBasis_separated (tol : K) (p : ℕ) (u : List K) (m : List ℕ)
    (hsep : Separated tol u) : (openBasis p u m).Separated tol := by
  have hR : ∀ ⦃x⦄, x ∈ u → ∀ ⦃y⦄, y ∈ u → (x = y ∨ tol ≤ |x - y|) := by
    apply List.Pairwise.forall_of_forall_of_flip
    · intro x _; exact Or.inl rfl
    · apply List.Pairwise.imp _ hsep
      intro x y h
      right
      rw [abs_sub_comm]
      exact le_trans (by linarith) (le_abs_self _)
    · apply List.Pairwise.imp _ hsep
      intro x y h
      right
      show tol ≤ |y - x|
      exact le_trans (by linarith) (le_abs_self _)
  intro i j hi hj
  have hi' : i < (expand u m).length := by simpa [openBasis] using hi
  have hj' : j < (expand u m).length := by simpa [openBasis] using hj
  rw [kn_of_lt_list (openBasis p u m) (expand u m) rfl hi',
    kn_of_lt_list (openBasis p u m) (expand u m) rfl hj']
  exact hR (mem_expand u m _ (List.getElem_mem hi')) (mem_expand u m _ (List.getElem_mem hj'))

theorem openBasis_clamped_valid (tol : K) (h0 : 0 ≤ tol) (p : ℕ) (hp : 1 ≤ p) (x0 xl : K)
    (umid : List K) (mmid : List ℕ) (hlen : umid.length = mmid.length)
    (hsep : Separated tol (clampedU x0 xl umid)) :
    (openBasis p (clampedU x0 xl umid) (clampedM p mmid)).Valid where
  order_pos := hp
  size_ge := by
    show 2 * p ≤ (expand (clampedU x0 xl umid) (clampedM p mmid)).toArray.size
    rw [expand_clamped p x0 xl umid mmid hlen]; simp; omega
  sorted := fun i _ =>
    kn_mono_of_sorted _ _ rfl (expand_sorted tol h0 _ _ hsep) (Nat.le_succ i)
  periodic_ge := le_refl _
  periodic_le := Or.inr rfl
  start_lt_stop := by
    rw [clamped_start p hp, clamped_stop p hp x0 xl umid mmid hlen]
    have h1 := (List.pairwise_cons.mp hsep).1 xl (by simp)
    linarith
  ghosts := fun h => absurd (show (0:Int) ≤ -1 from h) (by decide)

/-- `snap` only depends on the set of knot values. -/
theorem el_snap_half {b b' : Basis K} (hm : Monotone b.kn) (hm' : Monotone b'.kn) (t : K)
    (hAB : ∀ i, i < b.knots.size → ∃ j, j < b'.knots.size ∧ b'.kn j = b.kn i) :
    (bisectLeft b.kn t b.knots.size < b.knots.size →
      bisectLeft b'.kn t b'.knots.size < b'.knots.size ∧
      b'.kn (bisectLeft b'.kn t b'.knots.size) ≤ b.kn (bisectLeft b.kn t b.knots.size)) ∧
    (0 < bisectLeft b.kn t b.knots.size →
      0 < bisectLeft b'.kn t b'.knots.size ∧
      b.kn (bisectLeft b.kn t b.knots.size - 1) ≤ b'.kn (bisectLeft b'.kn t b'.knots.size - 1)) := by
  obtain ⟨a1, a2, a3⟩ := bisectLeft_spec b.kn hm t b.knots.size
  obtain ⟨c1, c2, c3⟩ := bisectLeft_spec b'.kn hm' t b'.knots.size
  constructor
  · intro h
    obtain ⟨j, hj, hjv⟩ := hAB _ h
    have h1 : t ≤ b'.kn j := by rw [hjv]; exact a3 _ (le_refl _) h
    have h2 : bisectLeft b'.kn t b'.knots.size ≤ j := by
      by_contra hc
      exact absurd (c2 j (by omega)) (not_lt.mpr h1)
    exact ⟨by omega, by rw [← hjv]; exact hm' h2⟩
  · intro h
    obtain ⟨j, hj, hjv⟩ := hAB (bisectLeft b.kn t b.knots.size - 1) (by omega)
    have h1 : b'.kn j < t := by rw [hjv]; exact a2 _ (by omega)
    have h2 : j < bisectLeft b'.kn t b'.knots.size := by
      by_contra hc
      exact absurd (c3 j (by omega) hj) (not_le.mpr h1)
    exact ⟨by omega, by rw [← hjv]; exact hm' (by omega)⟩

theorem snap_eq_of_values {b b' : Basis K} (hm : Monotone b.kn) (hm' : Monotone b'.kn) (tol t : K)
    (hAB : ∀ i, i < b.knots.size → ∃ j, j < b'.knots.size ∧ b'.kn j = b.kn i)
    (hBA : ∀ i, i < b'.knots.size → ∃ j, j < b.knots.size ∧ b.kn j = b'.kn i) :
    snap b tol t = snap b' tol t := by
  obtain ⟨f1, f2⟩ := el_snap_half hm hm' t hAB
  obtain ⟨g1, g2⟩ := el_snap_half hm' hm t hBA
  unfold snap
  simp only []
  by_cases hU : bisectLeft b.kn t b.knots.size < b.knots.size
  · have hU' := (f1 hU).1
    have eU : b.kn (bisectLeft b.kn t b.knots.size) = b'.kn (bisectLeft b'.kn t b'.knots.size) :=
      le_antisymm (g1 hU').2 (f1 hU).2
    by_cases hD : 0 < bisectLeft b.kn t b.knots.size
    · have hD' := (f2 hD).1
      have eD : b.kn (bisectLeft b.kn t b.knots.size - 1)
          = b'.kn (bisectLeft b'.kn t b'.knots.size - 1) := le_antisymm (f2 hD).2 (g2 hD').2
      simp only [hU, hU', hD, hD', eU, eD, true_and]
    · have hD' : ¬ 0 < bisectLeft b'.kn t b'.knots.size := fun h => hD (g2 h).1
      simp only [hU, hU', hD, hD', eU, true_and, false_and, if_false]
  · have hU' : ¬ bisectLeft b'.kn t b'.knots.size < b'.knots.size := fun h => hU (g1 h).1
    by_cases hD : 0 < bisectLeft b.kn t b.knots.size
    · have hD' := (f2 hD).1
      have eD : b.kn (bisectLeft b.kn t b.knots.size - 1)
          = b'.kn (bisectLeft b'.kn t b'.knots.size - 1) := le_antisymm (f2 hD).2 (g2 hD').2
      simp only [hU, hU', hD, hD', eD, true_and, false_and, if_false]
    · have hD' : ¬ 0 < bisectLeft b'.kn t b'.knots.size := fun h => hD (g2 h).1
      simp only [hU, hU', hD, hD', false_and, if_false]

section Model

variable [FloorRing K]

/-- Entry `c` of the value row at an exact point of the domain (non-periodic, `from_right`). -/
theorem evaluate_inside_right {b : Basis K} (hv : b.Valid) (hper : b.periodic = -1) {tol t : K}
    (htol : 0 < tol) (hex : b.ExactAt tol t) (h1 : b.start ≤ t) (h2 : t ≤ b.stop) {c : ℕ}
    (hc : c < b.numFunctions) :
    (b.evaluate tol t 0 true).getD c 0 = B (effSide b t true) b.kn (b.order - 1) c t := by
  have hd : 0 < b.order := hv.order_pos
  rw [evaluate_of_exact b htol hex hd, wrapT_nonperiodic hper,
    evalAt_toDense_inside hv htol hd true (hex.start hv) (hex.stop hv) h1 h2 (by simp) hc]
  rw [Basis.numFunctions_of_nonperiodic hper] at hc ⊢
  rw [sum_filter_mod_self _ _ _ hc, dB_zero]

/-- Outside the domain the row is zero. -/
theorem evaluate_outside_right {b : Basis K} (hv : b.Valid) (hper : b.periodic = -1) {tol t : K}
    (htol : 0 < tol) (hex : b.ExactAt tol t) (hout : t < b.start ∨ b.stop < t) (c : ℕ) :
    (b.evaluate tol t 0 true).getD c 0 = 0 := by
  rw [evaluate_of_exact b htol hex hv.order_pos, wrapT_nonperiodic hper,
    evalAt_outside b tol 0 true hout, toDense_zeroRow]
  simp [Array.getD]

/-- **`H_incl` of `C05_geometry_partial` for clamped non-periodic bases** (L15 at the level of the
executable model).  `b` = clamped basis of order `q+1` (end knots `x0 < xl` of multiplicity `q+1`,
interior distinct knots `umid` with multiplicities `mmid ≥ 1`, distinct knots more than `tol`
apart), `b'` = the basis `b.raise_order(a)` returns by `C05_knots`.  There is a non-negative
matrix `A` such that for EVERY control vector `c` and EVERY parameter `t` (inside or outside the
domain, exact or within `tol` of a knot)
`Σ_k N'_k(t) c'_k = Σ_j N_j(t) c_j` with `c'_k = Σ_j c_j A_{j,k}`,
`N = b.evaluate(t)`, `N' = b'.evaluate(t)`. -/
theorem elevation_H_incl (tol : K) (htol : 0 < tol) (q a : ℕ) (x0 xl : K) (umid : List K)
    (mmid : List ℕ) (hlen : umid.length = mmid.length)
    (hsep : Separated tol (clampedU x0 xl umid)) (hm : ∀ j ∈ mmid, 1 ≤ j) :
    ∃ A : ℕ → ℕ → K, (∀ i j, 0 ≤ A i j) ∧ ∀ (c : ℕ → K) (t : K),
      ∑ k ∈ Finset.range
            (openBasis (q+1+a) (clampedU x0 xl umid) (clampedM (q+1+a) (mmid.map (· + a)))).numFunctions,
          ((openBasis (q+1+a) (clampedU x0 xl umid) (clampedM (q+1+a) (mmid.map (· + a)))).evaluate
              tol t 0 true).getD k 0
            * (∑ j ∈ Finset.range
                (openBasis (q+1) (clampedU x0 xl umid) (clampedM (q+1) mmid)).numFunctions, c j * A j k)
        = ∑ j ∈ Finset.range (openBasis (q+1) (clampedU x0 xl umid) (clampedM (q+1) mmid)).numFunctions,
            ((openBasis (q+1) (clampedU x0 xl umid) (clampedM (q+1) mmid)).evaluate tol t 0 true).getD j 0
              * c j := by
  have h0 : 0 ≤ tol := le_of_lt htol
  have hMmap := clampedM_map (q+1) a mmid
  rw [← hMmap]
  generalize hU : clampedU x0 xl umid = U at *
  generalize hM : clampedM (q+1) mmid = M at *
  have hlenU : U.length = M.length := by
    rw [← hU, ← hM]; exact clamped_lengths (q+1) x0 xl umid mmid hlen
  have hM1 : ∀ k ∈ M, 1 ≤ k := by
    rw [← hM]; exact clampedM_pos (q+1) (by omega) mmid hm
  have hlenU' : U.length = (M.map (· + a)).length := by simpa using hlenU
  have hM1' : ∀ k ∈ M.map (· + a), 1 ≤ k := by
    intro k hk; rw [List.mem_map] at hk; obtain ⟨j, hj, rfl⟩ := hk
    have := hM1 j hj; omega
  have hu : U.Pairwise (· ≤ ·) := by
    apply List.Pairwise.imp _ hsep
    intro x y h; linarith
  have hU2 : 2 ≤ U.length := by rw [← hU]; simp [clampedU]
  -- validity
  have hv : (openBasis (q+1) U M).Valid := by
    rw [← hU, ← hM]
    exact openBasis_clamped_valid tol h0 (q+1) (by omega) x0 xl umid mmid hlen (hU ▸ hsep)
  have hv' : (openBasis (q+1+a) U (M.map (· + a))).Valid := by
    rw [← hM, clampedM_map (q+1) a mmid, ← hU]
    exact openBasis_clamped_valid tol h0 (q+1+a) (by omega) x0 xl umid _ (by simpa using hlen)
      (hU ▸ hsep)
  have hS := openBasis_separated tol (q+1) U M hsep
  have hS' := openBasis_separated tol (q+1+a) U (M.map (· + a)) hsep
  have hstart : (openBasis (q+1+a) U (M.map (· + a))).start = (openBasis (q+1) U M).start := by
    rw [← hM, clampedM_map (q+1) a mmid, ← hU, clamped_start (q+1+a) (by omega), clamped_start (q+1) (by omega)]
  have hstop : (openBasis (q+1+a) U (M.map (· + a))).stop = (openBasis (q+1) U M).stop := by
    rw [← hM, clampedM_map (q+1) a mmid, ← hU, clamped_stop (q+1+a) (by omega) x0 xl umid _ (by simpa using hlen),
      clamped_stop (q+1) (by omega) x0 xl umid mmid hlen]
  -- numbers of functions
  have hsz : 2 * (q+1) ≤ (expand U M).length := by
    have := hv.size_ge; simpa [openBasis] using this
  have hn : (openBasis (q+1) U M).numFunctions = (expand U M).length - (q+1) := by
    simp [Basis.numFunctions, openBasis]
  have hn' : (openBasis (q+1+a) U (M.map (· + a))).numFunctions
      = (expand U M).length - (q+1) + a * (U.length - 1) := by
    have h1 := length_expand_add a U M hlenU
    have h2 : a * U.length = a * (U.length - 1) + a := by
      obtain ⟨w, hw⟩ : ∃ w, U.length = w + 1 := ⟨U.length - 1, by omega⟩
      rw [hw, Nat.add_sub_cancel, Nat.mul_succ]
    simp only [Basis.numFunctions, openBasis, List.size_toArray]
    rw [h1]
    simp
    omega
  obtain ⟨A, hA, hB⟩ := elevation_openBasis U hu M hlenU hM1 q ((expand U M).length - (q+1))
    (by omega) a
  refine ⟨A, hA, ?_⟩
  intro c t
  rw [hn, hn']
  -- snapping
  have hsnap : snap (openBasis (q+1+a) U (M.map (· + a))) tol t = snap (openBasis (q+1) U M) tol t :=
    snap_eq_of_values hv'.kn_mono hv.kn_mono tol t
      (kn_values_expand (q+1+a) (q+1) U (M.map (· + a)) M hlenU hM1)
      (kn_values_expand (q+1) (q+1+a) U M (M.map (· + a)) hlenU' hM1')
  have hex := exactAt_snap hv hS t
  have hex' := exactAt_snap hv' hS' t
  rw [hsnap] at hex'
  rw [evaluate_snap hv htol hS t 0 true, evaluate_snap hv' htol hS' t 0 true, hsnap]
  generalize snap (openBasis (q+1) U M) tol t = t' at hex hex'
  by_cases hin : (openBasis (q+1) U M).start ≤ t' ∧ t' ≤ (openBasis (q+1) U M).stop
  · have hside : effSide (openBasis (q+1+a) U (M.map (· + a))) t' true
        = effSide (openBasis (q+1) U M) t' true := by
      unfold effSide; rw [hstop]
    have e1 : ∀ j ∈ Finset.range ((expand U M).length - (q+1)),
        ((openBasis (q+1) U M).evaluate tol t' 0 true).getD j 0 * c j
          = B (effSide (openBasis (q+1) U M) t' true) (openBasis (q+1) U M).kn q j t' * c j := by
      intro j hj
      rw [Finset.mem_range, ← hn] at hj
      rw [evaluate_inside_right hv rfl htol hex hin.1 hin.2 hj]
      rfl
    have e2 : ∀ k ∈ Finset.range ((expand U M).length - (q+1) + a * (U.length - 1)),
        ((openBasis (q+1+a) U (M.map (· + a))).evaluate tol t' 0 true).getD k 0
            * (∑ j ∈ Finset.range ((expand U M).length - (q+1)), c j * A j k)
          = B (effSide (openBasis (q+1) U M) t' true) (openBasis (q+1+a) U (M.map (· + a))).kn (q+a) k t'
            * (∑ j ∈ Finset.range ((expand U M).length - (q+1)), c j * A j k) := by
      intro k hk
      rw [Finset.mem_range, ← hn'] at hk
      rw [evaluate_inside_right hv' rfl htol hex' (by rw [hstart]; exact hin.1)
        (by rw [hstop]; exact hin.2) hk, hside]
      have eo : (openBasis (q+1+a) U (M.map (· + a))).order - 1 = q + a := by
        show q + 1 + a - 1 = q + a
        omega
      rw [eo]
    rw [Finset.sum_congr rfl e1, Finset.sum_congr rfl e2]
    exact hB _ c t'
  · have hout : t' < (openBasis (q+1) U M).start ∨ (openBasis (q+1) U M).stop < t' := by
      by_contra hc
      push Not at hc
      exact hin ⟨hc.1, hc.2⟩
    have hout' : t' < (openBasis (q+1+a) U (M.map (· + a))).start
        ∨ (openBasis (q+1+a) U (M.map (· + a))).stop < t' := by
      rw [hstart, hstop]; exact hout
    rw [Finset.sum_eq_zero, Finset.sum_eq_zero]
    · intro j _
      rw [evaluate_outside_right hv rfl htol hex hout, zero_mul]
    · intro k _
      rw [evaluate_outside_right hv' rfl htol hex' hout', zero_mul]

/-- `elevation_H_incl` literally in the shape of hypothesis `H_incl` of `C05_geometry_partial`:
control net `cps` with `nc` components per point (`cps (j * nc + c)` = component `c` of point `j`,
i.e. `o.cps.get`), `n = b.num_functions()`, `P` = number of Greville points of `b'`
(`= b'.num_functions()` by `greville_size`).  The new net is `c' k c = Σ_j cps (j nc + c) A_{j,k}`
with a non-negative matrix `A` not depending on the net (so positive weights stay
non-negative). -/
theorem elevation_H_incl_net (tol : K) (htol : 0 < tol) (q a : ℕ) (x0 xl : K) (umid : List K)
    (mmid : List ℕ) (hlen : umid.length = mmid.length)
    (hsep : Separated tol (clampedU x0 xl umid)) (hm : ∀ j ∈ mmid, 1 ≤ j) (n P : ℕ)
    (hn : n = (openBasis (q+1) (clampedU x0 xl umid) (clampedM (q+1) mmid)).numFunctions)
    (hP : P = (openBasis (q+1+a) (clampedU x0 xl umid)
      (clampedM (q+1+a) (mmid.map (· + a)))).numFunctions) :
    ∃ A : ℕ → ℕ → K, (∀ i j, 0 ≤ A i j) ∧ ∀ (nc : ℕ) (cps : ℕ → K) (t : K) (c : ℕ), c < nc →
      ∑ k ∈ Finset.range P,
          ((openBasis (q+1+a) (clampedU x0 xl umid) (clampedM (q+1+a) (mmid.map (· + a)))).evaluate
              tol t 0 true).getD k 0
            * (∑ j ∈ Finset.range n, cps (j * nc + c) * A j k)
        = ∑ j ∈ Finset.range n,
            ((openBasis (q+1) (clampedU x0 xl umid) (clampedM (q+1) mmid)).evaluate tol t 0 true).getD j 0
              * cps (j * nc + c) := by
  obtain ⟨A, hA, hB⟩ := elevation_H_incl tol htol q a x0 xl umid mmid hlen hsep hm
  refine ⟨A, hA, ?_⟩
  intro nc cps t c _
  rw [hn, hP]
  exact hB (fun j => cps (j * nc + c)) t

/-- Non-vacuity: the hypotheses of `elevation_H_incl` are satisfiable (order 3 on
`0,0,0,1,1,2,2,2`, raised by 2). -/
example : ∃ A : ℕ → ℕ → ℚ, (∀ i j, 0 ≤ A i j) ∧ ∀ (c : ℕ → ℚ) (t : ℚ),
    ∑ k ∈ Finset.range (openBasis 5 (clampedU (0:ℚ) 2 [1]) (clampedM 5 [4])).numFunctions,
        ((openBasis 5 (clampedU (0:ℚ) 2 [1]) (clampedM 5 [4])).evaluate (1/100) t 0 true).getD k 0
          * (∑ j ∈ Finset.range (openBasis 3 (clampedU (0:ℚ) 2 [1]) (clampedM 3 [2])).numFunctions,
              c j * A j k)
      = ∑ j ∈ Finset.range (openBasis 3 (clampedU (0:ℚ) 2 [1]) (clampedM 3 [2])).numFunctions,
          ((openBasis 3 (clampedU (0:ℚ) 2 [1]) (clampedM 3 [2])).evaluate (1/100) t 0 true).getD j 0
            * c j :=
  elevation_H_incl (K := ℚ) (1/100) (by norm_num) 2 2 0 2 [1] [2] rfl
    (by simp [Separated, clampedU]; norm_num) (by simp)

end Model

end Splipy
