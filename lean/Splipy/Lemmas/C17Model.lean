import Splipy.Lemmas.C17Lookup

/-! Lemmas for C17: `SplineModel.add` over a list of patches and `model[obj]`. -/

namespace Splipy.MP

/-- the cells of the complex spanned by `patches`: the patches and their iterated proper sections -/
inductive Cell (patches : List Obj) : Obj → Prop
  | patch {p : Obj} : p ∈ patches → Cell patches p
  | sect {y : Obj} {sec : Sec} : Cell patches y → sec.length = y.pardim → secTgtDim sec < y.pardim →
      Cell patches (y.sect sec)

theorem Cell.gu {nc : ℕ} {patches : List Obj} (hp : ∀ p ∈ patches, GU nc p) {x : Obj}
    (h : Cell patches x) : GU nc x := by
  induction h with
  | patch hm => exact hp _ hm
  | sect _ hl _ ih => exact ih.sect hl

theorem Cell.mono {ps qs : List Obj} (h : ∀ p ∈ ps, p ∈ qs) {x : Obj} (hx : Cell ps x) : Cell qs x := by
  induction hx with
  | patch hm => exact Cell.patch (h _ hm)
  | sect _ hl ht ih => exact Cell.sect ih hl ht

theorem Level.get_empty (q : List ℕ) : ({} : Level).get q = [] := by
  simp [Level.get]

theorem Model.empty_level (P d : ℕ) (q : List ℕ) : ((Model.empty P).level d).get q = [] := by
  unfold Model.level Model.empty
  simp only [Array.getD_eq_getD_getElem?]
  cases h : (Array.replicate (P + 1) ({} : Level))[d]? with
  | none => exact Level.get_empty q
  | some lv =>
    have := Array.mem_of_getElem? h
    rw [Array.mem_replicate] at this
    rw [Option.getD_some, this.2]; exact Level.get_empty q

/-- the empty catalogue satisfies the invariant -/
theorem Inv.empty (nc : ℕ) (S : Obj → Prop) (P : ℕ) : Inv nc S (Model.empty P) := by
  have hsz : (Model.empty P).nodes.size = 0 := rfl
  refine ⟨by simp [Model.empty], by simp [Model.empty], ?_, ?_, ?_, ?_, ?_, ?_, ?_, ?_, ?_, ?_, ?_, ?_⟩
  · intro c hc; rw [hsz] at hc; omega
  · intro c hc; rw [hsz] at hc; omega
  · intro c hc; rw [hsz] at hc; omega
  · intro c hc; rw [hsz] at hc; omega
  · intro c hc; rw [hsz] at hc; omega
  · intro d q c hc; rw [Model.empty_level] at hc; simp at hc
  · intro d q q' _; rw [Model.empty_level, Model.empty_level]
  · intro c c' hc; rw [hsz] at hc; omega
  · intro c hc; rw [hsz] at hc; omega
  · intro c hc; rw [hsz] at hc; omega
  · intro d q hq
    exfalso; apply hq
    unfold Model.level Model.empty
    simp only [Array.getD_eq_getD_getElem?]
    cases h : (Array.replicate (P + 1) ({} : Level))[d]? with
    | none => simp
    | some lv =>
      have := Array.mem_of_getElem? h
      rw [Array.mem_replicate] at this
      rw [Option.getD_some, this.2]; simp
  · intro k hk; rw [hsz] at hk; omega

theorem Model.empty_lsize (P : ℕ) : (Model.empty P).levels.size = P + 1 := by simp [Model.empty]

/-- the state after `_generate` (all patches added) -/
theorem addAll_sound {nc : ℕ} {S : Obj → Prop}
    (hsect : ∀ y sec, S y → sec.length = y.pardim → secTgtDim sec < y.pardim → S (y.sect sec))
    (P : ℕ) (tw : List ℕ) (objs : List Obj) :
    ∀ (m m' : Model), Inv nc S m → m.levels.size = P + 1 →
      (∀ p ∈ objs, GU nc p ∧ p.pardim ≤ P ∧ S p) →
      objs.foldlM (fun m p => (Model.lookup P m p true tw).map (·.1)) m = .ok m' →
      Inv nc S m' ∧ Ext m m' ∧ ∀ p ∈ objs, ∃ c, Rep m' c p := by
  induction objs with
  | nil =>
    intro m m' hI _ _ h
    simp only [List.foldlM_nil, pure, Except.pure, Except.ok.injEq] at h
    subst h
    exact ⟨hI, Ext.refl _, fun p hp => by simp at hp⟩
  | cons p rest ih =>
    intro m m' hI hL hobjs h
    rw [List.foldlM_cons] at h
    obtain ⟨hgu, hpd, hS⟩ := hobjs p (by simp)
    cases h1 : Model.lookup P m p true tw with
    | error e => rw [h1] at h; simp [Except.map, bind, Except.bind] at h
    | ok r =>
      obtain ⟨m1, id, o⟩ := r
      rw [h1] at h
      simp only [Except.map, bind, Except.bind] at h
      obtain ⟨hI1, hE1, hR1, _, _⟩ := lookup_sound (nc := nc) hsect true tw P m p m1 id o hI hgu hpd
        (by rw [hL]; omega) (fun _ => hS) h1
      obtain ⟨hI2, hE2, hR2⟩ := ih m1 m' hI1 (by rw [hE1.lsize]; exact hL)
        (fun q hq => hobjs q (List.mem_cons_of_mem _ hq)) h
      refine ⟨hI2, hE1.trans hE2, ?_⟩
      intro q hq
      rcases List.mem_cons.1 hq with rfl | hq'
      · exact ⟨id, hR1.ext hE2⟩
      · exact hR2 q hq'

/-- what `SplineModel.add` returning normally means -/
theorem SplineModel.add_ok {ktol : ℚ} {sm sm' : SplineModel} {objs : List Obj} {tw : List ℕ}
    (h : sm.add ktol objs tw = .ok sm') :
    sm'.pardim = sm.pardim ∧
    objs.foldlM (fun m p => (Model.lookup sm.pardim m p true tw).map (·.1)) sm.cat = .ok sm'.cat := by
  unfold SplineModel.add at h
  split at h
  · simp at h
  · split at h
    · simp at h
    · split at h
      · simp at h
      · cases hf : objs.foldlM (fun m p => (Model.lookup sm.pardim m p true tw).map (·.1)) sm.cat with
        | error e => rw [hf] at h; simp at h
        | ok cat =>
          rw [hf] at h
          simp only [Except.ok.injEq] at h
          subst h
          exact ⟨rfl, rfl⟩

/-- every cell is represented once its patch is -/
theorem Cell.rep {nc : ℕ} {S : Obj → Prop} {m : Model} (hI : Inv nc S m) {patches : List Obj}
    (hp : ∀ p ∈ patches, GU nc p) (hrep : ∀ p ∈ patches, ∃ c, Rep m c p) {x : Obj}
    (hx : Cell patches x) : ∃ c, Rep m c x := by
  induction hx with
  | patch hm => exact hrep _ hm
  | sect hy hl ht ih =>
    obtain ⟨c, hc⟩ := ih
    exact rep_sect hI (hy.gu hp) hc hl ht

end Splipy.MP
