import Splipy.Lemmas.C15
import Splipy.Lemmas.C15Tensor
import Splipy.Lemmas.C04Tensor
import Splipy.Lemmas.Triangle

/-!
# `Surface.const_par_curve` (model `Obj.constParCurve`) — supporting lemmas

* uniqueness of the bisection positions of a sorted sequence;
* what `k` insertions of the same value do to them (`bisect_left` unchanged, `bisect_right + k`);
* `continuity(knot)` is `p - 1 - multiplicity` when the tolerance separates the knots;
* the core theorem: the model's loop, index and slicing in terms of the refined object.
-/

set_option linter.unusedSectionVars false

namespace Splipy
namespace C15

open C04 Sections

variable {K : Type} [Field K] [LinearOrder K] [IsStrictOrderedRing K] [FloorRing K]

/-! ## Bisection positions -/

theorem bisectLeft_unique (a : ℕ → K) (ha : Monotone a) (v : K) (N l : ℕ) (hl : l ≤ N)
    (h1 : ∀ i, i < l → a i < v) (h2 : ∀ i, l ≤ i → i < N → v ≤ a i) : bisectLeft a v N = l := by
  obtain ⟨m1, m2, m3⟩ := bisectLeft_spec a ha v N
  rcases Nat.lt_trichotomy (bisectLeft a v N) l with h | h | h
  · exact absurd (m3 _ le_rfl (by omega)) (not_le.2 (h1 _ h))
  · exact h
  · exact absurd (h2 l le_rfl (by omega)) (not_le.2 (m2 l h))

theorem bisectRight_unique (a : ℕ → K) (ha : Monotone a) (v : K) (N r : ℕ) (hr : r ≤ N)
    (h1 : ∀ i, i < r → a i ≤ v) (h2 : ∀ i, r ≤ i → i < N → v < a i) : bisectRight a v N = r := by
  obtain ⟨m1, m2, m3⟩ := bisectRight_spec a ha v N
  rcases Nat.lt_trichotomy (bisectRight a v N) r with h | h | h
  · exact absurd (m3 _ le_rfl (by omega)) (not_lt.2 (h1 _ h))
  · exact h
  · exact absurd (h2 r le_rfl (by omega)) (not_lt.2 (m2 r h))

/-- The facts about `l = bisect_left`, `r = bisect_right` of a valid basis. -/
theorem bisect_facts (b : Basis K) (hv : b.Valid) (x : K) :
    b.bisectL x ≤ b.bisectR x ∧ b.bisectR x ≤ b.knots.size ∧
    (∀ i, i < b.bisectL x → b.kn i < x) ∧ (∀ i, b.bisectL x ≤ i → i < b.knots.size → x ≤ b.kn i) ∧
    (∀ i, i < b.bisectR x → b.kn i ≤ x) ∧ (∀ i, b.bisectR x ≤ i → i < b.knots.size → x < b.kn i) := by
  have hm := kn_mono hv.sorted
  obtain ⟨l1, l2, l3⟩ := bisectLeft_spec b.kn hm x b.knots.size
  obtain ⟨r1, r2, r3⟩ := bisectRight_spec b.kn hm x b.knots.size
  refine ⟨?_, r1, l2, l3, r2, r3⟩
  by_contra h
  have h' : b.bisectR x < b.bisectL x := by omega
  have hlt : b.bisectR x < b.knots.size := lt_of_lt_of_le h' l1
  exact absurd (r3 _ le_rfl hlt) (not_lt.2 (le_of_lt (l2 _ h')))

/-- One insertion of `x`: `bisect_left(x)` is unchanged, `bisect_right(x)` grows by one. -/
theorem bisect_after_insert (b b' : Basis K) (hv : b.Valid) (hv' : b'.Valid) (x : K)
    (hsize : b'.knots.size = b.knots.size + 1)
    (hkn : ∀ j, b'.kn j = insertSeq b.kn (b.bisectR x) x j) :
    b'.bisectL x = b.bisectL x ∧ b'.bisectR x = b.bisectR x + 1 := by
  obtain ⟨hlr, hrN, l2, l3, r2, r3⟩ := bisect_facts b hv x
  have hm' := kn_mono hv'.sorted
  constructor
  · apply bisectLeft_unique b'.kn hm' x _ _ (by rw [hsize]; omega)
    · intro i hi
      rw [hkn, bo_ins_lt (by omega)]
      exact l2 i hi
    · intro i hi1 hi2
      rw [hkn]
      rcases Nat.lt_trichotomy i (b.bisectR x) with h | h | h
      · rw [bo_ins_lt h]; exact l3 i hi1 (by omega)
      · rw [h, bo_ins_self]
      · rw [bo_ins_gt (k := i - 1) (by omega) (by omega)]
        exact l3 (i - 1) (by omega) (by rw [hsize] at hi2; omega)
  · apply bisectRight_unique b'.kn hm' x _ _ (by rw [hsize]; omega)
    · intro i hi
      rw [hkn]
      rcases Nat.lt_or_ge i (b.bisectR x) with h | h
      · rw [bo_ins_lt h]; exact r2 i h
      · have : i = b.bisectR x := by omega
        rw [this, bo_ins_self]
    · intro i hi1 hi2
      rw [hkn, bo_ins_gt (k := i - 1) (by omega) (by omega)]
      exact r3 (i - 1) (by omega) (by rw [hsize] at hi2; omega)

/-- `k` insertions of the same value `x ∈ [start, end)` (`insertMany`, the loop of
    `SplineObject.insert_knot` / `const_par_curve`). -/
theorem insertMany_replicate (x : K) (k : ℕ) :
    ∀ (b : Basis K) (C0 : Mat K), b.Valid → b.periodic = -1 →
      (k = 0 ∨ (b.start ≤ x ∧ x < b.stop)) →
      ∃ b' C, insertMany b C0 (List.replicate k x) = .ok (b', C) ∧ b'.Valid ∧ b'.periodic = -1 ∧
        b'.order = b.order ∧ b'.knots.size = b.knots.size + k ∧ b'.start = b.start ∧
        b'.stop = b.stop ∧ b'.bisectL x = b.bisectL x ∧ b'.bisectR x = b.bisectR x + k ∧
        (k = 0 → b' = b) := by
  induction k with
  | zero =>
    intro b C0 hv hper _
    exact ⟨b, C0, rfl, hv, hper, rfl, rfl, rfl, rfl, rfl, rfl, fun _ => rfl⟩
  | succ k ih =>
    intro b C0 hv hper hx
    have hx' : b.start ≤ x ∧ x < b.stop := by
      rcases hx with h | h
      · omega
      · exact h
    obtain ⟨b1, C1, hins, hr1, hkn1, _⟩ := insertKnot_open b hv hper x ⟨hx'.1, le_of_lt hx'.2⟩
      (guard_of_lt_stop b hv x hx'.2)
    have hper1 : b1.periodic = -1 := hr1.periodic_eq.trans hper
    obtain ⟨e1, e2⟩ := bisect_after_insert b b1 hv hr1.valid x hr1.size_eq hkn1
    obtain ⟨b', C, hm, h1, h2, h3, h4, h5, h6, h7, h8, _⟩ := ih b1 (Mat.mul C1 C0) hr1.valid hper1
      (Or.inr ⟨by rw [hr1.start_eq]; exact hx'.1, by rw [hr1.stop_eq]; exact hx'.2⟩)
    refine ⟨b', C, ?_, h1, h2, h3.trans hr1.order_eq, by rw [h4, hr1.size_eq]; omega,
      h5.trans hr1.start_eq, h6.trans hr1.stop_eq, h7.trans e1, by rw [h8, e2]; omega,
      fun h => by omega⟩
    unfold insertMany at hm ⊢
    rw [List.replicate_succ, List.foldlM_cons]
    have : stepIns (b, C0) x = .ok (b1, Mat.mul C1 C0) := by
      unfold stepIns
      simp only [hins]
      rfl
    rw [this]
    exact hm

/-! ## `continuity` -/

/-- The tolerance separates `x` from the knots different from it. -/
def Separated (b : Basis K) (tol x : K) : Prop :=
  ∀ i, i < b.knots.size → b.kn i = x ∨ b.kn i < x - tol ∨ x + tol ≤ b.kn i

/-- `continuity(x)` of a non-periodic basis at an in-range, tolerance-separated `x`:
    `inf` when `x` is not a knot, else `p - multiplicity - 1`. -/
theorem continuity_exact (b : Basis K) (hv : b.Valid) (hper : b.periodic = -1) (tol x : K)
    (htol : 0 < tol) (hx : b.start ≤ x ∧ x ≤ b.stop) (hsep : Separated b tol x) :
    b.continuity tol x = .ok (if b.bisectR x = b.bisectL x then none
      else some ((b.order : Int) - ((b.bisectR x : Int) - b.bisectL x) - 1)) := by
  obtain ⟨hlr, hrN, l2, l3, r2, r3⟩ := bisect_facts b hv x
  have hm := kn_mono hv.sorted
  have hhi : b.bisectL (x + tol) = b.bisectR x := by
    apply bisectLeft_unique b.kn hm _ _ _ hrN
    · intro i hi
      exact lt_of_le_of_lt (r2 i hi) (by linarith)
    · intro i hi1 hi2
      rcases hsep i hi2 with h | h | h
      · exact absurd (r3 i hi1 hi2) (by rw [h]; exact lt_irrefl _)
      · exact absurd (r3 i hi1 hi2) (not_lt.2 (by linarith))
      · exact h
  have hlo : b.bisectL (x - tol) = b.bisectL x := by
    apply bisectLeft_unique b.kn hm _ _ _ (le_trans hlr hrN)
    · intro i hi
      have hiN : i < b.knots.size := by omega
      rcases hsep i hiN with h | h | h
      · exact absurd (l2 i hi) (by rw [h]; exact lt_irrefl _)
      · exact h
      · exact absurd (l2 i hi) (not_lt.2 (by linarith))
    · intro i hi1 hi2
      exact le_trans (by linarith) (l3 i hi1 hi2)
  unfold Basis.continuity
  have h1 : ¬ (b.periodic ≥ 0) := by rw [hper]; decide
  have h2 : ¬ (x < b.start - tol ∨ b.stop + tol < x) :=
    not_or.2 ⟨not_lt.2 (by linarith [hx.1]), not_lt.2 (by linarith [hx.2])⟩
  simp only [if_neg h1, if_neg h2, hhi, hlo]
  split_ifs <;> rfl

end C15
end Splipy
