import Splipy.Lemmas.C05PerGeom
import Splipy.Lemmas.C05Clamped
import Splipy.Lemmas.C05Volume

/-!
# C05c — one direction of a multi-directional `raise_order`, periodic directions included

`DirOK` (C05SurfaceObj) demands the row identity at *every* parameter and a specification-level
statement that is false for periodic bases outside the domain.  `DirOKw` is the weaker packaging that
is enough for the projection argument and for equality of the evaluated map at admissible parameters:

* the basis raise succeeds, the new basis is valid;
* `H_sw`: the certified inverse of the Greville collocation matrix exists, and it projects the old
  collocation rows through `E` (`Proj`);
* `RowsOn`: the executable rows of the old basis are reproduced through `E` at every parameter
  admissible for the old and the new basis.

Instances: every `DirOK` direction (clamped continuous bases, unchanged directions) and every
standard periodic basis (`PerData`) relative to `H_sw` and admissibility of the Greville points.
-/

namespace Splipy

set_option linter.unusedSectionVars false

variable {K : Type} [Field K] [LinearOrder K] [IsStrictOrderedRing K] [FloorRing K]

open Finset

/-- The executable rows of `b` are reproduced on `b'` through `E` at every parameter admissible for
    both bases. -/
def RowsOn (tol : K) (b b' : Basis K) (E : ℕ → ℕ → K) : Prop :=
  ∀ (f : ℕ → K) (t : K), b.Admissible tol t → b'.Admissible tol t →
    ∑ k ∈ range b'.numFunctions, (b'.evaluate tol t 0 true).getD k 0 * (∑ j ∈ range b.numFunctions, f j * E j k)
      = ∑ j ∈ range b.numFunctions, (b.evaluate tol t 0 true).getD j 0 * f j

theorem rowsOn_of_rowsVia {tol : K} {b b' : Basis K} {E : ℕ → ℕ → K}
    (h : RowsVia tol b b' b.numFunctions E) : RowsOn tol b b' E :=
  fun f t _ _ => h f t

/-- The projection property from `RowsOn` when the Greville points are admissible. -/
theorem proj_of_rowsOn (tol : K) (b b' : Basis K) (E : ℕ → ℕ → K) (pts : Array K) (Ni : Mat K)
    (hg : b'.greville = .ok pts)
    (H_sw : Mat.invChecked (Obj.basisMat b' tol pts.toList 0 true) = .ok Ni)
    (hadm : ∀ t ∈ pts.toList, b.Admissible tol t ∧ b'.Admissible tol t)
    (hE : RowsOn tol b b' E) :
    Proj Ni (Obj.basisMat b tol pts.toList 0 true) pts.size b.numFunctions pts.size E := by
  obtain ⟨hNi, hinv⟩ := Mat.invChecked_spec _ Ni H_sw
  have hrows : (Obj.basisMat b' tol pts.toList 0 true).nrows = pts.size := by
    simp [Mat.nrows, basisMat_size]
  rw [hrows] at hNi hinv
  have hP := greville_size b' pts hg
  apply proj_of_leftInv Ni (Obj.basisMat b' tol pts.toList 0 true) _ pts.size b.numFunctions E hinv
  intro f l hl
  have hl' : l < pts.toList.length := by simpa using hl
  have e1 : ∀ k, (Obj.basisMat b' tol pts.toList 0 true).get l k = (b'.evaluate tol pts.toList[l] 0 true).getD k 0 :=
    fun k => basisMat_get b' tol pts.toList l k hl'
  have e2 : ∀ j, (Obj.basisMat b tol pts.toList 0 true).get l j = (b.evaluate tol pts.toList[l] 0 true).getD j 0 :=
    fun j => basisMat_get b tol pts.toList l j hl'
  simp only [e1, e2]
  rw [hP]
  have hm : pts.toList[l] ∈ pts.toList := List.getElem_mem hl'
  exact hE f pts.toList[l] (hadm _ hm).1 (hadm _ hm).2

/-- **One direction of `raise_order`, weak form** (covers periodic directions). -/
structure DirOKw (tol : K) (b : Basis K) (a : ℕ) (b' : Basis K) (E : ℕ → ℕ → K) : Prop where
  raise : b.raiseOrder tol a = .ok b'
  valid' : b'.Valid
  hsw : ∃ pts Ni, b'.greville = .ok pts ∧ Mat.invChecked (Obj.basisMat b' tol pts.toList 0 true) = .ok Ni ∧
    Proj Ni (Obj.basisMat b tol pts.toList 0 true) pts.size b.numFunctions pts.size E
  rows : RowsOn tol b b' E

/-- Every `DirOK` direction (clamped continuous bases, unchanged directions) is `DirOKw`. -/
theorem DirOK.weak {tol : K} {b b' : Basis K} {a : ℕ} {E : ℕ → ℕ → K} (h : DirOK tol b a b' E) :
    DirOKw tol b a b' E := by
  obtain ⟨pts, Ni, hg, H⟩ := h.hsw
  exact ⟨h.raise, h.valid', ⟨pts, Ni, hg, H, (proj_of_rowsVia tol b b' _ E pts Ni hg H h.rows).2.2⟩,
    rowsOn_of_rowsVia h.rows⟩

variable {tol : K} {p k : ℕ} {w0 : K} {wr : List K} {μ0 : ℕ} {μr : List ℕ} {T : K}

/-- **A standard periodic direction is `DirOKw`**, relative to `H_sw` (the model's certified inverse
    of the periodic Greville collocation matrix exists) and admissibility of the Greville points of
    the raised basis.  `H_incl` is proved (`PerData.H_incl_rows`); the matrix is non-negative. -/
theorem PerData.dirOKw (h : PerData tol p k w0 wr μ0 μr T) (htol : 0 < tol) (a : ℕ)
    (pts : Array K) (hg : (perBasis (p + a) k (w0 :: wr) ((μ0 :: μr).map (· + a)) T).greville = .ok pts)
    (hadm : ∀ t ∈ pts.toList, (perBasis p k (w0 :: wr) (μ0 :: μr) T).Admissible tol t ∧
      (perBasis (p + a) k (w0 :: wr) ((μ0 :: μr).map (· + a)) T).Admissible tol t)
    (Ni : Mat K)
    (H_sw : Mat.invChecked (Obj.basisMat (perBasis (p + a) k (w0 :: wr) ((μ0 :: μr).map (· + a)) T) tol
      pts.toList 0 true) = .ok Ni) :
    ∃ E : ℕ → ℕ → K, (∀ i j, 0 ≤ E i j) ∧
      DirOKw tol (perBasis p k (w0 :: wr) (μ0 :: μr) T) a
        (perBasis (p + a) k (w0 :: wr) ((μ0 :: μr).map (· + a)) T) E := by
  obtain ⟨E, hE, hrows⟩ := h.H_incl_rows htol a
  have hv' : (perBasis (p + a) k (w0 :: wr) ((μ0 :: μr).map (· + a)) T).Valid := by
    have := (h.raise a).valid htol.le
    have hmap : (μ0 :: μr).map (· + a) = (μ0 + a) :: μr.map (· + a) := by simp
    rw [hmap]; exact this
  have hR : RowsOn tol (perBasis p k (w0 :: wr) (μ0 :: μr) T)
      (perBasis (p + a) k (w0 :: wr) ((μ0 :: μr).map (· + a)) T) E := hrows
  exact ⟨E, hE, raiseOrder_periodic h htol a, hv',
    ⟨pts, Ni, hg, H_sw, proj_of_rowsOn tol _ _ E pts Ni hg H_sw hadm hR⟩, hR⟩

/-! ## Surfaces -/

/-- **Surfaces, weak form.**  If both directions are `DirOKw`, `raise_order_implicit(a_u, a_v)`
    succeeds, the result is well formed with bases `b_u'`, `b_v'`, the same rationality and number of
    components, its control net is the image of the old one under `E_u ⊗ E_v`, and the tensor-product
    sums of the executable rows agree at every pair of parameters admissible for the old and new
    bases. -/
theorem raiseImplicit_surface_w (o : Obj K) (tol : K) (hw : C06.WF o 2) (au av : ℕ) (bu' bv' : Basis K)
    (Eu Ev : ℕ → ℕ → K) (hu : DirOKw tol (o.basis 0) au bu' Eu) (hv : DirOKw tol (o.basis 1) av bv' Ev) :
    ∃ o', o.raiseOrderImplicit tol [au, av] = .ok o' ∧ o' = renet (renet o 0 bu' Eu) 1 bv' Ev
      ∧ C06.WF o' 2 ∧ o'.basis 0 = bu' ∧ o'.basis 1 = bv'
      ∧ o'.ncomp = o.ncomp ∧ o'.rational = o.rational
      ∧ (∀ k0, k0 < bu'.numFunctions → ∀ k1, k1 < bv'.numFunctions → ∀ i, i < o.ncomp →
          o'.cps.get ((k0 * bv'.numFunctions + k1) * o.ncomp + i)
            = ∑ a ∈ range (o.basis 0).numFunctions, (∑ j ∈ range (o.basis 1).numFunctions,
                o.cps.get ((a * (o.basis 1).numFunctions + j) * o.ncomp + i) * Ev j k1) * Eu a k0)
      ∧ (∀ u v, (o.basis 0).Admissible tol u → bu'.Admissible tol u →
          (o.basis 1).Admissible tol v → bv'.Admissible tol v → ∀ i, i < o.ncomp →
          ∑ k0 ∈ range bu'.numFunctions, (bu'.evaluate tol u 0 true).getD k0 0 *
              ∑ k1 ∈ range bv'.numFunctions, (bv'.evaluate tol v 0 true).getD k1 0 *
                o'.cps.get ((k0 * bv'.numFunctions + k1) * o.ncomp + i)
            = ∑ a ∈ range (o.basis 0).numFunctions, ((o.basis 0).evaluate tol u 0 true).getD a 0 *
                ∑ j ∈ range (o.basis 1).numFunctions, ((o.basis 1).evaluate tol v 0 true).getD j 0 *
                  o.cps.get ((a * (o.basis 1).numFunctions + j) * o.ncomp + i)) := by
  obtain ⟨pu, Niu, hgu, Hu, pju⟩ := hu.hsw
  obtain ⟨pv, Niv, hgv, Hv, pjv⟩ := hv.hsw
  have heq := raiseImplicit_surface_eq_proj o tol hw au av bu' bv' hu.raise hv.raise pu pv hgu hgv Niu Niv Hu Hv
    Eu Ev pju pjv
  obtain ⟨w1, b1d, b1k, n1, r1⟩ := renet_wf hw (0 : Fin 2) bu' hu.valid' Eu
  have hb11 : (renet o 0 bu' Eu).basis 1 = o.basis 1 := b1k (1 : Fin 2) (by decide)
  obtain ⟨w2, b2d, b2k, n2, r2⟩ := renet_wf w1 (1 : Fin 2) bv' hv.valid' Ev
  have hent : ∀ k0, k0 < bu'.numFunctions → ∀ k1, k1 < bv'.numFunctions → ∀ i, i < o.ncomp →
      (renet (renet o 0 bu' Eu) 1 bv' Ev).cps.get ((k0 * bv'.numFunctions + k1) * o.ncomp + i)
        = ∑ a ∈ range (o.basis 0).numFunctions, (∑ j ∈ range (o.basis 1).numFunctions,
            o.cps.get ((a * (o.basis 1).numFunctions + j) * o.ncomp + i) * Ev j k1) * Eu a k0 := by
    intro k0 hk0 k1 hk1 i hi
    have hs := shape_of_wf2 hw
    obtain ⟨_, _, eR⟩ := renet2_entries o.cps hs Eu Ev bu'.numFunctions bv'.numFunctions
    have := eR k0 hk0 k1 hk1 i hi
    unfold Tensor.entry3 at this
    rw [← this]
    show (Tensor.applyAxis (matOfE Ev ((renet o 0 bu' Eu).basis 1).numFunctions bv'.numFunctions)
      (Tensor.applyAxis (matOfE Eu (o.basis 0).numFunctions bu'.numFunctions) o.cps 0) 1).get _ = _
    rw [hb11]
  refine ⟨_, heq, rfl, w2, ?_, b2d, n2.trans n1, r2.trans r1, hent, ?_⟩
  · have := b2k (0 : Fin 2) (by decide)
    exact this.trans b1d
  · intro u v hu1 hu2 hv1 hv2 i hi
    -- inner sums: the `v` direction
    have inner : ∀ k0, k0 < bu'.numFunctions →
        ∑ k1 ∈ range bv'.numFunctions, (bv'.evaluate tol v 0 true).getD k1 0 *
            (renet (renet o 0 bu' Eu) 1 bv' Ev).cps.get ((k0 * bv'.numFunctions + k1) * o.ncomp + i)
          = ∑ a ∈ range (o.basis 0).numFunctions,
              (∑ j ∈ range (o.basis 1).numFunctions, ((o.basis 1).evaluate tol v 0 true).getD j 0 *
                o.cps.get ((a * (o.basis 1).numFunctions + j) * o.ncomp + i)) * Eu a k0 := by
      intro k0 hk0
      have s1 : ∑ k1 ∈ range bv'.numFunctions, (bv'.evaluate tol v 0 true).getD k1 0 *
            (renet (renet o 0 bu' Eu) 1 bv' Ev).cps.get ((k0 * bv'.numFunctions + k1) * o.ncomp + i)
          = ∑ k1 ∈ range bv'.numFunctions, ∑ a ∈ range (o.basis 0).numFunctions,
              ((bv'.evaluate tol v 0 true).getD k1 0 * (∑ j ∈ range (o.basis 1).numFunctions,
                o.cps.get ((a * (o.basis 1).numFunctions + j) * o.ncomp + i) * Ev j k1)) * Eu a k0 := by
        apply sum_congr rfl
        intro k1 hk1
        rw [hent k0 hk0 k1 (mem_range.mp hk1) i hi, mul_sum]
        apply sum_congr rfl
        intro a _
        ring
      rw [s1, sum_comm]
      apply sum_congr rfl
      intro a _
      rw [← sum_mul]
      congr 1
      exact hv.rows (fun j => o.cps.get ((a * (o.basis 1).numFunctions + j) * o.ncomp + i)) v hv1 hv2
    have s2 : ∑ k0 ∈ range bu'.numFunctions, (bu'.evaluate tol u 0 true).getD k0 0 *
          ∑ k1 ∈ range bv'.numFunctions, (bv'.evaluate tol v 0 true).getD k1 0 *
            (renet (renet o 0 bu' Eu) 1 bv' Ev).cps.get ((k0 * bv'.numFunctions + k1) * o.ncomp + i)
        = ∑ k0 ∈ range bu'.numFunctions, (bu'.evaluate tol u 0 true).getD k0 0 *
            ∑ a ∈ range (o.basis 0).numFunctions,
              (∑ j ∈ range (o.basis 1).numFunctions, ((o.basis 1).evaluate tol v 0 true).getD j 0 *
                o.cps.get ((a * (o.basis 1).numFunctions + j) * o.ncomp + i)) * Eu a k0 := by
      apply sum_congr rfl
      intro k0 hk0
      rw [inner k0 (mem_range.mp hk0)]
    rw [s2]
    exact hu.rows (fun a => ∑ j ∈ range (o.basis 1).numFunctions, ((o.basis 1).evaluate tol v 0 true).getD j 0 *
      o.cps.get ((a * (o.basis 1).numFunctions + j) * o.ncomp + i)) u hu1 hu2

end Splipy
