import Splipy.Model.StateLang

/-!
# Soundness of the `restoresB` decision procedure and the nesting theorem (C20)
-/

namespace Splipy.StateLang

variable {V : Type}

theorem Store.set_same (s : Store V) (k : String) (v : V) : (s.set k v) k = v := by
  simp [Store.set]

theorem Store.set_other (s : Store V) {k k' : String} (v : V) (h : k' ≠ k) :
    (s.set k v) k' = s k' := by
  simp [Store.set, h]

/-- After `for k, v in l: setattr(module, k, v)` an attribute either has the value of *some*
    pair of `l` with that name, or it is not named in `l` and is unchanged. -/
theorem applyKw_spec (l : List (String × V)) (s : Store V) (k : String) :
    (∃ v, (k, v) ∈ l ∧ applyKw l s k = v) ∨ ((∀ v, (k, v) ∉ l) ∧ applyKw l s k = s k) := by
  induction l generalizing s with
  | nil => right; exact ⟨by simp, rfl⟩
  | cons p l ih =>
    obtain ⟨k', v'⟩ := p
    rcases ih (s.set k' v') with ⟨v, hv, he⟩ | ⟨hn, he⟩
    · left; exact ⟨v, List.mem_cons_of_mem _ hv, he⟩
    · by_cases hk : k = k'
      · left
        refine ⟨v', ?_, ?_⟩
        · subst hk; exact List.mem_cons_self
        · show applyKw l (s.set k' v') k = v'
          rw [he, hk]; exact Store.set_same s k' v'
      · right
        refine ⟨?_, ?_⟩
        · intro v hv
          rcases List.mem_cons.1 hv with h | h
          · exact hk (Prod.mk.inj h).1
          · exact hn v h
        · show applyKw l (s.set k' v') k = s k
          rw [he]; exact Store.set_other s v' hk

/-- `before` holds the entry value `s0 k` for every setting `k` (and nothing else under a
    setting's name). -/
def Saved (settings : List String) (s0 : Store V) (before : List (String × V)) : Prop :=
  (∀ p ∈ before, p.1 ∈ settings → p.2 = s0 p.1) ∧ (∀ k ∈ settings, ∃ v, (k, v) ∈ before)

/-- Concretisation of the abstract state. -/
def Conc (settings : List String) (s0 : Store V) (a : Abs) (st : St V) : Prop :=
  (a.saved = true → Saved settings s0 st.before) ∧
  (a.clean = true → ∀ k ∈ settings, st.cur k = s0 k)

theorem restore_clean {settings : List String} {s0 : Store V} {before : List (String × V)}
    (h : Saved settings s0 before) (cur : Store V) :
    ∀ k ∈ settings, applyKw before cur k = s0 k := by
  intro k hk
  rcases applyKw_spec before cur k with ⟨v, hv, he⟩ | ⟨hn, _⟩
  · rw [he]; exact h.1 (k, v) hv hk
  · obtain ⟨v, hv⟩ := h.2 k hk
    exact absurd hv (hn v)

theorem save_saved {settings keys : List String} {s0 cur : Store V}
    (hsub : settings.all (fun k => keys.contains k) = true)
    (hclean : ∀ k ∈ settings, cur k = s0 k) :
    Saved settings s0 (keys.map (fun k => (k, cur k))) := by
  constructor
  · intro p hp hps
    obtain ⟨k, _, rfl⟩ := List.mem_map.1 hp
    exact hclean k hps
  · intro k hk
    have : keys.contains k = true := (List.all_eq_true.1 hsub) k hk
    have hmem : k ∈ keys := by simpa using this
    exact ⟨cur k, List.mem_map.2 ⟨k, hmem, rfl⟩⟩

/-- The abstract interpreter over-approximates the concrete semantics. -/
theorem absRun_sound (settings : List String) (E : Env V) (s0 : Store V) :
    ∀ (prog : Stmt) (a : Abs) (st : St V), Conc settings s0 a st →
      ∃ r ∈ absRun settings prog a, r.1 = (run E prog st).1 ∧ Conc settings s0 r.2 (run E prog st).2 := by
  intro prog
  induction prog with
  | skip => intro a st h; exact ⟨(.normal, a), by simp [absRun], rfl, h⟩
  | saveAll keys =>
    intro a st h
    refine ⟨_, List.mem_singleton.2 rfl, rfl, ?_⟩
    constructor
    · intro hs
      have hs' : a.clean = true ∧ settings.all (fun k => keys.contains k) = true := by
        simpa [Bool.and_eq_true] using hs
      exact save_saved hs'.2 (h.2 hs'.1)
    · intro hc; exact h.2 hc
  | setFrom =>
    intro a st h
    refine ⟨_, List.mem_singleton.2 rfl, rfl, ?_⟩
    exact ⟨fun hs => h.1 hs, fun hc => by simp at hc⟩
  | yield =>
    intro a st h
    cases hb : (E.body st.cur).1 with
    | normal =>
      refine ⟨(.normal, { saved := a.saved, clean := false }), by simp [absRun], ?_, ?_⟩
      · simp [run, hb]
      · exact ⟨fun hs => h.1 hs, fun hc => by simp at hc⟩
    | raised =>
      refine ⟨(.raised, { saved := a.saved, clean := false }), by simp [absRun], ?_, ?_⟩
      · simp [run, hb]
      · exact ⟨fun hs => h.1 hs, fun hc => by simp at hc⟩
  | restoreAll =>
    intro a st h
    refine ⟨_, List.mem_singleton.2 rfl, rfl, ?_⟩
    exact ⟨fun hs => h.1 hs, fun hc => restore_clean (h.1 hc) st.cur⟩
  | seq x y ihx ihy =>
    intro a st h
    obtain ⟨r, hr, ho, hc⟩ := ihx a st h
    cases hx : run E x st with
    | mk o st' =>
      rw [hx] at ho hc
      cases o with
      | normal =>
        obtain ⟨r2, hr2, ho2, hc2⟩ := ihy r.2 st' hc
        refine ⟨r2, ?_, ?_, ?_⟩
        · simp only [absRun, List.mem_flatMap]
          exact ⟨r, hr, by rw [ho]; exact hr2⟩
        · simp only [run, hx]; exact ho2
        · simp only [run, hx]; exact hc2
      | raised =>
        refine ⟨(.raised, r.2), ?_, ?_, ?_⟩
        · simp only [absRun, List.mem_flatMap]
          exact ⟨r, hr, by rw [ho]; exact List.mem_singleton.2 rfl⟩
        · simp only [run, hx]
        · simp only [run, hx]; exact hc
  | tryFinally x f ihx ihf =>
    intro a st h
    obtain ⟨r, hr, ho, hc⟩ := ihx a st h
    cases hx : run E x st with
    | mk o st' =>
      rw [hx] at ho hc
      obtain ⟨r2, hr2, ho2, hc2⟩ := ihf r.2 st' hc
      cases hf : run E f st' with
      | mk o2 st'' =>
        rw [hf] at ho2 hc2
        refine ⟨(match r2.1 with | .normal => (r.1, r2.2) | .raised => (.raised, r2.2)), ?_, ?_, ?_⟩
        · simp only [absRun, List.mem_flatMap, List.mem_map]
          exact ⟨r, hr, r2, hr2, rfl⟩
        · simp only [run, hx, hf]
          cases o2 <;> simp [ho2, ho]
        · simp only [run, hx, hf]
          cases o2 <;> simp [ho2] <;> exact hc2
  | unknown w =>
    intro a st h
    cases hb : (E.havoc st).1 with
    | normal =>
      refine ⟨(.normal, { saved := false, clean := false }), by simp [absRun], ?_, ?_⟩
      · simp [run, hb]
      · exact ⟨fun hs => by simp at hs, fun hc => by simp at hc⟩
    | raised =>
      refine ⟨(.raised, { saved := false, clean := false }), by simp [absRun], ?_, ?_⟩
      · simp [run, hb]
      · exact ⟨fun hs => by simp at hs, fun hc => by simp at hc⟩

/-- **Soundness of the decision procedure.** -/
theorem restoresB_sound (settings : List String) (prog : Stmt)
    (h : restoresB settings prog = true) : RestoresOnEveryExit settings prog := by
  intro V E s k hk
  have h0 : Conc settings s { saved := false, clean := true } ({ cur := s, before := [] } : St V) :=
    ⟨fun hs => by simp at hs, fun _ _ _ => rfl⟩
  obtain ⟨r, hr, _, hc⟩ := absRun_sound settings E s prog _ _ h0
  have : r.2.clean = true := (List.all_eq_true.1 h) r hr
  exact hc.2 this k hk

/-! ## Nesting -/

/-- A block *keeps* the settings if it ends (either way) with every setting at its entry value. -/
def Block.Keeps (settings : List String) (prog : Stmt) (havoc : St V → Outcome × St V)
    (b : Block V) : Prop :=
  ∀ s : Store V, ∀ k ∈ settings, (b.exec prog havoc s).2 k = s k

/-- A `with state(...)` block keeps the settings whatever is inside it (further `with` blocks
    to any depth, explicit assignments, raises at any point). -/
theorem withState_keeps {settings : List String} {prog : Stmt}
    (h : RestoresOnEveryExit settings prog) (havoc : St V → Outcome × St V)
    (kw : List (String × V)) (inner : Block V) :
    Block.Keeps settings prog havoc (.withState kw inner) := by
  intro s k hk
  exact h V { kwargs := kw, body := inner.exec prog havoc, havoc := havoc } s k hk

/-- Code all of whose leaves keep the settings: leaves are only required to keep them, `with`
    blocks may contain *anything*. -/
inductive Block.LeavesKeep (settings : List String) : Block V → Prop where
  | leaf (f : Store V → Outcome × Store V) (hf : ∀ s, ∀ k ∈ settings, (f s).2 k = s k) :
      Block.LeavesKeep settings (.leaf f)
  | seq {a b : Block V} (ha : Block.LeavesKeep settings a) (hb : Block.LeavesKeep settings b) :
      Block.LeavesKeep settings (.seq a b)
  | withState (kw : List (String × V)) (inner : Block V) :
      Block.LeavesKeep settings (.withState kw inner)

/-- Induction over the nesting structure: code built from setting-preserving calls and
    `with state(...)` blocks (of any content and depth) leaves every setting unchanged, on normal
    and on exceptional exit. -/
theorem nested_keeps {settings : List String} {prog : Stmt}
    (h : RestoresOnEveryExit settings prog) (havoc : St V → Outcome × St V)
    (b : Block V) (hb : Block.LeavesKeep settings b) : Block.Keeps settings prog havoc b := by
  induction hb with
  | leaf f hf => intro s k hk; exact hf s k hk
  | @seq a b _ _ iha ihb =>
    intro s k hk
    cases hx : a.exec prog havoc s with
    | mk o s' =>
      have ha := iha s k hk
      rw [hx] at ha
      cases o with
      | normal =>
        have : (Block.exec prog havoc (.seq a b) s) = b.exec prog havoc s' := by
          simp [Block.exec, hx]
        rw [this, ihb s' k hk]; exact ha
      | raised =>
        have : (Block.exec prog havoc (.seq a b) s) = (.raised, s') := by
          simp [Block.exec, hx]
        rw [this]; exact ha
  | withState kw inner => exact withState_keeps h havoc kw inner

/-- The fixed shape: `before = …; set kwargs; try: yield finally: restore`. -/
def fixedProg (keys : List String) : Stmt :=
  .seq (.saveAll keys) (.seq .setFrom (.tryFinally .yield .restoreAll))

/-- The shape without `try/finally`. -/
def unprotectedProg (keys : List String) : Stmt :=
  .seq (.saveAll keys) (.seq .setFrom (.seq .yield .restoreAll))

/-- Without `try/finally` a raising block leaves the keyword settings in place. -/
theorem unprotected_fails (keys : List String) (k : String) (settings : List String)
    (hk : k ∈ settings) : ¬ RestoresOnEveryExit settings (unprotectedProg keys) := by
  intro h
  have := h Bool { kwargs := [(k, true)], body := fun s => (.raised, s), havoc := fun st => (.normal, st) }
    (fun _ => false) k hk
  simp [unprotectedProg, run, applyKw, Store.set] at this

end Splipy.StateLang
