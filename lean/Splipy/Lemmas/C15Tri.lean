import Splipy.Lemmas.C15Coons
import Splipy.Model.Sections

/-!
# Six-face `edge_surfaces` at control-net level

`triNet`   : the net formula for faces that already share their bases (blending abscissae `ξ,η,ζ`);
`c15_triNet_layers`  : the six boundary layers of `triNet` are the six input nets (compatible nets);
`c15_triNet_eval`    : the tensor-product spline with net `triNet` is the trilinear transfinite blend
             of the face / edge splines and corner points (partition of unity + linear precision).
-/

set_option linter.unusedSectionVars false
set_option linter.unusedSimpArgs false
set_option linter.unusedVariables false

namespace Splipy

open Finset

variable {K : Type} [Field K]

/-- Net of the six-face volume: faces, minus edges, plus corners, linearly blended with `ξ, η, ζ`.
    `f a (j,k)`, `g b (i,k)`, `h c (i,j)`; `w`-edges and corners from `f`, `u`-edges from `g`,
    `v`-edges from `h` (as `edge_surfaces` takes them). -/
def triNet (ξ η ζ : ℕ → K) (nu nv nw : ℕ) (f0 f1 g0 g1 h0 h1 : ℕ → ℕ → K) (i j k : ℕ) : K :=
  ((1 - ξ i) * f0 j k + ξ i * f1 j k) + ((1 - η j) * g0 i k + η j * g1 i k)
  + ((1 - ζ k) * h0 i j + ζ k * h1 i j)
  + ((1 - ξ i) * (1 - η j) * (1 - ζ k) * f0 0 0 + (1 - ξ i) * (1 - η j) * ζ k * f0 0 (nw-1)
      + (1 - ξ i) * η j * (1 - ζ k) * f0 (nv-1) 0 + (1 - ξ i) * η j * ζ k * f0 (nv-1) (nw-1)
      + ξ i * (1 - η j) * (1 - ζ k) * f1 0 0 + ξ i * (1 - η j) * ζ k * f1 0 (nw-1)
      + ξ i * η j * (1 - ζ k) * f1 (nv-1) 0 + ξ i * η j * ζ k * f1 (nv-1) (nw-1))
  - ((1 - ξ i) * (1 - η j) * f0 0 k + (1 - ξ i) * η j * f0 (nv-1) k
      + ξ i * (1 - η j) * f1 0 k + ξ i * η j * f1 (nv-1) k)
  - ((1 - η j) * (1 - ζ k) * g0 i 0 + (1 - η j) * ζ k * g0 i (nw-1)
      + η j * (1 - ζ k) * g1 i 0 + η j * ζ k * g1 i (nw-1))
  - ((1 - ξ i) * (1 - ζ k) * h0 0 j + (1 - ξ i) * ζ k * h1 0 j
      + ξ i * (1 - ζ k) * h0 (nu-1) j + ξ i * ζ k * h1 (nu-1) j)

/-- Edge compatibility of six face nets: the twelve shared boundary rows agree **on the index range of
    the nets** (`f a` is `nv × nw`, `g b` is `nu × nw`, `h c` is `nu × nv`). -/
structure NetsCompatible (nu nv nw : ℕ) (f0 f1 g0 g1 h0 h1 : ℕ → ℕ → K) : Prop where
  fg00 : ∀ k, k < nw → g0 0 k = f0 0 k
  fg01 : ∀ k, k < nw → g1 0 k = f0 (nv-1) k
  fg10 : ∀ k, k < nw → g0 (nu-1) k = f1 0 k
  fg11 : ∀ k, k < nw → g1 (nu-1) k = f1 (nv-1) k
  fh00 : ∀ j, j < nv → h0 0 j = f0 j 0
  fh01 : ∀ j, j < nv → h1 0 j = f0 j (nw-1)
  fh10 : ∀ j, j < nv → h0 (nu-1) j = f1 j 0
  fh11 : ∀ j, j < nv → h1 (nu-1) j = f1 j (nw-1)
  gh00 : ∀ i, i < nu → h0 i 0 = g0 i 0
  gh01 : ∀ i, i < nu → h1 i 0 = g0 i (nw-1)
  gh10 : ∀ i, i < nu → h0 i (nv-1) = g1 i 0
  gh11 : ∀ i, i < nu → h1 i (nv-1) = g1 i (nw-1)

section layers

variable (ξ η ζ : ℕ → K) (nu nv nw : ℕ) {f0 f1 g0 g1 h0 h1 : ℕ → ℕ → K}
  (hc : NetsCompatible nu nv nw f0 f1 g0 g1 h0 h1) (hu : 1 ≤ nu) (hv : 1 ≤ nv) (hw : 1 ≤ nw)

include hc hu hv hw

theorem c15_triNet_i0 (hξ : ξ 0 = 0) (j k : ℕ) (hj : j < nv) (hk : k < nw) :
    triNet ξ η ζ nu nv nw f0 f1 g0 g1 h0 h1 0 j k = f0 j k := by
  simp only [triNet, hξ, hc.fg00 k hk, hc.fg01 k hk, hc.fg00 0 (by omega), hc.fg01 0 (by omega),
    hc.fg00 (nw-1) (by omega), hc.fg01 (nw-1) (by omega)]
  ring

theorem c15_triNet_ilast (hξ : ξ (nu-1) = 1) (j k : ℕ) (hj : j < nv) (hk : k < nw) :
    triNet ξ η ζ nu nv nw f0 f1 g0 g1 h0 h1 (nu-1) j k = f1 j k := by
  simp only [triNet, hξ, hc.fg10 k hk, hc.fg11 k hk, hc.fg10 0 (by omega), hc.fg11 0 (by omega),
    hc.fg10 (nw-1) (by omega), hc.fg11 (nw-1) (by omega)]
  ring

theorem c15_triNet_j0 (hη : η 0 = 0) (i k : ℕ) (hi : i < nu) (hk : k < nw) :
    triNet ξ η ζ nu nv nw f0 f1 g0 g1 h0 h1 i 0 k = g0 i k := by
  simp only [triNet, hη, hc.gh00 i hi, hc.gh01 i hi, hc.gh00 0 (by omega), hc.gh01 0 (by omega),
    hc.gh00 (nu-1) (by omega), hc.gh01 (nu-1) (by omega), ← hc.fg00 k hk, ← hc.fg10 k hk,
    ← hc.fg00 0 (by omega), ← hc.fg10 0 (by omega), ← hc.fg00 (nw-1) (by omega), ← hc.fg10 (nw-1) (by omega)]
  ring

theorem c15_triNet_jlast (hη : η (nv-1) = 1) (i k : ℕ) (hi : i < nu) (hk : k < nw) :
    triNet ξ η ζ nu nv nw f0 f1 g0 g1 h0 h1 i (nv-1) k = g1 i k := by
  simp only [triNet, hη, hc.gh10 i hi, hc.gh11 i hi, hc.gh10 0 (by omega), hc.gh11 0 (by omega),
    hc.gh10 (nu-1) (by omega), hc.gh11 (nu-1) (by omega), ← hc.fg01 k hk, ← hc.fg11 k hk,
    ← hc.fg01 0 (by omega), ← hc.fg11 0 (by omega), ← hc.fg01 (nw-1) (by omega), ← hc.fg11 (nw-1) (by omega)]
  ring

theorem c15_triNet_k0 (hζ : ζ 0 = 0) (i j : ℕ) (hi : i < nu) (hj : j < nv) :
    triNet ξ η ζ nu nv nw f0 f1 g0 g1 h0 h1 i j 0 = h0 i j := by
  simp only [triNet, hζ, ← hc.gh00 i hi, ← hc.gh10 i hi, ← hc.fh00 j hj, ← hc.fh10 j hj,
    ← hc.fh00 0 (by omega), ← hc.fh10 0 (by omega), ← hc.fh00 (nv-1) (by omega), ← hc.fh10 (nv-1) (by omega)]
  ring

theorem c15_triNet_klast (hζ : ζ (nw-1) = 1) (i j : ℕ) (hi : i < nu) (hj : j < nv) :
    triNet ξ η ζ nu nv nw f0 f1 g0 g1 h0 h1 i j (nw-1) = h1 i j := by
  simp only [triNet, hζ, ← hc.gh01 i hi, ← hc.gh11 i hi, ← hc.fh01 j hj, ← hc.fh11 j hj,
    ← hc.fh01 0 (by omega), ← hc.fh11 0 (by omega), ← hc.fh01 (nv-1) (by omega), ← hc.fh11 (nv-1) (by omega)]
  ring

end layers

/-! ## Evaluation -/

section eval

variable [LinearOrder K]

theorem sv_sub (s : Side) (τ : ℕ → K) (q n : ℕ) (c d : ℕ → K) (t : K) :
    splineVal s τ q n (fun i => c i - d i) t = splineVal s τ q n c t - splineVal s τ q n d t := by
  unfold splineVal
  rw [← Finset.sum_sub_distrib]
  exact Finset.sum_congr rfl (fun i _ => by ring)

theorem sv_add (s : Side) (τ : ℕ → K) (q n : ℕ) (c d : ℕ → K) (t : K) :
    splineVal s τ q n (fun i => c i + d i) t = splineVal s τ q n c t + splineVal s τ q n d t := by
  unfold splineVal
  rw [← Finset.sum_add_distrib]
  exact Finset.sum_congr rfl (fun i _ => by ring)

theorem sv_smul (s : Side) (τ : ℕ → K) (q n : ℕ) (a : K) (c : ℕ → K) (t : K) :
    splineVal s τ q n (fun i => a * c i) t = a * splineVal s τ q n c t := by
  unfold splineVal
  rw [Finset.mul_sum]
  exact Finset.sum_congr rfl (fun i _ => by ring)

theorem sv_smul_right (s : Side) (τ : ℕ → K) (q n : ℕ) (a : K) (c : ℕ → K) (t : K) :
    splineVal s τ q n (fun i => c i * a) t = splineVal s τ q n c t * a := by
  unfold splineVal
  rw [Finset.sum_mul]
  exact Finset.sum_congr rfl (fun i _ => by ring)

theorem sv_const (s : Side) (τ : ℕ → K) (q n : ℕ) (a : K) (t : K)
    (h : ∑ i ∈ range n, B s τ q i t = 1) : splineVal s τ q n (fun _ => a) t = a := by
  unfold splineVal
  rw [← Finset.mul_sum, h, mul_one]

/-- The tensor-product spline whose net is `triNet` is the trilinear transfinite blend: faces
    `F_a, G_b, H_c` (bivariate splines of the face nets), `w`-edges from `f`, `u`-edges from `g`,
    `v`-edges from `h` (univariate splines of boundary rows), corners from `f`.  Only partition of
    unity and linear precision of the three bases at the evaluation point are used
    (`hX1 … hZw`). -/
theorem c15_triNet_eval (s1 s2 s3 : Side) (τ1 τ2 τ3 : ℕ → K) (q1 q2 q3 nu nv nw : ℕ)
    (ξ η ζ : ℕ → K) (u v w : K)
    (hX1 : ∑ i ∈ range nu, B s1 τ1 q1 i u = 1) (hXu : splineVal s1 τ1 q1 nu ξ u = u)
    (hY1 : ∑ j ∈ range nv, B s2 τ2 q2 j v = 1) (hYv : splineVal s2 τ2 q2 nv η v = v)
    (hZ1 : ∑ k ∈ range nw, B s3 τ3 q3 k w = 1) (hZw : splineVal s3 τ3 q3 nw ζ w = w)
    (f0 f1 g0 g1 h0 h1 : ℕ → ℕ → K) :
    splineVal s1 τ1 q1 nu (fun i => splineVal s2 τ2 q2 nv (fun j => splineVal s3 τ3 q3 nw
        (fun k => triNet ξ η ζ nu nv nw f0 f1 g0 g1 h0 h1 i j k) w) v) u
      = ((1 - u) * splineVal s2 τ2 q2 nv (fun j => splineVal s3 τ3 q3 nw (fun k => f0 j k) w) v
          + u * splineVal s2 τ2 q2 nv (fun j => splineVal s3 τ3 q3 nw (fun k => f1 j k) w) v)
        + ((1 - v) * splineVal s1 τ1 q1 nu (fun i => splineVal s3 τ3 q3 nw (fun k => g0 i k) w) u
          + v * splineVal s1 τ1 q1 nu (fun i => splineVal s3 τ3 q3 nw (fun k => g1 i k) w) u)
        + ((1 - w) * splineVal s1 τ1 q1 nu (fun i => splineVal s2 τ2 q2 nv (fun j => h0 i j) v) u
          + w * splineVal s1 τ1 q1 nu (fun i => splineVal s2 τ2 q2 nv (fun j => h1 i j) v) u)
        + ((1 - u) * (1 - v) * (1 - w) * f0 0 0 + (1 - u) * (1 - v) * w * f0 0 (nw-1)
            + (1 - u) * v * (1 - w) * f0 (nv-1) 0 + (1 - u) * v * w * f0 (nv-1) (nw-1)
            + u * (1 - v) * (1 - w) * f1 0 0 + u * (1 - v) * w * f1 0 (nw-1)
            + u * v * (1 - w) * f1 (nv-1) 0 + u * v * w * f1 (nv-1) (nw-1))
        - ((1 - u) * (1 - v) * splineVal s3 τ3 q3 nw (fun k => f0 0 k) w
            + (1 - u) * v * splineVal s3 τ3 q3 nw (fun k => f0 (nv-1) k) w
            + u * (1 - v) * splineVal s3 τ3 q3 nw (fun k => f1 0 k) w
            + u * v * splineVal s3 τ3 q3 nw (fun k => f1 (nv-1) k) w)
        - ((1 - v) * (1 - w) * splineVal s1 τ1 q1 nu (fun i => g0 i 0) u
            + (1 - v) * w * splineVal s1 τ1 q1 nu (fun i => g0 i (nw-1)) u
            + v * (1 - w) * splineVal s1 τ1 q1 nu (fun i => g1 i 0) u
            + v * w * splineVal s1 τ1 q1 nu (fun i => g1 i (nw-1)) u)
        - ((1 - u) * (1 - w) * splineVal s2 τ2 q2 nv (fun j => h0 0 j) v
            + (1 - u) * w * splineVal s2 τ2 q2 nv (fun j => h1 0 j) v
            + u * (1 - w) * splineVal s2 τ2 q2 nv (fun j => h0 (nu-1) j) v
            + u * w * splineVal s2 τ2 q2 nv (fun j => h1 (nu-1) j) v) := by
  simp only [triNet, sv_add, sv_sub, sv_smul, sv_smul_right,
    sv_const s3 τ3 q3 nw _ w hZ1, sv_const s2 τ2 q2 nv _ v hY1, sv_const s1 τ1 q1 nu _ u hX1,
    hXu, hYv, hZw]

end eval

end Splipy
