import Splipy.Lemmas.C07Split

/-!
# Lemmas for property C07: `Curve.append` of two clamped curves of equal order (`q ≥ 1`)

`appendKnots` / `appendCoef` are the merged knot vector and control points of `Curve.append`
(`new_knot = old[:-1] ++ (add - add[0] + old[-1])[p:]`, `cps = cps1 ++ cps2[1:]`) as sequences.
-/

namespace Splipy

set_option linter.unusedSectionVars false
set_option linter.unusedVariables false

variable {K : Type} [Field K] [LinearOrder K] [IsStrictOrderedRing K]

/-- Merged knots: `τ1[0 .. n1+q-1]` (all but the last knot of the first curve: `n1+q+1` knots),
then the knots `q+1, q+2, …` of the second curve shifted by `δ = τ1[-1] - τ2[0]`. -/
def appendKnots (τ1 τ2 : ℕ → K) (q n1 : ℕ) : ℕ → K :=
  fun j => if j < n1 + q then τ1 j else τ2 (j + 1 - n1) - τ2 0 + τ1 (n1 + q)

/-- Merged control points: all of the first curve, then the second without its first point. -/
def appendCoef (c1 c2 : ℕ → K) (n1 : ℕ) : ℕ → K :=
  fun i => if i < n1 then c1 i else c2 (i + 1 - n1)

section
variable (τ1 τ2 : ℕ → K) (h1 : Monotone τ1) (h2 : Monotone τ2) (q n1 : ℕ) (hq : 1 ≤ q) (hn1 : 1 ≤ n1)
  (hc1 : τ1 n1 = τ1 (n1 + q))   -- first curve clamped at its end
  (hc2 : τ2 0 = τ2 q)           -- second curve clamped at its start
include h1 h2 hq hn1 hc1 hc2

theorem appendKnots_of_ge (j : ℕ) (hj : n1 ≤ j) :
    appendKnots τ1 τ2 q n1 j = τ2 (j + 1 - n1) - τ2 0 + τ1 (n1 + q) := by
  unfold appendKnots
  split_ifs with h
  · have e1 : τ1 j = τ1 (n1 + q) :=
      le_antisymm (h1 (by omega)) (by rw [← hc1]; exact h1 hj)
    have e2 : τ2 (j + 1 - n1) = τ2 0 :=
      le_antisymm (by rw [hc2]; exact h2 (by omega)) (h2 (by omega))
    rw [e1, e2]; ring
  · rfl

theorem appendKnots_of_lt (j : ℕ) (hj : j < n1 + q) : appendKnots τ1 τ2 q n1 j = τ1 j := by
  unfold appendKnots; rw [if_pos hj]

theorem appendKnots_mono : Monotone (appendKnots τ1 τ2 q n1) := by
  apply monotone_nat_of_le_succ
  intro j
  rcases Nat.lt_or_ge (j+1) (n1 + q) with h | h
  · rw [appendKnots_of_lt τ1 τ2 h1 h2 q n1 hq hn1 hc1 hc2 j (by omega),
      appendKnots_of_lt τ1 τ2 h1 h2 q n1 hq hn1 hc1 hc2 (j+1) h]
    exact h1 (Nat.le_succ j)
  · rcases Nat.lt_or_ge j n1 with h' | h'
    · omega
    · rw [appendKnots_of_ge τ1 τ2 h1 h2 q n1 hq hn1 hc1 hc2 j h',
        appendKnots_of_ge τ1 τ2 h1 h2 q n1 hq hn1 hc1 hc2 (j+1) (by omega)]
      have := h2 (show j + 1 - n1 ≤ j + 1 + 1 - n1 by omega)
      linarith

/-- Before the joint the appended curve is the first curve. -/
theorem splineVal_append_left (n2 : ℕ) (hn2 : 1 ≤ n2) (c1 c2 : ℕ → K) (s : Side) (t : K)
    (ht : s.before t (τ1 n1)) :
    splineVal s (appendKnots τ1 τ2 q n1) q (n1 + n2 - 1) (appendCoef c1 c2 n1) t
      = splineVal s τ1 q n1 c1 t := by
  have hσ := appendKnots_mono τ1 τ2 h1 h2 q n1 hq hn1 hc1 hc2
  have hσn1 : appendKnots τ1 τ2 q n1 n1 = τ1 n1 :=
    appendKnots_of_lt τ1 τ2 h1 h2 q n1 hq hn1 hc1 hc2 n1 (by omega)
  unfold splineVal
  rw [sum_range_window (fun i => appendCoef c1 c2 n1 i * B s (appendKnots τ1 τ2 q n1) q i t)
    (n1 + n2 - 1) 0 n1 (Nat.zero_le _) (by omega) (fun i h => absurd h (Nat.not_lt_zero i))
    (fun i h _ => by
      show appendCoef c1 c2 n1 i * B s (appendKnots τ1 τ2 q n1) q i t = 0
      rw [B_eq_zero_of_before s _ hσ q i t, mul_zero]
      cases s
      · exact lt_of_lt_of_le ht (by rw [← hσn1]; exact hσ h)
      · exact le_trans ht (by rw [← hσn1]; exact hσ h))]
  rw [Nat.sub_zero]
  apply Finset.sum_congr rfl
  intro i hi
  rw [Finset.mem_range] at hi
  show appendCoef c1 c2 n1 (0 + i) * B s (appendKnots τ1 τ2 q n1) q (0 + i) t = c1 i * B s τ1 q i t
  rw [Nat.zero_add]
  have ec : appendCoef c1 c2 n1 i = c1 i := by unfold appendCoef; rw [if_pos hi]
  rw [ec]
  congr 1
  rcases Nat.lt_or_ge (i + 1) n1 with h | h
  · apply B_congr_knots
    intro j hj
    exact appendKnots_of_lt τ1 τ2 h1 h2 q n1 hq hn1 hc1 hc2 (i + j) (by omega)
  · have hi1 : i + 1 = n1 := by omega
    apply B_congr_knots_of_before s _ _ hσ h1
    · intro j hj
      exact appendKnots_of_lt τ1 τ2 h1 h2 q n1 hq hn1 hc1 hc2 (i + j) (by omega)
    · rw [hi1, hσn1]; exact ht
    · rw [hi1]; exact ht

/-- From the joint on the appended curve is the second curve, re-parametrised by the shift
`δ = τ1[-1] - τ2[0]`. -/
theorem splineVal_append_right (n2 : ℕ) (hn2 : 1 ≤ n2) (c1 c2 : ℕ → K)
    (hc : c1 (n1 - 1) = c2 0) (s : Side) (t : K) (ht : s.after (τ1 (n1 + q)) t) :
    splineVal s (appendKnots τ1 τ2 q n1) q (n1 + n2 - 1) (appendCoef c1 c2 n1) t
      = splineVal s τ2 q n2 c2 (t - (τ1 (n1 + q) - τ2 0)) := by
  have hσ := appendKnots_mono τ1 τ2 h1 h2 q n1 hq hn1 hc1 hc2
  set δ : K := τ1 (n1 + q) - τ2 0 with hδ
  have hge : ∀ j, n1 ≤ j → appendKnots τ1 τ2 q n1 j = τ2 (j + 1 - n1) + δ := by
    intro j hj
    rw [appendKnots_of_ge τ1 τ2 h1 h2 q n1 hq hn1 hc1 hc2 j hj, hδ]; ring
  have hshift : Monotone (fun k => 1 * τ2 k + δ) := by
    intro a b hab
    have := h2 hab
    show 1 * τ2 a + δ ≤ 1 * τ2 b + δ
    linarith
  have haff : ∀ j, B s (fun k => 1 * τ2 k + δ) q j t = B s τ2 q j (t - δ) := by
    intro j
    have := B_affine s τ2 q j (t - δ) 1 δ one_pos
    rw [show (1 : K) * (t - δ) + δ = t by ring] at this
    exact this
  have he : appendKnots τ1 τ2 q n1 (n1 - 1 + q) = τ1 (n1 + q) := by
    rw [appendKnots_of_lt τ1 τ2 h1 h2 q n1 hq hn1 hc1 hc2 (n1 - 1 + q) (by omega)]
    exact le_antisymm (h1 (by omega)) (by rw [← hc1]; exact h1 (by omega))
  unfold splineVal
  rw [sum_range_window (fun i => appendCoef c1 c2 n1 i * B s (appendKnots τ1 τ2 q n1) q i t)
    (n1 + n2 - 1) (n1 - 1) (n1 + n2 - 1) (by omega) (le_refl _)
    (fun i h => by
      show appendCoef c1 c2 n1 i * B s (appendKnots τ1 τ2 q n1) q i t = 0
      rw [B_eq_zero_of_after s _ hσ q i t, mul_zero]
      have hle : appendKnots τ1 τ2 q n1 (i + q + 1) ≤ τ1 (n1 + q) := by
        rw [← he]; exact hσ (by omega)
      cases s
      · exact le_trans hle ht
      · exact lt_of_le_of_lt hle ht)
    (fun i h h' => absurd h' (by omega))]
  rw [show n1 + n2 - 1 - (n1 - 1) = n2 by omega]
  apply Finset.sum_congr rfl
  intro j hj
  rw [Finset.mem_range] at hj
  show appendCoef c1 c2 n1 (n1 - 1 + j) * B s (appendKnots τ1 τ2 q n1) q (n1 - 1 + j) t
    = c2 j * B s τ2 q j (t - δ)
  have ec : appendCoef c1 c2 n1 (n1 - 1 + j) = c2 j := by
    unfold appendCoef
    rcases Nat.eq_zero_or_pos j with h0 | h0
    · subst h0
      rw [if_pos (by omega), Nat.add_zero, hc]
    · rw [if_neg (by omega)]
      congr 1; omega
  rw [ec, ← haff j]
  congr 1
  rcases Nat.eq_zero_or_pos j with h0 | h0
  · subst h0
    rw [Nat.add_zero]
    apply B_congr_knots_of_after s _ _ hσ hshift
    · intro k hk1 hk2
      rw [hge (n1 - 1 + k) (by omega)]
      show τ2 (n1 - 1 + k + 1 - n1) + δ = 1 * τ2 (0 + k) + δ
      rw [one_mul]; congr 2; omega
    · rw [he]; exact ht
    · show s.after (1 * τ2 (0 + q) + δ) t
      rw [one_mul, Nat.zero_add, ← hc2, hδ]
      rw [show τ2 0 + (τ1 (n1 + q) - τ2 0) = τ1 (n1 + q) by ring]
      exact ht
  · apply B_congr_knots
    intro k hk
    rw [hge (n1 - 1 + j + k) (by omega)]
    show τ2 (n1 - 1 + j + k + 1 - n1) + δ = 1 * τ2 (j + k) + δ
    rw [one_mul]; congr 2; omega

end

end Splipy
