import Splipy.Lemmas.SchoenbergWhitney
set_option linter.unusedSectionVars false

/-!
# C14: Schoenberg–Whitney for a clamped knot vector with each end pinned OR open

`Lemmas/SchoenbergWhitney.lean` treats collocation points whose first/last point IS the domain
start/end (`NestedPts`).  Here each end may instead lie strictly inside the support of the first/last
B-spline (`τ 0 < x 0 < τ (q+1)`, resp. `τ (n−1) < x (n−1) < τ n`), which is what shifted user
parameters do.  Same proof: pinned rows are unit rows, the remaining block has positive determinant
(`colloc_det_nonneg_pos`).
-/

namespace Splipy
open Finset

variable {K : Type} [Field K] [LinearOrder K] [IsStrictOrderedRing K]

/-- Collocation points for the `n` B-splines of a clamped knot vector, first end pinned (`p0`) or
open, last end pinned (`p1`) or open. -/
structure GenNested (τ : ℕ → K) (q n : ℕ) (x : ℕ → K) (p0 p1 : Bool) : Prop where
  first : if p0 then x 0 = τ q else (τ 0 < x 0 ∧ x 0 < τ (q+1))
  last : if p1 then x (n-1) = τ n else (τ (n-1) < x (n-1) ∧ x (n-1) < τ n)
  lt_succ : ∀ l, l + 1 < n → x l < x (l+1)
  nest : ∀ l, 1 ≤ l → l + 1 < n → τ l < x l ∧ x l < τ (l+q+1)

theorem GenNested.strict {τ : ℕ → K} {q n : ℕ} {x : ℕ → K} {p0 p1 : Bool} (hx : GenNested τ q n x p0 p1)
    (i d : ℕ) (h : i + d + 1 < n) : x i < x (i+d+1) := by
  induction d with
  | zero => exact hx.lt_succ i h
  | succ d ih => exact lt_trans (ih (by omega)) (hx.lt_succ (i+d+1) (by omega))

/-- The side used in row `l`: the left limit only in a pinned last row. -/
def genSide (n : ℕ) (p1 : Bool) (l : ℕ) : Side := if p1 = true ∧ l + 1 = n then .left else .right

section main
variable (τ : ℕ → K) (hτ : Monotone τ) (q n : ℕ) (hq : 1 ≤ q) (hn : q + 1 ≤ n)
  (hc0 : τ 0 = τ q) (hc1 : τ n = τ (n+q)) (hmult : ∀ i, 1 ≤ i → i < n → τ i < τ (i+q))

include hτ hq hn hc0 hc1 hmult

/-- Block step: rows `s ≤ l < n − e` with open nesting and vanishing outer coefficients. -/
theorem block_injective_c14 (x : ℕ → K) (s e : ℕ) (hse : s + e ≤ n)
    (hmono : ∀ i d, i + d + 1 < n → x i < x (i+d+1))
    (hnest : ∀ l, s ≤ l → l + e < n → τ l < x l ∧ x l < τ (l+q+1))
    (c : ℕ → K) (hc_lo : ∀ j, j < s → c j = 0) (hc_hi : ∀ j, n - e ≤ j → j < n → c j = 0)
    (h : ∀ l, s ≤ l → l + e < n → ∑ j ∈ range n, c j * B .right τ q j (x l) = 0) :
    ∀ j, s ≤ j → j + e < n → c j = 0 := by
  obtain ⟨m, hm⟩ : ∃ m, n = s + m + e := ⟨n - s - e, by omega⟩
  have hdet : 0 < Matrix.det (colloc τ q (fun a : Fin m => x (a.val + s)) (fun a : Fin m => a.val + s)) := by
    apply (colloc_det_nonneg_pos τ hτ q hq _ ?_ ?_ _ ?_).2 ?_
    · intro a b hab
      have hab' : a.val < b.val := hab
      obtain ⟨d, hd⟩ : ∃ d, b.val + s = a.val + s + d + 1 := ⟨b.val - a.val - 1, by omega⟩
      show x (a.val + s) < x (b.val + s)
      rw [hd]
      exact hmono (a.val + s) d (by have := b.isLt; omega)
    · intro a
      have ha := a.isLt
      obtain ⟨h1, h2⟩ := hnest (a.val + s) (by omega) (by omega)
      have h3 : τ q ≤ x (a.val + s) := le_trans (by rw [← hc0]; exact hτ (Nat.zero_le _)) h1.le
      have h4 : x (a.val + s) < τ n := lt_of_lt_of_le h2 (by rw [hc1]; exact hτ (by omega))
      obtain ⟨μ, hμ1, _, hμ3⟩ := exists_span .right τ hτ q n _ ⟨h3, h4⟩
      exact ⟨μ, hμ1, hμ3.1, hμ3.2⟩
    · intro a b hab
      have hab' : a.val < b.val := hab
      show a.val + s < b.val + s
      omega
    · intro a
      have ha := a.isLt
      exact hnest (a.val + s) (by omega) (by omega)
  have hmv : (colloc τ q (fun a : Fin m => x (a.val + s)) (fun a : Fin m => a.val + s)).mulVec
      (fun b : Fin m => c (b.val + s)) = 0 := by
    funext a
    have ha := a.isLt
    have := h (a.val + s) (by omega) (by omega)
    rw [hm, sum_range_add, sum_range_add] at this
    have e1 : ∑ j ∈ range s, c j * B .right τ q j (x (a.val + s)) = 0 :=
      sum_eq_zero (fun j hj => by rw [hc_lo j (mem_range.mp hj), zero_mul])
    have e2 : ∑ j ∈ range e, c (s + m + j) * B .right τ q (s + m + j) (x (a.val + s)) = 0 :=
      sum_eq_zero (fun j hj => by
        have := mem_range.mp hj
        rw [hc_hi (s + m + j) (by omega) (by omega), zero_mul])
    rw [e1, e2, zero_add, add_zero] at this
    simp only [Matrix.mulVec, dotProduct, colloc, Matrix.of_apply, Pi.zero_apply]
    rw [← this, Fin.sum_univ_eq_sum_range (fun b => B .right τ q (b + s) (x (a.val + s)) * c (b + s)) m]
    apply sum_congr rfl
    intro b _
    rw [Nat.add_comm s b]
    ring
  have hz := Matrix.eq_zero_of_mulVec_eq_zero (ne_of_gt hdet) hmv
  intro j hj1 hj2
  have := congrFun hz ⟨j - s, by omega⟩
  simp only [Pi.zero_apply] at this
  rw [show j - s + s = j by omega] at this
  exact this

/-- **Schoenberg–Whitney, clamped knot vector, ends pinned or open** (injectivity form). -/
theorem gen_colloc_injective_c14 (x : ℕ → K) (p0 p1 : Bool) (hx : GenNested τ q n x p0 p1) (c : ℕ → K)
    (h : ∀ l, l < n → ∑ j ∈ range n, c j * B (genSide n p1 l) τ q j (x l) = 0) :
    ∀ j, j < n → c j = 0 := by
  have hn2 : 2 ≤ n := by omega
  -- pinned first row
  have h0 : p0 = true → c 0 = 0 := by
    intro hp
    have := h 0 (by omega)
    have hs : genSide n p1 0 = .right := by unfold genSide; rw [if_neg (by omega)]
    have hf := hx.first
    rw [hp, if_pos rfl] at hf
    rw [hs, hf] at this
    simp only [greville_row_first τ hτ q n hq hn hc0 hc1 hmult, mul_ite, mul_one, mul_zero,
      sum_ite_eq', mem_range] at this
    rw [if_pos (by omega)] at this
    exact this
  have hl : p1 = true → c (n - 1) = 0 := by
    intro hp
    have := h (n - 1) (by omega)
    have hs : genSide n p1 (n - 1) = .left := by unfold genSide; rw [if_pos ⟨hp, by omega⟩]
    have hf := hx.last
    rw [hp, if_pos rfl] at hf
    rw [hs, hf] at this
    simp only [greville_row_last τ hτ q n hq hn hc0 hc1 hmult, mul_ite, mul_one, mul_zero,
      sum_ite_eq', mem_range] at this
    rw [if_pos (by omega)] at this
    exact this
  set s := if p0 = true then 1 else 0 with hs
  set e := if p1 = true then 1 else 0 with he
  have hs1 : s ≤ 1 := by rw [hs]; split_ifs <;> omega
  have he1 : e ≤ 1 := by rw [he]; split_ifs <;> omega
  have hnest : ∀ l, s ≤ l → l + e < n → τ l < x l ∧ x l < τ (l+q+1) := by
    intro l h1 h2
    by_cases hl0 : l = 0
    · subst hl0
      have hp : p0 = false := by
        cases hp0 : p0
        · rfl
        · rw [hs, hp0] at h1; simp at h1
      have := hx.first
      rw [hp] at this
      simpa using this
    · by_cases hln : l + 1 = n
      · have hp : p1 = false := by
          cases hp1 : p1
          · rfl
          · rw [he, hp1] at h2; simp at h2; omega
        have := hx.last
        rw [hp] at this
        simp only [Bool.false_eq_true, if_false] at this
        have hl' : l = n - 1 := by omega
        rw [hl']
        refine ⟨this.1, lt_of_lt_of_le this.2 ?_⟩
        rw [hc1]; exact hτ (by omega)
      · exact hx.nest l (by omega) (by omega)
  have hblock := block_injective_c14 τ hτ q n hq hn hc0 hc1 hmult x s e (by omega)
    (fun i d hd => hx.strict i d hd) hnest c
    (fun j hj => by
      have : j = 0 := by omega
      subst this
      apply h0
      cases hp0 : p0
      · rw [hs, hp0] at hj; simp at hj
      · rfl)
    (fun j hj1 hj2 => by
      have : j = n - 1 := by omega
      subst this
      apply hl
      cases hp1 : p1
      · rw [he, hp1] at hj1; simp at hj1; omega
      · rfl)
    (fun l h1 h2 => by
      have := h l (by omega)
      have hsd : genSide n p1 l = .right := by
        unfold genSide
        rw [if_neg]
        rintro ⟨hp, hln⟩
        rw [he, hp] at h2; simp at h2; omega
      rw [hsd] at this
      exact this)
  intro j hj
  by_cases hj0 : j < s
  · have : j = 0 := by omega
    subst this
    apply h0
    cases hp0 : p0
    · rw [hs, hp0] at hj0; simp at hj0
    · rfl
  · by_cases hj1 : j + e < n
    · exact hblock j (by omega) hj1
    · have : j = n - 1 := by omega
      subst this
      apply hl
      cases hp1 : p1
      · rw [he, hp1] at hj1; simp at hj1; omega
      · rfl

end main
end Splipy
