import Splipy.Lemmas.C14PerSeam
set_option linter.unusedSectionVars false

/-!
# C14: `cubic_curve(…, PERIODIC)` on uniform parameters succeeds
-/

namespace Splipy
open Finset
namespace Interp
variable {K : Type} [Field K] [LinearOrder K] [IsStrictOrderedRing K] [FloorRing K]

/-- **`cubic_curve(x, PERIODIC, t)` SUCCEEDS for uniform parameters** `t_k = s + k·h` (`k = 0 … M+3`,
`tol ≤ h`): the collocation matrix is the circulant `(1/6, 2/3, 1/6)` (shifted by one column); every
column contains the entry `2/3 > 1/2` and the rows are stochastic, so it is injective. -/
theorem cubicCurve_PERIODIC_uniform_ok (tol rt atl : K) (htol : 0 < tol) (s h : K) (hh : 0 < h) (htolh : tol ≤ h)
    (ts : List K) (M : ℕ) (hlen : ts.length = M + 4) (hu : ∀ k, k < M + 4 → ts.getD k 0 = s + h * (k : K))
    (x : Mat K) (m : ℕ)
    (hxs : (cubicClose bPERIODIC rt atl x).size = M + 4 ∧
      ∀ i, i < M + 4 → ((cubicClose bPERIODIC rt atl x).getD i #[]).size = m)
    (tg : Option (Mat K)) :
    (∀ i j, i < j → j < ts.length → ts.getD i 0 + tol ≤ ts.getD j 0) ∧
    ∃ cp, cubicCurve bPERIODIC tol rt atl x ts tg = .ok (perBasis ts, cp) ∧
      cp.size = M + 3 ∧ ∀ i, i < M + 3 → (cp.getD i #[]).size = m := by
  have h4 : 4 ≤ ts.length := by omega
  have hgap : ∀ i j, i < j → j < ts.length → ts.getD i 0 + tol ≤ ts.getD j 0 := by
    intro i j hij hj
    rw [hlen] at hj
    rw [hu i (by omega), hu j hj]
    have : (i : K) + 1 ≤ (j : K) := by exact_mod_cast hij
    nlinarith
  refine ⟨hgap, ?_⟩
  set b := perBasis ts with hb
  have hv : b.Valid := perBasis_valid ts tol h4 hgap htol
  have hper : (0 : Int) ≤ b.periodic := by rw [hb]; unfold perBasis; simp
  have hτ : Monotone b.kn := hv.kn_mono
  have hnf : b.numFunctions = M + 3 := by rw [hb, perBasis_numFunctions, hlen]; rfl
  have hnAll : b.nAll = M + 6 := by
    unfold Basis.nAll; rw [hb, perBasis_size, hlen]; rfl
  have hstart : b.start = s := by
    rw [hb, perBasis_start ts tol h4 hgap htol, hu 0 (by omega)]; simp
  have hstop : b.stop = s + h * ((M : K) + 3) := by
    rw [hb, perBasis_stop ts tol h4 hgap htol, hlen, hu _ (by omega)]
    rw [show M + 4 - 1 = M + 3 by omega]; push_cast; ring
  -- the knots are uniform
  have hkn : ∀ j, j < M + 10 → b.kn j = (s - 3 * h) + h * (j : K) := by
    intro j hj
    rcases per_idx_cases ts tol h4 hgap htol j (by omega) with h1 | ⟨k, hk, rfl⟩ | ⟨r, hr, rfl⟩
    · rw [hb, perBasis_kn_lo ts h4 j h1, hlen, hu 0 (by omega), hu _ (by omega), hu _ (by omega)]
      rw [show M + 4 - 4 + j = M + j by omega, show M + 4 - 1 = M + 3 by omega]
      push_cast; ring
    · rw [hb, perBasis_kn_mid ts k hk, hu k (by omega)]; push_cast; ring
    · rw [hb, perBasis_kn_hi ts r hr, hlen, hu 0 (by omega), hu _ (by omega), hu _ (by omega)]
      rw [show M + 4 - 1 = M + 3 by omega]
      push_cast; ring
  -- the interpolation parameters
  set t' := ts.dropLast with ht'
  have htl : t'.length = M + 3 := by rw [ht', List.length_dropLast, hlen]; rfl
  have hT : ∀ i, i < M + 3 → t'.getD i 0 = s + h * (i : K) := by
    intro i hi
    rw [← hu i (by omega), ht']
    simp only [List.getD_eq_getElem?_getD]
    rw [List.getElem?_dropLast, if_pos (by rw [hlen]; omega)]
  have hex : ∀ i, i < M + 3 → b.ExactAt tol (t'.getD i 0) := by
    intro i hi
    rw [hT i hi, ← hu i (by omega)]
    exact per_exact ts tol h4 hgap htol i (by omega)
  have hwrap : ∀ i, i < M + 3 → b.wrap (t'.getD i 0) = t'.getD i 0 := by
    intro i hi
    have hi' : (i : K) + 1 ≤ (M : K) + 3 := by exact_mod_cast hi
    have h0 : (0 : K) ≤ (i : K) := Nat.cast_nonneg _
    apply Basis.wrap_of_mem
    · rw [hstart, hT i hi]; nlinarith
    · rw [hstop, hT i hi]; nlinarith
  have hne : bPERIODIC = bPERIODIC := rfl
  set x' := cubicClose bPERIODIC rt atl x with hx'
  have hmk : Basis.mk? 4 (perKnots ts).toArray 2 tol = .ok b := Basis.mk?_of_valid hv tol htol.le
  have hextra : ∀ dim, cubicExtra bPERIODIC b tol t' dim tg = .ok (#[], #[]) := by
    intro dim
    unfold cubicExtra
    simp only [bFREE, bPERIODIC, bTANGENT, bHERMITE, bTANGENTNATURAL, bNATURAL, bind, Except.bind, pure,
      Except.pure]
    simp
  have hsys : cubicSystem bPERIODIC tol rt atl x ts tg = .ok (b, colloc b tol t' 0, x'.pop) := by
    unfold cubicSystem
    simp only [← hx', bind, Except.bind, pure, Except.pure, if_true, cubicKnots_PERIODIC ts h4, hmk, ← ht', hextra,
      Array.append_empty]
    rw [if_neg (by rw [hlen, hxs.1]; simp)]
  set N := colloc b tol t' 0 with hN
  have hshapeN : N.size = M + 3 ∧ ∀ i, i < M + 3 → (N.getD i #[]).size = M + 3 := by
    refine ⟨by rw [hN, size_colloc, htl], fun i hi => ?_⟩
    rw [hN, row_colloc b tol t' 0 i (by omega), size_evaluate_c14, hnf]
  have hshapeR : x'.pop.size = M + 3 ∧ ∀ i, i < M + 3 → (x'.pop.getD i #[]).size = m := by
    refine ⟨by rw [Array.size_pop, hxs.1]; rfl, fun i hi => ?_⟩
    have : x'.pop.getD i #[] = x'.getD i #[] := by
      have h1 : i < x'.size := by rw [hxs.1]; omega
      have h2 : i < x'.size - 1 := by rw [hxs.1]; omega
      simp [Array.getD, h1, h2, Array.getElem_pop]
    rw [this]; exact hxs.2 i (by omega)
  have hget : ∀ i < M + 3, ∀ j, N.get i j = (b.evaluate tol (t'.getD i 0) 0 true).getD j 0 :=
    fun i hi j => get_colloc b tol t' 0 i j (by omega)
  have hinj : ∀ y : ℕ → K, (∀ i < M + 3, ∑ j ∈ range (M + 3), N.get i j * y j = 0) →
      ∀ j < M + 3, y j = 0 := by
    intro y hy
    apply stochastic_coldom_injective_c14 (M + 3) (fun i j => N.get i j) _ _ _ y hy
    · intro i hi j _
      rw [hget i hi j]
      exact C01_nonneg hv htol (hex i hi) (fun _ => by rw [hwrap i hi]; exact hex i hi) true j
    · intro i hi
      rw [sum_congr rfl (fun j _ => hget i hi j)]
      have := C01_partition_of_unity_periodic_any_real hv hper htol (hex i hi)
        (by rw [hwrap i hi]; exact hex i hi) true
      rw [hnf] at this
      exact this
    · intro k hk
      -- the row whose point is the centre of the support of a function wrapping to column `k`
      refine ⟨(k + (M + 2)) % (M + 3), Nat.mod_lt _ (by omega), ?_⟩
      set i := (k + (M + 2)) % (M + 3) with hi
      have hi' : i < M + 3 := Nat.mod_lt _ (by omega)
      have hik : (i + 1) % (M + 3) = k := by
        rw [hi, Nat.add_mod, Nat.mod_mod, ← Nat.add_mod]
        rw [show k + (M + 2) + 1 = k + (M + 3) by omega, Nat.add_mod_right, Nat.mod_eq_of_lt hk]
      show 1 / 2 < N.get i k
      rw [hget i hi' k]
      rw [C01_value_deriv_periodic_any_real hv hper htol (hex i hi')
        (by rw [hwrap i hi']; exact hex i hi') true (by rw [hb]; unfold perBasis; simp) (by rw [hnf]; exact hk)]
      rw [hwrap i hi', hT i hi']
      have hWne : s + h * (i : K) ≠ b.stop := by
        rw [hstop]; intro hc
        have := mul_left_cancel₀ (ne_of_gt hh) (by linarith : h * (i : K) = h * ((M : K) + 3))
        have : (i : K) = ((M + 3 : ℕ) : K) := by push_cast; exact this
        have := Nat.cast_injective this
        omega
      have hpe : periodicEff b (s + h * (i : K)) true = (s + h * (i : K), Side.right) := by
        unfold periodicEff effSide
        simp [hWne]
      rw [hpe]
      simp only
      have hmem : i + 1 ∈ (range b.nAll).filter (fun q => q % b.numFunctions = k) := by
        rw [mem_filter, mem_range, hnAll, hnf]; exact ⟨by omega, hik⟩
      have hval : dB .right b.kn (b.order - 1) (i + 1) 0 (s + h * (i : K)) = 2 / 3 := by
        rw [dB_zero]
        have ho : b.order - 1 = 3 := rfl
        rw [ho]
        have := uniform_cubic_value_c14 b.kn (i + 1) ((s - 3 * h) + h * ((i + 1 : ℕ) : K)) h hh
          (fun j hj => by rw [hkn _ (by omega)]; push_cast; ring)
        rw [← this]
        congr 1
        push_cast; ring
      calc (1 : K) / 2 < 2 / 3 := by norm_num
        _ = dB .right b.kn (b.order - 1) (i + 1) 0 (s + h * (i : K)) := hval.symm
        _ ≤ _ := single_le_sum (f := fun q => dB .right b.kn (b.order - 1) q 0 (s + h * (i : K)))
            (fun q _ => by rw [dB_zero]; exact B_nonneg _ _ hτ _ _ _) hmem
  obtain ⟨L, hL⟩ := left_inverse_of_injective_c14 (M + 3) (fun i j => N.get i j) hinj
  obtain ⟨cp, hcp⟩ := solveC_complete N x'.pop (M + 3) m hshapeN hshapeR L hL
  obtain ⟨sh1, sh2⟩ := solveC_shape (M + 3) m hshapeN hshapeR hcp
  refine ⟨cp, ?_, sh1, sh2⟩
  unfold cubicCurve
  simp only [hsys, bind, Except.bind, pure, Except.pure]
  rw [if_neg (by rw [hshapeN.1, hnf, hshapeR.1]; simp), hcp]

end Interp
end Splipy
