import Splipy.Lemmas.C17Group
import Splipy.Lemmas.C17Reindex

/-! Lemmas for C17: `map_array` of a product, generically in the parametric dimension; the
finite tables for sections (parametric dimension ≤ 3). -/

namespace Splipy.MP

namespace Orientation

theorem toReindex_idx_getD {o : Orientation} {n e : ℕ} (ho : o.WF n) (he : e < n) :
    o.toReindex.idx.getD e .zero =
      (if o.flip.getD (o.perm.idxOf e) false then IdxE.rev (o.perm.idxOf e) else IdxE.var (o.perm.idxOf e)) := by
  simp only [toReindex, ho.pardim]
  have : e < ((List.range n).map fun e =>
      if o.flip.getD (o.perm.idxOf e) false then IdxE.rev (o.perm.idxOf e) else IdxE.var (o.perm.idxOf e)).length := by
    simpa using he
  rw [List.getD_eq_getElem _ _ this]
  simp

theorem toReindex_consistent {o : Orientation} {n : ℕ} (ho : o.WF n) :
    o.toReindex.Consistent n = true := by
  rw [Reindex.consistent_iff]
  refine ⟨by simp [toReindex, ho.pardim], fun e he => ho.isPerm.mem_iff.1 he, fun e he d hd => ?_⟩
  rw [toReindex_idx_getD ho he] at hd
  have hd' : d = o.perm.idxOf e := by
    split at hd <;> simp [IdxE.mentions] at hd <;> exact hd.symm
  subst hd'
  refine ⟨?_, ho.isPerm.getD_idxOf he⟩
  show o.perm.idxOf e < o.perm.length
  rw [ho.isPerm.length]; exact ho.isPerm.idxOf_lt he

/-- the view of a product is the composition of the views, in the documented direction:
    `(a * b).map_array(X) = a.map_array(b.map_array(X))`. -/
theorem toReindex_mul {a b : Orientation} {n : ℕ} (ha : a.WF n) (hb : b.WF n) :
    (a * b).toReindex = a.toReindex.comp b.toReindex := by
  have hab := mul_wf ha hb
  have hax : (a * b).toReindex.axes = (a.toReindex.comp b.toReindex).axes := by
    show (a * b).perm = a.perm.map (fun d => b.perm.getD d 0)
    rw [mul_perm ha]
    conv_rhs => rw [← map_getD_range' a.perm 0 ha.isPerm.length]
    simp [List.map_map, Function.comp]
  have hidx : (a * b).toReindex.idx = (a.toReindex.comp b.toReindex).idx := by
    apply List.ext_getElem
    · simp [toReindex, Reindex.comp, hab.pardim, hb.pardim]
    · intro e h1 h2
      have he : e < n := by simpa [toReindex, hab.pardim] using h1
      have e1 := toReindex_idx_getD hab he
      rw [List.getD_eq_getElem _ _ h1] at e1
      rw [e1]
      have hbl : e < b.toReindex.idx.length := by simpa [toReindex, hb.pardim] using he
      have e2 : (a.toReindex.comp b.toReindex).idx[e] = (b.toReindex.idx.getD e .zero).subst a.toReindex.idx := by
        rw [List.getD_eq_getElem _ _ hbl]; simp [Reindex.comp]
      rw [e2, toReindex_idx_getD hb he]
      -- the indices
      set d' := b.perm.idxOf e with hd'
      have hd'n : d' < n := hb.isPerm.idxOf_lt he
      set d := a.perm.idxOf d' with hd
      have hdn : d < n := ha.isPerm.idxOf_lt hd'n
      have hperm : (a * b).perm.getD d 0 = e := by
        rw [mul_perm_getD ha hdn, ha.isPerm.getD_idxOf hd'n, hb.isPerm.getD_idxOf he]
      have hidxOf : (a * b).perm.idxOf e = d := by
        rw [← hperm]; exact hab.isPerm.idxOf_getD hdn
      have hflip : (a * b).flip.getD d false = xor (a.flip.getD d false) (b.flip.getD d' false) := by
        rw [mul_flip_getD ha hdn, ha.isPerm.getD_idxOf hd'n]
      rw [hidxOf, hflip]
      have ea := toReindex_idx_getD ha hd'n
      rw [← hd] at ea
      cases hfa : a.flip.getD d false <;> cases hfb : b.flip.getD d' false <;>
        simp only [IdxE.subst_var, IdxE.subst_rev, ea, hfa, IdxE.flip, Bool.false_eq_true, if_false,
          if_true, Bool.xor_false, Bool.xor_true, Bool.not_false, Bool.not_true]
  cases h1 : (a * b).toReindex with
  | mk ax ix =>
    cases h2 : a.toReindex.comp b.toReindex with
    | mk ax' ix' =>
      rw [h1] at hax hidx; rw [h2] at hax hidx
      simp only at hax hidx
      rw [hax, hidx]

theorem mapArray_mul {α : Type} [Inhabited α] {a b : Orientation} {n : ℕ} (ha : a.WF n) (hb : b.WF n)
    (X : NdArr α) (hX : X.shape.length = n) (hpos : ∀ m ∈ X.shape, 0 < m) :
    (a * b).mapArray X = a.mapArray (b.mapArray X) := by
  unfold mapArray
  rw [toReindex_mul ha hb]
  apply Reindex.apply_comp
  · rw [hX]; exact toReindex_consistent hb
  · show a.toReindex.Consistent b.perm.length = true
    rw [hb.isPerm.length]; exact toReindex_consistent ha
  · exact hpos

end Orientation

/-! ### sections -/

/-- every section tuple of length `n` (entries `None`, `0`, `-1`) -/
def allSecs : ℕ → List Sec
  | 0 => [[]]
  | n + 1 => [none, some false, some true].flatMap fun e => (allSecs n).map (e :: ·)

theorem mem_allSecs (n : ℕ) (s : Sec) : s ∈ allSecs n ↔ s.length = n := by
  induction n generalizing s with
  | zero => simp [allSecs, List.length_eq_zero_iff]
  | succ n ih =>
    simp only [allSecs, List.mem_flatMap, List.mem_map, List.mem_cons, List.not_mem_nil, or_false]
    constructor
    · rintro ⟨e, _, t, ht, rfl⟩
      simp [(ih t).1 ht]
    · intro h
      cases s with
      | nil => simp at h
      | cons e t =>
        refine ⟨e, ?_, t, (ih t).2 (by simpa using h), rfl⟩
        rcases e with _ | _ | _ <;> simp

end Splipy.MP
