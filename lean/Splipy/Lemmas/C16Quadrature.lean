import Mathlib.Algebra.CharZero.Defs
import Mathlib.Algebra.Polynomial.Derivative
import Mathlib.Algebra.Polynomial.Eval.Degree
import Mathlib.Algebra.Polynomial.Degree.Lemmas
import Mathlib.Algebra.BigOperators.Intervals
import Mathlib.Algebra.BigOperators.Fin
import Mathlib.Data.Fin.VecNotation
import Mathlib.Tactic.Ring
import Mathlib.Tactic.FieldSimp
import Mathlib.Tactic.LinearCombination
import Mathlib.Tactic.NormNum
import Mathlib.Tactic.IntervalCases

/-!
# C16: exactness of (tensor-product, composite) quadrature rules for polynomials

Abstract quadrature-rule exactness in *antiderivative form*: no measure theory and no real
integrals.  A rule `(x i, w i)_{i<m}` on the reference interval `[-1,1]` is `RuleExact … D` when it
reproduces `∫_{-1}^{1} t^k dt = (1 − (−1)^(k+1))/(k+1)` for all `k ≤ D`.  From this we derive that
the affinely mapped rule (exactly the map used by the code, `t_i = (x_i+1)/2·(b−a)+a`,
`w'_i = w_i/2·(b−a)`) sums the derivative `Q'` of any polynomial `Q` with `deg Q' ≤ D` to
`Q(b) − Q(a)`; the composite version over a sequence of spans; and the tensor-product versions in two
and three directions.
-/

namespace Splipy

open Polynomial

section Generic

variable {K : Type} [Field K] [CharZero K]

/-- The rule `(x i, w i)_{i<m}` on `[-1,1]` integrates the monomials `X^k`, `k ≤ D`, exactly
(antiderivative form, no division): `(Σ_i w i · x i ^ k)·(k+1) = 1 − (−1)^(k+1)`. -/
def RuleExact {m : ℕ} (x w : Fin m → K) (D : ℕ) : Prop :=
  ∀ k, k ≤ D → (∑ i, w i * x i ^ k) * ((k : K) + 1) = 1 - (-1) ^ (k + 1)

omit [CharZero K] in
/-- Exactness to degree `D` implies exactness to every smaller degree. -/
theorem RuleExact.mono {m : ℕ} {x w : Fin m → K} {D D' : ℕ} (h : RuleExact x w D)
    (hD : D' ≤ D) : RuleExact x w D' :=
  fun k hk => h k (hk.trans hD)

/-- In characteristic zero, `deg S ≤ deg S' + 1`. -/
theorem natDegree_le_natDegree_derivative_add_one (S : K[X]) :
    S.natDegree ≤ (derivative S).natDegree + 1 := by
  rw [natDegree_derivative]
  omega

/-- Reference interval: for every polynomial `S` whose derivative has degree ≤ D,
`Σ w_i S'(x_i) = S(1) − S(−1)`. -/
theorem RuleExact.sum_derivative {m : ℕ} {x w : Fin m → K} {D : ℕ} (h : RuleExact x w D)
    (S : K[X]) (hS : (derivative S).natDegree ≤ D) :
    ∑ i, w i * (derivative S).eval (x i) = S.eval 1 - S.eval (-1) := by
  have hS' : S.natDegree < D + 2 := by
    have := natDegree_le_natDegree_derivative_add_one S
    omega
  have hd : (derivative S).natDegree < D + 1 := by omega
  -- left-hand side
  have hL : ∑ i, w i * (derivative S).eval (x i)
      = ∑ k ∈ Finset.range (D + 1), S.coeff (k + 1) * (1 - (-1) ^ (k + 1)) := by
    calc ∑ i, w i * (derivative S).eval (x i)
        = ∑ i, ∑ k ∈ Finset.range (D + 1), w i * ((derivative S).coeff k * x i ^ k) := by
          refine Finset.sum_congr rfl fun i _ => ?_
          rw [eval_eq_sum_range' hd, Finset.mul_sum]
      _ = ∑ k ∈ Finset.range (D + 1), ∑ i, w i * ((derivative S).coeff k * x i ^ k) :=
          Finset.sum_comm
      _ = ∑ k ∈ Finset.range (D + 1), S.coeff (k + 1) * (1 - (-1) ^ (k + 1)) := by
          refine Finset.sum_congr rfl fun k hk => ?_
          have hk' : k ≤ D := by
            have := Finset.mem_range.mp hk
            omega
          rw [← h k hk', coeff_derivative, Finset.sum_mul, Finset.mul_sum]
          refine Finset.sum_congr rfl fun i _ => ?_
          ring
  -- right-hand side
  have hR : S.eval 1 - S.eval (-1)
      = ∑ k ∈ Finset.range (D + 1), S.coeff (k + 1) * (1 - (-1) ^ (k + 1)) := by
    rw [eval_eq_sum_range' hS' 1, eval_eq_sum_range' hS' (-1), ← Finset.sum_sub_distrib,
      Finset.sum_range_succ']
    have h0 : S.coeff 0 * 1 ^ 0 - S.coeff 0 * (-1) ^ 0 = 0 := by simp
    rw [h0, add_zero]
    refine Finset.sum_congr rfl fun k _ => ?_
    rw [one_pow]
    ring
  rw [hL, hR]

/-- The affine map of the reference interval onto `[a,b]`, as a polynomial. -/
private noncomputable def affPoly (a b : K) : K[X] := C ((b - a) / 2) * X + C ((a + b) / 2)

private theorem eval_affPoly (a b t : K) :
    (affPoly a b).eval t = (t + 1) / 2 * (b - a) + a := by
  simp only [affPoly, eval_add, eval_mul, eval_C, eval_X]
  ring

omit [CharZero K] in
private theorem derivative_affPoly (a b : K) : derivative (affPoly a b) = C ((b - a) / 2) := by
  simp [affPoly]

omit [CharZero K] in
private theorem natDegree_affPoly_le (a b : K) : (affPoly a b).natDegree ≤ 1 :=
  natDegree_linear_le

/-- One span `[a,b]` with the code's affine map `t_i = (x_i+1)/2·(b−a)+a`, `w'_i = w_i/2·(b−a)`:
for every `Q` whose derivative `P = Q'` has degree ≤ D,  `Σ w'_i P(t_i) = Q(b) − Q(a)`.
(No hypothesis a ≤ b or a ≠ b.) -/
theorem RuleExact.span {m : ℕ} {x w : Fin m → K} {D : ℕ} (h : RuleExact x w D) (a b : K)
    (Q : K[X]) (hQ : (derivative Q).natDegree ≤ D) :
    ∑ i, (w i / 2 * (b - a)) * (derivative Q).eval ((x i + 1) / 2 * (b - a) + a)
      = Q.eval b - Q.eval a := by
  have hdeg : (derivative (Q.comp (affPoly a b))).natDegree ≤ D := by
    rw [derivative_comp, derivative_affPoly]
    refine le_trans natDegree_mul_le ?_
    rw [natDegree_C, zero_add]
    refine le_trans natDegree_comp_le ?_
    calc (derivative Q).natDegree * (affPoly a b).natDegree
        ≤ (derivative Q).natDegree * 1 := Nat.mul_le_mul_left _ (natDegree_affPoly_le a b)
      _ = (derivative Q).natDegree := Nat.mul_one _
      _ ≤ D := hQ
  have key := h.sum_derivative (Q.comp (affPoly a b)) hdeg
  rw [eval_comp, eval_comp, eval_affPoly, eval_affPoly] at key
  have e1 : ((1 : K) + 1) / 2 * (b - a) + a = b := by
    have h2 : (2 : K) ≠ 0 := OfNat.ofNat_ne_zero 2
    field_simp
    ring
  have e2 : ((-1 : K) + 1) / 2 * (b - a) + a = a := by simp
  rw [e1, e2] at key
  rw [← key]
  refine Finset.sum_congr rfl fun i _ => ?_
  rw [derivative_comp, derivative_affPoly, eval_mul, eval_comp, eval_C, eval_affPoly]
  ring

/-- Composite rule over the spans `[k j, k (j+1)]`, `j < n`, with one polynomial piece per span
(antiderivative `Q j`, integrand `(Q j)'` of degree ≤ D on span `j`). -/
theorem RuleExact.composite {m : ℕ} {x w : Fin m → K} {D : ℕ} (h : RuleExact x w D) (n : ℕ)
    (k : ℕ → K) (Q : ℕ → K[X]) (hQ : ∀ j, j < n → (derivative (Q j)).natDegree ≤ D) :
    ∑ j ∈ Finset.range n, ∑ i, (w i / 2 * (k (j+1) - k j))
        * (derivative (Q j)).eval ((x i + 1) / 2 * (k (j+1) - k j) + k j)
      = ∑ j ∈ Finset.range n, ((Q j).eval (k (j+1)) - (Q j).eval (k j)) :=
  Finset.sum_congr rfl fun j hj =>
    h.span (k j) (k (j+1)) (Q j) (hQ j (Finset.mem_range.mp hj))

/-- Composite rule for ONE polynomial on all spans: the sum telescopes. -/
theorem RuleExact.composite_single {m : ℕ} {x w : Fin m → K} {D : ℕ} (h : RuleExact x w D) (n : ℕ)
    (k : ℕ → K) (Q : K[X]) (hQ : (derivative Q).natDegree ≤ D) :
    ∑ j ∈ Finset.range n, ∑ i, (w i / 2 * (k (j+1) - k j))
        * (derivative Q).eval ((x i + 1) / 2 * (k (j+1) - k j) + k j)
      = Q.eval (k n) - Q.eval (k 0) := by
  rw [h.composite n k (fun _ => Q) (fun _ _ => hQ)]
  exact Finset.sum_range_sub (fun j => Q.eval (k j)) n

/-- Tensor-product rule on a rectangle for a finite sum of products of univariate polynomials
(every bivariate polynomial of degree ≤ D1 in u and ≤ D2 in v is such a sum). -/
theorem RuleExact.tensor2 {m1 m2 : ℕ} {x1 w1 : Fin m1 → K} {x2 w2 : Fin m2 → K} {D1 D2 : ℕ}
    (h1 : RuleExact x1 w1 D1) (h2 : RuleExact x2 w2 D2) (a1 b1 a2 b2 : K)
    {ι : Type} (s : Finset ι) (P R : ι → K[X])
    (hP : ∀ c ∈ s, (derivative (P c)).natDegree ≤ D1)
    (hR : ∀ c ∈ s, (derivative (R c)).natDegree ≤ D2) :
    ∑ i, ∑ j, (w1 i / 2 * (b1 - a1)) * (w2 j / 2 * (b2 - a2)) *
        ∑ c ∈ s, (derivative (P c)).eval ((x1 i + 1) / 2 * (b1 - a1) + a1)
                 * (derivative (R c)).eval ((x2 j + 1) / 2 * (b2 - a2) + a2)
      = ∑ c ∈ s, ((P c).eval b1 - (P c).eval a1) * ((R c).eval b2 - (R c).eval a2) := by
  have hR' : ∑ c ∈ s, ((P c).eval b1 - (P c).eval a1) * ((R c).eval b2 - (R c).eval a2)
      = ∑ c ∈ s, ∑ i, ∑ j,
          ((w1 i / 2 * (b1 - a1)) * (derivative (P c)).eval ((x1 i + 1) / 2 * (b1 - a1) + a1))
          * ((w2 j / 2 * (b2 - a2))
              * (derivative (R c)).eval ((x2 j + 1) / 2 * (b2 - a2) + a2)) := by
    refine Finset.sum_congr rfl fun c hc => ?_
    rw [← h1.span a1 b1 (P c) (hP c hc), ← h2.span a2 b2 (R c) (hR c hc), Finset.sum_mul_sum]
  rw [hR']
  symm
  rw [Finset.sum_comm (β := K)]
  refine Finset.sum_congr rfl fun i _ => ?_
  rw [Finset.sum_comm (β := K)]
  refine Finset.sum_congr rfl fun j _ => ?_
  rw [Finset.mul_sum]
  refine Finset.sum_congr rfl fun c _ => ?_
  ring

/-- Same for three directions. -/
theorem RuleExact.tensor3 {m1 m2 m3 : ℕ} {x1 w1 : Fin m1 → K} {x2 w2 : Fin m2 → K}
    {x3 w3 : Fin m3 → K} {D1 D2 D3 : ℕ}
    (h1 : RuleExact x1 w1 D1) (h2 : RuleExact x2 w2 D2) (h3 : RuleExact x3 w3 D3)
    (a1 b1 a2 b2 a3 b3 : K)
    {ι : Type} (s : Finset ι) (P R T : ι → K[X])
    (hP : ∀ c ∈ s, (derivative (P c)).natDegree ≤ D1)
    (hR : ∀ c ∈ s, (derivative (R c)).natDegree ≤ D2)
    (hT : ∀ c ∈ s, (derivative (T c)).natDegree ≤ D3) :
    ∑ i, ∑ j, ∑ l, (w1 i / 2 * (b1 - a1)) * (w2 j / 2 * (b2 - a2)) * (w3 l / 2 * (b3 - a3)) *
        ∑ c ∈ s, (derivative (P c)).eval ((x1 i + 1) / 2 * (b1 - a1) + a1)
                 * (derivative (R c)).eval ((x2 j + 1) / 2 * (b2 - a2) + a2)
                 * (derivative (T c)).eval ((x3 l + 1) / 2 * (b3 - a3) + a3)
      = ∑ c ∈ s, ((P c).eval b1 - (P c).eval a1) * ((R c).eval b2 - (R c).eval a2)
          * ((T c).eval b3 - (T c).eval a3) := by
  have hR' : ∑ c ∈ s, ((P c).eval b1 - (P c).eval a1) * ((R c).eval b2 - (R c).eval a2)
          * ((T c).eval b3 - (T c).eval a3)
      = ∑ c ∈ s, ∑ i, ∑ j, ∑ l,
          ((w1 i / 2 * (b1 - a1)) * (derivative (P c)).eval ((x1 i + 1) / 2 * (b1 - a1) + a1))
          * ((w2 j / 2 * (b2 - a2))
              * (derivative (R c)).eval ((x2 j + 1) / 2 * (b2 - a2) + a2))
          * ((w3 l / 2 * (b3 - a3))
              * (derivative (T c)).eval ((x3 l + 1) / 2 * (b3 - a3) + a3)) := by
    refine Finset.sum_congr rfl fun c hc => ?_
    rw [← h1.span a1 b1 (P c) (hP c hc), ← h2.span a2 b2 (R c) (hR c hc),
      ← h3.span a3 b3 (T c) (hT c hc), Finset.sum_mul_sum, Finset.sum_mul]
    refine Finset.sum_congr rfl fun i _ => ?_
    rw [Finset.sum_mul]
    refine Finset.sum_congr rfl fun j _ => ?_
    rw [Finset.mul_sum]
  rw [hR']
  symm
  rw [Finset.sum_comm (β := K)]
  refine Finset.sum_congr rfl fun i _ => ?_
  rw [Finset.sum_comm (β := K)]
  refine Finset.sum_congr rfl fun j _ => ?_
  rw [Finset.sum_comm (β := K)]
  refine Finset.sum_congr rfl fun l _ => ?_
  rw [Finset.mul_sum]
  refine Finset.sum_congr rfl fun c _ => ?_
  ring

/-- A symmetric rule (an involution σ of the node indices with x (σ i) = − x i, w (σ i) = w i) has a
node set that is mapped onto itself by the reflection t ↦ a + b − t of every span: any function `g`
is summed to the same value along the reversed span. -/
theorem rule_reflect {m : ℕ} (x w : Fin m → K) (σ : Equiv.Perm (Fin m))
    (hx : ∀ i, x (σ i) = - x i) (hw : ∀ i, w (σ i) = w i) (a b : K) (g : K → K) :
    ∑ i, (w i / 2 * (b - a)) * g ((x i + 1) / 2 * (b - a) + a)
      = ∑ i, (w i / 2 * (b - a)) * g (a + b - ((x i + 1) / 2 * (b - a) + a)) := by
  rw [← Equiv.sum_comp σ (fun i => (w i / 2 * (b - a)) * g ((x i + 1) / 2 * (b - a) + a))]
  refine Finset.sum_congr rfl fun i _ => ?_
  have h2 : (2 : K) ≠ 0 := OfNat.ofNat_ne_zero 2
  have e : (x (σ i) + 1) / 2 * (b - a) + a = a + b - ((x i + 1) / 2 * (b - a) + a) := by
    rw [hx i]
    field_simp
    ring
  rw [hw i, e]

end Generic

/-! ## Non-vacuity: concrete exact rules -/

/-- 1-point Gauss–Legendre (midpoint) rule: exact to degree 1. -/
theorem ruleExact_midpoint : RuleExact (K := ℚ) (fun _ : Fin 1 => 0) (fun _ => 2) 1 := by
  intro k hk
  interval_cases k <;> norm_num

/-- 3-point Simpson rule x = (−1,0,1), w = (1/3,4/3,1/3): exact to degree 3. -/
theorem ruleExact_simpson : RuleExact (K := ℚ) ![-1, 0, 1] ![1/3, 4/3, 1/3] 3 := by
  intro k hk
  interval_cases k <;> simp [Fin.sum_univ_three] <;> norm_num

/-- The genuine 2-point Gauss–Legendre rule `x = (−r, r)`, `r² = 1/3`, `w = (1,1)`: exact to
degree 3, over any field of characteristic zero containing such an `r`. -/
theorem ruleExact_gauss2 {K : Type} [Field K] [CharZero K] (r : K) (hr : r * r = 1 / 3) :
    RuleExact ![-r, r] ![1, 1] 3 := by
  intro k hk
  interval_cases k
  · simp [Fin.sum_univ_two]
  · simp [Fin.sum_univ_two]
  · simp only [Fin.sum_univ_two, Matrix.cons_val_zero, Matrix.cons_val_one]
    push_cast
    linear_combination 6 * hr
  · simp only [Fin.sum_univ_two, Matrix.cons_val_zero, Matrix.cons_val_one]
    push_cast
    ring

/-- The genuine 3-point Gauss–Legendre rule (nodes `0, ±√(3/5)`, weights `8/9, 5/9`) over any field
containing a square root `r` of `3/5`: exact to degree `5 = 2·3 − 1`.  This is the rule
`Curve.length` / `Surface.area` / `Volume.volume` use in a direction of order 2. -/
theorem ruleExact_gauss3 {K : Type} [Field K] [CharZero K] (r : K) (hr : r * r = 3 / 5) :
    RuleExact ![-r, 0, r] ![5/9, 8/9, 5/9] 5 := by
  intro k hk
  have h2 : r ^ 2 = 3 / 5 := by rw [pow_two, hr]
  have h4 : r ^ 4 = 9 / 25 := by
    have : r ^ 4 = (r ^ 2) ^ 2 := by ring
    rw [this, h2]; norm_num
  interval_cases k <;> simp [Fin.sum_univ_three] <;> ring_nf <;> simp only [h2, h4] <;> norm_num

end Splipy
