import Splipy.Lemmas.AffineAlgebra
import Mathlib.Tactic.FieldSimp
import Mathlib.Algebra.BigOperators.Ring.Finset

/-!
# C16: node-wise algebra of speeds, area elements, Jacobians and Frenet frames

Identities between 3-vectors over an arbitrary field: how the squared speed `‖v‖²`, the area
element `‖u × v‖²`, the Jacobian `det[u;v;w]`, the curvature `‖v×a‖²/‖v‖⁶` (squared) and the torsion
`(v×a)·a'/‖v×a‖²` behave under the control-point maps of `SplineObject.rotate` (`p ↦ p R`,
`rotatePoint`), uniform scaling, sign changes and swaps; orthonormality of the Frenet frame.
-/

namespace Splipy.Affine

variable {K : Type} [Field K]

/-- `np.cross(u, v)` for 3-vectors. -/
def cross (u v : Fin 3 → K) : Fin 3 → K :=
  ![u 1 * v 2 - u 2 * v 1, u 2 * v 0 - u 0 * v 2, u 0 * v 1 - u 1 * v 0]

/-- `s * v`. -/
def smul3 (s : K) (v : Fin 3 → K) : Fin 3 → K := fun i => s * v i

/-- The 3×3 matrix with rows `u`, `v`, `w` (`det3 (rows3 du dv dw)` is the Jacobian of
`Volume.volume`). -/
def rows3 (u v w : Fin 3 → K) : Fin 3 → Fin 3 → K := ![u, v, w]

/-- Squared curvature `‖v × a‖² / ‖v‖⁶`. -/
def curvatureSq (v a : Fin 3 → K) : K := normSq (cross v a) / (normSq v) ^ 3

/-- Torsion `(v × a)·a' / ‖v × a‖²`. -/
def torsion (v a a' : Fin 3 → K) : K := dot (cross v a) a' / normSq (cross v a)

local macro "entries" : tactic =>
  `(tactic| simp only [matMul, mulVec, vecMul, transpose, rotationMatrix, rotatePoint, identity,
      dot, normSq, det3, cross, smul3, rows3, Matrix.cons_val, Fin.isValue, Fin.reduceEq,
      ↓reduceIte])

/-! ## Rotation (`p ↦ p R`, what `rotate` does to every control point) -/

section rotation
variable {a b c d : K}

theorem rotatePoint_dot_poly (a b c d : K) (u v : Fin 3 → K) :
    dot (rotatePoint a b c d u) (rotatePoint a b c d v)
      = (a * a + b * b + c * c + d * d) ^ 2 * dot u v := by
  entries
  ring

/-- Rotations preserve dot products. -/
theorem rotatePoint_dot (h : a * a + b * b + c * c + d * d = 1) (u v : Fin 3 → K) :
    dot (rotatePoint a b c d u) (rotatePoint a b c d v) = dot u v := by
  rw [rotatePoint_dot_poly, h, one_pow, one_mul]

theorem rotatePoint_cross_poly (a b c d : K) (u v : Fin 3 → K) :
    cross (rotatePoint a b c d u) (rotatePoint a b c d v)
      = smul3 (a * a + b * b + c * c + d * d) (rotatePoint a b c d (cross u v)) := by
  apply ext3 <;> entries <;> ring

/-- Proper rotations commute with the cross product: `(uR) × (vR) = (u × v)R`. -/
theorem rotatePoint_cross (h : a * a + b * b + c * c + d * d = 1) (u v : Fin 3 → K) :
    cross (rotatePoint a b c d u) (rotatePoint a b c d v) = rotatePoint a b c d (cross u v) := by
  rw [rotatePoint_cross_poly, h]
  funext i
  simp only [smul3, one_mul]

/-- The area element is invariant: `‖(uR) × (vR)‖² = ‖u × v‖²`. -/
theorem rotatePoint_cross_normSq (h : a * a + b * b + c * c + d * d = 1) (u v : Fin 3 → K) :
    normSq (cross (rotatePoint a b c d u) (rotatePoint a b c d v)) = normSq (cross u v) := by
  rw [rotatePoint_cross h, rotatePoint_normSq h]

theorem det3_rows_rotate_poly (a b c d : K) (u v w : Fin 3 → K) :
    det3 (rows3 (rotatePoint a b c d u) (rotatePoint a b c d v) (rotatePoint a b c d w))
      = (a * a + b * b + c * c + d * d) ^ 3 * det3 (rows3 u v w) := by
  entries
  ring

/-- The Jacobian determinant is invariant: `det[uR; vR; wR] = det[u; v; w]` (`det R = 1`). -/
theorem det3_rows_rotate (h : a * a + b * b + c * c + d * d = 1) (u v w : Fin 3 → K) :
    det3 (rows3 (rotatePoint a b c d u) (rotatePoint a b c d v) (rotatePoint a b c d w))
      = det3 (rows3 u v w) := by
  rw [det3_rows_rotate_poly, h, one_pow, one_mul]

end rotation

/-- Multiplicativity of the 3×3 determinant. -/
theorem det3_matMul (A B : Fin 3 → Fin 3 → K) : det3 (matMul A B) = det3 A * det3 B := by
  entries
  ring

/-- `[u;v;w] R` has the rows `uR`, `vR`, `wR`. -/
theorem matMul_rows3 (u v w : Fin 3 → K) (R : Fin 3 → Fin 3 → K) :
    matMul (rows3 u v w) R = rows3 (vecMul u R) (vecMul v R) (vecMul w R) := by
  apply ext33 <;> entries

/-! ## Linearity: the map acts on every derivative vector `Σ β_i c_i` -/

/-- `p ↦ p M` is linear: applied to the control points it is applied to every derivative
`Σ_i β_i c_i` (`β_i` = basis-function derivatives at the node). -/
theorem vecMul_sum {ι : Type} (s : Finset ι) (β : ι → K) (c : ι → Fin 3 → K)
    (M : Fin 3 → Fin 3 → K) :
    (fun k => ∑ i ∈ s, β i * vecMul (c i) M k) = vecMul (fun k => ∑ i ∈ s, β i * c i k) M := by
  funext k
  simp only [vecMul, Finset.sum_mul, ← Finset.sum_add_distrib]
  apply Finset.sum_congr rfl
  intro i _
  ring

/-- Translating the control points does not change a derivative (`Σ β_i = 0`) … -/
theorem sum_translate_of_sum_zero {ι : Type} (s : Finset ι) (β : ι → K) (c : ι → Fin 3 → K)
    (x : Fin 3 → K) (hβ : ∑ i ∈ s, β i = 0) :
    (fun k => ∑ i ∈ s, β i * (c i k + x k)) = fun k => ∑ i ∈ s, β i * c i k := by
  funext k
  simp only [mul_add, Finset.sum_add_distrib, ← Finset.sum_mul, hβ, zero_mul, add_zero]

/-- … and moves a point (`Σ β_i = 1`) by the translation. -/
theorem sum_translate_of_sum_one {ι : Type} (s : Finset ι) (β : ι → K) (c : ι → Fin 3 → K)
    (x : Fin 3 → K) (hβ : ∑ i ∈ s, β i = 1) :
    (fun k => ∑ i ∈ s, β i * (c i k + x k)) = fun k => (∑ i ∈ s, β i * c i k) + x k := by
  funext k
  simp only [mul_add, Finset.sum_add_distrib, ← Finset.sum_mul, hβ, one_mul]

/-! ## Uniform scaling, signs, swaps -/

theorem normSq_smul3 (s : K) (v : Fin 3 → K) : normSq (smul3 s v) = s ^ 2 * normSq v := by
  entries
  ring

theorem cross_smul3 (s : K) (u v : Fin 3 → K) :
    cross (smul3 s u) (smul3 s v) = smul3 (s ^ 2) (cross u v) := by
  apply ext3 <;> entries <;> ring

/-- The squared area element scales by `s⁴` (the area element by `s²`). -/
theorem normSq_cross_smul3 (s : K) (u v : Fin 3 → K) :
    normSq (cross (smul3 s u) (smul3 s v)) = (s ^ 2) ^ 2 * normSq (cross u v) := by
  rw [cross_smul3, normSq_smul3]

/-- The Jacobian scales by `s³`. -/
theorem det3_rows_smul3 (s : K) (u v w : Fin 3 → K) :
    det3 (rows3 (smul3 s u) (smul3 s v) (smul3 s w)) = s ^ 3 * det3 (rows3 u v w) := by
  entries
  ring

theorem normSq_neg (v : Fin 3 → K) : normSq (fun i => - v i) = normSq v := by
  entries
  ring

theorem cross_neg_left (u v : Fin 3 → K) : cross (fun i => - u i) v = fun i => - cross u v i := by
  apply ext3 <;> entries <;> ring

theorem cross_swap (u v : Fin 3 → K) : cross v u = fun i => - cross u v i := by
  apply ext3 <;> entries <;> ring

theorem det3_rows_neg_first (u v w : Fin 3 → K) :
    det3 (rows3 (fun i => - u i) v w) = - det3 (rows3 u v w) := by
  entries
  ring

theorem det3_rows_neg_second (u v w : Fin 3 → K) :
    det3 (rows3 u (fun i => - v i) w) = - det3 (rows3 u v w) := by
  entries
  ring

theorem det3_rows_neg_third (u v w : Fin 3 → K) :
    det3 (rows3 u v (fun i => - w i)) = - det3 (rows3 u v w) := by
  entries
  ring

theorem det3_rows_swap12 (u v w : Fin 3 → K) : det3 (rows3 v u w) = - det3 (rows3 u v w) := by
  entries
  ring

theorem det3_rows_swap13 (u v w : Fin 3 → K) : det3 (rows3 w v u) = - det3 (rows3 u v w) := by
  entries
  ring

theorem det3_rows_swap23 (u v w : Fin 3 → K) : det3 (rows3 u w v) = - det3 (rows3 u v w) := by
  entries
  ring

/-- The Jacobian is the triple product the source writes out: `du·(dv × dw)`. -/
theorem det3_rows_eq_dot_cross (u v w : Fin 3 → K) : det3 (rows3 u v w) = dot u (cross v w) := by
  entries
  ring

/-! ## The scalar branch of `Curve.torsion` -/

/-- `(v × a)·a = 0`: the numerator `dot(w, a)` of the scalar branch of the pinned
`Curve.torsion` vanishes identically, whatever the curve. -/
theorem dot_cross_self_right (v a : Fin 3 → K) : dot (cross v a) a = 0 := by
  entries
  ring

theorem dot_cross_self_left (v a : Fin 3 → K) : dot (cross v a) v = 0 := by
  entries
  ring

/-! ## Frenet frame -/

section frenet
variable (v a : Fin 3 → K) (s m : K)

/-- Unit tangent `v/|v|` with `s = |v|`. -/
def frenetT : Fin 3 → K := smul3 s⁻¹ v
/-- Unit binormal `(v × a)/|v × a|` with `m = |v × a|`. -/
def frenetB : Fin 3 → K := smul3 m⁻¹ (cross v a)
/-- Normal `B × T` (what `Curve.normal` returns). -/
def frenetN : Fin 3 → K := cross (frenetB v a m) (frenetT v s)

variable {v a s m}

private theorem inv_rel {x n : K} (hx : x * x = n) (h0 : x ≠ 0) : x⁻¹ * x⁻¹ * n = 1 := by
  rw [← hx]
  field_simp

theorem frenet_TT (hs : s * s = normSq v) (hs0 : s ≠ 0) : dot (frenetT v s) (frenetT v s) = 1 := by
  have h1 := inv_rel hs hs0
  simp only [normSq, dot] at h1
  simp only [frenetT]
  entries
  linear_combination h1

theorem frenet_BB (hm : m * m = normSq (cross v a)) (hm0 : m ≠ 0) :
    dot (frenetB v a m) (frenetB v a m) = 1 := by
  have h2 := inv_rel hm hm0
  simp only [normSq, dot, cross, Matrix.cons_val, Fin.isValue] at h2
  simp only [frenetB]
  entries
  linear_combination h2

theorem frenet_TB : dot (frenetT v s) (frenetB v a m) = 0 := by
  simp only [frenetT, frenetB]
  entries
  ring

theorem frenet_TN : dot (frenetT v s) (frenetN v a s m) = 0 := by
  simp only [frenetT, frenetB, frenetN]
  entries
  ring

theorem frenet_NB : dot (frenetN v a s m) (frenetB v a m) = 0 := by
  simp only [frenetT, frenetB, frenetN]
  entries
  ring

theorem frenet_NN (hs : s * s = normSq v) (hs0 : s ≠ 0) (hm : m * m = normSq (cross v a))
    (hm0 : m ≠ 0) : dot (frenetN v a s m) (frenetN v a s m) = 1 := by
  have h1 := inv_rel hs hs0
  have h2 := inv_rel hm hm0
  simp only [normSq, dot] at h1
  simp only [normSq, dot, cross, Matrix.cons_val, Fin.isValue] at h2
  simp only [frenetT, frenetB, frenetN]
  entries
  linear_combination (s⁻¹ * s⁻¹ * (v 0 * v 0 + v 1 * v 1 + v 2 * v 2)) * h2 + h1

/-- `T × N = B`: the frame is right-handed. -/
theorem frenet_T_cross_N (hs : s * s = normSq v) (hs0 : s ≠ 0) :
    cross (frenetT v s) (frenetN v a s m) = frenetB v a m := by
  have h1 := inv_rel hs hs0
  simp only [normSq, dot] at h1
  simp only [frenetT, frenetB, frenetN]
  apply ext3 <;> entries
  · linear_combination (m⁻¹ * (v 1 * a 2 - v 2 * a 1)) * h1
  · linear_combination (m⁻¹ * (v 2 * a 0 - v 0 * a 2)) * h1
  · linear_combination (m⁻¹ * (v 0 * a 1 - v 1 * a 0)) * h1

end frenet

/-! ## Curvature and torsion under rigid motion and scaling -/

theorem curvatureSq_rotate {a b c d : K} (h : a * a + b * b + c * c + d * d = 1)
    (v acc : Fin 3 → K) :
    curvatureSq (rotatePoint a b c d v) (rotatePoint a b c d acc) = curvatureSq v acc := by
  unfold curvatureSq
  rw [rotatePoint_cross_normSq h, rotatePoint_normSq h]

theorem torsion_rotate {a b c d : K} (h : a * a + b * b + c * c + d * d = 1)
    (v acc jerk : Fin 3 → K) :
    torsion (rotatePoint a b c d v) (rotatePoint a b c d acc) (rotatePoint a b c d jerk)
      = torsion v acc jerk := by
  unfold torsion
  rw [rotatePoint_cross_normSq h, rotatePoint_cross h, rotatePoint_dot h]

/-- Uniform scaling by `s ≠ 0`: `κ² ↦ κ²/s²` (curvature scales by `1/|s|`). -/
theorem curvatureSq_smul3 {s : K} (hs : s ≠ 0) (v acc : Fin 3 → K) :
    curvatureSq (smul3 s v) (smul3 s acc) = curvatureSq v acc / s ^ 2 := by
  unfold curvatureSq
  rw [normSq_cross_smul3, normSq_smul3]
  by_cases hv : normSq v = 0
  · simp [hv]
  · field_simp

/-- Uniform scaling by `s ≠ 0`: `τ ↦ τ/s`. -/
theorem torsion_smul3 {s : K} (hs : s ≠ 0) (v acc jerk : Fin 3 → K) :
    torsion (smul3 s v) (smul3 s acc) (smul3 s jerk) = torsion v acc jerk / s := by
  unfold torsion
  rw [normSq_cross_smul3, cross_smul3]
  have h : dot (smul3 (s ^ 2) (cross v acc)) (smul3 s jerk) = s ^ 3 * dot (cross v acc) jerk := by
    simp only [dot, smul3]
    ring
  rw [h]
  by_cases hw : normSq (cross v acc) = 0
  · simp [hw]
  · field_simp

/-! ## Derivative vectors at a quadrature node -/

/-- A derivative vector of the object at a quadrature node: `Σ_i β_i c_i`, with `c_i` the control
points and `β_i` the (products of) basis-function derivatives at the node. -/
def comb {ι : Type} (s : Finset ι) (β : ι → K) (c : ι → Fin 3 → K) : Fin 3 → K :=
  fun k => ∑ i ∈ s, β i * c i k

/-- Rotating the control points rotates every derivative vector. -/
theorem comb_rotate {ι : Type} (s : Finset ι) (β : ι → K) (c : ι → Fin 3 → K) (a b c' d : K) :
    comb s β (fun i => rotatePoint a b c' d (c i)) = rotatePoint a b c' d (comb s β c) := by
  unfold comb rotatePoint
  exact vecMul_sum s β c (rotationMatrix a b c' d)

/-- Scaling the control points scales every derivative vector. -/
theorem comb_smul3 {ι : Type} (s : Finset ι) (β : ι → K) (c : ι → Fin 3 → K) (t : K) :
    comb s β (fun i => smul3 t (c i)) = smul3 t (comb s β c) := by
  funext k
  simp only [comb, smul3, Finset.mul_sum]
  apply Finset.sum_congr rfl
  intro i _
  ring

/-- Translating the control points leaves every derivative vector unchanged (`Σ β_i = 0`). -/
theorem comb_translate {ι : Type} (s : Finset ι) (β : ι → K) (c : ι → Fin 3 → K) (x : Fin 3 → K)
    (hβ : ∑ i ∈ s, β i = 0) :
    comb s β (fun i k => c i k + x k) = comb s β c :=
  sum_translate_of_sum_zero s β c x hβ

end Splipy.Affine
