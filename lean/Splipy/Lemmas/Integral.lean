import Splipy.Lemmas.Deriv

/-!
# L8: the integral identity in antiderivative form

On every non-empty knot span `μ`, as an identity of polynomial pieces,

  `(q+1) / (τ (i+q+1) - τ i) · B_{i,q} = d/dt Σ_{j ≥ i} B_{j,q+1}`

(the sum is finite: pieces with `j > μ` vanish on the span), i.e. the tail sum of the degree-`q+1`
B-splines on the same knots is, up to the factor `(τ (i+q+1) - τ i)/(q+1)`, an antiderivative of
`B_{i,q}`.  This is the identity behind `BSplineBasis.integrate` in `splipy/basis.py`, which
evaluates the order-`p+1` basis on the knot vector extended by one knot at each end and forms
`(knot[i+p]-knot[i])/p * Σ_{j ≥ i} (N_j(t1) - N_j(t0))`.
-/

namespace Splipy

open Polynomial

variable {K : Type} [Field K] [LinearOrder K]

/-- **L8**, polynomial form, tail sum over the active indices `i ≤ j ≤ μ`. -/
theorem Bpoly_eq_derivative_tail_sum (τ : ℕ → K) (hτ : Monotone τ) (μ : ℕ) (hμ : τ μ < τ (μ+1))
    (q i : ℕ) :
    C ((q:K)+1) * C ((τ (i+q+1) - τ i)⁻¹) * Bpoly τ μ q i
      = derivative (∑ j ∈ Finset.Icc i μ, Bpoly τ μ (q+1) j) := by
  rcases Nat.lt_or_ge μ i with hi | hi
  · rw [Finset.Icc_eq_empty (by omega), Finset.sum_empty, derivative_zero,
      Bpoly_eq_zero_of_gt τ μ q i hi, mul_zero]
  · obtain ⟨g, hg⟩ : ∃ g : ℕ → K[X],
        ∀ k, g k = - (C ((q:K)+1) * C ((τ (k+q+1) - τ k)⁻¹) * Bpoly τ μ q k) := ⟨_, fun _ => rfl⟩
    have key : ∀ j, derivative (Bpoly τ μ (q+1) j) = g (j+1) - g j := by
      intro j
      have e : j+1+q+1 = j+q+2 := by omega
      rw [hg, hg, Bpoly_derivative τ hτ μ hμ q j, e]
      ring
    rw [derivative_sum, Finset.sum_congr rfl (fun j _ => key j), Finset.sum_Icc_sub hi g,
      hg, hg, Bpoly_eq_zero_of_gt τ μ q (μ+1) (by omega)]
    ring

/-- **L8**, polynomial form, tail sum up to any `N > μ` (all functions `i ≤ j < N`). -/
theorem Bpoly_eq_derivative_tail_sum_Ico (τ : ℕ → K) (hτ : Monotone τ) (μ : ℕ)
    (hμ : τ μ < τ (μ+1)) (q i N : ℕ) (hN : μ < N) :
    C ((q:K)+1) * C ((τ (i+q+1) - τ i)⁻¹) * Bpoly τ μ q i
      = derivative (∑ j ∈ Finset.Ico i N, Bpoly τ μ (q+1) j) := by
  rw [Bpoly_eq_derivative_tail_sum τ hτ μ hμ q i]
  congr 1
  apply Finset.sum_subset
  · intro j hj
    rw [Finset.mem_Icc] at hj
    exact Finset.mem_Ico.mpr ⟨hj.1, by omega⟩
  · intro j hj hnj
    rw [Finset.mem_Ico] at hj
    rw [Finset.mem_Icc] at hnj
    exact Bpoly_eq_zero_of_gt τ μ (q+1) j (by omega)

/-- **L8**, pointwise form with the spec functions: on the span `μ`,
`(q+1)/(τ (i+q+1) - τ i) · B_{i,q}(t) = Σ_{i ≤ j ≤ μ} B'_{j,q+1}(t)`. -/
theorem B_eq_sum_dB_tail (s : Side) (τ : ℕ → K) (hτ : Monotone τ) (μ q i : ℕ) (t : K)
    (h : s.mem (τ μ) (τ (μ+1)) t) :
    ((q:K)+1) / (τ (i+q+1) - τ i) * B s τ q i t
      = ∑ j ∈ Finset.Icc i μ, dB s τ (q+1) j 1 t := by
  have hμ : τ μ < τ (μ+1) := by
    cases s
    · exact lt_of_le_of_lt h.1 h.2
    · exact lt_of_lt_of_le h.1 h.2
  have h1 := congrArg (eval t) (Bpoly_eq_derivative_tail_sum τ hτ μ hμ q i)
  rw [derivative_sum, eval_finsetSum, eval_mul, eval_mul, eval_C, eval_C,
    ← B_eq_eval_Bpoly s τ hτ μ q i t h] at h1
  rw [div_eq_mul_inv, h1]
  apply Finset.sum_congr rfl
  intro j _
  exact (dB_one_eq_eval_derivative s τ hτ μ (q+1) j t h).symm

variable [IsStrictOrderedRing K]

/-- **L8**, solved for `B_{i,q}`:
`B_{i,q}(t) = (τ (i+q+1) - τ i)/(q+1) · Σ_{i ≤ j ≤ μ} B'_{j,q+1}(t)` on the span `μ`
(also true for a degenerate support `τ (i+q+1) = τ i`, where both sides vanish). -/
theorem B_eq_mul_sum_dB_tail (s : Side) (τ : ℕ → K) (hτ : Monotone τ) (μ q i : ℕ) (t : K)
    (h : s.mem (τ μ) (τ (μ+1)) t) :
    B s τ q i t
      = (τ (i+q+1) - τ i) / ((q:K)+1) * ∑ j ∈ Finset.Icc i μ, dB s τ (q+1) j 1 t := by
  have hq : (q:K) + 1 ≠ 0 := by
    have : (0:K) ≤ (q:K) := Nat.cast_nonneg q
    exact ne_of_gt (by linarith)
  rw [← B_eq_sum_dB_tail s τ hτ μ q i t h]
  by_cases hz : τ (i+q+1) = τ i
  · rw [B_eq_zero_of_knots_eq s τ hτ q i t hz]
    simp
  · have h' : τ (i+q+1) - τ i ≠ 0 := sub_ne_zero.mpr hz
    field_simp

/-- **L8**, solved polynomial form for a non-degenerate support. -/
theorem Bpoly_eq_C_mul_derivative_tail_sum (τ : ℕ → K) (hτ : Monotone τ) (μ : ℕ)
    (hμ : τ μ < τ (μ+1)) (q i : ℕ) (hz : τ i < τ (i+q+1)) :
    Bpoly τ μ q i
      = C ((τ (i+q+1) - τ i) / ((q:K)+1))
          * derivative (∑ j ∈ Finset.Icc i μ, Bpoly τ μ (q+1) j) := by
  have hq : (q:K) + 1 ≠ 0 := by
    have : (0:K) ≤ (q:K) := Nat.cast_nonneg q
    exact ne_of_gt (by linarith)
  have h' : τ (i+q+1) - τ i ≠ 0 := sub_ne_zero.mpr (ne_of_gt hz)
  rw [← Bpoly_eq_derivative_tail_sum τ hτ μ hμ q i, ← mul_assoc, ← C_mul, ← C_mul]
  have : (τ (i+q+1) - τ i) / ((q:K)+1) * (((q:K)+1) * (τ (i+q+1) - τ i)⁻¹) = 1 := by
    field_simp
  rw [this, C_1, one_mul]

end Splipy
