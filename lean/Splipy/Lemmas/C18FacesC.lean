import Splipy.Lemmas.C18Sort

/-!
# C18 — faces of the whole model: two cells / one cell, and the order of the OpenFOAM files
-/

namespace Splipy.MP.C18L

open Splipy.MP

/-- `faces()` of one top node, when it returns: every record has `owner < neighbour` (two cells)
    or `neighbour = -1` (one cell) — the final `assert` of `TopologicalNode.faces`. -/
theorem facesOf_two_or_one (ktol : ℚ) (r : Numbered) (k : ℕ) (fs : List Face) (h : r.facesOf ktol k = .ok fs) :
    ∀ f ∈ fs, f.owner < f.neighbor ∨ f.neighbor = -1 := by
  unfold Numbered.facesOf at h
  split at h
  · cases h
  · rename_i l _
    simp only at h
    split at h
    · rename_i hall
      simp only [Except.ok.injEq] at h
      subst h
      intro f hf
      have := (List.all_eq_true.1 hall) f hf
      simpa using this
    · cases h

/-- … hence of the whole model (any number of patches: induction over the top nodes). -/
theorem faces_two_or_one (ktol : ℚ) (r : Numbered) (fs : List Face) (h : r.faces ktol = .ok fs) :
    ∀ f ∈ fs, f.owner < f.neighbor ∨ f.neighbor = -1 := by
  unfold Numbered.faces at h
  split at h
  · cases h
  · have key : ∀ (l : List ℕ) (acc out : List Face),
        (∀ f ∈ acc, f.owner < f.neighbor ∨ f.neighbor = -1) →
        l.foldlM (fun acc k =>
          match r.facesOf ktol k with
          | .ok fs => Except.ok (acc ++ fs)
          | .error NErr.stopIteration => Except.error (NErr.m MErr.runtime)
          | .error e => Except.error e) acc = .ok out →
        ∀ f ∈ out, f.owner < f.neighbor ∨ f.neighbor = -1 := by
      intro l
      induction l with
      | nil =>
        intro acc out hacc ho
        simp only [List.foldlM_nil, pure, Except.pure, Except.ok.injEq] at ho
        subst ho; exact hacc
      | cons k l ih =>
        intro acc out hacc ho
        rw [List.foldlM_cons] at ho
        simp only [bind, Except.bind] at ho
        split at ho
        · cases ho
        · rename_i acc1 hacc1
          refine ih acc1 out ?_ ho
          split at hacc1
          · rename_i fk hfk
            simp only [Except.ok.injEq] at hacc1
            subst hacc1
            intro f hf
            rcases List.mem_append.1 hf with hf | hf
            · exact hacc f hf
            · exact facesOf_two_or_one ktol r k fk hfk f hf
          · cases hacc1
          · cases hacc1
    exact key _ [] fs (by simp) h

/-! ## order of the files -/

/-- a name-ordered list is its unnamed part followed by its named part -/
theorem split_by_name : ∀ (l : List Face), (l.map (·.name)).Pairwise nameKeyLe →
    l = l.filter (fun f => f.name == none) ++ l.filter (fun f => f.name != none)
  | [], _ => rfl
  | f :: t, hs => by
    rw [List.map_cons, List.pairwise_cons] at hs
    have ih := split_by_name t hs.2
    cases hf : f.name with
    | none =>
      simp only [List.filter_cons, hf, beq_self_eq_true, if_true, bne_self_eq_false, Bool.false_eq_true, if_false,
        List.cons_append]
      rw [← ih]
    | some nm =>
      have hall : ∀ g ∈ t, g.name ≠ none := by
        intro g hg hgn
        have := hs.1 g.name (List.mem_map_of_mem hg)
        rw [hf, hgn] at this
        simp [nameKeyLe] at this
      have h1 : t.filter (fun f => f.name == none) = [] := by
        rw [List.filter_eq_nil_iff]
        intro g hg; simpa using hall g hg
      have h2 : t.filter (fun f => f.name != none) = t := by
        rw [List.filter_eq_self]
        intro g hg; simpa using hall g hg
      simp only [List.filter_cons, hf, h1, h2]
      simp

/-- **The files as the writer emits them.**  If every boundary face is named (`name = None` exactly
    for the faces with a neighbour), the face list written is `two-cell faces ++ one-cell faces`:
    the first `ninternal` rows are the faces with two cells, each with `owner < neighbour`
    (given that of the input), in lexicographic (owner, neighbour) order; the remaining rows have
    one cell (`neighbour = -1`) and within one boundary name the owner column is non-decreasing. -/
theorem ofoam_blocks (faces : List Face) (hnamed : ∀ f ∈ faces, (f.name = none ↔ f.neighbor ≠ -1))
    (hlt : ∀ f ∈ faces, f.owner < f.neighbor ∨ f.neighbor = -1) :
    let o := ofoamWrite faces
    o.faces = o.faces.take o.ninternal ++ o.faces.drop o.ninternal ∧
    (∀ f ∈ o.faces.take o.ninternal, f.name = none ∧ f.neighbor ≠ -1 ∧ f.owner < f.neighbor) ∧
    (∀ f ∈ o.faces.drop o.ninternal, f.name ≠ none ∧ f.neighbor = -1) ∧
    (o.faces.take o.ninternal).Pairwise (fun a b => a.owner < b.owner ∨ (a.owner = b.owner ∧ a.neighbor ≤ b.neighbor)) ∧
    (o.faces.drop o.ninternal).Pairwise (fun a b => a.name = b.name → a.owner ≤ b.owner) := by
  intro o
  have hsorted := ofoamOrder_sorted faces
  have hnames : (o.faces.map (·.name)).Pairwise nameKeyLe := by
    rw [List.pairwise_map]; exact hsorted.imp (fun h => h.1)
  have hperm := ofoamOrder_perm faces
  have hsplit := split_by_name o.faces hnames
  have hni : o.ninternal = (o.faces.filter (fun f => f.name == none)).length := rfl
  have htake : o.faces.take o.ninternal = o.faces.filter (fun f => f.name == none) := by
    rw [hni]; conv_lhs => rw [hsplit]
    simp
  have hdrop : o.faces.drop o.ninternal = o.faces.filter (fun f => f.name != none) := by
    rw [hni]; conv_lhs => rw [hsplit]
    simp
  have hmem : ∀ f ∈ o.faces, f ∈ faces := fun f hf => hperm.mem_iff.1 hf
  refine ⟨(List.take_append_drop _ _).symm, ?_, ?_, ?_, ?_⟩
  · intro f hf
    rw [htake] at hf
    obtain ⟨hfm, hfn⟩ := List.mem_filter.1 hf
    have hn : f.name = none := by simpa using hfn
    have hnb := (hnamed f (hmem f hfm)).1 hn
    exact ⟨hn, hnb, (hlt f (hmem f hfm)).resolve_right hnb⟩
  · intro f hf
    rw [hdrop] at hf
    obtain ⟨hfm, hfn⟩ := List.mem_filter.1 hf
    have hn : f.name ≠ none := by simpa using hfn
    refine ⟨hn, ?_⟩
    by_contra hnb
    exact hn ((hnamed f (hmem f hfm)).2 hnb)
  · rw [htake]
    refine (hsorted.sublist List.filter_sublist).imp_of_mem ?_
    intro a b ha hb hab
    have han : a.name = none := by simpa using (List.mem_filter.1 ha).2
    have hbn : b.name = none := by simpa using (List.mem_filter.1 hb).2
    obtain ⟨-, h2⟩ := hab
    have h3 := h2 (by rw [han, hbn]; simp [nameKeyLe])
    rcases Int.lt_or_eq_of_le h3.1 with h | h
    · exact Or.inl h
    · exact Or.inr ⟨h, (h3.2 (by omega)).1⟩
  · rw [hdrop]
    refine (hsorted.sublist List.filter_sublist).imp ?_
    intro a b hab hname
    exact (hab.2 (by rw [hname]; cases b.name <;> simp [nameKeyLe])).1

end Splipy.MP.C18L
