import Splipy.Lemmas.BridgeTransfer
import Splipy.Properties.C05

/-!
# Bridge (p11), part 5: order elevation (`ElevatedFrom`) gives `SameAlong`
-/

namespace Splipy
namespace Bridge

set_option linter.unusedSectionVars false

open Finset C04

variable {K : Type} [Field K] [LinearOrder K] [IsStrictOrderedRing K] [FloorRing K]

/-- For a valid basis and an admissible parameter the specification row is the code's row at the
parameter itself. -/
theorem specRow_eq_evaluate {b : Basis K} (hv : b.Valid) {tol u : K} (htol : 0 < tol)
    (h : b.Admissible tol u) {j : ℕ} (hj : j < b.numFunctions) :
    b.specRow u j = (b.evaluate tol u 0 true).getD j 0 := by
  rw [← Basis.rowVal_eq_specRow hv htol h hj]
  unfold Basis.rowVal
  rw [h.snap_eq htol]

/-- `ElevatedFrom` (C05) for curves with control nets of the matching shapes is `SameAlong` at
every parameter admissible for both bases. -/
theorem elevated_along {o o' : Obj K} {b b' : Basis K} {nc : ℕ} {tol : K} (htol : 0 < tol)
    (hv : b.Valid) (hv' : b'.Valid) (hs : o.cps.shape = [b.numFunctions, nc])
    (hE : ElevatedFrom tol b b' nc o o') {u : K}
    (hu : b.Admissible tol u) (hu' : b'.Admissible tol u) :
    SameAlong o o' 0 b.numFunctions b'.numFunctions (b.specRow u) (b'.specRow u) := by
  have hs' : o'.cps.shape = [b'.numFunctions, nc] := hE.2.2.1
  intro a i ha hi
  have ha0 : a = 0 := by
    unfold outerN at ha; rw [hs] at ha
    simp [Tensor.split3, Tensor.prod] at ha
    exact ha
  have hi' : i < nc := by
    unfold innerN at hi; rw [hs] at hi
    simpa [Tensor.split3, Tensor.prod] using hi
  subst ha0
  have h := hE.2.2.2.1 u i hi'
  have e1 : ∀ j, fibre o 0 0 i j = o.cps.get (j * nc + i) := by
    intro j; simp [fibre, Tensor.at3, Tensor.split3, Tensor.prod, hs]
  have e2 : ∀ j, fibre o' 0 0 i j = o'.cps.get (j * nc + i) := by
    intro j; simp [fibre, Tensor.at3, Tensor.split3, Tensor.prod, hs']
  have l : ∑ j ∈ range b'.numFunctions, b'.specRow u j * fibre o' 0 0 i j
      = ∑ k ∈ range b'.numFunctions, (b'.evaluate tol u 0 true).getD k 0
          * o'.cps.get (k * nc + i) :=
    sum_congr rfl (fun j hj => by
      rw [specRow_eq_evaluate hv' htol hu' (mem_range.mp hj), e2 j])
  have r : ∑ j ∈ range b.numFunctions, b.specRow u j * fibre o 0 0 i j
      = ∑ k ∈ range b.numFunctions, (b.evaluate tol u 0 true).getD k 0
          * o.cps.get (k * nc + i) :=
    sum_congr rfl (fun j hj => by
      rw [specRow_eq_evaluate hv htol hu (mem_range.mp hj), e1 j])
  rw [l, r]
  exact h

/-- "`o'` evaluates like `o`" for curves over the bases `b`, `b'`: at every list of parameters
admissible for both bases the two objects return the same tensor (`tensor=True`) and the same
value (`tensor=False`); for a non-periodic basis the list must be non-empty (the real code raises
`ValueError` for `[]`). -/
def SameEvalCurve (tol : K) (b b' : Basis K) (o o' : Obj K) : Prop :=
  ∀ us : List K, (∀ u ∈ us, b.Admissible tol u) → (∀ u ∈ us, b'.Admissible tol u) →
    (b.periodic < 0 ∨ b'.periodic < 0 → us ≠ []) →
    ∃ res, o.evaluate tol [us] true = .ok res ∧ res.shape = [us.length, o.dimension] ∧
      o'.evaluate tol [us] true = .ok res ∧
      o'.evaluate tol [us] false = o.evaluate tol [us] false

end Bridge
end Splipy
