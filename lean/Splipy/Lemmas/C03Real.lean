import Splipy.Lemmas.DerivReal
import Splipy.Lemmas.QuotientRule
import Mathlib.Analysis.Calculus.Deriv.Add
import Mathlib.Analysis.Calculus.Deriv.Mul
import Mathlib.Analysis.Calculus.Deriv.Inv
import Mathlib.Analysis.Calculus.IteratedDeriv.Defs
import Mathlib.Analysis.Calculus.TangentCone.Real

/-!
# C03 over ℝ: the spec derivative sums ARE one-sided derivatives, and the closed forms are the
# successive one-sided derivatives of the quotient

* `hasDerivWithinAt_splineDeriv`: on a non-empty knot span, `splineDeriv … (d+1)` is the one-sided derivative
  (`HasDerivWithinAt` on `[t, ∞)` resp. `(-∞, t]`) of `splineDeriv … d` (from `DerivReal`);
* `hasDerivWithinAt_quot1/2/3`: for functions `n₀ … n₃`, `W₀ … W₃` each of which is the one-sided derivative
  of its predecessor at `t`, and `W₀ t ≠ 0`:
  `RatDeriv.first` is the derivative of `n₀/W₀`, `RatDeriv.curveD2` the derivative of `first`,
  `RatDeriv.curveD3` the derivative of `curveD2` (Mathlib's quotient rule `HasDerivWithinAt.div`).
-/

namespace Splipy

/-- `[t, ∞)` for the limit from above, `(-∞, t]` for the limit from below. -/
def sideSet (s : Side) (t : ℝ) : Set ℝ :=
  match s with
  | .right => Set.Ici t
  | .left => Set.Iic t

theorem hasDerivWithinAt_dB (s : Side) (τ : ℕ → ℝ) (hτ : Monotone τ) (μ q i d : ℕ) (t : ℝ)
    (h : s.mem (τ μ) (τ (μ+1)) t) :
    HasDerivWithinAt (fun x => dB s τ q i d x) (dB s τ q i (d+1) t) (sideSet s t) t := by
  cases s
  · exact hasDerivWithinAt_dB_right τ hτ μ q i d t h.1 h.2
  · exact hasDerivWithinAt_dB_left τ hτ μ q i d t h.1 h.2

/-- The `(d+1)`-th derivative sum of a spline is the one-sided derivative of its `d`-th derivative sum. -/
theorem hasDerivWithinAt_splineDeriv (s : Side) (τ : ℕ → ℝ) (hτ : Monotone τ) (μ q n : ℕ) (c : ℕ → ℝ)
    (d : ℕ) (t : ℝ) (h : s.mem (τ μ) (τ (μ+1)) t) :
    HasDerivWithinAt (fun x => splineDeriv s τ q n c d x) (splineDeriv s τ q n c (d+1) t)
      (sideSet s t) t := by
  unfold splineDeriv
  apply HasDerivWithinAt.fun_sum
  intro i _
  exact (hasDerivWithinAt_dB s τ hτ μ q i d t h).const_mul (c i)

section quotient

variable {n0 n1 n2 n3 W0 W1 W2 W3 : ℝ → ℝ} {S : Set ℝ} {t : ℝ}

/-- First order: Mathlib's quotient rule gives exactly `RatDeriv.first`. -/
theorem hasDerivWithinAt_quot1 (hn0 : HasDerivWithinAt n0 (n1 t) S t)
    (hW0 : HasDerivWithinAt W0 (W1 t) S t) (h0 : W0 t ≠ 0) :
    HasDerivWithinAt (fun x => n0 x / W0 x) (RatDeriv.first (n0 t) (n1 t) (W0 t) (W1 t)) S t := by
  have h := hn0.div hW0 h0
  refine h.congr_deriv ?_
  unfold RatDeriv.first
  field_simp

/-- Second order: the derivative of the first-order closed form is `RatDeriv.curveD2`. -/
theorem hasDerivWithinAt_quot2 (hn0 : HasDerivWithinAt n0 (n1 t) S t)
    (hn1 : HasDerivWithinAt n1 (n2 t) S t) (hW0 : HasDerivWithinAt W0 (W1 t) S t)
    (hW1 : HasDerivWithinAt W1 (W2 t) S t) (h0 : W0 t ≠ 0) :
    HasDerivWithinAt (fun x => RatDeriv.first (n0 x) (n1 x) (W0 x) (W1 x))
      (RatDeriv.curveD2 (n0 t) (n1 t) (n2 t) (W0 t) (W1 t) (W2 t)) S t := by
  unfold RatDeriv.first
  have h := (hn1.div hW0 h0).sub (((hn0.mul hW1).div hW0 h0).div hW0 h0)
  refine h.congr_deriv ?_
  unfold RatDeriv.curveD2
  simp only [Pi.mul_apply, Pi.div_apply]
  field_simp
  ring

/-- Third order: the derivative of the second-order closed form is `RatDeriv.curveD3`. -/
theorem hasDerivWithinAt_quot3 (hn0 : HasDerivWithinAt n0 (n1 t) S t)
    (hn1 : HasDerivWithinAt n1 (n2 t) S t) (hn2 : HasDerivWithinAt n2 (n3 t) S t)
    (hW0 : HasDerivWithinAt W0 (W1 t) S t) (hW1 : HasDerivWithinAt W1 (W2 t) S t)
    (hW2 : HasDerivWithinAt W2 (W3 t) S t) (h0 : W0 t ≠ 0) :
    HasDerivWithinAt (fun x => RatDeriv.curveD2 (n0 x) (n1 x) (n2 x) (W0 x) (W1 x) (W2 x))
      (RatDeriv.curveD3 (n0 t) (n1 t) (n2 t) (n3 t) (W0 t) (W1 t) (W2 t) (W3 t)) S t := by
  unfold RatDeriv.curveD2
  have hc2 : HasDerivWithinAt (fun _ : ℝ => (2 : ℝ)) 0 S t := hasDerivWithinAt_const t S 2
  have hnum := (((hn2.mul hW0).mul hW0).sub ((hc2.mul hW1).mul ((hn1.mul hW0).sub (hn0.mul hW1)))).sub
    ((hn0.mul hW2).mul hW0)
  have h := ((hnum.div hW0 h0).div hW0 h0).div hW0 h0
  refine h.congr_deriv ?_
  simp only [RatDeriv.curveD3, Pi.mul_apply, Pi.sub_apply, Pi.div_apply]
  field_simp
  ring

end quotient

end Splipy

/-! ## Iterated one-sided derivatives -/

namespace Splipy

open Filter Topology

/-- If `f₁, f₂, f₃` are the successive derivatives of `f₀` within `S` at every point of a set `U ⊆ S` that is
relatively open in `S`, then at every point of `U` they are the first three iterated derivatives within `S`. -/
theorem iteratedDerivWithin_chain {S : Set ℝ} (hS : UniqueDiffOn ℝ S) {f0 f1 f2 f3 : ℝ → ℝ} {U : Set ℝ}
    (hUS : U ⊆ S) (hopen : ∀ t ∈ U, ∀ᶠ t' in 𝓝[S] t, t' ∈ U)
    (h01 : ∀ t ∈ U, HasDerivWithinAt f0 (f1 t) S t) (h12 : ∀ t ∈ U, HasDerivWithinAt f1 (f2 t) S t)
    (h23 : ∀ t ∈ U, HasDerivWithinAt f2 (f3 t) S t) {t0 : ℝ} (ht0 : t0 ∈ U) :
    iteratedDerivWithin 1 f0 S t0 = f1 t0 ∧ iteratedDerivWithin 2 f0 S t0 = f2 t0 ∧
      iteratedDerivWithin 3 f0 S t0 = f3 t0 := by
  have D1 : ∀ t ∈ U, derivWithin f0 S t = f1 t := fun t ht =>
    (h01 t ht).derivWithin (hS t (hUS ht))
  have E1 : ∀ t ∈ U, derivWithin f0 S =ᶠ[𝓝[S] t] f1 := fun t ht =>
    (hopen t ht).mono (fun t' ht' => D1 t' ht')
  have D2 : ∀ t ∈ U, derivWithin (derivWithin f0 S) S t = f2 t := fun t ht => by
    rw [(E1 t ht).derivWithin_eq (D1 t ht)]
    exact (h12 t ht).derivWithin (hS t (hUS ht))
  have E2 : ∀ t ∈ U, derivWithin (derivWithin f0 S) S =ᶠ[𝓝[S] t] f2 := fun t ht =>
    (hopen t ht).mono (fun t' ht' => D2 t' ht')
  have D3 : ∀ t ∈ U, derivWithin (derivWithin (derivWithin f0 S) S) S t = f3 t := fun t ht => by
    rw [(E2 t ht).derivWithin_eq (D2 t ht)]
    exact (h23 t ht).derivWithin (hS t (hUS ht))
  have i1 : iteratedDerivWithin 1 f0 S = derivWithin f0 S := iteratedDerivWithin_one
  have i2 : iteratedDerivWithin 2 f0 S = derivWithin (derivWithin f0 S) S := by
    rw [show (2 : ℕ) = 1 + 1 from rfl, iteratedDerivWithin_succ, i1]
  have i3 : iteratedDerivWithin 3 f0 S = derivWithin (derivWithin (derivWithin f0 S) S) S := by
    rw [show (3 : ℕ) = 2 + 1 from rfl, iteratedDerivWithin_succ, i2]
  rw [i1, i2, i3]
  exact ⟨D1 t0 ht0, D2 t0 ht0, D3 t0 ht0⟩

/-- Two-sided derivative of the derivative sums in the open interior of a span. -/
theorem hasDerivAt_splineDeriv (s : Side) (τ : ℕ → ℝ) (hτ : Monotone τ) (μ q n : ℕ) (c : ℕ → ℝ) (d : ℕ)
    (t : ℝ) (h1 : τ μ < t) (h2 : t < τ (μ+1)) :
    HasDerivAt (fun x => splineDeriv s τ q n c d x) (splineDeriv s τ q n c (d+1) t) t := by
  unfold splineDeriv
  apply HasDerivAt.fun_sum
  intro i _
  exact (hasDerivAt_dB s τ hτ μ q i d t h1 h2).const_mul (c i)

/-- On `[t₀, τ_{μ+1})` the right derivative sums are differentiable within `[t₀, ∞)`. -/
theorem hasDerivWithinAt_splineDeriv_Ici (τ : ℕ → ℝ) (hτ : Monotone τ) (μ q n : ℕ) (c : ℕ → ℝ) (d : ℕ)
    {t0 t : ℝ} (h0 : τ μ ≤ t0) (h1 : t0 ≤ t) (h2 : t < τ (μ+1)) :
    HasDerivWithinAt (fun x => splineDeriv .right τ q n c d x) (splineDeriv .right τ q n c (d+1) t)
      (Set.Ici t0) t := by
  rcases eq_or_lt_of_le h1 with rfl | hlt
  · exact hasDerivWithinAt_splineDeriv .right τ hτ μ q n c d t0 ⟨h0, h2⟩
  · exact (hasDerivAt_splineDeriv .right τ hτ μ q n c d t (lt_of_le_of_lt h0 hlt) h2).hasDerivWithinAt

/-- On `(τ_μ, t₀]` the left derivative sums are differentiable within `(-∞, t₀]`. -/
theorem hasDerivWithinAt_splineDeriv_Iic (τ : ℕ → ℝ) (hτ : Monotone τ) (μ q n : ℕ) (c : ℕ → ℝ) (d : ℕ)
    {t0 t : ℝ} (h0 : t0 ≤ τ (μ+1)) (h1 : t ≤ t0) (h2 : τ μ < t) :
    HasDerivWithinAt (fun x => splineDeriv .left τ q n c d x) (splineDeriv .left τ q n c (d+1) t)
      (Set.Iic t0) t := by
  rcases eq_or_lt_of_le h1 with rfl | hlt
  · exact hasDerivWithinAt_splineDeriv .left τ hτ μ q n c d t ⟨h2, h0⟩
  · exact (hasDerivAt_splineDeriv .left τ hτ μ q n c d t h2 (lt_of_lt_of_le hlt h0)).hasDerivWithinAt

/-- **The closed forms are the iterated one-sided derivatives of the quotient** (specification level).
`t₀` in the span `[τ_μ, τ_{μ+1})` (right) resp. `(τ_μ, τ_{μ+1}]` (left), `W₀(t₀) ≠ 0`: with
`x = n₀/W₀` (sums taken from the side `s`) and `S = [t₀,∞)` resp. `(-∞,t₀]`,
`iteratedDerivWithin 1 x S t₀ = first(…)`, `iteratedDerivWithin 2 x S t₀ = curveD2(…)`,
`iteratedDerivWithin 3 x S t₀ = curveD3(…)`. -/
theorem iteratedDerivWithin_quotient (s : Side) (τ : ℕ → ℝ) (hτ : Monotone τ) (μ q n : ℕ)
    (Pc Pw : ℕ → ℝ) (t0 : ℝ) (h : s.mem (τ μ) (τ (μ+1)) t0) :
    let nJ : ℕ → ℝ → ℝ := fun k x => splineDeriv s τ q n Pc k x
    let WJ : ℕ → ℝ → ℝ := fun k x => splineDeriv s τ q n Pw k x
    WJ 0 t0 ≠ 0 →
    iteratedDerivWithin 1 (fun x => nJ 0 x / WJ 0 x) (sideSet s t0) t0 =
      RatDeriv.first (nJ 0 t0) (nJ 1 t0) (WJ 0 t0) (WJ 1 t0) ∧
    iteratedDerivWithin 2 (fun x => nJ 0 x / WJ 0 x) (sideSet s t0) t0 =
      RatDeriv.curveD2 (nJ 0 t0) (nJ 1 t0) (nJ 2 t0) (WJ 0 t0) (WJ 1 t0) (WJ 2 t0) ∧
    iteratedDerivWithin 3 (fun x => nJ 0 x / WJ 0 x) (sideSet s t0) t0 =
      RatDeriv.curveD3 (nJ 0 t0) (nJ 1 t0) (nJ 2 t0) (nJ 3 t0) (WJ 0 t0) (WJ 1 t0) (WJ 2 t0) (WJ 3 t0) := by
  intro nJ WJ hW
  cases s
  · -- limit from above
    obtain ⟨h0, h2⟩ := h
    set U : Set ℝ := {t | t0 ≤ t ∧ t < τ (μ+1) ∧ WJ 0 t ≠ 0} with hU
    have hdn : ∀ k, ∀ t ∈ U, HasDerivWithinAt (nJ k) (nJ (k+1) t) (Set.Ici t0) t := fun k t ht =>
      hasDerivWithinAt_splineDeriv_Ici τ hτ μ q n Pc k h0 ht.1 ht.2.1
    have hdW : ∀ k, ∀ t ∈ U, HasDerivWithinAt (WJ k) (WJ (k+1) t) (Set.Ici t0) t := fun k t ht =>
      hasDerivWithinAt_splineDeriv_Ici τ hτ μ q n Pw k h0 ht.1 ht.2.1
    have hopen : ∀ t ∈ U, ∀ᶠ t' in 𝓝[Set.Ici t0] t, t' ∈ U := by
      intro t ht
      have e1 : ∀ᶠ t' in 𝓝[Set.Ici t0] t, t0 ≤ t' := eventually_mem_nhdsWithin
      have e2 : ∀ᶠ t' in 𝓝[Set.Ici t0] t, t' < τ (μ+1) :=
        nhdsWithin_le_nhds (Iio_mem_nhds ht.2.1)
      have e3 : ∀ᶠ t' in 𝓝[Set.Ici t0] t, WJ 0 t' ≠ 0 :=
        (hdW 0 t ht).continuousWithinAt (isOpen_ne.mem_nhds ht.2.2)
      filter_upwards [e1, e2, e3] with t' a1 a2 a3
      exact ⟨a1, a2, a3⟩
    exact iteratedDerivWithin_chain (uniqueDiffOn_Ici t0) (fun t ht => ht.1) hopen
      (fun t ht => hasDerivWithinAt_quot1 (hdn 0 t ht) (hdW 0 t ht) ht.2.2)
      (fun t ht => hasDerivWithinAt_quot2 (hdn 0 t ht) (hdn 1 t ht) (hdW 0 t ht) (hdW 1 t ht) ht.2.2)
      (fun t ht => hasDerivWithinAt_quot3 (hdn 0 t ht) (hdn 1 t ht) (hdn 2 t ht) (hdW 0 t ht)
        (hdW 1 t ht) (hdW 2 t ht) ht.2.2)
      (t0 := t0) ⟨le_refl _, h2, hW⟩
  · -- limit from below
    obtain ⟨h0, h2⟩ := h
    set U : Set ℝ := {t | t ≤ t0 ∧ τ μ < t ∧ WJ 0 t ≠ 0} with hU
    have hdn : ∀ k, ∀ t ∈ U, HasDerivWithinAt (nJ k) (nJ (k+1) t) (Set.Iic t0) t := fun k t ht =>
      hasDerivWithinAt_splineDeriv_Iic τ hτ μ q n Pc k h2 ht.1 ht.2.1
    have hdW : ∀ k, ∀ t ∈ U, HasDerivWithinAt (WJ k) (WJ (k+1) t) (Set.Iic t0) t := fun k t ht =>
      hasDerivWithinAt_splineDeriv_Iic τ hτ μ q n Pw k h2 ht.1 ht.2.1
    have hopen : ∀ t ∈ U, ∀ᶠ t' in 𝓝[Set.Iic t0] t, t' ∈ U := by
      intro t ht
      have e1 : ∀ᶠ t' in 𝓝[Set.Iic t0] t, t' ≤ t0 := eventually_mem_nhdsWithin
      have e2 : ∀ᶠ t' in 𝓝[Set.Iic t0] t, τ μ < t' :=
        nhdsWithin_le_nhds (Ioi_mem_nhds ht.2.1)
      have e3 : ∀ᶠ t' in 𝓝[Set.Iic t0] t, WJ 0 t' ≠ 0 :=
        (hdW 0 t ht).continuousWithinAt (isOpen_ne.mem_nhds ht.2.2)
      filter_upwards [e1, e2, e3] with t' a1 a2 a3
      exact ⟨a1, a2, a3⟩
    exact iteratedDerivWithin_chain (uniqueDiffOn_Iic t0) (fun t ht => ht.1) hopen
      (fun t ht => hasDerivWithinAt_quot1 (hdn 0 t ht) (hdW 0 t ht) ht.2.2)
      (fun t ht => hasDerivWithinAt_quot2 (hdn 0 t ht) (hdn 1 t ht) (hdW 0 t ht) (hdW 1 t ht) ht.2.2)
      (fun t ht => hasDerivWithinAt_quot3 (hdn 0 t ht) (hdn 1 t ht) (hdn 2 t ht) (hdW 0 t ht)
        (hdW 1 t ht) (hdW 2 t ht) ht.2.2)
      (t0 := t0) ⟨le_refl _, h0, hW⟩

end Splipy

/-! ## Surface closed forms as iterated one-variable derivatives -/

namespace Splipy

open RatDeriv

/-- The pure-`u` closed forms of `Surface.derivative` are the curve closed forms of the `u`-jets. -/
theorem surfD20_eq_curveD2 {K : Type} [Field K] (n W : SurfJet K) :
    surfD20 n W = curveD2 n.f00 n.f10 n.f20 W.f00 W.f10 W.f20 := by
  simp only [surfD20, Surf.G1, Surf.dH1du, Surf.H1, curveD2]
  ring

theorem surfD02_eq_curveD2 {K : Type} [Field K] (n W : SurfJet K) :
    surfD02 n W = curveD2 n.f00 n.f01 n.f02 W.f00 W.f01 W.f02 := by
  simp only [surfD02, Surf.G2, Surf.dH2dv, Surf.H2, curveD2]
  ring

theorem surfD30_eq_curveD3 {K : Type} [Field K] (n W : SurfJet K) :
    surfD30 n W = curveD3 n.f00 n.f10 n.f20 n.f30 W.f00 W.f10 W.f20 W.f30 := by
  simp only [surfD30, Surf.dG1du, Surf.d2H1du, Surf.G1, Surf.dH1du, Surf.H1, curveD3]
  ring

theorem surfD03_eq_curveD3 {K : Type} [Field K] (n W : SurfJet K) :
    surfD03 n W = curveD3 n.f00 n.f01 n.f02 n.f03 W.f00 W.f01 W.f02 W.f03 := by
  simp only [surfD03, Surf.dG2dv, Surf.d2H2dv, Surf.G2, Surf.dH2dv, Surf.H2, curveD3]
  ring

section mixed

variable {n00 n10 n20 n01 n11 n21 W00 W10 W20 W01 W11 W21 : ℝ → ℝ} {S : Set ℝ} {t : ℝ}

/-- Mixed partial `(1,1)`: the derivative in the SECOND variable of the first-order closed form in the first
variable is `surfD11`.  (`nab` = `∂ᵃ` in the first, `∂ᵇ` in the second variable, as functions of the second.) -/
theorem hasDerivWithinAt_quot11 (h00 : HasDerivWithinAt n00 (n01 t) S t)
    (h10 : HasDerivWithinAt n10 (n11 t) S t) (g00 : HasDerivWithinAt W00 (W01 t) S t)
    (g10 : HasDerivWithinAt W10 (W11 t) S t) (h0 : W00 t ≠ 0) (n W : SurfJet ℝ)
    (en : n.f00 = n00 t ∧ n.f10 = n10 t ∧ n.f01 = n01 t ∧ n.f11 = n11 t)
    (eW : W.f00 = W00 t ∧ W.f10 = W10 t ∧ W.f01 = W01 t ∧ W.f11 = W11 t) :
    HasDerivWithinAt (fun x => first (n00 x) (n10 x) (W00 x) (W10 x)) (surfD11 n W) S t := by
  unfold first
  have h := (h10.div g00 h0).sub (((h00.mul g10).div g00 h0).div g00 h0)
  refine h.congr_deriv ?_
  obtain ⟨a1, a2, a3, a4⟩ := en
  obtain ⟨b1, b2, b3, b4⟩ := eW
  simp only [surfD11, Surf.dH1dv, Surf.H1, a1, a2, a3, a4, b1, b2, b3, b4, Pi.mul_apply, Pi.div_apply]
  field_simp
  ring

/-- Mixed partial `(2,1)`: the derivative in the second variable of the second-order closed form in the first
variable is `surfD21`. -/
theorem hasDerivWithinAt_quot21 (h00 : HasDerivWithinAt n00 (n01 t) S t)
    (h10 : HasDerivWithinAt n10 (n11 t) S t) (h20 : HasDerivWithinAt n20 (n21 t) S t)
    (g00 : HasDerivWithinAt W00 (W01 t) S t) (g10 : HasDerivWithinAt W10 (W11 t) S t)
    (g20 : HasDerivWithinAt W20 (W21 t) S t) (h0 : W00 t ≠ 0) (n W : SurfJet ℝ)
    (en : n.f00 = n00 t ∧ n.f10 = n10 t ∧ n.f20 = n20 t ∧ n.f01 = n01 t ∧ n.f11 = n11 t ∧ n.f21 = n21 t)
    (eW : W.f00 = W00 t ∧ W.f10 = W10 t ∧ W.f20 = W20 t ∧ W.f01 = W01 t ∧ W.f11 = W11 t ∧ W.f21 = W21 t) :
    HasDerivWithinAt (fun x => curveD2 (n00 x) (n10 x) (n20 x) (W00 x) (W10 x) (W20 x)) (surfD21 n W) S t := by
  unfold curveD2
  have hc2 : HasDerivWithinAt (fun _ : ℝ => (2 : ℝ)) 0 S t := hasDerivWithinAt_const t S 2
  have hnum := (((h20.mul g00).mul g00).sub ((hc2.mul g10).mul ((h10.mul g00).sub (h00.mul g10)))).sub
    ((h00.mul g20).mul g00)
  have h := ((hnum.div g00 h0).div g00 h0).div g00 h0
  refine h.congr_deriv ?_
  obtain ⟨a1, a2, a3, a4, a5, a6⟩ := en
  obtain ⟨b1, b2, b3, b4, b5, b6⟩ := eW
  simp only [surfD21, Surf.dG1dv, Surf.d2H1duv, Surf.G1, Surf.dH1du, Surf.dH1dv, Surf.H1,
    a1, a2, a3, a4, a5, a6, b1, b2, b3, b4, b5, b6, Pi.mul_apply, Pi.sub_apply, Pi.div_apply]
  field_simp
  ring

/-- Mixed partial `(1,2)`: mirror image of `hasDerivWithinAt_quot21` (functions of the FIRST variable; `m0b` is
`∂ᵇ` in the second variable, its derivative here is `m1b`). -/
theorem hasDerivWithinAt_quot12 {m00 m01 m02 m10 m11 m12 V00 V01 V02 V10 V11 V12 : ℝ → ℝ}
    (h00 : HasDerivWithinAt m00 (m10 t) S t) (h01 : HasDerivWithinAt m01 (m11 t) S t)
    (h02 : HasDerivWithinAt m02 (m12 t) S t) (g00 : HasDerivWithinAt V00 (V10 t) S t)
    (g01 : HasDerivWithinAt V01 (V11 t) S t) (g02 : HasDerivWithinAt V02 (V12 t) S t)
    (h0 : V00 t ≠ 0) (n W : SurfJet ℝ)
    (en : n.f00 = m00 t ∧ n.f01 = m01 t ∧ n.f02 = m02 t ∧ n.f10 = m10 t ∧ n.f11 = m11 t ∧ n.f12 = m12 t)
    (eW : W.f00 = V00 t ∧ W.f01 = V01 t ∧ W.f02 = V02 t ∧ W.f10 = V10 t ∧ W.f11 = V11 t ∧ W.f12 = V12 t) :
    HasDerivWithinAt (fun x => curveD2 (m00 x) (m01 x) (m02 x) (V00 x) (V01 x) (V02 x)) (surfD12 n W) S t := by
  unfold curveD2
  have hc2 : HasDerivWithinAt (fun _ : ℝ => (2 : ℝ)) 0 S t := hasDerivWithinAt_const t S 2
  have hnum := (((h02.mul g00).mul g00).sub ((hc2.mul g01).mul ((h01.mul g00).sub (h00.mul g01)))).sub
    ((h00.mul g02).mul g00)
  have h := ((hnum.div g00 h0).div g00 h0).div g00 h0
  refine h.congr_deriv ?_
  obtain ⟨a1, a2, a3, a4, a5, a6⟩ := en
  obtain ⟨b1, b2, b3, b4, b5, b6⟩ := eW
  simp only [surfD12, Surf.dG2du, Surf.d2H2duv, Surf.G2, Surf.dH2dv, Surf.dH2du, Surf.H2,
    a1, a2, a3, a4, a5, a6, b1, b2, b3, b4, b5, b6, Pi.mul_apply, Pi.sub_apply, Pi.div_apply]
  field_simp
  ring

end mixed

end Splipy
