import Splipy.Lemmas.Basic

/-!
# L9: smoothness at a knot of multiplicity `m`

At a point `ξ` which occurs at most `m` times among the knots of `B · τ q i`, the left and right
versions of the `d`-th derivative agree for `d + m ≤ q` (`C^{q-m}` continuity).

Multiplicity is expressed without counting: "`ξ` occurs at most `m` times" is
`∀ j, τ j = ξ → τ (j+m) ≠ ξ` (no `m+1` consecutive knots equal `ξ`; `τ` is monotone).
The local version `MultLE` restricts `j, j+m` to the knots `τ i … τ (i+q+1)` of `B · τ q i`.
-/

namespace Splipy

variable {K : Type} [Field K] [LinearOrder K]

/-- Continuity of `B · τ q i` at `ξ` when no `q+1` consecutive knots among
`τ i, …, τ (i+q+1)` are equal to `ξ`. -/
theorem B_left_eq_right_of_local (τ : ℕ → K) (hτ : Monotone τ) (ξ : K) (q i : ℕ)
    (h1 : τ i = ξ → τ (i+q) ≠ ξ) (h2 : τ (i+1) = ξ → τ (i+q+1) ≠ ξ) :
    B .left τ q i ξ = B .right τ q i ξ := by
  induction q generalizing i with
  | zero =>
    have h1' : τ i ≠ ξ := fun h => h1 h h
    have h2' : τ (i+1) ≠ ξ := fun h => h2 h h
    rw [B_zero, B_zero]
    simp only [ind]
    have e1 : τ i < ξ ↔ τ i ≤ ξ := ⟨le_of_lt, fun h => lt_of_le_of_ne h h1'⟩
    have e2 : ξ ≤ τ (i+1) ↔ ξ < τ (i+1) :=
      ⟨fun h => lt_of_le_of_ne h (Ne.symm h2'), le_of_lt⟩
    simp only [e1, e2]
  | succ q ih =>
    by_cases hX : τ (i+1) = ξ ∧ τ (i+q+1) = ξ
    · -- the knots are `τ i < ξ = τ (i+1) = … = τ (i+q+1) < τ (i+q+2)`: both sides equal 1
      obtain ⟨hX1, hX2⟩ := hX
      have h3 : ξ < τ (i+q+2) :=
        lt_of_le_of_ne (by rw [← hX2]; exact hτ (by omega)) (Ne.symm (h2 hX1))
      have h4 : τ i < ξ :=
        lt_of_le_of_ne (by rw [← hX1]; exact hτ (by omega)) (fun h => h1 h hX2)
      have v1 : B .left τ q i ξ = 1 := by
        have := B_left_eq_one_of_clamped τ hτ q i (by rw [hX1, hX2]) (by rw [hX1]; exact h4)
        rw [hX2] at this
        exact this
      have v2 : B .right τ q i ξ = 0 := B_support_right τ hτ q i ξ (Or.inr (le_of_eq hX2))
      have v3 : B .left τ q (i+1) ξ = 0 := B_support_left τ hτ q (i+1) ξ (Or.inl (le_of_eq hX1.symm))
      have e : i+1+q = i+q+1 := by omega
      have e' : i+1+q+1 = i+q+2 := by omega
      have v4 : B .right τ q (i+1) ξ = 1 := by
        have := B_right_eq_one_of_clamped τ hτ q (i+1) (by rw [e, hX1, hX2])
          (by rw [e', e, hX2]; exact h3)
        rw [hX1] at this
        exact this
      have d1 : τ (i+q+1) - τ i ≠ 0 := by rw [hX2]; exact sub_ne_zero.mpr (ne_of_gt h4)
      have d2 : τ (i+q+2) - τ (i+1) ≠ 0 := by rw [hX1]; exact sub_ne_zero.mpr (ne_of_gt h3)
      rw [B_succ, B_succ, v1, v2, v3, v4]
      rw [mul_zero, mul_zero, add_zero, zero_add, mul_one, mul_one]
      rw [← hX2, div_self d1, hX2, ← hX1, div_self d2]
    · have t1 : (ξ - τ i) / (τ (i+q+1) - τ i) * B .left τ q i ξ
          = (ξ - τ i) / (τ (i+q+1) - τ i) * B .right τ q i ξ := by
        by_cases hi : τ i = ξ
        · rw [hi, sub_self, zero_div, zero_mul, zero_mul]
        · rw [ih i (fun h => absurd h hi) (fun h h' => hX ⟨h, h'⟩)]
      have t2 : (τ (i+q+2) - ξ) / (τ (i+q+2) - τ (i+1)) * B .left τ q (i+1) ξ
          = (τ (i+q+2) - ξ) / (τ (i+q+2) - τ (i+1)) * B .right τ q (i+1) ξ := by
        by_cases hi : τ (i+q+2) = ξ
        · rw [hi, sub_self, zero_div, zero_mul, zero_mul]
        · have e : i+1+q = i+q+1 := by omega
          have e' : i+1+q+1 = i+q+2 := by omega
          rw [ih (i+1) (fun h h' => hX ⟨h, by rw [← e]; exact h'⟩)
            (fun _ h' => hi (by rw [← e']; exact h'))]
      rw [B_succ, B_succ, t1, t2]

/-- `ξ` occurs at most `m` times among the knots `τ i, …, τ (i+q+1)` of `B · τ q i`
(no `m+1` consecutive ones are equal to `ξ`). -/
def MultLE (τ : ℕ → K) (ξ : K) (m q i : ℕ) : Prop :=
  ∀ j, i ≤ j → j + m ≤ i + q + 1 → τ j = ξ → τ (j+m) ≠ ξ

omit [Field K] in
theorem MultLE.mono {τ : ℕ → K} (hτ : Monotone τ) {ξ : K} {m m' q i : ℕ}
    (h : MultLE τ ξ m q i) (hm : m ≤ m') : MultLE τ ξ m' q i := by
  intro j hj hjm h1 h2
  have h3 : τ (j+m) = ξ :=
    le_antisymm (by rw [← h2]; exact hτ (by omega)) (by rw [← h1]; exact hτ (by omega))
  exact h j hj (by omega) h1 h3

/-- **L9**, local form: `d`-th derivatives from the left and from the right agree at `ξ`
if `ξ` has multiplicity `≤ m` among the knots of `B · τ q i` and `d + m ≤ q`. -/
theorem dB_left_eq_right_of_MultLE (τ : ℕ → K) (hτ : Monotone τ) (ξ : K) (m q i d : ℕ)
    (hd : d + m ≤ q) (hm : MultLE τ ξ m q i) :
    dB .left τ q i d ξ = dB .right τ q i d ξ := by
  induction d generalizing q i with
  | zero =>
    rw [dB_zero, dB_zero]
    have hq := hm.mono hτ (by omega : m ≤ q)
    exact B_left_eq_right_of_local τ hτ ξ q i
      (fun h => hq i (le_refl _) (by omega) h)
      (fun h => by
        have := hq (i+1) (by omega) (by omega) h
        have e : i+1+q = i+q+1 := by omega
        rw [e] at this; exact this)
  | succ d ih =>
    obtain ⟨q, rfl⟩ : ∃ q', q = q'+1 := ⟨q-1, by omega⟩
    rw [dB_succ_succ, dB_succ_succ,
      ih q i (by omega) (fun j hj hjm => hm j hj (by omega)),
      ih q (i+1) (by omega) (fun j hj hjm => hm j (by omega) (by omega))]

/-- **L9**, global form: if no `m+1` knots of `τ` are equal to `ξ`, all B-splines of degree `q`
are `C^{q-m}` at `ξ`. -/
theorem dB_left_eq_right (τ : ℕ → K) (hτ : Monotone τ) (ξ : K) (m q i d : ℕ)
    (hd : d + m ≤ q) (hm : ∀ j, τ j = ξ → τ (j+m) ≠ ξ) :
    dB .left τ q i d ξ = dB .right τ q i d ξ :=
  dB_left_eq_right_of_MultLE τ hτ ξ m q i d hd (fun j _ _ => hm j)

/-- **L9** for a knot of multiplicity (at most) `m` located by its neighbours:
`τ a < ξ < τ (a+m+1)` (so that only `τ (a+1), …, τ (a+m)` can be equal to `ξ`). -/
theorem dB_left_eq_right_of_between (τ : ℕ → K) (hτ : Monotone τ) (ξ : K) (a m q i d : ℕ)
    (hd : d + m ≤ q) (ha : τ a < ξ) (hb : ξ < τ (a+m+1)) :
    dB .left τ q i d ξ = dB .right τ q i d ξ := by
  apply dB_left_eq_right τ hτ ξ m q i d hd
  intro j hj hjm
  have h1 : a < j := by
    by_contra hc
    exact absurd (lt_of_le_of_lt (hτ (by omega : j ≤ a)) ha) (by rw [hj]; exact lt_irrefl _)
  exact absurd (lt_of_lt_of_le hb (hτ (by omega : a+m+1 ≤ j+m))) (by rw [hjm]; exact lt_irrefl _)

/-- **L9** in the classical form: `ξ = τ (a+1) = … = τ (a+m)` is a knot of multiplicity exactly
`m` (`τ a < ξ < τ (a+m+1)`); then `dB … d` is continuous at `ξ` for `d ≤ q - m`. -/
theorem dB_left_eq_right_at_knot (τ : ℕ → K) (hτ : Monotone τ) (a m q i d : ℕ)
    (hd : d + m ≤ q) (ha : τ a < τ (a+1)) (heq : τ (a+1) = τ (a+m)) (hb : τ (a+m) < τ (a+m+1)) :
    dB .left τ q i d (τ (a+1)) = dB .right τ q i d (τ (a+1)) :=
  dB_left_eq_right_of_between τ hτ (τ (a+1)) a m q i d hd ha (by rw [heq]; exact hb)

/-- Value continuity (`d = 0`): `B · τ q i` is continuous at `ξ` if `ξ` has multiplicity `≤ q`. -/
theorem B_left_eq_right (τ : ℕ → K) (hτ : Monotone τ) (ξ : K) (m q i : ℕ)
    (hq : m ≤ q) (hm : ∀ j, τ j = ξ → τ (j+m) ≠ ξ) :
    B .left τ q i ξ = B .right τ q i ξ := by
  have := dB_left_eq_right τ hτ ξ m q i 0 (by omega) hm
  rwa [dB_zero, dB_zero] at this

/-- Away from the knots the two sides agree for every derivative order. -/
theorem dB_left_eq_right_of_not_knot (τ : ℕ → K) (hτ : Monotone τ) (ξ : K) (q i d : ℕ)
    (hξ : ∀ j, τ j ≠ ξ) : dB .left τ q i d ξ = dB .right τ q i d ξ := by
  rcases le_or_gt d q with h | h
  · exact dB_left_eq_right τ hτ ξ 0 q i d (by omega) (fun j hj => absurd hj (hξ j))
  · rw [dB_eq_zero_of_gt _ τ q i d ξ h, dB_eq_zero_of_gt _ τ q i d ξ h]

end Splipy
