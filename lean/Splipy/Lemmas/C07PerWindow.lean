import Splipy.Lemmas.C04PerKnots

/-!
# Periodic knot insertion, any number of functions: the new knot ARRAY around the insertion index

`C04.insertKnot_per_step_all` describes one periodic insertion on the `ℤ`-extension of the knots, on
one period ending at SOME position `μ` of the inserted value.  Here the description is moved to the
insertion index `insertMu x = min(bisect_right, len(knots) - p)` of the code and back to the array:
for every valid periodic basis (no guard `n ≥ p + k`), every `x ∈ [start, end]` and every array index
`j` with `|j - insertMu x| ≤ n`, the new knot `j` is `np.insert(knots, insertMu x, x)[j]`.
Farther away the new knots follow from the ghost condition of the (valid) new basis.
-/

namespace Splipy

set_option linter.unusedSectionVars false
set_option linter.unusedVariables false

open C04

variable {K : Type} [Field K] [LinearOrder K] [IsStrictOrderedRing K] [FloorRing K]

theorem wrapVal_of_mem (b : Basis K) (x : K) (h1 : b.start ≤ x) (h2 : x ≤ b.stop) :
    wrapVal b x = x := by
  unfold wrapVal
  rw [if_neg]
  rintro (h | h)
  · exact absurd h1 (not_le.2 h)
  · exact absurd h2 (not_le.2 h)

/-- `insZ` at a natural position, read at a natural index, is `insertSeq` of the array. -/
theorem insZ_zext_nat (b : Basis K) (hv : b.Valid) (hper : 0 ≤ b.periodic) (m : ℕ) (x : K) (j : ℕ)
    (hm : m ≤ b.knots.size) (hj : j ≤ b.knots.size) :
    insZ (zext b) (m : ℤ) x (j : ℤ) = insertSeq b.kn m x j := by
  unfold insertSeq insZ
  by_cases ha : j < m
  · have ha' : (j : ℤ) < (m : ℤ) := by exact_mod_cast ha
    rw [if_pos ha, if_pos ha', zext_kn b hv hper j (by omega)]
  · have ha' : ¬ (j : ℤ) < (m : ℤ) := by exact_mod_cast ha
    rw [if_neg ha, if_neg ha']
    by_cases hb : j = m
    · have hb' : (j : ℤ) = (m : ℤ) := by exact_mod_cast hb
      rw [if_pos hb, if_pos hb']
    · have hb' : ¬ (j : ℤ) = (m : ℤ) := by exact_mod_cast hb
      rw [if_neg hb, if_neg hb']
      have : ((j : ℤ) - 1) = ((j - 1 : ℕ) : ℤ) := by omega
      rw [this, zext_kn b hv hper (j - 1) (by omega)]

/-- **One periodic insertion, any number of functions, on the array.** -/
theorem insertKnot_periodic_window (b : Basis K) (hv : b.Valid) (k : ℕ) (hk : b.periodic = (k : Int))
    (x : K) (hx : b.start ≤ x ∧ x ≤ b.stop) :
    ∃ b' C, b.insertKnot x = .ok (b', C) ∧ PerRefines b b' C 1 ∧
      ∀ j, b.insertMu x ≤ j + b.numFunctions → j ≤ b.insertMu x + b.numFunctions →
        j ≤ b.knots.size → b'.kn j = insertSeq b.kn (b.insertMu x) x j := by
  obtain ⟨b', C, e1, hr, μ, hμ⟩ := insertKnot_per_step_all b hv k hk x
  rw [wrapVal_of_mem b x hx.1 hx.2] at hμ
  refine ⟨b', C, e1, hr, ?_⟩
  have hper : 0 ≤ b.periodic := by rw [hk]; omega
  have hper' : 0 ≤ b'.periodic := by rw [hr.periodic_eq]; exact hper
  have hn1 := numFunctions_pos hv
  have hn := numFunctions_periodic b k hk
  have hp := hv.order_pos
  have hsz := hv.size_ge
  have hTpos : 0 < b.stop - b.start := sub_pos.2 hv.start_lt_stop
  have hf := zext_mono b hv k hk
  have hf' := zext_mono b' hr.valid k (hr.periodic_eq.trans hk)
  have h0 := zext_add b hv
  have h1' : ∀ i, zext b' (i + ((b.numFunctions : ℤ) + 1)) = zext b' i + (b.stop - b.start) := by
    intro i
    have := zext_add b' hr.valid i
    rw [hr.num_eq, hr.start_eq, hr.stop_eq] at this
    push_cast at this
    exact this
  -- the description on `[μ - n, μ + n]`
  have hw : ∀ i, μ - b.numFunctions ≤ i → i ≤ μ + b.numFunctions →
      zext b' i = insZ (zext b) μ x i :=
    insZ_extend (zext b) (zext b') b.numFunctions (b.stop - b.start) μ (μ - b.numFunctions) x h0 h1'
      (by omega) (by omega) (fun i hi1 hi2 => hμ i hi1 (by omega))
  -- `μ` is a sorted position of `x`
  have hpos : zext b (μ - 1) ≤ x ∧ x ≤ zext b μ := by
    constructor
    · have a1 := hw (μ - 1) (by omega) (by omega)
      have a2 := hw μ (by omega) (by omega)
      rw [insZ_lt (by omega)] at a1
      rw [insZ_self] at a2
      rw [← a1, ← a2]
      exact hf' (by omega)
    · have a1 := hw (μ + 1) (by omega) (by omega)
      have a2 := hw μ (by omega) (by omega)
      rw [insZ_gt (by omega), show μ + 1 - 1 = μ by ring] at a1
      rw [insZ_self] at a2
      rw [← a1, ← a2]
      exact hf' (by omega)
  -- so is the insertion index of the code
  obtain ⟨m1, m2, m3, m4, _, _⟩ := insertMu_spec b hv k hk x hx
  set ms := b.insertMu x with hms
  have hpos' : zext b ((ms : ℤ) - 1) ≤ x ∧ x ≤ zext b (ms : ℤ) := by
    have : ((ms : ℤ) - 1) = ((ms - 1 : ℕ) : ℤ) := by omega
    rw [this, zext_kn b hv hper (ms - 1) (by omega), zext_kn b hv hper ms (by omega)]
    exact ⟨m3, m4⟩
  -- the two positions are at most one period apart
  have hclose1 : (ms : ℤ) ≤ μ + b.numFunctions := by
    by_contra hc
    have a1 : zext b (μ + b.numFunctions) ≤ zext b ((ms : ℤ) - 1) := hf (by omega)
    rw [h0 μ] at a1
    linarith [hpos.2, hpos'.1]
  have hclose2 : μ ≤ (ms : ℤ) + b.numFunctions := by
    by_contra hc
    have a1 : zext b ((ms : ℤ) + b.numFunctions) ≤ zext b (μ - 1) := hf (by omega)
    rw [h0 (ms : ℤ)] at a1
    linarith [hpos.1, hpos'.2]
  have heq : insZ (zext b) μ x = insZ (zext b) (ms : ℤ) x := by
    rcases le_total (ms : ℤ) μ with h | h
    · exact insZ_pos_indep (zext b) hf μ ms x hpos hpos' h
    · exact (insZ_pos_indep (zext b) hf ms μ x hpos' hpos h).symm
  have hw' : ∀ i, (ms : ℤ) - b.numFunctions ≤ i → i ≤ (ms : ℤ) + b.numFunctions →
      zext b' i = insZ (zext b) (ms : ℤ) x i := by
    apply insZ_extend (zext b) (zext b') b.numFunctions (b.stop - b.start) (ms : ℤ) (min μ (ms : ℤ)) x
      h0 h1' (min_le_right _ _) (by rcases le_total μ (ms : ℤ) with h | h
                                    · rw [min_eq_left h]; omega
                                    · rw [min_eq_right h]; omega)
    intro i hi1 hi2
    rw [← heq]
    apply hw i
    · rcases le_total μ (ms : ℤ) with h | h
      · rw [min_eq_left h] at hi1; omega
      · rw [min_eq_right h] at hi1; omega
    · have : min μ (ms : ℤ) ≤ μ := min_le_left _ _
      omega
  intro j hj1 hj2 hj3
  rw [← zext_kn b' hr.valid hper' j (by rw [hr.size_eq]; omega),
    hw' (j : ℤ) (by omega) (by omega), insZ_zext_nat b hv hper ms x j (by omega) hj3]

/-- The run of knots equal to one value is at most one period long. -/
theorem kn_run_le_period {b : Basis K} (hv : b.Valid) (k : ℕ) (hk : b.periodic = (k : Int))
    (i j : ℕ) (hij : i + b.numFunctions ≤ j) (hj : j < b.knots.size) : b.kn i < b.kn j := by
  have hper : 0 ≤ b.periodic := by rw [hk]; omega
  have hTpos : 0 < b.stop - b.start := sub_pos.2 hv.start_lt_stop
  have h1 := hv.ghosts hper i (by omega)
  have h2 : b.kn (i + b.numFunctions) ≤ b.kn j := hv.kn_mono hij
  linarith

end Splipy
