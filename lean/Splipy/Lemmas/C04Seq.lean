import Splipy.Lemmas.C04Basis
import Splipy.Model.Object

/-!
# C04 helper lemmas, part 4: products of insertion matrices (`C = C_k @ … @ C_1 @ I`)
-/

namespace Splipy
namespace C04

set_option linter.unusedSectionVars false

variable {K : Type} [Field K] [LinearOrder K]

theorem foldl_add_eq_sum (f : ℕ → K) (k : ℕ) :
    (List.range k).foldl (fun acc l => acc + f l) 0 = (Finset.range k).sum f := by
  induction k with
  | zero => simp
  | succ k ih => rw [List.range_succ, List.foldl_append, ih, Finset.sum_range_succ]; rfl

theorem entry_ofFn2 (a m : ℕ) (f : ℕ → ℕ → K) (i j : ℕ) (hi : i < a) (hj : j < m) :
    entry (Array.ofFn (n := a) (fun i => Array.ofFn (n := m) (fun j => f i.val j.val))) i j = f i j := by
  simp [entry, Array.getD_eq_getD_getElem?, hi, hj]

theorem shape_ofFn2 (a m : ℕ) (f : ℕ → ℕ → K) :
    Shape a m (Array.ofFn (n := a) (fun i => Array.ofFn (n := m) (fun j => f i.val j.val))) := by
  refine ⟨by simp, fun r hr => ?_⟩
  simp [Array.getD_eq_getD_getElem?, hr]

/-- entry function of `Mat.mul` -/
def mulFn (A B : Mat K) (m : ℕ) (i j : ℕ) : K :=
  (List.range m).foldl (fun acc l => acc + A.get i l * B.get l j) 0

theorem mul_eq {a m n : ℕ} {A B : Mat K} (h1 : A.nrows = a) (h2 : B.ncols = n) (h3 : B.nrows = m) :
    Mat.mul A B = Array.ofFn (n := a) (fun i => Array.ofFn (n := n) (fun j =>
      mulFn A B m i.val j.val)) := by
  subst h1 h2 h3; rfl

theorem shape_mul {a m n : ℕ} {A B : Mat K} (hA : Shape a m A) (hB : Shape m n B) (hm : 0 < m) :
    Shape a n (Mat.mul A B) := by
  rw [mul_eq (K := K) hA.1 (hB.2 0 hm) hB.1]
  exact shape_ofFn2 a n (mulFn A B m)

theorem entry_mul {a m n : ℕ} {A B : Mat K} (hA : Shape a m A) (hB : Shape m n B) (hm : 0 < m)
    (i j : ℕ) (hi : i < a) (hj : j < n) :
    entry (Mat.mul A B) i j = (Finset.range m).sum (fun l => entry A i l * entry B l j) := by
  rw [mul_eq (K := K) hA.1 (hB.2 0 hm) hB.1, entry_ofFn2 a n (mulFn A B m) i j hi hj]
  unfold mulFn
  rw [foldl_add_eq_sum]
  rfl

theorem mulVec_mul {a m n : ℕ} {A B : Mat K} (hA : Shape a m A) (hB : Shape m n B) (hm : 0 < m)
    (c : ℕ → K) (r : ℕ) (hr : r < a) :
    mulVec (Mat.mul A B) n c r = mulVec A m (mulVec B n c) r := by
  unfold mulVec
  have : ∀ j ∈ Finset.range n, entry (Mat.mul A B) r j * c j
      = (Finset.range m).sum (fun l => entry A r l * entry B l j * c j) := by
    intro j hj
    rw [entry_mul hA hB hm r j hr (Finset.mem_range.1 hj), Finset.sum_mul]
  rw [Finset.sum_congr rfl this, Finset.sum_comm]
  apply Finset.sum_congr rfl
  intro l _
  rw [Finset.mul_sum]
  apply Finset.sum_congr rfl
  intro j _
  ring

theorem shape_identity (n : ℕ) : Shape n n (Mat.identity n : Mat K) :=
  shape_ofFn2 n n (fun i j => if i = j then 1 else 0)

theorem mulVec_identity (n : ℕ) (c : ℕ → K) (r : ℕ) (hr : r < n) :
    mulVec (Mat.identity n : Mat K) n c r = c r := by
  unfold mulVec
  have : ∀ j ∈ Finset.range n, entry (Mat.identity n : Mat K) r j * c j
      = if r = j then c j else 0 := by
    intro j hj
    unfold Mat.identity
    rw [entry_ofFn2 n n (fun i j => if i = j then (1:K) else 0) r j hr (Finset.mem_range.1 hj)]
    split_ifs <;> simp
  rw [Finset.sum_congr rfl this, Finset.sum_ite_eq (Finset.range n) r c,
    if_pos (Finset.mem_range.2 hr)]


section seq

variable [IsStrictOrderedRing K] [FloorRing K]

theorem numFunctions_pos {b : Basis K} (hv : b.Valid) : 1 ≤ b.numFunctions := by
  have h1 := hv.size_ge
  have h2 := hv.order_pos
  have h3 := hv.periodic_ge
  have h4 := hv.periodic_le
  unfold Basis.numFunctions; omega

theorem refines_refl (b : Basis K) (hv : b.Valid) :
    Refines b b (Mat.identity b.numFunctions) 0 := by
  refine ⟨hv, rfl, rfl, rfl, rfl, rfl, rfl, shape_identity _, fun c s t => ⟨?_, fun d => ?_⟩⟩
  · exact splineVal_congr s _ _ _ _ _ t (fun r hr => mulVec_identity _ c r hr)
  · exact splineDeriv_congr s _ _ _ _ _ d t (fun r hr => mulVec_identity _ c r hr)

theorem refines_trans {b b1 b2 : Basis K} {C1 C2 : Mat K} {k1 k2 : ℕ} (hv : b.Valid)
    (h1 : Refines b b1 C1 k1) (h2 : Refines b1 b2 C2 k2) :
    Refines b b2 (Mat.mul C2 C1) (k1 + k2) := by
  have hn := numFunctions_pos hv
  have hA : Shape (b.numFunctions + k1 + k2) (b.numFunctions + k1) C2 := by
    have := h2.shape; rwa [h1.num_eq] at this
  have hmv : ∀ (c : ℕ → K) r, r < b.numFunctions + (k1 + k2) →
      mulVec (Mat.mul C2 C1) b.numFunctions c r
        = mulVec C2 (b.numFunctions + k1) (mulVec C1 b.numFunctions c) r :=
    fun c r hr => mulVec_mul hA h1.shape (by omega) c r (by omega)
  refine ⟨h2.valid, h2.order_eq.trans h1.order_eq, h2.periodic_eq.trans h1.periodic_eq, ?_, ?_,
    h2.start_eq.trans h1.start_eq, h2.stop_eq.trans h1.stop_eq, ?_, fun c s t => ⟨?_, fun d => ?_⟩⟩
  · rw [h2.size_eq, h1.size_eq]; omega
  · rw [h2.num_eq, h1.num_eq]; omega
  · rw [← Nat.add_assoc]; exact shape_mul hA h1.shape (by omega)
  · rw [splineVal_congr s _ _ _ _ _ t (hmv c)]
    have e2 := (h2.same (mulVec C1 b.numFunctions c) s t).1
    rw [h1.order_eq, h1.num_eq] at e2
    rw [← Nat.add_assoc, e2]
    exact (h1.same c s t).1
  · rw [splineDeriv_congr s _ _ _ _ _ d t (hmv c)]
    have e2 := (h2.same (mulVec C1 b.numFunctions c) s t).2 d
    rw [h1.order_eq, h1.num_eq] at e2
    rw [← Nat.add_assoc, e2]
    exact (h1.same c s t).2 d

/-- One pass of the loop of `SplineObject.insert_knot`: `C = basis.insert_knot(k) @ C`. -/
def stepIns (bc : Basis K × Mat K) (x : K) : PyM (Basis K × Mat K) := do
  let (b', Ck) ← bc.1.insertKnot x
  pure (b', Mat.mul Ck bc.2)

/-- The accumulated insertion of a list of knots (the `foldlM` inside `Obj.insertKnots`). -/
def insertMany (b : Basis K) (C0 : Mat K) (xs : List K) : PyM (Basis K × Mat K) :=
  xs.foldlM stepIns (b, C0)

theorem insertKnots_eq (o : Obj K) (knots : List K) (dir : ℕ) :
    o.insertKnots knots dir =
      (insertMany (o.basis dir) (Mat.identity (o.cps.shape.getD dir 0)) knots >>= fun bc =>
        pure { o with bases := o.bases.set! dir bc.1, cps := Tensor.applyAxis bc.2 o.cps dir }) := by
  rfl

/-- Sequence of insertions into a valid non-periodic basis, all values in `[start, end)`:
    generalised over the accumulated matrix. -/
theorem insertMany_open_aux (b0 : Basis K) (hv0 : b0.Valid) (xs : List K) :
    ∀ (b : Basis K) (Cacc : Mat K) (k : ℕ), Refines b0 b Cacc k → b0.periodic = -1 →
      (∀ x ∈ xs, b0.start ≤ x ∧ x < b0.stop) →
      ∃ b' C, insertMany b Cacc xs = .ok (b', C) ∧ Refines b0 b' C (k + xs.length) ∧
        b'.knots.toList.Perm (xs ++ b.knots.toList) := by
  induction xs with
  | nil =>
    intro b Cacc k h _ _
    exact ⟨b, Cacc, rfl, h, List.Perm.refl _⟩
  | cons x xs ih =>
    intro b Cacc k h hper hxs
    have hx := hxs x List.mem_cons_self
    have hper' : b.periodic = -1 := h.periodic_eq.trans hper
    obtain ⟨b1, C1, hins, hr1, _, hperm1⟩ := insertKnot_open b h.valid hper' x
      ⟨by rw [h.start_eq]; exact hx.1, by rw [h.stop_eq]; exact le_of_lt hx.2⟩
      (guard_of_lt_stop b h.valid x (by rw [h.stop_eq]; exact hx.2))
    obtain ⟨b', C, hm, hr, hperm⟩ := ih b1 (Mat.mul C1 Cacc) (k + 1) (refines_trans hv0 h hr1) hper
      (fun y hy => hxs y (List.mem_cons_of_mem _ hy))
    refine ⟨b', C, ?_, ?_, ?_⟩
    · unfold insertMany at hm ⊢
      rw [List.foldlM_cons]
      have : stepIns (b, Cacc) x = .ok (b1, Mat.mul C1 Cacc) := by
        unfold stepIns
        simp only [hins]
        rfl
      rw [this]
      exact hm
    · have e : k + (x :: xs).length = k + 1 + xs.length := by simp; omega
      rw [e]; exact hr
    · refine hperm.trans ?_
      have : (xs ++ b1.knots.toList).Perm (xs ++ x :: b.knots.toList) :=
        List.Perm.append_left xs hperm1
      refine this.trans ?_
      simp

/-- Sequence of insertions, starting from the identity (as `SplineObject.insert_knot` does). -/
theorem insertMany_open (b : Basis K) (hv : b.Valid) (hper : b.periodic = -1) (xs : List K)
    (hxs : ∀ x ∈ xs, b.start ≤ x ∧ x < b.stop) :
    ∃ b' C, insertMany b (Mat.identity b.numFunctions) xs = .ok (b', C) ∧
      Refines b b' C xs.length ∧ b'.knots.toList.Perm (xs ++ b.knots.toList) := by
  obtain ⟨b', C, h1, h2, h3⟩ :=
    insertMany_open_aux b hv xs b (Mat.identity b.numFunctions) 0 (refines_refl b hv) hper hxs
  exact ⟨b', C, h1, by simpa using h2, h3⟩

end seq

end C04
end Splipy
