import Mathlib.Data.List.Nodup
import Splipy.Lemmas.C18Numbering

/-!
# C18 — "same number ⇒ same point" for every history

The read phase only moves entries around.  Run it (in thought) on the arrays of PAIRS
`(number, control point)`: by naturality its first components are the numbers the algorithm
produces, and — provided transporting the control points through the face links reproduces the
control points (`Orientation.compute` is sound) — its second components are the control points.
All pairs of the result are pairs of the start, where the numbers other than `-1` are fresh,
hence pairwise different: a number determines its point.
-/

namespace Splipy.MP.C18L

variable {γ : Type} [Inhabited γ]

/-- numbers and control points of one patch side by side -/
def zipNd (a : NdArr ℤ) (b : NdArr γ) : NdArr (ℤ × γ) := ⟨a.shape, a.data.zip b.data⟩

/-- the two lists of arrays describe patches of the same shapes -/
def Compat (ns : List (NdArr ℤ)) (ps : List (NdArr γ)) : Prop :=
  List.Forall₂ (fun n p => n.shape = p.shape ∧ n.data.size = p.data.size) ns ps

omit [Inhabited γ] in
theorem zipNd_fst (a : NdArr ℤ) (b : NdArr γ) (h : a.data.size = b.data.size) :
    (zipNd a b).map Prod.fst = a := by
  obtain ⟨sa, da⟩ := a
  simp only [zipNd, NdArr.map] at *
  congr 1
  rw [Array.map_fst_zip]
  omega

omit [Inhabited γ] in
theorem zipNd_snd (a : NdArr ℤ) (b : NdArr γ) (h1 : a.shape = b.shape) (h : a.data.size = b.data.size) :
    (zipNd a b).map Prod.snd = b := by
  obtain ⟨sa, da⟩ := a
  obtain ⟨sb, db⟩ := b
  simp only [zipNd, NdArr.map] at *
  subst h1
  congr 1
  rw [Array.map_snd_zip]
  omega

omit [Inhabited γ] in
theorem zip_fst {ns : List (NdArr ℤ)} {ps : List (NdArr γ)} (h : Compat ns ps) :
    (List.zipWith zipNd ns ps).map (NdArr.map Prod.fst) = ns := by
  induction h with
  | nil => rfl
  | cons hab _ ih =>
    simp only [List.zipWith_cons_cons, List.map_cons, ih]
    rw [zipNd_fst _ _ hab.2]

omit [Inhabited γ] in
theorem zip_snd {ns : List (NdArr ℤ)} {ps : List (NdArr γ)} (h : Compat ns ps) :
    (List.zipWith zipNd ns ps).map (NdArr.map Prod.snd) = ps := by
  induction h with
  | nil => rfl
  | cons hab _ ih =>
    simp only [List.zipWith_cons_cons, List.map_cons, ih]
    rw [zipNd_snd _ _ hab.1 hab.2]

omit [Inhabited γ] in
theorem allData_map {α β : Type} (f : α → β) (l : List (NdArr α)) :
    allData (l.map (NdArr.map f)) = (allData l).map f := by
  induction l with
  | nil => rfl
  | cons a l ih =>
    simp only [allData, List.map_cons, List.flatMap_cons, List.map_append] at ih ⊢
    rw [ih]
    simp [NdArr.map]

omit [Inhabited γ] in
theorem allEntries_toArray {α : Type} (l : List (NdArr α)) (x : α) (h : AllEntries l.toArray x) : x ∈ allData l := by
  obtain ⟨j, hj⟩ := h
  simp only [Array.getD_eq_getD_getElem?, List.getElem?_toArray] at hj
  cases hl : l[j]? with
  | none =>
    rw [hl] at hj
    have hd : (default : NdArr α).data = #[] := rfl
    simp [hd] at hj
  | some a =>
    rw [hl] at hj
    exact List.mem_flatMap.2 ⟨a, List.mem_of_getElem? hl, hj⟩

omit [Inhabited γ] in
theorem eq_of_nodup_filter_map {L : List (ℤ × γ)} (h : ((L.map Prod.fst).filter (· ≠ -1)).Nodup)
    {x y : ℤ × γ} (hx : x ∈ L) (hy : y ∈ L) (hxy : x.1 = y.1) (hne : x.1 ≠ -1) : x = y := by
  have h' : ((L.filter (fun z => z.1 ≠ -1)).map Prod.fst).Nodup := by
    rw [List.filter_map] at h
    simpa [Function.comp_def] using h
  refine List.inj_on_of_nodup_map h' ?_ ?_ hxy
  · exact List.mem_filter.2 ⟨hx, by simpa using hne⟩
  · exact List.mem_filter.2 ⟨hy, by simpa [← hxy] using hne⟩

theorem numberPlans_ok {plans : List PatchPlan} {N : Array (NdArr ℤ)} {ncps : ℕ}
    (h : numberPlans plans = .ok (N, ncps)) :
    readAllG plans (generateAll plans 0).1.toArray = .ok N ∧ ncps = (generateAll plans 0).2 := by
  unfold numberPlans at h
  simp only [bind, Except.bind, pure, Except.pure] at h
  split at h
  · cases h
  · rename_i A hA
    simp only [Except.ok.injEq, Prod.mk.injEq] at h
    obtain ⟨rfl, rfl⟩ := h
    exact ⟨readAll_ok _ _ _ hA, rfl⟩

/-- **A number determines its point — for every history.**
    `P` are the control nets of the patches (same shapes as the number arrays), transporting them
    through the face links reproduces them (`hG1`: soundness of the orientations in the plan), no
    control point is the junk value `default`.  Then there are arrays `Z` of pairs whose first
    components are the final numbers and whose second components are the control points, and two
    entries anywhere in the model with the same number (other than `-1`) carry the same point. -/
theorem number_determines_point (plans : List PatchPlan) (P : List (NdArr γ))
    (hcompat : Compat (generateAll plans 0).1 P)
    (hG1 : readAllG plans P.toArray = .ok P.toArray)
    (hpts : ∀ p ∈ allData P, p ≠ default)
    (N : Array (NdArr ℤ)) (ncps : ℕ) (hnum : numberPlans plans = .ok (N, ncps)) :
    ∃ Z : Array (NdArr (ℤ × γ)), Z.map (NdArr.map Prod.fst) = N ∧ Z.map (NdArr.map Prod.snd) = P.toArray ∧
      ∀ x y, AllEntries Z x → AllEntries Z y → x.1 = y.1 → x.1 ≠ -1 → x.2 = y.2 := by
  obtain ⟨hread, -⟩ := numberPlans_ok hnum
  set N0 := (generateAll plans 0).1 with hN0
  set Z0 := List.zipWith zipNd N0 P with hZ0
  have hf : Z0.toArray.map (NdArr.map Prod.fst) = N0.toArray := by
    rw [List.map_toArray, zip_fst hcompat]
  have hs : Z0.toArray.map (NdArr.map Prod.snd) = P.toArray := by
    rw [List.map_toArray, zip_snd hcompat]
  have nat1 := readAllG_map (Prod.fst : ℤ × γ → ℤ) rfl plans Z0.toArray
  have nat2 := readAllG_map (Prod.snd : ℤ × γ → γ) rfl plans Z0.toArray
  rw [hf, hread] at nat1
  rw [hs, hG1] at nat2
  cases hZ : readAllG plans Z0.toArray with
  | error e => rw [hZ] at nat1; cases nat1
  | ok Z =>
    rw [hZ] at nat1 nat2
    simp only [Except.map, Except.ok.injEq] at nat1 nat2
    refine ⟨Z, nat1.symm, nat2.symm, ?_⟩
    -- entries of `Z` are entries of `Z0` or junk; junk has the point `default`
    have hZpts : ∀ x, AllEntries Z x → x.2 ≠ default := by
      intro x ⟨j, hj⟩
      have : x.2 ∈ ((Z.map (NdArr.map Prod.snd)).getD j default).data.toList := by
        rw [getD_map_arrays Prod.snd rfl]
        simp only [NdArr.map, Array.toList_map]
        exact List.mem_map_of_mem hj
      rw [← nat2] at this
      exact hpts _ (allEntries_toArray P _ ⟨j, this⟩)
    have hback : ∀ x, AllEntries Z x → x ∈ allData Z0 := by
      intro x hx
      rcases readAllG_entries hZ hx with h | h
      · exact absurd (by rw [h]; rfl) (hZpts x hx)
      · exact allEntries_toArray Z0 x h
    have hnodup : (((allData Z0).map Prod.fst).filter (· ≠ -1)).Nodup := by
      rw [← allData_map, zip_fst hcompat, (generateAll_fresh plans 0).2]
      exact (List.nodup_range' (step := 1)).map (fun a b h => by exact_mod_cast h)
    intro x y hx hy hxy hne
    rw [eq_of_nodup_filter_map hnodup (hback x hx) (hback y hy) hxy hne]

end Splipy.MP.C18L
