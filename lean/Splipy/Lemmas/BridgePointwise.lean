import Splipy.Lemmas.BridgeTransfer

/-!
# Bridge (p11), part 7: from `tensor=True` to `tensor=False`

If two objects return the same tensor for `evaluate(…, tensor=True)` at parameter lists of the same
lengths, they return the same value (tensor or `ValueError`) for `tensor=False`: the pointwise
result is the diagonal of the grid result (`C02_pointwise_is_diagonal_obj_*`), and the length test
only looks at the lengths.
-/

namespace Splipy
namespace Bridge

set_option linter.unusedSectionVars false

open Finset

variable {K : Type} [Field K] [LinearOrder K] [IsStrictOrderedRing K] [FloorRing K]

omit [LinearOrder K] [IsStrictOrderedRing K] [FloorRing K] in
/-- Two `m × d` arrays with the same entries. -/
theorem data_ext2 {t t' : Tensor K} {m d : ℕ} (hsz : t.data.size = m * d)
    (hsz' : t'.data.size = m * d)
    (h : ∀ i c, i < m → c < d → t'.get (i * d + c) = t.get (i * d + c)) : t'.data = t.data := by
  apply data_ext (by rw [hsz, hsz'])
  intro k hk
  rw [hsz] at hk
  have hdpos : 0 < d := by
    rcases Nat.eq_zero_or_pos d with h0 | h0
    · rw [h0] at hk; omega
    · exact h0
  have := h (k / d) (k % d) (Nat.div_lt_of_lt_mul (by rw [Nat.mul_comm]; exact hk))
    (Nat.mod_lt _ hdpos)
  rw [Nat.div_add_mod' k d] at this
  exact this

theorem dim_eq {o o' : Obj K} {pre pre' : List ℕ} {nc : ℕ} (hs : o.cps.shape = pre ++ [nc])
    (hs' : o'.cps.shape = pre' ++ [nc]) (hrat : o'.rational = o.rational) :
    o'.dimension = o.dimension := by
  rw [(Obj.dimension_of_shape hs).2, (Obj.dimension_of_shape hs').2, hrat]

/-- Curves. -/
theorem pointwise_curve {o o' : Obj K} {b1 b1' : Basis K} (hb : o.bases = #[b1])
    (hb' : o'.bases = #[b1']) (hv1 : b1.Valid) (hv1' : b1'.Valid) {n1 n1' nc : ℕ}
    (hs : o.cps.shape = [n1, nc]) (hs' : o'.cps.shape = [n1', nc])
    (hrat : o'.rational = o.rational) (hnc : o.rational = true → 1 ≤ nc) {tol : K}
    (htol : 0 < tol) {us us' : List K} (hlen : us'.length = us.length)
    (hus : ∀ u ∈ us, b1.Admissible tol u) (hus' : ∀ u ∈ us', b1'.Admissible tol u)
    (h : o'.evaluate tol [us'] true = o.evaluate tol [us] true)
    (hneA1 : b1.periodic < 0 → us ≠ [] := by (first | assumption | (simp; done) | skip))
    (hneA2 : b1'.periodic < 0 → us' ≠ [] := by (first | assumption | (simp; done) | skip)) :
    o'.evaluate tol [us'] false = o.evaluate tol [us] false := by
  have hdim := dim_eq (pre := [n1]) (pre' := [n1']) hs hs' hrat
  obtain ⟨rg, rp, e1, e2, sh, sz, ent⟩ := Obj.evaluate1_pointwise_diag hb hs hnc tol us
    (Obj.not_outOfDomain1 hb hv1 htol hus)
  obtain ⟨rg', rp', e1', e2', sh', sz', ent'⟩ := Obj.evaluate1_pointwise_diag hb' hs'
    (by rw [hrat]; exact hnc) tol us' (Obj.not_outOfDomain1 hb' hv1' htol hus')
  rw [e1, e1'] at h
  injection h with h
  subst h
  rw [hlen, hdim] at sh' sz' ent'
  rw [e2, e2', tensor_eq (by rw [sh, sh']) (data_ext2 sz sz' (fun i c hi hc => by
    rw [ent i c hi hc, ent' i c hi hc]))]

/-- The length test fails for both calls alike. -/
theorem pointwise_len_error (o o' : Obj K) (tol : K) {ps ps' : List (List K)}
    (hl : ps'.map List.length = ps.map List.length)
    (hne : (ps.map List.length).eraseDups.length ≠ 1) :
    o'.evaluate tol ps' false = o.evaluate tol ps false := by
  rw [o.evaluate_error_len tol ps false ⟨rfl, hne⟩,
    o'.evaluate_error_len tol ps' false ⟨rfl, by rw [hl]; exact hne⟩]

/-- Surfaces. -/
theorem pointwise_surface {o o' : Obj K} {b1 b1' b2 b2' : Basis K} (hb : o.bases = #[b1, b2])
    (hb' : o'.bases = #[b1', b2']) (hv1 : b1.Valid) (hv1' : b1'.Valid) (hv2 : b2.Valid)
    (hv2' : b2'.Valid) {n1 n1' n2 n2' nc : ℕ}
    (hs : o.cps.shape = [n1, n2, nc]) (hs' : o'.cps.shape = [n1', n2', nc])
    (hrat : o'.rational = o.rational) (hnc : o.rational = true → 1 ≤ nc) {tol : K}
    (htol : 0 < tol) {us us' vs vs' : List K} (hlen1 : us'.length = us.length)
    (hlen2 : vs'.length = vs.length)
    (hus : ∀ u ∈ us, b1.Admissible tol u) (hus' : ∀ u ∈ us', b1'.Admissible tol u)
    (hvs : ∀ v ∈ vs, b2.Admissible tol v) (hvs' : ∀ v ∈ vs', b2'.Admissible tol v)
    (h : o'.evaluate tol [us', vs'] true = o.evaluate tol [us, vs] true)
    (hneA1 : b1.periodic < 0 → us ≠ [] := by (first | assumption | (simp; done) | skip))
    (hneA2 : b2.periodic < 0 → vs ≠ [] := by (first | assumption | (simp; done) | skip))
    (hneA3 : b1'.periodic < 0 → us' ≠ [] := by (first | assumption | (simp; done) | skip))
    (hneA4 : b2'.periodic < 0 → vs' ≠ [] := by (first | assumption | (simp; done) | skip)) :
    o'.evaluate tol [us', vs'] false = o.evaluate tol [us, vs] false := by
  by_cases hl : vs.length = us.length
  · have hdim := dim_eq (pre := [n1, n2]) (pre' := [n1', n2']) hs hs' hrat
    obtain ⟨rg, rp, e1, e2, sh, sz, ent⟩ := Obj.evaluate2_pointwise_diag hb hs hnc tol us vs hl
      (Obj.not_outOfDomain2 hb hv1 hv2 htol hus hvs)
    obtain ⟨rg', rp', e1', e2', sh', sz', ent'⟩ := Obj.evaluate2_pointwise_diag hb' hs'
      (by rw [hrat]; exact hnc) tol us' vs' (by rw [hlen1, hlen2]; exact hl)
      (Obj.not_outOfDomain2 hb' hv1' hv2' htol hus' hvs')
    rw [e1, e1'] at h
    injection h with h
    subst h
    rw [hlen1, hdim] at sh' sz' ent'
    rw [hlen2] at ent'
    rw [e2, e2', tensor_eq (by rw [sh, sh']) (data_ext2 sz sz' (fun i c hi hc => by
      rw [ent i c hi hc, ent' i c hi hc]))]
  · apply pointwise_len_error
    · simp [hlen1, hlen2]
    · rw [Ne, eraseDups_length_eq_one_iff]
      rintro ⟨_, h2⟩
      exact hl (h2 vs.length (by simp) us.length (by simp))

/-- Volumes. -/
theorem pointwise_volume {o o' : Obj K} {b1 b1' b2 b2' b3 b3' : Basis K}
    (hb : o.bases = #[b1, b2, b3]) (hb' : o'.bases = #[b1', b2', b3']) (hv1 : b1.Valid)
    (hv1' : b1'.Valid) (hv2 : b2.Valid) (hv2' : b2'.Valid) (hv3 : b3.Valid) (hv3' : b3'.Valid)
    {n1 n1' n2 n2' n3 n3' nc : ℕ}
    (hs : o.cps.shape = [n1, n2, n3, nc]) (hs' : o'.cps.shape = [n1', n2', n3', nc])
    (hrat : o'.rational = o.rational) (hnc : o.rational = true → 1 ≤ nc) {tol : K}
    (htol : 0 < tol) {us us' vs vs' ws ws' : List K} (hlen1 : us'.length = us.length)
    (hlen2 : vs'.length = vs.length) (hlen3 : ws'.length = ws.length)
    (hus : ∀ u ∈ us, b1.Admissible tol u) (hus' : ∀ u ∈ us', b1'.Admissible tol u)
    (hvs : ∀ v ∈ vs, b2.Admissible tol v) (hvs' : ∀ v ∈ vs', b2'.Admissible tol v)
    (hws : ∀ w ∈ ws, b3.Admissible tol w) (hws' : ∀ w ∈ ws', b3'.Admissible tol w)
    (h : o'.evaluate tol [us', vs', ws'] true = o.evaluate tol [us, vs, ws] true)
    (hneA1 : b1.periodic < 0 → us ≠ [] := by (first | assumption | (simp; done) | skip))
    (hneA2 : b2.periodic < 0 → vs ≠ [] := by (first | assumption | (simp; done) | skip))
    (hneA3 : b3.periodic < 0 → ws ≠ [] := by (first | assumption | (simp; done) | skip))
    (hneA4 : b1'.periodic < 0 → us' ≠ [] := by (first | assumption | (simp; done) | skip))
    (hneA5 : b2'.periodic < 0 → vs' ≠ [] := by (first | assumption | (simp; done) | skip))
    (hneA6 : b3'.periodic < 0 → ws' ≠ [] := by (first | assumption | (simp; done) | skip)) :
    o'.evaluate tol [us', vs', ws'] false = o.evaluate tol [us, vs, ws] false := by
  by_cases hl : vs.length = us.length ∧ ws.length = us.length
  · have hdim := dim_eq (pre := [n1, n2, n3]) (pre' := [n1', n2', n3']) hs hs' hrat
    obtain ⟨rg, rp, e1, e2, sh, sz, ent⟩ := Obj.evaluate3_pointwise_diag hb hs hnc tol us vs ws
      hl.1 hl.2 (Obj.not_outOfDomain3 hb hv1 hv2 hv3 htol hus hvs hws)
    obtain ⟨rg', rp', e1', e2', sh', sz', ent'⟩ := Obj.evaluate3_pointwise_diag hb' hs'
      (by rw [hrat]; exact hnc) tol us' vs' ws' (by rw [hlen1, hlen2]; exact hl.1)
      (by rw [hlen1, hlen3]; exact hl.2)
      (Obj.not_outOfDomain3 hb' hv1' hv2' hv3' htol hus' hvs' hws')
    rw [e1, e1'] at h
    injection h with h
    subst h
    rw [hlen1, hdim] at sh' sz' ent'
    rw [hlen2, hlen3] at ent'
    rw [e2, e2', tensor_eq (by rw [sh, sh']) (data_ext2 sz sz' (fun i c hi hc => by
      rw [ent i c hi hc, ent' i c hi hc]))]
  · apply pointwise_len_error
    · simp [hlen1, hlen2, hlen3]
    · rw [Ne, eraseDups_length_eq_one_iff]
      rintro ⟨_, h2⟩
      exact hl ⟨h2 vs.length (by simp) us.length (by simp),
        h2 ws.length (by simp) us.length (by simp)⟩

end Bridge
end Splipy
