import Splipy.Lemmas.C12Union
import Splipy.Lemmas.C12Compat
import Splipy.Lemmas.C06Obj

/-!
# C12 — the stages of `make_splines_identical` for one direction

* decomposition of a successful run of `Obj.identicalDir` into its four stages (`identicalDir_ok`);
* the knot half of `stageMerge` is `Obj.mergeKnots` on the two bases (`stageMerge_bases`);
* every stage leaves the bases of the other directions alone (`*_basis_ne`);
* `SameMap` / `Rescaled`: equality of the evaluated maps (defining tensor-product sums of every
  homogeneous component, `C06.toTP`), and the composition lemma behind `C12_geometry_partial`.
-/

namespace Splipy

set_option linter.unusedSectionVars false

variable {K : Type} [Field K] [LinearOrder K] [IsStrictOrderedRing K] [FloorRing K]

namespace C12

open Obj

/-! ## Decomposition -/

theorem identicalDir_ok {tol : K} {c1 c2 : Bool} {s r : Obj K × Obj K} {i : ℕ}
    (h : identicalDir tol c1 c2 s i = .ok r) :
    ∃ a b c, stageReparam s i = .ok a ∧ stagePeriodic a i = .ok b ∧ stageOrder tol c1 c2 b i = .ok c
      ∧ stageMerge tol (max (b.1.basis i).order (b.2.basis i).order) c i = .ok r := by
  unfold identicalDir at h
  cases ha : stageReparam s i with
  | error e => simp only [ha] at h; cases h
  | ok a =>
    simp only [ha] at h
    cases hb : stagePeriodic a i with
    | error e => simp only [hb] at h; cases h
    | ok b =>
      simp only [hb] at h
      cases hc : stageOrder tol c1 c2 b i with
      | error e => simp only [hc] at h; cases h
      | ok c =>
        simp only [hc] at h
        exact ⟨a, b, c, rfl, hb, hc, h⟩

theorem identicalDir_of_stages {tol : K} {c1 c2 : Bool} {s a b c r : Obj K × Obj K} {i : ℕ}
    (ha : stageReparam s i = .ok a) (hb : stagePeriodic a i = .ok b)
    (hc : stageOrder tol c1 c2 b i = .ok c)
    (hr : stageMerge tol (max (b.1.basis i).order (b.2.basis i).order) c i = .ok r) :
    identicalDir tol c1 c2 s i = .ok r := by
  unfold identicalDir
  simp only [ha, hb, hc, hr]

theorem checkDirection_int_ok (i n d : ℕ) (h : Splipy.checkDirection (.int (i : Int)) n = .ok d) :
    d = i ∧ i < n := by
  unfold Splipy.checkDirection at h
  simp only [DirTok.int.injEq, reduceCtorEq, or_false] at h
  split_ifs at h with h1 h2 h3
  · injection h with h; omega
  · injection h with h; omega
  · injection h with h; omega

theorem stageReparam_ok {s a : Obj K × Obj K} {i : ℕ} (h : stageReparam s i = .ok a) :
    i < s.1.bases.size ∧ i < s.2.bases.size ∧ s.1.reparamDir i 0 1 = .ok a.1 ∧ s.2.reparamDir i 0 1 = .ok a.2 := by
  have hcd : ∀ (o o' : Obj K), o.reparamUnitDir i = .ok o' → i < o.bases.size ∧ o.reparamDir i 0 1 = .ok o' := by
    intro o o' ho
    unfold reparamUnitDir at ho
    cases hd : Splipy.checkDirection (.int i) o.pardimB with
    | error e => rw [hd] at ho; cases ho
    | ok d =>
      rw [hd] at ho
      have hdi : d = i ∧ i < o.pardimB := checkDirection_int_ok i o.pardimB d hd
      rw [hdi.1] at ho
      exact ⟨hdi.2, ho⟩
  unfold stageReparam at h
  cases h1 : s.1.reparamUnitDir i with
  | error e => simp only [h1] at h; cases h
  | ok s1 =>
    simp only [h1] at h
    cases h2 : s.2.reparamUnitDir i with
    | error e => simp only [h2] at h; cases h
    | ok s2 =>
      simp only [h2] at h
      injection h with h
      subst h
      exact ⟨(hcd _ _ h1).1, (hcd _ _ h2).1, (hcd _ _ h1).2, (hcd _ _ h2).2⟩

theorem stagePeriodic_ok {a b : Obj K × Obj K} {i : ℕ} (h : stagePeriodic a i = .ok b) :
    ((a.1.basis i).periodic = (a.2.basis i).periodic ∧ b = a)
    ∨ ((a.1.basis i).periodic < (a.2.basis i).periodic ∧ b.1 = a.1 ∧
        a.2.lowerPeriodic (a.1.basis i).periodic i = .ok b.2)
    ∨ ((a.2.basis i).periodic < (a.1.basis i).periodic ∧ b.2 = a.2 ∧
        a.1.lowerPeriodic (a.2.basis i).periodic i = .ok b.1) := by
  unfold stagePeriodic at h
  simp only [] at h
  by_cases h1 : (a.1.basis i).periodic < (a.2.basis i).periodic
  · rw [if_pos h1] at h
    cases hl : a.2.lowerPeriodic (a.1.basis i).periodic i with
    | error e => simp only [hl] at h; cases h
    | ok s2 =>
      simp only [hl] at h
      injection h with h
      subst h
      exact Or.inr (Or.inl ⟨h1, rfl, rfl⟩)
  · rw [if_neg h1] at h
    by_cases h2 : (a.2.basis i).periodic < (a.1.basis i).periodic
    · rw [if_pos h2] at h
      cases hl : a.1.lowerPeriodic (a.2.basis i).periodic i with
      | error e => simp only [hl] at h; cases h
      | ok s1 =>
        simp only [hl] at h
        injection h with h
        subst h
        exact Or.inr (Or.inr ⟨h2, rfl, rfl⟩)
    · rw [if_neg h2] at h
      injection h with h
      exact Or.inl ⟨by omega, h.symm⟩

theorem stageOrder_ok {tol : K} {c1 c2 : Bool} {b c : Obj K × Obj K} {i : ℕ}
    (h : stageOrder tol c1 c2 b i = .ok c) :
    ∃ r1 r2, b.1.raiseOrderDispatch tol c1
        [((max (b.1.basis i).order (b.2.basis i).order : ℕ) : Int) - (b.1.basis i).order] (some (i : Int)) = .ok (r1, c.1)
      ∧ b.2.raiseOrderDispatch tol c2
        [((max (b.1.basis i).order (b.2.basis i).order : ℕ) : Int) - (b.2.basis i).order] (some (i : Int)) = .ok (r2, c.2) := by
  unfold stageOrder at h
  simp only [] at h
  cases h1 : b.1.raiseOrderDispatch tol c1
      [((max (b.1.basis i).order (b.2.basis i).order : ℕ) : Int) - (b.1.basis i).order] (some (i : Int)) with
  | error e => simp only [h1] at h; cases h
  | ok r1 =>
    simp only [h1] at h
    cases h2 : b.2.raiseOrderDispatch tol c2
        [((max (b.1.basis i).order (b.2.basis i).order : ℕ) : Int) - (b.2.basis i).order] (some (i : Int)) with
    | error e => simp only [h2] at h; cases h
    | ok r2 =>
      simp only [h2] at h
      injection h with h
      subst h
      exact ⟨r1.1, r2.1, rfl, rfl⟩

theorem stageMerge_ok {tol : K} {p : ℕ} {c r : Obj K × Obj K} {i : ℕ} (h : stageMerge tol p c i = .ok r) :
    ∃ ins2 ins1, firstInserts tol p c i = .ok ins2 ∧ c.2.insertKnots ins2 i = .ok r.2
      ∧ secondInserts tol p c r.2 i = .ok ins1 ∧ c.1.insertKnots ins1 i = .ok r.1 := by
  unfold stageMerge at h
  cases h1 : firstInserts tol p c i with
  | error e => simp only [h1] at h; cases h
  | ok ins2 =>
    simp only [h1] at h
    cases h2 : c.2.insertKnots ins2 i with
    | error e => simp only [h2] at h; cases h
    | ok s2' =>
      simp only [h2] at h
      cases h3 : secondInserts tol p c s2' i with
      | error e => simp only [h3] at h; cases h
      | ok ins1 =>
        simp only [h3] at h
        cases h4 : c.1.insertKnots ins1 i with
        | error e => simp only [h4] at h; cases h
        | ok s1' =>
          simp only [h4] at h
          injection h with h
          subst h
          exact ⟨ins2, ins1, rfl, h2, h3, h4⟩

/-- **The knot half of `stageMerge`** is `mergeKnots` of the two bases of direction `i`. -/
theorem stageMerge_bases {tol : K} {p : ℕ} {c r : Obj K × Obj K} {i : ℕ}
    (hi1 : i < c.1.bases.size) (hi2 : i < c.2.bases.size) (h : stageMerge tol p c i = .ok r) :
    mergeKnots tol p (c.1.basis i) (c.2.basis i) = .ok (r.1.basis i, r.2.basis i) := by
  obtain ⟨ins2, ins1, h1, h2, h3, h4⟩ := stageMerge_ok h
  unfold mergeKnots
  unfold firstInserts at h1
  unfold secondInserts at h3
  rw [h1]
  simp only [insertAll_of_insertKnots hi2 h2, h3, insertAll_of_insertKnots hi1 h4]

/-! ## Same evaluated map; re-scaled evaluated map -/

open C06 in
/-- `o'` evaluates to the same map as `o`: same number of homogeneous components, and the defining
    tensor-product sum (`C06.TP.eval`, wrapped for periodic directions) of every component agrees
    at every parameter tuple and every choice of sides. -/
structure SameMap (m : ℕ) (o o' : Obj K) : Prop where
  ncomp : o'.ncomp = o.ncomp
  eval : ∀ comp, comp < o.ncomp → ∀ (s : Fin m → Side) (u : Fin m → K),
    (toTP o' m comp).eval s u = (toTP o m comp).eval s u

open C06 in
/-- `o'` at the parameters re-scaled in direction `d` (`u_d ↦ (u_d - a)/(b - a)`) is `o`. -/
structure Rescaled (m : ℕ) (d : Fin m) (a b : K) (o o' : Obj K) : Prop where
  ncomp : o'.ncomp = o.ncomp
  eval : ∀ comp, comp < o.ncomp → ∀ (s : Fin m → Side) (u : Fin m → K),
    (toTP o' m comp).eval s (Function.update u d ((u d - a) / (b - a))) = (toTP o m comp).eval s u

theorem SameMap.refl (m : ℕ) (o : Obj K) : SameMap m o o := ⟨rfl, fun _ _ _ _ => rfl⟩

theorem SameMap.trans {m : ℕ} {o o' o'' : Obj K} (h1 : SameMap m o o') (h2 : SameMap m o' o'') :
    SameMap m o o'' :=
  ⟨h2.ncomp.trans h1.ncomp, fun comp hc s u =>
    (h2.eval comp (by rw [h1.ncomp]; exact hc) s u).trans (h1.eval comp hc s u)⟩

theorem SameMap.of_eq {m : ℕ} {o o' : Obj K} (h : o' = o) : SameMap m o o' := by
  subst h; exact SameMap.refl m _

theorem Rescaled.trans_same {m : ℕ} {d : Fin m} {a b : K} {o o' o'' : Obj K}
    (h1 : Rescaled m d a b o o') (h2 : SameMap m o' o'') : Rescaled m d a b o o'' :=
  ⟨h2.ncomp.trans h1.ncomp, fun comp hc s u =>
    (h2.eval comp (by rw [h1.ncomp]; exact hc) s _).trans (h1.eval comp hc s u)⟩

/-- **`reparam(direction=d)` to `[0,1]`** (C06): the new object at `(u_d - start)/(end - start)` is
    the old one; it stays well formed. -/
theorem reparam_rescaled {m : ℕ} {o o' : Obj K} (hw : C06.WF o m) (d : Fin m)
    (h : o.reparamDir d 0 1 = .ok o') :
    Rescaled m d (o.basis d).start (o.basis d).stop o o' ∧ C06.WF o' m
      ∧ (o'.basis d).start = 0 ∧ (o'.basis d).stop = 1 := by
  have h01 : (0 : K) < 1 := zero_lt_one
  have hd : (d : ℕ) < o.bases.size := by rw [hw.size]; exact d.isLt
  rw [C06.reparamDir_ok o d h01] at h
  injection h with h
  subst h
  have hbd : (C06.reparamObj o d 0 1).basis d = C06.reparamOk (o.basis d) 0 1 :=
    C06.basis_set_self o o.cps d _ hd
  have hwf := C06.wf_reparamObj hw d h01
  refine ⟨⟨hwf.2, fun comp _ s u => ?_⟩, hwf.1, ?_, ?_⟩
  · have hA := C06.toTP_reparam hw d 0 1 comp
    have hpos : (C06.toTP (C06.reparamObj o d 0 1) m comp).Pos := C06.toTP_pos hwf.1 comp
    unfold C06.TP.eval
    rw [hA.evalD hpos]
    have := C06.TP.evalD_reparam (C06.toTP o m comp) d 0 1 (C06.toTP_dom hw comp d) h01 s (fun _ => 0) u
    rw [C06.TP.reparamMap_eq] at this
    simp only [pow_zero, div_one, sub_zero, zero_add, mul_one] at this
    exact this
  · rw [hbd]; exact C06.reparamOk_start (hw.valid d) 0 1
  · rw [hbd]; exact C06.reparamOk_stop (hw.valid d) 0 1

/-! ## Steps that do nothing -/

/-- `raise_order(0, direction=i)` changes nothing (both the `Curve` override and the base method). -/
theorem raiseOrderDispatch_zero {tol : K} {isCurve : Bool} {o o' : Obj K} {i : Int} {r : Ret}
    (h : o.raiseOrderDispatch tol isCurve [0] (some i) = .ok (r, o')) : o' = o := by
  unfold Obj.raiseOrderDispatch at h
  cases isCurve with
  | true =>
    simp only [if_true] at h
    unfold Obj.curveRaiseOrder at h
    simp at h
    exact h.2.symm
  | false =>
    simp only [Bool.false_eq_true, if_false] at h
    unfold Obj.raiseOrder at h
    cases hn : Obj.normRaises o.pardim [0] (some i) with
    | error e => simp only [hn] at h; cases h
    | ok rs =>
      simp only [hn] at h
      have hz : ∀ x ∈ rs, x = 0 := by
        unfold Obj.normRaises at hn
        simp only [List.length_cons, List.length_nil, if_true] at hn
        cases hc : Obj.checkDirection i o.pardim with
        | error e => simp only [hc] at hn; cases hn
        | ok j =>
          simp only [hc] at hn
          injection hn with hn
          subst hn
          intro x hx
          simp only [List.headD_cons] at hx
          have := List.mem_or_eq_of_mem_set hx
          rcases this with h1 | h1
          · exact List.eq_of_mem_replicate h1
          · exact h1
      have h1 : rs.any (fun r => decide (r < 0)) = false := by
        rw [List.any_eq_false]; intro x hx; rw [hz x hx]; simp
      have h2 : rs.all (fun r => decide (r = 0)) = true := by
        rw [List.all_eq_true]; intro x hx; simp [hz x hx]
      simp [h1, h2] at h
      exact h.2.symm

/-! ## Every stage leaves the other directions' bases alone -/

/-- What a per-direction step may change: nothing about the bases of the other directions, the
    number of bases, the rank of the control array, rationality. -/
structure OnlyDir (dir : ℕ) (o o' : Obj K) : Prop where
  basis_ne : ∀ d, d ≠ dir → o'.basis d = o.basis d
  size : o'.bases.size = o.bases.size
  rank : o'.cps.shape.length = o.cps.shape.length
  rational : o'.rational = o.rational

theorem OnlyDir.refl (dir : ℕ) (o : Obj K) : OnlyDir dir o o := ⟨fun _ _ => rfl, rfl, rfl, rfl⟩

theorem OnlyDir.trans {dir : ℕ} {o o' o'' : Obj K} (h1 : OnlyDir dir o o') (h2 : OnlyDir dir o' o'') :
    OnlyDir dir o o'' :=
  ⟨fun d hd => (h2.basis_ne d hd).trans (h1.basis_ne d hd), h2.size.trans h1.size,
    h2.rank.trans h1.rank, h2.rational.trans h1.rational⟩

theorem OnlyDir.of_eq {dir : ℕ} {o o' : Obj K} (h : o' = o) : OnlyDir dir o o' := by
  subst h; exact OnlyDir.refl dir _

theorem OnlyDir.pardim {dir : ℕ} {o o' : Obj K} (h : OnlyDir dir o o') : o'.pardim = o.pardim := by
  unfold Obj.pardim; rw [h.rank]

theorem onlyDir_set (o : Obj K) (dir : ℕ) (b : Basis K) (cps : Tensor K)
    (hr : cps.shape.length = o.cps.shape.length) :
    OnlyDir dir o { o with bases := o.bases.set! dir b, cps := cps } :=
  ⟨fun d hd => C04.basis_set_ne o dir d hd b cps, by simp, hr, rfl⟩

theorem reparamDir_onlyDir {o o' : Obj K} {dir : ℕ} {s e : K} (h : o.reparamDir dir s e = .ok o') :
    OnlyDir dir o o' := by
  unfold Obj.reparamDir at h
  cases hb : (o.basis dir).reparam s e with
  | error e => rw [hb] at h; cases h
  | ok b =>
    rw [hb] at h
    have : ({ o with bases := o.bases.set! dir b } : Obj K) = o' := by injection h
    rw [← this]
    exact onlyDir_set o dir b o.cps rfl

theorem insertKnots_onlyDir {o o' : Obj K} {dir : ℕ} {xs : List K} (h : o.insertKnots xs dir = .ok o') :
    OnlyDir dir o o' := by
  rw [C04.insertKnots_eq] at h
  cases hm : C04.insertMany (o.basis dir) (Mat.identity (o.cps.shape.getD dir 0)) xs with
  | error e => rw [hm] at h; cases h
  | ok bc =>
    rw [hm] at h
    have : ({ o with bases := o.bases.set! dir bc.1, cps := Tensor.applyAxis bc.2 o.cps dir } : Obj K) = o' := by
      injection h
    rw [← this]
    exact onlyDir_set o dir _ _ (by rw [C04.applyAxis_shape]; simp)

theorem lowerPeriodic_loop_onlyDir (target : Int) (dir : ℕ) : ∀ (fuel : ℕ) (o o' : Obj K),
    Obj.lowerPeriodic.loop target dir fuel o = .ok o' → OnlyDir dir o o' := by
  intro fuel
  induction fuel with
  | zero =>
    intro o o' h
    unfold Obj.lowerPeriodic.loop at h
    have : o = o' := by injection h
    exact OnlyDir.of_eq this.symm
  | succ f ih =>
    intro o o' h
    unfold Obj.lowerPeriodic.loop at h
    simp only [] at h
    by_cases h1 : target < (o.basis dir).periodic
    · rw [if_pos h1] at h
      cases hk : o.insertKnots [(o.basis dir).start] dir with
      | error e => rw [hk] at h; cases h
      | ok o1 =>
        cases hr : (o1.basis dir).roll 1 with
        | error e => simp [bind, Except.bind, hk, hr] at h
        | ok b1 =>
          simp only [bind, Except.bind, hk, hr] at h
          have e1 := insertKnots_onlyDir hk
          refine (e1.trans (onlyDir_set o1 dir _ _ ?_)).trans (ih _ _ h)
          simp [Tensor.rollAxisNeg, Tensor.reindexAxis, Tensor.build3]
    · rw [if_neg h1] at h
      by_cases h2 : target > (o.basis dir).periodic
      · rw [if_pos h2] at h; cases h
      · rw [if_neg h2] at h
        have : o = o' := by injection h
        exact OnlyDir.of_eq this.symm

theorem lowerPeriodic_onlyDir {o o' : Obj K} {target : Int} {dir : ℕ}
    (h : o.lowerPeriodic target dir = .ok o') : OnlyDir dir o o' :=
  lowerPeriodic_loop_onlyDir target dir _ o o' h

/-- The weaker invariant that survives `raise_order` (whose solve re-creates the control array). -/
structure OtherBases (dir : ℕ) (o o' : Obj K) : Prop where
  basis_ne : ∀ d, d ≠ dir → o'.basis d = o.basis d
  size : o'.bases.size = o.bases.size
  rational : o'.rational = o.rational

theorem OnlyDir.other {dir : ℕ} {o o' : Obj K} (h : OnlyDir dir o o') : OtherBases dir o o' :=
  ⟨h.basis_ne, h.size, h.rational⟩

theorem OtherBases.trans {dir : ℕ} {o o' o'' : Obj K} (h1 : OtherBases dir o o') (h2 : OtherBases dir o' o'') :
    OtherBases dir o o'' :=
  ⟨fun d hd => (h2.basis_ne d hd).trans (h1.basis_ne d hd), h2.size.trans h1.size, h2.rational.trans h1.rational⟩

theorem OtherBases.of_eq {dir : ℕ} {o o' : Obj K} (h : o' = o) : OtherBases dir o o' := by
  subst h; exact ⟨fun _ _ => rfl, rfl, rfl⟩

theorem raiseBases_spec (tol : K) : ∀ (bs : List (Basis K)) (rs : List ℕ) (nb : List (Basis K)),
    Obj.raiseBases tol bs rs = .ok nb →
    nb.length = min bs.length rs.length ∧ ∀ d, d < nb.length → rs.getD d 0 = 0 → nb[d]? = bs[d]? := by
  intro bs
  induction bs with
  | nil =>
    intro rs nb h
    unfold Obj.raiseBases at h
    injection h with h; subst h
    exact ⟨by simp, fun d hd => by simp at hd⟩
  | cons b bs ih =>
    intro rs nb h
    cases rs with
    | nil =>
      unfold Obj.raiseBases at h
      injection h with h; subst h
      exact ⟨by simp, fun d hd => by simp at hd⟩
    | cons r rs =>
      unfold Obj.raiseBases at h
      cases hb : b.raiseOrder tol r with
      | error e => simp only [hb] at h; cases h
      | ok b' =>
        simp only [hb] at h
        cases hl : Obj.raiseBases tol bs rs with
        | error e => simp only [hl] at h; cases h
        | ok l =>
          simp only [hl] at h
          injection h with h; subst h
          obtain ⟨h1, h2⟩ := ih rs l hl
          refine ⟨by simp [h1], ?_⟩
          intro d hd hz
          cases d with
          | zero =>
            simp only [List.getD_cons_zero] at hz
            subst hz
            unfold Basis.raiseOrder at hb
            simp only [if_true] at hb
            injection hb with hb
            simp [hb]
          | succ d =>
            simp only [List.getD_cons_succ] at hz
            simp only [List.length_cons, Nat.add_lt_add_iff_right] at hd
            simpa using h2 d hd hz

theorem objCheckDirection_ok (i n j : ℕ) (h : Obj.checkDirection (i : Int) n = .ok j) : j = i ∧ i < n := by
  unfold Obj.checkDirection at h
  split_ifs at h with h1 h2 h3
  · injection h with h; omega
  · injection h with h; omega
  · injection h with h; omega

/-- `raise_order(a, direction=i)` touches the bases of the other directions not at all: the `Curve`
    override has no other direction; the base method raises them by `0`, which returns them as
    they are. -/
theorem raiseOrderDispatch_other {tol : K} {isCurve : Bool} {o o' : Obj K} {a : Int} {i : ℕ} {r : Ret}
    (hc : isCurve = true → o.bases.size = 1 ∧ i = 0) (hn : isCurve = false → o.bases.size = o.pardim)
    (h : o.raiseOrderDispatch tol isCurve [a] (some (i : Int)) = .ok (r, o')) : OtherBases i o o' := by
  unfold Obj.raiseOrderDispatch at h
  cases isCurve with
  | true =>
    obtain ⟨hs, hi0⟩ := hc rfl
    simp only [if_true] at h
    unfold Obj.curveRaiseOrder at h
    by_cases ha : a < 0
    · rw [if_pos ha] at h; cases h
    · rw [if_neg ha] at h
      by_cases ha0 : a = 0
      · rw [if_pos ha0] at h
        injection h with h
        exact OtherBases.of_eq (by injection h with _ h; exact h.symm)
      · rw [if_neg ha0] at h
        simp only [] at h
        cases hb : (o.basis 0).raiseOrder tol a.toNat with
        | error e => simp only [hb] at h; cases h
        | ok nb =>
          simp only [hb] at h
          cases hg : nb.greville with
          | error e => simp only [hg] at h; cases h
          | ok pts =>
            simp only [hg] at h
            cases hsv : Mat.solveChecked (Obj.basisMat nb tol pts.toList 0 true)
                (Mat.mul (Obj.basisMat (o.basis 0) tol pts.toList 0 true) (Obj.cpsMat o.cps)) with
            | error e => simp only [hsv] at h; cases h
            | ok C =>
              simp only [hsv] at h
              injection h with h
              have h' : ({ o with bases := #[nb], cps := Obj.ofCpsMat C (o.cps.shape.getD 1 1) } : Obj K) = o' := by
                injection h
              rw [← h']
              refine ⟨fun d hd => ?_, by simp [hs], rfl⟩
              have hd1 : 1 ≤ d := by omega
              show (#[nb] : Array (Basis K)).getD d default = o.bases.getD d default
              rw [Array.getD_eq_getD_getElem?, Array.getD_eq_getD_getElem?,
                Array.getElem?_eq_none (by simp; omega), Array.getElem?_eq_none (by omega)]
  | false =>
    have hs := hn rfl
    simp only [Bool.false_eq_true, if_false] at h
    unfold Obj.raiseOrder at h
    cases hnr : Obj.normRaises o.pardim [a] (some (i : Int)) with
    | error e => simp only [hnr] at h; cases h
    | ok rs =>
      simp only [hnr] at h
      unfold Obj.normRaises at hnr
      simp only [List.length_cons, List.length_nil, if_true] at hnr
      cases hcd : Obj.checkDirection (i : Int) o.pardim with
      | error e => simp only [hcd] at hnr; cases hnr
      | ok j =>
        simp only [hcd, List.headD_cons] at hnr
        obtain ⟨hji, hip⟩ := objCheckDirection_ok i o.pardim j hcd
        subst hji
        injection hnr with hnr
        by_cases hneg : rs.any (fun r => decide (r < 0)) = true
        · rw [if_pos hneg] at h; cases h
        · rw [if_neg hneg] at h
          by_cases hzero : rs.all (fun r => decide (r = 0)) = true
          · rw [if_pos hzero] at h
            injection h with h
            exact OtherBases.of_eq (by injection h with _ h; exact h.symm)
          · rw [if_neg hzero] at h
            cases hg : Obj.raiseGuard tol o.bases.toList with
            | error e => simp only [hg] at h; cases h
            | ok g =>
              simp only [hg] at h
              cases g with
              | false => cases h
              | true =>
                simp only [] at h
                cases hri : o.raiseOrderImplicit tol (rs.map Int.toNat) with
                | error e => simp only [hri] at h; cases h
                | ok o2 =>
                  simp only [hri] at h
                  injection h with h
                  have ho2 : o2 = o' := by injection h
                  subst ho2
                  unfold Obj.raiseOrderImplicit at hri
                  cases hrb : Obj.raiseBases tol o.bases.toList (rs.map Int.toNat) with
                  | error e => simp only [hrb] at hri; cases hri
                  | ok newBases =>
                    simp only [hrb] at hri
                    cases hre : o.reinterpolate tol newBases with
                    | error e => simp only [hre] at hri; cases hri
                    | ok cps =>
                      simp only [hre] at hri
                      injection hri with hri
                      subst hri
                      obtain ⟨hlen, hsame⟩ := raiseBases_spec tol _ _ _ hrb
                      have hrsl : (rs.map Int.toNat).length = o.pardim := by
                        rw [← hnr]; simp
                      have hnl : newBases.length = o.bases.size := by
                        rw [hlen, hrsl, Array.length_toList, hs]; simp
                      refine ⟨fun d hd => ?_, by simp [hnl], rfl⟩
                      show newBases.toArray.getD d default = o.bases.getD d default
                      rw [Array.getD_eq_getD_getElem?, Array.getD_eq_getD_getElem?, List.getElem?_toArray]
                      by_cases hdl : d < newBases.length
                      · rw [hsame d hdl (by
                          rw [← hnr]
                          simp only [List.getD_eq_getElem?_getD, List.getElem?_map, List.getElem?_set_ne (Ne.symm hd)]
                          by_cases hdp : d < o.pardim
                          · simp [hdp]
                          · simp [hdp])]
                        simp
                      · rw [List.getElem?_eq_none (by omega), Array.getElem?_eq_none (by omega)]

/-! ## One direction: only that direction's bases change -/

theorem identicalDir_other {tol : K} {c1 c2 : Bool} {s r : Obj K × Obj K} {i : ℕ}
    (hc1 : c1 = true → s.1.bases.size = 1) (hn1 : c1 = false → s.1.bases.size = s.1.pardim)
    (hc2 : c2 = true → s.2.bases.size = 1) (hn2 : c2 = false → s.2.bases.size = s.2.pardim)
    (h : identicalDir tol c1 c2 s i = .ok r) : OtherBases i s.1 r.1 ∧ OtherBases i s.2 r.2 := by
  obtain ⟨a, b, c, ha, hb, hc, hr⟩ := identicalDir_ok h
  obtain ⟨hi1, hi2, ha1, ha2⟩ := stageReparam_ok ha
  have ea1 := reparamDir_onlyDir ha1
  have ea2 := reparamDir_onlyDir ha2
  have eb : OnlyDir i a.1 b.1 ∧ OnlyDir i a.2 b.2 := by
    rcases stagePeriodic_ok hb with ⟨_, h⟩ | ⟨_, h1, h2⟩ | ⟨_, h1, h2⟩
    · rw [h]; exact ⟨OnlyDir.refl _ _, OnlyDir.refl _ _⟩
    · exact ⟨OnlyDir.of_eq h1, lowerPeriodic_onlyDir h2⟩
    · exact ⟨lowerPeriodic_onlyDir h2, OnlyDir.of_eq h1⟩
  have esb1 := ea1.trans eb.1
  have esb2 := ea2.trans eb.2
  obtain ⟨r1, r2, hr1, hr2⟩ := stageOrder_ok hc
  have ec1 := raiseOrderDispatch_other
    (fun hcc => ⟨by rw [esb1.size]; exact hc1 hcc, by have := hc1 hcc; omega⟩)
    (fun hcc => by rw [esb1.size, esb1.pardim]; exact hn1 hcc) hr1
  have ec2 := raiseOrderDispatch_other
    (fun hcc => ⟨by rw [esb2.size]; exact hc2 hcc, by have := hc2 hcc; omega⟩)
    (fun hcc => by rw [esb2.size, esb2.pardim]; exact hn2 hcc) hr2
  obtain ⟨ins2, ins1, _, hk2, _, hk1⟩ := stageMerge_ok hr
  exact ⟨(esb1.other.trans ec1).trans (insertKnots_onlyDir hk1).other,
    (esb2.other.trans ec2).trans (insertKnots_onlyDir hk2).other⟩

/-! ## `make_splines_compatible` keeps bases and the rank of the control array -/

/-- Induction principle: a reflexive, transitive relation that holds across `force_rational` and
    `set_dimension` holds across `make_splines_compatible`. -/
theorem makeCompatible_ind (P : Obj K → Obj K → Prop) (hrefl : ∀ o, P o o)
    (htrans : ∀ a b c, P a b → P b c → P a c) (hf : ∀ o, P o o.forceRational)
    (hs : ∀ o n, P o (o.setDimensionTo n)) (o1 o2 : Obj K) :
    P o1 (makeCompatible o1 o2).1 ∧ P o2 (makeCompatible o1 o2).2 := by
  set p : Obj K × Obj K :=
    if o1.rational then (o1, o2.forceRational)
    else if o2.rational then (o1.forceRational, o2) else (o1, o2) with hp
  have hP : P o1 p.1 ∧ P o2 p.2 := by
    by_cases hr1 : o1.rational = true
    · have : p = (o1, o2.forceRational) := by rw [hp, if_pos hr1]
      rw [this]; exact ⟨hrefl _, hf _⟩
    · by_cases hr2 : o2.rational = true
      · have : p = (o1.forceRational, o2) := by rw [hp, if_neg hr1, if_pos hr2]
        rw [this]; exact ⟨hf _, hrefl _⟩
      · have : p = (o1, o2) := by rw [hp, if_neg hr1, if_neg hr2]
        rw [this]; exact ⟨hrefl _, hrefl _⟩
  have hmc : makeCompatible o1 o2 =
      if p.1.dimension > p.2.dimension then (p.1, p.2.setDimensionTo p.1.dimension)
      else (p.1.setDimensionTo p.2.dimension, p.2) := rfl
  rw [hmc]
  by_cases hgt : p.1.dimension > p.2.dimension
  · rw [if_pos hgt]; exact ⟨hP.1, htrans _ _ _ hP.2 (hs _ _)⟩
  · rw [if_neg hgt]; exact ⟨htrans _ _ _ hP.1 (hs _ _), hP.2⟩

theorem forceRational_bases (o : Obj K) : o.forceRational.bases = o.bases := by
  unfold Obj.forceRational; split_ifs <;> rfl

theorem setDimensionTo_bases (o : Obj K) (n : ℕ) : (o.setDimensionTo n).bases = o.bases := by
  unfold setDimensionTo; split_ifs <;> rfl

theorem makeCompatible_bases (o1 o2 : Obj K) :
    (makeCompatible o1 o2).1.bases = o1.bases ∧ (makeCompatible o1 o2).2.bases = o2.bases :=
  makeCompatible_ind (fun o o' => o'.bases = o.bases) (fun _ => rfl) (fun _ _ _ h1 h2 => h2.trans h1)
    forceRational_bases setDimensionTo_bases o1 o2

theorem mapLast_rank (t : Tensor K) (hne : t.shape ≠ []) (n : ℕ) (f : Array K → Array K) :
    (t.mapLast n f).shape.length = t.shape.length := by
  rw [Tensor.mapLast_shape]
  have : 0 < t.shape.length := List.length_pos_of_ne_nil hne
  simp; omega

theorem forceRational_rank (o : Obj K) (ho : o.cps.shape ≠ []) :
    o.forceRational.cps.shape.length = o.cps.shape.length := by
  by_cases hr : o.rational = true
  · rw [Obj.forceRational_of_rational o hr]
  · rw [Obj.forceRational_eq o (by simpa using hr)]
    show (o.cps.mapLast _ _).shape.length = _
    exact mapLast_rank o.cps ho _ _

theorem setDimensionTo_rank (o : Obj K) (n : ℕ) (ho : o.cps.shape ≠ []) :
    (o.setDimensionTo n).cps.shape.length = o.cps.shape.length := by
  unfold setDimensionTo
  split_ifs
  · rfl
  · rw [Obj.setDimension_eq]
    show (o.cps.mapLast _ _).shape.length = _
    exact mapLast_rank o.cps ho _ _

theorem makeCompatible_rank (o1 o2 : Obj K) (h1 : o1.cps.shape ≠ []) (h2 : o2.cps.shape ≠ []) :
    (makeCompatible o1 o2).1.cps.shape.length = o1.cps.shape.length
    ∧ (makeCompatible o1 o2).2.cps.shape.length = o2.cps.shape.length := by
  have hne : ∀ (o o' : Obj K), o.cps.shape ≠ [] → o'.cps.shape.length = o.cps.shape.length → o'.cps.shape ≠ [] := by
    intro o o' ho hl hnil
    rw [hnil] at hl
    exact ho (List.eq_nil_of_length_eq_zero hl.symm)
  have := makeCompatible_ind (fun o o' => o.cps.shape ≠ [] → o'.cps.shape.length = o.cps.shape.length)
    (fun _ _ => rfl) (fun a b c hab hbc ha => (hbc (hne a b ha (hab ha))).trans (hab ha))
    forceRational_rank setDimensionTo_rank o1 o2
  exact ⟨this.1 h1, this.2 h2⟩

/-! ## `direction=None` is the loop over all directions; spellings -/

theorem identicalLoop_eq_foldlM (tol : K) (c1 c2 : Bool) : ∀ (is : List ℕ) (s : Obj K × Obj K),
    identicalLoop tol c1 c2 is s
      = is.foldlM (fun (s : Obj K × Obj K) (i : ℕ) => makeIdentical tol c1 c2 s.1 s.2 (some (.int (i : Int)))) s := by
  intro is
  induction is with
  | nil => intro s; rfl
  | cons i is ih =>
    intro s
    rw [List.foldlM_cons]
    unfold identicalLoop
    show _ = (makeIdenticalDir tol c1 c2 (s.1, s.2) (.int i) >>= _)
    cases hm : makeIdenticalDir tol c1 c2 s (.int i) with
    | error e => rfl
    | ok s' => exact ih s'

theorem checkDirection_canon {d : DirTok} {n i : ℕ} (h : Splipy.checkDirection d n = .ok i) :
    Splipy.checkDirection (.int (i : Int)) n = .ok i := by
  unfold Splipy.checkDirection at h ⊢
  split_ifs at h with h1 h2 h3
  · injection h with h; subst h; simp [h1.2]
  · injection h with h; subst h; simp [h2.2]
  · injection h with h; subst h; simp [h3.2]

/-! ## The composition behind `C12_geometry_partial` -/

/-- Composition of the four stages for one object: re-parametrisation (proved, C06) followed by
    three steps that keep the evaluated map. -/
theorem rescaled_of_stages {m : ℕ} (i : Fin m) {o a b c r : Obj K} (hw : C06.WF o m)
    (ha : o.reparamDir i 0 1 = .ok a) (hab : SameMap m a b) (hbc : SameMap m b c) (hcr : SameMap m c r) :
    Rescaled m i (o.basis i).start (o.basis i).stop o r :=
  (((reparam_rescaled hw i ha).1.trans_same hab).trans_same hbc).trans_same hcr

end C12

end Splipy
