import Splipy.Lemmas.C17Point

/-! Lemmas for C17: the candidate scan (`resolve`) keeps the invariant and returns the
representing node; a represented object is always among the candidates of its key. -/

namespace Splipy.MP

theorem lookupPoint_complete {nc : ℕ} {S : Obj → Prop} {m : Model} (hI : Inv nc S m) {x : Obj}
    (hx : GU nc x) (h0 : x.pardim = 0) (add : Bool) {c : ℕ} (hc : Rep m c x) :
    ∃ r, m.lookupPoint x add = .ok r := by
  rw [lookupPoint_eq m x add]
  have hpd : (m.node c).obj.pardim = 0 := by rw [hc.2.pardim_eq]; exact h0
  obtain ⟨kv, hkv, hk⟩ := hI.vall c hc.1 hpd
  have hkey : kv.1 = pointKey x := by
    rw [← (hI.vnode kv hkv).2.2, hk]
    exact (point_equiv_iff (hI.gu hc.1) hx hpd h0).1 hc.2
  have hsome : (m.verts.find? (fun kv => kv.1 == pointKey x)).isSome := by
    rw [Array.find?_isSome]
    exact ⟨kv, by simpa using hkv, by simp [hkey]⟩
  cases add with
  | false =>
    simp only [Bool.false_eq_true, if_false]
    obtain ⟨kv', hkv'⟩ := Option.isSome_iff_exists.1 hsome
    rw [hkv']; exact ⟨_, rfl⟩
  | true =>
    simp only [if_true]
    have : (bump m).verts = m.verts := rfl
    rw [this]
    obtain ⟨kv', hkv'⟩ := Option.isSome_iff_exists.1 hsome
    rw [hkv']; exact ⟨_, rfl⟩

theorem getLastD_eq_getD {α : Type} (l : List α) (d : α) (n : ℕ) (hl : l.length = n) (hn : 1 ≤ n) :
    l.getLastD d = l.getD (n - 1) d := by
  induction l generalizing d n with
  | nil => simp at hl; omega
  | cons a as ih =>
    rw [List.getLastD_cons]
    cases as with
    | nil =>
      have : n = 1 := by simpa using hl.symm
      subst this; simp
    | cons b bs =>
      subst hl
      rw [ih a _ rfl (by simp)]
      simp

theorem Model.firstView_some {m : Model} {x : Obj} {cs : List ℕ} {c : ℕ} {o : Orientation}
    (h : m.firstView x cs = some (c, o)) :
    c ∈ cs ∧ Orientation.compute (m.node c).obj x = .ok o := by
  induction cs with
  | nil => simp [Model.firstView] at h
  | cons k ks ih =>
    simp only [Model.firstView] at h
    cases hk : Orientation.compute (m.node k).obj x with
    | ok o' =>
      rw [hk] at h
      simp only [Option.some.injEq, Prod.mk.injEq] at h
      obtain ⟨rfl, rfl⟩ := h
      exact ⟨by simp, hk⟩
    | error e =>
      rw [hk] at h
      obtain ⟨h1, h2⟩ := ih h
      exact ⟨List.mem_cons_of_mem _ h1, h2⟩

theorem Model.firstView_none {m : Model} {x : Obj} {cs : List ℕ}
    (h : m.firstView x cs = none) :
    ∀ c ∈ cs, ∀ o, Orientation.compute (m.node c).obj x ≠ .ok o := by
  induction cs with
  | nil => simp
  | cons k ks ih =>
    simp only [Model.firstView] at h
    cases hk : Orientation.compute (m.node k).obj x with
    | ok o' => rw [hk] at h; simp at h
    | error e =>
      rw [hk] at h
      intro c hc o
      rcases List.mem_cons.1 hc with rfl | h1
      · rw [hk]; simp
      · exact ih h c h1 o

/-- hypotheses on the lower links handed to `resolve`: shape, and representation of the sections -/
structure LowerOK (m : Model) (x : Obj) (lower : List (List ℕ)) : Prop where
  len : lower.length = x.pardim
  lens : ∀ i, i < x.pardim → (lower.getD i []).length = (sections x.pardim i).length
  rep : ∀ i, i < x.pardim → ∀ j, j < (sections x.pardim i).length →
    Rep m ((lower.getD i []).getD j 0) (x.sect ((sections x.pardim i).getD j []))

theorem LowerOK.lt {m : Model} {x : Obj} {lower : List (List ℕ)} (h : LowerOK m x lower) :
    ∀ k ∈ lower.flatten, k < m.nodes.size := by
  intro k hk
  rw [List.mem_flatten] at hk
  obtain ⟨l, hl, hkl⟩ := hk
  obtain ⟨i, hi, rfl⟩ := List.mem_iff_getElem.1 hl
  obtain ⟨j, hj, rfl⟩ := List.mem_iff_getElem.1 hkl
  have hi' : i < x.pardim := by rw [← h.len]; exact hi
  have hlen := h.lens i hi'
  rw [List.getD_eq_getElem _ _ hi] at hlen
  have := (h.rep i hi' j (by rw [← hlen]; exact hj)).1
  rw [List.getD_eq_getElem _ _ hi, List.getD_eq_getElem _ _ hj] at this
  exact this

/-- **Key classes at work**: a node representing `x` is filed under (a permutation of) the facet
    nodes of `x`, hence it is among the candidates `resolve` looks at. -/
theorem rep_in_candidates {nc : ℕ} {S : Obj → Prop} {m : Model} (hI : Inv nc S m) {x : Obj}
    (hx : GU nc x) (hpd : 1 ≤ x.pardim) {lower : List (List ℕ)} (hL : LowerOK m x lower)
    {c : ℕ} (hc : Rep m c x) : c ∈ (m.level x.pardim).get (lower.getLastD []) := by
  have ha := hI.gu hc.1
  obtain ⟨o, ho⟩ := hc.2
  obtain ⟨hwf, _, hp, _⟩ := compute_sound _ _ o ho
  have hn3 : (m.node c).obj.pardim ≤ 3 := ha.small
  have hpa : 1 ≤ (m.node c).obj.pardim := by rw [hp]; exact hpd
  -- the two facet lists
  have hLx : lower.getLastD [] = lower.getD (x.pardim - 1) [] := getLastD_eq_getD _ _ _ hL.len hpd
  have hLc : facets m c = (m.node c).lower.getD ((m.node c).obj.pardim - 1) [] :=
    getLastD_eq_getD _ _ _ (hI.lowshape c hc.1).1 hpa
  set F := sections (m.node c).obj.pardim ((m.node c).obj.pardim - 1) with hF
  have hFx : sections x.pardim (x.pardim - 1) = F := by rw [hF, hp]
  have hlenx : (lower.getD (x.pardim - 1) []).length = F.length := by
    rw [← hFx]; exact hL.lens _ (by omega)
  have hlenc : ((m.node c).lower.getD ((m.node c).obj.pardim - 1) []).length = F.length :=
    (hI.lowshape c hc.1).2 _ (by omega)
  have hfr := facetTable hpa hn3 hwf
  simp only [facetRow, Bool.and_eq_true, decide_eq_true_eq, List.all_eq_true] at hfr
  obtain ⟨hperm, hmemF⟩ := hfr
  -- pointwise identification
  have hpt : ∀ j, j < F.length →
      (lower.getD (x.pardim - 1) []).getD j 0 =
        ((m.node c).lower.getD ((m.node c).obj.pardim - 1) []).getD (F.idxOf (o.mapSection (F.getD j []))) 0 := by
    intro j hj
    have hsj : F.getD j [] ∈ F := by rw [List.getD_eq_getElem _ _ hj]; exact List.getElem_mem _
    have hsl : (F.getD j []).length = (m.node c).obj.pardim := (mem_sections hn3 (by omega) hsj).1
    have hσ := hmemF _ hsj
    have hidx : F.idxOf (o.mapSection (F.getD j [])) < F.length := List.idxOf_lt_length_iff.2 hσ
    have hget : F.getD (F.idxOf (o.mapSection (F.getD j []))) [] = o.mapSection (F.getD j []) := by
      rw [List.getD_eq_getElem _ _ hidx]; exact List.getElem_idxOf hidx
    have h1 : Rep m ((lower.getD (x.pardim - 1) []).getD j 0) (x.sect (F.getD j [])) := by
      have := hL.rep (x.pardim - 1) (by omega) j (by rw [hFx]; exact hj)
      rw [hFx] at this; exact this
    have h2 : Rep m (((m.node c).lower.getD ((m.node c).obj.pardim - 1) []).getD (F.idxOf (o.mapSection (F.getD j []))) 0)
        ((m.node c).obj.sect (o.mapSection (F.getD j []))) := by
      have := hI.low c hc.1 ((m.node c).obj.pardim - 1) (by omega) _ hidx
      rw [hget] at this; exact this
    have hgx : GU nc (x.sect (F.getD j [])) := hx.sect (by rw [hsl, hp])
    have hga : GU nc ((m.node c).obj.sect (o.mapSection (F.getD j []))) :=
      ha.sect ((mem_sections hn3 (by omega) hσ).1)
    have h3 := Rep.equiv hI hga hgx h2 (sect_equiv ha hx ho (by rw [hsl, hp]))
    exact hI.rep_unique hgx h1 h3
  have hlist : lower.getD (x.pardim - 1) [] =
      (F.map (fun s => F.idxOf (o.mapSection s))).map
        (fun k => ((m.node c).lower.getD ((m.node c).obj.pardim - 1) []).getD k 0) := by
    apply List.ext_getElem
    · rw [List.length_map, List.length_map]; exact hlenx
    · intro j h1 h2
      have hj : j < F.length := by rw [hlenx] at h1; exact h1
      have := hpt j hj
      rw [List.getD_eq_getElem _ _ h1, List.getD_eq_getElem _ _ hj] at this
      rw [List.getElem_map, List.getElem_map]
      exact this
  have hpermL : (lower.getD (x.pardim - 1) []).Perm ((m.node c).lower.getD ((m.node c).obj.pardim - 1) []) := by
    rw [hlist]
    have := hperm.map (fun k => ((m.node c).lower.getD ((m.node c).obj.pardim - 1) []).getD k 0)
    rw [map_getD_range' _ 0 hlenc] at this
    exact this
  have hfiled := hI.filed c hc.1 hpa
  rw [hLc, hI.closed _ _ _ hpermL.symm, ← hLx, hp] at hfiled
  exact hfiled

/-! ### `compute x x` is the identity -/

theorem all_head (n : ℕ) (hn : n ≤ 3) : ∃ rest, Orientation.all n = Orientation.identity n :: rest := by
  have h4 : n = 0 ∨ n = 1 ∨ n = 2 ∨ n = 3 := by omega
  rcases h4 with rfl | rfl | rfl | rfl <;> exact ⟨_, rfl⟩

theorem identity_fits {nc : ℕ} {x : Obj} (hx : GU nc x) : Fits (Orientation.identity x.pardim) x x := by
  have ha := hx.good
  rw [fits_same_iff rfl]
  refine ⟨identity_shape _ _ ha.axes, ?_, ?_⟩
  · exact identity_mapArray _ _ (by rw [netOf_shape]; exact ha.axes)
      (by rw [netOf_size, netOf_shape]; exact ha.size)
  · rw [basesMatch_iff]
    intro i hi
    have h1 : (Orientation.identity x.pardim).perm.getD i 0 = i := Orientation.range_getD hi
    have h2 : (Orientation.identity x.pardim).flip.getD i false = false := by
      show (List.replicate x.pardim false).getD i false = false
      rw [List.getD_eq_getElem _ _ (by simpa using hi)]; simp
    rw [h1, h2]
    exact basisMatches_refl _

theorem compute_self {nc : ℕ} {x : Obj} (hx : GU nc x) :
    Orientation.compute x x = .ok (Orientation.identity x.pardim) := by
  rw [compute_ok_iff]
  refine ⟨⟨rfl, rfl, List.Perm.refl _⟩, ?_⟩
  obtain ⟨rest, hrest⟩ := all_head x.pardim hx.small
  rw [hrest, List.find?_cons]
  have : fitsB x x (Orientation.identity x.pardim) = true := identity_fits hx
  rw [this]

/-! ### `resolve` -/

theorem AddNodeSpec.nodeAdded {m m' : Model} {x : Obj} {lower : List (List ℕ)}
    (h : AddNodeSpec m m' x lower) (hpd : 1 ≤ x.pardim)
    (hnew : (m'.node m.nodes.size).higher =
      List.replicate (lower.flatten.count m.nodes.size) (x.pardim, m.nodes.size))
    (hold : ∀ j, j < m.nodes.size → (m'.node j).higher =
      (m.node j).higher ++ List.replicate (lower.flatten.count j) (x.pardim, m.nodes.size))
    (hcov : ∀ d, Cov (m.level d) → Cov (m'.level d)) : NodeAdded m m' x lower := by
  refine ⟨h.size, h.lsize, h.new_obj, h.new_lower, h.old_obj, h.old_lower, h.new_pardim,
    h.old_pardim, hnew, hold, hcov, ?_, ?_⟩
  · have : x.pardim ≠ 0 := by omega
    simp [this, h.verts]
  · intro d q
    by_cases hd : d = x.pardim
    · subst hd
      rw [h.get_same]
      by_cases hq : q.Perm (lower.getLastD [])
      · rw [if_pos hq, if_pos ⟨rfl, hpd, hq⟩]
      · rw [if_neg hq, if_neg (fun hh => hq hh.2.2)]
    · rw [h.get_other d q hd, if_neg (fun hh => hd hh.1)]

/-- the `_add` branch of `resolve` -/
theorem addNode_sound {nc : ℕ} {S : Obj → Prop} {m : Model} (hI : Inv nc S m) {x : Obj}
    (hx : GU nc x) (hpd : 1 ≤ x.pardim) (hlv : x.pardim < m.levels.size) (hS : S x)
    {lower : List (List ℕ)} (hL : LowerOK m x lower)
    (hno : ∀ c ∈ (m.level x.pardim).get (lower.getLastD []), ∀ o,
      Orientation.compute (m.node c).obj x ≠ .ok o) :
    Inv nc S (m.addNode x lower).1 ∧ Ext m (m.addNode x lower).1 ∧
      Rep (m.addNode x lower).1 (m.addNode x lower).2.1 x ∧
      Orientation.compute ((m.addNode x lower).1.node (m.addNode x lower).2.1).obj x =
        .ok (m.addNode x lower).2.2 := by
  obtain ⟨hid, hor, hspec⟩ := Model.addNode_full m x lower hlv
  have hA : NodeAdded m (m.addNode x lower).1 x lower := by
    refine hspec.nodeAdded hpd ?_ (fun j hj => (Model.addNode_higher m x lower j hj).1)
      (fun d => Model.addNode_cov m x lower hlv d)
    have hn0 : (0 : ℕ) < m.nodes.size := by
      -- a node of dimension ≥ 1 has facets, which are existing nodes
      have hlen := hL.len
      have h0 : 0 < lower.length := by rw [hlen]; exact hpd
      have hl0 := hL.lens 0 (by omega)
      have hsec : 0 < (sections x.pardim 0).length := by
        have h4 : x.pardim = 1 ∨ x.pardim = 2 ∨ x.pardim = 3 := by have := hx.small; omega
        rcases h4 with h | h | h <;> rw [h] <;> decide
      have := (hL.rep 0 (by omega) 0 hsec).1
      omega
    exact (Model.addNode_higher m x lower 0 hn0).2
  have hfresh : ∀ c, c < m.nodes.size → ¬ Equiv (m.node c).obj x := by
    intro c hc heq
    have hmem := rep_in_candidates hI hx hpd hL ⟨hc, heq⟩
    obtain ⟨o, ho⟩ := heq
    exact hno c hmem o ho
  have hInv := hI.extend hA hS hx hlv hfresh (fun h0 => by omega) ⟨hL.len, hL.lens⟩ hL.rep hL.lt
  rw [hid, hor]
  refine ⟨hInv, hA.ext, ⟨by rw [hA.size]; omega, ?_⟩, ?_⟩
  · rw [hA.new_obj]; exact hx.equiv_refl
  · rw [hA.new_obj]; exact compute_self hx

/-- **`resolve` (soundness).** -/
theorem resolve_sound {nc : ℕ} {S : Obj → Prop} {m : Model} (hI : Inv nc S m) {x : Obj}
    (hx : GU nc x) (hpd : 1 ≤ x.pardim) (hlv : x.pardim < m.levels.size) (add : Bool)
    (hS : add = true → S x) {lower : List (List ℕ)} (hL : LowerOK m x lower) (tw : List ℕ)
    {m' : Model} {id : ℕ} {o : Orientation}
    (h : m.resolve x lower add tw = .ok (m', id, o)) :
    Inv nc S m' ∧ Ext m m' ∧ Rep m' id x ∧ Orientation.compute (m'.node id).obj x = .ok o ∧
      (add = false → m' = m) := by
  have found : ∀ c, c ∈ (m.level x.pardim).get (lower.getLastD []) → ∀ o',
      Orientation.compute (m.node c).obj x = .ok o' →
      Inv nc S m ∧ Ext m m ∧ Rep m c x ∧ Orientation.compute (m.node c).obj x = .ok o' ∧
        (add = false → m = m) := fun c hc o' ho' =>
    ⟨hI, Ext.refl m, ⟨(hI.cand _ _ c hc).1, ⟨o', ho'⟩⟩, ho', fun _ => rfl⟩
  have added : (∀ c ∈ (m.level x.pardim).get (lower.getLastD []), ∀ o,
      Orientation.compute (m.node c).obj x ≠ .ok o) → add = true →
      (m.addNode x lower) = (m', id, o) →
      Inv nc S m' ∧ Ext m m' ∧ Rep m' id x ∧ Orientation.compute (m'.node id).obj x = .ok o ∧
        (add = false → m' = m) := by
    intro hno hadd heq
    obtain ⟨a, b, c, d⟩ := addNode_sound hI hx hpd hlv (hS hadd) hL hno
    rw [heq] at a b c d
    exact ⟨a, b, c, d, fun hf => by rw [hadd] at hf; simp at hf⟩
  unfold Model.resolve at h
  dsimp only at h
  cases hcs : (m.level x.pardim).get (lower.getLastD []) with
  | nil =>
    rw [hcs] at h
    cases add with
    | false => simp at h
    | true =>
      simp only [Bool.not_true, Bool.false_eq_true, if_false, Except.ok.injEq] at h
      exact added (by rw [hcs]; simp) rfl h
  | cons c cs =>
    cases cs with
    | nil =>
      rw [hcs] at h
      simp only at h
      cases hk : Orientation.compute (m.node c).obj x with
      | ok o' =>
        rw [hk] at h
        simp only [Except.ok.injEq, Prod.mk.injEq] at h
        obtain ⟨rfl, rfl, rfl⟩ := h
        exact found c (by rw [hcs]; simp) o' hk
      | error e =>
        rw [hk] at h
        simp only at h
        split at h
        · simp at h
        · cases add with
          | false => simp at h
          | true =>
            simp only [Bool.not_true, Bool.false_eq_true, if_false, Except.ok.injEq] at h
            refine added ?_ rfl h
            intro c' hc' o'
            rw [hcs] at hc'
            simp only [List.mem_singleton] at hc'
            subst hc'
            rw [hk]; simp
    | cons d ds =>
      rw [hcs] at h
      simp only at h
      split at h
      · simp at h
      · cases hfv : m.firstView x (c :: d :: ds) with
        | some r =>
          rw [hfv] at h
          obtain ⟨c', o'⟩ := r
          simp only [Except.ok.injEq, Prod.mk.injEq] at h
          obtain ⟨rfl, rfl, rfl⟩ := h
          obtain ⟨hmem, hok⟩ := Model.firstView_some hfv
          exact found c' (by rw [hcs]; exact hmem) o' hok
        | none =>
          rw [hfv] at h
          simp only at h
          cases add with
          | false => simp at h
          | true =>
            simp only [Bool.not_true, Bool.false_eq_true, if_false, Except.ok.injEq] at h
            refine added ?_ rfl h
            rw [hcs]
            exact Model.firstView_none hfv

end Splipy.MP
