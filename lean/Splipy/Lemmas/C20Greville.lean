import Mathlib.Tactic.Linarith
import Mathlib.Tactic.Positivity
import Mathlib.Tactic.FieldSimp
import Splipy.Model.BasisOps
import Splipy.Lemmas.C20Tol

/-!
# Greville points and the knot tolerance (C20)

The `i`-th Greville point is the mean of the knots `τ_{i+1} … τ_{i+p-1}`.  It lies between the
first and the last of them; snapping keeps it there; and where those knots coincide (always for
`p = 2`, and at knots of multiplicity `≥ p-1`, e.g. the ends of an open knot vector) the Greville
point *is* that knot, so a float version of it (rounding fuzz of the sum and the division) is
snapped onto the knot.
-/

namespace Splipy.C20

open Splipy

variable {K : Type} [Field K] [LinearOrder K] [IsStrictOrderedRing K]

/-- the number `BSplineBasis.greville(i)` computes -/
def grevilleAt (b : Basis K) (i : ℕ) : K :=
  ((List.range (b.order - 1)).foldl (fun acc j => acc + b.kn (i + 1 + j)) 0) / ((b.order : K) - 1)

omit [LinearOrder K] [IsStrictOrderedRing K] in
/-- entries of `Basis.greville` are `grevilleAt` -/
theorem greville_getD [LinearOrder K] (b : Basis K) (g : Array K) (h : b.greville = .ok g) {i : ℕ}
    (hi : i < b.numFunctions) : g.getD i 0 = grevilleAt b i := by
  unfold Basis.greville at h
  simp only [] at h
  split_ifs at h with h1
  have hg : g = Array.ofFn (n := b.numFunctions) (fun i =>
      ((List.range (b.order - 1)).foldl (fun acc j => acc + b.kn (i.val + 1 + j)) 0) /
        ((b.order : K) - 1)) := by
    injection h with h; exact h.symm
  rw [hg]
  simp [Array.getD, hi, grevilleAt]

theorem foldl_sum_bounds (n : ℕ) (f : ℕ → K) (lo hi : K) (h : ∀ j, j < n → lo ≤ f j ∧ f j ≤ hi) :
    (n : K) * lo ≤ (List.range n).foldl (fun acc j => acc + f j) 0 ∧
      (List.range n).foldl (fun acc j => acc + f j) 0 ≤ (n : K) * hi := by
  induction n with
  | zero => simp
  | succ n ih =>
    obtain ⟨h1, h2⟩ := ih (fun j hj => h j (by omega))
    obtain ⟨h3, h4⟩ := h n (by omega)
    rw [List.range_succ, List.foldl_append]
    simp only [List.foldl_cons, List.foldl_nil, Nat.cast_succ]
    constructor <;> linarith

/-- The Greville point lies between the first and the last knot it averages. -/
theorem greville_bounds (b : Basis K) (hs : KnotsSorted b) (hp : 2 ≤ b.order) (i : ℕ)
    (hi : i + b.order - 1 < b.size) :
    b.kn (i + 1) ≤ grevilleAt b i ∧ grevilleAt b i ≤ b.kn (i + b.order - 1) := by
  have hb := foldl_sum_bounds (b.order - 1) (fun j => b.kn (i + 1 + j)) (b.kn (i + 1))
    (b.kn (i + b.order - 1)) (by
      intro j hj
      exact ⟨hs _ _ (by omega) (by omega), hs _ _ (by omega) hi⟩)
  have hcast : ((b.order - 1 : ℕ) : K) = (b.order : K) - 1 := by
    rw [Nat.cast_sub (by omega)]; simp
  have hpos : (0 : K) < (b.order : K) - 1 := by
    rw [← hcast]; exact_mod_cast (by omega : 0 < b.order - 1)
  rw [hcast] at hb
  unfold grevilleAt
  constructor
  · rw [le_div_iff₀ hpos]; linarith [hb.1]
  · rw [div_le_iff₀ hpos]; linarith [hb.2]

omit [IsStrictOrderedRing K] in
/-- `snap` returns its argument or a knot strictly within `tol` of it. -/
theorem snap_cases (b : Basis K) (tol t : K) :
    snap b tol t = t ∨ ∃ j, j < b.size ∧ snap b tol t = b.kn j ∧ |b.kn j - t| < tol := by
  have hsize : b.knots.size = b.size := rfl
  unfold snap
  simp only [hsize]
  set i := bisectLeft b.kn t b.size
  have hle : i ≤ b.size := by
    have := (snap_of_far.bisectLeft_spec' b t).1
    exact this
  split_ifs with h1 h2
  · exact Or.inr ⟨i, h1.1, rfl, h1.2⟩
  · exact Or.inr ⟨i - 1, by omega, rfl, h2.2⟩
  · exact Or.inl rfl

/-- Snapping never carries a parameter across a knot: between two knots it stays between them. -/
theorem snap_between_knots (b : Basis K) (tol t : K) (hsep : KnotsSeparated b tol)
    {a c : ℕ} (ha : a < b.size) (hc : c < b.size) (h1 : b.kn a ≤ t) (h2 : t ≤ b.kn c) :
    b.kn a ≤ snap b tol t ∧ snap b tol t ≤ b.kn c := by
  rcases snap_cases b tol t with h | ⟨j, hj, hsnap, hnear⟩
  · rw [h]; exact ⟨h1, h2⟩
  · rw [hsnap]
    obtain ⟨n1, n2⟩ := abs_lt.1 hnear
    constructor
    · by_contra hcon
      have hlt : b.kn j < b.kn a := not_le.1 hcon
      have : b.kn j = b.kn a := eq_of_close hsep hj ha (abs_lt.2 ⟨by linarith, by linarith⟩)
      exact absurd this (ne_of_lt hlt)
    · by_contra hcon
      have hlt : b.kn c < b.kn j := not_le.1 hcon
      have : b.kn j = b.kn c := eq_of_close hsep hj hc (abs_lt.2 ⟨by linarith, by linarith⟩)
      exact absurd this (ne_of_gt hlt)

/-- **Greville points and the tolerance.** -/
theorem greville_snap (b : Basis K) (tol : K) (htol : 0 < tol) (hs : KnotsSorted b)
    (hsep : KnotsSeparated b tol) (hp : 2 ≤ b.order) (i : ℕ) (hi : i + b.order - 1 < b.size) :
    (b.kn (i + 1) ≤ grevilleAt b i ∧ grevilleAt b i ≤ b.kn (i + b.order - 1)) ∧
    (b.kn (i + 1) ≤ snap b tol (grevilleAt b i) ∧
      snap b tol (grevilleAt b i) ≤ b.kn (i + b.order - 1)) ∧
    (b.kn (i + 1) = b.kn (i + b.order - 1) →
      grevilleAt b i = b.kn (i + 1) ∧ snap b tol (grevilleAt b i) = grevilleAt b i ∧
      ∀ t, |t - grevilleAt b i| < tol → snap b tol t = grevilleAt b i) := by
  have hb := greville_bounds b hs hp i hi
  refine ⟨hb, snap_between_knots b tol _ hsep (by omega) hi hb.1 hb.2, ?_⟩
  intro heq
  have hg : grevilleAt b i = b.kn (i + 1) := le_antisymm (by rw [heq]; exact hb.2) hb.1
  have hi1 : i + 1 < b.size := by omega
  refine ⟨hg, ?_, ?_⟩
  · rw [hg]; exact snap_knot b tol htol hs hsep hi1
  · intro t ht
    rw [hg] at ht ⊢
    exact snap_of_near b tol t hs hsep hi1 ht

end Splipy.C20
