import Mathlib.Tactic.Linarith
import Mathlib.Tactic.Ring
import Mathlib.Tactic.IntervalCases
import Mathlib.Algebra.Order.Field.Basic
import Splipy.Model.Numbering
import Splipy.Lemmas.C18Cells

/-!
# C18 — faces of trilinear cells: vertex order / normals, owner below neighbour
-/

namespace Splipy.MP.C18L

/-! ## the six faces of one cell as `TopologicalNode.faces` lists them -/

/-- numbers of the 8 corners of a single cell: `cp_numbers = arange(8).reshape(2,2,2)` -/
def oneCellCp : NdArr ℤ := arangeArr 0 [2, 2, 2]
def oneCell : NdArr ℤ := arangeArr 0 [1, 1, 1]

/-- a single cell has no internal faces … -/
theorem oneCell_internal : ∀ d < 3, internalFaces [1, 1, 1] oneCellCp oneCell d = [] := by decide

/-- … and its six boundary faces, in the order `u=0, u=1, v=0, v=1, w=0, w=1`, have these vertex
    cycles (corner `(i,j,k)` has the number `4i+2j+k`). -/
theorem oneCell_sides (nm : Option String) :
    [sideFaces [1, 1, 1] oneCellCp oneCell 0 false nm, sideFaces [1, 1, 1] oneCellCp oneCell 0 true nm,
     sideFaces [1, 1, 1] oneCellCp oneCell 1 false nm, sideFaces [1, 1, 1] oneCellCp oneCell 1 true nm,
     sideFaces [1, 1, 1] oneCellCp oneCell 2 false nm, sideFaces [1, 1, 1] oneCellCp oneCell 2 true nm] =
    [[⟨[0, 1, 3, 2], 0, -1, nm⟩], [⟨[4, 6, 7, 5], 0, -1, nm⟩],
     [⟨[0, 4, 5, 1], 0, -1, nm⟩], [⟨[2, 3, 7, 6], 0, -1, nm⟩],
     [⟨[0, 2, 6, 4], 0, -1, nm⟩], [⟨[1, 5, 7, 3], 0, -1, nm⟩]] := by
  rfl

/-! ## normals -/

section Normals
variable {K : Type} [Field K] [LinearOrder K]

/-- a point of 3-space -/
structure P3 (K : Type) where
  x : K
  y : K
  z : K

/-- `det [u; v; w]` of the difference vectors `b - a`, `c - a`, `d - a` -/
def tripleAt (a b c d : P3 K) : K :=
  let ux := b.x - a.x; let uy := b.y - a.y; let uz := b.z - a.z
  let vx := c.x - a.x; let vy := c.y - a.y; let vz := c.z - a.z
  let wx := d.x - a.x; let wy := d.y - a.y; let wz := d.z - a.z
  ux * (vy * wz - vz * wy) - uy * (vx * wz - vz * wx) + uz * (vx * wy - vy * wx)

/-- flip the bit of weight `w ∈ {4,2,1}` of a corner number `n < 8` -/
def flipBit (n w : ℕ) : ℕ := if (n / w) % 2 = 0 then n + w else n - w

/-- Jacobian determinant of the trilinear map at the corner `n` of the cell: determinant of the
    three edge vectors leaving the corner, each taken in the positive parameter direction. -/
def cornerJac (P : ℕ → P3 K) (n : ℕ) : K :=
  let s (w : ℕ) : K := if (n / w) % 2 = 0 then 1 else -1
  s 4 * s 2 * s 1 * tripleAt (P n) (P (flipBit n 4)) (P (flipBit n 2)) (P (flipBit n 1))

/-- the six faces of a cell: vertex cycle as listed by the code and the weight of the normal
    direction (`4` = u, `2` = v, `1` = w) -/
def cellFaceTable : List (List ℕ × ℕ) :=
  [([0, 1, 3, 2], 4), ([4, 6, 7, 5], 4), ([0, 4, 5, 1], 2), ([2, 3, 7, 6], 2), ([0, 2, 6, 4], 1), ([1, 5, 7, 3], 1)]

/-- the listed cycle `a → b → c → d` of a face with normal direction `w`: at every vertex `v` the
    normal `(next - v) × (previous - v)` has a positive component along the edge that leaves the
    cell at `v` (from `flipBit v w`, the vertex opposite to `v` across the cell, to `v`):
    `((next - v) × (previous - v)) · (v - opposite) = -det[next - v; previous - v; opposite - v] > 0`. -/
def CycleOutward (P : ℕ → P3 K) (a b c d w : ℕ) : Prop :=
  0 < -tripleAt (P a) (P b) (P d) (P (flipBit a w)) ∧ 0 < -tripleAt (P b) (P c) (P a) (P (flipBit b w)) ∧
  0 < -tripleAt (P c) (P d) (P b) (P (flipBit c w)) ∧ 0 < -tripleAt (P d) (P a) (P c) (P (flipBit d w))

theorem face_vertex (P : ℕ → P3 K) (hJ : ∀ n < 8, 0 < cornerJac P n) (v nxt prv opp : ℕ) (hv : v < 8)
    (heq : -tripleAt (P v) (P nxt) (P prv) (P opp) = cornerJac P v) :
    0 < -tripleAt (P v) (P nxt) (P prv) (P opp) := heq ▸ hJ v hv

/-- **outward normals.**  For a trilinear cell whose Jacobian is positive at its 8 corners
    (right-handed), the vertex cycles of `oneCell_sides` all turn counter-clockwise seen from
    outside the cell. -/
theorem outward_normals (P : ℕ → P3 K) (hJ : ∀ n < 8, 0 < cornerJac P n) :
    CycleOutward P 0 1 3 2 4 ∧ CycleOutward P 4 6 7 5 4 ∧ CycleOutward P 0 4 5 1 2 ∧
    CycleOutward P 2 3 7 6 2 ∧ CycleOutward P 0 2 6 4 1 ∧ CycleOutward P 1 5 7 3 1 := by
  refine ⟨⟨?_, ?_, ?_, ?_⟩, ⟨?_, ?_, ?_, ?_⟩, ⟨?_, ?_, ?_, ?_⟩, ⟨?_, ?_, ?_, ?_⟩, ⟨?_, ?_, ?_, ?_⟩, ⟨?_, ?_, ?_, ?_⟩⟩ <;>
    exact face_vertex P hJ _ _ _ _ (by norm_num)
      (by simp only [cornerJac, flipBit, tripleAt]; norm_num; try ring)

end Normals

/-! ## owner below neighbour -/

theorem ravel_bump : ∀ (s i : List ℕ) (d : ℕ), d < s.length → i.length = s.length →
    ravel s (bumpIdx i d) = ravel s i + shapeSize (s.drop (d + 1))
  | [], _, d, hd, _ => by simp at hd
  | n :: ns, [], d, _, hl => by simp at hl
  | n :: ns, x :: xs, 0, _, _ => by
    simp only [bumpIdx, List.set_cons_zero, List.getD_cons_zero, ravel, List.drop_succ_cons, List.drop_zero]
    ring
  | n :: ns, x :: xs, d + 1, hd, hl => by
    have ih := ravel_bump ns xs d (by simpa using hd) (by simpa using hl)
    simp only [bumpIdx, List.set_cons_succ, List.getD_cons_succ, ravel, List.drop_succ_cons] at ih ⊢
    rw [ih]; ring

theorem inRange_of_set_pred {cs idx : List ℕ} {d : ℕ} (h : InRange idx (cs.set d (cs.getD d 0 - 1))) :
    InRange idx cs ∧ InRange (bumpIdx idx d) cs := by
  obtain ⟨hl, hr⟩ := h
  rw [List.length_set] at hl hr
  refine ⟨⟨hl, fun e he => ?_⟩, ⟨by simp [bumpIdx, hl], fun e he => ?_⟩⟩
  · have := hr e he
    simp only [List.getD_eq_getElem?_getD, List.getElem?_set] at this ⊢
    by_cases hed : d = e
    · subst hed
      simp only [if_true, he] at this
      simp at this; omega
    · simpa [hed] using this
  · have := hr e he
    simp only [bumpIdx, List.getD_eq_getElem?_getD, List.getElem?_set] at this ⊢
    by_cases hed : d = e
    · subst hed
      have he' : d < idx.length := by omega
      simp only [if_true, he, he'] at this ⊢
      simp at this ⊢; omega
    · simpa [hed] using this

/-- **internal faces of a patch have `owner < neighbour`** (cell numbers of a patch are
    `start + C-order rank`; the neighbour is one step further in the normal direction). -/
theorem internal_owner_lt (cs : List ℕ) (cp : NdArr ℤ) (start d : ℕ) (hd : d < cs.length)
    (hpos : ∀ n ∈ cs, 0 < n) :
    ∀ f ∈ internalFaces cs cp (arangeArr start cs) d, f.owner < f.neighbor ∧ f.name = none := by
  intro f hf
  unfold internalFaces at hf
  simp only [List.mem_map, List.mem_range] at hf
  obtain ⟨k, hk, rfl⟩ := hf
  refine ⟨?_, rfl⟩
  obtain ⟨h1, h2⟩ := inRange_of_set_pred (unravel_inRange hk)
  simp only
  rw [arangeArr_get start h1, arangeArr_get start h2, ravel_bump cs _ d hd h1.1]
  have : 0 < shapeSize (cs.drop (d + 1)) :=
    shapeSize_pos (fun n hn => hpos n (List.mem_of_mem_drop hn))
  push_cast
  omega

/-- cell numbers of different patches: every cell of an earlier patch is below every cell of a
    later one (`cellArrays` hands out consecutive blocks). -/
theorem cellArrays_blocks : ∀ (shapes : List (List ℕ)) (start : ℕ) (i j : ℕ), i < j →
    ∀ a ∈ ((cellArrays shapes start).1.getD i default).data.toList,
    ∀ b ∈ ((cellArrays shapes start).1.getD j default).data.toList,
      (cellArrays shapes start).1.length > j → a < b
  | [], _, _, _, _, _, _, _, _, h => by simp [cellArrays] at h
  | s :: ss, start, 0, j + 1, _, a, ha, b, hb, hlen => by
    simp only [cellArrays, List.getD_cons_zero, List.getD_cons_succ, arangeArr_data] at ha hb hlen
    obtain ⟨x, hx, rfl⟩ := List.mem_map.1 ha
    have hx' := List.mem_range'_1.1 hx
    -- `b` is an entry of some later array: it is at least `start + shapeSize s`
    have hb' : ((cellArrays ss (start + shapeSize s)).1.getD j default) ∈ (cellArrays ss (start + shapeSize s)).1 := by
      rw [List.getD_eq_getElem?_getD, List.getElem?_eq_getElem (by simpa using hlen)]
      exact List.getElem_mem _
    have hmem : b ∈ (cellArrays ss (start + shapeSize s)).1.flatMap (·.data.toList) :=
      List.mem_flatMap.2 ⟨_, hb', hb⟩
    rw [cellArrays_flatten] at hmem
    obtain ⟨y, hy, rfl⟩ := List.mem_map.1 hmem
    have hy' := List.mem_range'_1.1 hy
    exact_mod_cast (by omega : x < y)
  | s :: ss, start, i + 1, j + 1, hij, a, ha, b, hb, hlen => by
    simp only [cellArrays, List.getD_cons_succ, List.length_cons] at ha hb hlen
    exact cellArrays_blocks ss _ i j (by omega) a ha b hb (by omega)

end Splipy.MP.C18L
