import Splipy.Model.BasisOps
import Splipy.Model.Tolerance

/-!
# The two models of `continuity` / `knot_spans` are the same function (C20)

`Splipy.Tol.continuity` / `Splipy.Tol.knotSpans` (written for C20) and `Splipy.Basis.continuity` /
`Splipy.Basis.knotSpans` (the shared model of `basis.py` used by C05/C07/C12) were written
independently from the same Python source.  They are extensionally equal, so the C20 theorems
apply to the shared model.
-/

namespace Splipy.C20

open Splipy

variable {K : Type} [Field K] [LinearOrder K]

/-- `Tol.continuity` and `Basis.continuity` agree on every basis, tolerance and parameter. -/
theorem continuity_eq_shared [FloorRing K] (b : Basis K) (tol t : K) :
    Tol.continuity b tol t = b.continuity tol t := by
  unfold Tol.continuity Basis.continuity Basis.bisectL Basis.size
  by_cases hper : b.periodic ≥ 0
  · have h1 : ¬ (b.periodic < 0 ∧ (t < b.start - tol ∨ b.stop + tol < t)) := fun h => by omega
    simp only [h1, if_false, hper, true_and, if_true]
    split_ifs <;> rfl
  · have hneg : b.periodic < 0 := by omega
    by_cases hout : t < b.start - tol ∨ b.stop + tol < t
    · simp only [hneg, hout, and_self, if_true, hper, if_false]
      rfl
    · simp only [if_false, hper, hout, and_false, false_and]
      split_ifs <;> rfl

/-- The accumulating loop of `knot_spans` on an array (shared model) and on a reversed list
    (`Tol.spansLoop`) compute the same sequence, as long as the accumulator is non-empty. -/
theorem spansLoop_eq_foldl (tol : K) (ks : List K) (acc : Array K) (hacc : 0 < acc.size) :
    (ks.foldl (fun (acc : Array K) k =>
        if |k - acc.getD (acc.size - 1) 0| > tol then acc.push k else acc) acc).toList
      = Tol.spansLoop tol ks acc.toList.reverse := by
  induction ks generalizing acc with
  | nil =>
    simp [Tol.spansLoop]
  | cons k ks ih =>
    simp only [List.foldl_cons]
    -- the head of the reversed accumulator is its last entry
    have hlast : ∃ rest, acc.toList.reverse = acc.getD (acc.size - 1) 0 :: rest := by
      have hne : acc.toList ≠ [] := by
        intro h
        have : acc.toList.length = 0 := by rw [h]; rfl
        rw [Array.length_toList] at this; omega
      refine ⟨(acc.toList.dropLast).reverse, ?_⟩
      have h1 : acc.toList = acc.toList.dropLast ++ [acc.toList.getLast hne] :=
        (List.dropLast_append_getLast hne).symm
      have h2 : acc.toList.getLast hne = acc.getD (acc.size - 1) 0 := by
        rw [List.getLast_eq_getElem]
        simp [Array.getD, hacc]
      conv_lhs => rw [h1]
      rw [List.reverse_append, h2]; rfl
    obtain ⟨rest, hrest⟩ := hlast
    by_cases hc : |k - acc.getD (acc.size - 1) 0| > tol
    · rw [if_pos hc, ih (acc.push k) (by simp)]
      rw [hrest]
      simp only [Tol.spansLoop, hc, if_true]
      rw [← hrest]; simp
    · rw [if_neg hc, ih acc hacc, hrest]
      simp only [Tol.spansLoop, hc, if_false]

/-- `Tol.knotSpans` is the list of `Basis.knotSpans`. -/
theorem knotSpans_eq_shared (b : Basis K) (tol : K) (ghost : Bool) :
    (b.knotSpans tol ghost).toList = Tol.knotSpans b tol ghost := by
  unfold Basis.knotSpans Tol.knotSpans
  cases ghost with
  | true =>
    simp only [if_true]
    rw [spansLoop_eq_foldl tol _ _ (by simp)]
    simp
  | false =>
    simp only [Bool.false_eq_true, if_false]
    rw [spansLoop_eq_foldl tol _ _ (by simp)]
    by_cases hp : b.order = 1
    · simp [hp]
    · simp only [hp, if_false, Array.toList_extract, List.extract_eq_take_drop]
      simp

end Splipy.C20
