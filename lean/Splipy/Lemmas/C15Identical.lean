import Splipy.Properties.C12

/-!
# `make_splines_identical` on clamped directions, with the well-formedness of the results

`C12_open_direction_partial` / `C12_open_curves` / `C12_open_surfaces` state the bases and the evaluated
maps of the two results; the factories of property C15 also need the *shapes* of the resulting control
arrays (`C06.WF`), which the C12 lemmas establish internally (`open_direction_same_order`) but do not
export.  This file re-assembles the same stages keeping that conclusion.
-/

set_option linter.unusedSectionVars false

namespace Splipy
namespace C15

open C06 C12 Obj Basis

variable {K : Type} [Field K] [LinearOrder K] [IsStrictOrderedRing K] [FloorRing K] {m : ℕ}

/-- `C12.open_direction_any_order` with `C06.WF r.1 m ∧ C06.WF r.2 m` kept. -/
theorem open_direction_any_order_wf (tol : K) (htol : 0 < tol) (c1 c2 : Bool) (p1 p2 : ℕ) (hp1 : 2 ≤ p1)
    (hp2 : 2 ≤ p2) (x0 xl : K) (L : List (K × ℕ × ℕ))
    (hsep : Separated tol (clampedU x0 xl (L.map (·.1))))
    (i : Fin m) (hi : (i : ℕ) ≤ 2)
    (a : Obj K × Obj K) (hw1 : C06.WF a.1 m) (hw2 : C06.WF a.2 m)
    (hb1 : a.1.basis i = openBasis p1 (clampedU x0 xl (L.map (·.1))) (clampedM p1 (L.map (·.2.1))))
    (hb2 : a.2.basis i = openBasis p2 (clampedU x0 xl (L.map (·.1))) (clampedM p2 (L.map (·.2.2))))
    (H_raise₁ : p1 < max p1 p2 → RaisesTo tol c1 m i p1 (max p1 p2) x0 xl L (·.1) (·.2.1) a.1)
    (H_raise₂ : p2 < max p1 p2 → RaisesTo tol c2 m i p2 (max p1 p2) x0 xl L (·.1) (·.2.2) a.2) :
    ∃ c r, Obj.stagePeriodic a i = .ok a ∧ Obj.stageOrder tol c1 c2 a i = .ok c
      ∧ Obj.stageMerge tol (max (a.1.basis i).order (a.2.basis i).order) c i = .ok r
      ∧ r.1.basis i = openBasis (max p1 p2) (clampedU x0 xl (L.map (·.1)))
          (clampedM (max p1 p2) (L.map (fun e =>
            max (raisedMult (max p1 p2 - p1) e.2.1) (raisedMult (max p1 p2 - p2) e.2.2))))
      ∧ r.2.basis i = r.1.basis i
      ∧ SameMap m a.1 r.1 ∧ SameMap m a.2 r.2 ∧ C06.WF r.1 m ∧ C06.WF r.2 m
      ∧ (∀ k : Fin m, k ≠ i → r.1.basis k = a.1.basis k ∧ r.2.basis k = a.2.basis k) := by
  set p := max p1 p2 with hp
  have hle1 : p1 ≤ p := le_max_left _ _
  have hle2 : p2 ≤ p := le_max_right _ _
  have ho1 : (a.1.basis i).order = p1 := by rw [hb1]; rfl
  have ho2 : (a.2.basis i).order = p2 := by rw [hb2]; rfl
  have hper1 : (a.1.basis i).periodic = -1 := by rw [hb1]; rfl
  have hper2 : (a.2.basis i).periodic = -1 := by rw [hb2]; rfl
  have hSP : Obj.stagePeriodic a i = .ok a := by
    unfold Obj.stagePeriodic
    simp [hper1, hper2]
  have hR1 : RaisesTo tol c1 m i p1 p x0 xl L (·.1) (·.2.1) a.1 := by
    rcases Nat.eq_or_lt_of_le hle1 with h | h
    · rw [← h]; exact raisesTo_same tol c1 i hi p1 x0 xl L _ _ a.1 hw1 hb1
    · exact H_raise₁ h
  have hR2 : RaisesTo tol c2 m i p2 p x0 xl L (·.1) (·.2.2) a.2 := by
    rcases Nat.eq_or_lt_of_le hle2 with h | h
    · rw [← h]; exact raisesTo_same tol c2 i hi p2 x0 xl L _ _ a.2 hw2 hb2
    · exact H_raise₂ h
  obtain ⟨r1, o1, hr1, hwo1, hbo1, hs1, hk1⟩ := hR1
  obtain ⟨r2, o2, hr2, hwo2, hbo2, hs2, hk2⟩ := hR2
  have hSO : Obj.stageOrder tol c1 c2 a i = .ok (o1, o2) := by
    unfold Obj.stageOrder
    simp only [ho1, ho2]
    rw [← hp, hr1, hr2]
  set L2 : List (K × ℕ × ℕ) := L.map (fun e => (e.1, raisedMult (p - p1) e.2.1, raisedMult (p - p2) e.2.2)) with hL2
  have e0 : L2.map (·.1) = L.map (·.1) := by rw [hL2, List.map_map]; rfl
  have e1 : L2.map (·.2.1) = L.map (fun e => raisedMult (p - p1) e.2.1) := by rw [hL2, List.map_map]; rfl
  have e2 : L2.map (·.2.2) = L.map (fun e => raisedMult (p - p2) e.2.2) := by rw [hL2, List.map_map]; rfl
  have e3 : L2.map (fun e => max e.2.1 e.2.2)
      = L.map (fun e => max (raisedMult (p - p1) e.2.1) (raisedMult (p - p2) e.2.2)) := by
    rw [hL2, List.map_map]; rfl
  have hp2' : 2 ≤ p := le_trans hp1 hle1
  have hsep2 : Separated tol (clampedU x0 xl (L2.map (·.1))) := by rw [e0]; exact hsep
  obtain ⟨r, _, _, hSM, hrb1, hrb2, hm1, hm2, hwr1, hwr2, hkr⟩ := open_direction_same_order tol htol c1 c2 p hp2' x0 xl
    L2 hsep2 i hi (o1, o2) hwo1 hwo2 (by rw [e0, e1]; exact hbo1) (by rw [e0, e2]; exact hbo2)
  have hoo1 : ((o1, o2).1.basis i).order = p := by show (o1.basis i).order = p; rw [hbo1]; rfl
  have hoo2 : ((o1, o2).2.basis i).order = p := by show (o2.basis i).order = p; rw [hbo2]; rfl
  rw [hoo1, hoo2, max_self] at hSM
  refine ⟨(o1, o2), r, hSP, hSO, by rw [ho1, ho2]; exact hSM, ?_, hrb2, hs1.trans hm1, hs2.trans hm2,
    hwr1, hwr2, ?_⟩
  · rw [hrb1, e0, e3]
  · intro k hk
    exact ⟨((hkr k hk).1).trans (hk1 k hk), ((hkr k hk).2).trans (hk2 k hk)⟩

/-- `C12_open_direction_partial` with the well-formedness of both results. -/
theorem identicalDir_open_wf (tol : K) (htol : 0 < tol) (c1 c2 : Bool) (p1 p2 : ℕ)
    (hp1 : 2 ≤ p1) (hp2 : 2 ≤ p2) (x0 xl : K) (L : List (K × ℕ × ℕ))
    (hsep : Separated tol (clampedU x0 xl (L.map (·.1)))) (i : Fin m) (hi : (i : ℕ) ≤ 2)
    (s a : Obj K × Obj K) (hw1 : C06.WF s.1 m) (hw2 : C06.WF s.2 m) (ha : stageReparam s i = .ok a)
    (hb1 : a.1.basis i = openBasis p1 (clampedU x0 xl (L.map (·.1))) (clampedM p1 (L.map (·.2.1))))
    (hb2 : a.2.basis i = openBasis p2 (clampedU x0 xl (L.map (·.1))) (clampedM p2 (L.map (·.2.2))))
    (H_raise₁ : p1 < max p1 p2 → RaisesTo tol c1 m i p1 (max p1 p2) x0 xl L (·.1) (·.2.1) a.1)
    (H_raise₂ : p2 < max p1 p2 → RaisesTo tol c2 m i p2 (max p1 p2) x0 xl L (·.1) (·.2.2) a.2) :
    ∃ r, identicalDir tol c1 c2 s i = .ok r
      ∧ r.1.basis i = openBasis (max p1 p2) (clampedU x0 xl (L.map (·.1)))
          (clampedM (max p1 p2) (L.map (fun e =>
            max (raisedMult (max p1 p2 - p1) e.2.1) (raisedMult (max p1 p2 - p2) e.2.2))))
      ∧ r.2.basis i = r.1.basis i
      ∧ (∀ k : Fin m, k ≠ i → r.1.basis k = s.1.basis k ∧ r.2.basis k = s.2.basis k)
      ∧ Rescaled m i (s.1.basis i).start (s.1.basis i).stop s.1 r.1
      ∧ Rescaled m i (s.2.basis i).start (s.2.basis i).stop s.2 r.2
      ∧ C06.WF r.1 m ∧ C06.WF r.2 m := by
  obtain ⟨_, _, ha1, ha2⟩ := stageReparam_ok ha
  have hre1 := reparam_rescaled hw1 i ha1
  have hre2 := reparam_rescaled hw2 i ha2
  obtain ⟨c, r, hSP, hSO, hSM, hr1, hr2, hs1, hs2, hwr1, hwr2, hk⟩ :=
    open_direction_any_order_wf tol htol c1 c2 p1 p2 hp1 hp2 x0 xl L hsep i hi a hre1.2.1 hre2.2.1 hb1 hb2
      H_raise₁ H_raise₂
  have hod1 := reparamDir_onlyDir ha1
  have hod2 := reparamDir_onlyDir ha2
  refine ⟨r, identicalDir_of_stages ha hSP hSO hSM, hr1, hr2, fun k hk' => ?_,
    hre1.1.trans_same hs1, hre2.1.trans_same hs2, hwr1, hwr2⟩
  have hne : (k : ℕ) ≠ (i : ℕ) := fun e => hk' (Fin.ext e)
  exact ⟨((hk k hk').1).trans (hod1.basis_ne k hne), ((hk k hk').2).trans (hod2.basis_ne k hne)⟩

end C15
end Splipy
