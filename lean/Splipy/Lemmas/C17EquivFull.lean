import Mathlib.Algebra.BigOperators.Group.List.Basic
import Splipy.Lemmas.C17Perm

/-! Lemmas for C17: `≈` is an equivalence relation on ALL well-formed objects (rational, non-rational,
mixed), through the canonical net `pnet` (promoted to rational and weight-normalised). -/

namespace Splipy.MP

/-- `np.sum(cps[..., -1])` -/
def wsum (c : NdArr (List ℚ)) : ℚ := c.data.foldl (fun acc p => acc + lastD p) 0

theorem normWeights_eq (c : NdArr (List ℚ)) :
    normWeights c = c.map (fun p => p.dropLast ++ [lastD p / wsum c]) := rfl

theorem foldl_add_eq_sum (l : List (List ℚ)) (init : ℚ) :
    l.foldl (fun acc p => acc + lastD p) init = init + (l.map lastD).sum := by
  induction l generalizing init with
  | nil => simp
  | cons a as ih => simp [ih, add_assoc]

theorem wsum_eq (c : NdArr (List ℚ)) : wsum c = (c.data.toList.map lastD).sum := by
  unfold wsum
  rw [← Array.foldl_toList, foldl_add_eq_sum]; simp

theorem wsum_mapArray {o : Orientation} {n : ℕ} (ho : o.WF n) (c : NdArr (List ℚ))
    (hs : c.shape.length = n) (hpos : ∀ m ∈ c.shape, 0 < m) (hsz : c.data.size = shapeSize c.shape) :
    wsum (o.mapArray c) = wsum c := by
  rw [wsum_eq, wsum_eq]
  exact ((mapArray_data_perm ho c hs hpos hsz).map lastD).sum_eq

theorem mapArray_map {α β : Type} [Inhabited α] [Inhabited β] {o : Orientation} {n : ℕ} (ho : o.WF n)
    (X : NdArr α) (f : α → β) (hs : X.shape.length = n) (hpos : ∀ m ∈ X.shape, 0 < m)
    (hsz : X.data.size = shapeSize X.shape) : o.mapArray (X.map f) = (o.mapArray X).map f :=
  apply_map o.toReindex X f (by rw [hs]; exact Orientation.toReindex_consistent ho) hpos hsz

theorem mapArray_normWeights {o : Orientation} {n : ℕ} (ho : o.WF n) (c : NdArr (List ℚ))
    (hs : c.shape.length = n) (hpos : ∀ m ∈ c.shape, 0 < m) (hsz : c.data.size = shapeSize c.shape) :
    o.mapArray (normWeights c) = normWeights (o.mapArray c) := by
  rw [normWeights_eq, normWeights_eq, mapArray_map ho c _ hs hpos hsz, wsum_mapArray ho c hs hpos hsz]

theorem mapArray_promote {o : Orientation} {n : ℕ} (ho : o.WF n) (c : NdArr (List ℚ))
    (hs : c.shape.length = n) (hpos : ∀ m ∈ c.shape, 0 < m) (hsz : c.data.size = shapeSize c.shape) :
    o.mapArray (promoteNet c) = promoteNet (o.mapArray c) :=
  mapArray_map ho c _ hs hpos hsz

/-- the canonical net of an object: rational form, weights divided by their sum -/
def pnet (x : Obj) : NdArr (List ℚ) := normWeights (if x.rational then x.cps else promoteNet x.cps)

theorem pnet_shape (x : Obj) : (pnet x).shape = x.shape := by
  unfold pnet; split <;> rfl

theorem pnet_size (x : Obj) : (pnet x).data.size = x.cps.data.size := by
  unfold pnet; split <;> simp [normWeights, promoteNet, NdArr.map]

theorem compareNets_rat {a b : Obj} (h : (a.rational || b.rational) = true) :
    compareNets a b = (pnet a, pnet b) := by
  unfold compareNets pnet
  cases ha : a.rational <;> cases hb : b.rational <;> simp_all

theorem compareNets_nonrat {a b : Obj} (ha : a.rational = false) (hb : b.rational = false) :
    compareNets a b = (a.cps, b.cps) := by
  unfold compareNets; simp [ha, hb]

/-- `promote` then normalise is injective on nets -/
theorem norm_promote_inj {X Y : NdArr (List ℚ)}
    (h : normWeights (promoteNet X) = normWeights (promoteNet Y)) : X = Y := by
  cases X with
  | mk sx dx =>
    cases Y with
    | mk sy dy =>
      simp only [normWeights, promoteNet, NdArr.map, NdArr.mk.injEq] at h
      obtain ⟨hs, hd⟩ := h
      subst hs
      congr 1
      have hsz : dx.size = dy.size := by
        have := congrArg Array.size hd; simpa using this
      apply Array.ext hsz
      intro i h1 h2
      have := congrArg (fun a : Array (List ℚ) => a[i]?) hd
      simp only [Array.getElem?_map, Array.getElem?_eq_getElem h1, Array.getElem?_eq_getElem h2,
        Option.map_some, Option.some.injEq] at this
      simp only [List.dropLast_concat] at this
      exact List.append_inj_left' this rfl

theorem fits_pnet_iff {a b : Obj} {o : Orientation} {n : ℕ} (ho : o.WF n) (hb : b.Good)
    (hbn : b.pardim = n) :
    Fits o a b ↔ o.mapShape b.shape = a.shape ∧ o.mapArray (pnet b) = pnet a ∧
      basesMatch o a b = true := by
  rw [fits_iff]
  by_cases hr : (a.rational || b.rational) = true
  · rw [compareNets_rat hr]; simp only [pnet_shape]
  · have ha' : a.rational = false := by
      cases h : a.rational <;> simp_all
    have hb' : b.rational = false := by
      cases h : b.rational <;> simp_all
    rw [compareNets_nonrat ha' hb']
    have hbl : b.cps.shape.length = n := by rw [← hbn]; exact hb.axes
    have hpl : (promoteNet b.cps).shape.length = n := hbl
    have hcomm : o.mapArray (pnet b) = normWeights (promoteNet (o.mapArray b.cps)) := by
      unfold pnet
      simp only [hb', Bool.false_eq_true, if_false]
      rw [mapArray_normWeights ho _ hpl hb.pos (by simp only [promoteNet, NdArr.map, Array.size_map]; exact hb.size),
        mapArray_promote ho _ hbl hb.pos hb.size]
    have hpa : pnet a = normWeights (promoteNet a.cps) := by
      unfold pnet; simp [ha']
    constructor
    · rintro ⟨h1, h2, h3⟩
      exact ⟨h1, by rw [hcomm, hpa, h2], h3⟩
    · rintro ⟨h1, h2, h3⟩
      refine ⟨h1, ?_, h3⟩
      rw [hcomm, hpa] at h2
      exact norm_promote_inj h2

/-! ### the equivalence relation, all rationalities -/

theorem Equiv.symm_full {a b : Obj} (ha : a.Good) (hb : b.Good) (h : Equiv a b) : Equiv b a := by
  obtain ⟨o, ho⟩ := h
  obtain ⟨hwf, hfit, hp, hd⟩ := compute_sound a b o ho
  have hwfb : o.WF b.pardim := hp ▸ hwf
  obtain ⟨hsh, harr, hbm⟩ := (fits_pnet_iff hwfb hb rfl).1 hfit
  have hinv := Orientation.inv_wf hwfb
  apply compute_complete b a ha.axes hp.symm hd.symm
  refine ⟨o.inv, hinv, ?_⟩
  rw [fits_pnet_iff hinv ha hp]
  have hnb_len : (pnet b).shape.length = b.pardim := by rw [pnet_shape]; exact hb.axes
  have hnb_pos : ∀ m ∈ (pnet b).shape, 0 < m := by rw [pnet_shape]; exact hb.pos
  have hcomp := inv_mapArray hwfb (pnet b) hnb_len hnb_pos (by rw [pnet_size, pnet_shape]; exact hb.size)
  rw [harr] at hcomp
  refine ⟨?_, hcomp, ?_⟩
  · rw [← hsh]; exact inv_mapShape hwfb b.shape hb.axes
  · rw [basesMatch_iff] at hbm ⊢
    intro j hj
    have hi : o.perm.idxOf j < b.pardim := hwfb.isPerm.idxOf_lt hj
    rw [Orientation.inv_perm_getD hwfb hj, Orientation.inv_flip_getD hwfb hj]
    have := hbm (o.perm.idxOf j) (by rw [hp]; exact hi)
    rw [hwfb.isPerm.getD_idxOf hj] at this
    exact basisMatches_symm (ha.knots _ (by rw [hp]; exact hi)) (hb.knots _ hj) this

theorem Equiv.trans_full {a b c : Obj} (ha : a.Good) (hb : b.Good) (hc : c.Good)
    (h1 : Equiv a b) (h2 : Equiv b c) : Equiv a c := by
  obtain ⟨o1, ho1⟩ := h1
  obtain ⟨o2, ho2⟩ := h2
  obtain ⟨hwf1, hfit1, hp1, hd1⟩ := compute_sound a b o1 ho1
  obtain ⟨hwf2, hfit2, hp2, hd2⟩ := compute_sound b c o2 ho2
  have hwf2a : o2.WF a.pardim := by rw [hp1]; exact hwf2
  obtain ⟨hsh1, harr1, hbm1⟩ := (fits_pnet_iff hwf1 hb hp1.symm).1 hfit1
  obtain ⟨hsh2, harr2, hbm2⟩ := (fits_pnet_iff hwf2a hc (hp1.trans hp2).symm).1 hfit2
  apply compute_complete a c hc.axes (hp1.trans hp2) (hd1.trans hd2)
  refine ⟨o1 * o2, Orientation.mul_wf hwf1 hwf2a, ?_⟩
  rw [fits_pnet_iff (Orientation.mul_wf hwf1 hwf2a) hc (hp1.trans hp2).symm]
  have hnc_len : (pnet c).shape.length = a.pardim := by
    rw [pnet_shape, hc.axes, ← hp2, ← hp1]
  have hnc_pos : ∀ m ∈ (pnet c).shape, 0 < m := by rw [pnet_shape]; exact hc.pos
  refine ⟨?_, ?_, ?_⟩
  · have hca : o1.toReindex.Consistent o2.toReindex.axes.length = true := by
      show o1.toReindex.Consistent o2.perm.length = true
      rw [hwf2a.isPerm.length]; exact Orientation.toReindex_consistent hwf1
    have := Reindex.comp_shape o1.toReindex o2.toReindex c.shape hca
    rw [← Orientation.toReindex_mul hwf1 hwf2a] at this
    unfold Orientation.mapShape at hsh1 hsh2 ⊢
    rw [this, hsh2, hsh1]
  · rw [Orientation.mapArray_mul hwf1 hwf2a (pnet c) hnc_len hnc_pos, harr2, harr1]
  · rw [basesMatch_iff] at hbm1 hbm2 ⊢
    intro i hi
    have hj : o1.perm.getD i 0 < a.pardim := hwf1.isPerm.getD_lt hi
    rw [Orientation.mul_perm_getD hwf1 hi, Orientation.mul_flip_getD hwf1 hi]
    exact basisMatches_trans (ha.knots i hi) (hb.knots _ (by rw [← hp1]; exact hj))
      (hbm1 i hi) (hbm2 _ (by rw [← hp1]; exact hj))

end Splipy.MP
