import Splipy.Lemmas.C14Interp
set_option linter.unusedSectionVars false

/-!
# C14 helper lemmas: the two-stage solve of `surface_factory.interpolate`
-/

namespace Splipy
open Finset Tensor

namespace Interp
variable {K : Type} [Field K]

/-- Two `tensordot(·, ·, axes=(1,1))` steps on an `A × B × C` array: the axes swap twice, so the
    result is `M₂.size × M₁.size × C` with `M₁` contracted against axis 1 and `M₂` against axis 0. -/
theorem chain2 (M1 M2 : Mat K) (x cp : Tensor K) {A B C : ℕ} (hs : x.shape = [A, B, C])
    (h : chain [M1, M2] x 2 = .ok cp) :
    (∀ r < M1.size, (M1.getD r #[]).size = B) ∧ (∀ r < M2.size, (M2.getD r #[]).size = A) ∧
    cp.shape = [M2.size, M1.size, C] ∧ cp.data.size = M2.size * M1.size * C ∧
    ∀ r2 < M2.size, ∀ r1 < M1.size, ∀ k < C,
      cp.entry3 M1.size C r2 r1 k =
        ∑ i ∈ range A, M2.get r2 i * ∑ j ∈ range B, M1.get r1 j * x.entry3 B C i j k := by
  unfold chain at h
  simp only [List.foldlM, bind, Except.bind, Nat.add_one_sub_one, pure, Except.pure] at h
  split at h
  · exact absurd h (by simp)
  · rename_i R1 hR1
    obtain ⟨hsh1, hrow1, hent1⟩ := tensordot3 M1 x R1 hs hR1
    split at h
    · exact absurd h (by simp)
    · rename_i R2 hR2
      obtain ⟨hsh2, hrow2, hent2⟩ := tensordot3 M2 R1 R2 hsh1 hR2
      have : R2 = cp := by cases h; rfl
      subst this
      refine ⟨hrow1, hrow2, hsh2, tensordot3_size M2 R1 R2 hsh1 hR2, fun r2 h2 r1 h1 k hk => ?_⟩
      rw [hent2 r2 h2 r1 h1 k hk]
      exact sum_congr rfl (fun i hi => by rw [hent1 r1 h1 i (mem_range.mp hi) k hk])

end Interp

namespace Interp
variable {K : Type} [Field K] [LinearOrder K] [FloorRing K]

/-- The prologue `if len(x.shape) == 2: x = x.reshape(shape + [dim])` yields a 3-d array with the
    same flat data, for both accepted layouts of a surface grid. -/
theorem gridInput_surface (bu bv : Basis K) (x x' : Tensor K)
    (hx : x.shape.length = 2 ∨ x.shape.length = 3) (h : gridInput [bu, bv] x = .ok x') :
    x'.data = x.data ∧ ∃ A B C, x'.shape = [A, B, C] := by
  unfold gridInput at h
  simp only at h
  split at h
  · unfold Interp.reshape at h
    split at h
    · exact absurd h (by simp)
    · cases h
      exact ⟨rfl, _, _, _, rfl⟩
  · rename_i h2
    cases h
    refine ⟨rfl, ?_⟩
    have h3 : x.shape.length = 3 := by omega
    match hsh : x.shape, h3 with
    | [a, b, c], _ => exact ⟨a, b, c, rfl⟩

/-- Core of `C14_interpolate_surface` once the inverses have been extracted. -/
theorem interpolate_surface_aux (bu bv : Basis K) (tol : K) (tu tv : List K)
    (x x' cp : Tensor K) (iu iv : Mat K) (A B C : ℕ) (htu : tu ≠ []) (htv : tv ≠ [])
    (hx' : gridInput [bu, bv] x = .ok x') (hdata : x'.data = x.data) (hsh : x'.shape = [A, B, C])
    (hiu : invC (colloc bu tol tu 0) = .ok iu) (hiv : invC (colloc bv tol tv 0) = .ok iv)
    (h : chain [iv, iu] x' 2 = .ok cp) :
    ∃ (x' : Tensor K) (d : ℕ), gridInput [bu, bv] x = .ok x' ∧ x'.data = x.data ∧
      x'.shape = [tu.length, tv.length, d] ∧ cp.shape = [tu.length, tv.length, d] ∧
      cp.data.size = tu.length * tv.length * d ∧
      tu.length = bu.numFunctions ∧ tv.length = bv.numFunctions ∧
      ∀ i < tu.length, ∀ j < tv.length, ∀ k < d,
        (Tensor.applyAxis (colloc bu tol tu 0) (Tensor.applyAxis (colloc bv tol tv 0) cp 1) 0).entry3 tv.length d i j k
          = x'.entry3 tv.length d i j k := by
  have n0pos : 0 < tu.length := List.length_pos_of_ne_nil htu
  have n1pos : 0 < tv.length := List.length_pos_of_ne_nil htv
  have hNu : (colloc bu tol tu 0).size = tu.length := size_colloc _ _ _ _
  have hNv : (colloc bv tol tv 0).size = tv.length := size_colloc _ _ _ _
  obtain ⟨hiuS, hiuC⟩ := invC_shape hiu (by rw [hNu]; exact n0pos)
  obtain ⟨hivS, hivC⟩ := invC_shape hiv (by rw [hNv]; exact n1pos)
  rw [hNu] at hiuS hiuC
  rw [hNv] at hivS hivC
  obtain ⟨hr1, hr2, hcp, hcpsz, hent⟩ := chain2 iv iu x' cp hsh h
  have hB : B = tv.length := by
    have := hr1 0 (by rw [hivS]; exact n1pos)
    rw [← this]; exact hivC
  have hA : A = tu.length := by
    have := hr2 0 (by rw [hiuS]; exact n0pos)
    rw [← this]; exact hiuC
  subst hA hB
  rw [hiuS, hivS] at hcp hent hcpsz
  have hnu : tu.length = bu.numFunctions := by
    have := (invC_ok hiu).1 0 (by rw [hNu]; exact n0pos)
    rw [row_colloc bu tol tu 0 0 n0pos, size_evaluate_c14, hNu] at this
    exact this.symm
  have hnv : tv.length = bv.numFunctions := by
    have := (invC_ok hiv).1 0 (by rw [hNv]; exact n1pos)
    rw [row_colloc bv tol tv 0 0 n1pos, size_evaluate_c14, hNv] at this
    exact this.symm
  refine ⟨x', C, hx', hdata, hsh, hcp, hcpsz, hnu, hnv, fun i hi j hj k hk => ?_⟩
  obtain ⟨hs1, he1⟩ := Tensor.applyAxis3_1_c14 (colloc bv tol tv 0) cp hcp
  rw [hNv] at hs1 he1
  obtain ⟨_, he0⟩ := Tensor.applyAxis3_0_c14 (colloc bu tol tu 0) _ hs1
  rw [hNu] at he0
  rw [he0 i hi j hj k hk]
  have step : ∀ a ∈ range tu.length,
      (colloc bu tol tu 0).get i a * (Tensor.applyAxis (colloc bv tol tv 0) cp 1).entry3 tv.length C a j k
        = (colloc bu tol tu 0).get i a * ∑ i' ∈ range tu.length, iu.get a i' * x'.entry3 tv.length C i' j k := by
    intro a ha
    have ha' := mem_range.mp ha
    congr 1
    rw [he1 a ha' j hj k hk]
    have : ∀ b ∈ range tv.length, (colloc bv tol tv 0).get j b * cp.entry3 tv.length C a b k
        = (colloc bv tol tv 0).get j b * ∑ i' ∈ range tu.length, iu.get a i' *
            ∑ j' ∈ range tv.length, iv.get b j' * x'.entry3 tv.length C i' j' k := by
      intro b hb
      rw [hent a ha' b (mem_range.mp hb) k hk]
    rw [sum_congr rfl this, sum_swap_c14]
    apply sum_congr rfl
    intro i' _
    congr 1
    exact sum_cancel_c14 tv.length j hj _ _ (fun j' => x'.entry3 tv.length C i' j' k)
      (fun j' hj' => by
        have := invC_entries hiv j j' (by rw [hNv]; exact hj) (by rw [hNv]; exact hj')
        rw [hNv] at this; exact this)
  rw [sum_congr rfl step]
  exact sum_cancel_c14 tu.length i hi _ _ (fun i' => x'.entry3 tv.length C i' j k)
    (fun i' hi' => by
      have := invC_entries hiu i i' (by rw [hNu]; exact hi) (by rw [hNu]; exact hi')
      rw [hNu] at this; exact this)


/-! ### Volumes -/

omit [LinearOrder K] [FloorRing K] in
/-- Three `tensordot(·, ·, axes=(1,2))` steps on an `A × B × C × D` array: the parametric axes rotate
    three times, so the result is `M₃.size × M₂.size × M₁.size × D` with `M₁` contracted against axis 2,
    `M₂` against axis 1 and `M₃` against axis 0. -/
theorem chain3 (M1 M2 M3 : Mat K) (x cp : Tensor K) {A B C D : ℕ} (hs : x.shape = [A, B, C, D])
    (h : chain [M1, M2, M3] x 3 = .ok cp) :
    (∀ r < M1.size, (M1.getD r #[]).size = C) ∧ (∀ r < M2.size, (M2.getD r #[]).size = B) ∧
    (∀ r < M3.size, (M3.getD r #[]).size = A) ∧
    cp.shape = [M3.size, M2.size, M1.size, D] ∧ cp.data.size = M3.size * M2.size * M1.size * D ∧
    ∀ r3 < M3.size, ∀ r2 < M2.size, ∀ r1 < M1.size, ∀ l < D,
      cp.entry4 M2.size M1.size D r3 r2 r1 l =
        ∑ i ∈ range A, M3.get r3 i * ∑ j ∈ range B, M2.get r2 j * ∑ k ∈ range C, M1.get r1 k * x.entry4 B C D i j k l := by
  unfold chain at h
  simp only [List.foldlM, bind, Except.bind, Nat.add_one_sub_one, pure, Except.pure] at h
  split at h
  · exact absurd h (by simp)
  · rename_i R1 hR1
    obtain ⟨hsh1, hrow1, hent1⟩ := tensordot4 M1 x R1 hs hR1
    split at h
    · exact absurd h (by simp)
    · rename_i R2 hR2
      obtain ⟨hsh2, hrow2, hent2⟩ := tensordot4 M2 R1 R2 hsh1 hR2
      split at h
      · exact absurd h (by simp)
      · rename_i R3 hR3
        obtain ⟨hsh3, hrow3, hent3⟩ := tensordot4 M3 R2 R3 hsh2 hR3
        have : R3 = cp := by cases h; rfl
        subst this
        refine ⟨hrow1, hrow2, hrow3, hsh3, tensordot4_size M3 R2 R3 hsh2 hR3, fun r3 h3 r2 h2 r1 h1 l hl => ?_⟩
        rw [hent3 r3 h3 r2 h2 r1 h1 l hl]
        apply sum_congr rfl
        intro i hi
        rw [hent2 r2 h2 r1 h1 i (mem_range.mp hi) l hl]
        congr 1
        apply sum_congr rfl
        intro j hj
        rw [hent1 r1 h1 i (mem_range.mp hi) j (mem_range.mp hj) l hl]

/-- The prologue for a volume grid: a 4-d array with the same flat data, for both input layouts. -/
theorem gridInput_volume (bu bv bw : Basis K) (x x' : Tensor K)
    (hx : x.shape.length = 2 ∨ x.shape.length = 4) (h : gridInput [bu, bv, bw] x = .ok x') :
    x'.data = x.data ∧ ∃ A B C D, x'.shape = [A, B, C, D] := by
  unfold gridInput at h
  simp only at h
  split at h
  · unfold Interp.reshape at h
    split at h
    · exact absurd h (by simp)
    · cases h
      exact ⟨rfl, _, _, _, _, rfl⟩
  · rename_i h2
    cases h
    refine ⟨rfl, ?_⟩
    have h4 : x.shape.length = 4 := by omega
    match hsh : x.shape, h4 with
    | [a, b, c, d], _ => exact ⟨a, b, c, d, rfl⟩

/-- Core of `C14_interpolate_volume` once the inverses have been extracted. -/
theorem interpolate_volume_aux (bu bv bw : Basis K) (tol : K) (tu tv tw : List K)
    (x x' cp : Tensor K) (iu iv iw : Mat K) (A B C D : ℕ) (htu : tu ≠ []) (htv : tv ≠ []) (htw : tw ≠ [])
    (hx' : gridInput [bu, bv, bw] x = .ok x') (hdata : x'.data = x.data) (hsh : x'.shape = [A, B, C, D])
    (hiu : invC (colloc bu tol tu 0) = .ok iu) (hiv : invC (colloc bv tol tv 0) = .ok iv)
    (hiw : invC (colloc bw tol tw 0) = .ok iw)
    (h : chain [iw, iv, iu] x' 3 = .ok cp) :
    ∃ (x' : Tensor K) (d : ℕ), gridInput [bu, bv, bw] x = .ok x' ∧ x'.data = x.data ∧
      x'.shape = [tu.length, tv.length, tw.length, d] ∧ cp.shape = [tu.length, tv.length, tw.length, d] ∧
      cp.data.size = tu.length * tv.length * tw.length * d ∧
      tu.length = bu.numFunctions ∧ tv.length = bv.numFunctions ∧ tw.length = bw.numFunctions ∧
      ∀ i < tu.length, ∀ j < tv.length, ∀ k < tw.length, ∀ l < d,
        (Tensor.applyAxis (colloc bu tol tu 0) (Tensor.applyAxis (colloc bv tol tv 0)
            (Tensor.applyAxis (colloc bw tol tw 0) cp 2) 1) 0).entry4 tv.length tw.length d i j k l
          = x'.entry4 tv.length tw.length d i j k l := by
  have n0pos : 0 < tu.length := List.length_pos_of_ne_nil htu
  have n1pos : 0 < tv.length := List.length_pos_of_ne_nil htv
  have n2pos : 0 < tw.length := List.length_pos_of_ne_nil htw
  have hNu : (colloc bu tol tu 0).size = tu.length := size_colloc _ _ _ _
  have hNv : (colloc bv tol tv 0).size = tv.length := size_colloc _ _ _ _
  have hNw : (colloc bw tol tw 0).size = tw.length := size_colloc _ _ _ _
  obtain ⟨hiuS, hiuC⟩ := invC_shape hiu (by rw [hNu]; exact n0pos)
  obtain ⟨hivS, hivC⟩ := invC_shape hiv (by rw [hNv]; exact n1pos)
  obtain ⟨hiwS, hiwC⟩ := invC_shape hiw (by rw [hNw]; exact n2pos)
  rw [hNu] at hiuS hiuC
  rw [hNv] at hivS hivC
  rw [hNw] at hiwS hiwC
  obtain ⟨hr1, hr2, hr3, hcp, hcpsz, hent⟩ := chain3 iw iv iu x' cp hsh h
  have hC : C = tw.length := by
    have := hr1 0 (by rw [hiwS]; exact n2pos)
    rw [← this]; exact hiwC
  have hB : B = tv.length := by
    have := hr2 0 (by rw [hivS]; exact n1pos)
    rw [← this]; exact hivC
  have hA : A = tu.length := by
    have := hr3 0 (by rw [hiuS]; exact n0pos)
    rw [← this]; exact hiuC
  subst hA hB hC
  rw [hiuS, hivS, hiwS] at hcp hent hcpsz
  have hnu : tu.length = bu.numFunctions := by
    have := (invC_ok hiu).1 0 (by rw [hNu]; exact n0pos)
    rw [row_colloc bu tol tu 0 0 n0pos, size_evaluate_c14, hNu] at this
    exact this.symm
  have hnv : tv.length = bv.numFunctions := by
    have := (invC_ok hiv).1 0 (by rw [hNv]; exact n1pos)
    rw [row_colloc bv tol tv 0 0 n1pos, size_evaluate_c14, hNv] at this
    exact this.symm
  have hnw : tw.length = bw.numFunctions := by
    have := (invC_ok hiw).1 0 (by rw [hNw]; exact n2pos)
    rw [row_colloc bw tol tw 0 0 n2pos, size_evaluate_c14, hNw] at this
    exact this.symm
  refine ⟨x', D, hx', hdata, hsh, hcp, hcpsz, hnu, hnv, hnw, fun i hi j hj k hk l hl => ?_⟩
  have cancelU := fun (p i' : ℕ) (hp : p < tu.length) (hi' : i' < tu.length) => by
    have := invC_entries hiu p i' (by rw [hNu]; exact hp) (by rw [hNu]; exact hi')
    rw [hNu] at this; exact this
  have cancelV := fun (p i' : ℕ) (hp : p < tv.length) (hi' : i' < tv.length) => by
    have := invC_entries hiv p i' (by rw [hNv]; exact hp) (by rw [hNv]; exact hi')
    rw [hNv] at this; exact this
  have cancelW := fun (p i' : ℕ) (hp : p < tw.length) (hi' : i' < tw.length) => by
    have := invC_entries hiw p i' (by rw [hNw]; exact hp) (by rw [hNw]; exact hi')
    rw [hNw] at this; exact this
  obtain ⟨hs2, he2⟩ := Tensor.applyAxis4_2 (colloc bw tol tw 0) cp hcp
  rw [hNw] at hs2 he2
  obtain ⟨hs1, he1⟩ := Tensor.applyAxis4_1 (colloc bv tol tv 0) _ hs2
  rw [hNv] at hs1 he1
  obtain ⟨_, he0⟩ := Tensor.applyAxis4_0 (colloc bu tol tu 0) _ hs1
  rw [hNu] at he0
  -- contraction along w
  have stepW : ∀ a < tu.length, ∀ b < tv.length,
      (Tensor.applyAxis (colloc bw tol tw 0) cp 2).entry4 tv.length tw.length D a b k l
        = ∑ i' ∈ range tu.length, iu.get a i' * ∑ j' ∈ range tv.length, iv.get b j' *
            x'.entry4 tv.length tw.length D i' j' k l := by
    intro a ha b hb
    rw [he2 a ha b hb k hk l hl]
    have e : ∀ c ∈ range tw.length, (colloc bw tol tw 0).get k c * cp.entry4 tv.length tw.length D a b c l
        = (colloc bw tol tw 0).get k c * ∑ i' ∈ range tu.length, iu.get a i' *
            ∑ j' ∈ range tv.length, iv.get b j' * ∑ k' ∈ range tw.length, iw.get c k' *
              x'.entry4 tv.length tw.length D i' j' k' l := by
      intro c hc
      rw [hent a ha b hb c (mem_range.mp hc) l hl]
    rw [sum_congr rfl e, sum_swap_c14]
    apply sum_congr rfl
    intro i' _
    congr 1
    rw [sum_swap_c14]
    apply sum_congr rfl
    intro j' _
    congr 1
    exact sum_cancel_c14 tw.length k hk _ _ (fun k' => x'.entry4 tv.length tw.length D i' j' k' l)
      (fun k' hk' => cancelW k k' hk hk')
  -- contraction along v
  have stepV : ∀ a < tu.length,
      (Tensor.applyAxis (colloc bv tol tv 0) (Tensor.applyAxis (colloc bw tol tw 0) cp 2) 1).entry4
          tv.length tw.length D a j k l
        = ∑ i' ∈ range tu.length, iu.get a i' * x'.entry4 tv.length tw.length D i' j k l := by
    intro a ha
    rw [he1 a ha j hj k hk l hl]
    have e : ∀ b ∈ range tv.length, (colloc bv tol tv 0).get j b *
          (Tensor.applyAxis (colloc bw tol tw 0) cp 2).entry4 tv.length tw.length D a b k l
        = (colloc bv tol tv 0).get j b * ∑ i' ∈ range tu.length, iu.get a i' *
            ∑ j' ∈ range tv.length, iv.get b j' * x'.entry4 tv.length tw.length D i' j' k l := by
      intro b hb
      rw [stepW a ha b (mem_range.mp hb)]
    rw [sum_congr rfl e, sum_swap_c14]
    apply sum_congr rfl
    intro i' _
    congr 1
    exact sum_cancel_c14 tv.length j hj _ _ (fun j' => x'.entry4 tv.length tw.length D i' j' k l)
      (fun j' hj' => cancelV j j' hj hj')
  -- contraction along u
  rw [he0 i hi j hj k hk l hl]
  have e : ∀ a ∈ range tu.length, (colloc bu tol tu 0).get i a *
        (Tensor.applyAxis (colloc bv tol tv 0) (Tensor.applyAxis (colloc bw tol tw 0) cp 2) 1).entry4
          tv.length tw.length D a j k l
      = (colloc bu tol tu 0).get i a * ∑ i' ∈ range tu.length, iu.get a i' *
          x'.entry4 tv.length tw.length D i' j k l := by
    intro a ha
    rw [stepV a (mem_range.mp ha)]
  rw [sum_congr rfl e]
  exact sum_cancel_c14 tu.length i hi _ _ (fun i' => x'.entry4 tv.length tw.length D i' j k l)
    (fun i' hi' => cancelU i i' hi hi')

end Interp
end Splipy
