import Splipy.Lemmas.C07Count
import Splipy.Lemmas.C10Split

/-!
# The insertion loop of `split` along a NON-periodic direction: geometry and multiplicities

Invariant `OpenInv o so done` of `Obj.splitInsert`: `so` is well formed with the same bases elsewhere,
same domain/order along `dir`; every control-net fibre of `so` is the same spline (values and all
derivatives, both sides, every `t`) as the fibre of `o`; multiplicities never decrease, and every split
value processed so far has multiplicity at least `p`.
-/

namespace Splipy

set_option linter.unusedSectionVars false
set_option linter.unusedVariables false

open C04 C10

variable {K : Type} [Field K] [LinearOrder K] [IsStrictOrderedRing K] [FloorRing K]

structure OpenInv (o so : Obj K) (dir : ℕ) (done : List K) : Prop where
  inv : SplitInv dir o.bases.size (o.basis dir).start (o.basis dir).stop (o.basis dir).order
    (countGe (o.basis dir) (o.basis dir).stop) so
  other : ∀ d, d ≠ dir → so.basis d = o.basis d
  rational_eq : so.rational = o.rational
  outer_eq : outerN so dir = outerN o dir
  inner_eq : innerN so dir = innerN o dir
  mult_done : ∀ k ∈ done, (so.basis dir).mult k = max ((o.basis dir).mult k) (o.basis dir).order
  mult_rest : ∀ y, y ∉ done → (so.basis dir).mult y = (o.basis dir).mult y
  same : ∀ a i, a < outerN o dir → i < innerN o dir → ∀ (s : Side) (d : ℕ) (t : K),
    splineDeriv s (so.basis dir).kn ((o.basis dir).order - 1) (so.basis dir).numFunctions
        (fibre so dir a i) d t
      = splineDeriv s (o.basis dir).kn ((o.basis dir).order - 1) (o.basis dir).numFunctions
        (fibre o dir a i) d t

theorem OpenInv.refl {o : Obj K} (h : o.WellFormed) (dir : ℕ)
    (hper : (o.basis dir).periodic = -1) : OpenInv o o dir [] :=
  ⟨⟨h, rfl, hper, rfl, rfl, rfl, rfl⟩, fun _ _ => rfl, rfl, rfl, rfl,
    fun k hk => absurd hk (by simp), fun _ _ => rfl, fun _ _ _ _ _ _ _ => rfl⟩

/-- One step of the loop: insert `cnt` copies of `x ∈ [start, end)`. -/
theorem OpenInv.insert {o so : Obj K} {dir : ℕ} {done : List K} (hd : dir < o.bases.size)
    (hI : OpenInv o so dir done) (x : K)
    (hx : (o.basis dir).start ≤ x ∧ x < (o.basis dir).stop) (hxd : x ∉ done) (cnt : ℕ)
    (hcnt : cnt = (o.basis dir).order - (o.basis dir).mult x) :
    ∃ so', so.insertKnots (List.replicate cnt x) dir = .ok so' ∧ OpenInv o so' dir (x :: done) := by
  obtain ⟨hw, hn, hper, hst, hen, hp, hc⟩ := hI.inv
  have hd' : dir < so.bases.size := by rw [hn]; exact hd
  have hxs : ∀ y ∈ List.replicate cnt x, (so.basis dir).start ≤ y ∧ y < (so.basis dir).stop := by
    intro y hy
    rw [List.eq_of_mem_replicate hy, hst, hen]; exact hx
  obtain ⟨so', C, hs, href, hperm, hoth, hrat, hshape, hout, hinn, hfib⟩ :=
    insertKnots_fibres so dir hd' (by rw [hw.shape_length]; omega) (hw.valid dir hd') hper
      (hw.shape_getD dir 0 hd') (List.replicate cnt x) hxs
  rw [List.length_replicate] at href hshape hfib
  have hinv' := hI.inv.insertKnots hd (List.replicate cnt x)
    (by intro y hy; rw [List.eq_of_mem_replicate hy]; exact hx) hs
  have hmult : ∀ y, (so'.basis dir).mult y = (List.replicate cnt x).count y + (so.basis dir).mult y :=
    fun y => Basis.mult_of_perm (hw.valid dir hd') href.valid _ hperm y
  refine ⟨so', hs, ⟨hinv', ?_, hrat.trans hI.rational_eq, hout.trans hI.outer_eq,
    hinn.trans hI.inner_eq, ?_, ?_, ?_⟩⟩
  · intro d hdd; rw [hoth d hdd, hI.other d hdd]
  · intro k hk
    rw [List.mem_cons] at hk
    rcases hk with rfl | hk
    · rw [hmult k, List.count_replicate_self, hI.mult_rest k hxd, hcnt]
      omega
    · have hne : x ≠ k := fun e => hxd (e ▸ hk)
      rw [hmult k, List.count_replicate, if_neg (by simpa using hne), Nat.zero_add]
      exact hI.mult_done k hk
  · intro y hy
    rw [List.mem_cons, not_or] at hy
    have hne : x ≠ y := fun e => hy.1 e.symm
    rw [hmult y, List.count_replicate, if_neg (by simpa using hne), Nat.zero_add]
    exact hI.mult_rest y hy.2
  · intro a i ha hi s d t
    rw [← hI.same a i ha hi s d t, href.num_eq,
      splineDeriv_congr s _ _ _ _ _ d t
        (fun r hr => hfib a i r (by rw [hI.outer_eq]; exact ha) (by rw [hI.inner_eq]; exact hi) hr),
      ← hp]
    exact ((href.same (fibre so dir a i) s t).2 d)

/-- The number of copies `split` inserts for the value `x`: `continuity + 1`. -/
theorem splitCount_open {b : Basis K} (hv : b.Valid) (hper : b.periodic = -1) {tol x : K}
    (htol : 0 < tol) (hx : b.start ≤ x ∧ x < b.stop)
    (hexR : ∀ i, i < b.knots.size → b.kn i ≤ x ∨ x + tol ≤ b.kn i)
    (hexL : ∀ i, i < b.knots.size → b.kn i < x - tol ∨ x ≤ b.kn i) :
    ∃ c, b.continuity tol x = .ok c ∧
      ((match c with
        | none => (b.order : Int) - 1
        | some c => c) + 1).toNat = b.order - b.mult x := by
  refine ⟨_, continuity_of_exact_open hv hper htol hx hexR hexL, ?_⟩
  have hll := Basis.bisectL_le_bisectR hv x
  by_cases h0 : b.mult x = 0
  · rw [if_pos h0]; simp only []; omega
  · rw [if_neg h0]; simp only []
    unfold Basis.mult at h0 ⊢
    omega

/-- The values of the split list: strictly inside the domain and exact for the tolerance. -/
def SplitOK (b : Basis K) (tol : K) (ks : List K) : Prop :=
  ∀ x ∈ ks, (b.start < x ∧ x < b.stop) ∧
    (∀ i, i < b.knots.size → b.kn i ≤ x ∨ x + tol ≤ b.kn i) ∧
    (∀ i, i < b.knots.size → b.kn i < x - tol ∨ x ≤ b.kn i)

/-- **The insertion loop of `split`, non-periodic direction.** -/
theorem splitInsert_open_fold {o : Obj K} (h : o.WellFormed) (dir : ℕ) (hd : dir < o.bases.size)
    (hper : (o.basis dir).periodic = -1) {tol : K} (htol : 0 < tol) (ks : List K)
    (hks : SplitOK (o.basis dir) tol ks) :
    ks.Nodup → ∀ (so : Obj K) (done : List K), OpenInv o so dir done → (∀ k ∈ ks, k ∉ done) →
      ∃ so', ks.foldlM (fun (so : Obj K) k => do
          let c ← (o.basis dir).continuity tol k
          let cont : Int := match c with
            | none => ((o.basis dir).order : Int) - 1
            | some c => c
          so.insertKnots (List.replicate (cont + 1).toNat k) dir) so = .ok so' ∧
        OpenInv o so' dir (ks.reverse ++ done) := by
  induction ks with
  | nil => intro _ so done hI _; exact ⟨so, rfl, by simpa using hI⟩
  | cons k ks ih =>
    intro hnd so done hI hnot
    rw [List.nodup_cons] at hnd
    obtain ⟨⟨hk1, hk2⟩, hR, hL⟩ := hks k List.mem_cons_self
    obtain ⟨c, hc, hcnt⟩ := splitCount_open (h.valid dir hd) hper htol ⟨le_of_lt hk1, hk2⟩ hR hL
    obtain ⟨so1, hs1, hI1⟩ := hI.insert hd k ⟨le_of_lt hk1, hk2⟩ (hnot k List.mem_cons_self) _ hcnt
    obtain ⟨so', hs', hI'⟩ := ih (fun x hx => hks x (List.mem_cons_of_mem _ hx)) hnd.2 so1
      (k :: done) hI1 (fun x hx => by
        rw [List.mem_cons, not_or]
        exact ⟨fun e => hnd.1 (e ▸ hx), hnot x (List.mem_cons_of_mem _ hx)⟩)
    refine ⟨so', ?_, by rw [List.reverse_cons, List.append_assoc]; exact hI'⟩
    rw [List.foldlM_cons, hc]
    show (do
      let so1 ← so.insertKnots (List.replicate ((match c with
        | none => ((o.basis dir).order : Int) - 1
        | some c => c) + 1).toNat k) dir
      List.foldlM _ so1 ks) = _
    rw [hs1]
    exact hs'

theorem splitInsert_open {o : Obj K} (h : o.WellFormed) (dir : ℕ) (hd : dir < o.bases.size)
    (hper : (o.basis dir).periodic = -1) {tol : K} (htol : 0 < tol) (ks : List K)
    (hks : SplitOK (o.basis dir) tol ks) (hnd : ks.Nodup) :
    ∃ so, o.splitInsert tol ks dir = .ok so ∧ OpenInv o so dir ks.reverse := by
  obtain ⟨so, hs, hI⟩ := splitInsert_open_fold h dir hd hper htol ks hks hnd o []
    (OpenInv.refl h dir hper) (fun _ _ => by simp)
  exact ⟨so, hs, by simpa using hI⟩

end Splipy
