import Splipy.Lemmas.C07Split

/-!
# Lemmas for property C07/C08: periodic splines on an infinite periodic knot sequence

`τ (i + n) = τ i + T`, `c (i + n) = c i`.  The periodic object's value on its base period
`[τ q, τ q + T]` is `splineVal s τ q N c` for any `N` with `τ q + T ≤ τ N` (the code uses
`N = n_all = n + k + 1`).  Rolling to index `μ` and cutting `n` functions (what `split` does in a
periodic direction) gives the same map on one period starting at `τ (μ+q)`.
-/

namespace Splipy

set_option linter.unusedSectionVars false
set_option linter.unusedVariables false

variable {K : Type} [Field K] [LinearOrder K] [IsStrictOrderedRing K]

theorem Side.mem_iff (s : Side) (a b t : K) : s.mem a b t ↔ s.after a t ∧ s.before t b := by
  cases s <;> exact Iff.rfl

theorem Side.before_or_after (s : Side) (t a : K) : s.before t a ∨ s.after a t := by
  cases s
  · exact lt_or_ge t a
  · exact le_or_gt t a

theorem Side.after_add (s : Side) (a t T : K) : s.after (a + T) t ↔ s.after a (t - T) := by
  cases s
  · exact le_sub_iff_add_le.symm
  · exact lt_sub_iff_add_lt.symm

theorem Side.before_add (s : Side) (a t T : K) : s.before t (a + T) ↔ s.before (t - T) a := by
  cases s
  · exact sub_lt_iff_lt_add.symm
  · exact sub_le_iff_le_add.symm

theorem Side.after_of_le (s : Side) {a a' t : K} (h : a' ≤ a) (ha : s.after a t) : s.after a' t := by
  cases s
  · exact le_trans h ha
  · exact lt_of_le_of_lt h ha

theorem Side.before_of_le (s : Side) {a a' t : K} (h : a ≤ a') (ha : s.before t a) : s.before t a' := by
  cases s
  · exact lt_of_lt_of_le ha h
  · exact le_trans ha h

/-- More functions that all vanish at `t` do not change the sum. -/
theorem splineVal_extend (s : Side) (τ : ℕ → K) (q M M' : ℕ) (c : ℕ → K) (t : K) (h : M ≤ M')
    (hz : ∀ i, M ≤ i → i < M' → B s τ q i t = 0) :
    splineVal s τ q M' c t = splineVal s τ q M c t := by
  unfold splineVal
  symm
  apply Finset.sum_subset
  · intro i hi
    rw [Finset.mem_range] at hi ⊢
    omega
  · intro i hi hni
    rw [Finset.mem_range] at hi hni
    rw [hz i (by omega) hi, mul_zero]

section
variable (τ : ℕ → K) (hτ : Monotone τ) (n : ℕ) (T : K) (hper : ∀ i, τ (i + n) = τ i + T)
  (c : ℕ → K) (hc : ∀ i, c (i + n) = c i)
include hτ hper hc

/-- A periodic knot sequence has periodic B-splines. -/
theorem B_periodic_shift (s : Side) (q i : ℕ) (t : K) :
    B s τ q (i + n) (t + T) = B s τ q i t := by
  have h1 : B s τ q (i + n) (t + T) = B s (fun j => 1 * τ j + T) q i (t + T) := by
    apply B_congr_knots
    intro j _
    show τ (i + n + j) = 1 * τ (i + j) + T
    rw [one_mul, ← hper (i + j)]
    congr 1; omega
  rw [h1]
  have := B_affine s τ q i t 1 T one_pos
  rw [one_mul] at this
  exact this

theorem splineVal_periodic_shift (s : Side) (q M : ℕ) (t : K) :
    (Finset.range M).sum (fun i => c (n + i) * B s τ q (n + i) t) = splineVal s τ q M c (t - T) := by
  unfold splineVal
  apply Finset.sum_congr rfl
  intro i _
  rw [Nat.add_comm n i, hc i]
  have := B_periodic_shift τ hτ n T hper c hc s q i (t - T)
  rw [sub_add_cancel] at this
  rw [this]

/-- **Opening a periodic spline.**  `τ μ = τ (μ+q)` (multiplicity `p = q+1` at the split point
`x = τ (μ+q)`), `x` in the base period.  The `n` control points `c (μ ..)` with the knots
`τ (μ ..)` — the rolled, ghost-free vectors — evaluate on `[x, x+T]` to the periodic spline: at `t`
itself before the base period's end, at `t - T` after it. -/
theorem splineVal_open_periodic (s : Side) (q μ N : ℕ) (hn : 1 ≤ n)
    (hμ : τ μ = τ (μ + q)) (hN : τ q + T ≤ τ N) (hx : τ (μ + q) ≤ τ q + T) (t : K)
    (ht : s.mem (τ (μ + q)) (τ (μ + q) + T) t) :
    (s.before t (τ q + T) →
      splineVal s (fun j => τ (μ + j)) q n (fun j => c (μ + j)) t = splineVal s τ q N c t) ∧
    (s.after (τ q + T) t →
      splineVal s (fun j => τ (μ + j)) q n (fun j => c (μ + j)) t = splineVal s τ q N c (t - T)) := by
  rw [Side.mem_iff] at ht
  obtain ⟨hta, htb⟩ := ht
  -- the opened spline is the window [μ, μ+n) of the unrolled sum
  have hopen : ∀ M, μ + n ≤ M →
      splineVal s (fun j => τ (μ + j)) q n (fun j => c (μ + j)) t = splineVal s τ q M c t := by
    intro M hM
    have := splineVal_restrict s τ (fun j => τ (μ + j)) hτ q M μ (μ + n) c t (by omega) hM
      (fun j _ => rfl)
      (by
        rw [Side.mem_iff]
        refine ⟨hta, ?_⟩
        rw [hper μ, hμ]; exact htb)
    rw [show μ + n - μ = n by omega] at this
    exact this
  -- on the base period the sum may be cut at N
  have hbase : ∀ (M : ℕ) (t' : K), N ≤ M → s.before t' (τ q + T) →
      splineVal s τ q M c t' = splineVal s τ q N c t' := by
    intro M t' hM hb
    apply splineVal_extend s τ q N M c t' hM
    intro i hi _
    exact B_eq_zero_of_before s τ hτ q i t' (Side.before_of_le s (le_trans hN (hτ hi)) hb)
  constructor
  · intro hb
    rw [hopen (max N (μ + n)) (le_max_right _ _), hbase _ t (le_max_left _ _) hb]
  · intro ha
    rw [hopen (n + max N μ) (by have := le_max_right N μ; omega)]
    have hsplit : splineVal s τ q (n + max N μ) c t
        = (Finset.range n).sum (fun i => c i * B s τ q i t)
          + (Finset.range (max N μ)).sum (fun i => c (n + i) * B s τ q (n + i) t) := by
      unfold splineVal
      exact Finset.sum_range_add _ n (max N μ)
    have hzero : (Finset.range n).sum (fun i => c i * B s τ q i t) = 0 := by
      apply Finset.sum_eq_zero
      intro i hi
      rw [Finset.mem_range] at hi
      rw [B_eq_zero_of_after s τ hτ q i t, mul_zero]
      apply Side.after_of_le s _ ha
      have := hper q
      rw [← this]
      exact hτ (by omega)
    rw [hsplit, hzero, zero_add, splineVal_periodic_shift τ hτ n T hper c hc s q (max N μ) t]
    apply hbase _ (t - T) (le_max_left _ _)
    rw [← Side.before_add]
    exact Side.before_of_le s (by linarith) htb

end

end Splipy
