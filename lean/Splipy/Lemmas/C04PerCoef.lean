import Splipy.Lemmas.C04Open
import Splipy.Lemmas.Basic

/-!
# C04 helper lemmas, part 8: rows of the insertion matrix, support facts for the periodic case
-/

namespace Splipy
namespace C04

set_option linter.unusedSectionVars false

variable {K : Type} [Field K] [LinearOrder K] [IsStrictOrderedRing K]

/-- diagonal entry `C[i][i]` of the (unrolled) insertion matrix -/
def diagE (τ : ℕ → K) (x : K) (p mu i : ℕ) : K :=
  if i + p < mu then 1 else if i < mu then gd τ x p i else 0

/-- sub-diagonal entry `C[i+1][i]` -/
def subE (τ : ℕ → K) (x : K) (p mu i : ℕ) : K :=
  if i + p < mu then 0 else if i < mu then gs τ x p i else 1

theorem codeF_eq (τ : ℕ → K) (x : K) (p mu r j : ℕ) :
    codeF τ x p mu r j = if j = r then diagE τ x p mu j else if j + 1 = r then subE τ x p mu j else 0 := by
  unfold codeF diagE subE
  split_ifs <;> first | rfl | (exfalso; omega)

/-- Row `r` of `C·c`: `C[r][r]·c_r + C[r][r-1]·c_{r-1}` (terms present only inside the `N` columns). -/
theorem mulVecF_codeF (τ : ℕ → K) (x : K) (p mu N : ℕ) (c : ℕ → K) (r : ℕ) :
    mulVecF (codeF τ x p mu) N c r =
      (if r < N then diagE τ x p mu r * c r else 0)
      + (if 1 ≤ r ∧ r - 1 < N then subE τ x p mu (r - 1) * c (r - 1) else 0) := by
  unfold mulVecF
  have e : ∀ j, codeF τ x p mu r j * c j
      = (if j = r then diagE τ x p mu j * c j else 0)
        + (if j = r - 1 then (if 1 ≤ r then subE τ x p mu j * c j else 0) else 0) := by
    intro j
    rw [codeF_eq]
    split_ifs <;> first | (exfalso; omega) | simp
  simp only [e]
  rw [Finset.sum_add_distrib, Finset.sum_ite_eq' (Finset.range N) r,
    Finset.sum_ite_eq' (Finset.range N) (r - 1)]
  simp only [Finset.mem_range]
  congr 1
  by_cases h : 1 ≤ r ∧ r - 1 < N
  · rw [if_pos h, if_pos h.2, if_pos h.1]
  · rw [if_neg h]
    by_cases h2 : r - 1 < N
    · rw [if_pos h2, if_neg (by omega)]
    · rw [if_neg h2]

/-- A function that starts at or after the end of the (one-sided) interval vanishes there. -/
theorem dB_zero_after (s : Side) (σ : ℕ → K) (hσ : Monotone σ) (q r d : ℕ) (a e t : K)
    (ht : s.mem a e t) (h : e ≤ σ r) : dB s σ q r d t = 0 := by
  cases s
  · exact dB_support_right σ hσ q r d t (Or.inl (lt_of_lt_of_le ht.2 h))
  · exact dB_support_left σ hσ q r d t (Or.inl (le_trans ht.2 h))

/-- A function that ends at or before the start of the interval vanishes there. -/
theorem dB_zero_before (s : Side) (σ : ℕ → K) (hσ : Monotone σ) (q r d : ℕ) (a e t : K)
    (ht : s.mem a e t) (h : σ (r + q + 1) ≤ a) : dB s σ q r d t = 0 := by
  cases s
  · exact dB_support_right σ hσ q r d t (Or.inr (le_trans h ht.1))
  · exact dB_support_left σ hσ q r d t (Or.inr (lt_of_le_of_lt h ht.1))

end C04
end Splipy
