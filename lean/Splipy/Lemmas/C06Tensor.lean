import Splipy.Model.Tensor
import Mathlib.Algebra.BigOperators.Intervals
import Mathlib.Algebra.BigOperators.Group.Finset.Basic
import Mathlib.Logic.Equiv.Basic
import Mathlib.Data.List.Forall2
import Mathlib.Data.List.GetD
import Mathlib.Tactic.Ring
import Mathlib.Tactic.Linarith

/-!
# C06 — index algebra of the array model (`Tensor.swapAxes`, `Tensor.reindexAxis`/`flipAxis`)

`flatIdx shape idx` is the C-order flat position of the multi-index `idx` in an array of shape
`shape`; `Tensor.getIdx` reads an entry by multi-index.  The two theorems at the end say what
`np.transpose` with two axes exchanged and slicing `[..., ::-1, ...]` / `np.roll` along one axis do
to every entry:

* `getIdx_swapAxes`   : `(t.swapAxes a b)[π idx] = t[idx]`  (`π` exchanges positions `a`, `b`),
* `getIdx_reindexAxis`: `(t.reindexAxis d m g)[idx] = t[idx with idx_d ↦ g idx_d]`.
-/

set_option linter.unusedSimpArgs false

namespace Splipy.C06

open Splipy Finset

/-! ## Products of dimensions -/

theorem foldl_mul (l : List ℕ) (x : ℕ) : l.foldl (· * ·) x = x * l.foldl (· * ·) 1 := by
  induction l generalizing x with
  | nil => simp
  | cons a l ih =>
    simp only [List.foldl_cons]
    rw [ih (x * a), ih (1 * a)]
    ring

@[simp] theorem prod_nil : Tensor.prod [] = 1 := rfl

theorem prod_cons (a : ℕ) (l : List ℕ) : Tensor.prod (a :: l) = a * Tensor.prod l := by
  unfold Tensor.prod
  rw [List.foldl_cons, foldl_mul]
  ring

theorem prod_append (l₁ l₂ : List ℕ) : Tensor.prod (l₁ ++ l₂) = Tensor.prod l₁ * Tensor.prod l₂ := by
  induction l₁ with
  | nil => simp
  | cons a l ih => rw [List.cons_append, prod_cons, prod_cons, ih]; ring

/-- `prod shape = prod (take d) · shape[d] · prod (drop (d+1))`. -/
theorem prod_split (shape : List ℕ) (d : ℕ) (hd : d < shape.length) :
    Tensor.prod shape = Tensor.prod (shape.take d) * shape.getD d 1 * Tensor.prod (shape.drop (d + 1)) := by
  induction shape generalizing d with
  | nil => simp at hd
  | cons n shape ih =>
    cases d with
    | zero => simp [prod_cons]
    | succ d =>
      have hd' : d < shape.length := by simpa using hd
      rw [prod_cons, List.take_succ_cons, prod_cons, List.drop_succ_cons, List.getD_cons_succ, ih d hd']
      ring

/-! ## Multi-indices -/

/-- Every index below its dimension, same length. -/
abbrev InRange (idx shape : List ℕ) : Prop := List.Forall₂ (· < ·) idx shape

/-- C-order flat position. -/
def flatIdx : List ℕ → List ℕ → ℕ
  | _ :: shape, i :: idx => i * Tensor.prod shape + flatIdx shape idx
  | _, _ => 0

@[simp] theorem flatIdx_cons (n i : ℕ) (shape idx : List ℕ) :
    flatIdx (n :: shape) (i :: idx) = i * Tensor.prod shape + flatIdx shape idx := rfl

@[simp] theorem flatIdx_nil_left (idx : List ℕ) : flatIdx [] idx = 0 := by
  cases idx <;> rfl

@[simp] theorem flatIdx_nil_right (shape : List ℕ) : flatIdx shape [] = 0 := by
  cases shape <;> rfl

theorem InRange.length_eq {idx shape : List ℕ} (h : InRange idx shape) : idx.length = shape.length :=
  List.Forall₂.length_eq h

theorem flatIdx_lt {idx shape : List ℕ} (h : InRange idx shape) : flatIdx shape idx < Tensor.prod shape := by
  induction h with
  | nil => simp
  | @cons i n idx shape hin _ ih =>
    rw [flatIdx_cons, prod_cons]
    have : (i + 1) * Tensor.prod shape ≤ n * Tensor.prod shape := Nat.mul_le_mul_right _ hin
    nlinarith

theorem InRange.getD_lt {idx shape : List ℕ} (h : InRange idx shape) (k : ℕ) (hk : k < shape.length) :
    idx.getD k 0 < shape.getD k 1 := by
  induction h generalizing k with
  | nil => simp at hk
  | @cons i n idx shape hin _ ih =>
    cases k with
    | zero => simpa using hin
    | succ k => simpa using ih k (by simpa using hk)

/-- Sum form: `flatIdx = Σ_k idx_k · stride_k`, `stride_k = prod (drop (k+1) shape)`. -/
theorem flatIdx_eq_sum (shape idx : List ℕ) (h : idx.length = shape.length) :
    flatIdx shape idx = ∑ k ∈ range shape.length, idx.getD k 0 * Tensor.prod (shape.drop (k + 1)) := by
  induction shape generalizing idx with
  | nil => simp
  | cons n shape ih =>
    cases idx with
    | nil => simp at h
    | cons i idx =>
      have h' : idx.length = shape.length := by simpa using h
      rw [flatIdx_cons, List.length_cons, sum_range_succ', ih idx h']
      simp only [List.getD_cons_succ, List.getD_cons_zero, List.drop_succ_cons, List.drop_zero, zero_add]
      rw [add_comm]

/-- Splitting the flat position at axis `d`. -/
theorem flatIdx_split (shape idx : List ℕ) (d : ℕ) (hd : d < shape.length) (h : idx.length = shape.length) :
    flatIdx shape idx
      = (flatIdx (shape.take d) (idx.take d) * shape.getD d 1 + idx.getD d 0) * Tensor.prod (shape.drop (d + 1))
        + flatIdx (shape.drop (d + 1)) (idx.drop (d + 1)) := by
  induction shape generalizing idx d with
  | nil => simp at hd
  | cons n shape ih =>
    cases idx with
    | nil => simp at h
    | cons i idx =>
      have h' : idx.length = shape.length := by simpa using h
      cases d with
      | zero => simp
      | succ d =>
        have hd' : d < shape.length := by simpa using hd
        rw [flatIdx_cons, ih idx d hd' h', List.take_succ_cons, List.take_succ_cons, flatIdx_cons,
          List.drop_succ_cons, List.drop_succ_cons, List.getD_cons_succ, List.getD_cons_succ,
          prod_split shape d hd']
        ring

/-! ## Reading entries by multi-index -/

variable {K : Type} [Zero K]

/-- Entry at a multi-index. -/
def getIdx (t : Tensor K) (idx : List ℕ) : K := t.get (flatIdx t.shape idx)

theorem getD_set_self (l : List ℕ) (d x y : ℕ) (hd : d < l.length) : (l.set d x).getD d y = x := by
  simp [List.getD_eq_getElem?_getD, List.getElem?_set, hd]

theorem getD_set_ne (l : List ℕ) (d k x y : ℕ) (h : d ≠ k) : (l.set d x).getD k y = l.getD k y := by
  simp [List.getD_eq_getElem?_getD, List.getElem?_set, h]

/-- Mixed-radix digits of `(A·m + r)·inn + i`. -/
theorem digits3 (A m r inn i : ℕ) (hr : r < m) (hi : i < inn) :
    ((A * m + r) * inn + i) % inn = i ∧ ((A * m + r) * inn + i) / inn % m = r
      ∧ ((A * m + r) * inn + i) / (inn * m) = A := by
  have hinn : 0 < inn := by omega
  have hm : 0 < m := by omega
  have h1 : ((A * m + r) * inn + i) / inn = A * m + r := by
    rw [add_comm, Nat.add_mul_div_right _ _ hinn, Nat.div_eq_of_lt hi, zero_add]
  refine ⟨?_, ?_, ?_⟩
  · rw [add_comm, Nat.add_mul_mod_self_right, Nat.mod_eq_of_lt hi]
  · rw [h1, add_comm, Nat.add_mul_mod_self_right, Nat.mod_eq_of_lt hr]
  · rw [← Nat.div_div_eq_div_mul, h1, add_comm, Nat.add_mul_div_right _ _ hm, Nat.div_eq_of_lt hr, zero_add]

theorem getD_ofFn {n : ℕ} (f : Fin n → K) (k : ℕ) (hk : k < n) : (Array.ofFn f).getD k 0 = f ⟨k, hk⟩ := by
  simp [Array.getD_eq_getD_getElem?, Array.getElem?_ofFn, hk]

/-- **Re-indexing one axis** (`flipAxis`, `rollAxisNeg`, `sliceAxis` are instances): entry `idx` of
the result is entry `idx[d ↦ g idx_d]` of the argument. -/
theorem getIdx_reindexAxis (t : Tensor K) (d m : ℕ) (g : ℕ → ℕ) (idx : List ℕ)
    (hd : d < t.shape.length) (h : InRange idx (t.shape.set d m)) :
    getIdx (t.reindexAxis d m g) idx = getIdx t (idx.set d (g (idx.getD d 0))) := by
  have hlen : idx.length = t.shape.length := by rw [h.length_eq, List.length_set]
  have hlen' : idx.length = (t.shape.set d m).length := h.length_eq
  have hd' : d < (t.shape.set d m).length := by rw [List.length_set]; exact hd
  -- the three blocks of the index
  have hA : flatIdx (t.shape.take d) (idx.take d) < Tensor.prod (t.shape.take d) := by
    have := List.forall₂_take d h
    rw [List.take_set_of_le (le_refl d)] at this
    exact flatIdx_lt this
  have hI : flatIdx (t.shape.drop (d + 1)) (idx.drop (d + 1)) < Tensor.prod (t.shape.drop (d + 1)) := by
    have := List.forall₂_drop (d + 1) h
    rw [List.drop_set_of_lt (Nat.lt_succ_self d)] at this
    exact flatIdx_lt this
  have hr : idx.getD d 0 < m := by
    have := h.getD_lt d hd'
    rwa [getD_set_self _ _ _ _ hd] at this
  set A := flatIdx (t.shape.take d) (idx.take d) with hAdef
  set r := idx.getD d 0 with hrdef
  set i := flatIdx (t.shape.drop (d + 1)) (idx.drop (d + 1)) with hidef
  set inn := Tensor.prod (t.shape.drop (d + 1)) with hinn
  have hflat : flatIdx (t.shape.set d m) idx = (A * m + r) * inn + i := by
    rw [flatIdx_split _ idx d hd' hlen', List.take_set_of_le (le_refl d), getD_set_self _ _ _ _ hd,
      List.drop_set_of_lt (Nat.lt_succ_self d)]
  have hflat2 : flatIdx t.shape (idx.set d (g r)) = (A * t.shape.getD d 1 + g r) * inn + i := by
    rw [flatIdx_split _ _ d hd (by rw [List.length_set]; exact hlen), List.take_set_of_le (le_refl d),
      getD_set_self _ _ _ _ (by omega), List.drop_set_of_lt (Nat.lt_succ_self d)]
  obtain ⟨e1, e2, e3⟩ := digits3 A m r inn i hr hI
  have hbound : (A * m + r) * inn + i < Tensor.prod (t.shape.take d) * m * inn := by
    have : (A * m + r + 1) * inn ≤ Tensor.prod (t.shape.take d) * m * inn := by
      apply Nat.mul_le_mul_right
      have : (A + 1) * m ≤ Tensor.prod (t.shape.take d) * m := Nat.mul_le_mul_right _ hA
      nlinarith
    nlinarith
  unfold getIdx
  rw [hflat2]
  show (Tensor.reindexAxis t d m g).get (flatIdx (t.shape.set d m) idx) = _
  rw [hflat]
  unfold Tensor.reindexAxis Tensor.build3 Tensor.get Tensor.split3
  simp only []
  rw [getD_ofFn _ _ hbound]
  simp only [← hinn, e1, e2, e3]
  rfl

/-- `t[..., ::-1, ...]` along axis `d`. -/
theorem getIdx_flipAxis (t : Tensor K) (d : ℕ) (idx : List ℕ) (hd : d < t.shape.length) (h : InRange idx t.shape) :
    getIdx (t.flipAxis d) idx = getIdx t (idx.set d (t.shape.getD d 1 - 1 - idx.getD d 0)) := by
  have hs : t.shape.set d (t.shape.getD d 1) = t.shape := by
    apply List.ext_getElem?
    intro k
    by_cases hk : d = k
    · subst hk; simp [List.getElem?_set, hd, List.getD_eq_getElem?_getD]
    · simp [List.getElem?_set, hk]
  unfold Tensor.flipAxis
  exact getIdx_reindexAxis t d _ _ idx hd (by rw [hs]; exact h)

/-! ## Exchanging two axes -/

/-- The transposition of positions `a`, `b` (as the code writes it). -/
def sw (a b k : ℕ) : ℕ := if k = a then b else if k = b then a else k

theorem sw_sw (a b k : ℕ) : sw a b (sw a b k) = k := by
  unfold sw; split_ifs <;> omega

theorem sw_lt (a b k n : ℕ) (ha : a < n) (hb : b < n) : sw a b k < n ↔ k < n := by
  unfold sw; split_ifs <;> omega

/-- Exchange the entries at positions `a` and `b`. -/
def swapL (l : List ℕ) (a b dflt : ℕ) : List ℕ := (l.set a (l.getD b dflt)).set b (l.getD a dflt)

theorem swapL_length (l : List ℕ) (a b x : ℕ) : (swapL l a b x).length = l.length := by
  simp [swapL]

theorem getD_swapL (l : List ℕ) (a b x y k : ℕ) (ha : a < l.length) (hb : b < l.length) :
    (swapL l a b x).getD k y = l.getD (sw a b k) y := by
  unfold swapL sw
  by_cases hkb : k = b
  · subst hkb
    rw [getD_set_self _ _ _ _ (by rw [List.length_set]; exact hb)]
    by_cases hka : k = a
    · subst hka; simp [List.getD_eq_getElem?_getD, ha]
    · simp [hka, List.getD_eq_getElem?_getD, ha]
  · rw [getD_set_ne _ _ _ _ _ (Ne.symm hkb)]
    by_cases hka : k = a
    · subst hka
      rw [getD_set_self _ _ _ _ ha]
      simp [List.getD_eq_getElem?_getD, hb]
    · rw [getD_set_ne _ _ _ _ _ (Ne.symm hka)]
      simp [hka, hkb]

theorem inRange_iff (idx shape : List ℕ) :
    InRange idx shape ↔ idx.length = shape.length ∧ ∀ k, k < shape.length → idx.getD k 0 < shape.getD k 1 := by
  constructor
  · intro h
    exact ⟨h.length_eq, fun k hk => h.getD_lt k hk⟩
  · rintro ⟨hl, hk⟩
    apply List.forall₂_of_length_eq_of_get hl
    intro i h1 h2
    have := hk i h2
    simpa [List.getD_eq_getElem?_getD, h1, h2] using this

theorem inRange_swapL (idx shape : List ℕ) (a b : ℕ) (ha : a < shape.length) (hb : b < shape.length)
    (h : InRange idx shape) : InRange (swapL idx a b 0) (swapL shape a b 1) := by
  rw [inRange_iff] at h ⊢
  obtain ⟨hl, hk⟩ := h
  refine ⟨by rw [swapL_length, swapL_length, hl], ?_⟩
  intro k hk'
  rw [swapL_length] at hk'
  rw [getD_swapL _ _ _ _ _ _ (by omega) (by omega), getD_swapL _ _ _ _ _ _ ha hb]
  exact hk _ ((sw_lt a b k _ ha hb).mpr hk')

theorem go_nil (a b : ℕ) (strides : List ℕ) (k rem acc : ℕ) :
    Tensor.swapAxes.go a b strides k rem [] acc = acc := rfl

theorem go_cons (a b : ℕ) (strides : List ℕ) (k rem acc x : ℕ) (rest : List ℕ) :
    Tensor.swapAxes.go a b strides k rem (x :: rest) acc
      = Tensor.swapAxes.go a b strides (k + 1) (rem % Tensor.prod rest) rest
          (acc + rem / Tensor.prod rest * strides.getD (sw a b k) 0) := rfl

/-- The decoding loop of `swapAxes`: the digits of `rem` in the new shape are multiplied with the
strides of the exchanged axes. -/
theorem go_eq (a b : ℕ) (strides : List ℕ) (dims jdx : List ℕ) (h : InRange jdx dims) (k acc : ℕ) :
    Tensor.swapAxes.go a b strides k (flatIdx dims jdx) dims acc
      = acc + ∑ j ∈ range dims.length, jdx.getD j 0 * strides.getD (sw a b (k + j)) 0 := by
  induction h generalizing k acc with
  | nil => simp [go_nil]
  | @cons i n idx shape hin hrest ih =>
    have hf := flatIdx_lt hrest
    have hP : 0 < Tensor.prod shape := by omega
    have e1 : (i * Tensor.prod shape + flatIdx shape idx) / Tensor.prod shape = i := by
      rw [add_comm, Nat.add_mul_div_right _ _ hP, Nat.div_eq_of_lt hf, zero_add]
    have e2 : (i * Tensor.prod shape + flatIdx shape idx) % Tensor.prod shape = flatIdx shape idx := by
      rw [add_comm, Nat.add_mul_mod_self_right, Nat.mod_eq_of_lt hf]
    rw [flatIdx_cons, go_cons, e1, e2, ih, List.length_cons, sum_range_succ']
    simp only [List.getD_cons_succ, List.getD_cons_zero, add_zero]
    have : ∀ j, k + 1 + j = k + (j + 1) := fun j => by omega
    simp only [this]
    ring

theorem getD_strides (shape : List ℕ) (k : ℕ) (hk : k < shape.length) :
    ((List.range shape.length).map (fun k => Tensor.prod (shape.drop (k + 1)))).getD k 0
      = Tensor.prod (shape.drop (k + 1)) := by
  simp [List.getD_eq_getElem?_getD, hk]

/-- **Exchanging two axes** (`np.transpose` with two entries exchanged): the entry of the result at
the exchanged multi-index is the entry of the argument. -/
theorem getIdx_swapAxes (t : Tensor K) (a b : ℕ) (idx : List ℕ) (ha : a < t.shape.length)
    (hb : b < t.shape.length) (h : InRange idx t.shape) :
    getIdx (t.swapAxes a b) (swapL idx a b 0) = getIdx t idx := by
  have hl : idx.length = t.shape.length := h.length_eq
  by_cases hab : a = b
  · subst hab
    have : swapL idx a a 0 = idx := by
      apply List.ext_getElem?
      intro k
      have := getD_swapL idx a a 0 0 k (by omega) (by omega)
      by_cases hk : k < idx.length
      · have h2 : k < (swapL idx a a 0).length := by rw [swapL_length]; exact hk
        have e : sw a a k = k := by unfold sw; split_ifs <;> omega
        rw [e] at this
        simpa [List.getD_eq_getElem?_getD, hk, h2] using this
      · have h2 : ¬ k < (swapL idx a a 0).length := by rw [swapL_length]; exact hk
        simp [hk, h2]
    rw [this]
    unfold Tensor.swapAxes
    rw [if_pos rfl]
  · have hin := inRange_swapL idx t.shape a b ha hb h
    have hlt : flatIdx (swapL t.shape a b 1) (swapL idx a b 0)
        < Tensor.prod ((t.shape.set a (t.shape.getD b 1)).set b (t.shape.getD a 1)) := flatIdx_lt hin
    unfold getIdx Tensor.swapAxes
    rw [if_neg hab]
    show Tensor.get ⟨swapL t.shape a b 1, _⟩ (flatIdx (swapL t.shape a b 1) (swapL idx a b 0)) = _
    unfold Tensor.get
    simp only []
    rw [getD_ofFn _ _ hlt]
    simp only []
    congr 1
    change Tensor.swapAxes.go a b _ 0 (flatIdx (swapL t.shape a b 1) (swapL idx a b 0)) (swapL t.shape a b 1) 0 = _
    rw [go_eq a b _ _ _ hin 0 0, swapL_length, zero_add, flatIdx_eq_sum _ _ hl]
    -- re-index the sum by the transposition
    refine sum_bij' (fun k _ => sw a b k) (fun k _ => sw a b k) ?_ ?_ ?_ ?_ ?_
    · intro k hk; rw [mem_range] at hk ⊢; exact (sw_lt a b k _ ha hb).mpr hk
    · intro k hk; rw [mem_range] at hk ⊢; exact (sw_lt a b k _ ha hb).mpr hk
    · intro k _; exact sw_sw a b k
    · intro k _; exact sw_sw a b k
    · intro k hk
      rw [mem_range] at hk
      have hk' : sw a b k < t.shape.length := (sw_lt a b k _ ha hb).mpr hk
      rw [zero_add, getD_swapL _ _ _ _ _ _ (by omega) (by omega), getD_strides _ _ hk']

/-! ## Two re-indexings of the same axis compose (flip, then roll) -/

theorem set_getD_self (l : List ℕ) (d y : ℕ) : l.set d (l.getD d y) = l := by
  apply List.ext_getElem?
  intro k
  by_cases hk : d = k
  · subst hk
    by_cases hd : d < l.length
    · simp [List.getElem?_set, hd, List.getD_eq_getElem?_getD]
    · simp [List.getElem?_set, hd]
  · simp [List.getElem?_set, hk]

theorem roll_flip_idx_aux (n k' r : ℕ) (hk' : k' < n) (hr : r < n) :
    n - 1 - (r + (n - k')) % n = (n + k' - 1 - r) % n := by
  by_cases hc : k' ≤ r
  · have e1 : r + (n - k') = (r - k') + n := by omega
    have l1 : r - k' < n := by omega
    have l2 : n + k' - 1 - r < n := by omega
    rw [e1, Nat.add_mod_right, Nat.mod_eq_of_lt l1, Nat.mod_eq_of_lt l2]
    omega
  · have e2 : n + k' - 1 - r = (k' - 1 - r) + n := by omega
    have l1 : r + (n - k') < n := by omega
    have l2 : k' - 1 - r < n := by omega
    rw [Nat.mod_eq_of_lt l1, e2, Nat.add_mod_right, Nat.mod_eq_of_lt l2]
    omega

/-- Index map of "flip, then `np.roll` by `k`" = the correspondence `r ↦ (n + k - 1 - r) mod n`. -/
theorem roll_flip_idx (n k r : ℕ) (hr : r < n) :
    n - 1 - (r + (n - k % n)) % n = (n + k - 1 - r) % n := by
  have hk' : k % n < n := Nat.mod_lt _ (by omega)
  have h1 : (n + k - 1 - r) % n = (n + k % n - 1 - r) % n := by
    have e : n + k - 1 - r = (n + k % n - 1 - r) + n * (k / n) := by
      have h := Nat.mod_add_div k n
      generalize k % n = a at h ⊢
      generalize n * (k / n) = M at h ⊢
      omega
    rw [e, Nat.add_mul_mod_self_left]
  rw [h1]
  exact roll_flip_idx_aux n (k % n) r hk' hr

/-- Re-indexing an axis twice (same length) is re-indexing by the composite on the positions that
occur. -/
theorem reindexAxis_reindexAxis (t : Tensor K) (d : ℕ) (g1 g2 g : ℕ → ℕ)
    (hg2 : ∀ r, r < t.shape.getD d 1 → g2 r < t.shape.getD d 1)
    (hg : ∀ r, r < t.shape.getD d 1 → g1 (g2 r) = g r) :
    (t.reindexAxis d (t.shape.getD d 1) g1).reindexAxis d (t.shape.getD d 1) g2
      = t.reindexAxis d (t.shape.getD d 1) g := by
  have hset : t.shape.set d (t.shape.getD d 1) = t.shape := set_getD_self t.shape d 1
  unfold Tensor.reindexAxis Tensor.build3
  simp only []
  congr 1
  · rw [hset]; exact hset
  apply Array.ext
  · simp only [Array.size_ofFn, hset]
  intro idx h1 h2
  simp only [Array.size_ofFn] at h1 h2
  rw [Array.getElem_ofFn, Array.getElem_ofFn]
  simp only [hset]
  set n := t.shape.getD d 1 with hn
  set inn := (Tensor.split3 t.shape d).2.2 with hinn
  set o := (Tensor.split3 t.shape d).1 with ho
  have hinnpos : 0 < inn := by
    rcases Nat.eq_zero_or_pos inn with h | h
    · rw [h] at h2; simp at h2
    · exact h
  have hnpos : 0 < n := by
    rcases Nat.eq_zero_or_pos n with h | h
    · rw [h] at h2; simp at h2
    · exact h
  have hr : idx / inn % n < n := Nat.mod_lt _ hnpos
  have hi : idx % inn < inn := Nat.mod_lt _ hinnpos
  have ha : idx / (inn * n) < o := by
    rw [Nat.div_lt_iff_lt_mul (Nat.mul_pos hinnpos hnpos)]
    calc idx < o * n * inn := h2
      _ = o * (inn * n) := by ring
  rw [← hg _ hr]
  have hg2r := hg2 _ hr
  obtain ⟨e1, e2, e3⟩ := digits3 (idx / (inn * n)) n (g2 (idx / inn % n)) inn (idx % inn) hg2r hi
  have hbound : (idx / (inn * n) * n + g2 (idx / inn % n)) * inn + idx % inn < o * n * inn := by
    have : (idx / (inn * n) * n + g2 (idx / inn % n) + 1) * inn ≤ o * n * inn := by
      apply Nat.mul_le_mul_right
      have : (idx / (inn * n) + 1) * n ≤ o * n := Nat.mul_le_mul_right _ ha
      nlinarith
    nlinarith
  have h21 : (Tensor.split3 t.shape d).2.1 = n := rfl
  unfold Tensor.at3 Tensor.get
  simp only [h21, ← hinn]
  rw [getD_ofFn _ _ hbound]
  simp only [e1, e2, e3]

/-- Re-indexing only looks at the positions below the new length. -/
theorem reindexAxis_congr (t : Tensor K) (d m : ℕ) (g g' : ℕ → ℕ) (h : ∀ r, r < m → g r = g' r) :
    t.reindexAxis d m g = t.reindexAxis d m g' := by
  unfold Tensor.reindexAxis Tensor.build3
  simp only []
  congr 2
  funext idx
  have hpos := idx.isLt
  have hm : 0 < m := by
    by_contra h0
    have h0' : m = 0 := by omega
    simp only [h0', Nat.mul_zero, Nat.zero_mul, Nat.not_lt_zero] at hpos
  rw [h _ (Nat.mod_lt _ hm)]

end Splipy.C06
