import Splipy.Model.Split
import Mathlib.Tactic.Ring
import Mathlib.Tactic.Linarith

/-!
# Index arithmetic of `_splitvector` (`utils/refinement.py`)

`splitVectorAt len parts i` is `result[i]`.  Closed form, range and monotonicity.
-/

namespace Splipy

theorem splitVectorAt_succ (len parts i : ℕ) :
    splitVectorAt len parts (i+1) = splitVectorSizes len parts (i+1) + splitVectorAt len parts i := rfl

/-- Closed form: `i·δ` plus one for every index in `[parts - rem + 1, i]`. -/
theorem splitVectorAt_closed (len parts i : ℕ) (hi : i < parts) :
    splitVectorAt len parts i
      = i * (len / parts) + (i - (parts - (len - parts * (len / parts)))) := by
  induction i with
  | zero => simp [splitVectorAt]
  | succ i ih =>
    rw [splitVectorAt_succ, ih (by omega), Nat.succ_mul]
    unfold splitVectorSizes
    simp only []
    split_ifs with h
    · omega
    · omega

/-- Every index returned by `_splitvector(len, parts)` is a valid index into a list of length
`len ≥ 1`. -/
theorem splitVectorAt_lt (len parts i : ℕ) (hlen : 1 ≤ len) (hi : i < parts) :
    splitVectorAt len parts i < len := by
  rw [splitVectorAt_closed len parts i hi]
  obtain ⟨k, rfl⟩ : ∃ k, parts = k + 1 := ⟨parts - 1, by omega⟩
  have h1 : (k+1) * (len / (k+1)) ≤ len := Nat.mul_div_le len (k+1)
  have h2 : len < (k+1) * (len / (k+1) + 1) := Nat.lt_mul_div_succ len (by omega)
  have h3 : i * (len / (k+1)) ≤ k * (len / (k+1)) := Nat.mul_le_mul_right _ (by omega)
  generalize len / (k+1) = δ at *
  rw [Nat.mul_add, Nat.mul_one] at h2
  rw [Nat.succ_mul] at h1 h2 ⊢
  have ha0 : δ = 0 → i * δ = 0 := fun h => by rw [h, Nat.mul_zero]
  have hb0 : δ = 0 → k * δ = 0 := fun h => by rw [h, Nat.mul_zero]
  generalize i * δ = a at *
  generalize k * δ = b at *
  rcases Nat.eq_zero_or_pos δ with hd | hd
  · have := ha0 hd
    have := hb0 hd
    omega
  · omega

theorem splitVectorAt_mono (len parts i : ℕ) :
    splitVectorAt len parts i ≤ splitVectorAt len parts (i+1) := by
  rw [splitVectorAt_succ]; omega

/-- Consecutive indices are strictly increasing, except for leading repetitions of index `0`
(= the start of the domain, which `split` skips). -/
theorem splitVectorAt_strict_or_zero (len parts i : ℕ) (hi : i + 1 < parts) :
    splitVectorAt len parts i < splitVectorAt len parts (i+1) ∨ splitVectorAt len parts (i+1) = 0 := by
  rw [splitVectorAt_closed len parts (i+1) hi, splitVectorAt_closed len parts i (by omega), Nat.succ_mul]
  generalize len / parts = δ at *
  rcases Nat.eq_zero_or_pos δ with hd | hd
  · subst hd
    simp only [Nat.mul_zero, Nat.add_zero, Nat.zero_add]
    omega
  · left
    generalize i * δ = a at *
    generalize parts * δ = b at *
    omega

theorem splitVector_length (len parts : ℕ) : (splitVector len parts).length = parts := by
  simp [splitVector]

theorem splitVector_getElem (len parts i : ℕ) (hi : i < (splitVector len parts).length) :
    (splitVector len parts)[i] = splitVectorAt len parts i := by
  simp [splitVector]

end Splipy
