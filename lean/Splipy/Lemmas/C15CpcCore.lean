import Splipy.Lemmas.C15Cpc

/-!
# `Obj.constParCurve`: the loop, the row index and the slicing, in terms of the refined object
-/

set_option linter.unusedSectionVars false

namespace Splipy
namespace C15

open C04 Sections

variable {K : Type} [Field K] [LinearOrder K] [IsStrictOrderedRing K] [FloorRing K]

theorem cpcCount_eq (p l r : ℕ) (b : Basis K) (hp : b.order = p) (hlr : l ≤ r) :
    Obj.cpcCount b (if r = l then none else some ((p : Int) - ((r : Int) - l) - 1)) = p - 1 - (r - l) := by
  unfold Obj.cpcCount
  rw [hp]
  split_ifs with h
  · subst h
    simp only []
    omega
  · simp only []
    omega

/-- Everything the model's `const_par_curve` does before the final row selection, for a valid
    non-periodic cut direction and an in-range, tolerance-separated parameter `x`: the number of
    insertions is `k = p - 1 - multiplicity` (truncated at 0); the refined object `o'` exists and
    has all the conclusions of `C04_object`; `bisect_left(x)` is unchanged and `bisect_right(x)` has
    grown by `k`; and the call equals `cpcPick o o' dir x`. -/
theorem constParCurve_core (o : Obj K) (direction : Int ⊕ String) (dir : ℕ)
    (hdirn : Sections.checkDirection direction 2 = .ok dir) (hdir : dir < o.bases.size)
    (hax : dir < o.cps.shape.length) (hv : (o.basis dir).Valid)
    (hper : (o.basis dir).periodic = -1)
    (hshape : o.cps.shape.getD dir 0 = (o.basis dir).numFunctions) (tol x : K) (htol : 0 < tol)
    (hx : (o.basis dir).start ≤ x ∧ x ≤ (o.basis dir).stop)
    (hsep : Separated (o.basis dir) tol x) (k : ℕ)
    (hkdef : k = (o.basis dir).order - 1 - ((o.basis dir).bisectR x - (o.basis dir).bisectL x))
    (hk : k = 0 ∨ x < (o.basis dir).stop) :
    ∃ o' C, Refines (o.basis dir) (o'.basis dir) C k ∧
      o'.cps.shape = o.cps.shape.set dir ((o.basis dir).numFunctions + k) ∧
      outerN o' dir = outerN o dir ∧ innerN o' dir = innerN o dir ∧
      (∀ a i, a < outerN o dir → i < innerN o dir → ∀ (s : Side) (t : K),
        splineVal s (o'.basis dir).kn ((o.basis dir).order - 1) ((o.basis dir).numFunctions + k)
            (fibre o' dir a i) t
          = splineVal s (o.basis dir).kn ((o.basis dir).order - 1) (o.basis dir).numFunctions
            (fibre o dir a i) t) ∧
      (o'.basis dir).bisectL x = (o.basis dir).bisectL x ∧
      (o'.basis dir).bisectR x = (o.basis dir).bisectR x + k ∧
      (k = 0 → o'.basis dir = o.basis dir) ∧
      o.constParCurve tol x direction = Obj.cpcPick o o' dir x := by
  have hxs : ∀ y ∈ List.replicate k x, (o.basis dir).start ≤ y ∧ y < (o.basis dir).stop := by
    intro y hy
    obtain ⟨hk0, rfl⟩ := List.mem_replicate.1 hy
    rcases hk with h | h
    · exact absurd h hk0
    · exact ⟨hx.1, h⟩
  obtain ⟨o', C, h1, h2, _, _, _, h6, h7, h8, h9⟩ :=
    insertKnots_fibres o dir hdir hax hv hper hshape (List.replicate k x) hxs
  rw [List.length_replicate] at h2 h6 h9
  obtain ⟨b', C', hm, _, _, _, _, _, _, m7, m8, m9⟩ :=
    insertMany_replicate x k (o.basis dir) (Mat.identity (o.cps.shape.getD dir 0)) hv hper
      (by rcases hk with h | h
          · exact Or.inl h
          · exact Or.inr ⟨hx.1, h⟩)
  have hb' : o'.basis dir = b' := by
    have e := h1
    rw [insertKnots_eq, hm] at e
    have e' : ({ o with bases := o.bases.set! dir b', cps := Tensor.applyAxis C' o.cps dir } : Obj K) = o' := by
      simpa [bind, Except.bind, pure, Except.pure] using e
    rw [← e']
    exact basis_set o dir hdir _ _
  obtain ⟨hlr, _, _, _, _, _⟩ := bisect_facts (o.basis dir) hv x
  refine ⟨o', C, h2, h6, h7, h8, ?_, by rw [hb']; exact m7, by rw [hb']; exact m8,
    fun h0 => by rw [hb']; exact m9 h0, ?_⟩
  · intro a i ha hi s t
    rw [splineVal_congr s _ _ _ _ _ t (fun r hr => h9 a i r ha hi hr)]
    exact (h2.same (fibre o dir a i) s t).1
  · unfold Obj.constParCurve
    rw [hdirn]
    simp only [bind, Except.bind]
    rw [continuity_exact (o.basis dir) hv hper tol x htol hx hsep]
    simp only []
    rw [cpcCount_eq (o.basis dir).order _ _ (o.basis dir) rfl hlr, ← hkdef, h1]

end C15
end Splipy
