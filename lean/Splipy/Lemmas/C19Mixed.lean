import Splipy.Model.IOFiles
import Splipy.Lemmas.C19Prims

/-! Files that mix spline records and primitive records. -/

namespace Splipy.FileIO

variable {K : Type}

def PrimRecord.code : PrimRecord K → Int
  | .line .. => 120 | .circle .. => 130 | .ellipse .. => 140 | .cylinder .. => 260
  | .disc .. => 292 | .plane .. => 250 | .torus .. => 290 | .sphere .. => 270 | .extrusion .. => 261

theorem PrimRecord.code_mem (r : PrimRecord K) : r.code ∈ primCodes := by
  cases r <;> simp [PrimRecord.code, primCodes]

theorem PrimRecord.toks_hdr (r : PrimRecord K) : ∃ body, r.toks = hdr r.code ++ body := by
  cases r <;> simp only [PrimRecord.toks, PrimRecord.code, List.append_assoc] <;> exact ⟨_, rfl⟩

/-- One record of a mixed file, with what it must read to. -/
inductive FileItem (K : Type) where
  | spline (o : Obj K)
  | prim (aux : PrimAux K) (rec : PrimRecord K) (res : Splipy.Obj K)

def FileItem.toks : FileItem K → List (Token K)
  | .spline o => g2Write o
  | .prim _ r _ => r.toks

def FileItem.auxs : FileItem K → List (PrimAux K)
  | .spline _ => []
  | .prim a _ _ => [a]

def FileItem.item : FileItem K → G2Item K
  | .spline o => .spline o
  | .prim _ _ res => .prim res

section
variable [Field K] [LinearOrder K] [FloorRing K]

/-- Spline records are well-formed non-periodic objects; a primitive record comes with the data its
    factory needs and `res` is what the documented factory call + post-processing returns. -/
def FileItem.WF (tol : K) : FileItem K → Prop
  | .spline o => o.WF tol
  | .prim aux r res => r.WF tol ∧ r.build aux = .ok res

omit [Field K] [LinearOrder K] [FloorRing K] in
theorem FileItem.toks_head (it : FileItem K) : ∃ n l, it.toks = Token.int n :: l := by
  cases it with
  | spline o => exact ⟨_, _, rfl⟩
  | prim a r res =>
    obtain ⟨body, hb⟩ := r.toks_hdr
    exact ⟨_, _, by rw [FileItem.toks, hb]; rfl⟩

theorem g2ReadItem_item (tol : K) (it : FileItem K) (h : it.WF tol) (auxs : List (PrimAux K))
    (rest : List (Token K)) :
    g2ReadItem (it.auxs ++ auxs) tol (it.toks ++ rest) = .ok (it.item, auxs, rest) := by
  cases it with
  | spline o =>
    have hs := g2Splines_write tol o h rest
    have e : g2Write o ++ rest =
        Token.int (g2TypeCode o.pardim) :: [Token.int 1, Token.int 0, Token.int 0] ++ Token.nl ::
          ([Token.int ((o.ncomp : Int) - boolInt o.rational), Token.int (boolInt o.rational), Token.nl]
          ++ o.bases.flatMap basisToks ++ (flattenF o.shape o.cps).flatMap rowToks ++ rest) := by
      simp [g2Write]
    simp only [FileItem.toks, FileItem.auxs, FileItem.item, List.nil_append]
    rw [e]
    unfold g2ReadItem
    rw [nextNonBlank_append _ _ _ rfl (by intro t ht; simp at ht; rcases ht with rfl | rfl | rfl <;> rfl)]
    simp only [List.mapM_cons, List.mapM_nil, Token.toInt?, Option.pure_def, Option.bind_eq_bind,
      Option.bind_some]
    rcases h.pardim with hp | hp | hp <;>
      · simp only [Obj.pardim, hp, g2TypeCode] at hs ⊢
        simp only [List.cons_append, List.nil_append, List.append_assoc] at hs
        simp [primCodes, hs]
  | prim a r res =>
    obtain ⟨hwf, hbuild⟩ := h
    obtain ⟨body, hb⟩ := r.toks_hdr
    have h1 := g2ReadPrim_toks a tol r hwf rest
    rw [hbuild, hb, List.append_assoc, g2ReadPrim_hdr] at h1
    simp only [FileItem.toks, FileItem.auxs, FileItem.item, List.cons_append, List.nil_append]
    rw [hb, List.append_assoc]
    unfold g2ReadItem
    rw [header_toks]
    simp only [List.mapM_cons, List.mapM_nil, Token.toInt?, Option.pure_def, Option.bind_eq_bind,
      Option.bind_some]
    simp only [ne_eq, not_true_eq_false, if_false, r.code_mem, if_true, h1]
    rfl

theorem g2ReadMixedFuel_items (tol : K) : ∀ (items : List (FileItem K)), (∀ it ∈ items, it.WF tol) →
    ∀ fuel, items.length < fuel →
      g2ReadMixedFuel tol fuel (items.flatMap FileItem.auxs) (items.flatMap FileItem.toks) =
        .ok (items.map FileItem.item)
  | [], _, fuel, hf => by
    obtain ⟨f, rfl⟩ : ∃ f, fuel = f + 1 := ⟨fuel - 1, by omega⟩
    simp [g2ReadMixedFuel]
  | it :: items, h, fuel, hf => by
    obtain ⟨f, rfl⟩ : ∃ f, fuel = f + 1 := ⟨fuel - 1, by omega⟩
    have ih := g2ReadMixedFuel_items tol items (fun i hi => h i (by simp [hi])) f (by simp at hf; omega)
    have hr := g2ReadItem_item tol it (h it (by simp)) (items.flatMap FileItem.auxs)
      (items.flatMap FileItem.toks)
    obtain ⟨n, l, hnl⟩ := it.toks_head
    have hne : ((it :: items).flatMap FileItem.toks).dropWhile Token.isNl ≠ [] := by
      simp [List.flatMap_cons, hnl, Token.isNl]
    simp only [g2ReadMixedFuel]
    rw [if_neg (by simpa using hne)]
    simp only [List.flatMap_cons, hr, ih, List.map_cons]

end

end Splipy.FileIO
