import Splipy.Lemmas.C15Unit
import Splipy.Lemmas.C15Ruled

/-!
# The intermediate objects of `Obj.coonsPatch`: well-formedness, bases, linear combination of maps
-/

set_option linter.unusedSectionVars false

namespace Splipy
namespace C15

open C06 C12 Obj Basis Finset

variable {K : Type} [Field K] [LinearOrder K] [IsStrictOrderedRing K] [FloorRing K]

/-! ## `BSplineBasis(2)` -/

theorem linearBasis_valid : (linearBasis : Basis K).Valid where
  order_pos := by simp [linearBasis]
  size_ge := by simp [linearBasis]
  sorted := by
    intro i hi
    have hi' : i + 1 < 4 := hi
    have : i < 3 := by omega
    interval_cases i <;> norm_num [Basis.kn, linearBasis]
  periodic_ge := by simp [linearBasis]
  periodic_le := by simp [linearBasis]
  start_lt_stop := by norm_num [Basis.start, Basis.stop, Basis.kn, linearBasis]
  ghosts := fun h => absurd h (by simp [linearBasis])

theorem linearBasis_numFunctions : (linearBasis : Basis K).numFunctions = 2 := by
  simp [linearBasis, Basis.numFunctions]

/-- `BSplineBasis(2)` in common-entry form over any list of absent interior values. -/
theorem linearBasis_form (U : List K) :
    (linearBasis : Basis K) = openBasis 2 (clampedU 0 1 U) (clampedM 2 (U.map (fun _ => 0))) := by
  rw [openBasis_zeros, linearBasis_eq]

theorem bases_of_size_two {o : Obj K} (h : o.bases.size = 2) : o.bases.toList = [o.basis 0, o.basis 1] := by
  have hl : o.bases.toList.length = 2 := by simpa using h
  match hb : o.bases.toList, hl with
  | [b0, b1], _ =>
    have e0 : o.basis 0 = b0 := by
      unfold Obj.basis
      rw [Array.getD_eq_getD_getElem?, ← Array.getElem?_toList, hb]; rfl
    have e1 : o.basis 1 = b1 := by
      unfold Obj.basis
      rw [Array.getD_eq_getD_getElem?, ← Array.getElem?_toList, hb]; rfl
    rw [e0, e1]

/-! ## The ruled surface between two curves with the same control-array shape -/

/-- The object `Obj.ruled` returns (`Surface(crv1.bases[0], BSplineBasis(2), [crv1; crv2], crv1.rational)`). -/
def ruledObj (r1 r2 : Obj K) : Obj K :=
  { bases := r1.bases.push linearBasis, cps := stack2 r1.cps r2.cps, rational := r1.rational }

theorem ruledObj_basis0 (r1 r2 : Obj K) (h : r1.bases.size = 1) : (ruledObj r1 r2).basis 0 = r1.basis 0 := by
  unfold ruledObj Obj.basis
  simp [Array.getD_eq_getD_getElem?, h, Array.getElem_push]

theorem ruledObj_basis1 (r1 r2 : Obj K) (h : r1.bases.size = 1) : (ruledObj r1 r2).basis 1 = linearBasis := by
  unfold ruledObj Obj.basis
  simp [Array.getD_eq_getD_getElem?, h, Array.getElem_push]

theorem ruledObj_wf (r1 r2 : Obj K) (hw1 : C06.WF r1 1) (hsh : r2.cps.shape = r1.cps.shape) :
    C06.WF (ruledObj r1 r2) 2 ∧ (ruledObj r1 r2).ncomp = r1.ncomp := by
  have hs1 := curve_shape hw1
  have hss : (ruledObj r1 r2).cps.shape = [(r1.basis 0).numFunctions, 2, r1.ncomp] :=
    Tensor.stack2_shape r1.cps r2.cps [(r1.basis 0).numFunctions] r1.ncomp hs1
  have hb0 := ruledObj_basis0 r1 r2 hw1.size
  have hb1 := ruledObj_basis1 r1 r2 hw1.size
  have hn : (ruledObj r1 r2).ncomp = r1.ncomp := by unfold Obj.ncomp; rw [hss]; rfl
  refine ⟨⟨by simp [ruledObj, hw1.size], ?_, ?_⟩, hn⟩
  · intro d
    rcases d with ⟨d, hd⟩
    interval_cases d
    · show ((ruledObj r1 r2).basis 0).Valid
      rw [hb0]; exact hw1.valid 0
    · show ((ruledObj r1 r2).basis 1).Valid
      rw [hb1]; exact linearBasis_valid
  · rw [hss, hn]
    have e0 : ((ruledObj r1 r2).basis ((0 : Fin 2) : ℕ)).numFunctions = (r1.basis 0).numFunctions := by
      show ((ruledObj r1 r2).basis 0).numFunctions = _; rw [hb0]
    have e1 : ((ruledObj r1 r2).basis ((1 : Fin 2) : ℕ)).numFunctions = 2 := by
      show ((ruledObj r1 r2).basis 1).numFunctions = _; rw [hb1]; exact linearBasis_numFunctions
    simp [midx, List.ofFn_succ]
    exact ⟨by rw [hb0], by rw [hb1]; exact linearBasis_numFunctions.symm⟩

/-! ## The corner surface -/

theorem fromCorners2_ok (a b c e : Array K) (d : ℕ) (ha : a.size = d) (hb : b.size = d) (hc : c.size = d)
    (he : e.size = d) (rat : Bool) :
    ∃ s3 : Obj K, Obj.fromCorners 2 [a, b, c, e] rat = .ok s3 ∧ s3.bases = #[linearBasis, linearBasis]
      ∧ s3.cps.shape = [2, 2, d] ∧ s3.rational = rat := by
  unfold Obj.fromCorners
  have hany : ([a, b, c, e].any fun r => decide (r.size ≠ (([a, b, c, e] : List (Array K)).headD #[]).size)) = false := by
    simp [ha, hb, hc, he]
  simp only [hany, Bool.false_eq_true, if_false]
  refine ⟨_, rfl, rfl, ?_, rfl⟩
  simp [Tensor.tabulate, ha]

/-! ## Multiplicity lists of the unions that occur -/

theorem raisedMult_zero_right (a : ℕ) : raisedMult a 0 = 0 := by
  unfold raisedMult; simp

theorem unionMult_self (p : ℕ) (M : List ℕ) : unionMult p p M M = M := by
  unfold unionMult
  have hf : (fun a b => max (raisedMult (max p p - p) a) (raisedMult (max p p - p) b)) = fun a b => max a b := by
    funext a b; simp [raisedMult_zero]
  rw [hf]
  induction M with
  | nil => rfl
  | cons m M ih => rw [List.zipWith_cons_cons, ih, max_self]

theorem unionMult_zeros_right (p : ℕ) (hp : 2 ≤ p) (M : List ℕ) (U : List K) (hl : M.length = U.length) :
    unionMult p 2 M (U.map (fun _ => 0)) = M := by
  unfold unionMult
  have hf : (fun a b => max (raisedMult (max p 2 - p) a) (raisedMult (max p 2 - 2) b))
      = fun a b => max a (raisedMult (p - 2) b) := by
    funext a b; rw [max_eq_left hp]; simp [raisedMult_zero]
  rw [hf]
  induction M generalizing U with
  | nil => rfl
  | cons m M ih =>
    cases U with
    | nil => simp at hl
    | cons u U =>
      rw [List.map_cons, List.zipWith_cons_cons, ih U (by simpa using hl), raisedMult_zero_right]
      simp

theorem unionMult_zeros_left (p : ℕ) (hp : 2 ≤ p) (M : List ℕ) (U : List K) (hl : M.length = U.length) :
    unionMult 2 p (U.map (fun _ => 0)) M = M := by
  unfold unionMult
  have hf : (fun a b => max (raisedMult (max 2 p - 2) a) (raisedMult (max 2 p - p) b))
      = fun a b => max (raisedMult (p - 2) a) b := by
    funext a b; rw [max_eq_right hp]; simp [raisedMult_zero]
  rw [hf]
  induction M generalizing U with
  | nil => cases U <;> rfl
  | cons m M ih =>
    cases U with
    | nil => simp at hl
    | cons u U =>
      rw [List.map_cons, List.zipWith_cons_cons, ih U (by simpa using hl), raisedMult_zero_right]
      simp

/-! ## `+=` / `-=` on control arrays and the evaluated maps -/

theorem cpsAdd_ok (a b : Tensor K) (sub : Bool) (h : a.shape = b.shape) :
    ∃ c, Obj.cpsAdd a b sub = .ok c ∧ c.shape = a.shape ∧
      ∀ k, k < Tensor.prod a.shape → c.get k = if sub then a.get k - b.get k else a.get k + b.get k := by
  unfold Obj.cpsAdd
  rw [if_neg (by simpa using h)]
  refine ⟨_, rfl, rfl, fun k hk => ?_⟩
  unfold Tensor.get
  simp only []
  rw [Tensor.getD_ofFn _ hk]

theorem flatIdx_midx_lt {m : ℕ} (n : Fin m → ℕ) (c nc : ℕ) (I : Fin m → ℕ) (hI : ∀ d, I d < n d) (hc : c < nc) :
    flatIdx (midx n nc) (midx I c) < Tensor.prod (midx n nc) := by
  exact flatIdx_lt ((inRange_midx I n c nc).2 ⟨hI, hc⟩)

/-- **Evaluated map of `x + y - z`**: four well-formed objects with the same bases; if the control net
    of `o` is, entry by entry (within the index range), `x + y - z`, then so is its evaluated map. -/
theorem toTP_eval_combo {m : ℕ} (o x y z : Obj K)
    (hbo : ∀ d : Fin m, o.basis d = x.basis d) (hby : ∀ d : Fin m, y.basis d = x.basis d)
    (hbz : ∀ d : Fin m, z.basis d = x.basis d) (hpos : ∀ d : Fin m, 0 < (x.basis d).numFunctions)
    (comp : ℕ)
    (hc : ∀ I : Fin m → ℕ, (∀ d, I d < (x.basis d).numFunctions) →
      getIdx o.cps (midx I comp) = getIdx x.cps (midx I comp) + getIdx y.cps (midx I comp)
        - getIdx z.cps (midx I comp))
    (s : Fin m → Side) (u : Fin m → K) :
    (toTP o m comp).eval s u = (toTP x m comp).eval s u + (toTP y m comp).eval s u
      - (toTP z m comp).eval s u := by
  simp only [TP.eval_eq]
  have e1 : ∀ (w : Obj K), (∀ d : Fin m, w.basis d = x.basis d) →
      ∑ I ∈ Fintype.piFinset (fun d => range ((toTP w m comp).nAll d)),
        (toTP w m comp).c (fun d => I d % (toTP w m comp).n d)
          * ∏ d, B (s d) ((toTP w m comp).τ d) ((toTP w m comp).q d) (I d) (u d)
      = ∑ I ∈ Fintype.piFinset (fun d : Fin m => range (x.basis d).nAll),
        getIdx w.cps (midx (fun d => I d % (x.basis d).numFunctions) comp)
          * ∏ d, B (s d) (x.basis d).kn ((x.basis d).order - 1) (I d) (u d) := by
    intro w hw
    simp only [toTP, hw]
  rw [e1 o hbo, e1 x (fun _ => rfl), e1 y hby, e1 z hbz, ← Finset.sum_add_distrib, ← Finset.sum_sub_distrib]
  apply Finset.sum_congr rfl
  intro I _
  rw [hc _ (fun d => Nat.mod_lt _ (hpos d))]
  ring

end C15
end Splipy
