import Splipy.Lemmas.C03RealModel

/-!
# C03 – the derivative spline at object level (model evaluator)

`get_derivative_spline(0)` of a non-rational curve on a clamped non-periodic basis of order ≥ 2:
the new basis is valid, admissible parameters stay admissible, and evaluating the derivative object through
the model evaluator gives the entries of `derivative(d=1)`.
-/

namespace Splipy

set_option linter.unusedSectionVars false
open Tensor

variable {K : Type} [Field K] [LinearOrder K] [IsStrictOrderedRing K] [FloorRing K]

/-- The basis of the derivative spline of a non-periodic direction: order `p-1` on `knots[1:-1]`. -/
structure IsDerivBasis (b nb : Basis K) : Prop where
  order : nb.order = b.order - 1
  knots : nb.knots = b.knots.extract 1 (b.knots.size - 1)
  periodic : nb.periodic = -1

theorem IsDerivBasis.size {b nb : Basis K} (h : IsDerivBasis b nb) : nb.knots.size = b.knots.size - 2 := by
  rw [h.knots]; simp; omega

theorem IsDerivBasis.kn {b nb : Basis K} (h : IsDerivBasis b nb) {j : ℕ} (hj : j + 2 < b.knots.size) :
    nb.kn j = b.kn (j + 1) := extract_kn b nb h.knots j hj

theorem IsDerivBasis.valid {b nb : Basis K} (h : IsDerivBasis b nb) (hv : b.Valid) (hp : 2 ≤ b.order) :
    nb.Valid where
  order_pos := by rw [h.order]; omega
  size_ge := by rw [h.size, h.order]; have := hv.size_ge; omega
  sorted := by
    intro i hi
    rw [h.size] at hi
    rw [h.kn (by omega), h.kn (by omega)]
    exact hv.sorted (i + 1) (by omega)
  periodic_ge := by rw [h.periodic]
  periodic_le := Or.inr h.periodic
  start_lt_stop := by
    have hsz := hv.size_ge
    unfold Basis.start Basis.stop
    rw [h.size, h.order, h.kn (by omega), h.kn (by omega)]
    have e1 : b.order - 1 - 1 + 1 = b.order - 1 := by omega
    have e2 : b.knots.size - 2 - (b.order - 1) + 1 = b.knots.size - b.order := by omega
    rw [e1, e2]
    exact hv.start_lt_stop
  ghosts := by intro h0; rw [h.periodic] at h0; exact absurd h0 (by decide)

theorem IsDerivBasis.start_eq {b nb : Basis K} (h : IsDerivBasis b nb) (hv : b.Valid) (hp : 2 ≤ b.order) :
    nb.start = b.start := by
  have hsz := hv.size_ge
  unfold Basis.start
  rw [h.order, h.kn (by omega)]
  congr 1; omega

theorem IsDerivBasis.stop_eq {b nb : Basis K} (h : IsDerivBasis b nb) (hv : b.Valid) (hp : 2 ≤ b.order) :
    nb.stop = b.stop := by
  have hsz := hv.size_ge
  unfold Basis.stop
  rw [h.size, h.order, h.kn (by omega)]
  congr 1; omega

theorem IsDerivBasis.numFunctions {b nb : Basis K} (h : IsDerivBasis b nb) (hper : b.periodic = -1)
    (hp : 2 ≤ b.order) (hv : b.Valid) : nb.numFunctions = b.numFunctions - 1 := by
  have hsz := hv.size_ge
  unfold Basis.numFunctions
  rw [h.size, h.order, h.periodic, hper]
  simp; omega

theorem IsDerivBasis.admissible {b nb : Basis K} (h : IsDerivBasis b nb) (hv : b.Valid)
    (hper : b.periodic = -1) (hp : 2 ≤ b.order) {tol u : K} (hu : b.Admissible tol u) :
    nb.Admissible tol u := by
  refine ⟨?_, fun _ => ?_, fun h0 => ?_⟩
  · intro i hi
    rw [h.size] at hi
    rw [h.kn (by omega)]
    exact hu.1 (i + 1) (by omega)
  · rw [h.start_eq hv hp, h.stop_eq hv hp]; exact hu.2.1 hper
  · rw [h.periodic] at h0; exact absurd h0 (by decide)

/-- Row `j` of the difference matrix as a `Finset` sum. -/
theorem derivativeMatrix_row_sum (b : Basis K) (n j : ℕ) (hper : b.periodic < 0) (hj : j + 1 < n)
    (v : ℕ → K) :
    ∑ i ∈ Finset.range n, ((Obj.derivativeMatrix b n).getD j #[]).getD i 0 * v i
      = Obj.dsCoef b j * (v (j + 1) - v j) := by
  rw [← foldl_add_eq_sum]
  exact derivativeMatrix_row b n j hper hj v

theorem derivativeMatrix_size (b : Basis K) (n : ℕ) (hper : b.periodic < 0) :
    (Obj.derivativeMatrix b n).size = n - 1 := by
  unfold Obj.derivativeMatrix
  rw [if_pos hper]
  simp

end Splipy

namespace Splipy

set_option linter.unusedSectionVars false
open Tensor

variable {K : Type} [Field K] [LinearOrder K] [IsStrictOrderedRing K] [FloorRing K]

theorem effSide_derivBasis {b nb : Basis K} (h : IsDerivBasis b nb) (hv : b.Valid) (hp : 2 ≤ b.order)
    (u : K) (a : Bool) : effSide nb u a = effSide b u a := by
  unfold effSide
  rw [h.stop_eq hv hp]

/-- **The derivative spline identity in the vocabulary of the model rows** (one direction): for a valid,
non-periodic, clamped basis `b` of order ≥ 2 with derivative basis `nb`, any coefficients `cf` and any `u`:
`Σ_j rowSpec_b(u, d=1)_j · cf_j = Σ_j specRow_nb(u)_j · p (cf_{j+1} − cf_j)/(τ_{j+p} − τ_{j+1})`. -/
theorem derivSpline_1d {b nb : Basis K} (hD : IsDerivBasis b nb) (hv : b.Valid) (hper : b.periodic = -1)
    (hp : 2 ≤ b.order) (hc0 : b.kn (b.order - 1) = b.kn 0)
    (hcN : b.kn (b.nAll + b.order - 1) = b.kn b.nAll) (u : K) (cf : ℕ → K) :
    ∑ j ∈ Finset.range b.numFunctions, b.rowSpec u true 1 j * cf j =
      ∑ j ∈ Finset.range nb.numFunctions, nb.specRow u j * (Obj.dsCoef b j * (cf (j + 1) - cf j)) := by
  have hnAll := Basis.numFunctions_of_nonperiodic hper
  have hsz := hv.size_ge
  have hnf : b.numFunctions = b.knots.size - b.order := by rw [hnAll]; rfl
  have hnbf := hD.numFunctions hper hp hv
  have hR : ∑ j ∈ Finset.range b.numFunctions, b.rowSpec u true 1 j * cf j =
      splineDeriv (effSide b u true) b.kn (b.order - 1) b.numFunctions cf 1 u := by
    unfold splineDeriv
    apply Finset.sum_congr rfl
    intro j _
    rw [rowSpec_open hper (by simp)]
    ring
  rw [hR]
  obtain ⟨q, hq⟩ : ∃ q, b.order = q + 2 := ⟨b.order - 2, by omega⟩
  obtain ⟨N, hN⟩ : ∃ N, b.numFunctions = N + 1 := ⟨b.numFunctions - 1, by omega⟩
  have e1 : b.order - 1 = q + 1 := by omega
  rw [e1, hN, splineDeriv_one_eq_splineVal_clamped _ _ q N _ u (by rw [← e1]; exact hc0)
    (by
      have : b.nAll + b.order - 1 = N + 1 + q + 1 := by rw [← hnAll, hN, hq]; omega
      rw [this, ← hnAll, hN] at hcN; exact hcN)]
  unfold splineVal
  have hnbN : nb.numFunctions = N := by rw [hnbf, hN]; rfl
  rw [hnbN]
  apply Finset.sum_congr rfl
  intro j hj
  rw [Finset.mem_range] at hj
  have hcp : Obj.dsCoef b j * (cf (j + 1) - cf j) = dsplineCoef b.kn q cf j := by
    unfold Obj.dsCoef dsplineCoef
    rw [e1]
    have e2 : j + (q + 1) + 1 = j + q + 2 := by omega
    rw [e2]
    push_cast
    ring
  have hB : nb.specRow u j = B (effSide b u true) (shiftKnots b.kn) q j u := by
    rw [Basis.specRow_nonperiodic hD.periodic, effSide_derivBasis hD hv hp, hD.order, e1]
    have e3 : q + 1 - 1 = q := by omega
    rw [e3]
    have hsize : b.knots.size = N + 1 + (q + 2) := by omega
    apply B_congr_knots
    intro k hk
    unfold shiftKnots
    rw [hD.kn (by omega)]
  rw [hcp, hB]
  ring

/-- Order 0 from the right: `rowSpec` is C02's `specRow`. -/
theorem rowSpec_zero_true {b : Basis K} (hv : b.Valid) (v : K) (j : ℕ) :
    b.rowSpec v true 0 j = b.specRow v j := by
  unfold Basis.rowSpec Basis.specRow
  by_cases hper : b.periodic < 0
  · have hper' : b.periodic = -1 := by have := hv.periodic_ge; omega
    rw [if_pos hper, if_pos hper', if_neg (by simp), dB_zero]
  · have hper' : ¬ b.periodic = -1 := by omega
    rw [if_neg hper, if_neg hper', periodicEff_true]
    exact Finset.sum_congr rfl (fun i _ => dB_zero _ _ _ _ _)

/-- What `get_derivative_spline(dir)` returns for a non-periodic direction, in the vocabulary of this file. -/
theorem getDerivativeSpline_nonperiodic {o o' : Obj K} {tol : K} {dir : ℕ} {b : Basis K}
    (hbd : o.basis dir = b) (hper : b.periodic = -1) (h : o.getDerivativeSpline tol dir = .ok o')
    (hsort : ∀ i, i + 1 < b.knots.size → b.kn i ≤ b.kn (i + 1)) :
    o'.rational = false ∧
    o'.cps = applyAxis (Obj.derivativeMatrix b (o.cps.shape.getD dir 0)) o.cps dir ∧
    ∃ nb, o'.bases = o.bases.set! dir nb ∧ IsDerivBasis b nb := by
  obtain ⟨-, -, hr', hcps, nb, hbases, hord, hkn, hperi⟩ :=
    getDerivativeSpline_ok_sorted o o' tol dir h (by rw [hbd]; exact hsort)
  rw [hbd] at hcps hord hkn hperi
  exact ⟨hr', hcps, nb, hbases, hord, hkn, by rw [hperi, hper]; decide⟩

/-- **Derivative spline of a curve at object level.**  Non-rational curve on a valid, non-periodic,
clamped basis of order ≥ 2.  If `get_derivative_spline(0)` returns `o'`, then for admissible parameters
`o'.evaluate(us)` and `o.derivative(us, d=1)` both succeed and have the same entries. -/
theorem Obj.derivSpline_curve {o o' : Obj K} {b : Basis K} (hb : o.bases = #[b]) (hv : b.Valid)
    (hper : b.periodic = -1) (hp : 2 ≤ b.order)
    (hc0 : b.kn (b.order - 1) = b.kn 0) (hcN : b.kn (b.nAll + b.order - 1) = b.kn b.nAll)
    {nc : ℕ} (hs : o.cps.shape = [b.numFunctions, nc]) (hr : o.rational = false) {tol : K}
    (htol : 0 < tol) (h : o.getDerivativeSpline tol 0 = .ok o') {us : List K}
    (hus : ∀ u ∈ us, b.Admissible tol u) (hne : us ≠ []) :
    ∃ rv rd, o'.evaluate tol [us] true = .ok rv ∧
      o.derivativeGeneric tol [us] [1] [true] true = .ok rd ∧
      ∀ i c, i < us.length → c < nc → rv.get (i * nc + c) = rd.get (i * nc + c) := by
  obtain ⟨hr', hcps, nb, hbases, hD⟩ := getDerivativeSpline_nonperiodic (Obj.basis_zero hb) hper h hv.sorted
  have hperlt : b.periodic < 0 := by rw [hper]; decide
  have hvnb := hD.valid hv hp
  have hb' : o'.bases = #[nb] := by rw [hbases, hb]; rfl
  have hn0 : o.cps.shape.getD 0 0 = b.numFunctions := by rw [hs]; rfl
  rw [hn0] at hcps
  have hsz := hv.size_ge
  have hnf : b.numFunctions = b.knots.size - b.order := by
    rw [Basis.numFunctions_of_nonperiodic hper]; rfl
  have hnbf := hD.numFunctions hper hp hv
  have hCsz := derivativeMatrix_size b b.numFunctions hperlt
  have hs' : o'.cps.shape = [nb.numFunctions, nc] := by
    rw [hcps, applyAxis_shape, hs, hCsz, hnbf]; rfl
  have hus' : ∀ u ∈ us, nb.Admissible tol u := fun u hu => hD.admissible hv hper hp (hus u hu)
  obtain ⟨rv, hrv, -, -, hgetv⟩ := Obj.evaluate1_spec_nonrational hb' hvnb hs' hr' htol hus'
    (fun _ => hne)
  obtain ⟨rd, hrd, hgetd⟩ := Obj.derivative1_nonrational hb hs hr tol us 1 true true
    (Obj.not_outOfDomain1 hb hv htol hus (fun _ => hne))
  refine ⟨rv, rd, hrv, hrd, ?_⟩
  intro i c hi hc
  have hu := hus _ (getD_mem_of_lt us hi 0)
  rw [hgetv i c hi hc, hgetd i c hi hc]
  have hL : ∑ j ∈ Finset.range b.numFunctions,
      b.drowVal tol (us.getD i 0) 1 true j * o.cps.get (j * nc + c) =
      ∑ j ∈ Finset.range b.numFunctions,
        b.rowSpec (us.getD i 0) true 1 j * (fun j => o.cps.get (j * nc + c)) j :=
    Finset.sum_congr rfl (fun j hj => by
      rw [Basis.drowVal_eq_rowSpec hv htol hu 1 true (Finset.mem_range.mp hj)])
  rw [hL, derivSpline_1d hD hv hper hp hc0 hcN]
  apply Finset.sum_congr rfl
  intro j hj
  rw [Finset.mem_range, hnbf] at hj
  rw [hcps, ← contractGrid_one, contractGrid1_get _ _ hs (by rw [hCsz]; exact hj) hc,
    derivativeMatrix_row_sum b b.numFunctions j hperlt (by omega) (fun i => o.cps.get (i * nc + c))]

theorem Obj.basis_two_zero {o : Obj K} {b1 b2 : Basis K} (hb : o.bases = #[b1, b2]) : o.basis 0 = b1 := by
  unfold Obj.basis; rw [hb]; rfl

theorem Obj.basis_two_one {o : Obj K} {b1 b2 : Basis K} (hb : o.bases = #[b1, b2]) : o.basis 1 = b2 := by
  unfold Obj.basis; rw [hb]; rfl

/-- **Derivative spline of a surface at object level, first direction.**  Non-rational surface; first basis
valid, non-periodic, clamped, order ≥ 2 (second basis any valid one).  `get_derivative_spline(0).evaluate(us, vs)`
and `derivative(us, vs, d=(1,0))` both succeed and agree entry by entry on the grid. -/
theorem Obj.derivSpline_surface_u {o o' : Obj K} {b1 b2 : Basis K} (hb : o.bases = #[b1, b2])
    (hv1 : b1.Valid) (hv2 : b2.Valid) (hper : b1.periodic = -1) (hp : 2 ≤ b1.order)
    (hc0 : b1.kn (b1.order - 1) = b1.kn 0) (hcN : b1.kn (b1.nAll + b1.order - 1) = b1.kn b1.nAll)
    {nc : ℕ} (hs : o.cps.shape = [b1.numFunctions, b2.numFunctions, nc]) (hr : o.rational = false)
    {tol : K} (htol : 0 < tol) (h : o.getDerivativeSpline tol 0 = .ok o') {us vs : List K}
    (hus : ∀ u ∈ us, b1.Admissible tol u) (hvs : ∀ v ∈ vs, b2.Admissible tol v)
    (hne1 : us ≠ []) (hne2 : b2.periodic < 0 → vs ≠ []) :
    ∃ rv rd, o'.evaluate tol [us, vs] true = .ok rv ∧
      o.derivativeGeneric tol [us, vs] [1, 0] [true, true] true = .ok rd ∧
      ∀ i1 i2 c, i1 < us.length → i2 < vs.length → c < nc →
        rv.get ((i1 * vs.length + i2) * nc + c) = rd.get ((i1 * vs.length + i2) * nc + c) := by
  obtain ⟨hr', hcps, nb, hbases, hD⟩ := getDerivativeSpline_nonperiodic (Obj.basis_two_zero hb) hper h hv1.sorted
  have hperlt : b1.periodic < 0 := by rw [hper]; decide
  have hvnb := hD.valid hv1 hp
  have hb' : o'.bases = #[nb, b2] := by rw [hbases, hb]; rfl
  have hn0 : o.cps.shape.getD 0 0 = b1.numFunctions := by rw [hs]; rfl
  rw [hn0] at hcps
  have hsz := hv1.size_ge
  have hnf : b1.numFunctions = b1.knots.size - b1.order := by
    rw [Basis.numFunctions_of_nonperiodic hper]; rfl
  have hnbf := hD.numFunctions hper hp hv1
  have hCsz := derivativeMatrix_size b1 b1.numFunctions hperlt
  have hs' : o'.cps.shape = [nb.numFunctions, b2.numFunctions, nc] := by
    rw [hcps, applyAxis_shape, hs, hCsz, hnbf]; rfl
  have hus' : ∀ u ∈ us, nb.Admissible tol u := fun u hu => hD.admissible hv1 hper hp (hus u hu)
  obtain ⟨rv, hrv, -, -, hgetv⟩ := Obj.evaluate2_spec_nonrational hb' hvnb hv2 hs' hr' htol hus' hvs
    (fun _ => hne1) hne2
  obtain ⟨rd, hrd, hgetd⟩ := Obj.derivative2_nonrational_grid hb hs hr tol us vs 1 0 true true
    (Obj.not_outOfDomain2 hb hv1 hv2 htol hus hvs (fun _ => hne1) hne2)
  refine ⟨rv, rd, hrv, hrd, ?_⟩
  intro i1 i2 c h1 h2 hc
  have hu := hus _ (getD_mem_of_lt us h1 0)
  have hvv := hvs _ (getD_mem_of_lt vs h2 0)
  rw [hgetv i1 i2 c h1 h2 hc, hgetd i1 i2 c h1 h2 hc]
  set u := us.getD i1 0
  set v := vs.getD i2 0
  -- control points of the derivative surface
  have hcp : ∀ j1 j2, j1 < nb.numFunctions → j2 < b2.numFunctions →
      o'.cps.get ((j1 * b2.numFunctions + j2) * nc + c) =
        Obj.dsCoef b1 j1 * (o.cps.get (((j1 + 1) * b2.numFunctions + j2) * nc + c)
          - o.cps.get ((j1 * b2.numFunctions + j2) * nc + c)) := by
    intro j1 j2 hj1 hj2
    rw [hnbf] at hj1
    rw [hcps, applyAxis_get _ _ 0 (by simp [hs]) (o := 1) (n := b1.numFunctions)
      (inn := b2.numFunctions * nc) (by rw [hs]; exact split3_surface_0 _ _ _)
      (a := 0) (r := j1) (i := j2 * nc + c) (by omega) (by rw [hCsz]; exact hj1)
      (by
        calc j2 * nc + c < j2 * nc + nc := by omega
          _ = (j2 + 1) * nc := by ring
          _ ≤ b2.numFunctions * nc := Nat.mul_le_mul_right _ hj2)
      (by ring)]
    have e : ∀ i, (0 * b1.numFunctions + i) * (b2.numFunctions * nc) + (j2 * nc + c)
        = (i * b2.numFunctions + j2) * nc + c := by intro i; ring
    simp only [e]
    exact derivativeMatrix_row_sum b1 b1.numFunctions j1 hperlt (by omega)
      (fun i => o.cps.get ((i * b2.numFunctions + j2) * nc + c))
  -- both sides as Σ_{j2} specRow₂(j2) · (1-D sum in j1)
  have hLHS : ∑ j1 ∈ Finset.range nb.numFunctions, ∑ j2 ∈ Finset.range b2.numFunctions,
      nb.specRow u j1 * b2.specRow v j2 * o'.cps.get ((j1 * b2.numFunctions + j2) * nc + c) =
      ∑ j2 ∈ Finset.range b2.numFunctions, b2.specRow v j2 *
        ∑ j1 ∈ Finset.range nb.numFunctions, nb.specRow u j1 *
          (Obj.dsCoef b1 j1 * ((fun j => o.cps.get ((j * b2.numFunctions + j2) * nc + c)) (j1 + 1)
            - (fun j => o.cps.get ((j * b2.numFunctions + j2) * nc + c)) j1)) := by
    rw [Finset.sum_comm]
    apply Finset.sum_congr rfl
    intro j2 hj2
    rw [Finset.mul_sum]
    apply Finset.sum_congr rfl
    intro j1 hj1
    rw [hcp j1 j2 (Finset.mem_range.mp hj1) (Finset.mem_range.mp hj2)]
    ring
  have hRHS : ∑ j1 ∈ Finset.range b1.numFunctions, ∑ j2 ∈ Finset.range b2.numFunctions,
      b1.drowVal tol u 1 true j1 * b2.drowVal tol v 0 true j2
        * o.cps.get ((j1 * b2.numFunctions + j2) * nc + c) =
      ∑ j2 ∈ Finset.range b2.numFunctions, b2.specRow v j2 *
        ∑ j1 ∈ Finset.range b1.numFunctions, b1.rowSpec u true 1 j1 *
          (fun j => o.cps.get ((j * b2.numFunctions + j2) * nc + c)) j1 := by
    rw [Finset.sum_comm]
    apply Finset.sum_congr rfl
    intro j2 hj2
    rw [Finset.mul_sum]
    apply Finset.sum_congr rfl
    intro j1 hj1
    rw [Basis.drowVal_eq_rowSpec hv1 htol hu 1 true (Finset.mem_range.mp hj1),
      Basis.drowVal_eq_rowSpec hv2 htol hvv 0 true (Finset.mem_range.mp hj2), rowSpec_zero_true hv2]
    ring
  rw [hLHS, hRHS]
  apply Finset.sum_congr rfl
  intro j2 _
  rw [derivSpline_1d hD hv1 hper hp hc0 hcN]

/-- **Derivative spline of a surface at object level, second direction** (`get_derivative_spline(1)` versus
`derivative(d=(0,1))`). -/
theorem Obj.derivSpline_surface_v {o o' : Obj K} {b1 b2 : Basis K} (hb : o.bases = #[b1, b2])
    (hv1 : b1.Valid) (hv2 : b2.Valid) (hper : b2.periodic = -1) (hp : 2 ≤ b2.order)
    (hc0 : b2.kn (b2.order - 1) = b2.kn 0) (hcN : b2.kn (b2.nAll + b2.order - 1) = b2.kn b2.nAll)
    {nc : ℕ} (hs : o.cps.shape = [b1.numFunctions, b2.numFunctions, nc]) (hr : o.rational = false)
    {tol : K} (htol : 0 < tol) (h : o.getDerivativeSpline tol 1 = .ok o') {us vs : List K}
    (hus : ∀ u ∈ us, b1.Admissible tol u) (hvs : ∀ v ∈ vs, b2.Admissible tol v)
    (hne1 : b1.periodic < 0 → us ≠ []) (hne2 : vs ≠ []) :
    ∃ rv rd, o'.evaluate tol [us, vs] true = .ok rv ∧
      o.derivativeGeneric tol [us, vs] [0, 1] [true, true] true = .ok rd ∧
      ∀ i1 i2 c, i1 < us.length → i2 < vs.length → c < nc →
        rv.get ((i1 * vs.length + i2) * nc + c) = rd.get ((i1 * vs.length + i2) * nc + c) := by
  obtain ⟨hr', hcps, nb, hbases, hD⟩ := getDerivativeSpline_nonperiodic (Obj.basis_two_one hb) hper h hv2.sorted
  have hperlt : b2.periodic < 0 := by rw [hper]; decide
  have hvnb := hD.valid hv2 hp
  have hb' : o'.bases = #[b1, nb] := by rw [hbases, hb]; rfl
  have hn0 : o.cps.shape.getD 1 0 = b2.numFunctions := by rw [hs]; rfl
  rw [hn0] at hcps
  have hsz := hv2.size_ge
  have hnf : b2.numFunctions = b2.knots.size - b2.order := by
    rw [Basis.numFunctions_of_nonperiodic hper]; rfl
  have hnbf := hD.numFunctions hper hp hv2
  have hCsz := derivativeMatrix_size b2 b2.numFunctions hperlt
  have hs' : o'.cps.shape = [b1.numFunctions, nb.numFunctions, nc] := by
    rw [hcps, applyAxis_shape, hs, hCsz, hnbf]; rfl
  have hvs' : ∀ v ∈ vs, nb.Admissible tol v := fun v hv => hD.admissible hv2 hper hp (hvs v hv)
  obtain ⟨rv, hrv, -, -, hgetv⟩ := Obj.evaluate2_spec_nonrational hb' hv1 hvnb hs' hr' htol hus hvs'
    hne1 (fun _ => hne2)
  obtain ⟨rd, hrd, hgetd⟩ := Obj.derivative2_nonrational_grid hb hs hr tol us vs 0 1 true true
    (Obj.not_outOfDomain2 hb hv1 hv2 htol hus hvs hne1 (fun _ => hne2))
  refine ⟨rv, rd, hrv, hrd, ?_⟩
  intro i1 i2 c h1 h2 hc
  have hu := hus _ (getD_mem_of_lt us h1 0)
  have hvv := hvs _ (getD_mem_of_lt vs h2 0)
  rw [hgetv i1 i2 c h1 h2 hc, hgetd i1 i2 c h1 h2 hc]
  set u := us.getD i1 0
  set v := vs.getD i2 0
  have hcp : ∀ j1 j2, j1 < b1.numFunctions → j2 < nb.numFunctions →
      o'.cps.get ((j1 * nb.numFunctions + j2) * nc + c) =
        Obj.dsCoef b2 j2 * (o.cps.get ((j1 * b2.numFunctions + (j2 + 1)) * nc + c)
          - o.cps.get ((j1 * b2.numFunctions + j2) * nc + c)) := by
    intro j1 j2 hj1 hj2
    rw [hnbf] at hj2
    rw [hcps, applyAxis_get _ _ 1 (by simp [hs]) (o := b1.numFunctions) (n := b2.numFunctions)
      (inn := nc) (by rw [hs]; exact split3_surface_1 _ _ _)
      (a := j1) (r := j2) (i := c) hj1 (by rw [hCsz]; exact hj2) hc (by rw [hCsz, hnbf])]
    exact derivativeMatrix_row_sum b2 b2.numFunctions j2 hperlt (by omega)
      (fun i => o.cps.get ((j1 * b2.numFunctions + i) * nc + c))
  apply Finset.sum_congr rfl
  intro j1 hj1
  have hL : ∑ j2 ∈ Finset.range nb.numFunctions,
      b1.specRow u j1 * nb.specRow v j2 * o'.cps.get ((j1 * nb.numFunctions + j2) * nc + c) =
      b1.specRow u j1 * ∑ j2 ∈ Finset.range nb.numFunctions, nb.specRow v j2 *
        (Obj.dsCoef b2 j2 * ((fun j => o.cps.get ((j1 * b2.numFunctions + j) * nc + c)) (j2 + 1)
          - (fun j => o.cps.get ((j1 * b2.numFunctions + j) * nc + c)) j2)) := by
    rw [Finset.mul_sum]
    apply Finset.sum_congr rfl
    intro j2 hj2
    rw [hcp j1 j2 (Finset.mem_range.mp hj1) (Finset.mem_range.mp hj2)]
    ring
  have hR : ∑ j2 ∈ Finset.range b2.numFunctions,
      b1.drowVal tol u 0 true j1 * b2.drowVal tol v 1 true j2
        * o.cps.get ((j1 * b2.numFunctions + j2) * nc + c) =
      b1.specRow u j1 * ∑ j2 ∈ Finset.range b2.numFunctions, b2.rowSpec v true 1 j2 *
        (fun j => o.cps.get ((j1 * b2.numFunctions + j) * nc + c)) j2 := by
    rw [Finset.mul_sum]
    apply Finset.sum_congr rfl
    intro j2 hj2
    rw [Basis.drowVal_eq_rowSpec hv1 htol hu 0 true (Finset.mem_range.mp hj1),
      Basis.drowVal_eq_rowSpec hv2 htol hvv 1 true (Finset.mem_range.mp hj2), rowSpec_zero_true hv1]
    ring
  rw [hL, hR, derivSpline_1d hD hv2 hper hp hc0 hcN]

end Splipy
