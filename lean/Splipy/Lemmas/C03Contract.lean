import Splipy.Lemmas.C03Rational

/-!
# C03 – entries of the control-net contraction (`evaluate(bases, cps, tensor=True)`)

`Tensor.applyAxis` entry formula and its 1-, 2- and 3-fold compositions `Obj.contractGrid`: the result
at grid point `(r₁,…,r_d)`, component `c`, is `Σ_{j₁…j_d} Π_k N_k[r_k][j_k] · P[j₁,…,j_d,c]`.
-/

namespace Splipy

variable {K : Type} [Field K]

theorem Tensor.build3_get (shape : List ℕ) (axis m : ℕ) (f : ℕ → ℕ → ℕ → K) (o n inn : ℕ)
    (hsplit : Tensor.split3 shape axis = (o, n, inn)) (a r i : ℕ) (ha : a < o) (hr : r < m) (hi : i < inn) :
    (Tensor.build3 shape axis m f).get ((a * m + r) * inn + i) = f a r i := by
  unfold Tensor.build3
  rw [hsplit]
  simp only
  have hlt : (a * m + r) * inn + i < o * m * inn := by
    have h1 : a * m + r + 1 ≤ o * m := by
      calc a * m + r + 1 ≤ a * m + m := by omega
        _ = (a + 1) * m := by ring
        _ ≤ o * m := Nat.mul_le_mul_right _ ha
    calc (a * m + r) * inn + i < (a * m + r) * inn + inn := by omega
      _ = (a * m + r + 1) * inn := by ring
      _ ≤ o * m * inn := Nat.mul_le_mul_right _ h1
  rw [Tensor.get_ofFn _ _ _ _ hlt]
  simp only
  have e1 : ((a * m + r) * inn + i) % inn = i := idx_mod _ _ _ hi
  have e2 : ((a * m + r) * inn + i) / inn = a * m + r := idx_div _ _ _ hi
  have e3 : ((a * m + r) * inn + i) / (inn * m) = a := by
    rw [← Nat.div_div_eq_div_mul, e2, idx_div _ _ _ hr]
  rw [e1, e2, e3, idx_mod _ _ _ hr]

theorem Tensor.applyAxis_shape (M : Mat K) (t : Tensor K) (axis : ℕ) :
    (Tensor.applyAxis M t axis).shape = t.shape.set axis M.size := by
  unfold Tensor.applyAxis Tensor.build3
  rfl

/-- Entry of `np.tensordot(M, t, axes=(1, axis))` (after `transpose_fix`). -/
theorem Tensor.applyAxis_get (M : Mat K) (t : Tensor K) (axis : ℕ) (o n inn : ℕ)
    (hsplit : Tensor.split3 t.shape axis = (o, n, inn)) (a r i : ℕ) (ha : a < o) (hr : r < M.size)
    (hi : i < inn) :
    (Tensor.applyAxis M t axis).get ((a * M.size + r) * inn + i) =
      (Finset.range n).sum (fun j => (M.getD r #[]).getD j 0 * t.get ((a * n + j) * inn + i)) := by
  unfold Tensor.applyAxis
  rw [hsplit]
  simp only
  rw [Tensor.build3_get _ _ _ _ o n inn hsplit a r i ha hr hi, foldl_add_eq_sum]
  apply Finset.sum_congr rfl
  intro j _
  unfold Tensor.at3
  rw [hsplit]

theorem split3_curve (n nc : ℕ) : Tensor.split3 [n, nc] 0 = (1, n, nc) := by
  simp [Tensor.split3, Tensor.prod]

theorem split3_surface_0 (n1 n2 nc : ℕ) : Tensor.split3 [n1, n2, nc] 0 = (1, n1, n2 * nc) := by
  simp [Tensor.split3, Tensor.prod]

theorem split3_surface_1 (n1 n2 nc : ℕ) : Tensor.split3 [n1, n2, nc] 1 = (n1, n2, nc) := by
  simp [Tensor.split3, Tensor.prod]

theorem split3_volume_0 (n1 n2 n3 nc : ℕ) : Tensor.split3 [n1, n2, n3, nc] 0 = (1, n1, n2 * n3 * nc) := by
  simp [Tensor.split3, Tensor.prod]

theorem split3_volume_1 (n1 n2 n3 nc : ℕ) : Tensor.split3 [n1, n2, n3, nc] 1 = (n1, n2, n3 * nc) := by
  simp [Tensor.split3, Tensor.prod]

theorem split3_volume_2 (n1 n2 n3 nc : ℕ) : Tensor.split3 [n1, n2, n3, nc] 2 = (n1 * n2, n3, nc) := by
  simp [Tensor.split3, Tensor.prod]

namespace Obj

theorem contractGrid_one (N : Mat K) (cps : Tensor K) :
    contractGrid [N] cps = Tensor.applyAxis N cps 0 := rfl

theorem contractGrid_two (N1 N2 : Mat K) (cps : Tensor K) :
    contractGrid [N1, N2] cps = Tensor.applyAxis N1 (Tensor.applyAxis N2 cps 1) 0 := rfl

theorem contractGrid_three (N1 N2 N3 : Mat K) (cps : Tensor K) :
    contractGrid [N1, N2, N3] cps =
      Tensor.applyAxis N1 (Tensor.applyAxis N2 (Tensor.applyAxis N3 cps 2) 1) 0 := rfl

/-- Curve: `(N @ P)[r, c] = Σ_j N[r][j] P[j, c]`. -/
theorem contractGrid_curve_get (N : Mat K) (cps : Tensor K) (n nc : ℕ) (hs : cps.shape = [n, nc])
    (r c : ℕ) (hr : r < N.size) (hc : c < nc) :
    (contractGrid [N] cps).get (r * nc + c) =
      (Finset.range n).sum (fun j => (N.getD r #[]).getD j 0 * cps.get (j * nc + c)) := by
  rw [contractGrid_one]
  have h := Tensor.applyAxis_get N cps 0 1 n nc (by rw [hs]; exact split3_curve n nc) 0 r c
    (by omega) hr hc
  simpa using h

/-- Surface: `Σ_{j₁ j₂} N₁[r₁][j₁] N₂[r₂][j₂] P[j₁, j₂, c]`. -/
theorem contractGrid_surface_get (N1 N2 : Mat K) (cps : Tensor K) (n1 n2 nc : ℕ)
    (hs : cps.shape = [n1, n2, nc]) (r1 r2 c : ℕ) (hr1 : r1 < N1.size) (hr2 : r2 < N2.size) (hc : c < nc) :
    (contractGrid [N1, N2] cps).get ((r1 * N2.size + r2) * nc + c) =
      (Finset.range n1).sum (fun j1 => (N1.getD r1 #[]).getD j1 0 *
        (Finset.range n2).sum (fun j2 => (N2.getD r2 #[]).getD j2 0 * cps.get ((j1 * n2 + j2) * nc + c))) := by
  rw [contractGrid_two]
  have hs2 : (Tensor.applyAxis N2 cps 1).shape = [n1, N2.size, nc] := by
    rw [Tensor.applyAxis_shape, hs]; rfl
  have hi : r2 * nc + c < N2.size * nc := by
    calc r2 * nc + c < r2 * nc + nc := by omega
      _ = (r2 + 1) * nc := by ring
      _ ≤ _ := Nat.mul_le_mul_right _ hr2
  have h := Tensor.applyAxis_get N1 (Tensor.applyAxis N2 cps 1) 0 1 n1 (N2.size * nc)
    (by rw [hs2]; exact split3_surface_0 n1 N2.size nc) 0 r1 (r2 * nc + c) (by omega) hr1 hi
  have e : (r1 * N2.size + r2) * nc + c = (0 * N1.size + r1) * (N2.size * nc) + (r2 * nc + c) := by ring
  rw [e, h]
  apply Finset.sum_congr rfl
  intro j1 hj1
  rw [Finset.mem_range] at hj1
  congr 1
  have h2 := Tensor.applyAxis_get N2 cps 1 n1 n2 nc (by rw [hs]; exact split3_surface_1 n1 n2 nc) j1 r2 c
    hj1 hr2 hc
  have e2 : (0 * n1 + j1) * (N2.size * nc) + (r2 * nc + c) = (j1 * N2.size + r2) * nc + c := by ring
  rw [e2, h2]

/-- Volume: `Σ_{j₁ j₂ j₃} N₁[r₁][j₁] N₂[r₂][j₂] N₃[r₃][j₃] P[j₁, j₂, j₃, c]`. -/
theorem contractGrid_volume_get (N1 N2 N3 : Mat K) (cps : Tensor K) (n1 n2 n3 nc : ℕ)
    (hs : cps.shape = [n1, n2, n3, nc]) (r1 r2 r3 c : ℕ) (hr1 : r1 < N1.size) (hr2 : r2 < N2.size)
    (hr3 : r3 < N3.size) (hc : c < nc) :
    (contractGrid [N1, N2, N3] cps).get (((r1 * N2.size + r2) * N3.size + r3) * nc + c) =
      (Finset.range n1).sum (fun j1 => (N1.getD r1 #[]).getD j1 0 *
        (Finset.range n2).sum (fun j2 => (N2.getD r2 #[]).getD j2 0 *
          (Finset.range n3).sum (fun j3 => (N3.getD r3 #[]).getD j3 0 *
            cps.get (((j1 * n2 + j2) * n3 + j3) * nc + c)))) := by
  rw [contractGrid_three]
  have hs3 : (Tensor.applyAxis N3 cps 2).shape = [n1, n2, N3.size, nc] := by
    rw [Tensor.applyAxis_shape, hs]; rfl
  have hs2 : (Tensor.applyAxis N2 (Tensor.applyAxis N3 cps 2) 1).shape = [n1, N2.size, N3.size, nc] := by
    rw [Tensor.applyAxis_shape, hs3]; rfl
  have hi3 : r3 * nc + c < N3.size * nc := by
    calc r3 * nc + c < r3 * nc + nc := by omega
      _ = (r3 + 1) * nc := by ring
      _ ≤ _ := Nat.mul_le_mul_right _ hr3
  have hi2 : r2 * (N3.size * nc) + (r3 * nc + c) < N2.size * N3.size * nc := by
    calc r2 * (N3.size * nc) + (r3 * nc + c) < r2 * (N3.size * nc) + N3.size * nc := by omega
      _ = (r2 + 1) * (N3.size * nc) := by ring
      _ ≤ N2.size * (N3.size * nc) := Nat.mul_le_mul_right _ hr2
      _ = N2.size * N3.size * nc := by ring
  have h := Tensor.applyAxis_get N1 (Tensor.applyAxis N2 (Tensor.applyAxis N3 cps 2) 1) 0 1 n1
    (N2.size * N3.size * nc) (by rw [hs2]; exact split3_volume_0 n1 N2.size N3.size nc) 0 r1
    (r2 * (N3.size * nc) + (r3 * nc + c)) (by omega) hr1 hi2
  have e : ((r1 * N2.size + r2) * N3.size + r3) * nc + c =
      (0 * N1.size + r1) * (N2.size * N3.size * nc) + (r2 * (N3.size * nc) + (r3 * nc + c)) := by ring
  rw [e, h]
  apply Finset.sum_congr rfl
  intro j1 hj1
  rw [Finset.mem_range] at hj1
  congr 1
  have h2 := Tensor.applyAxis_get N2 (Tensor.applyAxis N3 cps 2) 1 n1 n2 (N3.size * nc)
    (by rw [hs3]; exact split3_volume_1 n1 n2 N3.size nc) j1 r2 (r3 * nc + c) hj1 hr2 hi3
  have e2 : (0 * n1 + j1) * (N2.size * N3.size * nc) + (r2 * (N3.size * nc) + (r3 * nc + c)) =
      (j1 * N2.size + r2) * (N3.size * nc) + (r3 * nc + c) := by ring
  rw [e2, h2]
  apply Finset.sum_congr rfl
  intro j2 hj2
  rw [Finset.mem_range] at hj2
  congr 1
  have hj12 : j1 * n2 + j2 < n1 * n2 := by
    calc j1 * n2 + j2 < j1 * n2 + n2 := by omega
      _ = (j1 + 1) * n2 := by ring
      _ ≤ _ := Nat.mul_le_mul_right _ hj1
  have h3 := Tensor.applyAxis_get N3 cps 2 (n1 * n2) n3 nc (by rw [hs]; exact split3_volume_2 n1 n2 n3 nc)
    (j1 * n2 + j2) r3 c hj12 hr3 hc
  have e3 : (j1 * n2 + j2) * (N3.size * nc) + (r3 * nc + c) = ((j1 * n2 + j2) * N3.size + r3) * nc + c := by ring
  rw [e3, h3]

end Obj

end Splipy
