import Splipy.Model.WellFormed
import Splipy.Lemmas.C06Tensor
import Splipy.Lemmas.C04Tensor
import Mathlib.Tactic.Linarith

/-!
# C10 helper lemmas, part 1: reading `Obj.WellFormed`

* accessors (`basis`, `counts`, `ncomp`, `dimension`) of a well-formed object;
* the weight condition in *flat* form (`WeightsPos`: every flat position congruent to `dimension`
  modulo `ncomp` holds a positive number) and its equivalence with the per-point form of the
  structure — the flat form is what the tensor primitives (`build3`, `mapLast`, `swapAxes`) speak;
* generic constructors of well-formedness for the three shapes every operation has:
  one basis replaced (`WellFormed.set_basis`), one axis rebuilt with `Tensor.build3`
  (`WellFormed.build3`), the component axis mapped (`Lemmas/C10Affine.lean`).
-/

set_option linter.unusedSectionVars false

namespace Splipy

variable {K : Type} [Field K] [LinearOrder K]

namespace Obj

/-! ## accessors -/

theorem basis_eq_getElem (o : Obj K) (d : ℕ) (h : d < o.bases.size) : o.basis d = o.bases[d] := by
  simp [Obj.basis, Array.getD, h]

theorem counts_length (o : Obj K) : o.counts.length = o.bases.size := by
  simp [Obj.counts]

theorem counts_getD (o : Obj K) (d x : ℕ) (h : d < o.bases.size) :
    o.counts.getD d x = (o.basis d).numFunctions := by
  rw [basis_eq_getElem o d h]
  simp [Obj.counts, List.getD, h]

theorem counts_getElem? (o : Obj K) (d : ℕ) (h : d < o.bases.size) :
    o.counts[d]? = some (o.basis d).numFunctions := by
  rw [basis_eq_getElem o d h]
  simp [Obj.counts, h]

/-- Replacing one basis changes one entry of the counts. -/
theorem counts_set (bases : Array (Basis K)) (cps cps' : Tensor K) (r r' : Bool) (d : ℕ) (b' : Basis K) :
    ({ bases := bases.set! d b', cps := cps', rational := r' } : Obj K).counts
      = ({ bases := bases, cps := cps, rational := r } : Obj K).counts.set d b'.numFunctions := by
  simp only [Obj.counts, Array.set!_eq_setIfInBounds, Array.toList_setIfInBounds, List.map_set]

theorem getLastD_append_singleton (l : List ℕ) (x y : ℕ) : (l ++ [x]).getLastD y = x := by
  simp

variable {o : Obj K}

/-- `ncomp` and `dimension` only look at the last entry of the shape and at `rational`. -/
theorem ncomp_of_shape {l : List ℕ} {x : ℕ} (h : o.cps.shape = l ++ [x]) : o.ncomp = x := by
  unfold Obj.ncomp; rw [h]; simp

theorem pardim_of_shape {l : List ℕ} {x : ℕ} (h : o.cps.shape = l ++ [x]) : o.pardim = l.length := by
  unfold Obj.pardim; rw [h]; simp

namespace WellFormed

variable (h : o.WellFormed)
include h

theorem ncomp_eq : o.ncomp = o.ncompSpec := ncomp_of_shape h.shape

theorem pardim_eq : o.pardim = o.bases.size := h.bases_size.symm

theorem shape_length : o.cps.shape.length = o.bases.size + 1 := by
  rw [h.shape]; simp [counts_length]

theorem ncomp_pos : 0 < o.ncomp := by
  rw [h.ncomp_eq]; unfold Obj.ncompSpec; have := h.dim_pos; omega

/-- rational ⇒ `ncomp = dimension + 1`. -/
theorem ncomp_rat (hr : o.rational = true) : o.ncomp = o.dimension + 1 := by
  have := h.ncomp_eq; unfold Obj.ncompSpec at this; rw [this, if_pos hr]

theorem ncomp_nonrat (hr : o.rational = false) : o.ncomp = o.dimension := by
  have := h.ncomp_eq; unfold Obj.ncompSpec at this; rw [this, hr]; simp

theorem shape_eq' : o.cps.shape = o.counts ++ [o.ncomp] := by rw [h.ncomp_eq]; exact h.shape

theorem last_eq (y : ℕ) : o.cps.shape.getLastD y = o.ncomp := by
  rw [h.shape_eq']; simp

theorem shape_getD (d x : ℕ) (hd : d < o.bases.size) :
    o.cps.shape.getD d x = (o.basis d).numFunctions := by
  rw [h.shape, List.getD_append _ _ _ _ (by rw [counts_length]; exact hd), counts_getD o d x hd]

theorem prod_shape : Tensor.prod o.cps.shape = o.len * o.ncomp := by
  rw [h.shape_eq', C06.prod_append]
  unfold Obj.len
  simp [Tensor.prod]

theorem size_eq : o.cps.data.size = o.len * o.ncomp := by rw [h.data_size, h.prod_shape]

theorem valid_basis (d : ℕ) (hd : d < o.bases.size) : (o.basis d).Valid := h.valid d hd

end WellFormed

/-! ## the weight condition in flat form -/

/-- Every flat position that holds a weight (`position ≡ dimension (mod ncomp)`) holds a positive
    number. -/
def WeightsPos (o : Obj K) : Prop :=
  o.rational = true → ∀ f, f < o.cps.data.size → f % o.ncomp = o.dimension → 0 < o.cps.get f

theorem WellFormed.weightsPos (h : o.WellFormed) : o.WeightsPos := by
  intro hr f hf hm
  have hnc := h.ncomp_pos
  have hsz := h.size_eq
  have key := h.weights hr (f / o.ncomp) (by
    rw [hsz] at hf
    exact Nat.div_lt_of_lt_mul (by rwa [Nat.mul_comm] at hf))
  unfold Obj.wt at key
  have e : f / o.ncomp * o.ncomp + o.dimension = f := by
    rw [← hm, Nat.mul_comm]; exact Nat.div_add_mod f o.ncomp
  rwa [e] at key

/-- Build `WellFormed` from the flat weight condition. -/
theorem WellFormed.of_weightsPos (h1 : o.bases.size = o.pardim)
    (h2 : o.cps.shape = o.counts ++ [o.ncompSpec]) (h3 : o.cps.data.size = Tensor.prod o.cps.shape)
    (h4 : 1 ≤ o.dimension) (h5 : ∀ d, d < o.bases.size → (o.basis d).Valid) (h6 : o.WeightsPos) :
    o.WellFormed where
  bases_size := h1
  shape := h2
  data_size := h3
  dim_pos := h4
  valid := h5
  weights := by
    intro hr pI hp
    have hnc : o.ncomp = o.dimension + 1 := by
      have := ncomp_of_shape h2
      rw [this]; unfold Obj.ncompSpec; rw [if_pos hr]
    have hsz : o.cps.data.size = o.len * o.ncomp := by
      rw [h3, h2, C06.prod_append, ← ncomp_of_shape h2]
      unfold Obj.len; simp [Tensor.prod]
    unfold Obj.wt
    apply h6 hr
    · rw [hsz]
      have : (pI + 1) * o.ncomp ≤ o.len * o.ncomp := Nat.mul_le_mul_right _ hp
      rw [hnc] at this ⊢
      nlinarith
    · rw [Nat.add_comm, Nat.add_mul_mod_self_right, Nat.mod_eq_of_lt (by omega)]

/-! ## one basis replaced -/

/-- Replacing the basis of one direction by a valid basis with the same number of functions
    (control points untouched): `reparam`, and the basis half of `reverse`. -/
theorem WellFormed.set_basis (h : o.WellFormed) (d : ℕ) (b' : Basis K) (hv : b'.Valid)
    (hn : d < o.bases.size → b'.numFunctions = (o.basis d).numFunctions) :
    ({ o with bases := o.bases.set! d b' } : Obj K).WellFormed := by
  have hcounts : ({ o with bases := o.bases.set! d b' } : Obj K).counts = o.counts := by
    rw [show o = ({ bases := o.bases, cps := o.cps, rational := o.rational } : Obj K) from rfl]
    rw [counts_set o.bases o.cps o.cps o.rational o.rational d b']
    by_cases hd : d < o.bases.size
    · rw [hn hd]
      apply List.ext_getElem?
      intro i
      rw [List.getElem?_set]
      split_ifs with h1 h2
      · subst h1; exact (counts_getElem? o d hd).symm
      · subst h1
        exact absurd (show d < o.counts.length by rw [counts_length]; exact hd) h2
      · rfl
    · exact List.set_eq_of_length_le (by
        show o.counts.length ≤ d
        rw [counts_length]; omega)
  refine ⟨?_, ?_, h.data_size, h.dim_pos, ?_, ?_⟩
  · show (o.bases.set! d b').size = o.pardim
    simp [h.bases_size]
  · show o.cps.shape = _ ++ [o.ncompSpec]
    rw [hcounts]; exact h.shape
  · intro k hk
    have hk' : k < o.bases.size := by simpa using hk
    by_cases hkd : k = d
    · subst hkd
      rw [show ({ o with bases := o.bases.set! k b' } : Obj K).basis k = b' from by
        simp [Obj.basis, Array.getD_eq_getD_getElem?, hk']]
      exact hv
    · rw [show ({ o with bases := o.bases.set! d b' } : Obj K).basis k = o.basis k from by
        simp [Obj.basis, Array.getD_eq_getD_getElem?, Ne.symm hkd]]
      exact h.valid k hk'
  · intro hr pI hp
    have : ({ o with bases := o.bases.set! d b' } : Obj K).len = o.len := by
      unfold Obj.len; rw [hcounts]
    rw [this] at hp
    exact h.weights hr pI hp

end Obj

end Splipy
