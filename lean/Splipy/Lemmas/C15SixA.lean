import Splipy.Lemmas.C15SixStd

/-!
# Building blocks of the six-face `edge_surfaces`: `+=`/`-=` on volumes, the three ruled volumes, the
corner volume, the three edge volumes — each as a pattern volume (`StdVol`)
-/

set_option linter.unusedSectionVars false

namespace Splipy
namespace C15

open C06 C12 Obj Basis Finset

variable {K : Type} [Field K] [LinearOrder K] [IsStrictOrderedRing K] [FloorRing K]

/-- **`x.controlpoints += y.controlpoints` / `-=`** on two well-formed objects with the same bases and the
    same number of components: succeeds; the result (the bases of `x`, the new array) is well formed and its
    evaluated map is the sum / difference of the two maps. -/
theorem cpsAdd_obj {m : ℕ} (x y : Obj K) (hx : C06.WF x m) (hy : C06.WF y m)
    (hb : ∀ d : Fin m, y.basis d = x.basis d) (hn : y.ncomp = x.ncomp) (sub : Bool) :
    ∃ c : Tensor K, Obj.cpsAdd x.cps y.cps sub = .ok c ∧ c.shape = x.cps.shape
      ∧ C06.WF ({ x with cps := c } : Obj K) m ∧ ({ x with cps := c } : Obj K).ncomp = x.ncomp
      ∧ ∀ comp, comp < x.ncomp → ∀ (s : Fin m → Side) (u : Fin m → K),
          (toTP ({ x with cps := c } : Obj K) m comp).eval s u
            = if sub then (toTP x m comp).eval s u - (toTP y m comp).eval s u
              else (toTP x m comp).eval s u + (toTP y m comp).eval s u := by
  have hsh : x.cps.shape = y.cps.shape := by
    rw [hx.shape, hy.shape, hn]
    congr 1
    funext d
    rw [hb d]
  obtain ⟨c, hc, cs, cg⟩ := cpsAdd_ok x.cps y.cps sub hsh
  have hnc : ({ x with cps := c } : Obj K).ncomp = x.ncomp := by
    unfold Obj.ncomp; show c.shape.getLastD 0 = _; rw [cs]
  have hwf : C06.WF ({ x with cps := c } : Obj K) m := by
    refine ⟨hx.size, fun d => hx.valid d, ?_⟩
    show c.shape = midx (fun d : Fin m => (x.basis d).numFunctions) ({ x with cps := c } : Obj K).ncomp
    rw [hnc, cs, hx.shape]
  refine ⟨c, hc, cs, hwf, hnc, fun comp hcomp s u => ?_⟩
  simp only [TP.eval_eq]
  have e1 : ∀ (w : Obj K), (∀ d : Fin m, w.basis d = x.basis d) →
      ∑ I ∈ Fintype.piFinset (fun d => range ((toTP w m comp).nAll d)),
        (toTP w m comp).c (fun d => I d % (toTP w m comp).n d)
          * ∏ d, B (s d) ((toTP w m comp).τ d) ((toTP w m comp).q d) (I d) (u d)
      = ∑ I ∈ Fintype.piFinset (fun d : Fin m => range (x.basis d).nAll),
        getIdx w.cps (midx (fun d => I d % (x.basis d).numFunctions) comp)
          * ∏ d, B (s d) (x.basis d).kn ((x.basis d).order - 1) (I d) (u d) := by
    intro w hw
    simp only [toTP, hw]
  rw [e1 ({ x with cps := c } : Obj K) (fun _ => rfl), e1 x (fun _ => rfl), e1 y hb]
  have key : ∀ I : Fin m → ℕ, getIdx c (midx (fun d => I d % (x.basis d).numFunctions) comp)
      = if sub then getIdx x.cps (midx (fun d => I d % (x.basis d).numFunctions) comp)
            - getIdx y.cps (midx (fun d => I d % (x.basis d).numFunctions) comp)
        else getIdx x.cps (midx (fun d => I d % (x.basis d).numFunctions) comp)
            + getIdx y.cps (midx (fun d => I d % (x.basis d).numFunctions) comp) := by
    intro I
    have hlt : flatIdx (midx (fun d : Fin m => (x.basis d).numFunctions) x.ncomp)
        (midx (fun d => I d % (x.basis d).numFunctions) comp)
        < Tensor.prod (midx (fun d : Fin m => (x.basis d).numFunctions) x.ncomp) :=
      flatIdx_midx_lt _ comp x.ncomp _ (fun d => Nat.mod_lt _ (valid_numFunctions_pos (hx.valid d))) hcomp
    unfold getIdx
    rw [cs, ← hsh, hx.shape, cg _ (by rw [hx.shape]; exact hlt)]
  cases sub
  · simp only [Bool.false_eq_true, if_false] at key ⊢
    rw [← Finset.sum_add_distrib]
    apply Finset.sum_congr rfl
    intro I _
    show getIdx c _ * _ = _
    rw [key I]; ring
  · simp only [if_true] at key ⊢
    rw [← Finset.sum_sub_distrib]
    apply Finset.sum_congr rfl
    intro I _
    show getIdx c _ * _ = _
    rw [key I]; ring

theorem UnitVol.with_cps {x : Obj K} {p : Fin 3 → ℕ} {U : Fin 3 → List K} {M : Fin 3 → List ℕ} {rat : Bool}
    {nc : ℕ} (h : UnitVol x p U M rat nc) (c : Tensor K) (hw : C06.WF ({ x with cps := c } : Obj K) 3)
    (hn : ({ x with cps := c } : Obj K).ncomp = x.ncomp) : UnitVol ({ x with cps := c } : Obj K) p U M rat nc :=
  ⟨hw, fun d => h.basis d, h.rational, hn.trans h.ncomp⟩

theorem StdVol.of_eq {s : Obj K} {p : Fin 3 → ℕ} {U : Fin 3 → List K} {M : Fin 3 → List ℕ} {f g : Fin 3 → Bool}
    {rat : Bool} {nc : ℕ} (h : StdVol s p U M f rat nc) (hfg : ∀ d, f d = g d) : StdVol s p U M g rat nc := by
  have : f = g := funext hfg
  rw [← this]; exact h

/-- A well-formed volume whose bases are full / linear according to `f`. -/
theorem stdVol_of {s : Obj K} (p : Fin 3 → ℕ) (U : Fin 3 → List K) (M : Fin 3 → List ℕ) (f : Fin 3 → Bool)
    (hw : C06.WF s 3) (hb : ∀ d : Fin 3, s.basis d = if f d then unitBasis (p d) (U d) (M d) else linearBasis)
    {rat : Bool} {nc : ℕ} (hr : s.rational = rat) (hn : s.ncomp = nc) : StdVol s p U M f rat nc :=
  ⟨hw, fun d => by rw [hb d, stdBasis_eq], hr, hn⟩

theorem StdVol.basis_eq {s : Obj K} {p : Fin 3 → ℕ} {U : Fin 3 → List K} {M : Fin 3 → List ℕ} {f : Fin 3 → Bool}
    {rat : Bool} {nc : ℕ} (h : StdVol s p U M f rat nc) (d : Fin 3) :
    s.basis d = if f d then unitBasis (p d) (U d) (M d) else linearBasis := by
  rw [h.basis d, stdBasis_eq]

/-- **Two surfaces of the family on the same bases → ruled volume.** -/
theorem ruled_unitSurf (tol : K) (htol : 0 < tol) {pa pb : ℕ} {Ua Ub : List K} {Ma Mb : List ℕ}
    (ka : UnitKnots tol pa Ua Ma) (kb : UnitKnots tol pb Ub Mb) {rat : Bool} {nc : ℕ} (s1 s2 : Obj K)
    (h1 : UnitSurf s1 pa pb Ua Ub Ma Mb rat nc) (h2 : UnitSurf s2 pa pb Ua Ub Ma Mb rat nc) :
    ∃ r : Obj K × Obj K, Obj.ruled tol false s1 s2 = .ok (ruledObj r.1 r.2)
      ∧ UnitSurf r.1 pa pb Ua Ub Ma Mb rat nc ∧ UnitSurf r.2 pa pb Ua Ub Ma Mb rat nc
      ∧ SameMap 2 s1 r.1 ∧ SameMap 2 s2 r.2 := by
  have na := ka.nice htol
  have nb := kb.nice htol
  obtain ⟨r, hr, R1, R2, m1, m2⟩ := identical_unitSurf tol htol pa pb pa pb Ua Ub Ma Mb Ma Mb rat nc s1 s2 h1 h2
    ⟨ka.hp, kb.hp, ka.hp, kb.hp⟩ ⟨ka.hlen, kb.hlen, ka.hlen, kb.hlen⟩
    ⟨fun x hx => (ka.hm x hx).2, fun x hx => (kb.hm x hx).2, fun x hx => (ka.hm x hx).2, fun x hx => (kb.hm x hx).2⟩
    (by rw [max_self]; exact ka.hgap) (by rw [max_self]; exact kb.hgap)
    ⟨by rw [h1.b0]; exact na, by rw [h1.b1]; exact nb, by rw [h2.b0]; exact na, by rw [h2.b1]; exact nb,
      by rw [max_self, unionMult_self]; exact na⟩
  rw [max_self, max_self, unionMult_self, unionMult_self] at R1 R2
  have hsh : r.2.cps.shape = r.1.cps.shape := by rw [R1.shape, R2.shape]
  refine ⟨r, ?_, R1, R2, m1, m2⟩
  unfold Obj.ruled
  simp only [hr]
  rw [if_neg (by simpa using hsh)]
  rfl

end C15
end Splipy
