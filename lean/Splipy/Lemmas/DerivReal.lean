import Splipy.Lemmas.Deriv
import Mathlib.Analysis.Calculus.Deriv.Polynomial
import Mathlib.Topology.Order.OrderClosed

/-!
# L3 grounded in analysis (`K = ℝ`)

The spec's recursively defined `dB · τ q i (d+1)` is the one-sided derivative (in the sense of
Mathlib's `HasDerivWithinAt`) of `dB · τ q i d`, on every non-empty knot span:
from the right on `[τ μ, τ (μ+1))` for `Side.right`, from the left on `(τ μ, τ (μ+1)]`
for `Side.left`.  In the interior of a span both give the ordinary two-sided derivative.
-/

namespace Splipy

open Polynomial

theorem hasDerivWithinAt_dB_right (τ : ℕ → ℝ) (hτ : Monotone τ) (μ q i d : ℕ) (t : ℝ)
    (h1 : τ μ ≤ t) (h2 : t < τ (μ+1)) :
    HasDerivWithinAt (fun x => dB .right τ q i d x) (dB .right τ q i (d+1) t) (Set.Ici t) t := by
  have hp := ((derivative^[d]) (Bpoly τ μ q i)).hasDerivWithinAt t (Set.Ici t)
  rw [dB_succ_eq_eval_derivative .right τ hτ μ q i d t ⟨h1, h2⟩]
  refine hp.congr_of_eventuallyEq ?_ ?_
  · filter_upwards [Ico_mem_nhdsGE h2] with x hx
    exact dB_eq_eval_iterate_derivative .right τ hτ μ q i d x ⟨le_trans h1 hx.1, hx.2⟩
  · exact dB_eq_eval_iterate_derivative .right τ hτ μ q i d t ⟨h1, h2⟩

theorem hasDerivWithinAt_dB_left (τ : ℕ → ℝ) (hτ : Monotone τ) (μ q i d : ℕ) (t : ℝ)
    (h1 : τ μ < t) (h2 : t ≤ τ (μ+1)) :
    HasDerivWithinAt (fun x => dB .left τ q i d x) (dB .left τ q i (d+1) t) (Set.Iic t) t := by
  have hp := ((derivative^[d]) (Bpoly τ μ q i)).hasDerivWithinAt t (Set.Iic t)
  rw [dB_succ_eq_eval_derivative .left τ hτ μ q i d t ⟨h1, h2⟩]
  refine hp.congr_of_eventuallyEq ?_ ?_
  · filter_upwards [Ioc_mem_nhdsLE h1] with x hx
    exact dB_eq_eval_iterate_derivative .left τ hτ μ q i d x ⟨hx.1, le_trans hx.2 h2⟩
  · exact dB_eq_eval_iterate_derivative .left τ hτ μ q i d t ⟨h1, h2⟩

/-- In the open interior of a span the (side-`s`) spec derivative is the two-sided derivative. -/
theorem hasDerivAt_dB (s : Side) (τ : ℕ → ℝ) (hτ : Monotone τ) (μ q i d : ℕ) (t : ℝ)
    (h1 : τ μ < t) (h2 : t < τ (μ+1)) :
    HasDerivAt (fun x => dB s τ q i d x) (dB s τ q i (d+1) t) t := by
  have hm : ∀ x, τ μ < x → x < τ (μ+1) → s.mem (τ μ) (τ (μ+1)) x := by
    intro x hx1 hx2
    cases s
    · exact ⟨hx1.le, hx2⟩
    · exact ⟨hx1, hx2.le⟩
  have hp := ((derivative^[d]) (Bpoly τ μ q i)).hasDerivAt t
  rw [dB_succ_eq_eval_derivative s τ hτ μ q i d t (hm t h1 h2)]
  refine hp.congr_of_eventuallyEq ?_
  filter_upwards [Ioo_mem_nhds h1 h2] with x hx
  exact dB_eq_eval_iterate_derivative s τ hτ μ q i d x (hm x hx.1 hx.2)

end Splipy
