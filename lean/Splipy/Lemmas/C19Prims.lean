import Splipy.Model.IOPrims
import Splipy.Lemmas.C19G2

/-! Primitive records: what is written field by field is what reaches the factory. -/

namespace Splipy.FileIO

variable {K : Type}

/-- A record of one of the nine modelled primitive kinds, field by field in file order. -/
inductive PrimRecord (K : Type) where
  | line (dim : Int) (start dir : List K) (finite : Bool) (param : List K) (rev : Bool)
  | circle (dim : Int) (r : K) (center normal xaxis param : List K) (rev : Bool)
  | ellipse (dim : Int) (r1 r2 : K) (center normal xaxis param : List K) (rev : Bool)
  /-- `paramV = none`: the `finite` flag is `0` and there is no `param_v` line -/
  | cylinder (dim : Int) (r : K) (center zaxis xaxis paramU : List K) (paramV : Option (List K))
      (swap : Bool)
  | disc (dim : Int) (center : List K) (r : K) (zaxis xaxis : List K) (degen : Bool)
      (a0 a1 a2 a3 : K) (paramU paramV : List K) (swap : Bool)
  /-- `params = none`: infinite plane, no parameter lines -/
  | plane (dim : Int) (center normal xaxis : List K) (params : Option (List K × List K)) (swap : Bool)
  | torus (dim : Int) (major minor : K) (center zaxis xaxis : List K) (selectOut : Bool)
      (paramU paramV : List K) (swap : Bool)
  | sphere (dim : Int) (r : K) (center zaxis xaxis paramU paramV : List K) (swap : Bool)
  | extrusion (dim : Int) (crv : Obj K) (normal paramU : List K) (paramV : Option (List K))
      (swap : Bool)

def flds (fs : List (RecField K)) : List (Token K) := fs.flatMap RecField.toks

def hdr (code : Int) : List (Token K) := [.int code, .int 1, .int 0, .int 0, .nl]

/-- The body of a spline record (everything `G2.splines` reads). -/
def g2Body (o : Obj K) : List (Token K) :=
  [Token.int ((o.ncomp : Int) - boolInt o.rational), Token.int (boolInt o.rational), Token.nl]
    ++ o.bases.flatMap basisToks ++ (flattenF o.shape o.cps).flatMap rowToks

/-- The record as a writer following the GoTools layout spells it. -/
def PrimRecord.toks : PrimRecord K → List (Token K)
  | .line d s v fin par rev =>
      hdr 120 ++ flds [.int d, .vec s, .vec v, .flag fin, .vec par, .flag rev]
  | .circle d r c n x par rev =>
      hdr 130 ++ flds [.int d, .num r, .vec c, .vec n, .vec x, .vec par, .flag rev]
  | .ellipse d r1 r2 c n x par rev =>
      hdr 140 ++ flds [.int d, .num r1, .num r2, .vec c, .vec n, .vec x, .vec par, .flag rev]
  | .cylinder d r c z x pu pv sw =>
      hdr 260 ++ flds [.int d, .num r, .vec c, .vec z, .vec x, .flag pv.isSome, .vec pu] ++
        flds (match pv with | some v => [.vec v, .flag sw] | none => [.flag sw])
  | .disc d c r z x deg a0 a1 a2 a3 pu pv sw =>
      hdr 292 ++ flds [.int d, .vec c, .num r, .vec z, .vec x, .flag deg, .num a0, .num a1, .num a2,
        .num a3, .vec pu, .vec pv, .flag sw]
  | .plane d c n x ps sw =>
      hdr 250 ++ flds [.int d, .vec c, .vec n, .vec x, .flag ps.isSome] ++
        flds (match ps with | some (pu, pv) => [.vec pu, .vec pv, .flag sw] | none => [.flag sw])
  | .torus d major minor c z x so pu pv sw =>
      hdr 290 ++ flds [.int d, .num major, .num minor, .vec c, .vec z, .vec x, .flag so, .vec pu,
        .vec pv, .flag sw]
  | .sphere d r c z x pu pv sw =>
      hdr 270 ++ flds [.int d, .num r, .vec c, .vec z, .vec x, .vec pu, .vec pv, .flag sw]
  | .extrusion d crv nrm pu pv sw =>
      hdr 261 ++ flds [.int d] ++ g2Body crv ++ flds [.vec nrm, .flag pv.isSome, .vec pu] ++
        flds (match pv with | some v => [.vec v, .flag sw] | none => [.flag sw])

section
variable [Field K] [LinearOrder K] [FloorRing K]

/-- The documented meaning of the record: the factory call with the record's fields and the
    post-processing. -/
def PrimRecord.build (aux : PrimAux K) : PrimRecord K → PyM (Splipy.Obj K)
  | .line _ s v fin par rev => buildLine s v fin par rev
  | .circle _ r c n x par rev => buildCircle aux r c n x par rev
  | .ellipse _ r1 r2 c n x par rev => buildEllipse aux r1 r2 c n x par rev
  | .cylinder _ r c z x pu pv sw => buildCylinder aux r c z x pv.isSome pu (pv.getD []) sw
  | .disc _ c r z x deg a0 a1 a2 a3 pu pv sw => buildDisc aux c r z x deg [a0, a1, a2, a3] pu pv sw
  | .plane _ c n x ps sw =>
      buildPlane aux c n x ps.isSome (ps.map Prod.fst |>.getD []) (ps.map Prod.snd |>.getD []) sw
  | .torus _ major minor c z x _ pu pv sw => buildTorus aux major minor c z x pu pv sw
  | .sphere _ r c z x pu pv sw => buildSphere aux r c z x pu pv sw
  | .extrusion _ crv nrm pu pv sw => buildExtrusion crv nrm pv.isSome pu (pv.getD []) sw

/-- Side conditions: only the extrusion record has any (its curve is a well-formed curve record
    and the direction line is not blank). -/
def PrimRecord.WF (tol : K) : PrimRecord K → Prop
  | .extrusion _ crv nrm _ _ _ => crv.WF tol ∧ crv.bases.length = 1 ∧ nrm ≠ []
  | _ => True

omit [LinearOrder K] [FloorRing K] in
theorem readField_toks (f : RecField K) (k : LineKind) (h : f.HasKind k) (rest : List (Token K)) :
    readField k (f.toks ++ rest) = .ok (f, rest) := by
  cases f with
  | int n =>
    cases k <;> simp only [RecField.HasKind] at h
    have := nextNonBlank_append (Token.int n) [] rest rfl (by simp)
    simp only [RecField.toks, readField, List.cons_append, List.nil_append] at this ⊢
    rw [this]; rfl
  | num x =>
    cases k <;> simp only [RecField.HasKind] at h
    have := nextLine_append [Token.num x] rest (by intro t ht; simp at ht; subst ht; rfl)
    simp only [RecField.toks, readField, List.cons_append, List.nil_append] at this ⊢
    rw [this]; rfl
  | vec xs =>
    cases k <;> simp only [RecField.HasKind] at h
    · have := nextLine_append (xs.map Token.num) rest (isNl_num xs)
      simp only [RecField.toks, readField, List.append_assoc, List.cons_append, List.nil_append] at this ⊢
      rw [this]; simp only [mapM_toFloat_num]
    · cases xs with
      | nil => exact absurd rfl h
      | cons x xs =>
        have := nextNonBlank_append (Token.num x) (xs.map Token.num) rest rfl (isNl_num xs)
        simp only [RecField.toks, readField, List.map_cons, List.append_assoc, List.cons_append,
          List.nil_append] at this ⊢
        rw [this]
        have hm := mapM_toFloat_num (x :: xs)
        simp only [List.map_cons] at hm
        simp only [hm]
  | flag b =>
    cases k <;> simp only [RecField.HasKind] at h
    have := nextLine_append [Token.int (boolInt b)] rest (by intro t ht; simp at ht; subst ht; rfl)
    simp only [RecField.toks, readField, List.cons_append, List.nil_append] at this ⊢
    rw [this]
    cases b <;> simp [isZeroLine, boolInt]

omit [LinearOrder K] [FloorRing K] in
theorem readFields_toks : ∀ (fs : List (RecField K)) (ks : List LineKind),
    List.Forall₂ RecField.HasKind fs ks → ∀ rest : List (Token K),
    readFields ks (flds fs ++ rest) = .ok (fs, rest)
  | [], [], _, rest => by simp [readFields, flds]
  | f :: fs, k :: ks, h, rest => by
    cases h with
    | cons hf hfs =>
      have ih := readFields_toks fs ks hfs rest
      simp only [flds, List.flatMap_cons, List.append_assoc] at ih ⊢
      simp only [readFields, readField_toks f k hf, ih]

omit [LinearOrder K] [FloorRing K] in
theorem header_toks (code : Int) (body : List (Token K)) :
    nextNonBlank (hdr code ++ body) = some ([.int code, .int 1, .int 0, .int 0], body) := by
  have := nextNonBlank_append (Token.int code) [Token.int 1, Token.int 0, Token.int 0] body rfl
    (by intro t ht; simp at ht; rcases ht with rfl | rfl | rfl <;> rfl)
  simpa [hdr] using this

/-- Header consumed, dispatch on the type code. -/
theorem g2ReadPrim_hdr (aux : PrimAux K) (tol : K) (code : Int) (body : List (Token K)) :
    g2ReadPrim aux tol (hdr code ++ body) = g2Prim aux tol code body := by
  unfold g2ReadPrim
  rw [header_toks]
  simp [Token.toInt?]

theorem g2ReadPrim_toks (aux : PrimAux K) (tol : K) (rec : PrimRecord K) (h : rec.WF tol)
    (rest : List (Token K)) :
    g2ReadPrim aux tol (rec.toks ++ rest) = (rec.build aux).map (·, rest) := by
  cases rec with
  | line d s v fin par rev =>
    simp only [PrimRecord.toks, List.append_assoc, g2ReadPrim_hdr]
    unfold g2Prim
    rw [if_pos rfl, readFields_toks _ _ (by repeat constructor)]
    rfl
  | circle d r c n x par rev =>
    simp only [PrimRecord.toks, List.append_assoc, g2ReadPrim_hdr]
    unfold g2Prim
    repeat rw [if_neg (by decide)]
    rw [if_pos rfl, readFields_toks _ _ (by repeat constructor)]
    rfl
  | ellipse d r1 r2 c n x par rev =>
    simp only [PrimRecord.toks, List.append_assoc, g2ReadPrim_hdr]
    unfold g2Prim
    repeat rw [if_neg (by decide)]
    rw [if_pos rfl, readFields_toks _ _ (by repeat constructor)]
    rfl
  | cylinder d r c z x pu pv sw =>
    simp only [PrimRecord.toks, List.append_assoc, g2ReadPrim_hdr]
    unfold g2Prim
    repeat rw [if_neg (by decide)]
    rw [if_pos rfl, readFields_toks _ _ (by repeat constructor)]
    cases pv with
    | none =>
      simp only [Option.isSome_none, Bool.false_eq_true, if_false]
      rw [readFields_toks _ _ (by repeat constructor)]
      rfl
    | some v =>
      simp only [Option.isSome_some, if_true]
      rw [readFields_toks _ _ (by repeat constructor)]
      rfl
  | disc d c r z x deg a0 a1 a2 a3 pu pv sw =>
    simp only [PrimRecord.toks, List.append_assoc, g2ReadPrim_hdr]
    unfold g2Prim
    repeat rw [if_neg (by decide)]
    rw [if_pos rfl, readFields_toks _ _ (by repeat constructor)]
    rfl
  | plane d c n x ps sw =>
    simp only [PrimRecord.toks, List.append_assoc, g2ReadPrim_hdr]
    unfold g2Prim
    repeat rw [if_neg (by decide)]
    rw [if_pos rfl, readFields_toks _ _ (by repeat constructor)]
    cases ps with
    | none =>
      simp only [Option.isSome_none, Bool.false_eq_true, if_false]
      rw [readFields_toks _ _ (by repeat constructor)]
      rfl
    | some uv =>
      obtain ⟨pu, pv⟩ := uv
      simp only [Option.isSome_some, if_true]
      rw [readFields_toks _ _ (by repeat constructor)]
      rfl
  | torus d major minor c z x so pu pv sw =>
    simp only [PrimRecord.toks, List.append_assoc, g2ReadPrim_hdr]
    unfold g2Prim
    repeat rw [if_neg (by decide)]
    rw [if_pos rfl, readFields_toks _ _ (by repeat constructor)]
    rfl
  | sphere d r c z x pu pv sw =>
    simp only [PrimRecord.toks, List.append_assoc, g2ReadPrim_hdr]
    unfold g2Prim
    repeat rw [if_neg (by decide)]
    rw [if_pos rfl, readFields_toks _ _ (by repeat constructor)]
    rfl
  | extrusion d crv nrm pu pv sw =>
    obtain ⟨hwf, hlen, hn⟩ := h
    simp only [PrimRecord.toks, List.append_assoc, g2ReadPrim_hdr]
    unfold g2Prim
    repeat rw [if_neg (by decide)]
    rw [if_pos rfl, readFields_toks _ _ (by repeat constructor)]
    have hs := fun r => g2Splines_write tol crv hwf r
    rw [hlen] at hs
    simp only [List.append_assoc] at hs
    simp only [g2Body, List.append_assoc, hs]
    rw [readFields_toks _ _ (by
      refine List.Forall₂.cons ?_ (by repeat constructor)
      exact hn)]
    cases pv with
    | none =>
      simp only [Option.isSome_none, Bool.false_eq_true, if_false]
      rw [readFields_toks _ _ (by repeat constructor)]
      rfl
    | some v =>
      simp only [Option.isSome_some, if_true]
      rw [readFields_toks _ _ (by repeat constructor)]
      rfl

end

end Splipy.FileIO
