import Mathlib.Data.Matrix.Mul
import Mathlib.LinearAlgebra.FiniteDimensional.Basic
import Splipy.Lemmas.C14Interp

/-!
# C14 helper lemmas: uniqueness (a right inverse of a square matrix is a left inverse)
-/

namespace Splipy
open Finset

section
variable {K : Type} [Field K]

/-- For square `n × n` entry functions, `G · Gi = 1` implies `Gi · G = 1`
    (Mathlib: matrices over a field form a Dedekind-finite monoid). -/
theorem left_inv_of_right_inv_c14 (n : ℕ) (G Gi : ℕ → ℕ → K)
    (h : ∀ p < n, ∀ i < n, ∑ r ∈ range n, G p r * Gi r i = if p = i then 1 else 0) :
    ∀ p < n, ∀ i < n, ∑ r ∈ range n, Gi p r * G r i = if p = i then 1 else 0 := by
  let A : Matrix (Fin n) (Fin n) K := fun i j => G i.val j.val
  let B : Matrix (Fin n) (Fin n) K := fun i j => Gi i.val j.val
  have hAB : A * B = 1 := by
    ext i j
    rw [Matrix.mul_apply, Matrix.one_apply]
    have := h i.val i.isLt j.val j.isLt
    rw [← Fin.sum_univ_eq_sum_range (fun r => G i.val r * Gi r j.val) n] at this
    rw [this]
    simp [Fin.ext_iff]
  have hBA : B * A = 1 := mul_eq_one_comm.mp hAB
  intro p hp i hi
  have := congrFun (congrFun hBA ⟨p, hp⟩) ⟨i, hi⟩
  rw [Matrix.mul_apply, Matrix.one_apply] at this
  rw [← Fin.sum_univ_eq_sum_range (fun r => Gi p r * G r i) n]
  rw [this]
  simp [Fin.ext_iff]

/-- Uniqueness of the solution of a square system with a right-invertible matrix. -/
theorem solution_unique_c14 (n : ℕ) (G Gi : ℕ → ℕ → K) (c c0 : ℕ → K)
    (h : ∀ p < n, ∀ i < n, ∑ r ∈ range n, G p r * Gi r i = if p = i then 1 else 0)
    (heq : ∀ i < n, ∑ l ∈ range n, G i l * c l = ∑ l ∈ range n, G i l * c0 l) :
    ∀ l < n, c l = c0 l := by
  intro l hl
  have hL := left_inv_of_right_inv_c14 n G Gi h
  have e1 := sum_cancel_c14 n l hl Gi G c (fun i hi => hL l hl i hi)
  have e2 := sum_cancel_c14 n l hl Gi G c0 (fun i hi => hL l hl i hi)
  rw [← e1, ← e2]
  exact sum_congr rfl (fun r hr => by rw [heq r (mem_range.mp hr)])

end
end Splipy
