import Splipy.Lemmas.C05PerFold
import Splipy.Lemmas.TensorEvalObj

/-!
# C05c — `H_incl` for standard periodic bases (`perBasis`)

The knots of `perBasis p k w μ T` are a window of the periodic sequence `pSeq w μ T` shifted by one
period; with `PerData.fold` this gives degree-elevation inclusion for the wrapped (periodic) basis
functions: first at the Cox–de Boor level on `[start, end]`, then for `Basis.specRow` at EVERY
parameter (the wrap and the effective side only depend on `start`, `end`, which `raise_order` keeps).
-/

namespace Splipy

set_option linter.unusedSectionVars false

variable {K : Type} [Field K] [LinearOrder K] [IsStrictOrderedRing K]

open Finset

variable {tol : K} {p k : ℕ} {w0 : K} {wr : List K} {μ0 : ℕ} {μr : List ℕ} {T : K}

theorem pSeq_getD (w : List K) (μ : List ℕ) (T : K) (hlen : w.length = μ.length) (j : ℕ) (hpos : 0 < μ.sum) :
    pSeq w μ T j = (expand w μ).getD (j % μ.sum) 0 + ((j / μ.sum : ℕ) : K) * T := by
  unfold pSeq perExt knSeq
  have hL : (expand w μ).length = μ.sum := length_expand w μ hlen
  have hx : j % μ.sum < (expand w μ).length := by rw [hL]; exact Nat.mod_lt _ hpos
  rw [List.getD_eq_getElem _ _ hx, List.getD_eq_getElem _ _ hx]

/-- The knots of the standard periodic vector are a window of the periodic sequence. -/
theorem PerData.kn_eq (h : PerData tol p k w0 wr μ0 μr T) (i : ℕ) (hi : i < k + 1 + (μ0 + μr.sum) + p) :
    (perBasis p k (w0 :: wr) (μ0 :: μr) T).kn i
      = pSeq (w0 :: wr) (μ0 :: μr) T (i + (μ0 + μr.sum - (k + 1))) - T := by
  obtain ⟨_, _, _, hlen⟩ := h.lengths
  have hk := h.hk
  have hp := h.hp
  have hn : 0 < μ0 + μr.sum := by have := h.pos0; omega
  have hsum : (μ0 :: μr).sum = μ0 + μr.sum := by simp
  have hl : (w0 :: wr).length = (μ0 :: μr).length := by simp [h.len]
  rw [kn_eq_getD _ (perKnots p k (w0 :: wr) (μ0 :: μr) T) rfl (by rw [hlen]; exact hi),
    pSeq_getD _ _ _ hl _ (by rw [hsum]; exact hn), hsum]
  by_cases c1 : i < k + 1
  · rw [(h.entries i).1 c1, Nat.mod_eq_of_lt (by omega), Nat.div_eq_of_lt (by omega)]
    have : i + (μ0 + μr.sum - (k + 1)) = μ0 + μr.sum - (k + 1) + i := by omega
    rw [this]; simp
  · by_cases c2 : i < k + 1 + (μ0 + μr.sum)
    · rw [(h.entries i).2.1 (by omega) c2]
      have e : i + (μ0 + μr.sum - (k + 1)) = 1 * (μ0 + μr.sum) + (i - (k + 1)) := by omega
      rw [e, c05_mul_add_mod_lt _ _ _ (by omega), c05_mul_add_div_lt _ _ _ (by omega)]
      push_cast; ring
    · rw [(h.entries i).2.2 (by omega) hi]
      have e : i + (μ0 + μr.sum - (k + 1)) = 2 * (μ0 + μr.sum) + (i - (k + 1) - (μ0 + μr.sum)) := by omega
      rw [e, c05_mul_add_mod_lt _ _ _ (by omega), c05_mul_add_div_lt _ _ _ (by omega)]
      push_cast; ring

/-- B-splines on the standard periodic vector = B-splines on the periodic sequence, one period on. -/
theorem PerData.B_eq (h : PerData tol p k w0 wr μ0 μr T) (s : Side) (q i : ℕ) (u : K)
    (hi : i + q + 1 < k + 1 + (μ0 + μr.sum) + p) :
    B s (perBasis p k (w0 :: wr) (μ0 :: μr) T).kn q i u
      = B s (pSeq (w0 :: wr) (μ0 :: μr) T) q (i + (μ0 + μr.sum - (k + 1))) (u + T) := by
  have e1 : B s (perBasis p k (w0 :: wr) (μ0 :: μr) T).kn q i u
      = B s (fun j => 1 * pSeq (w0 :: wr) (μ0 :: μr) T j + (-T)) q (i + (μ0 + μr.sum - (k + 1))) u := by
    apply B_congr_knots
    intro j hj
    rw [h.kn_eq (i + j) (by omega)]
    have : i + j + (μ0 + μr.sum - (k + 1)) = i + (μ0 + μr.sum - (k + 1)) + j := by omega
    rw [this]; ring
  have e2 := B_affine s (pSeq (w0 :: wr) (μ0 :: μr) T) q (i + (μ0 + μr.sum - (k + 1))) (u + T) 1 (-T) one_pos
  have e3 : (1 : K) * (u + T) + -T = u := by ring
  rw [e3] at e2
  rw [e1, e2]

/-- **`H_incl` for standard periodic bases, Cox–de Boor level on the domain.** -/
theorem PerData.H_incl_B (h : PerData tol p k w0 wr μ0 μr T) (h0 : 0 ≤ tol) (a : ℕ) :
    ∃ E : ℕ → ℕ → K, (∀ j r, 0 ≤ E j r) ∧ ∀ (f : ℕ → K) (s : Side) (u : K),
      (w0 ≤ u ∧ u ≤ w0 + T) → (s = Side.left → w0 < u) → (s = Side.right → u < w0 + T) →
      ∑ l ∈ range ((μ0 + a) + (μr.map (· + a)).sum + k + 1),
          B s (perBasis (p + a) k (w0 :: wr) ((μ0 :: μr).map (· + a)) T).kn (p - 1 + a) l u
            * (∑ j ∈ range (μ0 + μr.sum), f j * E j (l % ((μ0 + a) + (μr.map (· + a)).sum)))
        = ∑ i ∈ range (μ0 + μr.sum + k + 1),
            B s (perBasis p k (w0 :: wr) (μ0 :: μr) T).kn (p - 1) i u * f (i % (μ0 + μr.sum)) := by
  obtain ⟨E, hE, hfold⟩ := h.fold h0 a
  refine ⟨E, hE, ?_⟩
  intro f s u hu hl hr
  have hra := h.raise a
  have hmap : (μ0 :: μr).map (· + a) = (μ0 + a) :: μr.map (· + a) := by simp
  have hk2 := h.hk2
  have hU : InPer w0 T s (u + T) := by
    refine ⟨⟨by linarith, by linarith⟩, fun hs => ?_, fun hs => ?_⟩
    · have := hl hs; linarith
    · have := hr hs; linarith
  have := hfold f s (u + T) hU
  have eL : ∑ l ∈ range ((μ0 + a) + (μr.map (· + a)).sum + k + 1),
          B s (perBasis (p + a) k (w0 :: wr) ((μ0 :: μr).map (· + a)) T).kn (p - 1 + a) l u
            * (∑ j ∈ range (μ0 + μr.sum), f j * E j (l % ((μ0 + a) + (μr.map (· + a)).sum)))
      = ∑ l ∈ range ((μ0 + a) + (μr.map (· + a)).sum + k + 1),
          B s (pSeq (w0 :: wr) ((μ0 + a) :: μr.map (· + a)) T) (p - 1 + a)
              (l + ((μ0 + a) + (μr.map (· + a)).sum - (k + 1))) (u + T)
            * (∑ j ∈ range (μ0 + μr.sum), f j * E j (l % ((μ0 + a) + (μr.map (· + a)).sum))) := by
    apply Finset.sum_congr rfl
    intro l hl'
    rw [hmap, hra.B_eq s (p - 1 + a) l u (by have := mem_range.mp hl'; omega)]
  have eR : ∑ i ∈ range (μ0 + μr.sum + k + 1),
            B s (perBasis p k (w0 :: wr) (μ0 :: μr) T).kn (p - 1) i u * f (i % (μ0 + μr.sum))
      = ∑ i ∈ range (μ0 + μr.sum + k + 1),
          B s (pSeq (w0 :: wr) (μ0 :: μr) T) (p - 1) (i + (μ0 + μr.sum - (k + 1))) (u + T) * f (i % (μ0 + μr.sum)) := by
    apply Finset.sum_congr rfl
    intro i hi'
    rw [h.B_eq s (p - 1) i u (by have := mem_range.mp hi'; omega)]
  rw [eL, eR]
  exact this

theorem sum_fibres (N M : ℕ) (hN : 0 < N) (g : ℕ → K) (c : ℕ → K) :
    ∑ r ∈ range N, (∑ l ∈ (range M).filter (fun l => l % N = r), g l) * c r
      = ∑ l ∈ range M, g l * c (l % N) := by
  calc _ = ∑ r ∈ range N, ∑ l ∈ range M, if l % N = r then g l * c r else 0 := by
        apply Finset.sum_congr rfl
        intro r _
        rw [Finset.sum_mul, Finset.sum_filter]
    _ = ∑ l ∈ range M, ∑ r ∈ range N, if l % N = r then g l * c r else 0 := Finset.sum_comm
    _ = _ := by
        apply Finset.sum_congr rfl
        intro l _
        rw [Finset.sum_ite_eq, if_pos (mem_range.mpr (Nat.mod_lt _ hN))]

section SpecRow
variable [FloorRing K]

theorem PerData.nAll_eq (h : PerData tol p k w0 wr μ0 μr T) :
    (perBasis p k (w0 :: wr) (μ0 :: μr) T).nAll = μ0 + μr.sum + k + 1 := by
  obtain ⟨_, _, _, hlen⟩ := h.lengths
  unfold Basis.nAll
  show (perKnots p k (w0 :: wr) (μ0 :: μr) T).toArray.size - p = _
  simp only [List.size_toArray, hlen]
  omega

/-- **`H_incl` for standard periodic bases at the level of `Basis.specRow`, EVERY parameter `u`.** -/
theorem PerData.H_incl_specRow (h : PerData tol p k w0 wr μ0 μr T) (h0 : 0 ≤ tol) (a : ℕ) :
    ∃ E : ℕ → ℕ → K, (∀ j r, 0 ≤ E j r) ∧ ∀ (f : ℕ → K) (u : K),
      ∑ r ∈ range (perBasis (p + a) k (w0 :: wr) ((μ0 :: μr).map (· + a)) T).numFunctions,
          (perBasis (p + a) k (w0 :: wr) ((μ0 :: μr).map (· + a)) T).specRow u r
            * (∑ j ∈ range (perBasis p k (w0 :: wr) (μ0 :: μr) T).numFunctions, f j * E j r)
        = ∑ j ∈ range (perBasis p k (w0 :: wr) (μ0 :: μr) T).numFunctions,
            (perBasis p k (w0 :: wr) (μ0 :: μr) T).specRow u j * f j := by
  obtain ⟨E, hE, hB⟩ := h.H_incl_B h0 a
  refine ⟨E, hE, ?_⟩
  intro f u
  have hra := h.raise a
  have hmap : (μ0 :: μr).map (· + a) = (μ0 + a) :: μr.map (· + a) := by simp
  set b := perBasis p k (w0 :: wr) (μ0 :: μr) T with hb
  set b' := perBasis (p + a) k (w0 :: wr) ((μ0 :: μr).map (· + a)) T with hb'
  obtain ⟨s1, e1, n1⟩ := h.start_stop
  obtain ⟨s2, e2, n2⟩ := hra.start_stop
  rw [← hmap] at s2 e2 n2
  have hv := h.valid h0
  have hper : 0 ≤ b.periodic := by show (0 : Int) ≤ (k : Int); omega
  have hper' : 0 ≤ b'.periodic := by show (0 : Int) ≤ (k : Int); omega
  have hwrap : b'.wrap u = b.wrap u := by
    unfold Basis.wrap; rw [s1, e1, s2, e2]
  have hside : effSide b' (b.wrap u) true = effSide b (b.wrap u) true := by
    unfold effSide; rw [e1, e2]
  obtain ⟨hm1, hm2⟩ := b.wrap_mem hv u
  rw [s1] at hm1
  rw [e1] at hm2
  set v := b.wrap u with hvdef
  set s := effSide b v true with hs
  have hsl : s = Side.left → w0 < v := by
    intro hsl
    have : v = b.stop := by
      by_contra hne
      rw [hs] at hsl
      unfold effSide at hsl
      rw [if_neg hne] at hsl
      simp at hsl
    rw [this, e1]
    have := (h.values h0).2.2.2
    linarith
  have hsr : s = Side.right → v < w0 + T := by
    intro hsr
    have : v ≠ b.stop := by
      intro he
      rw [hs] at hsr
      unfold effSide at hsr
      rw [if_pos he] at hsr
      simp at hsr
    rw [e1] at this
    exact lt_of_le_of_ne hm2 this
  have key := hB f s v ⟨hm1, hm2⟩ hsl hsr
  have hn'pos : 0 < (μ0 + a) + (μr.map (· + a)).sum := by have := hra.pos0; omega
  have hnpos : 0 < μ0 + μr.sum := by have := h.pos0; omega
  have hnA : b.nAll = μ0 + μr.sum + k + 1 := h.nAll_eq
  have hnA' : b'.nAll = (μ0 + a) + (μr.map (· + a)).sum + k + 1 := by
    have := hra.nAll_eq; rw [← hmap] at this; exact this
  have ho : b.order - 1 = p - 1 := rfl
  have ho' : b'.order - 1 = p - 1 + a := by show p + a - 1 = p - 1 + a; have := h.hk2; omega
  -- left-hand side
  have eL : ∑ r ∈ range b'.numFunctions, b'.specRow u r * (∑ j ∈ range b.numFunctions, f j * E j r)
      = ∑ l ∈ range ((μ0 + a) + (μr.map (· + a)).sum + k + 1), B s b'.kn (p - 1 + a) l v
          * (∑ j ∈ range (μ0 + μr.sum), f j * E j (l % ((μ0 + a) + (μr.map (· + a)).sum))) := by
    rw [n2, n1]
    rw [Finset.sum_congr rfl (fun r _ => by
      rw [Basis.specRow_periodic hper' u r, hwrap, hside, n2, hnA', ho'])]
    exact sum_fibres _ _ hn'pos (fun l => B s b'.kn (p - 1 + a) l v)
      (fun r => ∑ j ∈ range (μ0 + μr.sum), f j * E j r)
  have eR : ∑ j ∈ range b.numFunctions, b.specRow u j * f j
      = ∑ i ∈ range (μ0 + μr.sum + k + 1), B s b.kn (p - 1) i v * f (i % (μ0 + μr.sum)) := by
    rw [n1]
    rw [Finset.sum_congr rfl (fun r _ => by rw [Basis.specRow_periodic hper u r, n1, hnA, ho])]
    exact sum_fibres _ _ hnpos (fun i => B s b.kn (p - 1) i v) f
  rw [eL, eR]
  exact key

end SpecRow

end Splipy
