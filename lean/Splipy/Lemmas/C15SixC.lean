import Splipy.Lemmas.C15SixB

/-!
# Six-face `edge_surfaces`: the model succeeds; its result as a sum of seven maps
-/

set_option linter.unusedSectionVars false

namespace Splipy
namespace C15

open C06 C12 Obj Basis Finset

variable {K : Type} [Field K] [LinearOrder K] [IsStrictOrderedRing K] [FloorRing K]

/-- The three edge volumes the model assembles (`vol_u_edges`, `vol_v_edges`, `vol_w_edges`). -/
def edgeVolU (X1 result : Obj K) : Obj K :=
  { bases := #[linearBasis, linearBasis, result.basis 2], cps := Obj.edgeNet X1.cps 2, rational := result.rational }
def edgeVolV (X2 result : Obj K) : Obj K :=
  { bases := #[result.basis 0, linearBasis, linearBasis], cps := Obj.edgeNet X2.cps 0, rational := result.rational }
def edgeVolW (X3 result : Obj K) : Obj K :=
  { bases := #[linearBasis, result.basis 1, linearBasis], cps := Obj.edgeNet X3.cps 1, rational := result.rational }

theorem allTrue_or (f : Fin 3 → Bool) : ∀ d, ((fun _ : Fin 3 => true) d || f d) = true := fun _ => by simp

theorem edgeVolU_std (p : Fin 3 → ℕ) (U : Fin 3 → List K) (M : Fin 3 → List ℕ) {rat : Bool} {nc : ℕ} (X1 result : Obj K)
    (h1 : StdVol X1 p U M (fun _ => true) rat nc) (hr : StdVol result p U M (fun _ => true) rat nc) :
    StdVol (edgeVolU X1 result) p U M ![false, false, true] rat nc := by
  have hs := (edgeNet_shape X1.cps _ _ _ _ (volume_shape h1.wf)).2.2
  have hb2 : result.basis 2 = unitBasis (p 2) (U 2) (M 2) := by simpa using hr.basis_eq 2
  have hX2 : X1.basis 2 = unitBasis (p 2) (U 2) (M 2) := by simpa using h1.basis_eq 2
  obtain ⟨w, n⟩ := volume_wf_of linearBasis linearBasis (result.basis 2) linearBasis_valid linearBasis_valid
    (hr.wf.valid 2) (Obj.edgeNet X1.cps 2) X1.ncomp result.rational
    (by rw [hs, linearBasis_numFunctions, hb2, ← hX2])
  refine stdVol_of p U M _ w ?_ hr.rational (n.trans h1.ncomp)
  apply fin3_cases
  · show linearBasis = _; simp
  · show linearBasis = _; simp
  · show result.basis 2 = _; simpa using hb2

theorem edgeVolV_std (p : Fin 3 → ℕ) (U : Fin 3 → List K) (M : Fin 3 → List ℕ) {rat : Bool} {nc : ℕ} (X2 result : Obj K)
    (h1 : StdVol X2 p U M (fun _ => true) rat nc) (hr : StdVol result p U M (fun _ => true) rat nc) :
    StdVol (edgeVolV X2 result) p U M ![true, false, false] rat nc := by
  have hs := (edgeNet_shape X2.cps _ _ _ _ (volume_shape h1.wf)).1
  have hb0 : result.basis 0 = unitBasis (p 0) (U 0) (M 0) := by simpa using hr.basis_eq 0
  have hX0 : X2.basis 0 = unitBasis (p 0) (U 0) (M 0) := by simpa using h1.basis_eq 0
  obtain ⟨w, n⟩ := volume_wf_of (result.basis 0) linearBasis linearBasis (hr.wf.valid 0) linearBasis_valid
    linearBasis_valid (Obj.edgeNet X2.cps 0) X2.ncomp result.rational
    (by rw [hs, linearBasis_numFunctions, hb0, ← hX0])
  refine stdVol_of p U M _ w ?_ hr.rational (n.trans h1.ncomp)
  apply fin3_cases
  · show result.basis 0 = _; simpa using hb0
  · show linearBasis = _; simp
  · show linearBasis = _; simp

theorem edgeVolW_std (p : Fin 3 → ℕ) (U : Fin 3 → List K) (M : Fin 3 → List ℕ) {rat : Bool} {nc : ℕ} (X3 result : Obj K)
    (h1 : StdVol X3 p U M (fun _ => true) rat nc) (hr : StdVol result p U M (fun _ => true) rat nc) :
    StdVol (edgeVolW X3 result) p U M ![false, true, false] rat nc := by
  have hs := (edgeNet_shape X3.cps _ _ _ _ (volume_shape h1.wf)).2.1
  have hb1 : result.basis 1 = unitBasis (p 1) (U 1) (M 1) := by simpa using hr.basis_eq 1
  have hX1 : X3.basis 1 = unitBasis (p 1) (U 1) (M 1) := by simpa using h1.basis_eq 1
  obtain ⟨w, n⟩ := volume_wf_of linearBasis (result.basis 1) linearBasis linearBasis_valid (hr.wf.valid 1)
    linearBasis_valid (Obj.edgeNet X3.cps 1) X3.ncomp result.rational
    (by rw [hs, linearBasis_numFunctions, hb1, ← hX1])
  refine stdVol_of p U M _ w ?_ hr.rational (n.trans h1.ncomp)
  apply fin3_cases
  · show linearBasis = _; simp
  · show result.basis 1 = _; simpa using hb1
  · show linearBasis = _; simp

theorem full_or_left (f : Fin 3 → Bool) : ∀ d : Fin 3, ((fun _ : Fin 3 => true) d || f d) = (fun _ : Fin 3 => true) d :=
  fun _ => by simp

theorem pat12 : ∀ d : Fin 3, ((![false, true, true] : Fin 3 → Bool) d || (![true, false, true] : Fin 3 → Bool) d)
    = (fun _ : Fin 3 => true) d := by
  apply fin3_cases <;> rfl

/-- Rows of the `corners` array. -/
def cornerRows (cs : Tensor K) (nc : ℕ) : List (Array K) :=
  (List.range 8).map (fun r => cs.data.extract (r * nc) (r * nc + nc))

set_option maxHeartbeats 400000 in
/-- **Six-face `edge_surfaces` of the model succeeds on faces that already live on common clamped bases**,
    and its result is `V1 + V2 + V3 + V4 - VU - VV - VW` as a map.  Faces: `umin, umax` on `B₁ × B₂`,
    `vmin, vmax` on `B₀ × B₂`, `wmin, wmax` on `B₀ × B₁`, `B_d = unitBasis (p d) (U d) (M d)` with
    `UnitKnots`; non-rational, `nc` components. -/
theorem edgeSurfaces6_sum (tol : K) (htol : 0 < tol) (p : Fin 3 → ℕ) (U : Fin 3 → List K) (M : Fin 3 → List ℕ)
    (k : ∀ d, UnitKnots tol (p d) (U d) (M d)) (nc : ℕ) (umin umax vmin vmax wmin wmax : Obj K)
    (hu0 : UnitSurf umin (p 1) (p 2) (U 1) (U 2) (M 1) (M 2) false nc)
    (hu1 : UnitSurf umax (p 1) (p 2) (U 1) (U 2) (M 1) (M 2) false nc)
    (hv0 : UnitSurf vmin (p 0) (p 2) (U 0) (U 2) (M 0) (M 2) false nc)
    (hv1 : UnitSurf vmax (p 0) (p 2) (U 0) (U 2) (M 0) (M 2) false nc)
    (hw0 : UnitSurf wmin (p 0) (p 1) (U 0) (U 1) (M 0) (M 1) false nc)
    (hw1 : UnitSurf wmax (p 0) (p 1) (U 0) (U 1) (M 0) (M 1) false nc) :
    ∃ (ru rv rw : Obj K × Obj K) (cs : Tensor K) (s4 X1 X2 X3 res vol : Obj K),
      (UnitSurf ru.1 (p 1) (p 2) (U 1) (U 2) (M 1) (M 2) false nc ∧ UnitSurf ru.2 (p 1) (p 2) (U 1) (U 2) (M 1) (M 2) false nc
        ∧ SameMap 2 umin ru.1 ∧ SameMap 2 umax ru.2)
      ∧ (UnitSurf rv.1 (p 0) (p 2) (U 0) (U 2) (M 0) (M 2) false nc ∧ UnitSurf rv.2 (p 0) (p 2) (U 0) (U 2) (M 0) (M 2) false nc
        ∧ SameMap 2 vmin rv.1 ∧ SameMap 2 vmax rv.2)
      ∧ (UnitSurf rw.1 (p 0) (p 1) (U 0) (U 1) (M 0) (M 1) false nc ∧ UnitSurf rw.2 (p 0) (p 1) (U 0) (U 1) (M 0) (M 1) false nc
        ∧ SameMap 2 wmin rw.1 ∧ SameMap 2 wmax rw.2)
      ∧ (ruledObj ru.1 ru.2).corners true = .ok cs
      ∧ Obj.fromCorners 3 (cornerRows cs nc) false = .ok s4
      ∧ StdVol X1 p U M (fun _ => true) false nc ∧ StdVol X2 p U M (fun _ => true) false nc
      ∧ StdVol X3 p U M (fun _ => true) false nc ∧ StdVol res p U M (fun _ => true) false nc
      ∧ SameMap 3 (((ruledObj ru.1 ru.2).swap 0 2).swap 1 2) X1
      ∧ SameMap 3 ((ruledObj rv.1 rv.2).swap 1 2) X2
      ∧ SameMap 3 (ruledObj rw.1 rw.2) X3
      ∧ Obj.edgeSurfaces tol [umin, umax, vmin, vmax, wmin, wmax] = .ok vol
      ∧ StdVol vol p U M (fun _ => true) false nc
      ∧ ∀ comp, comp < nc → ∀ (sd : Fin 3 → Side) (u : Fin 3 → K),
          (toTP vol 3 comp).eval sd u
            = (toTP (((ruledObj ru.1 ru.2).swap 0 2).swap 1 2) 3 comp).eval sd u
              + (toTP ((ruledObj rv.1 rv.2).swap 1 2) 3 comp).eval sd u
              + (toTP (ruledObj rw.1 rw.2) 3 comp).eval sd u
              + (toTP (s4.swap 1 2) 3 comp).eval sd u
              - (toTP (edgeVolU X1 res) 3 comp).eval sd u
              - (toTP (edgeVolV X2 res) 3 comp).eval sd u
              - (toTP (edgeVolW X3 res) 3 comp).eval sd u := by
  -- the three ruled volumes
  obtain ⟨ru, hru, Ru1, Ru2, mu1, mu2⟩ := ruled_unitSurf tol htol (k 1) (k 2) umin umax hu0 hu1
  obtain ⟨rv, hrv, Rv1, Rv2, mv1, mv2⟩ := ruled_unitSurf tol htol (k 0) (k 2) vmin vmax hv0 hv1
  obtain ⟨rw, hrw, Rw1, Rw2, mw1, mw2⟩ := ruled_unitSurf tol htol (k 0) (k 1) wmin wmax hw0 hw1
  have shu : ru.2.cps.shape = ru.1.cps.shape := by rw [Ru1.shape, Ru2.shape]
  have shv : rv.2.cps.shape = rv.1.cps.shape := by rw [Rv1.shape, Rv2.shape]
  have shw : rw.2.cps.shape = rw.1.cps.shape := by rw [Rw1.shape, Rw2.shape]
  have V1 := vol1_std p U M ru.1 ru.2 Ru1 shu
  have V2 := vol2_std p U M rv.1 rv.2 Rv1 shv
  have V3 := vol3_std p U M rw.1 rw.2 Rw1 shw
  -- the corner volume
  obtain ⟨w1pre, n1pre⟩ := ruledObj_wf3 ru.1 ru.2 Ru1.wf shu
  have hnc1 : (ruledObj ru.1 ru.2).ncomp = nc := n1pre.trans Ru1.ncomp
  obtain ⟨cs, hcs, csz, cval⟩ := corners_F w1pre
  rw [hnc1] at csz cval
  have hrows_len : (cornerRows cs nc).length = 8 := by simp [cornerRows]
  have hrows_sz : ∀ r ∈ cornerRows cs nc, r.size = nc := by
    intro r hr
    obtain ⟨i, hi, rfl⟩ := List.mem_map.1 hr
    have hi' := List.mem_range.1 hi
    rw [Array.size_extract, csz]
    have : (i + 1) * nc ≤ 8 * nc := Nat.mul_le_mul_right _ hi'
    have e : (i + 1) * nc = i * nc + nc := by ring
    omega
  obtain ⟨s4, hs4, b4, sh4, r4, _⟩ := fromCorners3_ok (cornerRows cs nc) nc hrows_len hrows_sz false
  have V4 := vol4_std p U M s4 b4 sh4 r4
  -- six `make_splines_identical`
  obtain ⟨⟨a1, a2⟩, h12, A1, A2, ma1, ma2⟩ := identical_std tol htol p U M k _ _ false nc _ _ V1 V2
  have A1' := StdVol.of_eq A1 pat12
  have A2' := StdVol.of_eq A2 pat12
  obtain ⟨⟨b1, b3⟩, h13, B1, B3, mb1, mb3⟩ := identical_std tol htol p U M k _ _ false nc _ _ A1' V3
  have B1' := StdVol.of_eq B1 (full_or_left _)
  have B3' := StdVol.of_eq B3 (full_or_left _)
  obtain ⟨⟨c1, c4⟩, h14, C1, C4, mc1, mc4⟩ := identical_std tol htol p U M k _ _ false nc _ _ B1' V4
  have C1' := StdVol.of_eq C1 (full_or_left _)
  have C4' := StdVol.of_eq C4 (full_or_left _)
  obtain ⟨⟨d2, d3⟩, h23, D2, D3, md2, md3⟩ := identical_std tol htol p U M k _ _ false nc _ _ A2' B3'
  have D2' := StdVol.of_eq D2 (full_or_left _)
  have D3' := StdVol.of_eq D3 (full_or_left _)
  obtain ⟨⟨e2, e4⟩, h24, E2, E4, me2, me4⟩ := identical_std tol htol p U M k _ _ false nc _ _ D2' C4'
  have E2' := StdVol.of_eq E2 (full_or_left _)
  have E4' := StdVol.of_eq E4 (full_or_left _)
  obtain ⟨⟨g3, g4⟩, h34, G3, G4, mg3, mg4⟩ := identical_std tol htol p U M k _ _ false nc _ _ D3' E4'
  have G3' := StdVol.of_eq G3 (full_or_left _)
  have G4' := StdVol.of_eq G4 (full_or_left _)
  simp only [] at h12 h13 h14 h23 h24 h34 ma1 ma2 mb1 mb3 mc1 mc4 md2 md3 me2 me4 mg3 mg4
  -- `+=` three times
  have bas : ∀ {x y : Obj K}, StdVol x p U M (fun _ => true) false nc → StdVol y p U M (fun _ => true) false nc →
      ∀ d : Fin 3, y.basis d = x.basis d := fun hx hy d => by rw [hx.basis d, hy.basis d]
  obtain ⟨t1, ht1, t1s, t1w, t1n, t1e⟩ := cpsAdd_obj c1 e2 C1'.wf E2'.wf (bas C1' E2') (E2'.ncomp.trans C1'.ncomp.symm) false
  have T1 : StdVol ({ c1 with cps := t1 } : Obj K) p U M (fun _ => true) false nc := C1'.with_cps t1 t1w t1n
  obtain ⟨t2, ht2, t2s, t2w, t2n, t2e⟩ := cpsAdd_obj ({ c1 with cps := t1 } : Obj K) g3 T1.wf G3'.wf (bas T1 G3')
    (G3'.ncomp.trans T1.ncomp.symm) false
  have T2 : StdVol ({ c1 with cps := t2 } : Obj K) p U M (fun _ => true) false nc := T1.with_cps t2 t2w t2n
  obtain ⟨t3, ht3, t3s, t3w, t3n, t3e⟩ := cpsAdd_obj ({ c1 with cps := t2 } : Obj K) g4 T2.wf G4'.wf (bas T2 G4')
    (G4'.ncomp.trans T2.ncomp.symm) false
  have T3 : StdVol ({ c1 with cps := t3 } : Obj K) p U M (fun _ => true) false nc := T2.with_cps t3 t3w t3n
  -- the edge volumes
  have EU := edgeVolU_std p U M c1 ({ c1 with cps := t3 } : Obj K) C1' T3
  have EV := edgeVolV_std p U M e2 ({ c1 with cps := t3 } : Obj K) E2' T3
  have EW := edgeVolW_std p U M g3 ({ c1 with cps := t3 } : Obj K) G3' T3
  obtain ⟨⟨h, hU⟩, hhU, H, HU, mh, mhU⟩ := identical_std tol htol p U M k _ _ false nc _ _ T3 EU
  have H' := StdVol.of_eq H (full_or_left _)
  have HU' := StdVol.of_eq HU (full_or_left _)
  obtain ⟨⟨i, iV⟩, hiV, I, IV, mi, miV⟩ := identical_std tol htol p U M k _ _ false nc _ _ H' EV
  have I' := StdVol.of_eq I (full_or_left _)
  have IV' := StdVol.of_eq IV (full_or_left _)
  obtain ⟨⟨j, jW⟩, hjW, J, JW, mj, mjW⟩ := identical_std tol htol p U M k _ _ false nc _ _ I' EW
  have J' := StdVol.of_eq J (full_or_left _)
  have JW' := StdVol.of_eq JW (full_or_left _)
  simp only [] at hhU hiV hjW mh mhU mi miV mj mjW
  -- `-=` three times
  obtain ⟨q1, hq1, q1s, q1w, q1n, q1e⟩ := cpsAdd_obj j hU J'.wf HU'.wf (bas J' HU') (HU'.ncomp.trans J'.ncomp.symm) true
  have Q1 : StdVol ({ j with cps := q1 } : Obj K) p U M (fun _ => true) false nc := J'.with_cps q1 q1w q1n
  obtain ⟨q2, hq2, q2s, q2w, q2n, q2e⟩ := cpsAdd_obj ({ j with cps := q1 } : Obj K) iV Q1.wf IV'.wf (bas Q1 IV')
    (IV'.ncomp.trans Q1.ncomp.symm) true
  have Q2 : StdVol ({ j with cps := q2 } : Obj K) p U M (fun _ => true) false nc := Q1.with_cps q2 q2w q2n
  obtain ⟨q3, hq3, q3s, q3w, q3n, q3e⟩ := cpsAdd_obj ({ j with cps := q2 } : Obj K) jW Q2.wf JW'.wf (bas Q2 JW')
    (JW'.ncomp.trans Q2.ncomp.symm) true
  have Q3 : StdVol ({ j with cps := q3 } : Obj K) p U M (fun _ => true) false nc := Q2.with_cps q3 q3w q3n
  refine ⟨ru, rv, rw, cs, s4, c1, e2, g3, ({ c1 with cps := t3 } : Obj K), ({ j with cps := q3 } : Obj K),
    ⟨Ru1, Ru2, mu1, mu2⟩, ⟨Rv1, Rv2, mv1, mv2⟩, ⟨Rw1, Rw2, mw1, mw2⟩, hcs, hs4, C1', E2', G3', T3,
    (ma1.trans mb1).trans mc1, (ma2.trans md2).trans me2, (mb3.trans md3).trans mg3, ?_, Q3, ?_⟩
  · -- the call
    have hany : ([umin, umax, vmin, vmax, wmin, wmax].any fun x => x.rational) = false := by
      simp [hu0.rational, hu1.rational, hv0.rational, hv1.rational, hw0.rational, hw1.rational]
    have hrat1 : (ruledObj ru.1 ru.2).rational = false := Ru1.rational
    have hshape : ¬ (c1.cps.shape ≠ t3.shape ∨ e2.cps.shape ≠ t3.shape ∨ g3.cps.shape ≠ t3.shape) := by
      rw [t3s, t2s, t1s]
      have e1 := C1'.shape; have e2' := E2'.shape; have e3 := G3'.shape
      simp only [ne_eq, not_or, not_not]
      exact ⟨trivial, by rw [e1, e2'], by rw [e1, e3]⟩
    unfold Obj.edgeSurfaces
    simp only [hany, hru, hrv, hrw, hcs, hnc1, hrat1, bind, Except.bind, pure, Except.pure, throw, throwThe,
      MonadExceptOf.throw, Bool.false_eq_true, if_false]
    have hs4' : Obj.fromCorners 3 (List.map (fun r => cs.data.extract (r * nc) (r * nc + nc)) (List.range 8)) false
        = .ok s4 := hs4
    rw [hs4']; simp only []
    rw [h12]; simp only []
    rw [h13]; simp only []
    rw [h14]; simp only []
    rw [h23]; simp only []
    rw [h24]; simp only []
    rw [h34]; simp only []
    rw [ht1]; simp only []
    rw [ht2]; simp only []
    rw [ht3]; simp only []
    rw [if_neg hshape]
    have hhU' : makeIdentical tol false false ({ bases := c1.bases, cps := t3, rational := c1.rational } : Obj K)
        ({ bases := #[linearBasis, linearBasis, ({ bases := c1.bases, cps := t3, rational := c1.rational } : Obj K).basis 2],
           cps := Obj.edgeNet c1.cps 2, rational := c1.rational } : Obj K) none = .ok (h, hU) := hhU
    rw [hhU']; simp only []
    have hiV' : makeIdentical tol false false h
        ({ bases := #[({ bases := c1.bases, cps := t3, rational := c1.rational } : Obj K).basis 0, linearBasis, linearBasis],
           cps := Obj.edgeNet e2.cps 0, rational := c1.rational } : Obj K) none = .ok (i, iV) := hiV
    rw [hiV']; simp only []
    have hjW' : makeIdentical tol false false i
        ({ bases := #[linearBasis, ({ bases := c1.bases, cps := t3, rational := c1.rational } : Obj K).basis 1, linearBasis],
           cps := Obj.edgeNet g3.cps 1, rational := c1.rational } : Obj K) none = .ok (j, jW) := hjW
    rw [hjW']; simp only []
    rw [hq1]; simp only []
    rw [hq2]; simp only []
    rw [hq3]
  · intro comp hcomp sd u
    have n1 := V1.ncomp; have n2 := V2.ncomp; have n3 := V3.ncomp; have n4 := V4.ncomp
    have s1 := ((ma1.trans mb1).trans mc1).eval comp (by rw [n1]; exact hcomp) sd u
    have s2 := ((ma2.trans md2).trans me2).eval comp (by rw [n2]; exact hcomp) sd u
    have s3 := ((mb3.trans md3).trans mg3).eval comp (by rw [n3]; exact hcomp) sd u
    have s4' := ((mc4.trans me4).trans mg4).eval comp (by rw [n4]; exact hcomp) sd u
    have sU := mhU.eval comp (by rw [EU.ncomp]; exact hcomp) sd u
    have sV := miV.eval comp (by rw [EV.ncomp]; exact hcomp) sd u
    have sW := mjW.eval comp (by rw [EW.ncomp]; exact hcomp) sd u
    have sR := ((mh.trans mi).trans mj).eval comp (by rw [T3.ncomp]; exact hcomp) sd u
    have a1' := t1e comp (by rw [C1'.ncomp]; exact hcomp) sd u
    have a2' := t2e comp (by rw [T1.ncomp]; exact hcomp) sd u
    have a3' := t3e comp (by rw [T2.ncomp]; exact hcomp) sd u
    have b1' := q1e comp (by rw [J'.ncomp]; exact hcomp) sd u
    have b2' := q2e comp (by rw [Q1.ncomp]; exact hcomp) sd u
    have b3' := q3e comp (by rw [Q2.ncomp]; exact hcomp) sd u
    simp only [Bool.false_eq_true, if_false, if_true] at a1' a2' a3' b1' b2' b3'
    rw [b3', b2', b1', sR, a3', a2', a1', s1, s2, s3, s4', sU, sV, sW]

end C15
end Splipy
