import Mathlib.Tactic.Ring
import Mathlib.Tactic.Linarith
import Mathlib.Tactic.Positivity
import Mathlib.Tactic.FieldSimp
import Mathlib.Algebra.BigOperators.Group.List.Basic
import Splipy.Model.IOMesh
import Splipy.Lemmas.C19Index

/-! STL facet bookkeeping, SVG coordinate maps, SPL coefficient order. -/

namespace Splipy.FileIO

/-! ### STL -/

theorem mem_stlQuads {nu nv : ℕ} {q : List (ℕ × ℕ)} (h : q ∈ stlQuads nu nv) :
    ∃ i j, i < nu - 1 ∧ j < nv - 1 ∧ q = [(i, j), (i, j + 1), (i + 1, j + 1), (i + 1, j)] := by
  simp only [stlQuads, List.mem_flatMap, List.mem_map, List.mem_range] at h
  obtain ⟨i, hi, j, hj, rfl⟩ := h
  exact ⟨i, j, hi, hj, rfl⟩

theorem length_stlQuads (nu nv : ℕ) : (stlQuads nu nv).length = (nu - 1) * (nv - 1) := by
  simp [stlQuads, List.length_flatMap]

theorem length_flatMap_quads {α : Type} : ∀ (qs : List (List α)),
    (∀ q ∈ qs, ∃ a b c d, q = [a, b, c, d]) →
    (qs.flatMap stlFaceTris).length = 2 * qs.length
  | [], _ => rfl
  | q :: qs, h => by
    obtain ⟨a, b, c, d, rfl⟩ := h q (by simp)
    have ih := length_flatMap_quads qs (fun q' hq' => h q' (by simp [hq']))
    rw [List.flatMap_cons, List.length_append, ih]
    simp only [stlFaceTris, stlAddFace, List.length_cons, List.length_nil]
    omega

theorem length_stlTriangles (nu nv : ℕ) :
    (stlTriangles nu nv).length = 2 * (nu - 1) * (nv - 1) := by
  unfold stlTriangles
  rw [length_flatMap_quads, length_stlQuads, Nat.mul_assoc]
  intro q hq
  obtain ⟨i, j, _, _, rfl⟩ := mem_stlQuads hq
  exact ⟨_, _, _, _, rfl⟩

theorem mem_stlTriangles {nu nv : ℕ} {t : List (ℕ × ℕ)} (h : t ∈ stlTriangles nu nv) :
    ∃ i j, i < nu - 1 ∧ j < nv - 1 ∧
      (t = [(i, j), (i, j + 1), (i + 1, j + 1)] ∨ t = [(i + 1, j + 1), (i + 1, j), (i, j)]) := by
  simp only [stlTriangles, List.mem_flatMap] at h
  obtain ⟨q, hq, ht⟩ := h
  obtain ⟨i, j, hi, hj, rfl⟩ := mem_stlQuads hq
  simp only [stlFaceTris, stlAddFace, List.mem_cons, List.not_mem_nil, or_false] at ht
  exact ⟨i, j, hi, hj, ht⟩

theorem stlTriangles_vertex {nu nv : ℕ} {t : List (ℕ × ℕ)} (h : t ∈ stlTriangles nu nv) :
    t.length = 3 ∧ ∀ v ∈ t, v.1 < nu ∧ v.2 < nv := by
  obtain ⟨i, j, hi, hj, rfl | rfl⟩ := mem_stlTriangles h
  · refine ⟨rfl, ?_⟩
    intro v hv
    simp only [List.mem_cons, List.not_mem_nil, or_false] at hv
    rcases hv with rfl | rfl | rfl <;> simp <;> omega
  · refine ⟨rfl, ?_⟩
    intro v hv
    simp only [List.mem_cons, List.not_mem_nil, or_false] at hv
    rcases hv with rfl | rfl | rfl <;> simp <;> omega

/-! ### SVG -/

section Svg
variable {K : Type} [Field K] [LinearOrder K] [IsStrictOrderedRing K]

omit [LinearOrder K] [IsStrictOrderedRing K] in
theorem svg_read_write (L : SvgLayout K) (p : K × K) :
    svgReadPt L.height (svgWritePt L p) =
      (L.scale * p.1 + (L.ox - L.scale * L.cx),
       L.scale * p.2 + (L.oy - L.scale * L.cy - 2 * L.margin)) := by
  simp only [svgReadPt, svgWritePt]
  ext <;> simp <;> ring

theorem svgLayout_scale_pos (W H m x0 y0 x1 y1 : K) (hW : 0 < W) (hH : 0 < H) (_hm0 : 0 ≤ m)
    (hm : m < 1 / 2) (hx : x0 < x1) (_hy : y0 ≤ y1) :
    0 < (svgLayout W H m (x0, y0, x1, y1)).scale := by
  have hdx : 0 < x1 - x0 := by linarith
  have h12 : 0 < 1 - 2 * m := by linarith
  unfold svgLayout
  simp only []
  split_ifs with hr
  · have hratio : 0 < (y1 - y0) / (x1 - x0) := lt_trans (div_pos hH hW) hr
    have hdy : 0 < y1 - y0 := by
      by_contra hcon
      have : (y1 - y0) / (x1 - x0) ≤ 0 := div_nonpos_of_nonpos_of_nonneg (by linarith) hdx.le
      linarith
    exact div_pos (mul_pos hH h12) hdy
  · exact div_pos (mul_pos hW h12) hdx

end Svg

/-! ### SPL -/

theorem spl_index (physdim c : ℕ) {shape idx : List ℕ} (h : idx.length = shape.length) :
    ravelC (physdim :: shape.reverse) (c :: idx.reverse) = c * shape.prod + ravelF shape idx := by
  simp only [ravelC, List.prod_reverse, ravelC_reverse h]

end Splipy.FileIO
