import Splipy.Lemmas.C11Steps

/-!
# Refinement: the executable primitive writes are instances of the in-place contract
-/

namespace Splipy.Heap

theorem set_self_of_getElem? {α} {l : List α} {i : Nat} {a : α} (h : l[i]? = some a) : l.set i a = l := by
  obtain ⟨hl, rfl⟩ := List.getElem?_eq_some_iff.mp h
  exact List.set_getElem_self hl

theorem rec_owned {h : Heap} {a : Obj} {r : Nat} {rec : BasisRec} (hr : r ∈ a.bases)
    (hrec : h.recs[r]? = some rec) : rec.knots ∈ ownBufs h a := by
  rw [mem_ownBufs]; right; rw [mem_knotBufs]; exact ⟨r, hr, rec, hrec, rfl⟩

/-- The record condition of `InPlaceStep` when the record store is unchanged. -/
theorem recs_unchanged_cond {h : Heap} {a : Obj} (bl : Nat) :
    ∀ r rec, h.recs[r]? = some rec → (r ∈ a.bases ∨ h.recs.length ≤ r) →
      rec.knots ∈ ownBufs h a ∨ (h.bufs.length ≤ rec.knots ∧ rec.knots < bl) := by
  intro r rec hrec hcase
  rcases hcase with hr | hr
  · exact Or.inl (rec_owned hr hrec)
  · have := lt_of_getElem?_eq_some hrec; omega

/-- Doing nothing respects the in-place contract. -/
theorem InPlaceStep.rfl' {h : Heap} {i : Nat} {a : Obj} (ha : h.objs[i]? = some a) :
    InPlaceStep h h i :=
  ⟨a, a, ha, (set_self_of_getElem? ha).symm, Nat.le_refl _, Nat.le_refl _, fun _ _ _ => rfl,
    fun _ _ _ => rfl, fun _ hr => Or.inl hr, Or.inl (by simp [ownBufs]), recs_unchanged_cond _⟩

/-- Overwriting the contents of a buffer owned by the receiver. -/
theorem inPlace_writeBuf {h : Heap} {i : Nat} {a : Obj} (ha : h.objs[i]? = some a)
    {x : Nat} (hx : x ∈ ownBufs h a) (d : List Int) :
    InPlaceStep h { h with bufs := h.bufs.set x d } i := by
  refine ⟨a, a, ha, (set_self_of_getElem? ha).symm, by simp, Nat.le_refl _, ?_, fun _ _ _ => rfl,
    fun _ hr => Or.inl hr, Or.inl (by simp [ownBufs]),
    fun r rec hrec hc => recs_unchanged_cond (h := h) (a := a) _ r rec hrec hc⟩
  intro y _ hy
  have : x ≠ y := fun e => hy (e ▸ hx)
  simp [List.getElem?_set_ne this]

theorem inPlace_rebindCps {h : Heap} {i : Nat} {a : Obj} (ha : h.objs[i]? = some a) (d : List Int) :
    InPlaceStep h { h with bufs := h.bufs ++ [d], objs := h.objs.set i { a with cps := h.bufs.length } } i := by
  refine ⟨a, { a with cps := h.bufs.length }, ha, rfl, by simp, Nat.le_refl _, ?_, fun _ _ _ => rfl,
    fun _ hr => Or.inl hr, Or.inr ⟨Nat.le_refl _, by simp⟩,
    fun r rec hrec hc => recs_unchanged_cond (h := h) (a := a) _ r rec hrec hc⟩
  intro y hy _
  simp [List.getElem?_append_left hy]

theorem inPlace_rebindBasis {h : Heap} {i : Nat} {a : Obj} (w : WF h) (ha : h.objs[i]? = some a)
    (k ord : Nat) (per : Int) (d : List Int) :
    InPlaceStep h { bufs := h.bufs ++ [d], recs := h.recs ++ [⟨h.bufs.length, ord, per⟩],
                    objs := h.objs.set i { a with bases := a.bases.set k h.recs.length } } i := by
  have ham : a ∈ h.objs := List.mem_of_getElem? ha
  refine ⟨a, { a with bases := a.bases.set k h.recs.length }, ha, rfl, by simp, by simp, ?_, ?_, ?_,
    Or.inl (by simp [ownBufs]), ?_⟩
  · intro y hy _
    simp [List.getElem?_append_left hy]
  · intro r hr _
    simp [List.getElem?_append_left hr]
  · intro r hr
    rcases List.mem_or_eq_of_mem_set hr with hr | rfl
    · exact Or.inl hr
    · exact Or.inr ⟨Nat.le_refl _, by simp⟩
  · intro r rec hrec hcase
    rcases hcase with hr | hr
    · left
      have hlt := w.bases_lt a ham r hr
      simp only [List.getElem?_append_left hlt] at hrec
      exact rec_owned hr hrec
    · right
      simp only [List.getElem?_append_right hr] at hrec
      have h0 : r - h.recs.length = 0 := by
        have := lt_of_getElem?_eq_some hrec; simp at this; omega
      rw [h0] at hrec
      simp at hrec
      subst hrec
      exact ⟨Nat.le_refl _, by simp⟩

theorem inPlace_setRec {h : Heap} {i : Nat} {a : Obj} (ha : h.objs[i]? = some a)
    {b : Nat} (hb : b ∈ a.bases) {r : BasisRec} (hr : h.recs[b]? = some r) (ord : Nat) (per : Int) :
    InPlaceStep h { h with recs := h.recs.set b { r with order := ord, periodic := per } } i := by
  have hblt : b < h.recs.length := lt_of_getElem?_eq_some hr
  refine ⟨a, a, ha, (set_self_of_getElem? ha).symm, Nat.le_refl _, by simp, fun _ _ _ => rfl, ?_,
    fun _ hr => Or.inl hr, Or.inl (by simp [ownBufs]), ?_⟩
  · intro c _ hc
    have : b ≠ c := fun e => hc (e ▸ hb)
    simp [List.getElem?_set_ne this]
  · intro c rec hrec hcase
    left
    by_cases hbc : b = c
    · subst hbc
      simp only [List.getElem?_set_self hblt] at hrec
      cases hrec
      exact (rec_owned hb hr : r.knots ∈ ownBufs h a)
    · simp only [List.getElem?_set_ne hbc] at hrec
      rcases hcase with hc | hc
      · exact rec_owned hc hrec
      · have := lt_of_getElem?_eq_some hrec; omega

theorem inPlace_setRecKnots {h : Heap} {i : Nat} {a : Obj} (ha : h.objs[i]? = some a)
    {b : Nat} (hb : b ∈ a.bases) (hblt : b < h.recs.length) (ord : Nat) (per : Int) (d : List Int) :
    InPlaceStep h { h with bufs := h.bufs ++ [d], recs := h.recs.set b ⟨h.bufs.length, ord, per⟩ } i := by
  refine ⟨a, a, ha, (set_self_of_getElem? ha).symm, by simp, by simp, ?_, ?_, fun _ hr => Or.inl hr,
    Or.inl (by simp [ownBufs]), ?_⟩
  · intro y hy _
    simp [List.getElem?_append_left hy]
  · intro c _ hc
    have : b ≠ c := fun e => hc (e ▸ hb)
    simp [List.getElem?_set_ne this]
  · intro c rec hrec hcase
    by_cases hbc : b = c
    · subst hbc
      simp only [List.getElem?_set_self hblt] at hrec
      cases hrec
      exact Or.inr ⟨Nat.le_refl _, by simp⟩
    · simp only [List.getElem?_set_ne hbc] at hrec
      left
      rcases hcase with hc | hc
      · exact rec_owned hc hrec
      · have := lt_of_getElem?_eq_some hrec; omega

/-- Rebinding the receiver's own fields to things it already owns (permutation of its bases,
    scalar fields). -/
theorem inPlace_rebindOwn {h : Heap} {i : Nat} {a : Obj} (ha : h.objs[i]? = some a)
    (bases' : List Nat) (hsub : ∀ b ∈ bases', b ∈ a.bases) (dim : Nat) (rat : Bool) :
    InPlaceStep h { h with objs := h.objs.set i { a with bases := bases', dimension := dim, rational := rat } } i :=
  ⟨a, { a with bases := bases', dimension := dim, rational := rat }, ha, rfl, Nat.le_refl _,
    Nat.le_refl _, fun _ _ _ => rfl, fun _ _ _ => rfl, fun r hr => Or.inl (hsub r hr),
    Or.inl (by simp [ownBufs]), fun r rec hrec hc => recs_unchanged_cond (h := h) (a := a) _ r rec hrec hc⟩

/-- Every primitive write through a live receiver respects the in-place contract. -/
theorem applyPrimOn_inPlace {h : Heap} {i : Nat} {a : Obj} (w : WF h) (ha : h.objs[i]? = some a)
    (p : Prim) : InPlaceStep h (applyPrimOn h i a p) i := by
  cases p with
  | writeCps d => exact inPlace_writeBuf ha (by simp [ownBufs]) d
  | rebindCps d => exact inPlace_rebindCps ha d
  | writeKnots k d =>
    simp only [applyPrimOn]
    split
    · exact InPlaceStep.rfl' ha
    · rename_i b hk
      split
      · exact InPlaceStep.rfl' ha
      · rename_i r hr
        exact inPlace_writeBuf ha (rec_owned (List.mem_of_getElem? hk) hr) d
  | rebindBasis k ord per d =>
    simp only [applyPrimOn]
    split
    · exact inPlace_rebindBasis w ha k ord per d
    · exact InPlaceStep.rfl' ha
  | setRec k ord per kn =>
    simp only [applyPrimOn]
    split
    · exact InPlaceStep.rfl' ha
    · rename_i b hk
      split
      · exact InPlaceStep.rfl' ha
      · rename_i r hr
        split
        · exact inPlace_setRec ha (List.mem_of_getElem? hk) hr ord per
        · exact inPlace_setRecKnots ha (List.mem_of_getElem? hk) (lt_of_getElem?_eq_some hr) ord per _
  | swapBases k l =>
    simp only [applyPrimOn]
    split
    · rename_i x y hk hl
      refine inPlace_rebindOwn ha ((a.bases.set k y).set l x) ?_ a.dimension a.rational
      intro b hb
      rcases List.mem_or_eq_of_mem_set hb with hb | rfl
      · rcases List.mem_or_eq_of_mem_set hb with hb | rfl
        · exact hb
        · exact List.mem_of_getElem? hl
      · exact List.mem_of_getElem? hk
    · exact InPlaceStep.rfl' ha
  | setScalars d r => exact inPlace_rebindOwn ha a.bases (fun _ hb => hb) d r

theorem applyPrim_inPlace {h : Heap} {i : Nat} {a : Obj} (w : WF h) (ha : h.objs[i]? = some a)
    (p : Prim) : InPlaceStep h (applyPrim h i p) i := by
  simp only [applyPrim, ha]
  exact applyPrimOn_inPlace w ha p

/-- A write through a dangling handle does nothing. -/
theorem applyPrim_dangling {h : Heap} {i : Nat} (hi : h.objs[i]? = none) (p : Prim) : applyPrim h i p = h := by
  simp only [applyPrim, hi]

end Splipy.Heap
