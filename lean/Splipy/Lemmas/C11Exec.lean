import Splipy.Lemmas.C11Steps

/-!
# Refinement: the executable transitions are instances of the relational contracts
-/

namespace Splipy.Heap

theorem set_self_of_getElem? {α} {l : List α} {i : Nat} {a : α} (h : l[i]? = some a) : l.set i a = l := by
  obtain ⟨hl, rfl⟩ := List.getElem?_eq_some_iff.mp h
  exact List.set_getElem_self hl

/-- Doing nothing respects the in-place contract. -/
theorem InPlaceStep.rfl' {h : Heap} {i : Nat} {a : Obj} (w : WF h) (ha : h.objs[i]? = some a) :
    InPlaceStep h h i :=
  ⟨a, a, ha, (set_self_of_getElem? ha).symm, Nat.le_refl _, Nat.le_refl _, fun _ _ _ => rfl,
    fun _ _ _ => rfl, fun _ hr => Or.inl hr, fun _ hx => Or.inl hx, w⟩

/-- `WF` after replacing object `i` and extending/overwriting the stores. -/
theorem wf_update {h h' : Heap} {i : Nat} {a' : Obj} (w : WF h)
    (hobjs : h'.objs = h.objs.set i a')
    (hbl : h.bufs.length ≤ h'.bufs.length) (hrl : h.recs.length ≤ h'.recs.length)
    (hcps : a'.cps < h'.bufs.length) (hbases : ∀ b ∈ a'.bases, b < h'.recs.length)
    (hknots : ∀ r ∈ h'.recs, r.knots < h'.bufs.length) : WF h' := by
  refine ⟨?_, ?_, hknots⟩
  · intro o ho
    rw [hobjs] at ho
    rcases List.mem_or_eq_of_mem_set ho with ho | rfl
    · have := w.cps_lt o ho; omega
    · exact hcps
  · intro o ho b hb
    rw [hobjs] at ho
    rcases List.mem_or_eq_of_mem_set ho with ho | rfl
    · have := w.bases_lt o ho b hb; omega
    · exact hbases b hb

/-- Overwriting the contents of a buffer owned by the receiver. -/
theorem inPlace_writeBuf {h : Heap} {i : Nat} {a : Obj} (w : WF h) (ha : h.objs[i]? = some a)
    {x : Nat} (hx : x ∈ ownBufs h a) (d : List Int) :
    InPlaceStep h { h with bufs := h.bufs.set x d } i := by
  have ham : a ∈ h.objs := List.mem_of_getElem? ha
  refine ⟨a, a, ha, (set_self_of_getElem? ha).symm, by simp, Nat.le_refl _, ?_, fun _ _ _ => rfl,
    fun _ hr => Or.inl hr, fun y hy => Or.inl hy, ?_⟩
  · intro y _ hy
    have : x ≠ y := fun e => hy (e ▸ hx)
    simp [List.getElem?_set_ne this]
  · exact ⟨fun o ho => by simpa using w.cps_lt o ho, w.bases_lt, fun r hr => by simpa using w.knots_lt r hr⟩

theorem inPlace_rebindCps {h : Heap} {i : Nat} {a : Obj} (w : WF h) (ha : h.objs[i]? = some a)
    (d : List Int) :
    InPlaceStep h { h with bufs := h.bufs ++ [d], objs := h.objs.set i { a with cps := h.bufs.length } } i := by
  have ham : a ∈ h.objs := List.mem_of_getElem? ha
  refine ⟨a, { a with cps := h.bufs.length }, ha, rfl, by simp, Nat.le_refl _, ?_, fun _ _ _ => rfl,
    fun _ hr => Or.inl hr, ?_, ?_⟩
  · intro y hy _
    simp [List.getElem?_append_left hy]
  · intro y hy
    rw [mem_ownBufs] at hy
    rcases hy with rfl | hy
    · right; exact Nat.le_refl _
    · left; rw [mem_ownBufs]; right; exact hy
  · refine wf_update w rfl (by simp) (Nat.le_refl _) ?_ ?_ ?_
    · simp
    · exact w.bases_lt a ham
    · intro r hr; have := w.knots_lt r hr; simp; omega

theorem inPlace_rebindBasis {h : Heap} {i : Nat} {a : Obj} (w : WF h) (ha : h.objs[i]? = some a)
    (k ord : Nat) (per : Int) (d : List Int) :
    InPlaceStep h { bufs := h.bufs ++ [d], recs := h.recs ++ [⟨h.bufs.length, ord, per⟩],
                    objs := h.objs.set i { a with bases := a.bases.set k h.recs.length } } i := by
  have ham : a ∈ h.objs := List.mem_of_getElem? ha
  refine ⟨a, { a with bases := a.bases.set k h.recs.length }, ha, rfl, by simp, by simp, ?_, ?_, ?_, ?_, ?_⟩
  · intro y hy _
    simp [List.getElem?_append_left hy]
  · intro r hr _
    simp [List.getElem?_append_left hr]
  · intro r hr
    rcases List.mem_or_eq_of_mem_set hr with hr | rfl
    · exact Or.inl hr
    · exact Or.inr (Nat.le_refl _)
  · intro y hy
    rw [mem_ownBufs] at hy
    rcases hy with rfl | hy
    · left; simp [ownBufs]
    · rw [mem_knotBufs] at hy
      obtain ⟨b, hb, r, hr, rfl⟩ := hy
      rcases List.mem_or_eq_of_mem_set hb with hb | rfl
      · left
        have hlt := w.bases_lt a ham b hb
        simp only [List.getElem?_append_left hlt] at hr
        rw [mem_ownBufs]; right; rw [mem_knotBufs]; exact ⟨b, hb, r, hr, rfl⟩
      · right
        simp at hr
        subst hr; exact Nat.le_refl _
  · refine wf_update w rfl (by simp) (by simp) ?_ ?_ ?_
    · have := w.cps_lt a ham; simp; omega
    · intro b hb
      rcases List.mem_or_eq_of_mem_set hb with hb | rfl
      · have := w.bases_lt a ham b hb; simp; omega
      · simp
    · intro r hr
      simp only [List.mem_append, List.mem_singleton] at hr
      rcases hr with hr | rfl
      · have := w.knots_lt r hr; simp; omega
      · simp

theorem inPlace_setRec {h : Heap} {i : Nat} {a : Obj} (w : WF h) (ha : h.objs[i]? = some a)
    {b : Nat} (hb : b ∈ a.bases) {r : BasisRec} (hr : h.recs[b]? = some r) (ord : Nat) (per : Int) :
    InPlaceStep h { h with recs := h.recs.set b { r with order := ord, periodic := per } } i := by
  have ham : a ∈ h.objs := List.mem_of_getElem? ha
  have hblt : b < h.recs.length := lt_of_getElem?_eq_some hr
  have hk : ∀ c : Nat, ((h.recs.set b { r with order := ord, periodic := per })[c]?).map (fun x : BasisRec => x.knots)
      = (h.recs[c]?).map (fun x : BasisRec => x.knots) := by
    intro c
    by_cases hc : b = c
    · subst hc; rw [List.getElem?_set_self hblt, hr]; rfl
    · rw [List.getElem?_set_ne hc]
  refine ⟨a, a, ha, (set_self_of_getElem? ha).symm, Nat.le_refl _, by simp, fun _ _ _ => rfl, ?_,
    fun _ hr => Or.inl hr, ?_, ?_⟩
  · intro c _ hc
    have : b ≠ c := fun e => hc (e ▸ hb)
    simp [List.getElem?_set_ne this]
  · intro y hy
    left
    have : ownBufs { h with recs := h.recs.set b { r with order := ord, periodic := per } } a = ownBufs h a :=
      ownBufs_congr (fun c _ => hk c)
    rw [← this]; exact hy
  · refine ⟨w.cps_lt, fun o ho c hc => by simpa using w.bases_lt o ho c hc, ?_⟩
    intro r' hr'
    rcases List.mem_or_eq_of_mem_set hr' with hr' | rfl
    · exact w.knots_lt r' hr'
    · exact w.knots_lt r (List.mem_of_getElem? hr)

theorem inPlace_setRecKnots {h : Heap} {i : Nat} {a : Obj} (w : WF h) (ha : h.objs[i]? = some a)
    {b : Nat} (hb : b ∈ a.bases) (hblt : b < h.recs.length) (ord : Nat) (per : Int) (d : List Int) :
    InPlaceStep h { h with bufs := h.bufs ++ [d], recs := h.recs.set b ⟨h.bufs.length, ord, per⟩ } i := by
  have ham : a ∈ h.objs := List.mem_of_getElem? ha
  refine ⟨a, a, ha, (set_self_of_getElem? ha).symm, by simp, by simp, ?_, ?_, fun _ hr => Or.inl hr, ?_, ?_⟩
  · intro y hy _
    simp [List.getElem?_append_left hy]
  · intro c _ hc
    have : b ≠ c := fun e => hc (e ▸ hb)
    simp [List.getElem?_set_ne this]
  · intro y hy
    rw [mem_ownBufs] at hy
    rcases hy with rfl | hy
    · left; simp [ownBufs]
    · rw [mem_knotBufs] at hy
      obtain ⟨c, hc, r, hr, rfl⟩ := hy
      by_cases hbc : b = c
      · subst hbc
        simp only [List.getElem?_set_self hblt] at hr
        cases hr
        right; exact Nat.le_refl _
      · simp only [List.getElem?_set_ne hbc] at hr
        left; rw [mem_ownBufs]; right; rw [mem_knotBufs]; exact ⟨c, hc, r, hr, rfl⟩
  · refine ⟨fun o ho => ?_, fun o ho c hc => by simpa using w.bases_lt o ho c hc, ?_⟩
    · have := w.cps_lt o ho; simp; omega
    · intro r' hr'
      rcases List.mem_or_eq_of_mem_set hr' with hr' | rfl
      · have := w.knots_lt r' hr'; simp; omega
      · simp

/-- Rebinding the receiver's own fields to things it already owns (permutation of its bases,
    scalar fields). -/
theorem inPlace_rebindOwn {h : Heap} {i : Nat} {a : Obj} (w : WF h) (ha : h.objs[i]? = some a)
    (bases' : List Nat) (hsub : ∀ b ∈ bases', b ∈ a.bases) (dim : Nat) (rat : Bool) :
    InPlaceStep h { h with objs := h.objs.set i { a with bases := bases', dimension := dim, rational := rat } } i := by
  have ham : a ∈ h.objs := List.mem_of_getElem? ha
  refine ⟨a, { a with bases := bases', dimension := dim, rational := rat }, ha, rfl, Nat.le_refl _,
    Nat.le_refl _, fun _ _ _ => rfl, fun _ _ _ => rfl, fun r hr => Or.inl (hsub r hr), ?_, ?_⟩
  · intro y hy
    left
    rw [mem_ownBufs] at hy ⊢
    rcases hy with rfl | hy
    · left; rfl
    · right
      rw [mem_knotBufs] at hy ⊢
      obtain ⟨c, hc, r, hr, rfl⟩ := hy
      exact ⟨c, hsub c hc, r, hr, rfl⟩
  · exact wf_update w rfl (Nat.le_refl _) (Nat.le_refl _) (w.cps_lt a ham)
      (fun b hb => w.bases_lt a ham b (hsub b hb)) w.knots_lt

/-- Every primitive write through a live receiver respects the in-place contract. -/
theorem applyPrimOn_inPlace {h : Heap} {i : Nat} {a : Obj} (w : WF h) (ha : h.objs[i]? = some a)
    (p : Prim) : InPlaceStep h (applyPrimOn h i a p) i := by
  cases p with
  | writeCps d => exact inPlace_writeBuf w ha (by simp [ownBufs]) d
  | rebindCps d => exact inPlace_rebindCps w ha d
  | writeKnots k d =>
    simp only [applyPrimOn]
    split
    · exact InPlaceStep.rfl' w ha
    · rename_i b hk
      split
      · exact InPlaceStep.rfl' w ha
      · rename_i r hr
        refine inPlace_writeBuf w ha ?_ d
        rw [mem_ownBufs]; right; rw [mem_knotBufs]
        exact ⟨b, List.mem_of_getElem? hk, r, hr, rfl⟩
  | rebindBasis k ord per d =>
    simp only [applyPrimOn]
    split
    · exact inPlace_rebindBasis w ha k ord per d
    · exact InPlaceStep.rfl' w ha
  | setRec k ord per kn =>
    simp only [applyPrimOn]
    split
    · exact InPlaceStep.rfl' w ha
    · rename_i b hk
      split
      · exact InPlaceStep.rfl' w ha
      · rename_i r hr
        split
        · exact inPlace_setRec w ha (List.mem_of_getElem? hk) hr ord per
        · exact inPlace_setRecKnots w ha (List.mem_of_getElem? hk) (lt_of_getElem?_eq_some hr) ord per _
  | swapBases k l =>
    simp only [applyPrimOn]
    split
    · rename_i x y hk hl
      refine inPlace_rebindOwn w ha ((a.bases.set k y).set l x) ?_ a.dimension a.rational
      intro b hb
      rcases List.mem_or_eq_of_mem_set hb with hb | rfl
      · rcases List.mem_or_eq_of_mem_set hb with hb | rfl
        · exact hb
        · exact List.mem_of_getElem? hl
      · exact List.mem_of_getElem? hk
    · exact InPlaceStep.rfl' w ha
  | setScalars d r => exact inPlace_rebindOwn w ha a.bases (fun _ hb => hb) d r

theorem applyPrim_inPlace {h : Heap} {i : Nat} {a : Obj} (w : WF h) (ha : h.objs[i]? = some a)
    (p : Prim) : InPlaceStep h (applyPrim h i p) i := by
  simp only [applyPrim, ha]
  exact applyPrimOn_inPlace w ha p

/-- A write through a dangling handle does nothing. -/
theorem applyPrim_dangling {h : Heap} {i : Nat} (hi : h.objs[i]? = none) (p : Prim) : applyPrim h i p = h := by
  simp only [applyPrim, hi]

end Splipy.Heap
