import Splipy.Lemmas.C17Rational

/-! Lemmas for C17: sections of objects — enumeration tables (parametric dimension ≤ 3, kernel
evaluation over the complete finite lists), the universe `GU` of well-formed objects (rational with
positive weights, or not),
and compatibility of `≈` with sections. -/

namespace Splipy.MP

open Orientation in
/-- table row: facts about one section tuple -/
def secRow (n : ℕ) (sec : Sec) : Bool :=
  decide ((variableDirs sec).length = secTgtDim sec) &&
  (variableDirs sec).all (· < n) &&
  (decide (secTgtDim sec < n) → decide (sec ∈ sections n (secTgtDim sec)))

theorem secTable0 : ∀ sec ∈ allSecs 0, secRow 0 sec = true := by decide +kernel
theorem secTable1 : ∀ sec ∈ allSecs 1, secRow 1 sec = true := by decide +kernel
theorem secTable2 : ∀ sec ∈ allSecs 2, secRow 2 sec = true := by decide +kernel
theorem secTable3 : ∀ sec ∈ allSecs 3, secRow 3 sec = true := by decide +kernel

theorem secTable {n : ℕ} (hn : n ≤ 3) {sec : Sec} (hs : sec.length = n) : secRow n sec = true := by
  have hs' := (mem_allSecs n sec).2 hs
  have h4 : n = 0 ∨ n = 1 ∨ n = 2 ∨ n = 3 := by omega
  rcases h4 with rfl | rfl | rfl | rfl
  · exact secTable0 sec hs'
  · exact secTable1 sec hs'
  · exact secTable2 sec hs'
  · exact secTable3 sec hs'

/-- every generated section has the right length and target dimension -/
def sectionsRow (n : ℕ) : Bool :=
  (List.range (n + 1)).all fun i => (sections n i).all fun sec =>
    decide (sec.length = n) && decide (secTgtDim sec = i)

theorem sectionsTable {n : ℕ} (hn : n ≤ 3) : sectionsRow n = true := by
  have h4 : n = 0 ∨ n = 1 ∨ n = 2 ∨ n = 3 := by omega
  rcases h4 with rfl | rfl | rfl | rfl <;> decide +kernel

theorem mem_sections {n i : ℕ} (hn : n ≤ 3) (hi : i ≤ n) {sec : Sec} (h : sec ∈ sections n i) :
    sec.length = n ∧ secTgtDim sec = i := by
  have := sectionsTable hn
  simp only [sectionsRow, List.all_eq_true, List.mem_range, Bool.and_eq_true, decide_eq_true_eq] at this
  exact this i (by omega) sec h

open Orientation in
/-- table row for one orientation and one section: the bases of the section follow the
    orientation, and the facets are permuted -/
def viewRow (_n : ℕ) (o : Orientation) (sec : Sec) : Bool :=
  let v := o.viewSection sec
  let vd := variableDirs sec
  let vd' := variableDirs (o.mapSection sec)
  decide (vd'.length = vd.length) &&
  (List.range vd'.length).all fun k =>
    decide (vd.getD (v.perm.getD k 0) 0 = o.perm.getD (vd'.getD k 0) 0) &&
    decide (v.flip.getD k false = o.flip.getD (vd'.getD k 0) false)

theorem viewTable0 : ∀ o ∈ Orientation.all 0, ∀ sec ∈ allSecs 0, viewRow 0 o sec = true := by decide +kernel
theorem viewTable1 : ∀ o ∈ Orientation.all 1, ∀ sec ∈ allSecs 1, viewRow 1 o sec = true := by decide +kernel
theorem viewTable2 : ∀ o ∈ Orientation.all 2, ∀ sec ∈ allSecs 2, viewRow 2 o sec = true := by decide +kernel
set_option maxRecDepth 100000 in
theorem viewTable3 : ∀ o ∈ Orientation.all 3, ∀ sec ∈ allSecs 3, viewRow 3 o sec = true := by decide +kernel

theorem viewTable {n : ℕ} (hn : n ≤ 3) {o : Orientation} (ho : o.WF n) {sec : Sec}
    (hs : sec.length = n) : viewRow n o sec = true := by
  have ho' := (Orientation.mem_all n o).2 ho
  have hs' := (mem_allSecs n sec).2 hs
  have h4 : n = 0 ∨ n = 1 ∨ n = 2 ∨ n = 3 := by omega
  rcases h4 with rfl | rfl | rfl | rfl
  · exact viewTable0 o ho' sec hs'
  · exact viewTable1 o ho' sec hs'
  · exact viewTable2 o ho' sec hs'
  · exact viewTable3 o ho' sec hs'

/-- the codimension-1 sections are permuted by `map_section` -/
def facetRow (n : ℕ) (o : Orientation) : Bool :=
  let F := sections n (n - 1)
  decide ((F.map (fun s => F.idxOf (o.mapSection s))).Perm (List.range F.length)) &&
  F.all (fun s => decide (o.mapSection s ∈ F))

theorem facetTable1 : ∀ o ∈ Orientation.all 1, facetRow 1 o = true := by decide +kernel
theorem facetTable2 : ∀ o ∈ Orientation.all 2, facetRow 2 o = true := by decide +kernel
theorem facetTable3 : ∀ o ∈ Orientation.all 3, facetRow 3 o = true := by decide +kernel

theorem facetTable {n : ℕ} (h1 : 1 ≤ n) (hn : n ≤ 3) {o : Orientation} (ho : o.WF n) :
    facetRow n o = true := by
  have ho' := (Orientation.mem_all n o).2 ho
  have h4 : n = 1 ∨ n = 2 ∨ n = 3 := by omega
  rcases h4 with rfl | rfl | rfl
  · exact facetTable1 o ho'
  · exact facetTable2 o ho'
  · exact facetTable3 o ho'

/-! ### sections of objects -/

open Orientation in
theorem Obj.sect_pardim (x : Obj) (sec : Sec) : (x.sect sec).pardim = (variableDirs sec).length := by
  simp [Obj.sect, Obj.pardim]

open Orientation in
theorem Obj.sect_shape (x : Obj) (sec : Sec) :
    (x.sect sec).shape = (variableDirs sec).map (fun e => x.shape.getD e 0) := rfl

theorem Obj.sect_rational (x : Obj) (sec : Sec) : (x.sect sec).rational = x.rational := rfl

open Orientation in
theorem Obj.sect_bases_getD (x : Obj) (sec : Sec) (k : ℕ) (hk : k < (variableDirs sec).length) :
    (x.sect sec).bases.getD k default = x.bases.getD ((variableDirs sec).getD k 0) default := by
  have h1 : k < ((variableDirs sec).map (fun d => x.bases.getD d default)).length := by simpa using hk
  show ((variableDirs sec).map (fun d => x.bases.getD d default)).getD k default = _
  rw [List.getD_eq_getElem _ _ h1, List.getD_eq_getElem _ _ hk]
  simp

/-- `map_section`/`view_section` commute with `map_array` (pardim ≤ 3) -/
theorem mapSection_commutes {α : Type} [Inhabited α] {n : ℕ} (hn : n ≤ 3) {o : Orientation}
    (ho : o.WF n) {sec : Sec} (hs : sec.length = n) (X : NdArr α) (hX : X.shape.length = n)
    (hpos : ∀ m ∈ X.shape, 0 < m) :
    (o.mapArray X).sect (o.mapSection sec) = (o.viewSection sec).mapArray (X.sect sec) := by
  have ht := sectionTable hn ho hs
  simp only [sectionRow, Bool.and_eq_true, decide_eq_true_eq] at ht
  obtain ⟨⟨⟨⟨⟨⟨heq, hc1⟩, hc2⟩, hc3⟩, _⟩, _⟩, _⟩ := ht
  have hco : o.toReindex.Consistent X.shape.length = true := by
    rw [hX]; exact Orientation.toReindex_consistent ho
  unfold Orientation.mapArray NdArr.sect
  rw [← Reindex.apply_comp _ _ X hco (by
        show (Sec.toReindex (o.mapSection sec)).Consistent o.perm.length = true
        rw [ho.isPerm.length]; exact hc2) hpos,
      ← Reindex.apply_comp _ _ X (by rw [hX]; exact hc1) hc3 hpos, heq]

/-- The universe of the catalogue theorem: well-formed array objects of physical dimension `D`
    (`D` components per control point, plus a POSITIVE weight when rational) and parametric
    dimension ≤ 3.  Rational and non-rational objects may be mixed. -/
structure GU (D : ℕ) (x : Obj) : Prop where
  good : x.Good
  comps : ∀ k, k < x.cps.data.size →
    (x.cps.data.getD k []).length = D + (if x.rational then 1 else 0)
  wpos : x.rational = true → WPos x.cps
  small : x.pardim ≤ 3

theorem GU.size_pos {D : ℕ} {x : Obj} (h : GU D x) : 0 < x.cps.data.size := by
  rw [h.good.size]; exact shapeSize_pos h.good.pos

theorem GU.ncomp {D : ℕ} {x : Obj} (h : GU D x) : x.ncomp = D + (if x.rational then 1 else 0) := by
  unfold Obj.ncomp
  exact h.comps 0 h.size_pos

theorem GU.dimension {D : ℕ} {x : Obj} (h : GU D x) : x.dimension = D := by
  unfold Obj.dimension
  rw [h.ncomp]
  cases x.rational <;> simp

theorem GU.qpos {D : ℕ} {x : Obj} (h : GU D x) : WPos (qnet x) := by
  unfold qnet
  by_cases hr : x.rational = true
  · rw [if_pos hr]; exact h.wpos hr
  · rw [if_neg hr]
    intro k hk
    have hk' : k < x.cps.data.size := by simpa [promoteNet, NdArr.map] using hk
    simp [promoteNet, NdArr.map, Array.getD_eq_getD_getElem?, hk', lastD]

theorem GU.wsum_ne {D : ℕ} {x : Obj} (h : GU D x) : wsum (qnet x) ≠ 0 :=
  ne_of_gt (wsum_pos (by rw [qnet_size]; exact h.size_pos) h.qpos)

/-- an entry of a section is an entry of the array -/
theorem sect_data_getD {α : Type} [Inhabited α] (X : NdArr α) (sec : Sec) (d : α)
    (hc : (Sec.toReindex sec).Consistent X.shape.length = true) (hpos : ∀ n ∈ X.shape, 0 < n)
    (hsz : X.data.size = shapeSize X.shape) (k : ℕ) (hk : k < (X.sect sec).data.size) :
    ∃ j, j < X.data.size ∧ (X.sect sec).data.getD k d = X.data.getD j d := by
  have hk' : k < shapeSize ((Sec.toReindex sec).shape X.shape) := by
    rw [show (X.sect sec).data.size = shapeSize ((Sec.toReindex sec).shape X.shape) from
      apply_data_size _ _] at hk; exact hk
  have hlt := flatIdx_lt (Sec.toReindex sec) X.shape hc hpos k hk'
  refine ⟨flatIdx (Sec.toReindex sec) X.shape k, by rw [hsz]; exact hlt, ?_⟩
  have h1 := apply_data_getD (Sec.toReindex sec) X k hk'
  have hk2 : k < ((Sec.toReindex sec).apply X).data.size := hk
  have hj : flatIdx (Sec.toReindex sec) X.shape k < X.data.size := by rw [hsz]; exact hlt
  rw [Array.getD_eq_getD_getElem?, Array.getElem?_eq_getElem hk2, Option.getD_some,
    Array.getD_eq_getD_getElem?, Array.getElem?_eq_getElem hj, Option.getD_some] at h1
  show ((Sec.toReindex sec).apply X).data.getD k d = _
  rw [Array.getD_eq_getD_getElem?, Array.getElem?_eq_getElem hk2, Option.getD_some,
    Array.getD_eq_getD_getElem?, Array.getElem?_eq_getElem hj, Option.getD_some]
  exact h1

open Orientation in
theorem GU.sect {D : ℕ} {x : Obj} (h : GU D x) {sec : Sec} (hs : sec.length = x.pardim) :
    GU D (x.sect sec) := by
  have hrow := secTable h.small hs
  simp only [secRow, Bool.and_eq_true, decide_eq_true_eq, List.all_eq_true] at hrow
  obtain ⟨⟨hvl, hvlt⟩, _⟩ := hrow
  have hax : x.cps.shape.length = x.pardim := h.good.axes
  have hcons : (Sec.toReindex sec).Consistent x.cps.shape.length = true := by
    rw [hax]; exact sec_consistent h.small hs
  have hvin : ∀ e ∈ variableDirs sec, e < x.shape.length := by
    intro e he
    rw [h.good.axes]
    exact hvlt e he
  have hentry := fun k hk => sect_data_getD x.cps sec [] hcons h.good.pos h.good.size k hk
  refine ⟨⟨?_, ?_, ?_, ?_⟩, ?_, ?_, ?_⟩
  · rw [Obj.sect_shape, Obj.sect_pardim]; simp
  · show ((Sec.toReindex sec).apply x.cps).data.size = shapeSize ((Sec.toReindex sec).apply x.cps).shape
    simp [Reindex.apply, NdArr.ofFn]
  · intro m hm
    rw [Obj.sect_shape] at hm
    simp only [List.mem_map] at hm
    obtain ⟨e, he, rfl⟩ := hm
    exact Reindex.getD_pos h.good.pos (hvin e he)
  · intro k hk
    rw [Obj.sect_pardim] at hk
    rw [Obj.sect_bases_getD x sec k hk]
    apply h.good.knots
    rw [List.getD_eq_getElem _ _ hk]
    exact hvlt _ (List.getElem_mem _)
  · intro k hk
    obtain ⟨j, hj, he⟩ := hentry k hk
    show ((x.cps.sect sec).data.getD k []).length = _
    rw [he, Obj.sect_rational]; exact h.comps j hj
  · intro hr k hk
    obtain ⟨j, hj, he⟩ := hentry k hk
    show 0 < lastD ((x.cps.sect sec).data.getD k [])
    rw [he]; exact h.wpos hr j hj
  · rw [Obj.sect_pardim, hvl]
    have := h.small
    have hle : secTgtDim sec ≤ sec.length := by
      unfold secTgtDim; exact List.length_filter_le _ _
    omega

/-- **`≈` is compatible with sections**: if `o = compute a b` then the section `sec` of `b` is
    equivalent to the section `o.map_section(sec)` of `a` (through `o.view_section(sec)`). -/
theorem sect_equiv {D : ℕ} {a b : Obj} (ha : GU D a) (hb : GU D b) {o : Orientation}
    (hc : Orientation.compute a b = .ok o) {sec : Sec} (hs : sec.length = b.pardim) :
    Equiv (a.sect (o.mapSection sec)) (b.sect sec) := by
  obtain ⟨hwf, hfit, hp, _⟩ := compute_sound a b o hc
  obtain ⟨_, harr, hbm⟩ := (fits_pnet_iff hwf hb.good hp.symm).1 hfit
  have hn : a.pardim ≤ 3 := ha.small
  have hs' : sec.length = a.pardim := by rw [hs, hp]
  -- tables
  have hst := sectionTable hn hwf hs'
  simp only [sectionRow, Bool.and_eq_true, decide_eq_true_eq] at hst
  obtain ⟨⟨⟨_, hvwf⟩, hml⟩, _⟩ := hst
  have hvt := viewTable hn hwf hs'
  simp only [viewRow, Bool.and_eq_true, decide_eq_true_eq, List.all_eq_true, List.mem_range] at hvt
  obtain ⟨hvlen, hvk⟩ := hvt
  have hsr := secTable hn hs'
  simp only [secRow, Bool.and_eq_true, decide_eq_true_eq, List.all_eq_true] at hsr
  have hsr' := secTable hn hml
  simp only [secRow, Bool.and_eq_true, decide_eq_true_eq, List.all_eq_true] at hsr'
  have hga := ha.sect (sec := o.mapSection sec) hml
  have hgb := hb.sect hs
  have hpd : (a.sect (o.mapSection sec)).pardim = (b.sect sec).pardim := by
    rw [Obj.sect_pardim, Obj.sect_pardim, hvlen]
  have hvwf' : (o.viewSection sec).WF (a.sect (o.mapSection sec)).pardim := by
    rw [Obj.sect_pardim, hvlen, hsr.1.1]; exact hvwf
  apply compute_complete _ _ hgb.good.axes hpd (by rw [hga.dimension, hgb.dimension])
  refine ⟨o.viewSection sec, hvwf', ?_⟩
  rw [fits_pnet_iff hvwf' hgb.good hpd.symm]
  -- the canonical nets
  have hpb_len : (pnet b).shape.length = a.pardim := by rw [pnet_shape, hp]; exact hb.good.axes
  have hpb_pos : ∀ m ∈ (pnet b).shape, 0 < m := by rw [pnet_shape]; exact hb.good.pos
  have hcomm := mapSection_commutes hn hwf hs' (pnet b) hpb_len hpb_pos
  rw [harr] at hcomm
  have hsb_len : ((pnet b).sect sec).shape.length = (a.sect (o.mapSection sec)).pardim := by
    show ((Sec.toReindex sec).shape (pnet b).shape).length = _
    rw [Reindex.shape_length, Obj.sect_pardim, hvlen]; rfl
  have hsb_pos : ∀ m ∈ ((pnet b).sect sec).shape, 0 < m := by
    have := hgb.good.pos
    rw [Obj.sect_shape] at this
    show ∀ m ∈ (Sec.toReindex sec).shape (pnet b).shape, 0 < m
    rw [pnet_shape]; exact this
  have hsb_sz : ((pnet b).sect sec).data.size = shapeSize ((pnet b).sect sec).shape :=
    apply_data_size _ _
  have hnet : (o.viewSection sec).mapArray (pnet (b.sect sec)) = pnet (a.sect (o.mapSection sec)) := by
    rw [pnet_sect b sec hb.small hs hb.good hb.wsum_ne,
      pnet_sect a (o.mapSection sec) ha.small hml ha.good ha.wsum_ne, hcomm,
      mapArray_normWeights hvwf' _ hsb_len hsb_pos hsb_sz]
  refine ⟨?_, hnet, ?_⟩
  · have := congrArg NdArr.shape hnet
    rw [pnet_shape] at this
    rw [← this]
    show (o.viewSection sec).mapShape (b.sect sec).shape = (o.viewSection sec).mapShape (pnet (b.sect sec)).shape
    rw [pnet_shape]
  · rw [basesMatch_iff]
    intro k hk
    rw [Obj.sect_pardim] at hk
    obtain ⟨hk1, hk2⟩ := hvk k hk
    have hkv : (o.viewSection sec).perm.getD k 0 < (Orientation.variableDirs sec).length := by
      have := hvwf.isPerm.getD_lt (d := k) (by rw [← hsr.1.1, ← hvlen]; exact hk)
      rw [hsr.1.1]; exact this
    rw [Obj.sect_bases_getD a _ k hk, Obj.sect_bases_getD b sec _ hkv, hk1, hk2]
    rw [basesMatch_iff] at hbm
    apply hbm
    rw [List.getD_eq_getElem _ _ hk]
    exact hsr'.1.2 _ (List.getElem_mem _)

end Splipy.MP
