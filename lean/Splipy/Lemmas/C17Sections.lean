import Splipy.Lemmas.C17Tables
import Splipy.Lemmas.C17Equiv

/-! Lemmas for C17: sections of objects — enumeration tables (parametric dimension ≤ 3, kernel
evaluation over the complete finite lists), the universe `GU` of well-formed non-rational objects,
and compatibility of `≈` with sections. -/

namespace Splipy.MP

open Orientation in
/-- table row: facts about one section tuple -/
def secRow (n : ℕ) (sec : Sec) : Bool :=
  decide ((variableDirs sec).length = secTgtDim sec) &&
  (variableDirs sec).all (· < n) &&
  (decide (secTgtDim sec < n) → decide (sec ∈ sections n (secTgtDim sec)))

theorem secTable0 : ∀ sec ∈ allSecs 0, secRow 0 sec = true := by decide +kernel
theorem secTable1 : ∀ sec ∈ allSecs 1, secRow 1 sec = true := by decide +kernel
theorem secTable2 : ∀ sec ∈ allSecs 2, secRow 2 sec = true := by decide +kernel
theorem secTable3 : ∀ sec ∈ allSecs 3, secRow 3 sec = true := by decide +kernel

theorem secTable {n : ℕ} (hn : n ≤ 3) {sec : Sec} (hs : sec.length = n) : secRow n sec = true := by
  have hs' := (mem_allSecs n sec).2 hs
  have h4 : n = 0 ∨ n = 1 ∨ n = 2 ∨ n = 3 := by omega
  rcases h4 with rfl | rfl | rfl | rfl
  · exact secTable0 sec hs'
  · exact secTable1 sec hs'
  · exact secTable2 sec hs'
  · exact secTable3 sec hs'

/-- every generated section has the right length and target dimension -/
def sectionsRow (n : ℕ) : Bool :=
  (List.range (n + 1)).all fun i => (sections n i).all fun sec =>
    decide (sec.length = n) && decide (secTgtDim sec = i)

theorem sectionsTable {n : ℕ} (hn : n ≤ 3) : sectionsRow n = true := by
  have h4 : n = 0 ∨ n = 1 ∨ n = 2 ∨ n = 3 := by omega
  rcases h4 with rfl | rfl | rfl | rfl <;> decide +kernel

theorem mem_sections {n i : ℕ} (hn : n ≤ 3) (hi : i ≤ n) {sec : Sec} (h : sec ∈ sections n i) :
    sec.length = n ∧ secTgtDim sec = i := by
  have := sectionsTable hn
  simp only [sectionsRow, List.all_eq_true, List.mem_range, Bool.and_eq_true, decide_eq_true_eq] at this
  exact this i (by omega) sec h

open Orientation in
/-- table row for one orientation and one section: the bases of the section follow the
    orientation, and the facets are permuted -/
def viewRow (_n : ℕ) (o : Orientation) (sec : Sec) : Bool :=
  let v := o.viewSection sec
  let vd := variableDirs sec
  let vd' := variableDirs (o.mapSection sec)
  decide (vd'.length = vd.length) &&
  (List.range vd'.length).all fun k =>
    decide (vd.getD (v.perm.getD k 0) 0 = o.perm.getD (vd'.getD k 0) 0) &&
    decide (v.flip.getD k false = o.flip.getD (vd'.getD k 0) false)

theorem viewTable0 : ∀ o ∈ Orientation.all 0, ∀ sec ∈ allSecs 0, viewRow 0 o sec = true := by decide +kernel
theorem viewTable1 : ∀ o ∈ Orientation.all 1, ∀ sec ∈ allSecs 1, viewRow 1 o sec = true := by decide +kernel
theorem viewTable2 : ∀ o ∈ Orientation.all 2, ∀ sec ∈ allSecs 2, viewRow 2 o sec = true := by decide +kernel
set_option maxRecDepth 100000 in
theorem viewTable3 : ∀ o ∈ Orientation.all 3, ∀ sec ∈ allSecs 3, viewRow 3 o sec = true := by decide +kernel

theorem viewTable {n : ℕ} (hn : n ≤ 3) {o : Orientation} (ho : o.WF n) {sec : Sec}
    (hs : sec.length = n) : viewRow n o sec = true := by
  have ho' := (Orientation.mem_all n o).2 ho
  have hs' := (mem_allSecs n sec).2 hs
  have h4 : n = 0 ∨ n = 1 ∨ n = 2 ∨ n = 3 := by omega
  rcases h4 with rfl | rfl | rfl | rfl
  · exact viewTable0 o ho' sec hs'
  · exact viewTable1 o ho' sec hs'
  · exact viewTable2 o ho' sec hs'
  · exact viewTable3 o ho' sec hs'

/-- the codimension-1 sections are permuted by `map_section` -/
def facetRow (n : ℕ) (o : Orientation) : Bool :=
  let F := sections n (n - 1)
  decide ((F.map (fun s => F.idxOf (o.mapSection s))).Perm (List.range F.length)) &&
  F.all (fun s => decide (o.mapSection s ∈ F))

theorem facetTable1 : ∀ o ∈ Orientation.all 1, facetRow 1 o = true := by decide +kernel
theorem facetTable2 : ∀ o ∈ Orientation.all 2, facetRow 2 o = true := by decide +kernel
theorem facetTable3 : ∀ o ∈ Orientation.all 3, facetRow 3 o = true := by decide +kernel

theorem facetTable {n : ℕ} (h1 : 1 ≤ n) (hn : n ≤ 3) {o : Orientation} (ho : o.WF n) :
    facetRow n o = true := by
  have ho' := (Orientation.mem_all n o).2 ho
  have h4 : n = 1 ∨ n = 2 ∨ n = 3 := by omega
  rcases h4 with rfl | rfl | rfl
  · exact facetTable1 o ho'
  · exact facetTable2 o ho'
  · exact facetTable3 o ho'

/-! ### sections of objects -/

open Orientation in
theorem Obj.sect_pardim (x : Obj) (sec : Sec) : (x.sect sec).pardim = (variableDirs sec).length := by
  simp [Obj.sect, Obj.pardim]

open Orientation in
theorem Obj.sect_shape (x : Obj) (sec : Sec) :
    (x.sect sec).shape = (variableDirs sec).map (fun e => x.shape.getD e 0) := rfl

theorem Obj.sect_rational (x : Obj) (sec : Sec) : (x.sect sec).rational = x.rational := rfl

open Orientation in
theorem Obj.sect_bases_getD (x : Obj) (sec : Sec) (k : ℕ) (hk : k < (variableDirs sec).length) :
    (x.sect sec).bases.getD k default = x.bases.getD ((variableDirs sec).getD k 0) default := by
  have h1 : k < ((variableDirs sec).map (fun d => x.bases.getD d default)).length := by simpa using hk
  show ((variableDirs sec).map (fun d => x.bases.getD d default)).getD k default = _
  rw [List.getD_eq_getElem _ _ h1, List.getD_eq_getElem _ _ hk]
  simp

/-- `map_section`/`view_section` commute with `map_array` (pardim ≤ 3) -/
theorem mapSection_commutes {α : Type} [Inhabited α] {n : ℕ} (hn : n ≤ 3) {o : Orientation}
    (ho : o.WF n) {sec : Sec} (hs : sec.length = n) (X : NdArr α) (hX : X.shape.length = n)
    (hpos : ∀ m ∈ X.shape, 0 < m) :
    (o.mapArray X).sect (o.mapSection sec) = (o.viewSection sec).mapArray (X.sect sec) := by
  have ht := sectionTable hn ho hs
  simp only [sectionRow, Bool.and_eq_true, decide_eq_true_eq] at ht
  obtain ⟨⟨⟨⟨⟨⟨heq, hc1⟩, hc2⟩, hc3⟩, _⟩, _⟩, _⟩ := ht
  have hco : o.toReindex.Consistent X.shape.length = true := by
    rw [hX]; exact Orientation.toReindex_consistent ho
  unfold Orientation.mapArray NdArr.sect
  rw [← Reindex.apply_comp _ _ X hco (by
        show (Sec.toReindex (o.mapSection sec)).Consistent o.perm.length = true
        rw [ho.isPerm.length]; exact hc2) hpos,
      ← Reindex.apply_comp _ _ X (by rw [hX]; exact hc1) hc3 hpos, heq]

/-- The universe of the catalogue theorem: well-formed NON-RATIONAL array objects with `nc`
    components per control point and parametric dimension ≤ 3. -/
structure GU (nc : ℕ) (x : Obj) : Prop where
  nonrat : x.rational = false
  good : x.Good
  comps : ∀ k, k < x.cps.data.size → (x.cps.data.getD k []).length = nc
  small : x.pardim ≤ 3

theorem GU.ncomp {nc : ℕ} {x : Obj} (h : GU nc x) : x.ncomp = nc := by
  unfold Obj.ncomp
  apply h.comps
  rw [h.good.size]
  exact shapeSize_pos h.good.pos

theorem GU.dimension {nc : ℕ} {x : Obj} (h : GU nc x) : x.dimension = nc := by
  simp [Obj.dimension, h.ncomp, h.nonrat]

theorem GU.netOf {nc : ℕ} {x : Obj} (h : GU nc x) : netOf x = x.cps := by
  simp [MP.netOf, h.nonrat]

open Orientation in
theorem GU.sect {nc : ℕ} {x : Obj} (h : GU nc x) {sec : Sec} (hs : sec.length = x.pardim) :
    GU nc (x.sect sec) := by
  have hrow := secTable h.small hs
  simp only [secRow, Bool.and_eq_true, decide_eq_true_eq, List.all_eq_true] at hrow
  obtain ⟨⟨hvl, hvlt⟩, _⟩ := hrow
  have hst := sectionTable h.small (Orientation.identity_wf x.pardim) hs
  simp only [sectionRow, Bool.and_eq_true, decide_eq_true_eq] at hst
  have hcons : (Sec.toReindex sec).Consistent x.cps.shape.length = true := by
    have : x.cps.shape.length = x.pardim := h.good.axes
    rw [this]; exact hst.1.1.1.1.1.2
  have hvin : ∀ e ∈ variableDirs sec, e < x.shape.length := by
    intro e he
    rw [h.good.axes]
    exact hvlt e he
  refine ⟨h.nonrat, ⟨?_, ?_, ?_, ?_⟩, ?_, ?_⟩
  · rw [Obj.sect_shape, Obj.sect_pardim]; simp
  · show ((Sec.toReindex sec).apply x.cps).data.size = shapeSize ((Sec.toReindex sec).apply x.cps).shape
    simp [Reindex.apply, NdArr.ofFn]
  · intro m hm
    rw [Obj.sect_shape] at hm
    simp only [List.mem_map] at hm
    obtain ⟨e, he, rfl⟩ := hm
    exact Reindex.getD_pos h.good.pos (hvin e he)
  · intro k hk
    rw [Obj.sect_pardim] at hk
    rw [Obj.sect_bases_getD x sec k hk]
    apply h.good.knots
    rw [List.getD_eq_getElem _ _ hk]
    exact hvlt _ (List.getElem_mem _)
  · intro k hk
    have hk' : k < shapeSize ((Sec.toReindex sec).shape x.cps.shape) := by
      have : (x.sect sec).cps.data.size = shapeSize ((Sec.toReindex sec).shape x.cps.shape) := by
        simp [Obj.sect, NdArr.sect, Reindex.apply, NdArr.ofFn]
      rw [this] at hk; exact hk
    have hval : (x.sect sec).cps.data.getD k [] =
        x.cps.get ((Sec.toReindex sec).index x.cps.shape (unravel ((Sec.toReindex sec).shape x.cps.shape) k)) := by
      simp [Obj.sect, NdArr.sect, Reindex.apply, NdArr.ofFn, Array.getD_eq_getD_getElem?, hk']
    rw [hval]
    have hin := Reindex.index_inRange (Sec.toReindex sec) x.cps.shape _ hcons h.good.pos
      (unravel_inRange hk')
    have hlt := ravel_lt hin
    unfold NdArr.get
    have hlt' : ravel x.cps.shape ((Sec.toReindex sec).index x.cps.shape
        (unravel ((Sec.toReindex sec).shape x.cps.shape) k)) < x.cps.data.size := by
      rw [h.good.size]; exact hlt
    have := h.comps _ hlt'
    simpa [Array.getD_eq_getD_getElem?, hlt'] using this
  · rw [Obj.sect_pardim, hvl]
    have := h.small
    have hle : secTgtDim sec ≤ sec.length := by
      unfold secTgtDim; exact List.length_filter_le _ _
    omega

/-- **`≈` is compatible with sections**: if `o = compute a b` then the section `sec` of `b` is
    equivalent to the section `o.map_section(sec)` of `a` (through `o.view_section(sec)`). -/
theorem sect_equiv {nc : ℕ} {a b : Obj} (ha : GU nc a) (hb : GU nc b) {o : Orientation}
    (hc : Orientation.compute a b = .ok o) {sec : Sec} (hs : sec.length = b.pardim) :
    Equiv (a.sect (o.mapSection sec)) (b.sect sec) := by
  obtain ⟨hwf, hfit, hp, _⟩ := compute_sound a b o hc
  have hr : a.rational = b.rational := by rw [ha.nonrat, hb.nonrat]
  obtain ⟨_, harr, hbm⟩ := (fits_same_iff hr o).1 hfit
  rw [ha.netOf, hb.netOf] at harr
  have hn : a.pardim ≤ 3 := ha.small
  have hs' : sec.length = a.pardim := by rw [hs, hp]
  -- tables
  have hst := sectionTable hn hwf hs'
  simp only [sectionRow, Bool.and_eq_true, decide_eq_true_eq] at hst
  obtain ⟨⟨⟨_, hvwf⟩, hml⟩, _⟩ := hst
  have hvt := viewTable hn hwf hs'
  simp only [viewRow, Bool.and_eq_true, decide_eq_true_eq, List.all_eq_true, List.mem_range] at hvt
  obtain ⟨hvlen, hvk⟩ := hvt
  have hsr := secTable hn hs'
  simp only [secRow, Bool.and_eq_true, decide_eq_true_eq, List.all_eq_true] at hsr
  have hsr' := secTable hn hml
  simp only [secRow, Bool.and_eq_true, decide_eq_true_eq, List.all_eq_true] at hsr'
  have hga := ha.sect (sec := o.mapSection sec) hml
  have hgb := hb.sect hs
  have hpd : (a.sect (o.mapSection sec)).pardim = (b.sect sec).pardim := by
    rw [Obj.sect_pardim, Obj.sect_pardim, hvlen]
  have hvwf' : (o.viewSection sec).WF (a.sect (o.mapSection sec)).pardim := by
    rw [Obj.sect_pardim, hvlen, hsr.1.1]; exact hvwf
  apply compute_complete _ _ hgb.good.axes hpd (by rw [hga.dimension, hgb.dimension])
  refine ⟨o.viewSection sec, hvwf', ?_⟩
  have hr' : (a.sect (o.mapSection sec)).rational = (b.sect sec).rational := by
    rw [Obj.sect_rational, Obj.sect_rational, hr]
  rw [fits_same_iff hr', hga.netOf, hgb.netOf]
  have hnet : (o.viewSection sec).mapArray (b.sect sec).cps = (a.sect (o.mapSection sec)).cps := by
    show (o.viewSection sec).mapArray (b.cps.sect sec) = a.cps.sect (o.mapSection sec)
    rw [← harr]
    exact (mapSection_commutes hn hwf hs' b.cps (by rw [hp]; exact hb.good.axes) hb.good.pos).symm
  refine ⟨?_, hnet, ?_⟩
  · have := congrArg NdArr.shape hnet
    exact this
  · rw [basesMatch_iff]
    intro k hk
    rw [Obj.sect_pardim] at hk
    obtain ⟨hk1, hk2⟩ := hvk k hk
    have hkv : (o.viewSection sec).perm.getD k 0 < (Orientation.variableDirs sec).length := by
      have := hvwf.isPerm.getD_lt (d := k) (by rw [← hsr.1.1, ← hvlen]; exact hk)
      rw [hsr.1.1]; exact this
    rw [Obj.sect_bases_getD a _ k hk, Obj.sect_bases_getD b sec _ hkv, hk1, hk2]
    rw [basesMatch_iff] at hbm
    apply hbm
    rw [List.getD_eq_getElem _ _ hk]
    exact hsr'.1.2 _ (List.getElem_mem _)

end Splipy.MP
