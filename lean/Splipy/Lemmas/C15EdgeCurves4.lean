import Splipy.Lemmas.C15Factory
import Splipy.Lemmas.C15Unit

/-!
# `edge_curves` with four curves that already form a directed loop

`make_splines_compatible` on curves of the same rationality and dimension changes nothing, the
closing test `allclose(c_i[-1], c_{i+1}[0])` accepts, and the result is `coons_patch` of the four
curves as given.
-/

set_option linter.unusedSectionVars false
namespace Splipy
namespace C15
open C06 C12 Obj Basis Sections
variable {K : Type} [Field K] [LinearOrder K] [IsStrictOrderedRing K] [FloorRing K]

theorem mem_zip_self {α : Type} : ∀ (l : List α) (a b : α), (a, b) ∈ List.zip l l → a = b
  | [], _, _, h => by simp at h
  | y :: ys, a, b, h => by
    simp only [List.zip_cons_cons, List.mem_cons, Prod.mk.injEq] at h
    rcases h with ⟨h1, h2⟩ | h
    · rw [h1, h2]
    · exact mem_zip_self ys a b h

theorem allclose_self (rtol atol : K) (hr : 0 ≤ rtol) (ha : 0 ≤ atol) (x : Array K) :
    Obj.allclose rtol atol x x = true := by
  unfold Obj.allclose
  rw [List.all_eq_true]
  intro p hp
  obtain ⟨a, b⟩ := p
  have hab : a = b := mem_zip_self _ a b hp
  subst hab
  simp only [sub_self, abs_zero, decide_eq_true_eq]
  have := abs_nonneg a
  nlinarith

theorem compatAll_four (c1 c2 c3 c4 : Obj K)
    (h : ∀ a ∈ [c1, c2, c3, c4], ∀ b ∈ [c1, c2, c3, c4], a.rational = b.rational ∧ a.dimension = b.dimension) :
    Obj.compatAll [c1, c2, c3, c4].toArray = [c1, c2, c3, c4].toArray := by
  have m := fun a ha b hb => makeCompatible_of_eq a b (h a ha b hb).1 (h a ha b hb).2
  have m12 := m c1 (by simp) c2 (by simp)
  have m13 := m c1 (by simp) c3 (by simp)
  have m14 := m c1 (by simp) c4 (by simp)
  have m23 := m c2 (by simp) c3 (by simp)
  have m24 := m c2 (by simp) c4 (by simp)
  have m34 := m c3 (by simp) c4 (by simp)
  unfold Obj.compatAll
  have r4 : List.range 4 = [0, 1, 2, 3] := rfl
  simp [r4, List.range', m12, m13, m14, m23, m24, m34, Array.setIfInBounds]

/-! ## Every curve the re-ordering search returns is an input curve or its reversal -/

theorem findNext_mem {C α : Type} (close : α → α → Bool) (startp endp : C → α) (rev : C → C) (cur : α) :
    ∀ (cs : List C) (x : C) (r : List C), findNext close startp endp rev cur cs = some (x, r) →
      (x ∈ cs ∨ ∃ c ∈ cs, x = rev c) ∧ ∀ y ∈ r, y ∈ cs
  | [], x, r, h => by simp [findNext] at h
  | c :: cs, x, r, h => by
    unfold findNext at h
    split_ifs at h with h1 h2
    · simp only [Option.some.injEq, Prod.mk.injEq] at h
      obtain ⟨rfl, rfl⟩ := h
      exact ⟨Or.inl (List.mem_cons_self), fun y hy => List.mem_cons_of_mem _ hy⟩
    · simp only [Option.some.injEq, Prod.mk.injEq] at h
      obtain ⟨rfl, rfl⟩ := h
      exact ⟨Or.inr ⟨c, List.mem_cons_self, rfl⟩, fun y hy => List.mem_cons_of_mem _ hy⟩
    · cases hf : findNext close startp endp rev cur cs with
      | none => rw [hf] at h; simp at h
      | some pr =>
        obtain ⟨x', r'⟩ := pr
        rw [hf] at h
        simp only [Option.map_some, Option.some.injEq, Prod.mk.injEq] at h
        obtain ⟨rfl, rfl⟩ := h
        obtain ⟨ih1, ih2⟩ := findNext_mem close startp endp rev cur cs x' r' hf
        refine ⟨?_, ?_⟩
        · rcases ih1 with h | ⟨c', hc', e⟩
          · exact Or.inl (List.mem_cons_of_mem _ h)
          · exact Or.inr ⟨c', List.mem_cons_of_mem _ hc', e⟩
        · intro y hy
          rcases List.mem_cons.mp hy with rfl | hy
          · exact List.mem_cons_self
          · exact List.mem_cons_of_mem _ (ih2 y hy)

theorem loopGo_mem {C α : Type} (close : α → α → Bool) (startp endp : C → α) (rev : C → C) :
    ∀ (k : ℕ) (cur : C) (rest l : List C), loopGo close startp endp rev k cur rest = .ok l →
      ∀ x ∈ l, x ∈ rest ∨ ∃ c ∈ rest, x = rev c
  | 0, _, _, l, h => by
    simp only [loopGo, Except.ok.injEq] at h
    subst h
    intro x hx; cases hx
  | k + 1, cur, rest, l, h => by
    unfold loopGo at h
    cases hf : findNext close startp endp rev (endp cur) rest with
    | none => rw [hf] at h; simp at h
    | some pr =>
      obtain ⟨x', r'⟩ := pr
      rw [hf] at h
      simp only [] at h
      cases hg : loopGo close startp endp rev k x' r' with
      | error e => rw [hg] at h; simp [Except.map] at h
      | ok l' =>
        rw [hg] at h
        simp only [Except.map, Except.ok.injEq] at h
        subst h
        obtain ⟨m1, m2⟩ := findNext_mem close startp endp rev (endp cur) rest x' r' hf
        have ih := loopGo_mem close startp endp rev k x' r' l' hg
        intro x hx
        rcases List.mem_cons.mp hx with rfl | hx
        · exact m1
        · rcases ih x hx with h | ⟨c, hc, e⟩
          · exact Or.inl (m2 x h)
          · exact Or.inr ⟨c, m2 c hc, e⟩

theorem loopOrder_mem {C α : Type} (close : α → α → Bool) (startp endp : C → α) (rev : C → C)
    (c0 : C) (rest l : List C) (h : loopOrder close startp endp rev (c0 :: rest) = .ok l) :
    ∃ t, l = c0 :: t ∧ ∀ x ∈ t, x ∈ rest ∨ ∃ c ∈ rest, x = rev c := by
  unfold loopOrder at h
  simp only [] at h
  split_ifs at h with hl
  · simp only [Except.ok.injEq] at h
    exact ⟨rest, h.symm, fun x hx => Or.inl hx⟩
  · cases hg : loopGo close startp endp rev 3 c0 rest with
    | error e => rw [hg] at h; simp [Except.map] at h
    | ok t =>
      rw [hg] at h
      simp only [Except.map, Except.ok.injEq] at h
      exact ⟨t, h.symm, loopGo_mem close startp endp rev 3 c0 rest t hg⟩

/-- **`edge_curves(c1, c2, c3, c4)` on a directed loop is `coons_patch(c1, c2, c3, c4)`**: the four curves
    have the same rationality and dimension (so the pairwise `make_splines_compatible` is the identity)
    and consecutive end control points are equal (so the closing test with tolerances `rtol, atol ≥ 0`
    accepts and nothing is re-ordered or reversed). -/
theorem edgeCurves_directed (tol rtol atol : K) (hr : 0 ≤ rtol) (ha : 0 ≤ atol) (c1 c2 c3 c4 : Obj K)
    (h : ∀ a ∈ [c1, c2, c3, c4], ∀ b ∈ [c1, c2, c3, c4], a.rational = b.rational ∧ a.dimension = b.dimension)
    (e12 : Obj.cpRow c1 (-1) = Obj.cpRow c2 0) (e23 : Obj.cpRow c2 (-1) = Obj.cpRow c3 0)
    (e34 : Obj.cpRow c3 (-1) = Obj.cpRow c4 0) (e41 : Obj.cpRow c4 (-1) = Obj.cpRow c1 0) :
    Obj.edgeCurves tol [c1, c2, c3, c4] rtol atol = Obj.coonsPatch tol c1 c2 c3 c4 := by
  apply edgeCurves_four
  rw [compatAll_four c1 c2 c3 c4 h]
  show loopOrder _ _ _ _ [c1, c2, c3, c4] = _
  have hl : isLoop (Obj.allclose rtol atol) (fun c : Obj K => Obj.cpRow c 0) (fun c => Obj.cpRow c (-1))
      [c1, c2, c3, c4] = true := by
    unfold isLoop
    simp only [e12, e23, e34, e41, allclose_self rtol atol hr ha, Bool.and_self]
  unfold loopOrder
  simp only [hl, if_true]

end C15
end Splipy
