import Splipy.Lemmas.C15Factory
import Splipy.Lemmas.C15Unit

/-!
# `edge_curves` with four curves that already form a directed loop

`make_splines_compatible` on curves of the same rationality and dimension changes nothing, the
closing test `allclose(c_i[-1], c_{i+1}[0])` accepts, and the result is `coons_patch` of the four
curves as given.
-/

set_option linter.unusedSectionVars false
namespace Splipy
namespace C15
open C06 C12 Obj Basis Sections
variable {K : Type} [Field K] [LinearOrder K] [IsStrictOrderedRing K] [FloorRing K]

theorem mem_zip_self {α : Type} : ∀ (l : List α) (a b : α), (a, b) ∈ List.zip l l → a = b
  | [], _, _, h => by simp at h
  | y :: ys, a, b, h => by
    simp only [List.zip_cons_cons, List.mem_cons, Prod.mk.injEq] at h
    rcases h with ⟨h1, h2⟩ | h
    · rw [h1, h2]
    · exact mem_zip_self ys a b h

theorem allclose_self (rtol atol : K) (hr : 0 ≤ rtol) (ha : 0 ≤ atol) (x : Array K) :
    Obj.allclose rtol atol x x = true := by
  unfold Obj.allclose
  rw [List.all_eq_true]
  intro p hp
  obtain ⟨a, b⟩ := p
  have hab : a = b := mem_zip_self _ a b hp
  subst hab
  simp only [sub_self, abs_zero, decide_eq_true_eq]
  have := abs_nonneg a
  nlinarith

theorem compatAll_four (c1 c2 c3 c4 : Obj K)
    (h : ∀ a ∈ [c1, c2, c3, c4], ∀ b ∈ [c1, c2, c3, c4], a.rational = b.rational ∧ a.dimension = b.dimension) :
    Obj.compatAll [c1, c2, c3, c4].toArray = [c1, c2, c3, c4].toArray := by
  have m := fun a ha b hb => makeCompatible_of_eq a b (h a ha b hb).1 (h a ha b hb).2
  have m12 := m c1 (by simp) c2 (by simp)
  have m13 := m c1 (by simp) c3 (by simp)
  have m14 := m c1 (by simp) c4 (by simp)
  have m23 := m c2 (by simp) c3 (by simp)
  have m24 := m c2 (by simp) c4 (by simp)
  have m34 := m c3 (by simp) c4 (by simp)
  unfold Obj.compatAll
  have r4 : List.range 4 = [0, 1, 2, 3] := rfl
  simp [r4, List.range', m12, m13, m14, m23, m24, m34, Array.setIfInBounds]

/-- **`edge_curves(c1, c2, c3, c4)` on a directed loop is `coons_patch(c1, c2, c3, c4)`**: the four curves
    have the same rationality and dimension (so the pairwise `make_splines_compatible` is the identity)
    and consecutive end control points are equal (so the closing test with tolerances `rtol, atol ≥ 0`
    accepts and nothing is re-ordered or reversed). -/
theorem edgeCurves_directed (tol rtol atol : K) (hr : 0 ≤ rtol) (ha : 0 ≤ atol) (c1 c2 c3 c4 : Obj K)
    (h : ∀ a ∈ [c1, c2, c3, c4], ∀ b ∈ [c1, c2, c3, c4], a.rational = b.rational ∧ a.dimension = b.dimension)
    (e12 : Obj.cpRow c1 (-1) = Obj.cpRow c2 0) (e23 : Obj.cpRow c2 (-1) = Obj.cpRow c3 0)
    (e34 : Obj.cpRow c3 (-1) = Obj.cpRow c4 0) (e41 : Obj.cpRow c4 (-1) = Obj.cpRow c1 0) :
    Obj.edgeCurves tol [c1, c2, c3, c4] rtol atol = Obj.coonsPatch tol c1 c2 c3 c4 := by
  apply edgeCurves_four
  rw [compatAll_four c1 c2 c3 c4 h]
  show loopOrder _ _ _ _ [c1, c2, c3, c4] = _
  have hl : isLoop (Obj.allclose rtol atol) (fun c : Obj K => Obj.cpRow c 0) (fun c => Obj.cpRow c (-1))
      [c1, c2, c3, c4] = true := by
    unfold isLoop
    simp only [e12, e23, e34, e41, allclose_self rtol atol hr ha, Bool.and_self]
  unfold loopOrder
  simp only [hl, if_true]

end C15
end Splipy
