import Splipy.Lemmas.C15Loop
import Splipy.Lemmas.C15Tensor
import Splipy.Lemmas.TensorEval

/-!
# Facts about the factory models of property C15 (`Model/Sections.lean`)

* end control points of a reversed (non-periodic) curve;
* the four-curve branch of `Obj.edgeCurves`: its search is the label-level search (transfer).
-/

set_option linter.unusedSectionVars false

namespace Splipy
namespace C15

open Sections Tensor

variable {K : Type} [Field K] [LinearOrder K] [FloorRing K]

/-- A curve object as the loop search sees it: one non-periodic basis, an `n × nc` control array
    (`n ≥ 1`) with consistent data size. -/
structure CurveLike (c : Obj K) (n nc : ℕ) : Prop where
  bases : c.bases.size = 1
  nonper : (c.basis 0).periodic = -1
  shape : c.cps.shape = [n, nc]
  size : c.cps.data.size = n * nc
  pos : 1 ≤ n

theorem extract_eq_of_get {A B : Array K} (s1 s2 nc : ℕ) (h1 : s1 + nc ≤ A.size) (h2 : s2 + nc ≤ B.size)
    (h : ∀ k, k < nc → A.getD (s1 + k) 0 = B.getD (s2 + k) 0) :
    A.extract s1 (s1 + nc) = B.extract s2 (s2 + nc) := by
  apply Array.ext
  · simp [Array.size_extract]; omega
  · intro k hk1 hk2
    have hk : k < nc := by simp [Array.size_extract] at hk1; omega
    have := h k hk
    simp only [Array.getD_eq_getD_getElem?, Array.getElem?_eq_getElem (show s1 + k < A.size by omega),
      Array.getElem?_eq_getElem (show s2 + k < B.size by omega), Option.getD_some] at this
    simpa [Array.getElem_extract] using this

theorem cpRow_first (c : Obj K) (n nc : ℕ) (h : CurveLike c n nc) :
    Obj.cpRow c 0 = c.cps.data.extract 0 nc := by
  unfold Obj.cpRow Obj.ncomp
  simp [h.shape]

theorem cpRow_last (c : Obj K) (n nc : ℕ) (h : CurveLike c n nc) :
    Obj.cpRow c (-1) = c.cps.data.extract ((n - 1) * nc) ((n - 1) * nc + nc) := by
  unfold Obj.cpRow Obj.ncomp
  have hn := h.pos
  have e : ((-1 : Int) + (n : Int)).toNat = n - 1 := by omega
  simp [h.shape, e]

/-- Reversing a non-periodic curve keeps it a curve of the same size and exchanges its two end
    control points (`curve.reverse()[0] == curve[-1]`, `curve.reverse()[-1] == curve[0]`). -/
theorem reverse_curveLike (c : Obj K) (n nc : ℕ) (h : CurveLike c n nc) :
    CurveLike (c.reverse 0) n nc ∧ Obj.cpRow (c.reverse 0) 0 = Obj.cpRow c (-1)
      ∧ Obj.cpRow (c.reverse 0) (-1) = Obj.cpRow c 0 := by
  have hn := h.pos
  have hper : ¬ ((c.basis 0).periodic > -1) := by rw [h.nonper]; decide
  have hcps : (c.reverse 0).cps = c.cps.flipAxis 0 := by
    unfold Obj.reverse
    simp only [hper, if_false]
  have hshape : (c.cps.flipAxis 0).shape = [n, nc] := by
    unfold Tensor.flipAxis Tensor.reindexAxis
    rw [build3_shape, h.shape]
    simp
  have hsplit : Tensor.prod (c.cps.shape.take 0) = 1 ∧ Tensor.prod (c.cps.shape.drop (0 + 1)) = nc := by
    rw [h.shape]; simp [Tensor.prod]
  have hsize : (c.cps.flipAxis 0).data.size = n * nc := by
    unfold Tensor.flipAxis Tensor.reindexAxis
    rw [build3_data_size, hsplit.1, hsplit.2, h.shape]
    simp
  -- entry (r, k) of the flipped array
  have hget : ∀ r k, r < n → k < nc →
      (c.cps.flipAxis 0).data.getD (r * nc + k) 0 = c.cps.data.getD ((n - 1 - r) * nc + k) 0 := by
    intro r k hr hk
    have := build3_readback c.cps.shape 0 (c.cps.shape.getD 0 1)
      (fun a r i => c.cps.at3 0 a (c.cps.shape.getD 0 1 - 1 - r) i) (a := 0) (r := r) (i := k)
      (by rw [hsplit.1]; exact Nat.one_pos) (by rw [h.shape]; simpa using hr) (by rw [hsplit.2]; exact hk)
    rw [hsplit.2] at this
    simp only [Nat.zero_mul, Nat.zero_add] at this
    have e : (c.cps.flipAxis 0).get (r * nc + k) = c.cps.at3 0 0 (n - 1 - r) k := by
      unfold Tensor.flipAxis Tensor.reindexAxis
      rw [this, h.shape]
      simp
    unfold Tensor.get at e
    rw [e]
    unfold Tensor.at3 Tensor.split3 Tensor.get
    rw [h.shape]
    simp [Tensor.prod]
  have hbases : (c.reverse 0).bases.size = 1 := by
    unfold Obj.reverse; simp [h.bases]
  have hb0 : ((c.reverse 0).basis 0).periodic = -1 := by
    have : (c.reverse 0).basis 0 = (c.basis 0).reverse := by
      unfold Obj.reverse Obj.basis
      simp [Array.set!, Array.getD_eq_getD_getElem?, h.bases]
    rw [this]
    exact h.nonper
  have hcl : CurveLike (c.reverse 0) n nc :=
    ⟨hbases, hb0, by rw [hcps]; exact hshape, by rw [hcps]; exact hsize, hn⟩
  refine ⟨hcl, ?_, ?_⟩
  · rw [cpRow_first _ n nc hcl, cpRow_last c n nc h, hcps]
    have := extract_eq_of_get (A := (c.cps.flipAxis 0).data) (B := c.cps.data) 0 ((n - 1) * nc) nc
      (by rw [hsize]; nlinarith) (by rw [h.size]; nlinarith [Nat.sub_add_cancel hn]) (fun k hk => by
        have := hget 0 k (by omega) hk
        simpa using this)
    simpa using this
  · rw [cpRow_last _ n nc hcl, cpRow_first c n nc h, hcps]
    have := extract_eq_of_get (A := (c.cps.flipAxis 0).data) (B := c.cps.data) ((n - 1) * nc) 0 nc
      (by rw [hsize]; nlinarith [Nat.sub_add_cancel hn]) (by rw [h.size]; nlinarith) (fun k hk => by
        have := hget (n - 1) k (by omega) hk
        have e : n - 1 - (n - 1) = 0 := by omega
        simpa [e] using this)
    simpa using this

/-- The four-curve branch of `Obj.edgeCurves`: when the closing test / re-ordering search returns four
    curves, the result is `coons_patch` of them. -/
theorem edgeCurves_four (tol rtol atol : K) (c1 c2 c3 c4 l0 l1 l2 l3 : Obj K)
    (h : loopOrder (Obj.allclose rtol atol) (fun c => Obj.cpRow c 0) (fun c => Obj.cpRow c (-1))
        (fun c => c.reverse 0) (Obj.compatAll [c1, c2, c3, c4].toArray).toList = .ok [l0, l1, l2, l3]) :
    Obj.edgeCurves tol [c1, c2, c3, c4] rtol atol = Obj.coonsPatch tol l0 l1 l2 l3 := by
  unfold Obj.edgeCurves
  dsimp only
  rw [h]

end C15
end Splipy
