import Splipy.Lemmas.C18NumberingB

/-!
# C18 — the whole read phase: flagged entries are copies from earlier patches, the others stay
-/

set_option linter.unusedSectionVars false

namespace Splipy.MP.C18L

variable {α : Type} [Inhabited α]

/-- the arrays have the shapes of the plans and are well formed -/
def Shaped (plans : List PatchPlan) (A : Array (NdArr α)) : Prop :=
  ∀ (k : ℕ) (p : PatchPlan), plans[k]? = some p → (A.getD k default).shape = p.shape ∧ (A.getD k default).SizeOK

/-- every face that is read views the array of an EARLIER top node (ownership goes to the patch
    that was added first) -/
def WellOrdered (plans : List PatchPlan) : Prop :=
  ∀ (k : ℕ) (p : PatchPlan), plans[k]? = some p → ∀ f ∈ p.faces, f.owned = false →
    ∀ v : CpView, f.src = some v → v.top < k

/-- the steps `off, off+1, …` of the second loop -/
def runFrom (l : List PatchPlan) (off : ℕ) (A : Array (NdArr α)) : Except NErr (Array (NdArr α)) :=
  (l.zipIdx off).foldlM (fun arrs (pk : PatchPlan × ℕ) => readOneG pk.2 pk.1 arrs) A

theorem readAllG_eq_runFrom (plans : List PatchPlan) (A : Array (NdArr α)) : readAllG plans A = runFrom plans 0 A := rfl

/-- what a run of the steps `off … off + l.length - 1` does -/
theorem runFrom_spec (plans : List PatchPlan) (hord : WellOrdered plans) :
    ∀ (l : List PatchPlan) (off : ℕ) (A B : Array (NdArr α)),
    (∀ i p, l[i]? = some p → plans[off + i]? = some p) → runFrom l off A = .ok B → Shaped plans A →
    Shaped plans B ∧ (∀ j, j < off → B.getD j default = A.getD j default) ∧
    ∀ k p, off ≤ k → k < off + l.length → plans[k]? = some p → ∀ q, q < shapeSize p.shape →
      (¬ Flagged p q → (B.getD k default).data.getD q default = (A.getD k default).data.getD q default) ∧
      (Flagged p q → (B.getD k default).data.getD q default = default ∨
        ∃ k0, k0 < k ∧ (B.getD k default).data.getD q default ∈ (B.getD k0 default).data.toList)
  | [], off, A, B, _, h, hsh => by
    simp only [runFrom, List.zipIdx_nil, List.foldlM_nil, pure, Except.pure, Except.ok.injEq] at h
    subst h
    exact ⟨hsh, fun _ _ => rfl, fun k p h1 h2 => by simp at h2; omega⟩
  | p :: l, off, A, B, hl, h, hsh => by
    simp only [runFrom, List.zipIdx_cons, List.foldlM_cons, bind, Except.bind] at h
    split at h
    · cases h
    · rename_i A' hA'
      have hp : plans[off]? = some p := by simpa using hl 0 p (by simp)
      obtain ⟨hs, hwf⟩ := hsh off p hp
      obtain ⟨s1, s2, s3, s4⟩ := readFaces_spec off p.shape (fun i => i < off) (fun i hi => by omega)
        p.faces A A' hA' hs hwf (fun f hf ho v hv => hord off p hp f hf ho v hv)
      have hsh' : Shaped plans A' := by
        intro k p' hp'
        by_cases hk : k = off
        · subst hk
          rw [hp] at hp'
          cases hp'
          exact ⟨s2, s3⟩
        · rw [s1 k hk]
          exact hsh k p' hp'
      obtain ⟨t1, t2, t3⟩ := runFrom_spec plans hord l (off + 1) A' B
        (fun i p' hi => by
          have := hl (i + 1) p' (by simpa using hi)
          rw [show off + 1 + i = off + (i + 1) by omega]
          exact this) h hsh'
      refine ⟨t1, fun j hj => by rw [t2 j (by omega), s1 j (by omega)], ?_⟩
      intro k p' hk1 hk2 hp' q hq
      by_cases hk : k = off
      · subst hk
        rw [hp] at hp'
        cases hp'
        rw [t2 k (by omega)]
        refine ⟨fun hnf => (s4 q hq).1 hnf, fun hf => ?_⟩
        rcases (s4 q hq).2 hf with h1 | ⟨i, hi, h1⟩
        · exact Or.inl h1
        · refine Or.inr ⟨i, hi, ?_⟩
          rw [t2 i (by omega), s1 i (by omega)]
          exact h1
      · have := t3 k p' (by omega) (by simp at hk2 ⊢; omega) hp' q hq
        rw [s1 k hk] at this
        exact this

end Splipy.MP.C18L
