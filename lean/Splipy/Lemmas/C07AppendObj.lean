import Splipy.Lemmas.C07Append
import Splipy.Lemmas.C07OpenSplit
import Splipy.Lemmas.C10Periodic
import Splipy.Lemmas.TensorEval
import Splipy.Lemmas.C08LowerEval

/-!
# `Obj.appendCurve` (the function the driver runs) = the concatenation of the two curves
-/

namespace Splipy

set_option linter.unusedSectionVars false
set_option linter.unusedVariables false

open C04 C10

variable {K : Type} [Field K] [LinearOrder K] [IsStrictOrderedRing K] [FloorRing K]

/-- `set_dimension(dimension)` changes nothing on a well-formed object. -/
theorem setDimension_self {o : Obj K} (h : o.WellFormed) : o.setDimension o.dimension = o := by
  have hnc := h.ncomp_pos
  have hdle : o.dimension ≤ o.ncomp := by unfold Obj.dimension; omega
  have hnew : o.dimension + (o.ncomp - o.dimension) = o.ncomp := by omega
  have hlast : o.cps.shape.getLastD 1 = o.ncomp := h.last_eq 1
  have hsize : o.cps.size = o.len * o.ncomp := by unfold Tensor.size; exact h.prod_shape
  have hdiv : o.cps.size / o.cps.shape.getLastD 1 = o.len := by
    rw [hsize, hlast, Nat.mul_div_cancel _ hnc]
  have hdata := h.data_size
  rw [h.prod_shape] at hdata
  have hcps : (o.setDimension o.dimension).cps = o.cps := by
    unfold Obj.setDimension
    simp only []
    generalize hm : o.dimension + (o.ncomp - o.dimension) = m
    have hmn : m = o.ncomp := by omega
    subst hmn
    apply Bridge.tensor_eq
    · rw [Tensor.mapLast_shape, h.shape_eq', List.dropLast_concat]
    · apply Array.ext
      · rw [Tensor.mapLast_data_size, hdiv, hdata]
      · intro idx h1 h2
        rw [hdata] at h2
        have hpI : idx / o.ncomp < o.len := by
          rw [Nat.div_lt_iff_lt_mul hnc]; exact h2
        have hc : idx % o.ncomp < o.ncomp := Nat.mod_lt _ hnc
        have hidx : idx = idx / o.ncomp * o.ncomp + idx % o.ncomp := (Nat.div_add_mod' idx o.ncomp).symm
        have hg := Tensor.mapLast_get o.cps o.ncomp (fun row =>
          Array.ofFn (n := o.ncomp) (fun c =>
            if c.val < o.dimension then (if c.val < o.dimension then row.getD c.val 0 else 0)
            else row.getD o.dimension 0)) (pI := idx / o.ncomp) (c := idx % o.ncomp)
          (by rw [hdiv]; exact hpI) hc
        rw [← hidx] at hg
        have eL : ∀ (A : Array K) (hA : idx < A.size), A[idx] = A.getD idx 0 := by
          intro A hA; simp [Array.getD, hA]
        rw [eL _ h1, eL _ (by rw [hdata]; exact h2)]
        have hg' : (o.cps.mapLast o.ncomp fun row =>
            Array.ofFn (n := o.ncomp) (fun c =>
              if c.val < o.dimension then (if c.val < o.dimension then row.getD c.val 0 else 0)
              else row.getD o.dimension 0)).data.getD idx 0 = _ := hg
        rw [hg']
        have hrow : ∀ c, c < o.ncomp →
            (o.cps.row (idx / o.ncomp)).getD c 0 = o.cps.data.getD (idx / o.ncomp * o.ncomp + c) 0 := by
          intro c hcc
          rw [Tensor.row_getD _ _ _ (by rw [hlast]; exact hcc), hlast]; rfl
        rw [Array.getD_eq_getD_getElem?, Array.getElem?_ofFn]
        simp only [hc, dite_true, Option.getD_some]
        have hd1 : o.ncomp ≤ o.dimension + 1 := by unfold Obj.dimension; split_ifs <;> omega
        have hfin : o.cps.data.getD idx 0 = o.cps.data[idx]'(by rw [hdata]; exact h2) :=
          (eL _ _).symm
        split_ifs with hcd
        · rw [hrow _ hc, ← hidx]; exact hfin
        · have : idx % o.ncomp = o.dimension := by omega
          rw [hrow _ (by omega), ← this, ← hidx]; exact hfin
  cases o with
  | mk ob oc orat =>
    unfold Obj.setDimension at hcps ⊢
    simp only at hcps ⊢
    rw [hcps]

/-- The merged knot array of `Curve.append`, entry by entry. -/
theorem mergedKnots_getElem? (ba bc : Basis K) (p n1 n2 : ℕ) (hsa : ba.knots.size = n1 + p)
    (hsc : bc.knots.size = n2 + p) (hp1 : 1 ≤ p) (j : ℕ) :
    (ba.knots.extract 0 (ba.knots.size - 1)
        ++ (bc.knots.map (fun x => x - bc.knots.getD 0 0
              + ba.knots.getD (ba.knots.size - 1) 0)).extract p bc.knots.size)[j]?
      = if j < n1 + p - 1 then some (ba.kn j)
        else if j < n1 + n2 + p - 1 then
          some (bc.kn (j + 1 - n1) - bc.kn 0 + ba.kn (n1 + p - 1))
        else none := by
  have hfirst : bc.knots.getD 0 0 = bc.kn 0 := by
    rw [Basis.kn_of_lt bc (by omega)]; simp [Array.getD, show 0 < bc.knots.size by omega]
  have hlast : ba.knots.getD (ba.knots.size - 1) 0 = ba.kn (n1 + p - 1) := by
    rw [hsa, Basis.kn_of_lt ba (by omega)]
    simp [Array.getD, show n1 + p - 1 < ba.knots.size by omega]
  rw [Array.getElem?_append]
  simp only [Array.size_extract, Array.size_map]
  have hm1 : min (ba.knots.size - 1) ba.knots.size - 0 = n1 + p - 1 := by omega
  rw [hm1]
  by_cases h1 : j < n1 + p - 1
  · rw [if_pos h1, if_pos h1, Array.getElem?_extract, if_pos (by omega), Nat.zero_add,
      Basis.kn_of_lt ba (by omega)]
    simp [show j < ba.knots.size by omega]
  · rw [if_neg h1, if_neg h1, Array.getElem?_extract, Array.size_map]
    have hm2 : min bc.knots.size bc.knots.size - p = n2 := by omega
    rw [hm2]
    by_cases h2 : j < n1 + n2 + p - 1
    · rw [if_pos h2, if_pos (by omega), Array.getElem?_map]
      have hidx : p + (j - (n1 + p - 1)) = j + 1 - n1 := by omega
      rw [hidx, hfirst, hlast, Basis.kn_of_lt bc (show j + 1 - n1 < bc.knots.size by omega)]
      simp [show j + 1 - n1 < bc.knots.size by omega]
    · rw [if_neg h2, if_neg (by omega)]

/-- The basis `Curve.append` builds. -/
def mergedBasis (ba bc : Basis K) : Basis K :=
  { order := ba.order,
    knots := ba.knots.extract 0 (ba.knots.size - 1)
      ++ (bc.knots.map (fun x => x - bc.knots.getD 0 0
            + ba.knots.getD (ba.knots.size - 1) 0)).extract ba.order
          (bc.knots.map (fun x => x - bc.knots.getD 0 0
            + ba.knots.getD (ba.knots.size - 1) 0)).size,
    periodic := -1 }

theorem mergedBasis_knots (ba bc : Basis K) :
    (mergedBasis ba bc).knots = ba.knots.extract 0 (ba.knots.size - 1)
      ++ (bc.knots.map (fun x => x - bc.knots.getD 0 0
            + ba.knots.getD (ba.knots.size - 1) 0)).extract ba.order bc.knots.size := by
  unfold mergedBasis
  simp only [Array.size_map]

section merged
variable {ba bc : Basis K} (hva : ba.Valid) (hvc : bc.Valid) (hpa : ba.periodic = -1)
  (hpc : bc.periodic = -1) (hord : bc.order = ba.order) (hq : 2 ≤ ba.order)
include hva hvc hpa hpc hord hq

theorem mergedBasis_size :
    (mergedBasis ba bc).knots.size = ba.numFunctions + bc.numFunctions + ba.order - 1 := by
  have h1 := hva.nAll_add
  have h2 := hvc.nAll_add
  rw [← Basis.numFunctions_of_nonperiodic hpa] at h1
  rw [← Basis.numFunctions_of_nonperiodic hpc, hord] at h2
  rw [mergedBasis_knots]
  simp only [Array.size_append, Array.size_extract, Array.size_map]
  omega

theorem mergedBasis_kn (j : ℕ) (hj : j < ba.numFunctions + bc.numFunctions + ba.order - 1) :
    (mergedBasis ba bc).kn j = appendKnots ba.kn bc.kn (ba.order - 1) ba.numFunctions j := by
  have h1 := hva.nAll_add
  have h2 := hvc.nAll_add
  rw [← Basis.numFunctions_of_nonperiodic hpa] at h1
  rw [← Basis.numFunctions_of_nonperiodic hpc, hord] at h2
  have hsz := mergedBasis_size hva hvc hpa hpc hord hq
  rw [Basis.kn_of_lt _ (by rw [hsz]; exact hj)]
  have hg := mergedKnots_getElem? ba bc ba.order ba.numFunctions bc.numFunctions (by omega) (by omega)
    (by omega) j
  have hg' : (mergedBasis ba bc).knots[j]? = some ((mergedBasis ba bc).knots[j]'(by rw [hsz]; exact hj)) := by
    simp [hsz, hj]
  have hk := hg
  rw [← mergedBasis_knots] at hk
  rw [hg'] at hk
  unfold appendKnots
  rw [show ba.numFunctions + (ba.order - 1) = ba.numFunctions + ba.order - 1 by omega]
  split_ifs at hk ⊢ with h3 h4
  · exact Option.some.inj hk
  · exact Option.some.inj hk

end merged

section merged2
variable {ba bc : Basis K} (hva : ba.Valid) (hvc : bc.Valid) (hpa : ba.periodic = -1)
  (hpc : bc.periodic = -1) (hord : bc.order = ba.order) (hq : 2 ≤ ba.order)
  (hcl1 : ba.kn ba.numFunctions = ba.kn (ba.numFunctions + (ba.order - 1)))
  (hcl2 : bc.kn 0 = bc.kn (ba.order - 1))
include hva hvc hpa hpc hord hq hcl1 hcl2

theorem mergedBasis_valid : (mergedBasis ba bc).Valid ∧
    (mergedBasis ba bc).start = ba.start ∧
    (mergedBasis ba bc).stop = ba.stop + (bc.stop - bc.start) := by
  have h1 := hva.nAll_add
  have h2 := hvc.nAll_add
  rw [← Basis.numFunctions_of_nonperiodic hpa] at h1
  rw [← Basis.numFunctions_of_nonperiodic hpc, hord] at h2
  have hsa := hva.size_ge
  have hsc := hvc.size_ge
  rw [hord] at hsc
  have hsz := mergedBasis_size hva hvc hpa hpc hord hq
  have hkn := mergedBasis_kn hva hvc hpa hpc hord hq
  have hmono := appendKnots_mono ba.kn bc.kn hva.kn_mono hvc.kn_mono (ba.order - 1) ba.numFunctions
    (by omega) (by omega) hcl1 hcl2
  have hst : (mergedBasis ba bc).start = ba.start := by
    show (mergedBasis ba bc).kn (ba.order - 1) = _
    rw [hkn _ (by omega)]
    unfold appendKnots
    rw [if_pos (by omega)]; rfl
  have hbstop : bc.stop = bc.kn bc.numFunctions := by
    rw [Basis.numFunctions_of_nonperiodic hpc]; rfl
  have hastop : ba.stop = ba.kn ba.numFunctions := by
    rw [Basis.numFunctions_of_nonperiodic hpa]; rfl
  have hbstart : bc.start = bc.kn 0 := by
    show bc.kn (bc.order - 1) = _
    rw [hord, hcl2]
  have hsp : (mergedBasis ba bc).stop = ba.stop + (bc.stop - bc.start) := by
    show (mergedBasis ba bc).kn ((mergedBasis ba bc).knots.size - ba.order) = _
    rw [hsz, hkn _ (by omega)]
    unfold appendKnots
    rw [if_neg (by omega),
      show ba.numFunctions + bc.numFunctions + ba.order - 1 - ba.order + 1 - ba.numFunctions
        = bc.numFunctions by omega, ← hcl1, ← hastop, ← hbstop, hbstart]
    ring
  refine ⟨⟨hva.order_pos, ?_, ?_, by show (-1 : Int) ≤ -1; omega, Or.inr rfl, ?_, ?_⟩, hst, hsp⟩
  · rw [hsz]; show 2 * ba.order ≤ _; omega
  · intro i hi
    rw [hsz] at hi
    rw [hkn i (by omega), hkn (i + 1) hi]
    exact hmono (Nat.le_succ i)
  · rw [hst, hsp]
    have := hva.start_lt_stop
    have := hvc.start_lt_stop
    linarith
  · intro h; exact absurd h (by show ¬ (0 : Int) ≤ -1; omega)

end merged2

theorem mergedData_getD (da dc : Array K) (n1 n2 nc j i : ℕ) (hda : da.size = n1 * nc)
    (hdc : dc.size = n2 * nc) (hi : i < nc) (hj : j < n1 + n2 - 1) :
    (da.extract 0 (n1 * nc) ++ dc.extract nc (n2 * nc)).getD (j * nc + i) 0
      = if j < n1 then da.getD (j * nc + i) 0 else dc.getD ((j + 1 - n1) * nc + i) 0 := by
  rw [Array.getD_eq_getD_getElem?, Array.getElem?_append]
  simp only [Array.size_extract]
  have hm : min (n1 * nc) da.size - 0 = n1 * nc := by omega
  rw [hm]
  by_cases h1 : j < n1
  · have hlt : j * nc + i < n1 * nc := by
      have := Nat.mul_le_mul_right nc (show j + 1 ≤ n1 by omega)
      rw [Nat.succ_mul] at this; omega
    rw [if_pos hlt, if_pos h1, Array.getElem?_extract, if_pos (by omega), Nat.zero_add,
      ← Array.getD_eq_getD_getElem?]
  · have hge : n1 * nc ≤ j * nc + i := by
      have := Nat.mul_le_mul_right nc (show n1 ≤ j by omega); omega
    rw [if_neg (by omega), if_neg h1, Array.getElem?_extract]
    have hidx : nc + (j * nc + i - n1 * nc) = (j + 1 - n1) * nc + i := by
      obtain ⟨m, rfl⟩ : ∃ m, j = n1 + m := ⟨j - n1, by omega⟩
      rw [show n1 + m + 1 - n1 = m + 1 by omega, Nat.add_mul, Nat.succ_mul]
      omega
    have hlt2 : j * nc + i - n1 * nc < min (n2 * nc) dc.size - nc := by
      obtain ⟨m, rfl⟩ : ∃ m, j = n1 + m := ⟨j - n1, by omega⟩
      have := Nat.mul_le_mul_right nc (show m + 2 ≤ n2 by omega)
      simp only [Nat.add_mul] at this ⊢
      omega
    rw [if_pos hlt2, hidx, ← Array.getD_eq_getD_getElem?]

/-- The object `Curve.append` returns (equal orders). -/
def mergedObj (a c : Obj K) : Obj K :=
  { bases := #[mergedBasis (a.basis 0) (c.basis 0)],
    cps := { shape := [(a.basis 0).numFunctions + (c.basis 0).numFunctions - 1, a.ncomp],
             data := a.cps.data.extract 0 ((a.basis 0).numFunctions * a.ncomp)
               ++ c.cps.data.extract a.ncomp ((c.basis 0).numFunctions * a.ncomp) },
    rational := a.rational }

theorem compatible_same {a c : Obj K} (ha : a.WellFormed) (hrat : c.rational = a.rational)
    (hdim : c.dimension = a.dimension) : Obj.compatible a c = (a, c) := by
  unfold Obj.compatible
  have hfr : c.rational = true → c.forceRational = c := by
    intro h; unfold Obj.forceRational; rw [if_pos h]
  cases har : a.rational with
  | true =>
    rw [har] at hrat
    simp only [if_true, hfr hrat]
    rw [if_neg (by omega), hdim, setDimension_self ha]
  | false =>
    rw [har] at hrat
    simp only [Bool.false_eq_true, if_false, hrat]
    rw [if_neg (by omega), hdim, setDimension_self ha]

/-- **`Curve.append` of two curves of equal order** (the model function `Obj.appendCurve` the driver
runs): both non-periodic, same rationality and dimension, order `p = q+1 ≥ 2`, the first clamped at
its end and the second at its start, end point of the first = start point of the second (all
homogeneous components). -/
theorem appendCurve_obj {a c : Obj K} (ha : a.WellFormed) (hc : c.WellFormed)
    (ha1 : a.bases.size = 1) (hc1 : c.bases.size = 1)
    (hpa : (a.basis 0).periodic = -1) (hpc : (c.basis 0).periodic = -1)
    (hrat : c.rational = a.rational) (hdim : c.dimension = a.dimension)
    (hord : (c.basis 0).order = (a.basis 0).order) (hq : 2 ≤ (a.basis 0).order)
    (hcl1 : (a.basis 0).kn (a.basis 0).numFunctions
      = (a.basis 0).kn ((a.basis 0).numFunctions + ((a.basis 0).order - 1)))
    (hcl2 : (c.basis 0).kn 0 = (c.basis 0).kn ((a.basis 0).order - 1))
    (hjoint : ∀ i, i < a.ncomp →
      fibre a 0 0 i ((a.basis 0).numFunctions - 1) = fibre c 0 0 i 0)
    {tol : K} (htol : 0 ≤ tol) :
    ∃ r, a.appendCurve c tol = .ok (some r) ∧ r.WellFormed ∧ r.bases.size = 1 ∧
      (r.basis 0).periodic = -1 ∧ (r.basis 0).order = (a.basis 0).order ∧
      (r.basis 0).numFunctions = (a.basis 0).numFunctions + (c.basis 0).numFunctions - 1 ∧
      (r.basis 0).start = (a.basis 0).start ∧
      (r.basis 0).stop = (a.basis 0).stop + ((c.basis 0).stop - (c.basis 0).start) ∧
      r.rational = a.rational ∧ r.ncomp = a.ncomp ∧
      ∀ i, i < a.ncomp → ∀ (s : Side) (t : K),
        (s.before t (a.basis 0).stop →
          splineVal s (r.basis 0).kn ((a.basis 0).order - 1) (r.basis 0).numFunctions (fibre r 0 0 i) t
            = splineVal s (a.basis 0).kn ((a.basis 0).order - 1) (a.basis 0).numFunctions
                (fibre a 0 0 i) t) ∧
        (s.after (a.basis 0).stop t →
          splineVal s (r.basis 0).kn ((a.basis 0).order - 1) (r.basis 0).numFunctions (fibre r 0 0 i) t
            = splineVal s (c.basis 0).kn ((a.basis 0).order - 1) (c.basis 0).numFunctions
                (fibre c 0 0 i) (t - ((a.basis 0).stop - (c.basis 0).start))) := by
  have hva : (a.basis 0).Valid := ha.valid 0 (by omega)
  have hvc : (c.basis 0).Valid := hc.valid 0 (by omega)
  have hsa := hva.nAll_add
  have hsc := hvc.nAll_add
  rw [← Basis.numFunctions_of_nonperiodic hpa] at hsa
  rw [← Basis.numFunctions_of_nonperiodic hpc, hord] at hsc
  have hn1p : (a.basis 0).order ≤ (a.basis 0).numFunctions := by have := hva.size_ge; omega
  have hn2p : (a.basis 0).order ≤ (c.basis 0).numFunctions := by
    have := hvc.size_ge; rw [hord] at this; omega
  have hcompat := compatible_same ha hrat hdim
  have hncc : c.ncomp = a.ncomp := by
    rw [hc.ncomp_eq, ha.ncomp_eq]; unfold Obj.ncompSpec; rw [hrat, hdim]
  obtain ⟨hmv, hmst, hmsp⟩ := mergedBasis_valid hva hvc hpa hpc hord hq hcl1 hcl2
  have hmsz := mergedBasis_size hva hvc hpa hpc hord hq
  have hmkn := mergedBasis_kn hva hvc hpa hpc hord hq
  have hmk : Basis.mk? (a.basis 0).order (mergedBasis (a.basis 0) (c.basis 0)).knots (-1) tol
      = .ok (mergedBasis (a.basis 0) (c.basis 0)) := Basis.mk?_of_valid hmv tol htol
  -- the result
  obtain ⟨r, hr⟩ : ∃ r : Obj K, r = mergedObj a c := ⟨_, rfl⟩
  have happ : a.appendCurve c tol = .ok (some r) := by
    rw [Obj.appendCurve_eq, if_neg (by rw [hpa, hpc]; decide), hcompat]
    unfold Obj.appendMerge
    simp only [hord, ne_eq, not_true_eq_false, if_false]
    have hmk' := hmk
    unfold mergedBasis at hmk'
    simp only [] at hmk'
    simp only [bind, Except.bind, pure, Except.pure, hmk']
    rw [hr]
    rfl
  have hwf : r.WellFormed := Obj.appendCurve_wf ha hc ha1 hc1 happ
  have hrb : r.basis 0 = mergedBasis (a.basis 0) (c.basis 0) := by rw [hr]; simp [Obj.basis, mergedObj]
  have hrnum : (r.basis 0).numFunctions
      = (a.basis 0).numFunctions + (c.basis 0).numFunctions - 1 := by
    rw [hrb]
    show (mergedBasis (a.basis 0) (c.basis 0)).knots.size - (a.basis 0).order - ((-1 : Int) + 1).toNat = _
    rw [hmsz, show ((-1 : Int) + 1).toNat = 0 from rfl]
    omega
  have hrnc : r.ncomp = a.ncomp := by rw [hr]; rfl
  -- shapes and fibres
  have hbasesa : a.bases = #[a.basis 0] := bases_singleton a ha1
  have hbasesc : c.bases = #[c.basis 0] := bases_singleton c hc1
  have hsha : a.cps.shape = [(a.basis 0).numFunctions, a.ncomp] := by
    rw [ha.shape_eq']; unfold Obj.counts; rw [hbasesa]; rfl
  have hshc : c.cps.shape = [(c.basis 0).numFunctions, a.ncomp] := by
    rw [hc.shape_eq', hncc]; unfold Obj.counts; rw [hbasesc]; rfl
  have hda : a.cps.data.size = (a.basis 0).numFunctions * a.ncomp := by
    rw [ha.data_size, hsha]; simp [Tensor.prod]
  have hdc : c.cps.data.size = (c.basis 0).numFunctions * a.ncomp := by
    rw [hc.data_size, hshc]; simp [Tensor.prod]
  have hat3 : ∀ (t : Tensor K) (N nc : ℕ), t.shape = [N, nc] → ∀ j i,
      t.at3 0 0 j i = t.data.getD (j * nc + i) 0 := by
    intro t N nc hs j i
    unfold Tensor.at3 Tensor.get
    rw [hs]
    simp [Tensor.split3, Tensor.prod]
  have hfa : ∀ i j, fibre a 0 0 i j = a.cps.data.getD (j * a.ncomp + i) 0 :=
    fun i j => hat3 a.cps _ _ hsha j i
  have hfc : ∀ i j, fibre c 0 0 i j = c.cps.data.getD (j * a.ncomp + i) 0 :=
    fun i j => hat3 c.cps _ _ hshc j i
  have hfr : ∀ i j, i < a.ncomp → j < (a.basis 0).numFunctions + (c.basis 0).numFunctions - 1 →
      fibre r 0 0 i j = appendCoef (fibre a 0 0 i) (fibre c 0 0 i) (a.basis 0).numFunctions j := by
    intro i j hi hj
    have : fibre r 0 0 i j = r.cps.data.getD (j * a.ncomp + i) 0 :=
      hat3 r.cps _ _ (by rw [hr]; rfl) j i
    rw [this, hr]
    unfold mergedObj
    simp only []
    rw [mergedData_getD _ _ _ _ _ j i hda hdc hi hj]
    unfold appendCoef
    split_ifs with h
    · rw [hfa]
    · rw [hfc]
  refine ⟨r, happ, hwf, by rw [hr]; rfl, by rw [hrb]; rfl, by rw [hrb]; rfl, hrnum,
    by rw [hrb]; exact hmst, by rw [hrb]; exact hmsp, by rw [hr]; rfl, hrnc, ?_⟩
  intro i hi s t
  have hastop : (a.basis 0).stop = (a.basis 0).kn (a.basis 0).numFunctions := by
    rw [Basis.numFunctions_of_nonperiodic hpa]; rfl
  have hbstart : (c.basis 0).start = (c.basis 0).kn 0 := by
    show (c.basis 0).kn ((c.basis 0).order - 1) = _
    rw [hord, hcl2]
  have hconv : splineVal s (r.basis 0).kn ((a.basis 0).order - 1) (r.basis 0).numFunctions (fibre r 0 0 i) t
      = splineVal s (appendKnots (a.basis 0).kn (c.basis 0).kn ((a.basis 0).order - 1)
          (a.basis 0).numFunctions) ((a.basis 0).order - 1)
          ((a.basis 0).numFunctions + (c.basis 0).numFunctions - 1)
          (appendCoef (fibre a 0 0 i) (fibre c 0 0 i) (a.basis 0).numFunctions) t := by
    rw [hrnum]
    unfold splineVal
    apply Finset.sum_congr rfl
    intro j hj
    rw [Finset.mem_range] at hj
    rw [hfr i j hi hj]
    congr 1
    apply B_congr_knots
    intro k hk
    rw [hrb]
    exact hmkn (j + k) (by omega)
  constructor
  · intro hb
    rw [hconv]
    exact splineVal_append_left (a.basis 0).kn (c.basis 0).kn hva.kn_mono hvc.kn_mono
      ((a.basis 0).order - 1) (a.basis 0).numFunctions (by omega) (by omega) hcl1 hcl2
      (c.basis 0).numFunctions (by omega) _ _ s t (by rw [← hastop]; exact hb)
  · intro hb
    rw [hconv, hastop, hcl1, hbstart]
    exact splineVal_append_right (a.basis 0).kn (c.basis 0).kn hva.kn_mono hvc.kn_mono
      ((a.basis 0).order - 1) (a.basis 0).numFunctions (by omega) (by omega) hcl1 hcl2
      (c.basis 0).numFunctions (by omega) _ _ (hjoint i hi) s t
      (by rw [← hcl1, ← hastop]; exact hb)

end Splipy
