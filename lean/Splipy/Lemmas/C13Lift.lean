import Splipy.Lemmas.TensorEvalObj1
import Splipy.Model.IOPrims
import Splipy.Lemmas.C13Eval

/-!
# C13: lifting the arc statement to `Obj.evaluate`

`FileIO.ofFac` turns the factory object (list of control points) into the tensor object on which
`Obj.evaluate` (the model of `SplineObject.evaluate`) is defined.
-/

namespace Splipy.Fac

open Finset

variable {K : Type} [Field K] [LinearOrder K] [IsStrictOrderedRing K] [FloorRing K]

/-- the unplaced arc curve of `circle_segment` (`θ > 0`). -/
def arcCurve (r cd sd theta : K) (n : ℕ) : Fac.Obj K :=
  curveOf { order := 3, knots := (arcKnots theta n).toArray, periodic := -1 } (arcNet r cd sd n) true 2

omit [FloorRing K] in
theorem arcBasis_valid (theta : K) (n : ℕ) (hn : 0 < n) (hθ : 0 < theta) :
    ({ order := 3, knots := (arcKnots theta n).toArray, periodic := -1 } : Basis K).Valid := by
  have hsize : ({ order := 3, knots := (arcKnots theta n).toArray, periodic := -1 } : Basis K).knots.size
      = 2 * n + 4 := by
    simp [arcKnots, arcInts_eq]
  have hmono := arcKnotFn_mono theta n hn hθ
  refine ⟨by simp, by rw [hsize]; simp; omega, ?_, by simp, Or.inr rfl, ?_, ?_⟩
  · intro i hi
    rw [hsize] at hi
    rw [kn_arc theta n i (by omega), kn_arc theta n (i+1) hi]
    exact hmono (Nat.le_succ i)
  · unfold Basis.start Basis.stop
    rw [hsize]
    simp only
    rw [kn_arc theta n (3 - 1) (by omega), kn_arc theta n (2 * n + 4 - 3) (by omega)]
    have e1 : arcKnotFn theta n (3 - 1) = 0 := by simp [arcKnotFn]
    have e2 : arcKnotFn theta n (2 * n + 4 - 3) = theta := by
      have : min n ((2 * n + 4 - 3 - 1) / 2) = n := by omega
      have hn' : (n : K) ≠ 0 := by exact_mod_cast (Nat.pos_iff_ne_zero.mp hn)
      unfold arcKnotFn; rw [this]; field_simp
    rw [e1, e2]; exact hθ
  · intro h; simp at h

omit [LinearOrder K] [IsStrictOrderedRing K] [FloorRing K] in
theorem ofFac_get (fo : Fac.Obj K) (nc : ℕ) (hnc : 0 < nc) (h : ∀ p ∈ fo.cps, p.length = nc) (j c : ℕ)
    (hj : j < fo.cps.length) (hc : c < nc) :
    (FileIO.ofFac fo).cps.get (j * nc + c) = (fo.cps.getD j []).getD c 0 := by
  unfold FileIO.ofFac Tensor.get
  simp only
  rw [← flatten_getD_uniform fo.cps nc 0 h j c hc hj]
  simp [List.getD_eq_getElem?_getD]

omit [FloorRing K] in
theorem splineVal_congr_coeff (s : Side) (τ : ℕ → K) (q n : ℕ) (c c' : ℕ → K) (t : K)
    (h : ∀ i, i < n → c i = c' i) : splineVal s τ q n c t = splineVal s τ q n c' t := by
  unfold splineVal
  exact sum_congr rfl (fun i hi => by rw [h i (mem_range.mp hi)])


end Splipy.Fac
