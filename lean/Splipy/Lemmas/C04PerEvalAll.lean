import Splipy.Lemmas.C04PerEval
import Splipy.Lemmas.C04PerKnots

/-!
# C04 helper lemmas, part 24: periodic curves and the real evaluator, any number of functions
-/

namespace Splipy
namespace C04

set_option linter.unusedSectionVars false

open Finset Bridge

variable {K : Type} [Field K] [LinearOrder K] [IsStrictOrderedRing K] [FloorRing K]

/-- **Periodic curves, evaluator level, no lower bound on the number of functions.**  Inserting any
reals into the periodic basis of a curve, rational or not: the call succeeds, and `Obj.evaluate`
returns the same tensor before and after at all parameters admissible for both bases. -/
theorem evaluate_unchanged_periodic_curve_all {o : Obj K} {b1 : Basis K} (hb : o.bases = #[b1])
    (hv1 : b1.Valid) (k : ℕ) (hk : b1.periodic = (k : Int)) {nc : ℕ}
    (hs : o.cps.shape = [b1.numFunctions, nc]) (hnc : o.rational = true → 1 ≤ nc)
    (xs : List K) {tol : K} (htol : 0 < tol)
    {us : List K} (hus : ∀ u ∈ us, b1.Admissible tol u) :
    ∃ o', o.insertKnots xs 0 = .ok o' ∧ (o'.basis 0).Valid ∧
      (o'.basis 0).numFunctions = b1.numFunctions + xs.length ∧
      ((∀ u ∈ us, (o'.basis 0).Admissible tol u) →
        o'.evaluate tol [us] true = o.evaluate tol [us] true) := by
  have hb0 : o.basis 0 = b1 := by simp [Obj.basis, hb]
  obtain ⟨o', C, h1, h2, _, _, hrat, hsh, _, _, hfib, hbases⟩ :=
    insertKnots_fibres_periodic_all o 0 (by rw [hb]; simp) (by rw [hs]; simp)
      (by rw [hb0]; exact hv1) k (by rw [hb0]; exact hk)
      (by rw [hb0, hs]; rfl) xs
  rw [hb0] at h2 hsh hfib
  have hb'' : o'.bases = #[o'.basis 0] := by rw [hbases, hb]; rfl
  have hs' : o'.cps.shape = [(o'.basis 0).numFunctions, nc] := by rw [hsh, hs, h2.num_eq]; rfl
  refine ⟨o', h1, h2.valid, h2.num_eq, fun hadm' => ?_⟩
  have hper : 0 ≤ b1.periodic := by rw [hk]; omega
  have hper' : 0 ≤ (o'.basis 0).periodic := by rw [h2.periodic_eq]; exact hper
  refine (transfer_curve hb hb'' hv1 h2.valid hs hs' hrat hnc htol rfl hus hadm' (fun p _ => ?_)
    (fun h => by omega) (fun h => by omega)).1
  intro a i ha hi
  have hnpos := numFunctions_pos hv1
  set u := us.getD p 0 with hu
  rw [specRow_sum_periodic (o'.basis 0) h2.valid hper' u, specRow_sum_periodic b1 hv1 hper u,
    wrap_congr b1 (o'.basis 0) h2.start_eq h2.stop_eq, effSide_congr b1 (o'.basis 0) h2.stop_eq,
    h2.nAll_eq hv1, h2.num_eq, h2.order_eq,
    wsum_congr _ _ _ _ _ (by omega) _ _ 0 _ (fun r hr => hfib a i r ha hi hr)]
  exact h2.same (fibre o 0 a i) _ 0 _
    (effSide_mem b1 hv1 _ (b1.wrap_mem hv1 u).1 (b1.wrap_mem hv1 u).2)

end C04
end Splipy
