import Splipy.Lemmas.C15SixC

/-!
# Six-face `edge_surfaces`: evaluation of the corner volume and of the three edge volumes
-/

set_option linter.unusedSectionVars false

namespace Splipy
namespace C15

open C06 C12 Obj Basis Finset

variable {K : Type} [Field K] [LinearOrder K] [IsStrictOrderedRing K] [FloorRing K]

/-- Side / parameter / blending weight of an end (`false` = start, `true` = end). -/
def sideOf (e : Bool) : Side := if e then .left else .right
def endOf (e : Bool) : K := if e then 1 else 0
def bt (s : Side) (e : Bool) (x : K) : K := beta s (if e then 1 else 0) x
/-- Sum over the two ends. -/
def sum2 (f : Bool → K) : K := f false + f true

theorem bt_at_end (e e' : Bool) : bt (K := K) (sideOf e) e' (endOf e) = if e' = e then 1 else 0 := by
  obtain ⟨l0, l1, r0, r1⟩ : beta (K := K) .right 0 0 = 1 ∧ beta (K := K) .right 1 0 = 0
      ∧ beta (K := K) .left 0 1 = 0 ∧ beta (K := K) .left 1 1 = 1 := by
    have a0 := beta_lo (K := K) 0
    have a1 := beta_lo (K := K) 1
    have b0 := beta_hi (K := K) 0
    have b1 := beta_hi (K := K) 1
    simp only [if_true, one_ne_zero, if_false, zero_ne_one] at a0 a1 b0 b1
    exact ⟨a0, a1, b0, b1⟩
  unfold bt sideOf endOf
  cases e <;> cases e' <;> simp [l0, l1, r0, r1]

/-! ## Entries of `edgeNet` -/

theorem edgeNet_get (src : Tensor K) (n0 n1 n2 nc : ℕ) (hs : src.shape = [n0, n1, n2, nc]) (keep : ℕ)
    (hk : keep < 3) (i0 i1 i2 c : ℕ)
    (h0 : i0 < (if 0 = keep then n0 else 2)) (h1 : i1 < (if 1 = keep then n1 else 2))
    (h2 : i2 < (if 2 = keep then n2 else 2)) (hc : c < nc) :
    (Obj.edgeNet src keep).get
        (((i0 * (if 1 = keep then n1 else 2) + i1) * (if 2 = keep then n2 else 2) + i2) * nc + c)
      = src.get ((((if 0 = keep then i0 else if i0 = 0 then 0 else n0 - 1) * n1
            + (if 1 = keep then i1 else if i1 = 0 then 0 else n1 - 1)) * n2
            + (if 2 = keep then i2 else if i2 = 0 then 0 else n2 - 1)) * nc + c) := by
  unfold Obj.edgeNet
  have hshape : (List.map (fun k => if k = keep then src.shape.getD keep 0 else 2) (List.range 3)
      ++ [src.shape.getLastD 0])
      = [if 0 = keep then n0 else 2, if 1 = keep then n1 else 2, if 2 = keep then n2 else 2, nc] := by
    rw [hs]
    interval_cases keep <;> simp [List.range_succ]
  simp only []
  rw [hshape]
  have hlt : ((i0 * (if 1 = keep then n1 else 2) + i1) * (if 2 = keep then n2 else 2) + i2) * nc + c
      < Tensor.prod [if 0 = keep then n0 else 2, if 1 = keep then n1 else 2, if 2 = keep then n2 else 2, nc] := by
    have e : Tensor.prod [if 0 = keep then n0 else 2, if 1 = keep then n1 else 2, if 2 = keep then n2 else 2, nc]
        = (if 0 = keep then n0 else 2) * (if 1 = keep then n1 else 2) * (if 2 = keep then n2 else 2) * nc := by
      simp [Tensor.prod]
    rw [e]
    set m0 := (if 0 = keep then n0 else 2)
    set m1 := (if 1 = keep then n1 else 2)
    set m2 := (if 2 = keep then n2 else 2)
    have a1 : i0 * m1 + i1 < m0 * m1 := by
      calc i0 * m1 + i1 < i0 * m1 + m1 := by omega
        _ = (i0 + 1) * m1 := by ring
        _ ≤ m0 * m1 := Nat.mul_le_mul_right _ h0
    have a2 : (i0 * m1 + i1) * m2 + i2 < m0 * m1 * m2 := by
      calc (i0 * m1 + i1) * m2 + i2 < (i0 * m1 + i1) * m2 + m2 := by omega
        _ = (i0 * m1 + i1 + 1) * m2 := by ring
        _ ≤ m0 * m1 * m2 := Nat.mul_le_mul_right _ a1
    calc ((i0 * m1 + i1) * m2 + i2) * nc + c < ((i0 * m1 + i1) * m2 + i2) * nc + nc := by omega
      _ = ((i0 * m1 + i1) * m2 + i2 + 1) * nc := by ring
      _ ≤ m0 * m1 * m2 * nc := Nat.mul_le_mul_right _ a2
  unfold Tensor.get Tensor.tabulate
  simp only []
  rw [Tensor.getD_ofFn _ hlt]
  simp only []
  rw [unravel4 _ _ _ _ i0 i1 i2 c h1 h2 hc]
  unfold Tensor.getIdx Tensor.get
  rw [hs]
  interval_cases keep <;> simp [List.range_succ, Tensor.ravel, Tensor.prod] <;> (congr 2; split_ifs <;> ring)

/-! ## A volume at the ends of two of its directions -/

theorem volume_eval_at01 {X : Obj K} (hw : C06.WF X 3) (hper : ∀ d : Fin 3, (X.basis d).periodic = -1)
    (comp : ℕ) (sd : Fin 3 → Side) (u : Fin 3 → K) (k0 k1 : ℕ)
    (hk0 : k0 < (X.basis 0).numFunctions) (hk1 : k1 < (X.basis 1).numFunctions)
    (hδ0 : ∀ i, i < (X.basis 0).numFunctions →
      B (sd 0) (X.basis 0).kn ((X.basis 0).order - 1) i (u 0) = if i = k0 then 1 else 0)
    (hδ1 : ∀ i, i < (X.basis 1).numFunctions →
      B (sd 1) (X.basis 1).kn ((X.basis 1).order - 1) i (u 1) = if i = k1 then 1 else 0) :
    (toTP X 3 comp).eval sd u
      = ∑ k ∈ range (X.basis 2).numFunctions,
          X.cps.get (((k0 * (X.basis 1).numFunctions + k1) * (X.basis 2).numFunctions + k) * X.ncomp + comp)
            * B (sd 2) (X.basis 2).kn ((X.basis 2).order - 1) k (u 2) := by
  rw [toTP_eval_volume hw hper, Finset.sum_eq_single k0]
  · rw [Finset.sum_eq_single k1]
    · apply Finset.sum_congr rfl
      intro k _
      rw [hδ0 k0 hk0, hδ1 k1 hk1, if_pos rfl, if_pos rfl]; ring
    · intro j hj hjk
      apply Finset.sum_eq_zero
      intro k _
      rw [hδ1 j (mem_range.mp hj), if_neg hjk]; ring
    · intro h; exact absurd (mem_range.mpr hk1) h
  · intro i hi hik
    apply Finset.sum_eq_zero
    intro j _
    apply Finset.sum_eq_zero
    intro k _
    rw [hδ0 i (mem_range.mp hi), if_neg hik]; ring
  · intro h; exact absurd (mem_range.mpr hk0) h

theorem volume_eval_at12 {X : Obj K} (hw : C06.WF X 3) (hper : ∀ d : Fin 3, (X.basis d).periodic = -1)
    (comp : ℕ) (sd : Fin 3 → Side) (u : Fin 3 → K) (k1 k2 : ℕ)
    (hk1 : k1 < (X.basis 1).numFunctions) (hk2 : k2 < (X.basis 2).numFunctions)
    (hδ1 : ∀ i, i < (X.basis 1).numFunctions →
      B (sd 1) (X.basis 1).kn ((X.basis 1).order - 1) i (u 1) = if i = k1 then 1 else 0)
    (hδ2 : ∀ i, i < (X.basis 2).numFunctions →
      B (sd 2) (X.basis 2).kn ((X.basis 2).order - 1) i (u 2) = if i = k2 then 1 else 0) :
    (toTP X 3 comp).eval sd u
      = ∑ i ∈ range (X.basis 0).numFunctions,
          X.cps.get (((i * (X.basis 1).numFunctions + k1) * (X.basis 2).numFunctions + k2) * X.ncomp + comp)
            * B (sd 0) (X.basis 0).kn ((X.basis 0).order - 1) i (u 0) := by
  rw [toTP_eval_volume hw hper]
  apply Finset.sum_congr rfl
  intro i _
  rw [Finset.sum_eq_single k1]
  · rw [Finset.sum_eq_single k2]
    · rw [hδ1 k1 hk1, hδ2 k2 hk2, if_pos rfl, if_pos rfl]; ring
    · intro k hk hkk
      rw [hδ2 k (mem_range.mp hk), if_neg hkk]; ring
    · intro h; exact absurd (mem_range.mpr hk2) h
  · intro j hj hjk
    apply Finset.sum_eq_zero
    intro k _
    rw [hδ1 j (mem_range.mp hj), if_neg hjk]; ring
  · intro h; exact absurd (mem_range.mpr hk1) h

theorem volume_eval_at02 {X : Obj K} (hw : C06.WF X 3) (hper : ∀ d : Fin 3, (X.basis d).periodic = -1)
    (comp : ℕ) (sd : Fin 3 → Side) (u : Fin 3 → K) (k0 k2 : ℕ)
    (hk0 : k0 < (X.basis 0).numFunctions) (hk2 : k2 < (X.basis 2).numFunctions)
    (hδ0 : ∀ i, i < (X.basis 0).numFunctions →
      B (sd 0) (X.basis 0).kn ((X.basis 0).order - 1) i (u 0) = if i = k0 then 1 else 0)
    (hδ2 : ∀ i, i < (X.basis 2).numFunctions →
      B (sd 2) (X.basis 2).kn ((X.basis 2).order - 1) i (u 2) = if i = k2 then 1 else 0) :
    (toTP X 3 comp).eval sd u
      = ∑ j ∈ range (X.basis 1).numFunctions,
          X.cps.get (((k0 * (X.basis 1).numFunctions + j) * (X.basis 2).numFunctions + k2) * X.ncomp + comp)
            * B (sd 1) (X.basis 1).kn ((X.basis 1).order - 1) j (u 1) := by
  rw [toTP_eval_volume hw hper, Finset.sum_eq_single k0]
  · apply Finset.sum_congr rfl
    intro j _
    rw [Finset.sum_eq_single k2]
    · rw [hδ0 k0 hk0, hδ2 k2 hk2, if_pos rfl, if_pos rfl]; ring
    · intro k hk hkk
      rw [hδ2 k (mem_range.mp hk), if_neg hkk]; ring
    · intro h; exact absurd (mem_range.mpr hk2) h
  · intro i hi hik
    apply Finset.sum_eq_zero
    intro j _
    apply Finset.sum_eq_zero
    intro k _
    rw [hδ0 i (mem_range.mp hi), if_neg hik]; ring
  · intro h; exact absurd (mem_range.mpr hk0) h

/-! ## The three edge volumes as maps -/

theorem unit_delta {tol : K} (htol : 0 < tol) {p : ℕ} {U : List K} {M : List ℕ} (h : UnitKnots tol p U M)
    (e : Bool) (i : ℕ) :
    B (sideOf e) (unitBasis p U M).kn ((unitBasis p U M).order - 1) i (endOf e)
      = if i = endIdx (unitBasis p U M).numFunctions e then 1 else 0 := by
  obtain ⟨hcl, h0, h1⟩ := h.endsClamped htol
  unfold sideOf endOf endIdx
  cases e
  · simp only [Bool.false_eq_true, if_false]
    have := hcl.B_lo i
    rw [h0] at this
    exact this
  · simp only [if_true]
    have := hcl.B_hi i
    rw [h1] at this
    exact this

theorem endIdx_lt {n : ℕ} (hn : 1 ≤ n) (e : Bool) : endIdx n e < n := by
  unfold endIdx; cases e <;> simp <;> omega

/-- `vol_u_edges` as a map: bilinear in `(u, v)` between the four `w`-edges of `X1`. -/
theorem edgeVolU_eval {tol : K} (htol : 0 < tol) (p : Fin 3 → ℕ) (U : Fin 3 → List K) (M : Fin 3 → List ℕ)
    (k : ∀ d, UnitKnots tol (p d) (U d) (M d)) {rat : Bool} {nc : ℕ} (X1 res : Obj K)
    (h1 : StdVol X1 p U M (fun _ => true) rat nc) (hr : StdVol res p U M (fun _ => true) rat nc)
    (comp : ℕ) (hc : comp < nc) (sd : Fin 3 → Side) (u : Fin 3 → K) :
    (toTP (edgeVolU X1 res) 3 comp).eval sd u
      = sum2 (fun a => sum2 (fun b => bt (sd 0) a (u 0) * bt (sd 1) b (u 1)
          * (toTP X1 3 comp).eval ![sideOf a, sideOf b, sd 2] ![endOf a, endOf b, u 2])) := by
  have EU := edgeVolU_std p U M X1 res h1 hr
  have hb0 : X1.basis 0 = unitBasis (p 0) (U 0) (M 0) := by simpa using h1.basis_eq 0
  have hb1 : X1.basis 1 = unitBasis (p 1) (U 1) (M 1) := by simpa using h1.basis_eq 1
  have hb2 : X1.basis 2 = unitBasis (p 2) (U 2) (M 2) := by simpa using h1.basis_eq 2
  have e0 : (edgeVolU X1 res).basis 0 = linearBasis := rfl
  have e1 : (edgeVolU X1 res).basis 1 = linearBasis := rfl
  have e2 : (edgeVolU X1 res).basis 2 = X1.basis 2 := by
    show res.basis 2 = _
    rw [hb2]; simpa using hr.basis_eq 2
  have hperX : ∀ d : Fin 3, (X1.basis d).periodic = -1 := h1.nonper
  have hperE : ∀ d : Fin 3, ((edgeVolU X1 res).basis d).periodic = -1 := EU.nonper
  have hss := volume_shape h1.wf
  have n0pos : 1 ≤ (X1.basis 0).numFunctions := valid_numFunctions_pos (h1.wf.valid 0)
  have n1pos : 1 ≤ (X1.basis 1).numFunctions := valid_numFunctions_pos (h1.wf.valid 1)
  have key : ∀ a b : Bool, (toTP X1 3 comp).eval ![sideOf a, sideOf b, sd 2] ![endOf a, endOf b, u 2]
      = ∑ kk ∈ range (X1.basis 2).numFunctions,
          X1.cps.get (((endIdx (X1.basis 0).numFunctions a * (X1.basis 1).numFunctions
            + endIdx (X1.basis 1).numFunctions b) * (X1.basis 2).numFunctions + kk) * X1.ncomp + comp)
            * B (sd 2) (X1.basis 2).kn ((X1.basis 2).order - 1) kk (u 2) := by
    intro a b
    have := volume_eval_at01 h1.wf hperX comp ![sideOf a, sideOf b, sd 2] ![endOf a, endOf b, u 2]
      (endIdx _ a) (endIdx _ b) (endIdx_lt n0pos a) (endIdx_lt n1pos b)
      (by intro i _; simp only [Matrix.cons_val_zero]; rw [hb0]; exact unit_delta htol (k 0) a i)
      (by intro i _; simp only [Matrix.cons_val_one]; rw [hb1]; exact unit_delta htol (k 1) b i)
    simpa using this
  rw [toTP_eval_volume EU.wf hperE, e0, e1, e2, linearBasis_numFunctions, EU.ncomp]
  simp only [sum2]
  rw [key false false, key false true, key true false, key true true, h1.ncomp]
  simp only [Finset.sum_range_succ, Finset.sum_range_zero, zero_add]
  have g := fun i0 i1 kk (h0 : i0 < 2) (h1' : i1 < 2) (hk : kk < (X1.basis 2).numFunctions) =>
    edgeNet_get X1.cps _ _ _ _ hss 2 (by norm_num) i0 i1 kk comp (by simpa using h0) (by simpa using h1')
      (by simpa using hk) (by rw [h1.ncomp]; exact hc)
  simp only [Finset.mul_sum, ← Finset.sum_add_distrib]
  apply Finset.sum_congr rfl
  intro kk hkk
  have hk' := mem_range.mp hkk
  have g00 := g 0 0 kk (by norm_num) (by norm_num) hk'
  have g01 := g 0 1 kk (by norm_num) (by norm_num) hk'
  have g10 := g 1 0 kk (by norm_num) (by norm_num) hk'
  have g11 := g 1 1 kk (by norm_num) (by norm_num) hk'
  simp only [show (0 : ℕ) = 2 ↔ False by norm_num, show (1 : ℕ) = 2 ↔ False by norm_num, if_false, if_true,
    one_ne_zero, h1.ncomp] at g00 g01 g10 g11
  show (Obj.edgeNet X1.cps 2).get _ * _ + (Obj.edgeNet X1.cps 2).get _ * _
      + ((Obj.edgeNet X1.cps 2).get _ * _ + (Obj.edgeNet X1.cps 2).get _ * _) = _
  rw [g00, g01, g10, g11]
  unfold bt beta endIdx
  simp only [Bool.false_eq_true, if_false, if_true, zero_mul, zero_add]
  show _ * (B (sd 0) (linearBasis : Basis K).kn 1 0 (u 0) * B (sd 1) (linearBasis : Basis K).kn 1 0 (u 1) * _)
      + _ * (B (sd 0) (linearBasis : Basis K).kn 1 0 (u 0) * B (sd 1) (linearBasis : Basis K).kn 1 1 (u 1) * _)
      + (_ * (B (sd 0) (linearBasis : Basis K).kn 1 1 (u 0) * B (sd 1) (linearBasis : Basis K).kn 1 0 (u 1) * _)
      + _ * (B (sd 0) (linearBasis : Basis K).kn 1 1 (u 0) * B (sd 1) (linearBasis : Basis K).kn 1 1 (u 1) * _)) = _
  ring

/-- `vol_v_edges` as a map: bilinear in `(v, w)` between the four `u`-edges of `X2`. -/
theorem edgeVolV_eval {tol : K} (htol : 0 < tol) (p : Fin 3 → ℕ) (U : Fin 3 → List K) (M : Fin 3 → List ℕ)
    (k : ∀ d, UnitKnots tol (p d) (U d) (M d)) {rat : Bool} {nc : ℕ} (X2 res : Obj K)
    (h1 : StdVol X2 p U M (fun _ => true) rat nc) (hr : StdVol res p U M (fun _ => true) rat nc)
    (comp : ℕ) (hc : comp < nc) (sd : Fin 3 → Side) (u : Fin 3 → K) :
    (toTP (edgeVolV X2 res) 3 comp).eval sd u
      = sum2 (fun b => sum2 (fun c => bt (sd 1) b (u 1) * bt (sd 2) c (u 2)
          * (toTP X2 3 comp).eval ![sd 0, sideOf b, sideOf c] ![u 0, endOf b, endOf c])) := by
  have EV := edgeVolV_std p U M X2 res h1 hr
  have hb0 : X2.basis 0 = unitBasis (p 0) (U 0) (M 0) := by simpa using h1.basis_eq 0
  have hb1 : X2.basis 1 = unitBasis (p 1) (U 1) (M 1) := by simpa using h1.basis_eq 1
  have hb2 : X2.basis 2 = unitBasis (p 2) (U 2) (M 2) := by simpa using h1.basis_eq 2
  have e0 : (edgeVolV X2 res).basis 0 = X2.basis 0 := by
    show res.basis 0 = _
    rw [hb0]; simpa using hr.basis_eq 0
  have e1 : (edgeVolV X2 res).basis 1 = linearBasis := rfl
  have e2 : (edgeVolV X2 res).basis 2 = linearBasis := rfl
  have hperX : ∀ d : Fin 3, (X2.basis d).periodic = -1 := h1.nonper
  have hperE : ∀ d : Fin 3, ((edgeVolV X2 res).basis d).periodic = -1 := EV.nonper
  have hss := volume_shape h1.wf
  have n1pos : 1 ≤ (X2.basis 1).numFunctions := valid_numFunctions_pos (h1.wf.valid 1)
  have n2pos : 1 ≤ (X2.basis 2).numFunctions := valid_numFunctions_pos (h1.wf.valid 2)
  have key : ∀ b c : Bool, (toTP X2 3 comp).eval ![sd 0, sideOf b, sideOf c] ![u 0, endOf b, endOf c]
      = ∑ i ∈ range (X2.basis 0).numFunctions,
          X2.cps.get (((i * (X2.basis 1).numFunctions + endIdx (X2.basis 1).numFunctions b)
            * (X2.basis 2).numFunctions + endIdx (X2.basis 2).numFunctions c) * X2.ncomp + comp)
            * B (sd 0) (X2.basis 0).kn ((X2.basis 0).order - 1) i (u 0) := by
    intro b c
    have := volume_eval_at12 h1.wf hperX comp ![sd 0, sideOf b, sideOf c] ![u 0, endOf b, endOf c]
      (endIdx _ b) (endIdx _ c) (endIdx_lt n1pos b) (endIdx_lt n2pos c)
      (by intro i _; simp only [Matrix.cons_val_one]; rw [hb1]; exact unit_delta htol (k 1) b i)
      (by intro i _
          show B (sideOf c) (X2.basis 2).kn ((X2.basis 2).order - 1) i (endOf c) = _
          rw [hb2]; exact unit_delta htol (k 2) c i)
    simpa using this
  rw [toTP_eval_volume EV.wf hperE, e0, e1, e2, linearBasis_numFunctions, EV.ncomp]
  simp only [sum2]
  rw [key false false, key false true, key true false, key true true, h1.ncomp]
  simp only [Finset.sum_range_succ, Finset.sum_range_zero, zero_add]
  have g := fun i0 i1 i2 (h0 : i0 < (X2.basis 0).numFunctions) (h1' : i1 < 2) (h2 : i2 < 2) =>
    edgeNet_get X2.cps _ _ _ _ hss 0 (by norm_num) i0 i1 i2 comp (by simpa using h0) (by simpa using h1')
      (by simpa using h2) (by rw [h1.ncomp]; exact hc)
  simp only [Finset.mul_sum, ← Finset.sum_add_distrib]
  apply Finset.sum_congr rfl
  intro i hi
  have hi' := mem_range.mp hi
  have g00 := g i 0 0 hi' (by norm_num) (by norm_num)
  have g01 := g i 0 1 hi' (by norm_num) (by norm_num)
  have g10 := g i 1 0 hi' (by norm_num) (by norm_num)
  have g11 := g i 1 1 hi' (by norm_num) (by norm_num)
  simp only [show (1 : ℕ) = 0 ↔ False by norm_num, show (2 : ℕ) = 0 ↔ False by norm_num, if_false, if_true,
    one_ne_zero, h1.ncomp] at g00 g01 g10 g11
  show (Obj.edgeNet X2.cps 0).get _ * _ + (Obj.edgeNet X2.cps 0).get _ * _
      + ((Obj.edgeNet X2.cps 0).get _ * _ + (Obj.edgeNet X2.cps 0).get _ * _) = _
  rw [g00, g01, g10, g11]
  unfold bt beta endIdx
  simp only [Bool.false_eq_true, if_false, if_true, zero_mul, zero_add, add_zero]
  show _ * (_ * B (sd 1) (linearBasis : Basis K).kn 1 0 (u 1) * B (sd 2) (linearBasis : Basis K).kn 1 0 (u 2))
      + _ * (_ * B (sd 1) (linearBasis : Basis K).kn 1 0 (u 1) * B (sd 2) (linearBasis : Basis K).kn 1 1 (u 2))
      + (_ * (_ * B (sd 1) (linearBasis : Basis K).kn 1 1 (u 1) * B (sd 2) (linearBasis : Basis K).kn 1 0 (u 2))
      + _ * (_ * B (sd 1) (linearBasis : Basis K).kn 1 1 (u 1) * B (sd 2) (linearBasis : Basis K).kn 1 1 (u 2))) = _
  ring

/-- `vol_w_edges` as a map: bilinear in `(u, w)` between the four `v`-edges of `X3`. -/
theorem edgeVolW_eval {tol : K} (htol : 0 < tol) (p : Fin 3 → ℕ) (U : Fin 3 → List K) (M : Fin 3 → List ℕ)
    (k : ∀ d, UnitKnots tol (p d) (U d) (M d)) {rat : Bool} {nc : ℕ} (X3 res : Obj K)
    (h1 : StdVol X3 p U M (fun _ => true) rat nc) (hr : StdVol res p U M (fun _ => true) rat nc)
    (comp : ℕ) (hc : comp < nc) (sd : Fin 3 → Side) (u : Fin 3 → K) :
    (toTP (edgeVolW X3 res) 3 comp).eval sd u
      = sum2 (fun a => sum2 (fun c => bt (sd 0) a (u 0) * bt (sd 2) c (u 2)
          * (toTP X3 3 comp).eval ![sideOf a, sd 1, sideOf c] ![endOf a, u 1, endOf c])) := by
  have EW := edgeVolW_std p U M X3 res h1 hr
  have hb0 : X3.basis 0 = unitBasis (p 0) (U 0) (M 0) := by simpa using h1.basis_eq 0
  have hb1 : X3.basis 1 = unitBasis (p 1) (U 1) (M 1) := by simpa using h1.basis_eq 1
  have hb2 : X3.basis 2 = unitBasis (p 2) (U 2) (M 2) := by simpa using h1.basis_eq 2
  have e0 : (edgeVolW X3 res).basis 0 = linearBasis := rfl
  have e1 : (edgeVolW X3 res).basis 1 = X3.basis 1 := by
    show res.basis 1 = _
    rw [hb1]; simpa using hr.basis_eq 1
  have e2 : (edgeVolW X3 res).basis 2 = linearBasis := rfl
  have hperX : ∀ d : Fin 3, (X3.basis d).periodic = -1 := h1.nonper
  have hperE : ∀ d : Fin 3, ((edgeVolW X3 res).basis d).periodic = -1 := EW.nonper
  have hss := volume_shape h1.wf
  have n0pos : 1 ≤ (X3.basis 0).numFunctions := valid_numFunctions_pos (h1.wf.valid 0)
  have n2pos : 1 ≤ (X3.basis 2).numFunctions := valid_numFunctions_pos (h1.wf.valid 2)
  have key : ∀ a c : Bool, (toTP X3 3 comp).eval ![sideOf a, sd 1, sideOf c] ![endOf a, u 1, endOf c]
      = ∑ j ∈ range (X3.basis 1).numFunctions,
          X3.cps.get (((endIdx (X3.basis 0).numFunctions a * (X3.basis 1).numFunctions + j)
            * (X3.basis 2).numFunctions + endIdx (X3.basis 2).numFunctions c) * X3.ncomp + comp)
            * B (sd 1) (X3.basis 1).kn ((X3.basis 1).order - 1) j (u 1) := by
    intro a c
    have := volume_eval_at02 h1.wf hperX comp ![sideOf a, sd 1, sideOf c] ![endOf a, u 1, endOf c]
      (endIdx _ a) (endIdx _ c) (endIdx_lt n0pos a) (endIdx_lt n2pos c)
      (by intro i _; simp only [Matrix.cons_val_zero]; rw [hb0]; exact unit_delta htol (k 0) a i)
      (by intro i _
          show B (sideOf c) (X3.basis 2).kn ((X3.basis 2).order - 1) i (endOf c) = _
          rw [hb2]; exact unit_delta htol (k 2) c i)
    simpa using this
  rw [toTP_eval_volume EW.wf hperE, e0, e1, e2, linearBasis_numFunctions, EW.ncomp]
  simp only [sum2]
  rw [key false false, key false true, key true false, key true true, h1.ncomp]
  simp only [Finset.sum_range_succ, Finset.sum_range_zero, zero_add]
  have g := fun i0 i1 i2 (h0 : i0 < 2) (h1' : i1 < (X3.basis 1).numFunctions) (h2 : i2 < 2) =>
    edgeNet_get X3.cps _ _ _ _ hss 1 (by norm_num) i0 i1 i2 comp (by simpa using h0) (by simpa using h1')
      (by simpa using h2) (by rw [h1.ncomp]; exact hc)
  simp only [Finset.mul_sum, ← Finset.sum_add_distrib]
  apply Finset.sum_congr rfl
  intro j hj
  have hj' := mem_range.mp hj
  have g00 := g 0 j 0 (by norm_num) hj' (by norm_num)
  have g01 := g 0 j 1 (by norm_num) hj' (by norm_num)
  have g10 := g 1 j 0 (by norm_num) hj' (by norm_num)
  have g11 := g 1 j 1 (by norm_num) hj' (by norm_num)
  simp only [show (0 : ℕ) = 1 ↔ False by norm_num, show (2 : ℕ) = 1 ↔ False by norm_num, if_false, if_true,
    one_ne_zero, h1.ncomp] at g00 g01 g10 g11
  show (Obj.edgeNet X3.cps 1).get _ * _ + (Obj.edgeNet X3.cps 1).get _ * _
      + ((Obj.edgeNet X3.cps 1).get _ * _ + (Obj.edgeNet X3.cps 1).get _ * _) = _
  rw [g00, g01, g10, g11]
  unfold bt beta endIdx
  simp only [Bool.false_eq_true, if_false, if_true, zero_mul, zero_add, add_zero]
  show _ * (B (sd 0) (linearBasis : Basis K).kn 1 0 (u 0) * _ * B (sd 2) (linearBasis : Basis K).kn 1 0 (u 2))
      + _ * (B (sd 0) (linearBasis : Basis K).kn 1 0 (u 0) * _ * B (sd 2) (linearBasis : Basis K).kn 1 1 (u 2))
      + (_ * (B (sd 0) (linearBasis : Basis K).kn 1 1 (u 0) * _ * B (sd 2) (linearBasis : Basis K).kn 1 0 (u 2))
      + _ * (B (sd 0) (linearBasis : Basis K).kn 1 1 (u 0) * _ * B (sd 2) (linearBasis : Basis K).kn 1 1 (u 2))) = _
  ring

end C15
end Splipy
