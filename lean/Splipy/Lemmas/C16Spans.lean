import Splipy.Lemmas.C16VolumeExact
import Splipy.Lemmas.C04Refine

/-!
# C16: the elements of `knot_spans()` are single knot spans when distinct knots are `> tol` apart
-/

namespace Splipy

open C04

variable {K : Type} [Field K] [LinearOrder K] [IsStrictOrderedRing K] [FloorRing K]

/-- Distinct knot values are MORE than `tol` apart (so that `knot_spans()`, which keeps a knot when
`|k − last| > tol`, keeps every distinct knot). -/
def Basis.SepStrict (b : Basis K) (tol : K) : Prop :=
  ∀ i j, b.kn i = b.kn j ∨ tol < |b.kn i - b.kn j|

omit [IsStrictOrderedRing K] [FloorRing K] in
/-- `spanStep` only appends. -/
theorem spanStep_mem (tol : K) (acc : Array K) (k a : K) (ha : a ∈ acc.toList) :
    a ∈ (spanStep tol acc k).toList := by
  unfold spanStep
  split_ifs
  · simp [ha]
  · exact ha

omit [IsStrictOrderedRing K] [FloorRing K] in
theorem spanFold_mono (tol : K) (ks : List K) (acc : Array K) (a : K) (ha : a ∈ acc.toList) :
    a ∈ (ks.foldl (spanStep tol) acc).toList := by
  induction ks generalizing acc with
  | nil => exact ha
  | cons k ks ih => exact ih _ (spanStep_mem tol acc k a ha)

omit [IsStrictOrderedRing K] [FloorRing K] in
/-- Completeness: with strictly separated values every scanned value is kept. -/
theorem spanFold_complete (tol : K) (ks : List K) (acc : Array K) (hne : 0 < acc.size)
    (hsep : ∀ k ∈ ks, ∀ a ∈ acc.toList, k = a ∨ tol < |k - a|)
    (hsep' : ks.Pairwise (fun k k' => k' = k ∨ tol < |k' - k|)) :
    ∀ k ∈ ks, k ∈ (ks.foldl (spanStep tol) acc).toList := by
  induction ks generalizing acc with
  | nil => intro k hk; simp at hk
  | cons k0 ks ih =>
    intro k hk
    rw [List.foldl_cons]
    have hk0 : k0 ∈ (spanStep tol acc k0).toList := by
      unfold spanStep
      split_ifs with hc
      · simp
      · have hlast : acc.getD (acc.size - 1) 0 ∈ acc.toList := by
          have : acc.size - 1 < acc.size := by omega
          simp [Array.getD, this]
        rcases hsep k0 (by simp) _ hlast with h | h
        · rw [h]; exact hlast
        · exact absurd h hc
    have hne' : 0 < (spanStep tol acc k0).size := by
      unfold spanStep
      split_ifs
      · simp
      · exact hne
    rcases List.mem_cons.mp hk with rfl | hk'
    · exact spanFold_mono tol ks _ _ hk0
    · apply ih (spanStep tol acc k0) hne' _ (List.pairwise_cons.mp hsep').2 k hk'
      intro k1 hk1 a ha
      unfold spanStep at ha
      split_ifs at ha
      · simp only [Array.toList_push, List.mem_append, List.mem_singleton] at ha
        rcases ha with ha | rfl
        · exact hsep k1 (List.mem_cons_of_mem _ hk1) a ha
        · exact (List.pairwise_cons.mp hsep').1 k1 hk1
      · exact hsep k1 (List.mem_cons_of_mem _ hk1) a ha

omit [Field K] [IsStrictOrderedRing K] [FloorRing K] in
/-- In a strictly increasing list no member lies strictly between two consecutive members. -/
theorem no_member_between (L : List K) (hL : L.Pairwise (· < ·)) (e : K × K)
    (he : e ∈ List.zip L (L.drop 1)) (x : K) (hx : x ∈ L) : ¬ (e.1 < x ∧ x < e.2) := by
  induction L with
  | nil => simp at he
  | cons a L ih =>
    cases L with
    | nil => simp at he
    | cons b L =>
      rw [List.drop_one, List.tail_cons, List.zip_cons_cons] at he
      have hL' := List.pairwise_cons.mp hL
      rcases List.mem_cons.mp he with rfl | he'
      · rintro ⟨h1, h2⟩
        simp only at h1 h2
        rcases List.mem_cons.mp hx with rfl | hx'
        · exact lt_irrefl _ h1
        · rcases List.mem_cons.mp hx' with rfl | hx''
          · exact lt_irrefl _ h2
          · exact absurd ((List.pairwise_cons.mp hL'.2).1 x hx'') (not_lt.mpr h2.le)
      · rcases List.mem_cons.mp hx with rfl | hx'
        · rintro ⟨h1, -⟩
          have hmem : e.1 ∈ b :: L := (List.of_mem_zip (by simpa [List.drop_one] using he')).1
          exact absurd (hL'.1 e.1 hmem) (not_lt.mpr h1.le)
        · exact ih hL'.2 (by simpa [List.drop_one] using he') hx'

omit [Field K] [IsStrictOrderedRing K] [FloorRing K] in
theorem zip_drop_lt (L : List K) (hL : L.Pairwise (· < ·)) (e : K × K)
    (he : e ∈ List.zip L (L.drop 1)) : e.1 < e.2 := by
  induction L with
  | nil => simp at he
  | cons a L ih =>
    cases L with
    | nil => simp at he
    | cons b L =>
      rw [List.drop_one, List.tail_cons, List.zip_cons_cons] at he
      have hL' := List.pairwise_cons.mp hL
      rcases List.mem_cons.mp he with rfl | he'
      · exact hL'.1 b (by simp)
      · exact ih hL'.2 (by simpa [List.drop_one] using he')

/-- **Every element of `knot_spans()` is one knot span** for a valid basis whose distinct knots are
more than `tol` apart. -/
theorem Basis.spanCover_of_sepStrict (b : Basis K) (hv : b.Valid) (tol : K) (htol : 0 ≤ tol)
    (hsep : b.SepStrict tol) : b.SpanCover tol := by
  intro e he
  unfold elements at he
  obtain ⟨hpw, hrange⟩ := knotSpans_spec b hv tol htol
  have hlt := zip_drop_lt _ hpw e he
  have hmono := hv.kn_mono
  have hp := hv.order_pos
  have hsz := hv.size_ge
  have hmem1 : e.1 ∈ (b.knotSpans tol false).toList := (List.of_mem_zip he).1
  have hmem2 : e.2 ∈ (b.knotSpans tol false).toList := List.mem_of_mem_drop (List.of_mem_zip he).2
  -- every domain knot is a member of `knot_spans()`
  have hall : ∀ i, b.order - 1 ≤ i → i ≤ b.nAll → b.kn i ∈ (b.knotSpans tol false).toList := by
    intro i hi1 hi2
    by_cases h1 : b.order = 1
    · -- a single entry; then there are no elements at all
      exfalso
      have : (b.knotSpans tol false).toList = [b.kn (b.order - 1)] := by
        unfold Basis.knotSpans
        simp [h1]
      rw [this] at he
      simp at he
    · have hform : b.knotSpans tol false
          = ((b.knots.extract (b.order - 1) (b.knots.size - b.order + 1)).toList).foldl
              (spanStep tol) #[b.kn (b.order - 1)] := by
        unfold Basis.knotSpans
        simp only [if_neg h1]
        rfl
      rw [hform]
      rcases Nat.eq_or_lt_of_le hi1 with heq | hgt
      · rw [← heq]
        exact spanFold_mono tol _ _ _ (by simp)
      · apply spanFold_complete tol _ _ (by simp)
        · intro k hk a ha
          rw [extract_toList b _ _ (by omega), List.mem_map] at hk
          obtain ⟨j, -, rfl⟩ := hk
          have ha' : a = b.kn (b.order - 1) := by simpa using ha
          subst ha'
          exact hsep _ _
        · rw [extract_toList b _ _ (by omega), List.pairwise_map]
          exact List.pairwise_of_forall (fun _ _ => hsep _ _)
        · rw [extract_toList b _ _ (by omega), List.mem_map]
          refine ⟨i - (b.order - 1), ?_, by congr 1; omega⟩
          rw [List.mem_range]
          unfold Basis.nAll at hi2
          omega
  have hstop : b.kn b.nAll = b.stop := rfl
  obtain ⟨μ, hμ1, hμ2, hμm⟩ := exists_span .right b.kn hmono (b.order - 1) b.nAll e.1
    ⟨(hrange e.1 hmem1).1, lt_of_lt_of_le hlt (by rw [hstop]; exact (hrange e.2 hmem2).2)⟩
  refine ⟨hlt, μ, by omega, hμm.1, ?_⟩
  by_contra hc
  exact no_member_between _ hpw e he (b.kn (μ+1)) (hall (μ+1) (by omega) (by omega))
    ⟨hμm.2, lt_of_not_ge hc⟩

end Splipy
