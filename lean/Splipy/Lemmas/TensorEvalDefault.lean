import Splipy.Lemmas.TensorEvalObj1

/-!
# The default object (`controlpoints=None`) is the identity map: helpers for C02
-/

namespace Splipy
set_option linter.unusedSectionVars false
open Tensor
variable {K : Type} [Field K] [LinearOrder K] [IsStrictOrderedRing K] [FloorRing K]

/-- The model's `greville()` returns the Greville abscissae of the specification. -/
theorem Basis.greville_eq (b : Basis K) (hp : 2 ≤ b.order) :
    b.greville = .ok (Array.ofFn (n := b.numFunctions)
      (fun i => grevilleAbscissa b.kn (b.order - 1) i.val)) := by
  unfold Basis.greville
  simp only []
  rw [if_neg (by omega)]
  congr 1
  apply congrArg
  funext i
  rw [foldl_range_add_sum]
  unfold grevilleAbscissa grevilleSum
  rw [Nat.cast_sub (by omega), Nat.cast_one]

theorem mul_add_mod_lt {nc c : ℕ} (j : ℕ) (hc : c < nc) : (j * nc + c) % nc = c := by
  rw [Nat.add_comm, Nat.add_mul_mod_self_right, Nat.mod_eq_of_lt hc]

theorem mul_add_div_lt {nc c : ℕ} (j : ℕ) (hc : c < nc) : (j * nc + c) / nc = j := by
  rw [Nat.add_comm, Nat.add_mul_div_right _ _ (by omega), Nat.div_eq_of_lt hc, Nat.zero_add]

/-- The pure part of `Obj.default` (after the Greville points have been computed). -/
def Obj.defaultOf (bases : Array (Basis K)) (gs : List (Array K)) (rational : Bool) : Obj K :=
  let shape := gs.map Array.size
  let pd := bases.size
  let dim := if pd = 1 then 2 else pd
  let nc := dim + (if rational then 1 else 0)
  let total := Tensor.prod shape
  let data : Array K := Array.ofFn (n := total * nc) (fun idx =>
    let pI := idx.val / nc
    let c := idx.val % nc
    if c < pd then
      let stride := Tensor.prod (shape.drop (c + 1))
      let ic := (pI / stride) % shape.getD c 1
      (gs.getD c #[]).getD ic 0
    else if c < dim then 0 else 1)
  { bases := bases, cps := { shape := shape ++ [nc], data := data }, rational := rational }

theorem Obj.default_eq (bases : Array (Basis K)) (rational : Bool) (gs : List (Array K))
    (h : bases.toList.mapM (fun b => b.greville) = .ok gs) :
    Obj.default bases rational = .ok (Obj.defaultOf bases gs rational) := by
  unfold Obj.default
  rw [h]
  rfl

/-- Generic read-back of the default control net: point index `pI`, component `c`. -/
theorem Obj.defaultOf_get (bases : Array (Basis K)) (gs : List (Array K)) (rational : Bool)
    (nc : ℕ)
    (hnc : nc = (if bases.size = 1 then 2 else bases.size) + (if rational then 1 else 0))
    {pI c : ℕ} (hp : pI < prod (gs.map Array.size)) (hc : c < nc) :
    (Obj.defaultOf bases gs rational).cps.get (pI * nc + c)
      = if c < bases.size then
          (gs.getD c #[]).getD
            ((pI / prod ((gs.map Array.size).drop (c + 1))) % (gs.map Array.size).getD c 1) 0
        else if c < (if bases.size = 1 then 2 else bases.size) then 0 else 1 := by
  subst hnc
  unfold Obj.defaultOf Tensor.get
  simp only []
  rw [getD_ofFn _ (pair_lt hp hc)]
  simp only [mul_add_mod_lt pI hc, mul_add_div_lt pI hc]

theorem Obj.defaultOf_curve_get (b : Basis K) (g : Array K) (rational : Bool) {j c : ℕ}
    (hj : j < g.size) (hc : c < 2 + (if rational then 1 else 0)) :
    (Obj.defaultOf #[b] [g] rational).cps.get (j * (2 + (if rational then 1 else 0)) + c)
      = if c = 0 then g.getD j 0 else if c = 1 then 0 else 1 := by
  rw [Obj.defaultOf_get #[b] [g] rational _ (by simp) (by simpa [prod] using hj) hc]
  rcases Nat.lt_or_ge c 1 with h0 | h0
  · have : c = 0 := by omega
    subst this
    simp [prod, Nat.mod_eq_of_lt hj]
  · have e1 : (#[b] : Array (Basis K)).size = 1 := rfl
    rw [e1]
    simp only [if_true]
    rw [if_neg (show ¬ c < 1 by omega), if_neg (show ¬ c = 0 by omega)]
    by_cases h1 : c = 1
    · rw [if_pos (show c < 2 by omega), if_pos h1]
    · rw [if_neg (show ¬ c < 2 by omega), if_neg h1]


theorem Basis.specRow_sum {b : Basis K} (hv : b.Valid) {tol u : K} (htol : 0 < tol)
    (h : b.Admissible tol u) : ∑ j ∈ Finset.range b.numFunctions, b.specRow u j = 1 := by
  rw [← Basis.rowVal_sum hv htol h]
  apply Finset.sum_congr rfl
  intro j hj
  rw [Basis.rowVal_eq_specRow hv htol h (Finset.mem_range.mp hj)]

/-- Linear precision in terms of `specRow` (non-periodic basis of order ≥ 2). -/
theorem Basis.specRow_linear_precision {b : Basis K} (hv : b.Valid) (hper : b.periodic = -1)
    (hp : 2 ≤ b.order) {u : K} (h1 : b.start ≤ u) (h2 : u ≤ b.stop) :
    ∑ j ∈ Finset.range b.numFunctions,
      b.specRow u j * grevilleAbscissa b.kn (b.order - 1) j = u := by
  have hnot : ¬ (u = b.start ∧ true = false) := by simp
  obtain ⟨hr, hl⟩ := effSide_spec hv h1 h2 hnot
  obtain ⟨m1, m2, m3⟩ := muOf_spec hv (effSide b u true) u h1 h2 hr hl
  set mu := muOf b (effSide b u true) u with hmu
  have key := linear_precision_range (effSide b u true) b.kn hv.kn_mono (b.order - 1) (mu - 1)
    b.nAll (by omega) (by omega) (by omega) u
    (by
      rw [show mu - 1 + 1 = mu by omega]
      revert m3
      cases effSide b u true <;> exact fun h => h)
  rw [Basis.numFunctions_of_nonperiodic hper]
  refine Eq.trans (Finset.sum_congr rfl ?_) key
  intro j _
  rw [Basis.specRow_nonperiodic hper, mul_comm]

/-- The Greville array of the model. -/
def Basis.grevArr (b : Basis K) : Array K :=
  Array.ofFn (n := b.numFunctions) (fun i => grevilleAbscissa b.kn (b.order - 1) i.val)

theorem mapM_greville_one (b : Basis K) (hp : 2 ≤ b.order) :
    (#[b] : Array (Basis K)).toList.mapM (fun b => b.greville) = .ok [b.grevArr] := by
  simp [List.mapM_cons, Basis.greville_eq b hp, Basis.grevArr]

theorem Basis.grevArr_size (b : Basis K) : b.grevArr.size = b.numFunctions := by
  simp [Basis.grevArr]

theorem Basis.grevArr_getD (b : Basis K) {j : ℕ} (hj : j < b.numFunctions) :
    b.grevArr.getD j 0 = grevilleAbscissa b.kn (b.order - 1) j := by
  unfold Basis.grevArr
  rw [getD_ofFn _ hj]

theorem Obj.defaultCurve_false_get (b : Basis K) {j : ℕ} (hj : j < b.numFunctions) :
    (Obj.defaultOf #[b] [b.grevArr] false).cps.get (j * 2 + 0)
        = grevilleAbscissa b.kn (b.order - 1) j ∧
      (Obj.defaultOf #[b] [b.grevArr] false).cps.get (j * 2 + 1) = 0 := by
  have a0 := Obj.defaultOf_curve_get b b.grevArr false (j := j) (c := 0)
    (by rw [b.grevArr_size]; exact hj) (by decide)
  have a1 := Obj.defaultOf_curve_get b b.grevArr false (j := j) (c := 1)
    (by rw [b.grevArr_size]; exact hj) (by decide)
  rw [if_pos (rfl : (0 : ℕ) = 0), b.grevArr_getD hj] at a0
  rw [if_neg (show ¬ (1 : ℕ) = 0 by decide), if_pos (rfl : (1 : ℕ) = 1)] at a1
  exact ⟨a0, a1⟩

theorem Obj.defaultCurve_true_get (b : Basis K) {j : ℕ} (hj : j < b.numFunctions) :
    (Obj.defaultOf #[b] [b.grevArr] true).cps.get (j * 3 + 0)
        = grevilleAbscissa b.kn (b.order - 1) j ∧
      (Obj.defaultOf #[b] [b.grevArr] true).cps.get (j * 3 + 1) = 0 ∧
      (Obj.defaultOf #[b] [b.grevArr] true).cps.get (j * 3 + 2) = 1 := by
  have a0 := Obj.defaultOf_curve_get b b.grevArr true (j := j) (c := 0)
    (by rw [b.grevArr_size]; exact hj) (by decide)
  have a1 := Obj.defaultOf_curve_get b b.grevArr true (j := j) (c := 1)
    (by rw [b.grevArr_size]; exact hj) (by decide)
  have a2 := Obj.defaultOf_curve_get b b.grevArr true (j := j) (c := 2)
    (by rw [b.grevArr_size]; exact hj) (by decide)
  rw [if_pos (rfl : (0 : ℕ) = 0), b.grevArr_getD hj] at a0
  rw [if_neg (show ¬ (1 : ℕ) = 0 by decide), if_pos (rfl : (1 : ℕ) = 1)] at a1
  rw [if_neg (show ¬ (2 : ℕ) = 0 by decide), if_neg (show ¬ (2 : ℕ) = 1 by decide)] at a2
  exact ⟨a0, a1, a2⟩

theorem Obj.defaultCurve_shape (b : Basis K) (rational : Bool) :
    (Obj.defaultOf #[b] [b.grevArr] rational).cps.shape
      = [b.numFunctions, 2 + (if rational then 1 else 0)] := by
  simp [Obj.defaultOf, b.grevArr_size]

/-- Default non-rational curve (no control points given), non-periodic basis of order ≥ 2:
control points `(ξ_j, 0)`; it evaluates to `(u, 0)`. -/
theorem Obj.default_curve_identity (b : Basis K) (hv : b.Valid) (hper : b.periodic = -1)
    (hp : 2 ≤ b.order) {tol : K} (htol : 0 < tol) {us : List K}
    (hus : ∀ u ∈ us, b.ExactAt tol u ∧ b.start ≤ u ∧ u ≤ b.stop) (hne : us ≠ []) :
    ∃ o res, Obj.default #[b] false = .ok o ∧
      o.bases = #[b] ∧ o.rational = false ∧ o.cps.shape = [b.numFunctions, 2] ∧
      (∀ j, j < b.numFunctions →
        o.cps.get (j * 2 + 0) = grevilleAbscissa b.kn (b.order - 1) j ∧
        o.cps.get (j * 2 + 1) = 0) ∧
      o.evaluate tol [us] true = .ok res ∧ res.shape = [us.length, 2] ∧
      ∀ i, i < us.length → res.get (i * 2 + 0) = us.getD i 0 ∧ res.get (i * 2 + 1) = 0 := by
  have hadm : ∀ u ∈ us, b.Admissible tol u := fun u hu =>
    ⟨(hus u hu).1, fun _ => (hus u hu).2, fun h => by rw [hper] at h; exact absurd h (by decide)⟩
  have hshape : (Obj.defaultOf #[b] [b.grevArr] false).cps.shape = [b.numFunctions, 2] :=
    Obj.defaultCurve_shape b false
  have hbases : (Obj.defaultOf #[b] [b.grevArr] false).bases = #[b] := rfl
  have hrat : (Obj.defaultOf #[b] [b.grevArr] false).rational = false := rfl
  obtain ⟨res, h1, h2, -, h4⟩ := Obj.evaluate1_spec_nonrational hbases hv hshape hrat htol hadm
    (fun _ => hne)
  refine ⟨_, res, Obj.default_eq _ _ _ (mapM_greville_one b hp), hbases, hrat, hshape,
    fun j hj => Obj.defaultCurve_false_get b hj, h1, h2, ?_⟩
  intro i hi
  have hu := hus _ (getD_mem_of_lt us hi 0)
  constructor
  · rw [h4 i 0 hi (by decide)]
    refine Eq.trans (Finset.sum_congr rfl ?_)
      (Basis.specRow_linear_precision hv hper hp hu.2.1 hu.2.2)
    intro j hj
    rw [(Obj.defaultCurve_false_get b (Finset.mem_range.mp hj)).1]
  · rw [h4 i 1 hi (by decide)]
    apply Finset.sum_eq_zero
    intro j hj
    rw [(Obj.defaultCurve_false_get b (Finset.mem_range.mp hj)).2, mul_zero]

/-- Default rational curve: control points `(ξ_j, 0, 1)`; it evaluates to `(u, 0)`. -/
theorem Obj.default_curve_identity_rational (b : Basis K) (hv : b.Valid) (hper : b.periodic = -1)
    (hp : 2 ≤ b.order) {tol : K} (htol : 0 < tol) {us : List K}
    (hus : ∀ u ∈ us, b.ExactAt tol u ∧ b.start ≤ u ∧ u ≤ b.stop) (hne : us ≠ []) :
    ∃ o res, Obj.default #[b] true = .ok o ∧
      o.bases = #[b] ∧ o.rational = true ∧ o.cps.shape = [b.numFunctions, 3] ∧
      (∀ j, j < b.numFunctions →
        o.cps.get (j * 3 + 0) = grevilleAbscissa b.kn (b.order - 1) j ∧
        o.cps.get (j * 3 + 1) = 0 ∧ o.cps.get (j * 3 + 2) = 1) ∧
      o.evaluate tol [us] true = .ok res ∧ res.shape = [us.length, 2] ∧
      ∀ i, i < us.length → res.get (i * 2 + 0) = us.getD i 0 ∧ res.get (i * 2 + 1) = 0 := by
  have hadm : ∀ u ∈ us, b.Admissible tol u := fun u hu =>
    ⟨(hus u hu).1, fun _ => (hus u hu).2, fun h => by rw [hper] at h; exact absurd h (by decide)⟩
  have hshape : (Obj.defaultOf #[b] [b.grevArr] true).cps.shape = [b.numFunctions, 2 + 1] :=
    Obj.defaultCurve_shape b true
  have hbases : (Obj.defaultOf #[b] [b.grevArr] true).bases = #[b] := rfl
  have hrat : (Obj.defaultOf #[b] [b.grevArr] true).rational = true := rfl
  obtain ⟨res, h1, h2, -, h4⟩ := Obj.evaluate1_spec_rational hbases hv (dim := 2) hshape hrat
    (fun j hj => by
      have := (Obj.defaultCurve_true_get b hj).2.2
      rw [show j * (2 + 1) + 2 = j * 3 + 2 from rfl, this]
      exact zero_lt_one) htol hadm (fun _ => hne)
  refine ⟨_, res, Obj.default_eq _ _ _ (mapM_greville_one b hp), hbases, hrat, hshape,
    fun j hj => Obj.defaultCurve_true_get b hj, h1, h2, ?_⟩
  intro i hi
  have hu := hus _ (getD_mem_of_lt us hi 0)
  have hden : ∑ j ∈ Finset.range b.numFunctions, b.specRow (us.getD i 0) j
      * (Obj.defaultOf #[b] [b.grevArr] true).cps.get (j * (2 + 1) + 2) = 1 := by
    refine Eq.trans (Finset.sum_congr rfl ?_) (Basis.specRow_sum hv htol (hadm _ (getD_mem_of_lt us hi 0)))
    intro j hj
    rw [show j * (2 + 1) + 2 = j * 3 + 2 from rfl,
      (Obj.defaultCurve_true_get b (Finset.mem_range.mp hj)).2.2, mul_one]
  obtain ⟨-, h5⟩ := h4 i hi
  constructor
  · rw [h5 0 (by decide), hden, div_one]
    refine Eq.trans (Finset.sum_congr rfl ?_)
      (Basis.specRow_linear_precision hv hper hp hu.2.1 hu.2.2)
    intro j hj
    rw [show j * (2 + 1) + 0 = j * 3 + 0 from rfl,
      (Obj.defaultCurve_true_get b (Finset.mem_range.mp hj)).1]
  · rw [h5 1 (by decide), hden, div_one]
    apply Finset.sum_eq_zero
    intro j hj
    rw [show j * (2 + 1) + 1 = j * 3 + 1 from rfl,
      (Obj.defaultCurve_true_get b (Finset.mem_range.mp hj)).2.1, mul_zero]


theorem mapM_greville_two (b1 b2 : Basis K) (hp1 : 2 ≤ b1.order) (hp2 : 2 ≤ b2.order) :
    (#[b1, b2] : Array (Basis K)).toList.mapM (fun b => b.greville)
      = .ok [b1.grevArr, b2.grevArr] := by
  simp [List.mapM_cons, Basis.greville_eq b1 hp1, Basis.greville_eq b2 hp2, Basis.grevArr]
  rfl

theorem Obj.defaultSurface_shape (b1 b2 : Basis K) :
    (Obj.defaultOf #[b1, b2] [b1.grevArr, b2.grevArr] false).cps.shape
      = [b1.numFunctions, b2.numFunctions, 2] := by
  simp [Obj.defaultOf, Basis.grevArr_size]

theorem Obj.defaultSurface_get (b1 b2 : Basis K) {j1 j2 : ℕ} (h1 : j1 < b1.numFunctions)
    (h2 : j2 < b2.numFunctions) :
    (Obj.defaultOf #[b1, b2] [b1.grevArr, b2.grevArr] false).cps.get
        ((j1 * b2.numFunctions + j2) * 2 + 0) = grevilleAbscissa b1.kn (b1.order - 1) j1 ∧
    (Obj.defaultOf #[b1, b2] [b1.grevArr, b2.grevArr] false).cps.get
        ((j1 * b2.numFunctions + j2) * 2 + 1) = grevilleAbscissa b2.kn (b2.order - 1) j2 := by
  have hpr : prod ([b1.grevArr, b2.grevArr].map Array.size)
      = b1.numFunctions * b2.numFunctions := by
    simp [prod, Basis.grevArr_size]
  have a0 := Obj.defaultOf_get #[b1, b2] [b1.grevArr, b2.grevArr] false 2 (by simp)
    (pI := j1 * b2.numFunctions + j2) (c := 0) (by rw [hpr]; exact pair_lt h1 h2) (by decide)
  have a1 := Obj.defaultOf_get #[b1, b2] [b1.grevArr, b2.grevArr] false 2 (by simp)
    (pI := j1 * b2.numFunctions + j2) (c := 1) (by rw [hpr]; exact pair_lt h1 h2) (by decide)
  constructor
  · rw [a0]
    have e : (j1 * b2.numFunctions + j2) / b2.numFunctions % b1.numFunctions = j1 := by
      rw [mul_add_div_lt j1 h2, Nat.mod_eq_of_lt h1]
    simp [prod, Basis.grevArr_size, e, b1.grevArr_getD h1]
  · rw [a1]
    have e : (j1 * b2.numFunctions + j2) % b2.numFunctions = j2 := mul_add_mod_lt j1 h2
    simp [prod, Basis.grevArr_size, e, b2.grevArr_getD h2]

omit [LinearOrder K] [IsStrictOrderedRing K] [FloorRing K] in
theorem sum2_left (n1 n2 : ℕ) (w1 w2 x : ℕ → K) :
    ∑ j1 ∈ Finset.range n1, ∑ j2 ∈ Finset.range n2, w1 j1 * w2 j2 * x j1
      = (∑ j1 ∈ Finset.range n1, w1 j1 * x j1) * ∑ j2 ∈ Finset.range n2, w2 j2 := by
  rw [Finset.sum_mul_sum]
  apply Finset.sum_congr rfl; intro j1 _
  apply Finset.sum_congr rfl; intro j2 _
  ring

omit [LinearOrder K] [IsStrictOrderedRing K] [FloorRing K] in
theorem sum2_right (n1 n2 : ℕ) (w1 w2 x : ℕ → K) :
    ∑ j1 ∈ Finset.range n1, ∑ j2 ∈ Finset.range n2, w1 j1 * w2 j2 * x j2
      = (∑ j1 ∈ Finset.range n1, w1 j1) * ∑ j2 ∈ Finset.range n2, w2 j2 * x j2 := by
  rw [Finset.sum_mul_sum]
  apply Finset.sum_congr rfl; intro j1 _
  apply Finset.sum_congr rfl; intro j2 _
  ring

/-- Default non-rational surface, non-periodic bases of order ≥ 2: control points
`(ξ¹_{j1}, ξ²_{j2})`; it evaluates to `(u, v)`. -/
theorem Obj.default_surface_identity (b1 b2 : Basis K) (hv1 : b1.Valid) (hv2 : b2.Valid)
    (hper1 : b1.periodic = -1) (hper2 : b2.periodic = -1) (hp1 : 2 ≤ b1.order)
    (hp2 : 2 ≤ b2.order) {tol : K} (htol : 0 < tol) {us vs : List K}
    (hus : ∀ u ∈ us, b1.ExactAt tol u ∧ b1.start ≤ u ∧ u ≤ b1.stop)
    (hvs : ∀ v ∈ vs, b2.ExactAt tol v ∧ b2.start ≤ v ∧ v ≤ b2.stop)
    (hne1 : us ≠ []) (hne2 : vs ≠ []) :
    ∃ o res, Obj.default #[b1, b2] false = .ok o ∧
      o.bases = #[b1, b2] ∧ o.rational = false ∧
      o.cps.shape = [b1.numFunctions, b2.numFunctions, 2] ∧
      (∀ j1 j2, j1 < b1.numFunctions → j2 < b2.numFunctions →
        o.cps.get ((j1 * b2.numFunctions + j2) * 2 + 0)
          = grevilleAbscissa b1.kn (b1.order - 1) j1 ∧
        o.cps.get ((j1 * b2.numFunctions + j2) * 2 + 1)
          = grevilleAbscissa b2.kn (b2.order - 1) j2) ∧
      o.evaluate tol [us, vs] true = .ok res ∧ res.shape = [us.length, vs.length, 2] ∧
      ∀ i1 i2, i1 < us.length → i2 < vs.length →
        res.get ((i1 * vs.length + i2) * 2 + 0) = us.getD i1 0 ∧
        res.get ((i1 * vs.length + i2) * 2 + 1) = vs.getD i2 0 := by
  have hadm1 : ∀ u ∈ us, b1.Admissible tol u := fun u hu =>
    ⟨(hus u hu).1, fun _ => (hus u hu).2, fun h => by rw [hper1] at h; exact absurd h (by decide)⟩
  have hadm2 : ∀ v ∈ vs, b2.Admissible tol v := fun v hv =>
    ⟨(hvs v hv).1, fun _ => (hvs v hv).2, fun h => by rw [hper2] at h; exact absurd h (by decide)⟩
  have hshape := Obj.defaultSurface_shape b1 b2
  have hbases : (Obj.defaultOf #[b1, b2] [b1.grevArr, b2.grevArr] false).bases = #[b1, b2] := rfl
  have hrat : (Obj.defaultOf #[b1, b2] [b1.grevArr, b2.grevArr] false).rational = false := rfl
  obtain ⟨res, h1, h2, -, h4⟩ :=
    Obj.evaluate2_spec_nonrational hbases hv1 hv2 hshape hrat htol hadm1 hadm2
      (fun _ => hne1) (fun _ => hne2)
  refine ⟨_, res, Obj.default_eq _ _ _ (mapM_greville_two b1 b2 hp1 hp2), hbases, hrat, hshape,
    fun j1 j2 a b => Obj.defaultSurface_get b1 b2 a b, h1, h2, ?_⟩
  intro i1 i2 hi1 hi2
  have hu := hus _ (getD_mem_of_lt us hi1 0)
  have hv := hvs _ (getD_mem_of_lt vs hi2 0)
  constructor
  · rw [h4 i1 i2 0 hi1 hi2 (by decide)]
    have e : ∀ j1 ∈ Finset.range b1.numFunctions, ∀ j2 ∈ Finset.range b2.numFunctions,
        b1.specRow (us.getD i1 0) j1 * b2.specRow (vs.getD i2 0) j2
          * (Obj.defaultOf #[b1, b2] [b1.grevArr, b2.grevArr] false).cps.get
              ((j1 * b2.numFunctions + j2) * 2 + 0)
        = b1.specRow (us.getD i1 0) j1 * b2.specRow (vs.getD i2 0) j2
          * grevilleAbscissa b1.kn (b1.order - 1) j1 := by
      intro j1 hj1 j2 hj2
      rw [(Obj.defaultSurface_get b1 b2 (Finset.mem_range.mp hj1) (Finset.mem_range.mp hj2)).1]
    rw [Finset.sum_congr rfl (fun j1 hj1 => Finset.sum_congr rfl (fun j2 hj2 => e j1 hj1 j2 hj2)),
      sum2_left, Basis.specRow_linear_precision hv1 hper1 hp1 hu.2.1 hu.2.2,
      Basis.specRow_sum hv2 htol (hadm2 _ (getD_mem_of_lt vs hi2 0)), mul_one]
  · rw [h4 i1 i2 1 hi1 hi2 (by decide)]
    have e : ∀ j1 ∈ Finset.range b1.numFunctions, ∀ j2 ∈ Finset.range b2.numFunctions,
        b1.specRow (us.getD i1 0) j1 * b2.specRow (vs.getD i2 0) j2
          * (Obj.defaultOf #[b1, b2] [b1.grevArr, b2.grevArr] false).cps.get
              ((j1 * b2.numFunctions + j2) * 2 + 1)
        = b1.specRow (us.getD i1 0) j1 * b2.specRow (vs.getD i2 0) j2
          * grevilleAbscissa b2.kn (b2.order - 1) j2 := by
      intro j1 hj1 j2 hj2
      rw [(Obj.defaultSurface_get b1 b2 (Finset.mem_range.mp hj1) (Finset.mem_range.mp hj2)).2]
    rw [Finset.sum_congr rfl (fun j1 hj1 => Finset.sum_congr rfl (fun j2 hj2 => e j1 hj1 j2 hj2)),
      sum2_right, Basis.specRow_linear_precision hv2 hper2 hp2 hv.2.1 hv.2.2,
      Basis.specRow_sum hv1 htol (hadm1 _ (getD_mem_of_lt us hi1 0)), one_mul]


end Splipy
