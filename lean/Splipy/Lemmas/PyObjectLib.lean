import Splipy.Model.Object
import Splipy.Model.Reparam
import Splipy.Lemmas.C06Tensor

/-!
# Models of the Python / numpy primitives used by the translated `SplineObject` methods (work package t3)

`harness/translate/object_translate.py` compiles the bodies of the methods of
`splipy/splineobject.py::SplineObject` (and the two module-level helpers `evaluate`, `transpose_fix`,
plus `splipy/utils/__init__.py::check_direction`) statement by statement into Lean definitions
(`Splipy/Generated/PyObject.lean`, rewritten on every check) over the functions below.
`Splipy/Lemmas/PyObjectEq.lean` proves the generated definitions equal to the hand model
(`Model/Object.lean`, `Model/Reparam.lean`, …).

Interface assumptions of the translation (what "the same function" means):
* Python `int` is `Int`; `float` / `numpy.float64` are the field `K` (exact arithmetic; numpy
  division by zero is the total field operation `x / 0 = 0`, as everywhere in the hand model).
* A numpy n-d array is the model's `Tensor` (shape + flat C-order data), a 2-d array a `Mat`;
  Python lists / tuples are `List`s.  Views are values: `result[..., i] /= x` is read–modify–write.
* numpy *shape-mismatch* errors of `@`, `tensordot`, `einsum` are not modelled (the hand model never
  raises them either; they cannot occur on a well-formed object); index errors are.
* A `BSplineBasis` is the hand model's `Basis`; calls of its methods are the hand model's `Basis.*`
  functions (their equality with `basis.py` / `basis_eval.pyx` is the subject of work packages t1 / t2:
  `Lemmas/PyBasisEq.lean`, `Lemmas/PyxEq.lean`).  Methods that mutate the basis in place return the
  new basis, which the translation writes back into `self.bases`.
* A positional parameter `u, v, …` of `evaluate` is a `Param`: a number or a list of numbers;
  `is_singleton` / `ensure_listlike` / `ensure_flatlist` (which use `isinstance(·, Sized)` and
  `try … except`) are the primitives below, not translated.
* A `direction` argument is a `DirTok` (`int` or `str`); `check_direction` IS translated.
* `state.knot_tolerance` is the explicit parameter `tol`; exceptions are `Except PyErr`.
-/

namespace Splipy.PyO

open Splipy Splipy.C06

variable {K : Type} [Field K] [LinearOrder K]

/-! ## the instance -/

/-- The attributes of a `SplineObject` instance.  `rational` is a `bool` (or the int `1` that
    `force_rational` stores: same truth value, same arithmetic value). -/
structure PyObj (K : Type) where
  bases : Array (Basis K)
  controlpoints : Tensor K
  dimension : Int
  rational : Bool
  deriving Inhabited

/-- The instance a hand-model `Obj` stands for (`dimension = controlpoints.shape[-1] - rational` is the
    constructor's invariant; the hand model derives it). -/
def ofObj (o : Obj K) : PyObj K := ⟨o.bases, o.cps, (o.dimension : ℕ), o.rational⟩

/-- The hand-model `Obj` of an instance. -/
def PyObj.toObj (s : PyObj K) : Obj K := ⟨s.bases, s.controlpoints, s.rational⟩

/-- `int(flag)` / the arithmetic value of a bool. -/
def b2i (b : Bool) : Int := if b then 1 else 0

/-- A positional evaluation parameter: a number or a list of numbers. -/
inductive Param (K : Type) where
  | scalar (x : K)
  | list (xs : List K)
  deriving Inhabited

/-- `utils.is_singleton(x)` = `not isinstance(x, Sized)`. -/
def is_singleton : Param K → Bool
  | .scalar _ => true
  | .list _ => false

/-- `utils.ensure_listlike(x)` (`dups = 1`): a number is wrapped, a list is returned as it is. -/
def ensure_listlike : Param K → List K
  | .scalar x => [x]
  | .list xs => xs

/-- `utils.ensure_listlike(x, dups)` on a list: repeat the last entry up to length `dups`
    (`[]` stays `[]`: the `IndexError` of `x[-1]` is caught). -/
def ensure_listlike_dups {α : Type} (xs : List α) (dups : Int) : List α :=
  match xs.getLast? with
  | none => []
  | some l => xs ++ List.replicate (dups.toNat - xs.length) l

/-- `utils.ensure_flatlist(x)` on a tuple of numbers: `x[0]` is not `Sized`, so `x` itself
    (`IndexError` for the empty tuple). -/
def ensure_flatlist {α : Type} (xs : List α) : PyM (List α) :=
  match xs with
  | [] => .error .index
  | _ => .ok xs

/-- `c in s` for a one-character string `c`. -/
def strIn (c s : String) : Bool := (s.splitOn c).length > 1

/-- `kwargs.get(name, default)` for a keyword that is specialised to an optional value. -/
def kwGet {α : Type} (kw : Option α) (dflt : α) : α := kw.getD dflt

/-! ## sequences -/

/-- `len(xs)`. -/
def len {α : Type} (xs : List α) : Int := xs.length

/-- Python index normalisation: `some k` for a valid index, `none` = `IndexError`. -/
def normIdx (n : ℕ) (i : Int) : Option ℕ :=
  if 0 ≤ i then (if i < n then some i.toNat else none)
  else (if 0 ≤ i + n then some (i + n).toNat else none)

/-- `xs[i]`. -/
def getItem {α : Type} (xs : List α) (i : Int) : PyM α :=
  match normIdx xs.length i with
  | some k => (match xs[k]? with
               | some v => .ok v
               | none => .error .index)
  | none => .error .index

/-- `xs[i] = v`. -/
def setItem {α : Type} (xs : List α) (i : Int) (v : α) : PyM (List α) :=
  match normIdx xs.length i with
  | some k => .ok (xs.set k v)
  | none => .error .index

/-- `self.bases[i]`. -/
def getBasis (bs : Array (Basis K)) (i : Int) : PyM (Basis K) :=
  match normIdx bs.size i with
  | some k => .ok (bs.getD k default)
  | none => .error .index

/-- `self.bases[i] = b` (also the write-back of an in-place basis method). -/
def setBasis (bs : Array (Basis K)) (i : Int) (b : Basis K) : PyM (Array (Basis K)) :=
  match normIdx bs.size i with
  | some k => .ok (bs.set! k b)
  | none => .error .index

/-- Slice bounds as natural numbers (negative bounds count from the end; clamped). -/
def sliceLo (n : ℕ) : Option Int → ℕ
  | none => 0
  | some i => if i < 0 then (i + n).toNat else min i.toNat n

def sliceHi (n : ℕ) : Option Int → ℕ
  | none => n
  | some i => if i < 0 then (i + n).toNat else min i.toNat n

/-- `xs[lo:hi]`. -/
def slice {α : Type} (xs : List α) (lo hi : Option Int) : List α :=
  (xs.take (sliceHi xs.length hi)).drop (sliceLo xs.length lo)

/-- `xs[::-1]`. -/
def reversed {α : Type} (xs : List α) : List α := xs.reverse

/-- `xs + ys`. -/
def listAdd {α : Type} (xs ys : List α) : List α := xs ++ ys

/-- `xs * n`. -/
def listMul {α : Type} (xs : List α) (n : Int) : List α := (List.replicate n.toNat xs).flatten

/-- `list(range(lo, hi))`. -/
def rangeI (lo hi : Int) : List Int := (List.range (hi - lo).toNat).map (fun (k : ℕ) => lo + (k : Int))

/-- `xs.insert(i, v)` (Python clamps the position). -/
def listInsert {α : Type} (xs : List α) (i : Int) (v : α) : List α :=
  let n : Int := xs.length
  let k := if i < 0 then max (i + n) 0 else min i n
  xs.insertIdx k.toNat v

/-- `min(xs)` / `max(xs)` of a sequence of numbers: `ValueError` on an empty one. -/
def pyMin (xs : List K) : PyM K :=
  match xs with
  | [] => .error .value
  | x :: r => .ok (r.foldl min x)

def pyMax (xs : List K) : PyM K :=
  match xs with
  | [] => .error .value
  | x :: r => .ok (r.foldl max x)

/-- `all(xs)`, `any(xs)`. -/
def pyAll (xs : List Bool) : Bool := xs.all id
def pyAny (xs : List Bool) : Bool := xs.any id

/-- `sum(xs)` of ints. -/
def pySum (xs : List Int) : Int := xs.foldl (· + ·) 0

/-- `len({x for x in xs})`. -/
def setLen (xs : List Int) : Int := xs.eraseDups.length

/-- `a, b = xs`: `ValueError` unless there are exactly two entries. -/
def unpack2 {α : Type} (xs : List α) : PyM (α × α) :=
  match xs with
  | [a, b] => .ok (a, b)
  | _ => .error .value

/-- `zip(xs, ys)` (also three / four sequences, left-nested). -/
def zip2 {α β : Type} (xs : List α) (ys : List β) : List (α × β) := List.zip xs ys
def zip3 {α β γ : Type} (xs : List α) (ys : List β) (zs : List γ) : List (α × β × γ) :=
  List.zip xs (List.zip ys zs)
def zip4 {α β γ δ : Type} (xs : List α) (ys : List β) (zs : List γ) (ws : List δ) : List (α × β × γ × δ) :=
  List.zip xs (List.zip ys (List.zip zs ws))

/-! ## loops -/

/-- `for i in range(lo, hi): body` with the assigned variables threaded as the state `σ`. -/
def forRange {σ : Type} (lo hi : Int) (init : σ) (body : Int → σ → PyM σ) : PyM σ :=
  (rangeI lo hi).foldlM (fun s i => body i s) init

/-- `for x in xs: body`. -/
def forEach {α σ : Type} (xs : List α) (init : σ) (body : α → σ → PyM σ) : PyM σ :=
  xs.foldlM (fun s x => body x s) init

/-- `for x in xs: body`, the body also receiving the position (used when a loop target aliases
    `xs[i]` and is mutated in place: the translation writes the new value back at `i`). -/
def forEachIdx {α σ : Type} (xs : List α) (init : σ) (body : Int → α → σ → PyM σ) : PyM σ :=
  xs.zipIdx.foldlM (fun s xi => body (xi.2 : ℕ) xi.1 s) init

/-- `[f(x) for x in xs]` with a body that may raise. -/
def listComp {α β : Type} : List α → (α → PyM β) → PyM (List β)
  | [], _ => pure []
  | x :: xs, f => do
    let y ← f x
    let ys ← listComp xs f
    pure (y :: ys)

/-- `while cond: body` with fuel (every translated `while` counts an int up or down to a bound; the
    translation supplies the distance as fuel; running out of fuel is reported as `.other`). -/
def whileFuel {σ : Type} : ℕ → σ → (σ → Bool) → (σ → PyM σ) → PyM σ
  | 0, s, c, _ => if c s then .error .other else .ok s
  | n + 1, s, c, body => if c s then (do let s' ← body s; whileFuel n s' c body) else .ok s

/-! ## `BSplineBasis` methods = the hand model -/

/-- `b.snap(p)` on a list: every entry snapped (in place: the translation rebinds `p`). -/
def basisSnap (b : Basis K) (tol : K) (p : List K) : List K := p.map (snap b tol)

/-- `b.evaluate(p, d, from_right)` (dense): one row per point. -/
def basisEvaluate [FloorRing K] (b : Basis K) (tol : K) (p : List K) (d : Int) (fromRight : Bool) : Mat K :=
  Obj.basisMat b tol p d.toNat fromRight

/-! ## numpy: 2-d -/

/-- `np.identity(n)`. -/
def npIdentity (n : Int) : PyM (Mat K) := if n < 0 then .error .value else .ok (Mat.identity n.toNat)

/-- `A @ B` on 2-d arrays. -/
def npMatmul (A B : Mat K) : Mat K := Mat.mul A B

/-! ## numpy: n-d arrays by multi-index -/

/-- C-order multi-index of a flat position. -/
def unflat : List ℕ → ℕ → List ℕ
  | [], _ => []
  | _ :: shape, k => (k / Tensor.prod shape) :: unflat shape (k % Tensor.prod shape)

/-- The array of the given shape whose entry at multi-index `idx` is `f idx`. -/
def ofIdxFn (shape : List ℕ) (f : List ℕ → K) : Tensor K :=
  { shape := shape, data := Array.ofFn (n := Tensor.prod shape) (fun k => f (unflat shape k.val)) }

/-- `t.shape`. -/
def npShape (t : Tensor K) : List Int := t.shape.map (fun (n : ℕ) => (n : Int))

/-- Is `perm` (already natural numbers) a permutation of `0 … n-1`? -/
def isPerm (perm : List ℕ) (n : ℕ) : Bool := perm.length = n ∧ perm.Nodup ∧ perm.all (· < n)

/-- `t.transpose(perm)` / `np.transpose(t, perm)`: axis `j` of the result is axis `perm[j]` of `t`
    (`ValueError` unless `perm` is a permutation of the axes). -/
def npTranspose (t : Tensor K) (perm : List Int) : PyM (Tensor K) :=
  let nd := t.shape.length
  match perm.mapM (normIdx nd) with
  | none => .error .value
  | some p =>
    if isPerm p nd then
      .ok (ofIdxFn (p.map (fun a => t.shape.getD a 1))
            (fun idx => getIdx t ((List.range nd).map (fun a => idx.getD (p.idxOf a) 0))))
    else .error .value

/-- `np.tensordot(M, t, axes=(1, axis))` for a 2-d `M`: contract `axis` of `t` with the columns of
    `M`; the new axis (rows of `M`) comes FIRST, the remaining axes of `t` follow in order. -/
def npTensordot (M : Mat K) (t : Tensor K) (axis : Int) : PyM (Tensor K) :=
  match normIdx t.shape.length axis with
  | none => .error .index
  | some ax =>
    .ok (ofIdxFn (M.size :: t.shape.eraseIdx ax) (fun idx =>
      (List.range (t.shape.getD ax 1)).foldl
        (fun acc j => acc + (M.getD (idx.headD 0) #[]).getD j 0 * getIdx t (idx.tail.insertIdx ax j)) 0))

/-- `np.einsum('ij,j...->i...', N, t)`: contraction of the first axis (the new axis stays first). -/
def einsumFirst (N : Mat K) (t : Tensor K) : Tensor K :=
  ofIdxFn (N.size :: t.shape.tail) (fun idx =>
    (List.range (t.shape.headD 1)).foldl
      (fun acc j => acc + (N.getD (idx.headD 0) #[]).getD j 0 * getIdx t (j :: idx.tail)) 0)

/-- `np.einsum('ij,ij...->i...', N, t)`: for every `i`, contract axis 1 of `t[i]` with row `i` of `N`. -/
def einsumBatch (N : Mat K) (t : Tensor K) : Tensor K :=
  ofIdxFn (t.shape.headD 1 :: t.shape.drop 2) (fun idx =>
    (List.range (t.shape.getD 1 1)).foldl
      (fun acc j => acc + (N.getD (idx.headD 0) #[]).getD j 0 * getIdx t (idx.headD 0 :: j :: idx.tail)) 0)

/-- One entry of an index tuple `t[tuple(slices)]`: `slice(None, None, None)` or `slice(None, None, -1)`. -/
inductive SliceTok where
  | all
  | rev
  deriving DecidableEq, Repr, Inhabited

/-- `t[tuple(slices)]` for whole-axis slices, some of them reversed (`IndexError`: too many). -/
def npIndexSlices (t : Tensor K) (sl : List SliceTok) : PyM (Tensor K) :=
  if t.shape.length < sl.length then .error .index
  else .ok (sl.zipIdx.foldl (fun acc (s, ax) => if s = .rev then acc.flipAxis ax else acc) t)

/-- `np.roll(t, k, axis)`. -/
def npRoll (t : Tensor K) (k : Int) (axis : Int) : PyM (Tensor K) :=
  match normIdx t.shape.length axis with
  | none => .error .index
  | some ax => .ok (if 0 ≤ k then t.rollAxisPos ax k.toNat else t.rollAxisNeg ax (-k).toNat)

/-! ## numpy: the component (last) axis -/

/-- number of components / number of points of an array whose last axis holds the components -/
def lastN (t : Tensor K) : ℕ := t.shape.getLastD 1
def nPts (t : Tensor K) : ℕ := Tensor.prod t.shape.dropLast

/-- `t[..., i]` (a copy; shape without the last axis). -/
def getLast (t : Tensor K) (i : Int) : PyM (Tensor K) :=
  match normIdx (lastN t) i with
  | none => .error .index
  | some c => .ok { shape := t.shape.dropLast,
                    data := Array.ofFn (n := nPts t) (fun p => t.get (p.val * lastN t + c)) }

/-- `t[..., i] = v` for an array `v` of the shape of `t[..., i]`. -/
def setLast (t : Tensor K) (i : Int) (v : Tensor K) : PyM (Tensor K) :=
  match normIdx (lastN t) i with
  | none => .error .index
  | some c => .ok { shape := t.shape,
                    data := Array.ofFn (n := nPts t * lastN t) (fun k =>
                      if k.val % lastN t = c then v.get (k.val / lastN t) else t.get k.val) }

/-- `t[..., i] = x` for a number `x` (broadcast). -/
def setLastScalar (t : Tensor K) (i : Int) (x : K) : PyM (Tensor K) :=
  match normIdx (lastN t) i with
  | none => .error .index
  | some c => .ok { shape := t.shape,
                    data := Array.ofFn (n := nPts t * lastN t) (fun k =>
                      if k.val % lastN t = c then x else t.get k.val) }

/-- Element-wise `a / b`, `a * b`, `a - b` on arrays of the same shape. -/
def tDiv (a b : Tensor K) : Tensor K :=
  { shape := a.shape, data := Array.ofFn (n := a.data.size) (fun k => a.get k.val / b.get k.val) }
def tMul (a b : Tensor K) : Tensor K :=
  { shape := a.shape, data := Array.ofFn (n := a.data.size) (fun k => a.get k.val * b.get k.val) }
def tSub (a b : Tensor K) : Tensor K :=
  { shape := a.shape, data := Array.ofFn (n := a.data.size) (fun k => a.get k.val - b.get k.val) }

/-- `np.delete(t, i, -1)`: remove component `i` of every point. -/
def npDeleteLast (t : Tensor K) (i : Int) : PyM (Tensor K) :=
  match normIdx (lastN t) i with
  | none => .error .index
  | some c => .ok { shape := t.shape.dropLast ++ [lastN t - 1],
                    data := Array.ofFn (n := nPts t * (lastN t - 1)) (fun k =>
                      let p := k.val / (lastN t - 1)
                      let j := k.val % (lastN t - 1)
                      t.get (p * lastN t + (if j < c then j else j + 1))) }

/-- `np.insert(t, i, np.zeros/ones(shape[:-1]), pardim)` with `pardim` the last axis: a new
    component with the constant value `x` is inserted before component `i`
    (`IndexError` when `i` is out of bounds, `i = ncomp` appends). -/
def npInsertLast (t : Tensor K) (i : Int) (x : K) : PyM (Tensor K) :=
  let nc : Int := lastN t
  if i < -nc ∨ nc < i then .error .index else
  let c := (if i < 0 then i + nc else i).toNat
  .ok { shape := t.shape.dropLast ++ [lastN t + 1],
        data := Array.ofFn (n := nPts t * (lastN t + 1)) (fun k =>
          let p := k.val / (lastN t + 1)
          let j := k.val % (lastN t + 1)
          if j < c then t.get (p * lastN t + j) else if j = c then x else t.get (p * lastN t + (j - 1))) }

/-- `np.insert(t, i, np.zeros(vshape) | np.ones(vshape), axis)` as the code uses it: `axis` is the
    component (last) axis and `vshape = t.shape[:-1]`; any other use is outside the model (`.other`). -/
def npInsertComp (t : Tensor K) (i : Int) (x : K) (vshape : List Int) (axis : Int) : PyM (Tensor K) :=
  if axis + 1 = t.shape.length ∧ vshape = (t.shape.dropLast.map (fun (n : ℕ) => (n : Int))) then npInsertLast t i x
  else .error .other

/-- `np.min(t)`, `np.max(t)` (`ValueError` on an empty array). -/
def npMin (t : Tensor K) : PyM K := pyMin t.data.toList
def npMax (t : Tensor K) : PyM K := pyMax t.data.toList

/-- `t.reshape(shape)` / `np.reshape(t, shape)` (C order): `ValueError` when the sizes differ or a
    dimension is negative. -/
def npReshape (t : Tensor K) (shape : List Int) : PyM (Tensor K) :=
  if shape.any (· < 0) then .error .value else
  let sh := shape.map Int.toNat
  if Tensor.prod sh = t.data.size then .ok { shape := sh, data := t.data } else .error .value

/-- A 2-d array (`Mat`) seen as a `Tensor` and back (`np.reshape(cps, (n, m))` gives a 2-d array the
    translation types as a matrix). -/
def matOfTensor (t : Tensor K) (n m : ℕ) : Mat K :=
  Array.ofFn (n := n) (fun i => Array.ofFn (n := m) (fun j => t.get (i.val * m + j.val)))

def tensorOfMat (M : Mat K) (shape : List ℕ) : Tensor K :=
  { shape := shape, data := M.foldl (· ++ ·) #[] }

/-- `np.reshape(t, (n, m))` as a matrix. -/
def npReshape2 (t : Tensor K) (n m : Int) : PyM (Mat K) :=
  if n < 0 ∨ m < 0 then .error .value else
  if n.toNat * m.toNat = t.data.size then .ok (matOfTensor t n.toNat m.toNat) else .error .value

/-- `np.reshape(np.array(M), shape)` for a matrix `M` with rows of equal length. -/
def npReshapeMat (M : Mat K) (shape : List Int) : PyM (Tensor K) :=
  npReshape (tensorOfMat M []) shape

/-- `np.ones((n, m))`. -/
def npOnes2 (n m : Int) : PyM (Mat K) :=
  if n < 0 ∨ m < 0 then .error .value else .ok (Array.replicate n.toNat (Array.replicate m.toNat 1))

/-- `M[i, j] = v`. -/
def setItem2 (M : Mat K) (r c : Int) (v : K) : PyM (Mat K) :=
  match normIdx M.size r with
  | none => .error .index
  | some r' =>
    match normIdx (M.getD r' #[]).size c with
    | none => .error .index
    | some c' => .ok (M.modify r' (fun row => row.set! c' v))

/-- `M.T`. -/
def matT (M : Mat K) : Mat K := Mat.transpose M

/-- `cp[:, :-1]` and `cp[:, :-1] = A` on 2-d arrays. -/
def matDropLastCol (M : Mat K) : Mat K := M.map (fun row => row.extract 0 (row.size - 1))

def matSetButLastCol (M A : Mat K) : PyM (Mat K) :=
  if M.size = A.size ∧ (List.range M.size).all (fun i => (A.getD i #[]).size + 1 = (M.getD i #[]).size) then
    .ok (Array.ofFn (n := M.size) (fun i => (A.getD i.val #[]).push ((M.getD i.val #[]).getD ((M.getD i.val #[]).size - 1) 0)))
  else .error .value

end Splipy.PyO
