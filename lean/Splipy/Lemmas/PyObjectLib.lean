import Splipy.Model.Object
import Splipy.Model.Reparam
import Splipy.Model.Order
import Splipy.Lemmas.C06Tensor

/-!
# Models of the Python / numpy primitives used by the translated `SplineObject` methods (work package t3)

`harness/translate/object_translate.py` compiles the bodies of the methods of
`splipy/splineobject.py::SplineObject` (and the two module-level helpers `evaluate`, `transpose_fix`,
plus `splipy/utils/__init__.py::check_direction`) statement by statement into Lean definitions
(`Splipy/Generated/PyObject.lean`, rewritten on every check) over the functions below.
`Splipy/Lemmas/PyObjectEq.lean` proves the generated definitions equal to the hand model
(`Model/Object.lean`, `Model/Reparam.lean`, …).

Interface assumptions of the translation (what "the same function" means):
* Python `int` is `Int`; `float` / `numpy.float64` are the field `K` (exact arithmetic; numpy
  division by zero is the total field operation `x / 0 = 0`, as everywhere in the hand model).
* A numpy n-d array is the model's `Tensor` (shape + flat C-order data), a 2-d array a `Mat`;
  Python lists / tuples are `List`s.  Views are values: `result[..., i] /= x` is read–modify–write.
* numpy *shape-mismatch* errors of `@`, `tensordot`, `einsum` are not modelled (the hand model never
  raises them either; they cannot occur on a well-formed object); index errors are.
* A `BSplineBasis` is the hand model's `Basis`; calls of its methods are the hand model's `Basis.*`
  functions (their equality with `basis.py` / `basis_eval.pyx` is the subject of work packages t1 / t2:
  `Lemmas/PyBasisEq.lean`, `Lemmas/PyxEq.lean`).  Methods that mutate the basis in place return the
  new basis, which the translation writes back into `self.bases`.
* A positional parameter `u, v, …` of `evaluate` is a `Param`: a number or a list of numbers;
  `is_singleton` / `ensure_listlike` / `ensure_flatlist` (which use `isinstance(·, Sized)` and
  `try … except`) are the primitives below, not translated.
* A `direction` argument is a `DirTok` (`int` or `str`); `check_direction` IS translated.
* `state.knot_tolerance` is the explicit parameter `tol`; exceptions are `Except PyErr`.
-/

namespace Splipy.PyO

open Splipy Splipy.C06

variable {K : Type} [Field K] [LinearOrder K]

/-! ## the instance -/

/-- The attributes of a `SplineObject` instance.  `rational` is a `bool` (or the int `1` that
    `force_rational` stores: same truth value, same arithmetic value). -/
structure PyObj (K : Type) where
  bases : Array (Basis K)
  controlpoints : Tensor K
  dimension : Int
  rational : Bool
  deriving Inhabited

/-- The instance a hand-model `Obj` stands for (`dimension = controlpoints.shape[-1] - rational` is the
    constructor's invariant; the hand model derives it). -/
def ofObj (o : Obj K) : PyObj K := ⟨o.bases, o.cps, (o.dimension : ℕ), o.rational⟩

/-- The hand-model `Obj` of an instance. -/
def PyObj.toObj (s : PyObj K) : Obj K := ⟨s.bases, s.controlpoints, s.rational⟩

/-- `int(flag)` / the arithmetic value of a bool. -/
def b2i (b : Bool) : Int := if b then 1 else 0

/-- A positional evaluation parameter: a number or a list of numbers. -/
inductive Param (K : Type) where
  | scalar (x : K)
  | list (xs : List K)
  deriving Inhabited

/-- `utils.is_singleton(x)` = `not isinstance(x, Sized)`. -/
def is_singleton : Param K → Bool
  | .scalar _ => true
  | .list _ => false

/-- `utils.ensure_listlike(x)` (`dups = 1`): a number is wrapped, a list is returned as it is. -/
def ensure_listlike : Param K → List K
  | .scalar x => [x]
  | .list xs => xs

/-- `utils.ensure_listlike(x, dups)` on a list: repeat the last entry up to length `dups`
    (`[]` stays `[]`: the `IndexError` of `x[-1]` is caught). -/
def ensure_listlike_dups {α : Type} (xs : List α) (dups : Int) : List α :=
  match xs.getLast? with
  | none => []
  | some l => xs ++ List.replicate (dups.toNat - xs.length) l

/-- `utils.ensure_flatlist(x)` on a tuple of numbers: `x[0]` is not `Sized`, so `x` itself
    (`IndexError` for the empty tuple). -/
def ensure_flatlist {α : Type} (xs : List α) : PyM (List α) :=
  match xs with
  | [] => .error .index
  | _ => .ok xs

/-- `c in s` for a one-character string `c`. -/
def strIn (c s : String) : Bool := (s.splitOn c).length > 1

/-- `kwargs.get(name, default)` for a keyword that is specialised to an optional value. -/
def kwGet {α : Type} (kw : Option α) (dflt : α) : α := kw.getD dflt

/-! ## sequences -/

/-- `len(xs)`. -/
def len {α : Type} (xs : List α) : Int := xs.length

/-- Python index normalisation: `some k` for a valid index, `none` = `IndexError`. -/
def normIdx (n : ℕ) (i : Int) : Option ℕ :=
  if 0 ≤ i then (if i < n then some i.toNat else none)
  else (if 0 ≤ i + n then some (i + n).toNat else none)

/-- `xs[i]`. -/
def getItem {α : Type} (xs : List α) (i : Int) : PyM α :=
  match normIdx xs.length i with
  | some k => (match xs[k]? with
               | some v => .ok v
               | none => .error .index)
  | none => .error .index

/-- `xs[i] = v`. -/
def setItem {α : Type} (xs : List α) (i : Int) (v : α) : PyM (List α) :=
  match normIdx xs.length i with
  | some k => .ok (xs.set k v)
  | none => .error .index

/-- `self.bases[i]`. -/
def getBasis (bs : Array (Basis K)) (i : Int) : PyM (Basis K) :=
  match normIdx bs.size i with
  | some k => .ok (bs.getD k default)
  | none => .error .index

/-- `self.bases[i] = b` (also the write-back of an in-place basis method). -/
def setBasis (bs : Array (Basis K)) (i : Int) (b : Basis K) : PyM (Array (Basis K)) :=
  match normIdx bs.size i with
  | some k => .ok (bs.set! k b)
  | none => .error .index

/-- Slice bounds as natural numbers (negative bounds count from the end; clamped). -/
def sliceLo (n : ℕ) : Option Int → ℕ
  | none => 0
  | some i => if i < 0 then (i + n).toNat else min i.toNat n

def sliceHi (n : ℕ) : Option Int → ℕ
  | none => n
  | some i => if i < 0 then (i + n).toNat else min i.toNat n

/-- `xs[lo:hi]`. -/
def slice {α : Type} (xs : List α) (lo hi : Option Int) : List α :=
  (xs.take (sliceHi xs.length hi)).drop (sliceLo xs.length lo)

/-- `xs[::-1]`. -/
def reversed {α : Type} (xs : List α) : List α := xs.reverse

/-- `xs + ys`. -/
def listAdd {α : Type} (xs ys : List α) : List α := xs ++ ys

/-- `xs * n`. -/
def listMul {α : Type} (xs : List α) (n : Int) : List α := (List.replicate n.toNat xs).flatten

/-- `list(range(lo, hi))`. -/
def rangeI (lo hi : Int) : List Int := (List.range (hi - lo).toNat).map (fun (k : ℕ) => lo + (k : Int))

/-- `xs.insert(i, v)` (Python clamps the position). -/
def listInsert {α : Type} (xs : List α) (i : Int) (v : α) : List α :=
  let n : Int := xs.length
  let k := if i < 0 then max (i + n) 0 else min i n
  xs.insertIdx k.toNat v

/-- `min(xs)` / `max(xs)` of a sequence of numbers: `ValueError` on an empty one. -/
def pyMin (xs : List K) : PyM K :=
  match xs with
  | [] => .error .value
  | x :: r => .ok (r.foldl min x)

def pyMax (xs : List K) : PyM K :=
  match xs with
  | [] => .error .value
  | x :: r => .ok (r.foldl max x)

/-- `all(xs)`, `any(xs)`. -/
def pyAll (xs : List Bool) : Bool := xs.all id
def pyAny (xs : List Bool) : Bool := xs.any id

/-- `sum(xs)` of ints. -/
def pySum (xs : List Int) : Int := xs.foldl (· + ·) 0

/-- `len({x for x in xs})`. -/
def setLen (xs : List Int) : Int := xs.eraseDups.length

/-- `a, b = xs`: `ValueError` unless there are exactly two entries. -/
def unpack2 {α : Type} (xs : List α) : PyM (α × α) :=
  match xs with
  | [a, b] => .ok (a, b)
  | _ => .error .value

/-- `zip(xs, ys)` (also three / four sequences, left-nested). -/
def zip2 {α β : Type} (xs : List α) (ys : List β) : List (α × β) := List.zip xs ys
def zip3 {α β γ : Type} (xs : List α) (ys : List β) (zs : List γ) : List (α × β × γ) :=
  List.zip xs (List.zip ys zs)
def zip4 {α β γ δ : Type} (xs : List α) (ys : List β) (zs : List γ) (ws : List δ) : List (α × β × γ × δ) :=
  List.zip xs (List.zip ys (List.zip zs ws))

/-! ## loops -/

/-- `for i in range(lo, hi): body` with the assigned variables threaded as the state `σ`. -/
def forRange {σ : Type} (lo hi : Int) (init : σ) (body : Int → σ → PyM σ) : PyM σ :=
  (rangeI lo hi).foldlM (fun s i => body i s) init

/-- `for x in xs: body`. -/
def forEach {α σ : Type} (xs : List α) (init : σ) (body : α → σ → PyM σ) : PyM σ :=
  xs.foldlM (fun s x => body x s) init

/-- `for x in xs: body`, the body also receiving the position (used when a loop target aliases
    `xs[i]` and is mutated in place: the translation writes the new value back at `i`). -/
def forEachIdx {α σ : Type} (xs : List α) (init : σ) (body : Int → α → σ → PyM σ) : PyM σ :=
  xs.zipIdx.foldlM (fun s xi => body (xi.2 : ℕ) xi.1 s) init

/-- `[f(x) for x in xs]` with a body that may raise. -/
def listComp {α β : Type} : List α → (α → PyM β) → PyM (List β)
  | [], _ => pure []
  | x :: xs, f => do
    let y ← f x
    let ys ← listComp xs f
    pure (y :: ys)

/-- `while cond: body` with fuel (every translated `while` counts an int up or down to a bound; the
    translation supplies the distance as fuel; running out of fuel is reported as `.other`). -/
def whileFuel {σ : Type} : ℕ → σ → (σ → Bool) → (σ → PyM σ) → PyM σ
  | 0, s, c, _ => if c s then .error .other else .ok s
  | n + 1, s, c, body => if c s then (do let s' ← body s; whileFuel n s' c body) else .ok s

/-- `while cond: body` whose condition may raise (it reads attributes of objects held in the state). -/
def whileFuelM {σ : Type} : ℕ → σ → (σ → PyM Bool) → (σ → PyM σ) → PyM σ
  | 0, s, c, _ => do
    let b ← c s
    if b then .error .other else .ok s
  | n + 1, s, c, body => do
    let b ← c s
    if b then (do let s' ← body s; whileFuelM n s' c body) else .ok s

/-! ## `BSplineBasis` methods = the hand model -/

/-- `b.roll(new_start)` (in place: the translation writes the result back); the code only rolls by
    non-negative amounts, a negative one is outside the model.  A start beyond `n - p - k - 1` makes
    `len_left` negative and the slice assignment `self.knots[:len_left] = self.knots[left]` fail to
    broadcast (`ValueError`; this is the range guard of `PyBasis_roll_eq`, t1). -/
def basisRoll (b : Basis K) (i : Int) : PyM (Basis K) :=
  if i < 0 then .error .other
  else if b.periodic < 0 then .error .runtime
  else if (b.order : Int) + b.periodic + 1 + i > (b.knots.size : Int) then .error .value
  else Basis.roll b i.toNat

/-- `b.continuity(knot)`: `none` = `np.inf`. -/
def basisContinuity [FloorRing K] (b : Basis K) (tol knot : K) : PyM (Option Int) := Basis.continuity b tol knot

/-- `b.make_periodic(continuity)` (returns a new basis); the callers pass `continuity ≥ 0`. -/
def basisMakePeriodic (b : Basis K) (tol : K) (c : Int) : PyM (Basis K) :=
  if c < 0 then .error .other else Basis.makePeriodic b tol c.toNat

/-- `b.snap(p)` on a list: every entry snapped (in place: the translation rebinds `p`). -/
def basisSnap (b : Basis K) (tol : K) (p : List K) : List K := p.map (snap b tol)

/-- `b.evaluate(p, d, from_right)` (dense): one row per point. -/
def basisEvaluate [FloorRing K] (b : Basis K) (tol : K) (p : List K) (d : Int) (fromRight : Bool) : Mat K :=
  Obj.basisMat b tol p d.toNat fromRight

/-! ## numpy: 2-d -/

/-- `np.identity(n)`. -/
def npIdentity (n : Int) : PyM (Mat K) := if n < 0 then .error .value else .ok (Mat.identity n.toNat)

/-- `A @ B` on 2-d arrays. -/
def npMatmul (A B : Mat K) : Mat K := Mat.mul A B

/-! ## numpy: n-d arrays by multi-index -/

/-- C-order multi-index of a flat position. -/
def unflat : List ℕ → ℕ → List ℕ
  | [], _ => []
  | _ :: shape, k => (k / Tensor.prod shape) :: unflat shape (k % Tensor.prod shape)

/-- The array of the given shape whose entry at multi-index `idx` is `f idx`. -/
def ofIdxFn (shape : List ℕ) (f : List ℕ → K) : Tensor K :=
  { shape := shape, data := Array.ofFn (n := Tensor.prod shape) (fun k => f (unflat shape k.val)) }

/-- `t.shape`. -/
def npShape (t : Tensor K) : List Int := t.shape.map (fun (n : ℕ) => (n : Int))

/-- Is `perm` (already natural numbers) a permutation of `0 … n-1`? -/
def isPerm (perm : List ℕ) (n : ℕ) : Bool := perm.length = n ∧ perm.Nodup ∧ perm.all (· < n)

/-- `t.transpose(perm)` / `np.transpose(t, perm)`: axis `j` of the result is axis `perm[j]` of `t`
    (`ValueError` unless `perm` is a permutation of the axes). -/
def npTranspose (t : Tensor K) (perm : List Int) : PyM (Tensor K) :=
  let nd := t.shape.length
  match perm.mapM (normIdx nd) with
  | none => .error .value
  | some p =>
    if isPerm p nd then
      .ok (ofIdxFn (p.map (fun a => t.shape.getD a 1))
            (fun idx => getIdx t ((List.range nd).map (fun a => idx.getD (p.idxOf a) 0))))
    else .error .value

/-- `np.tensordot(M, t, axes=(1, axis))` for a 2-d `M`: contract `axis` of `t` with the columns of
    `M`; the new axis (rows of `M`) comes FIRST, the remaining axes of `t` follow in order. -/
def npTensordot (M : Mat K) (t : Tensor K) (axis : Int) : PyM (Tensor K) :=
  match normIdx t.shape.length axis with
  | none => .error .index
  | some ax =>
    .ok (ofIdxFn (M.size :: t.shape.eraseIdx ax) (fun idx =>
      (List.range (t.shape.getD ax 1)).foldl
        (fun acc j => acc + (M.getD (idx.headD 0) #[]).getD j 0 * getIdx t (idx.tail.insertIdx ax j)) 0))

/-- `np.einsum('ij,j...->i...', N, t)`: contraction of the first axis (the new axis stays first). -/
def einsumFirst (N : Mat K) (t : Tensor K) : Tensor K :=
  ofIdxFn (N.size :: t.shape.tail) (fun idx =>
    (List.range (t.shape.headD 1)).foldl
      (fun acc j => acc + (N.getD (idx.headD 0) #[]).getD j 0 * getIdx t (j :: idx.tail)) 0)

/-- `np.einsum('ij,ij...->i...', N, t)`: for every `i`, contract axis 1 of `t[i]` with row `i` of `N`. -/
def einsumBatch (N : Mat K) (t : Tensor K) : Tensor K :=
  ofIdxFn (t.shape.headD 1 :: t.shape.drop 2) (fun idx =>
    (List.range (t.shape.getD 1 1)).foldl
      (fun acc j => acc + (N.getD (idx.headD 0) #[]).getD j 0 * getIdx t (idx.headD 0 :: j :: idx.tail)) 0)

/-- One entry of an index tuple `t[tuple(slices)]`: `slice(None, None, None)` or `slice(None, None, -1)`. -/
inductive SliceTok where
  | all
  | rev
  deriving DecidableEq, Repr, Inhabited

/-- `t[tuple(slices)]` for whole-axis slices, some of them reversed (`IndexError`: too many). -/
def npIndexSlices (t : Tensor K) (sl : List SliceTok) : PyM (Tensor K) :=
  if t.shape.length < sl.length then .error .index
  else .ok (sl.zipIdx.foldl (fun acc (s, ax) => if s = .rev then acc.flipAxis ax else acc) t)

/-- One entry of a general index tuple: `slice(None, None, None)`, an integer, or `slice(lo, hi, None)`. -/
inductive IdxTok where
  | all
  | at (i : Int)
  | range (lo hi : Option Int)
  deriving DecidableEq, Repr, Inhabited

/-- `t[tuple(index)]` (basic indexing, no steps): an integer removes its axis. -/
def npIndex (t : Tensor K) (ix : List IdxTok) : PyM (Tensor K) :=
  if t.shape.length < ix.length then .error .index else
  (ix.foldlM (fun (st : Tensor K × ℕ) (tok : IdxTok) =>
    match tok with
    | .all => (pure (st.1, st.2 + 1) : PyM (Tensor K × ℕ))
    | .range lo hi =>
      let n := st.1.shape.getD st.2 0
      pure (st.1.sliceAxis st.2 (sliceLo n lo) (max (sliceLo n lo) (sliceHi n hi)), st.2 + 1)
    | .at i =>
      match normIdx (st.1.shape.getD st.2 0) i with
      | some k => pure (st.1.takeAxis st.2 k, st.2)
      | none => .error .index) (t, 0)).map (fun (st : Tensor K × ℕ) => st.1)

/-- position `k` along `axis` replaced by the array `v` (of the shape of `t` without that axis) -/
def putAxis (t : Tensor K) (axis k : ℕ) (v : Tensor K) : Tensor K :=
  let (_, n, inn) := Tensor.split3 t.shape axis
  Tensor.build3 t.shape axis n (fun a r i => if r = k then v.get (a * inn + i) else t.at3 axis a r i)

/-- `t[tuple(index)] = v` for an index with exactly one integer among whole-axis slices
    (any other form is outside the model: `.other`); `v` has the shape of `t[tuple(index)]`. -/
def npSetIndex (t : Tensor K) (ix : List IdxTok) (v : Tensor K) : PyM (Tensor K) :=
  if t.shape.length < ix.length then .error .index else
  match ix.filter (· ≠ .all) with
  | [.at i] =>
    let ax := ix.findIdx (· ≠ .all)
    match normIdx (t.shape.getD ax 0) i with
    | some k => if v.shape = t.shape.eraseIdx ax then .ok (putAxis t ax k v) else .error .value
    | none => .error .index
  | _ => .error .other

/-- `x * t`, `a + b` on arrays. -/
def tScale (x : K) (t : Tensor K) : Tensor K :=
  { shape := t.shape, data := Array.ofFn (n := t.data.size) (fun k => x * t.get k.val) }
def tPlus (a b : Tensor K) : Tensor K :=
  { shape := a.shape, data := Array.ofFn (n := a.data.size) (fun k => a.get k.val + b.get k.val) }

/-- `np.linspace(a, b, n)`. -/
def npLinspace (a b : K) (n : Int) : List K :=
  if n = 1 then [a]
  else (List.range n.toNat).map (fun (i : ℕ) => a + (i : K) * ((b - a) / ((n : K) - 1)))

/-- `xs[s]` for a slice object `s = slice(lo, hi, None)`. -/
def sliceTok {α : Type} (xs : List α) : IdxTok → PyM (List α)
  | .range lo hi => .ok (slice xs lo hi)
  | .all => .ok xs
  | .at _ => .error .other

/-- The idiom `C = [c for c in SplineObject.__subclasses__() if c._intended_pardim == n][0]; C(*bases, cps,
    rational, raw=True)`: `IndexError` unless `n ∈ {1, 2, 3}` (Curve, Surface, Volume); the subclass constructors
    pass their arguments on to `SplineObject.__init__`, whose `raw=True` path clones the bases and stores
    `np.array(controlpoints)`, `dimension = shape[-1] - rational`.  `TypeError` when the number of bases is not `n`. -/
def ctorFirst (n : Int) : PyM Int := if 1 ≤ n ∧ n ≤ 3 then .ok n else .error .index

def mkRaw (n : Int) (bases : Array (Basis K)) (cps : Tensor K) (rational : Bool) : PyM (PyObj K) :=
  if (bases.size : Int) = n then
    if cps.shape = [] then .error .index      -- `self.controlpoints.shape[-1]` of a 0-d array
    else .ok { bases := bases, controlpoints := cps, dimension := (cps.shape.getLastD 0 : ℕ) - b2i rational, rational := rational }
  else .error .type

/-- `SplineObject(bases, controlpoints, rational, raw=True)` (the base class: any number of bases). -/
def mkRawObj (bases : Array (Basis K)) (cps : Tensor K) (rational : Bool) : PyM (PyObj K) :=
  if cps.shape = [] then .error .index
  else .ok { bases := bases, controlpoints := cps, dimension := (cps.shape.getLastD 0 : ℕ) - b2i rational, rational := rational }

/-! ## sections (t3b) -/

/-- `utils.check_section(*args, pardim=…, **kwargs)` (PINNED source; translated statement by statement by
    `harness/translate/sections_translate.py` for property C15): pad with `None` up to `pardim`, then
    `args['uvw'.index(k)] = kwargs[k]` for the keywords `u`, `v`, `w` that are present (`kw` = those, as
    (position, value); the iteration order of the Python `set` is irrelevant: distinct positions, one error kind). -/
def pyCheckSection (args : List (Option Int)) (kw : List (ℕ × Option Int)) (pardim : Int) : PyM (List (Option Int)) :=
  let a := args ++ List.replicate (pardim.toNat - args.length) none
  kw.foldlM (fun a x => if x.1 < a.length then .ok (a.set x.1 x.2) else .error .index) a

/-- `[f(x) for x in xs if c(x)]`. -/
def listCompIf {α β : Type} : List α → (α → PyM (Bool × β)) → PyM (List β)
  | [], _ => pure []
  | x :: xs, f => do
    let y ← f x
    let ys ← listCompIf xs f
    pure (if y.1 then y.2 :: ys else ys)

/-- `BSplineBasis(order, knots)` (non-periodic). -/
def mkBasis (order : Int) (knots : List K) (tol : K) : PyM (Basis K) :=
  if order < 0 then .error .value else Basis.mk? order.toNat knots.toArray (-1) tol

/-- an int-or-`np.inf` used as a repetition count (`[k] * m`): `inf` is a float, `TypeError`. -/
def extCount : Option Int → PyM Int
  | some i => .ok i
  | none => .error .type

/-- `bisect.bisect_left(xs, v)` on a whole sequence (the model's literal binary search). -/
def pyBisectLeft (xs : List K) (v : K) : Int := (bisectLeft (fun i => xs.getD i 0) v xs.length : ℕ)

/-- `bisect_left(b.knots, v)`. -/
def bisectLeftKnots (b : Basis K) (v : K) : Int := (b.bisectL v : ℕ)

/-- What `split` returns: the opened object itself, or a list of pieces. -/
inductive PyRes (K : Type) where
  | obj : PyObj K → PyRes K
  | objs : List (PyObj K) → PyRes K

/-- `np.roll(t, k, axis)`. -/
def npRoll (t : Tensor K) (k : Int) (axis : Int) : PyM (Tensor K) :=
  match normIdx t.shape.length axis with
  | none => .error .index
  | some ax => .ok (if 0 ≤ k then t.rollAxisPos ax k.toNat else t.rollAxisNeg ax (-k).toNat)

/-! ## numpy: the component (last) axis -/

/-- number of components / number of points of an array whose last axis holds the components -/
def lastN (t : Tensor K) : ℕ := t.shape.getLastD 1
def nPts (t : Tensor K) : ℕ := Tensor.prod t.shape.dropLast

/-- `t[..., i]` (a copy; shape without the last axis). -/
def getLast (t : Tensor K) (i : Int) : PyM (Tensor K) :=
  match normIdx (lastN t) i with
  | none => .error .index
  | some c => .ok { shape := t.shape.dropLast,
                    data := Array.ofFn (n := nPts t) (fun p => t.get (p.val * lastN t + c)) }

/-- `t[..., i] = v` for an array `v` of the shape of `t[..., i]`. -/
def setLast (t : Tensor K) (i : Int) (v : Tensor K) : PyM (Tensor K) :=
  match normIdx (lastN t) i with
  | none => .error .index
  | some c => .ok { shape := t.shape,
                    data := Array.ofFn (n := nPts t * lastN t) (fun k =>
                      if k.val % lastN t = c then v.get (k.val / lastN t) else t.get k.val) }

/-- `t[..., i] = x` for a number `x` (broadcast). -/
def setLastScalar (t : Tensor K) (i : Int) (x : K) : PyM (Tensor K) :=
  match normIdx (lastN t) i with
  | none => .error .index
  | some c => .ok { shape := t.shape,
                    data := Array.ofFn (n := nPts t * lastN t) (fun k =>
                      if k.val % lastN t = c then x else t.get k.val) }

/-- Element-wise `a / b`, `a * b`, `a - b` on arrays of the same shape. -/
def tDiv (a b : Tensor K) : Tensor K :=
  { shape := a.shape, data := Array.ofFn (n := a.data.size) (fun k => a.get k.val / b.get k.val) }
def tMul (a b : Tensor K) : Tensor K :=
  { shape := a.shape, data := Array.ofFn (n := a.data.size) (fun k => a.get k.val * b.get k.val) }
def tSub (a b : Tensor K) : Tensor K :=
  { shape := a.shape, data := Array.ofFn (n := a.data.size) (fun k => a.get k.val - b.get k.val) }

/-- `np.delete(t, i, -1)`: remove component `i` of every point. -/
def npDeleteLast (t : Tensor K) (i : Int) : PyM (Tensor K) :=
  match normIdx (lastN t) i with
  | none => .error .index
  | some c => .ok { shape := t.shape.dropLast ++ [lastN t - 1],
                    data := Array.ofFn (n := nPts t * (lastN t - 1)) (fun k =>
                      let p := k.val / (lastN t - 1)
                      let j := k.val % (lastN t - 1)
                      t.get (p * lastN t + (if j < c then j else j + 1))) }

/-- `np.insert(t, i, np.zeros/ones(shape[:-1]), pardim)` with `pardim` the last axis: a new
    component with the constant value `x` is inserted before component `i`
    (`IndexError` when `i` is out of bounds, `i = ncomp` appends). -/
def npInsertLast (t : Tensor K) (i : Int) (x : K) : PyM (Tensor K) :=
  let nc : Int := lastN t
  if i < -nc ∨ nc < i then .error .index else
  let c := (if i < 0 then i + nc else i).toNat
  .ok { shape := t.shape.dropLast ++ [lastN t + 1],
        data := Array.ofFn (n := nPts t * (lastN t + 1)) (fun k =>
          let p := k.val / (lastN t + 1)
          let j := k.val % (lastN t + 1)
          if j < c then t.get (p * lastN t + j) else if j = c then x else t.get (p * lastN t + (j - 1))) }

/-- `np.insert(t, i, np.zeros(vshape) | np.ones(vshape), axis)` as the code uses it: `axis` is the
    component (last) axis and `vshape = t.shape[:-1]`; any other use is outside the model (`.other`). -/
def npInsertComp (t : Tensor K) (i : Int) (x : K) (vshape : List Int) (axis : Int) : PyM (Tensor K) :=
  if axis + 1 = t.shape.length ∧ vshape = (t.shape.dropLast.map (fun (n : ℕ) => (n : Int))) then npInsertLast t i x
  else .error .other

/-- `np.min(t)`, `np.max(t)` (`ValueError` on an empty array). -/
def npMin (t : Tensor K) : PyM K := pyMin t.data.toList
def npMax (t : Tensor K) : PyM K := pyMax t.data.toList

/-- `t.reshape(shape)` / `np.reshape(t, shape)` (C order): `ValueError` when the sizes differ or a
    dimension is negative. -/
def npReshape (t : Tensor K) (shape : List Int) : PyM (Tensor K) :=
  if shape.any (· < 0) then .error .value else
  let sh := shape.map Int.toNat
  if Tensor.prod sh = t.data.size then .ok { shape := sh, data := t.data } else .error .value

/-- A 2-d array (`Mat`) seen as a `Tensor` and back (`np.reshape(cps, (n, m))` gives a 2-d array the
    translation types as a matrix). -/
def matOfTensor (t : Tensor K) (n m : ℕ) : Mat K :=
  Array.ofFn (n := n) (fun i => Array.ofFn (n := m) (fun j => t.get (i.val * m + j.val)))

def tensorOfMat (M : Mat K) (shape : List ℕ) : Tensor K :=
  { shape := shape, data := M.foldl (· ++ ·) #[] }

/-- `np.reshape(t, (n, m))` as a matrix. -/
def npReshape2 (t : Tensor K) (n m : Int) : PyM (Mat K) :=
  if n < 0 ∨ m < 0 then .error .value else
  if n.toNat * m.toNat = t.data.size then .ok (matOfTensor t n.toNat m.toNat) else .error .value

/-- `np.reshape(np.array(M), shape)` for a matrix `M` with rows of equal length. -/
def npReshapeMat (M : Mat K) (shape : List Int) : PyM (Tensor K) :=
  npReshape (tensorOfMat M []) shape

/-- `np.ones((n, m))`. -/
def npOnes2 (n m : Int) : PyM (Mat K) :=
  if n < 0 ∨ m < 0 then .error .value else .ok (Array.replicate n.toNat (Array.replicate m.toNat 1))

/-- `M[i, j] = v`. -/
def setItem2 (M : Mat K) (r c : Int) (v : K) : PyM (Mat K) :=
  match normIdx M.size r with
  | none => .error .index
  | some r' =>
    match normIdx (M.getD r' #[]).size c with
    | none => .error .index
    | some c' => .ok (M.modify r' (fun row => row.set! c' v))

/-- `M.T`. -/
def matT (M : Mat K) : Mat K := Mat.transpose M

/-- `cp[:, :-1]` and `cp[:, :-1] = A` on 2-d arrays. -/
def matDropLastCol (M : Mat K) : Mat K := M.map (fun row => row.extract 0 (row.size - 1))

def matSetButLastCol (M A : Mat K) : PyM (Mat K) :=
  if M.size = A.size ∧ (List.range M.size).all (fun i => (A.getD i #[]).size + 1 = (M.getD i #[]).size) then
    .ok (Array.ofFn (n := M.size) (fun i => (A.getD i.val #[]).push ((M.getD i.val #[]).getD ((M.getD i.val #[]).size - 1) 0)))
  else .error .value

/-! ## order elevation / reduction (t3b) -/

/-- `any(f(x) for x in xs)` with a body that may raise: left to right, stops at the first `True`. -/
def anyM {α : Type} : List α → (α → PyM Bool) → PyM Bool
  | [], _ => pure false
  | x :: xs, f => do
    let y ← f x
    if y then pure true else anyM xs f

/-- `all(f(x) for x in xs)` with a body that may raise: left to right, stops at the first `False`. -/
def allM {α : Type} : List α → (α → PyM Bool) → PyM Bool
  | [], _ => pure true
  | x :: xs, f => do
    let y ← f x
    if y then allM xs f else pure false

/-- `c < n` for an int-or-`np.inf` `c`: `inf < n` is `False`. -/
def extLt (c : Option Int) (n : Int) : Bool :=
  match c with
  | none => false
  | some c => decide (c < n)

/-- `b.greville()` as a sequence. -/
def basisGreville (b : Basis K) : PyM (List K) := do
  let g ← Basis.greville b
  pure g.toList

/-- `b.raise_order(r)` / `b.lower_order(l)`: new basis objects (hand model, t1). -/
def basisRaiseOrder [FloorRing K] (b : Basis K) (tol : K) (r : Int) : PyM (Basis K) := Basis.raiseOrderInt b tol r
def basisLowerOrder [FloorRing K] (b : Basis K) (tol : K) (l : Int) : PyM (Basis K) := Basis.lowerOrder b tol l

/-- `np.linalg.inv(A)`: IDEALISED as the hand model's certified exact inverse (`Mat.invChecked`:
    Gauss–Jordan, accepted only after `Ai · A = I` has been checked; `LinAlgError` otherwise). -/
def npLinalgInv (A : Mat K) : PyM (Mat K) := Mat.invChecked A

/-! ## affine maps and operators (t3b) -/

/-- `ensure_flatlist(args)` on a tuple of numbers-or-sequences: `args[0]` if that is `Sized` (the
    rest is dropped; its entries are numbers), otherwise `args` itself; `IndexError` on `()`. -/
def ensure_flatlist_p : List (Param K) → PyM (List (Param K))
  | [] => .error .index
  | .list v :: _ => .ok (v.map .scalar)
  | args => .ok args

/-- storing `x` into one entry of a float matrix: a sequence is numpy's `ValueError`
    ("setting an array element with a sequence"). -/
def paramScalar : Param K → PyM K
  | .scalar x => .ok x
  | .list _ => .error .value

/-- `1.0 / x` for a number (`ZeroDivisionError`) or, element-wise, for a 1-d array (IDEALISED like the
    hand model `AffOp.recip`: an exact field has no `inf`, a zero entry is reported as `ZeroDivisionError`). -/
def paramRecip : Param K → PyM (Param K)
  | .scalar x => if x = 0 then .error .zeroDiv else .ok (.scalar (1 / x))
  | .list xs => if xs.any (· = 0) then .error .zeroDiv else .ok (.list (xs.map (1 / ·)))

/-- `-np.array(x)`, `np.array(x) / s`, `np.array(x) * s`, `np.dot(x, y)` on 1-d arrays
    (`np.dot` of different lengths is a numpy shape error, not modelled: the shorter length is used). -/
def listNeg (xs : List K) : List K := xs.map (- ·)
def listDivS (xs : List K) (s : K) : List K := xs.map (· / s)
def listMulS (xs : List K) (s : K) : List K := xs.map (· * s)
def listDot (xs ys : List K) : K := (List.zipWith (· * ·) xs ys).foldl (· + ·) 0

/-- `np.outer(x, y)`. -/
def npOuter (xs ys : List K) : Mat K := (xs.map (fun x => (ys.map (fun y => x * y)).toArray)).toArray

/-- `c * M` for a 2-d array. -/
def matScale (c : K) (M : Mat K) : Mat K := M.map (fun row => row.map (fun x => c * x))

/-- `np.array([[..], [..]])`: rows of different lengths are a `ValueError` (inhomogeneous shape). -/
def matOfRows (rows : List (List K)) : PyM (Mat K) :=
  if rows.all (fun r => r.length = (rows.headD []).length) then .ok (rows.map List.toArray).toArray else .error .value

/-- `a, b, c = xs`. -/
def unpack3 {α : Type} (xs : List α) : PyM (α × α × α) :=
  match xs with
  | [a, b, c] => .ok (a, b, c)
  | _ => .error .value

/-- numpy broadcasting of a block `A` against the slot `(nr, nc)`: equal shape, or a length-1 axis
    is repeated; anything else is a `ValueError`. -/
def bcast (A : Mat K) (nr nc : ℕ) : PyM (ℕ → ℕ → K) :=
  let ar := A.size
  let ac := (A.getD 0 #[]).size
  if (ar = nr ∨ ar = 1) ∧ (ac = nc ∨ ac = 1) ∧ A.all (fun r => r.size = ac) then
    .ok (fun i j => (A.getD (if ar = 1 then 0 else i) #[]).getD (if ac = 1 then 0 else j) 0)
  else .error .value

/-- `M[0:r, 0:c] = A` / `M[0:r, 0:c] -= A` on a 2-d array whose rows have `≥ c` entries (numpy clamps
    the slice bounds; negative bounds are not modelled: `ValueError`). -/
def matBlockUpd (M : Mat K) (r c : Int) (A : Mat K) (f : K → K → K) : PyM (Mat K) :=
  if r < 0 ∨ c < 0 then .error .value else
  let nr := min r.toNat M.size
  let nc := min c.toNat (M.getD 0 #[]).size
  match bcast A nr nc with
  | .error e => .error e
  | .ok g => .ok (Array.ofFn (n := M.size) (fun i =>
      Array.ofFn (n := (M.getD i.val #[]).size) (fun j =>
        if i.val < nr ∧ j.val < nc then f ((M.getD i.val #[]).getD j.val 0) (g i.val j.val)
        else (M.getD i.val #[]).getD j.val 0)))

def matBlockSet (M : Mat K) (r c : Int) (A : Mat K) : PyM (Mat K) := matBlockUpd M r c A (fun _ a => a)
def matBlockSub (M : Mat K) (r c : Int) (A : Mat K) : PyM (Mat K) := matBlockUpd M r c A (fun m a => m - a)

/-- What `SplineObject.section` returns: an object, or (a point with `unwrap_points=True`) the bare control point. -/
inductive PySec (K : Type) where
  | obj (o : PyObj K)
  | point (t : Tensor K)

/-- `slice(None) if p is None else p`. -/
def selTok : Option Int → IdxTok
  | none => .all
  | some i => .at i

/-- `utils.sections(src_dim, tgt_dim)` (PINNED generator; translated by `sections_translate.py`, C15): every
    choice of `src - tgt` fixed directions (`itertools.combinations`, `ValueError` for a negative count), each
    with every `{0, -1}` pattern (`itertools.product`, the pattern reversed). -/
def pyCombos : List ℕ → ℕ → List (List ℕ)
  | _, 0 => [[]]
  | [], _+1 => []
  | x :: xs, r+1 => (pyCombos xs r).map (x :: ·) ++ pyCombos xs (r+1)

def pyProd01 : ℕ → List (List Int)
  | 0 => [[]]
  | n+1 => (pyProd01 n).map ((0 : Int) :: ·) ++ (pyProd01 n).map ((-1 : Int) :: ·)

def pyAssign : List (Option Int) → List ℕ → List Int → List (Option Int)
  | a, f :: fs, i :: is => pyAssign (a.set f (some i)) fs is
  | a, _, _ => a

def pySections (src tgt : Int) : PyM (List (List (Option Int))) :=
  if src < tgt then .error .value else
  let nfixed := (src - tgt).toNat
  .ok ((pyCombos (List.range src.toNat) nfixed).flatMap (fun fixed =>
    (pyProd01 nfixed).map (fun indices => pyAssign (List.replicate src.toNat none) fixed indices.reverse)))

/-- `enumerate(xs)`. -/
def pyEnumerate {α : Type} (xs : List α) : List (Int × α) :=
  (List.zip (List.range xs.length) xs).map (fun x => ((x.1 : ℕ), x.2))

/-- `b ** e` on ints: a negative exponent gives a float, which no caller here accepts (`TypeError` at its use). -/
def intPow (b e : Int) : PyM Int := if e < 0 then .error .type else .ok (b ^ e.toNat)

/-- `np.zeros((n, m))`. -/
def npZeros2 (n m : Int) : PyM (Mat K) :=
  if n < 0 ∨ m < 0 then .error .value else .ok (Array.replicate n.toNat (Array.replicate m.toNat 0))

/-- `M[i, :] = v` for the value returned by `section`: an object cannot be stored in a float array
    (`TypeError`); an array is broadcast the numpy way (leading axes of length 1 are dropped; then it is
    a row of the right length or a single number), otherwise `ValueError`. -/
def matSetRowSec (M : Mat K) (i : Int) (v : PySec K) : PyM (Mat K) :=
  match v with
  | .obj _ => .error .type
  | .point t =>
    match normIdx M.size i with
    | none => .error .index
    | some r =>
      let n := (M.getD r #[]).size
      let sh := t.shape.dropWhile (· = 1)
      if sh = [n] then .ok (M.set! r (Array.ofFn (n := n) (fun j => t.data.getD j.val 0)))
      else if sh = [] then .ok (M.set! r (Array.replicate n (t.data.getD 0 0)))
      else .error .value

end Splipy.PyO
