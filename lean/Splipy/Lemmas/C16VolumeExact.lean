import Splipy.Lemmas.C16Jacobian
import Splipy.Lemmas.C16Composite
import Splipy.Lemmas.C16Center

/-!
# C16: `Obj.volume` of a non-rational volume is the exact integral of the Jacobian determinant
(sum over the elements of the integrals of its polynomial pieces), for every rule satisfying the
Gauss moment equations — no hypothesis about the integrand beyond a constant sign per element.
-/

namespace Splipy

open Polynomial Measure

variable {K : Type} [Field K] [LinearOrder K] [IsStrictOrderedRing K] [FloorRing K]

/-- Every element `[a,b]` of `knot_spans()` (consecutive distinct knots) is non-empty and lies in
ONE knot span of the basis, not at the domain end.  True whenever distinct knot values are more
than `tol` apart (`Basis.Separated`); it is what makes the integrand a single polynomial piece per
element. -/
def Basis.SpanCover (b : Basis K) (tol : K) : Prop :=
  ∀ e ∈ elements (b.knotSpans tol false).toList,
    e.1 < e.2 ∧ ∃ μ, μ + 1 ≤ b.nAll ∧ b.kn μ ≤ e.1 ∧ e.2 ≤ b.kn (μ + 1)

open Classical in
/-- The knot span of an element. -/
noncomputable def Basis.spanOf (b : Basis K) (tol : K) (h : b.SpanCover tol) (e : K × K) : ℕ :=
  if he : e ∈ elements (b.knotSpans tol false).toList then Classical.choose (h e he).2 else 0

theorem Basis.spanOf_spec (b : Basis K) (tol : K) (h : b.SpanCover tol) (e : K × K)
    (he : e ∈ elements (b.knotSpans tol false).toList) :
    e.1 < e.2 ∧ b.spanOf tol h e + 1 ≤ b.nAll ∧ b.kn (b.spanOf tol h e) ≤ e.1 ∧
      e.2 ≤ b.kn (b.spanOf tol h e + 1) := by
  unfold Basis.spanOf
  rw [dif_pos he]
  exact ⟨(h e he).1, Classical.choose_spec (h e he).2⟩

omit [FloorRing K] in
/-- A mapped node of a rule with nodes in `(-1,1)` lies strictly inside its element. -/
theorem node_mem (x a b : K) (hx : -1 < x ∧ x < 1) (hab : a < b) :
    a < (x + 1) / 2 * (b - a) + a ∧ (x + 1) / 2 * (b - a) + a < b := by
  have h1 : 0 < (x + 1) / 2 := by linarith [hx.1]
  have h2 : (x + 1) / 2 < 1 := by linarith [hx.2]
  have h3 : 0 < b - a := by linarith
  constructor
  · nlinarith [mul_pos h1 h3]
  · nlinarith [mul_pos (sub_pos.mpr h2) h3]

namespace Obj

omit [LinearOrder K] [IsStrictOrderedRing K] [FloorRing K] in
theorem natDegree_jacP_le (o : Obj K) (b1 b2 b3 : Basis K) (μ1 : ℕ) (c) :
    (o.jacP b1 b2 b3 μ1 c).natDegree ≤ (b1.order - 1 - 1) + (b1.order - 1) + (b1.order - 1) := by
  unfold jacP
  refine le_trans (natDegree_C_mul_le _ _) ?_
  refine le_trans natDegree_mul_le (Nat.add_le_add ?_ (natDegree_Bpoly_le _ _ _ _))
  refine le_trans natDegree_mul_le (Nat.add_le_add ?_ (natDegree_Bpoly_le _ _ _ _))
  exact le_trans (natDegree_derivative_le _) (Nat.sub_le_sub_right (natDegree_Bpoly_le _ _ _ _) 1)

omit [LinearOrder K] [IsStrictOrderedRing K] [FloorRing K] in
theorem natDegree_jacR_le (b2 : Basis K) (μ2 : ℕ) (c) :
    (jacR b2 μ2 c).natDegree ≤ (b2.order - 1) + (b2.order - 1 - 1) + (b2.order - 1) := by
  unfold jacR
  refine le_trans natDegree_mul_le (Nat.add_le_add ?_ (natDegree_Bpoly_le _ _ _ _))
  refine le_trans natDegree_mul_le (Nat.add_le_add (natDegree_Bpoly_le _ _ _ _) ?_)
  exact le_trans (natDegree_derivative_le _) (Nat.sub_le_sub_right (natDegree_Bpoly_le _ _ _ _) 1)

omit [LinearOrder K] [IsStrictOrderedRing K] [FloorRing K] in
theorem natDegree_jacT_le (b3 : Basis K) (μ3 : ℕ) (c) :
    (jacT b3 μ3 c).natDegree ≤ (b3.order - 1) + (b3.order - 1) + (b3.order - 1 - 1) := by
  unfold jacT
  refine le_trans natDegree_mul_le (Nat.add_le_add ?_ ?_)
  · exact le_trans natDegree_mul_le
      (Nat.add_le_add (natDegree_Bpoly_le _ _ _ _) (natDegree_Bpoly_le _ _ _ _))
  · exact le_trans (natDegree_derivative_le _) (Nat.sub_le_sub_right (natDegree_Bpoly_le _ _ _ _) 1)

/-- The specification Jacobian determinant of a non-rational volume at `(u,v,w)`. -/
def jacSpec (o : Obj K) (b1 b2 b3 : Basis K) (u v w : K) : K :=
  jac3 (o.specD3 b1 b2 b3 3 u v w 1 0 0) (o.specD3 b1 b2 b3 3 u v w 0 1 0)
    (o.specD3 b1 b2 b3 3 u v w 0 0 1)

/-- **Exact integral of the Jacobian polynomial over the knot-span box** `[a1,b1]×[a2,b2]×[a3,b3]`
inside the spans `(μ1,μ2,μ3)`, defined by antiderivatives of the three factors of every term. -/
noncomputable def boxIntegral (o : Obj K) (b1 b2 b3 : Basis K) (μ1 μ2 μ3 : ℕ) (e1 e2 e3 : K × K) : K :=
  ∑ c ∈ (idx3 b1.numFunctions b2.numFunctions b3.numFunctions
          ×ˢ idx3 b1.numFunctions b2.numFunctions b3.numFunctions)
          ×ˢ idx3 b1.numFunctions b2.numFunctions b3.numFunctions,
    ((antideriv (o.jacP b1 b2 b3 μ1 c)).eval e1.2 - (antideriv (o.jacP b1 b2 b3 μ1 c)).eval e1.1)
    * ((antideriv (jacR b2 μ2 c)).eval e2.2 - (antideriv (jacR b2 μ2 c)).eval e2.1)
    * ((antideriv (jacT b3 μ3 c)).eval e3.2 - (antideriv (jacT b3 μ3 c)).eval e3.1)

open Classical in
/-- The sign of the Jacobian on an element (`+1` if it is non-negative on the open box, else `−1`). -/
noncomputable def boxSign (o : Obj K) (b1 b2 b3 : Basis K) (e1 e2 e3 : K × K) : K :=
  if ∀ u v w, e1.1 < u → u < e1.2 → e2.1 < v → v < e2.2 → e3.1 < w → w < e3.2 →
      0 ≤ o.jacSpec b1 b2 b3 u v w then 1 else -1

variable [CharZero K]

/-- **`Obj.volume` of a non-rational volume = Σ over the elements of ± the exact integral of the
Jacobian determinant's polynomial piece** — no hypothesis on the integrand except a constant sign
per element. -/
theorem volume_exact {o : Obj K} {b1 b2 b3 : Basis K} (hb : o.bases = #[b1, b2, b3])
    (hv1 : b1.Valid) (hv2 : b2.Valid) (hv3 : b3.Valid) (hp1 : b1.periodic = -1)
    (hp2 : b2.periodic = -1) (hp3 : b3.periodic = -1)
    (hs : o.cps.shape = [b1.numFunctions, b2.numFunctions, b3.numFunctions, 3])
    (hr : o.rational = false) {tol : K} (htol : 0 < tol) {x1 wt1 x2 wt2 x3 wt3 : List K}
    {D1 D2 D3 : ℕ} (hr1 : GaussRule x1 wt1 D1) (hr2 : GaussRule x2 wt2 D2)
    (hr3 : GaussRule x3 wt3 D3)
    (hD1 : (b1.order - 1 - 1) + (b1.order - 1) + (b1.order - 1) ≤ D1)
    (hD2 : (b2.order - 1) + (b2.order - 1 - 1) + (b2.order - 1) ≤ D2)
    (hD3 : (b3.order - 1) + (b3.order - 1) + (b3.order - 1 - 1) ≤ D3)
    (hx1 : ∀ i, i < wt1.length → -1 < x1.getD i 0 ∧ x1.getD i 0 < 1)
    (hx2 : ∀ i, i < wt2.length → -1 < x2.getD i 0 ∧ x2.getD i 0 < 1)
    (hx3 : ∀ i, i < wt3.length → -1 < x3.getD i 0 ∧ x3.getD i 0 < 1)
    (hc1 : b1.SpanCover tol) (hc2 : b2.SpanCover tol) (hc3 : b3.SpanCover tol)
    (hadm1 : ∀ u ∈ (gaussMap (b1.knotSpans tol false).toList x1 wt1).1, b1.Admissible tol u)
    (hadm2 : ∀ u ∈ (gaussMap (b2.knotSpans tol false).toList x2 wt2).1, b2.Admissible tol u)
    (hadm3 : ∀ u ∈ (gaussMap (b3.knotSpans tol false).toList x3 wt3).1, b3.Admissible tol u)
    (hne1 : (gaussMap (b1.knotSpans tol false).toList x1 wt1).1 ≠ [])
    (hne2 : (gaussMap (b2.knotSpans tol false).toList x2 wt2).1 ≠ [])
    (hne3 : (gaussMap (b3.knotSpans tol false).toList x3 wt3).1 ≠ [])
    (hsign : ∀ e1 ∈ elements (b1.knotSpans tol false).toList,
      ∀ e2 ∈ elements (b2.knotSpans tol false).toList,
      ∀ e3 ∈ elements (b3.knotSpans tol false).toList,
      (∀ u v w, e1.1 < u → u < e1.2 → e2.1 < v → v < e2.2 → e3.1 < w → w < e3.2 →
        0 ≤ o.jacSpec b1 b2 b3 u v w) ∨
      (∀ u v w, e1.1 < u → u < e1.2 → e2.1 < v → v < e2.2 → e3.1 < w → w < e3.2 →
        o.jacSpec b1 b2 b3 u v w ≤ 0)) :
    o.volume tol x1 wt1 x2 wt2 x3 wt3 = .ok
      (((elements (b1.knotSpans tol false).toList).map (fun e1 =>
        ((elements (b2.knotSpans tol false).toList).map (fun e2 =>
          ((elements (b3.knotSpans tol false).toList).map (fun e3 =>
            o.boxSign b1 b2 b3 e1 e2 e3 *
              o.boxIntegral b1 b2 b3 (b1.spanOf tol hc1 e1) (b2.spanOf tol hc2 e2)
                (b3.spanOf tol hc3 e3) e1 e2 e3)).sum)).sum)).sum) := by
  rw [volume_spec hb hv1 hv2 hv3 hs hr htol x1 wt1 x2 wt2 x3 wt3 hr1.1 hr2.1 hr3.1
    hadm1 hadm2 hadm3 (fun _ => hne1) (fun _ => hne2) (fun _ => hne3)]
  congr 1
  have key := gaussSum3_exact hr1 hr2 hr3 (b1.knotSpans tol false).toList
    (b2.knotSpans tol false).toList (b3.knotSpans tol false).toList
    (fun u v w => |o.jacSpec b1 b2 b3 u v w|)
    (fun _ _ _ => (idx3 b1.numFunctions b2.numFunctions b3.numFunctions
          ×ˢ idx3 b1.numFunctions b2.numFunctions b3.numFunctions)
          ×ˢ idx3 b1.numFunctions b2.numFunctions b3.numFunctions)
    (fun e1 e2 e3 c => C (o.boxSign b1 b2 b3 e1 e2 e3)
      * antideriv (o.jacP b1 b2 b3 (b1.spanOf tol hc1 e1) c))
    (fun _ e2 _ c => antideriv (jacR b2 (b2.spanOf tol hc2 e2) c))
    (fun _ _ e3 c => antideriv (jacT b3 (b3.spanOf tol hc3 e3) c)) ?_
  · rw [show (fun i j k => |jac3
        (o.specD3 b1 b2 b3 3 ((gaussMap (b1.knotSpans tol false).toList x1 wt1).1.getD i 0)
          ((gaussMap (b2.knotSpans tol false).toList x2 wt2).1.getD j 0)
          ((gaussMap (b3.knotSpans tol false).toList x3 wt3).1.getD k 0) 1 0 0)
        (o.specD3 b1 b2 b3 3 ((gaussMap (b1.knotSpans tol false).toList x1 wt1).1.getD i 0)
          ((gaussMap (b2.knotSpans tol false).toList x2 wt2).1.getD j 0)
          ((gaussMap (b3.knotSpans tol false).toList x3 wt3).1.getD k 0) 0 1 0)
        (o.specD3 b1 b2 b3 3 ((gaussMap (b1.knotSpans tol false).toList x1 wt1).1.getD i 0)
          ((gaussMap (b2.knotSpans tol false).toList x2 wt2).1.getD j 0)
          ((gaussMap (b3.knotSpans tol false).toList x3 wt3).1.getD k 0) 0 0 1)|)
      = (fun i j k => (fun u v w => |o.jacSpec b1 b2 b3 u v w|)
          ((gaussMap (b1.knotSpans tol false).toList x1 wt1).1.getD i 0)
          ((gaussMap (b2.knotSpans tol false).toList x2 wt2).1.getD j 0)
          ((gaussMap (b3.knotSpans tol false).toList x3 wt3).1.getD k 0)) from rfl, key]
    congr 1
    apply List.map_congr_left
    intro e1 _
    congr 1
    apply List.map_congr_left
    intro e2 _
    congr 1
    apply List.map_congr_left
    intro e3 _
    unfold boxIntegral
    rw [Finset.mul_sum]
    apply Finset.sum_congr rfl
    intro c _
    simp only [eval_mul, eval_C]
    ring
  · intro e1 he1 e2 he2 e3 he3
    obtain ⟨hl1, hn1, hk1, hk1'⟩ := b1.spanOf_spec tol hc1 e1 he1
    obtain ⟨hl2, hn2, hk2, hk2'⟩ := b2.spanOf_spec tol hc2 e2 he2
    obtain ⟨hl3, hn3, hk3, hk3'⟩ := b3.spanOf_spec tol hc3 e3 he3
    constructor
    · intro c _
      refine ⟨?_, ?_, ?_⟩
      · rw [derivative_C_mul, derivative_antideriv]
        exact le_trans (natDegree_C_mul_le _ _) (le_trans (natDegree_jacP_le o b1 b2 b3 _ c) hD1)
      · rw [derivative_antideriv]
        exact le_trans (natDegree_jacR_le b2 _ c) hD2
      · rw [derivative_antideriv]
        exact le_trans (natDegree_jacT_le b3 _ c) hD3
    · intro i j k hi hj hk
      obtain ⟨hu1, hu2⟩ := node_mem (x1.getD i 0) e1.1 e1.2 (hx1 i hi) hl1
      obtain ⟨hw1, hw2⟩ := node_mem (x2.getD j 0) e2.1 e2.2 (hx2 j hj) hl2
      obtain ⟨hz1, hz2⟩ := node_mem (x3.getD k 0) e3.1 e3.2 (hx3 k hk) hl3
      have hten := jac3_eq_tensor o hv1 hv2 hv3 hp1 hp2 hp3 (b1.spanOf tol hc1 e1)
        (b2.spanOf tol hc2 e2) (b3.spanOf tol hc3 e3) hn1 hn2 hn3 _ _ _
        ⟨le_trans hk1 hu1.le, lt_of_lt_of_le hu2 hk1'⟩
        ⟨le_trans hk2 hw1.le, lt_of_lt_of_le hw2 hk2'⟩
        ⟨le_trans hk3 hz1.le, lt_of_lt_of_le hz2 hk3'⟩
      have habs : |o.jacSpec b1 b2 b3 ((x1.getD i 0 + 1) / 2 * (e1.2 - e1.1) + e1.1)
            ((x2.getD j 0 + 1) / 2 * (e2.2 - e2.1) + e2.1) ((x3.getD k 0 + 1) / 2 * (e3.2 - e3.1) + e3.1)|
          = o.boxSign b1 b2 b3 e1 e2 e3 * o.jacSpec b1 b2 b3 ((x1.getD i 0 + 1) / 2 * (e1.2 - e1.1) + e1.1)
            ((x2.getD j 0 + 1) / 2 * (e2.2 - e2.1) + e2.1) ((x3.getD k 0 + 1) / 2 * (e3.2 - e3.1) + e3.1) := by
        unfold boxSign
        split_ifs with hpos
        · rw [abs_of_nonneg (hpos _ _ _ hu1 hu2 hw1 hw2 hz1 hz2), one_mul]
        · rcases hsign e1 he1 e2 he2 e3 he3 with h | h
          · exact absurd h hpos
          · rw [abs_of_nonpos (h _ _ _ hu1 hu2 hw1 hw2 hz1 hz2)]
            ring
      show |o.jacSpec b1 b2 b3 _ _ _| = _
      rw [habs]
      unfold jacSpec
      rw [hten, Finset.mul_sum]
      apply Finset.sum_congr rfl
      intro c _
      rw [derivative_C_mul, derivative_antideriv, derivative_antideriv, derivative_antideriv,
        eval_mul, eval_C]
      ring

end Obj

end Splipy
