import Splipy.Lemmas.C14Loft
import Splipy.Lemmas.C14Free
import Splipy.Lemmas.C14Spec
import Mathlib.Tactic.IntervalCases
import Mathlib.Tactic.NormNum
set_option linter.unusedSectionVars false

/-!
# C14: lofting succeeds (no solvability hypothesis)
-/

namespace Splipy
open Finset Tensor
namespace Interp

section cs
variable {K : Type} [Field K] [LinearOrder K] [IsStrictOrderedRing K]

/-- Running sums after `last`. -/
def csum (last : K) : List K → List K
  | [] => []
  | d :: ds => (last + d) :: csum (last + d) ds

omit [LinearOrder K] [IsStrictOrderedRing K] in
theorem csum_length (l : K) (ds : List K) : (csum l ds).length = ds.length := by
  induction ds generalizing l with
  | nil => rfl
  | cons d ds ih => simp [csum, ih]

omit [LinearOrder K] [IsStrictOrderedRing K] in
theorem cumsum_fold (start : K) (ds : List K) (pre : List K) (l : K) :
    ds.foldl (fun acc d => acc ++ [acc.getLastD start + d]) (pre ++ [l]) = pre ++ l :: csum l ds := by
  induction ds generalizing pre l with
  | nil => simp [csum]
  | cons d ds ih =>
    simp only [List.foldl_cons, csum]
    have : (pre ++ [l]).getLastD start = l := by simp
    rw [this, ih (pre ++ [l]) (l + d)]
    simp

omit [LinearOrder K] [IsStrictOrderedRing K] in
theorem cumsum_eq (start : K) (ds : List K) : cumsum start ds = start :: csum start ds := by
  unfold cumsum
  exact cumsum_fold start ds [] start

omit [LinearOrder K] [IsStrictOrderedRing K] in
theorem cumsum_length (start : K) (ds : List K) : (cumsum start ds).length = ds.length + 1 := by
  rw [cumsum_eq]; simp [csum_length]

/-- Running sums of increments `≥ tol` are separated by at least `tol`. -/
theorem csum_gap (tol : K) (htol : 0 ≤ tol) (ds : List K) (hds : ∀ c ∈ ds, tol ≤ c) (l : K) :
    ∀ i j, i < j → j < ds.length + 1 → (l :: csum l ds).getD i 0 + tol ≤ (l :: csum l ds).getD j 0 := by
  induction ds generalizing l with
  | nil => intro i j hij hj; simp at hj; omega
  | cons d ds ih =>
    intro i j hij hj
    have hd : tol ≤ d := hds d (by simp)
    have ih' := ih (fun c hc => hds c (by simp [hc])) (l + d)
    obtain ⟨j', rfl⟩ : ∃ j', j = j' + 1 := ⟨j - 1, by omega⟩
    have hj' : j' < ds.length + 1 := by simpa using hj
    have hge : l + d ≤ ((l + d) :: csum (l + d) ds).getD j' 0 := by
      rcases Nat.eq_zero_or_pos j' with h0 | h0
      · rw [h0]; simp
      · have := ih' 0 j' h0 hj'
        simp only [List.getD_cons_zero] at this
        linarith
    cases i with
    | zero =>
      simp only [csum, List.getD_cons_zero, List.getD_cons_succ]
      linarith
    | succ i =>
      simp only [csum, List.getD_cons_succ]
      exact ih' i j' (by omega) hj'

theorem cumsum_gap (tol : K) (htol : 0 ≤ tol) (ds : List K) (hds : ∀ c ∈ ds, tol ≤ c) :
    ∀ i j, i < j → j < (cumsum 0 ds).length → (cumsum 0 ds).getD i 0 + tol ≤ (cumsum 0 ds).getD j 0 := by
  intro i j hij hj
  rw [cumsum_length] at hj
  rw [cumsum_eq]
  exact csum_gap tol htol ds hds 0 i j hij hj

end cs

variable {K : Type} [Field K] [LinearOrder K] [IsStrictOrderedRing K] [FloorRing K]

/-- A square collocation matrix at exact generalised-nested points is inverted by the model. -/
theorem invC_gen_nested_ok {b : Basis K} (hv : b.Valid) (hper : b.periodic = -1)
    (hp : 2 ≤ b.order) (hc0 : b.kn 0 = b.kn (b.order - 1))
    (hc1 : b.kn b.numFunctions = b.kn (b.numFunctions + (b.order - 1)))
    (hmult : ∀ i, 1 ≤ i → i < b.numFunctions → b.kn i < b.kn (i + (b.order - 1)))
    {tol : K} (htol : 0 < tol) (ts : List K) (hlen : ts.length = b.numFunctions) (p0 p1 : Bool)
    (hx : GenNested b.kn (b.order - 1) b.numFunctions (fun l => ts.getD l 0) p0 p1)
    (hex : ∀ l, l < b.numFunctions → b.ExactAt tol (ts.getD l 0)) :
    ∃ Ni, invC (colloc b tol ts 0) = .ok Ni := by
  obtain ⟨L, hL⟩ := colloc_left_inverse_gen hv hper hp hc0 hc1 hmult htol ts hlen p0 p1 hx hex
  exact invC_complete _ b.numFunctions (colloc_shape b tol ts 0 hlen) L hL

/-- Any list of length `≥ 4` has the shape `a :: b :: (mid ++ [c, d])`. -/
theorem list_split4 (l : List K) (h : 4 ≤ l.length) :
    ∃ a b mid c d, l = a :: b :: (mid ++ [c, d]) := by
  match l, h with
  | a :: b :: rest, h =>
    have h2 : 2 ≤ rest.length := by simp at h; omega
    obtain ⟨c, d, hcd⟩ := List.length_eq_two.mp
      (show (rest.drop (rest.length - 2)).length = 2 by simp; omega)
    refine ⟨a, b, rest.take (rest.length - 2), c, d, ?_⟩
    rw [← hcd, List.take_append_drop]

/-- **The lofting basis for `n ≥ 4` sections is the FREE cubic interpolation basis** on the cumulated
centre distances, and the model inverts its collocation matrix at these distances (Schoenberg–Whitney). -/
theorem loftBasis_free_ok (tol : K) (htol : 0 < tol) (dist : List K) (h4 : 4 ≤ dist.length)
    (hgap : ∀ i j, i < j → j < dist.length → dist.getD i 0 + tol ≤ dist.getD j 0) :
    ∃ bL iL, loftBasis tol dist.length dist = .ok (bL, dist) ∧ invC (colloc bL tol dist 0) = .ok iL := by
  obtain ⟨a, b, mid, c, d, rfl⟩ := list_split4 dist h4
  have hlen : (a :: b :: (mid ++ [c, d])).length = mid.length + 4 := by simp
  rw [hlen] at hgap
  have hv := freeBasis_valid a b c d mid tol hgap htol
  have hnf := freeBasis_numFunctions a d mid
  have hpo : (freeBasis a d mid).order - 1 = 3 := rfl
  have hmk : Basis.mk? 4 ([a, a, a, a] ++ mid ++ [d, d, d, d]).toArray (-1) tol = .ok (freeBasis a d mid) :=
    Basis.mk?_of_valid hv tol htol.le
  obtain ⟨iL, hiL⟩ := invC_gen_nested_ok hv rfl (by unfold freeBasis; simp)
    (by rw [freeBasis_kn a b c d, freeBasis_kn a b c d]; unfold freeIdx freeBasis; simp)
    (by
      rw [freeBasis_kn a b c d, freeBasis_kn a b c d, hnf]
      have e1 : freeIdx (mid.length + 4) (mid.length + 4) = mid.length + 3 := by unfold freeIdx; simp
      have e2 : freeIdx (mid.length + 4) (mid.length + 4 + ((freeBasis a d mid).order - 1)) = mid.length + 3 := by
        unfold freeIdx; rw [hpo]; simp
      rw [e1, e2])
    (by rw [hnf, hpo]; exact free_hmult a b c d mid tol hgap htol)
    htol (a :: b :: (mid ++ [c, d])) (by rw [hlen, hnf]) true true
    (by rw [hnf, hpo]; exact NestedPts.toGen (free_nested a b c d mid tol hgap htol))
    (by rw [hnf]; exact free_exact a b c d mid tol hgap htol)
  refine ⟨freeBasis a d mid, iL, ?_, hiL⟩
  unfold loftBasis
  rw [if_neg (by rw [hlen]; omega)]
  have hk : List.replicate 4 ((a :: b :: (mid ++ [c, d])).headD 0) ++
      (List.take ((a :: b :: (mid ++ [c, d])).length - 4) (List.drop 2 (a :: b :: (mid ++ [c, d])))) ++
      List.replicate 4 ((a :: b :: (mid ++ [c, d])).getLastD 0) = [a, a, a, a] ++ mid ++ [d, d, d, d] := by
    have e1 : (a :: b :: (mid ++ [c, d])).getLastD 0 = d := by
      rw [show a :: b :: (mid ++ [c, d]) = (a :: b :: (mid ++ [c])) ++ [d] by simp,
        List.getLastD_eq_getLast?, List.getLast?_append]
      simp
    rw [e1, hlen]
    simp [List.replicate]
  simp only [bind, Except.bind, pure, Except.pure]
  rw [hk, hmk]

omit [IsStrictOrderedRing K] [FloorRing K] in
/-- A successful inversion returns a well-shaped matrix. -/
theorem invC_rows {N Ni : Mat K} (h : invC N = .ok Ni) :
    Ni.size = N.size ∧ ∀ r < N.size, (Ni.getD r #[]).size = N.size := by
  obtain ⟨hrow, _, _⟩ := invC_ok h
  have hshape : N.size = N.size ∧ ∀ i, i < N.size → (N.getD i #[]).size = N.size := ⟨rfl, hrow⟩
  have hinv := h
  rw [invC_eq_inv N N.size hshape] at hinv
  obtain ⟨s1, s2, _⟩ := Mat.inv_sound _ Ni N.size hshape hinv
  exact ⟨s1, s2⟩

theorem mapM_eq_map {α β : Type} (f : α → PyM β) (g : α → β) :
    ∀ (l : List α), (∀ a ∈ l, f a = .ok (g a)) → l.mapM f = .ok (l.map g) := by
  intro l
  induction l with
  | nil => intro _; rfl
  | cons a l ih =>
    intro h
    simp only [List.mapM_cons, bind, Except.bind, pure, Except.pure, h a (by simp),
      ih (fun x hx => h x (by simp [hx])), List.map_cons]

/-- **Surface lofting of curve sections succeeds**: common clamped continuous non-periodic section
basis (Greville collocation is invertible by Schoenberg–Whitney) and an invertible lofting collocation. -/
theorem loft_curves_ok {b1 : Basis K} (hv1 : b1.Valid) (hper1 : b1.periodic = -1) (hp1 : 2 ≤ b1.order)
    (hc01 : b1.kn 0 = b1.kn (b1.order - 1))
    (hc11 : b1.kn b1.numFunctions = b1.kn (b1.numFunctions + (b1.order - 1)))
    (hmult1 : ∀ i, 1 ≤ i → i < b1.numFunctions → b1.kn i < b1.kn (i + (b1.order - 1)))
    {tol : K} (htol : 0 < tol)
    (hgap1 : ∀ i j, b1.kn i < b1.kn j → b1.kn i + 2 * ((b1.order - 1 : ℕ) : K) * tol ≤ b1.kn j)
    (bL : Basis K) (v : List K) (iL : Mat K) (secs : List (Tensor K)) (dist : List K) (m nc : ℕ)
    (hm1 : m = b1.numFunctions) (hn : 0 < secs.length) (hsecs : ∀ s ∈ secs, s.shape = [m, nc])
    (hlb : loftBasis tol secs.length dist = .ok (bL, v)) (hvl : v.length = secs.length)
    (hiL : invC (colloc bL tol v 0) = .ok iL) :
    ∃ cp, loft [b1] tol secs dist = .ok (bL, cp) := by
  obtain ⟨g1, iu, hg1, hg1s, hiu, hiuS, hiuR⟩ := invC_greville_ok hv1 hper1 hp1 hc01 hc11 hmult1 htol hgap1
  set N1 := colloc b1 tol g1.toList 0 with hN1
  have hN1sh := colloc_shape b1 tol g1.toList 0 (by rw [Array.length_toList, hg1s])
  rw [← hN1, ← hm1] at hN1sh
  rw [← hm1] at hiuS hiuR
  obtain ⟨hiLS, hiLR⟩ := invC_rows hiL
  rw [size_colloc, hvl] at hiLS hiLR
  -- interpolation points of the sections
  have hpt : ∀ s ∈ secs, chain [N1] s 1 = .ok (moveFront (Tensor.applyAxis N1 s 0) 0) := by
    intro s hs
    unfold chain
    simp only [List.foldlM, bind, Except.bind, pure, Except.pure, Nat.sub_self]
    rw [tensordot_ok N1 s 0 m (by rw [hsecs s hs]; simp) (by rw [hsecs s hs]; rfl)
      (fun r hr => hN1sh.2 r (by rw [← hN1sh.1]; exact hr))]
  have hmap := mapM_eq_map (fun s => chain [N1] s 1) (fun s => moveFront (Tensor.applyAxis N1 s 0) 0) secs hpt
  set pts := secs.map (fun s => moveFront (Tensor.applyAxis N1 s 0) 0) with hpts
  have hplen : pts.length = secs.length := by rw [hpts]; simp
  have hpsh : ∀ p ∈ pts, p.shape = [m, nc] := by
    intro p hp
    rw [hpts, List.mem_map] at hp
    obtain ⟨s, hs, rfl⟩ := hp
    have h1 := hpt s hs
    unfold chain at h1
    simp only [List.foldlM, bind, Except.bind, pure, Except.pure, Nat.sub_self] at h1
    split at h1
    · exact absurd h1 (by simp)
    · rename_i R hR
      have : R = moveFront (Tensor.applyAxis N1 s 0) 0 := by cases h1; rfl
      rw [← this]
      have := (tensordot2 N1 s R (hsecs s hs) hR).1
      rw [hN1sh.1] at this
      exact this
  have hptsne : pts ≠ [] := by
    intro h0; rw [h0] at hplen; simp at hplen; omega
  obtain ⟨hxsh, _⟩ := stackAxis_entry pts m nc hptsne hpsh
  rw [hplen] at hxsh
  set x := stackAxis pts 1 with hx
  have t1 := tensordot_ok iL x 1 secs.length (by rw [hxsh]; simp) (by rw [hxsh]; rfl)
    (fun r hr => hiLR r (by rw [← hiLS]; exact hr))
  obtain ⟨r1sh, _, _⟩ := tensordot3 iL x _ hxsh t1
  have t2 := tensordot_ok iu (moveFront (Tensor.applyAxis iL x 1) 1) 1 m (by rw [r1sh]; simp) (by rw [r1sh]; rfl)
    (fun r hr => hiuR r (by rw [← hiuS]; exact hr))
  obtain ⟨r2sh, _, _⟩ := tensordot3 iu _ _ r1sh t2
  obtain ⟨r, hr, _⟩ := throughConstructor3 _ r2sh
  refine ⟨r, ?_⟩
  unfold loft chain
  simp only [bind, Except.bind, pure, Except.pure, hlb, List.mapM_cons, List.mapM_nil, hg1, Except.map,
    List.zip_cons_cons, List.zip_nil_right, List.map_cons, List.map_nil, List.reverse_cons, List.reverse_nil,
    List.nil_append, List.cons_append, ← hN1, hiL, hiu, List.length_cons, List.length_nil]
  unfold chain at hmap
  simp only [Nat.zero_add, Nat.reduceAdd, Nat.add_one_sub_one, Nat.sub_self] at hmap ⊢
  rw [hmap]
  simp only [List.foldlM, bind, Except.bind, pure, Except.pure, ← hx, t1, t2, hr]

/-- **Volume lofting of surface sections succeeds.** -/
theorem loft_surfaces_ok {b1 b2 : Basis K}
    (hv1 : b1.Valid) (hper1 : b1.periodic = -1) (hp1 : 2 ≤ b1.order)
    (hc01 : b1.kn 0 = b1.kn (b1.order - 1))
    (hc11 : b1.kn b1.numFunctions = b1.kn (b1.numFunctions + (b1.order - 1)))
    (hmult1 : ∀ i, 1 ≤ i → i < b1.numFunctions → b1.kn i < b1.kn (i + (b1.order - 1)))
    (hv2 : b2.Valid) (hper2 : b2.periodic = -1) (hp2 : 2 ≤ b2.order)
    (hc02 : b2.kn 0 = b2.kn (b2.order - 1))
    (hc12 : b2.kn b2.numFunctions = b2.kn (b2.numFunctions + (b2.order - 1)))
    (hmult2 : ∀ i, 1 ≤ i → i < b2.numFunctions → b2.kn i < b2.kn (i + (b2.order - 1)))
    {tol : K} (htol : 0 < tol)
    (hgap1 : ∀ i j, b1.kn i < b1.kn j → b1.kn i + 2 * ((b1.order - 1 : ℕ) : K) * tol ≤ b1.kn j)
    (hgap2 : ∀ i j, b2.kn i < b2.kn j → b2.kn i + 2 * ((b2.order - 1 : ℕ) : K) * tol ≤ b2.kn j)
    (bL : Basis K) (v : List K) (iL : Mat K) (secs : List (Tensor K)) (dist : List K) (m1 m2 nc : ℕ)
    (hm1 : m1 = b1.numFunctions) (hm2 : m2 = b2.numFunctions)
    (hn : 0 < secs.length) (hsecs : ∀ s ∈ secs, s.shape = [m1, m2, nc])
    (hlb : loftBasis tol secs.length dist = .ok (bL, v)) (hvl : v.length = secs.length)
    (hiL : invC (colloc bL tol v 0) = .ok iL) :
    ∃ cp, loft [b1, b2] tol secs dist = .ok (bL, cp) := by
  obtain ⟨g1, i1, hg1, hg1s, hi1, hi1S, hi1R⟩ := invC_greville_ok hv1 hper1 hp1 hc01 hc11 hmult1 htol hgap1
  obtain ⟨g2, i2, hg2, hg2s, hi2, hi2S, hi2R⟩ := invC_greville_ok hv2 hper2 hp2 hc02 hc12 hmult2 htol hgap2
  set N1 := colloc b1 tol g1.toList 0 with hN1
  set N2 := colloc b2 tol g2.toList 0 with hN2
  have hN1sh := colloc_shape b1 tol g1.toList 0 (by rw [Array.length_toList, hg1s])
  have hN2sh := colloc_shape b2 tol g2.toList 0 (by rw [Array.length_toList, hg2s])
  rw [← hN1, ← hm1] at hN1sh
  rw [← hN2, ← hm2] at hN2sh
  rw [← hm1] at hi1S hi1R
  rw [← hm2] at hi2S hi2R
  obtain ⟨hiLS, hiLR⟩ := invC_rows hiL
  rw [size_colloc, hvl] at hiLS hiLR
  -- interpolation points of the sections
  let g : Tensor K → Tensor K := fun s =>
    moveFront (Tensor.applyAxis N1 (moveFront (Tensor.applyAxis N2 s 1) 1) 1) 1
  have hpt : ∀ s ∈ secs, chain [N2, N1] s 2 = .ok (g s) ∧ (g s).shape = [m1, m2, nc] := by
    intro s hs
    have t1 := tensordot_ok N2 s 1 m2 (by rw [hsecs s hs]; simp) (by rw [hsecs s hs]; rfl)
      (fun r hr => hN2sh.2 r (by rw [← hN2sh.1]; exact hr))
    obtain ⟨r1sh, _, _⟩ := tensordot3 N2 s _ (hsecs s hs) t1
    have t2 := tensordot_ok N1 (moveFront (Tensor.applyAxis N2 s 1) 1) 1 m1 (by rw [r1sh]; simp) (by rw [r1sh]; rfl)
      (fun r hr => hN1sh.2 r (by rw [← hN1sh.1]; exact hr))
    obtain ⟨r2sh, _, _⟩ := tensordot3 N1 _ _ r1sh t2
    rw [hN1sh.1, hN2sh.1] at r2sh
    refine ⟨?_, r2sh⟩
    unfold chain
    simp only [List.foldlM, bind, Except.bind, pure, Except.pure, Nat.add_one_sub_one, t1, t2]
    rfl
  have hmap := mapM_eq_map (fun s => chain [N2, N1] s 2) g secs (fun s hs => (hpt s hs).1)
  set pts := secs.map g with hpts
  have hplen : pts.length = secs.length := by rw [hpts]; simp
  have hpsh : ∀ p ∈ pts, p.shape = [m1, m2, nc] := by
    intro p hp
    rw [hpts, List.mem_map] at hp
    obtain ⟨s, hs, rfl⟩ := hp
    exact (hpt s hs).2
  have hptsne : pts ≠ [] := by
    intro h0; rw [h0] at hplen; simp at hplen; omega
  obtain ⟨hxsh, _⟩ := stackAxis_entry3 pts m1 m2 nc hptsne hpsh
  rw [hplen] at hxsh
  set x := stackAxis pts 2 with hx
  have t1 := tensordot_ok iL x 2 secs.length (by rw [hxsh]; simp) (by rw [hxsh]; rfl)
    (fun r hr => hiLR r (by rw [← hiLS]; exact hr))
  obtain ⟨r1sh, _, _⟩ := tensordot4 iL x _ hxsh t1
  have t2 := tensordot_ok i2 (moveFront (Tensor.applyAxis iL x 2) 2) 2 m2 (by rw [r1sh]; simp) (by rw [r1sh]; rfl)
    (fun r hr => hi2R r (by rw [← hi2S]; exact hr))
  obtain ⟨r2sh, _, _⟩ := tensordot4 i2 _ _ r1sh t2
  have t3 := tensordot_ok i1 (moveFront (Tensor.applyAxis i2 (moveFront (Tensor.applyAxis iL x 2) 2) 2) 2) 2 m1
    (by rw [r2sh]; simp) (by rw [r2sh]; rfl) (fun r hr => hi1R r (by rw [← hi1S]; exact hr))
  obtain ⟨r3sh, _, _⟩ := tensordot4 i1 _ _ r2sh t3
  obtain ⟨r, hr, _⟩ := throughConstructor4 _ r3sh
  refine ⟨r, ?_⟩
  unfold loft chain
  simp only [bind, Except.bind, pure, Except.pure, hlb, List.mapM_cons, List.mapM_nil, hg1, hg2, Except.map,
    List.zip_cons_cons, List.zip_nil_right, List.map_cons, List.map_nil, List.reverse_cons, List.reverse_nil,
    List.nil_append, List.cons_append, ← hN1, ← hN2, hiL, hi1, hi2, List.length_cons, List.length_nil]
  unfold chain at hmap
  simp only [Nat.zero_add, Nat.reduceAdd, Nat.add_one_sub_one, Nat.sub_self] at hmap ⊢
  rw [hmap]
  simp only [List.foldlM, bind, Except.bind, pure, Except.pure, ← hx, t1, t2, t3, hr]

/-- The lofting basis for exactly three sections: quadratic Bézier on `[0,1]`. -/
def loftB3 : Basis K := { order := 3, knots := #[0, 0, 0, 1, 1, 1], periodic := -1 }

theorem loftB3_kn (i : ℕ) : (loftB3 (K := K)).kn i = if i < 3 then 0 else 1 := by
  unfold Basis.kn loftB3
  by_cases h : i < 6
  · interval_cases i <;> simp
  · have : ¬ i < 3 := by omega
    rw [if_neg this]
    simp [Array.getD, show ¬ i < 6 from h]

theorem loftB3_valid : (loftB3 (K := K)).Valid where
  order_pos := by unfold loftB3; simp
  size_ge := by unfold loftB3; simp
  sorted := by
    intro i _
    rw [loftB3_kn, loftB3_kn]
    split_ifs <;> first | exact le_refl _ | exact zero_le_one | omega
  periodic_ge := by unfold loftB3; simp
  periodic_le := by unfold loftB3; simp
  start_lt_stop := by
    unfold Basis.start Basis.stop
    rw [loftB3_kn, loftB3_kn]
    simp [loftB3]
  ghosts := fun h => absurd h (by unfold loftB3; simp)

/-- **Three sections**: the lofting basis is the quadratic Bézier basis, the parameters its Greville
points, and the model inverts the collocation matrix (needs `tol ≤ 1/4`). -/
theorem loftBasis_three_ok (tol : K) (htol : 0 < tol) (h4 : 4 * tol ≤ 1) (dist : List K) :
    ∃ v iL, loftBasis tol 3 dist = .ok (loftB3, v) ∧ v.length = 3 ∧
      invC (colloc loftB3 tol v 0) = .ok iL := by
  have hv := loftB3_valid (K := K)
  have hnf : (loftB3 (K := K)).numFunctions = 3 := by unfold loftB3 Basis.numFunctions; simp
  obtain ⟨g, iL, hg, hgs, hiL, _, _⟩ := invC_greville_ok hv rfl (by unfold loftB3; simp)
    (by rw [loftB3_kn, loftB3_kn]; simp [loftB3])
    (by rw [loftB3_kn, loftB3_kn, hnf]; simp [loftB3])
    (by
      intro i h1 h2
      rw [hnf] at h2
      rw [loftB3_kn, loftB3_kn]
      have : (loftB3 (K := K)).order - 1 = 2 := rfl
      rw [this, if_pos h2, if_neg (by omega)]
      exact zero_lt_one)
    htol
    (by
      intro i j hij
      rw [loftB3_kn, loftB3_kn] at hij ⊢
      have : ((((loftB3 (K := K)).order - 1 : ℕ)) : K) = 2 := by unfold loftB3; simp
      rw [this]
      split_ifs at hij ⊢ with h1 h2 h2
      · exact absurd hij (lt_irrefl _)
      · linarith
      · exact absurd hij (by norm_num)
      · exact absurd hij (lt_irrefl _))
  have hmk : Basis.mk? 3 #[0, 0, 0, 1, 1, 1] (-1) tol = .ok (loftB3 (K := K)) :=
    Basis.mk?_of_valid hv tol htol.le
  refine ⟨g.toList, iL, ?_, by rw [Array.length_toList, hgs, hnf], hiL⟩
  unfold loftBasis
  simp only [if_true, bind, Except.bind, pure, Except.pure, hmk, hg]

end Interp
end Splipy
