import Splipy.Spec.BSpline
import Mathlib.Tactic.Ring
import Mathlib.Tactic.FieldSimp
import Mathlib.Tactic.Linarith
import Mathlib.Tactic.LinearCombination
import Mathlib.Order.Monotone.Basic
import Mathlib.Algebra.BigOperators.Intervals
import Mathlib.Algebra.Order.Field.Basic

/-!
# Boehm's knot-insertion identity (L6)

`boehm` : for a monotone knot sequence `τ`, `x` inserted at position `μ`
(`τ (μ-1) ≤ x ≤ τ μ`), every old B-spline is the combination
`B τ q i = α_i · B σ q i + (1 - α_{i+1}) · B σ q (i+1)` of the new ones, with exactly the
coefficients of `BSplineBasis.insert_knot` (`boehmAlpha`).  Both one-sided versions.

Also: derivative version `boehm_dB`, spline-level corollaries `boehm_splineVal*`,
and the code-guard lemmas `boehm_guard_*`.
-/

namespace Splipy

set_option linter.unusedSectionVars false

variable {K : Type} [Field K] [LinearOrder K] [IsStrictOrderedRing K]

/-- knot sequence with `x` inserted at position `μ` -/
def insertSeq (τ : ℕ → K) (μ : ℕ) (x : K) : ℕ → K :=
  fun j => if j < μ then τ j else if j = μ then x else τ (j-1)

/-- Boehm coefficient for degree q (order q+1), function i -/
def boehmAlpha (τ : ℕ → K) (μ : ℕ) (x : K) (q i : ℕ) : K :=
  if i + q < μ then 1 else if μ ≤ i then 0 else (x - τ i) / (τ (i+q) - τ i)

/-! ### rewriting helpers -/

theorem bo_ins_lt {τ : ℕ → K} {μ : ℕ} {x : K} {j : ℕ} (h : j < μ) :
    insertSeq τ μ x j = τ j := by
  simp [insertSeq, h]

theorem bo_ins_self {τ : ℕ → K} {μ : ℕ} {x : K} : insertSeq τ μ x μ = x := by
  simp [insertSeq]

theorem bo_ins_gt {τ : ℕ → K} {μ : ℕ} {x : K} {j k : ℕ} (h : μ ≤ k) (hj : j = k + 1) :
    insertSeq τ μ x j = τ k := by
  subst hj
  have h1 : ¬ (k + 1 < μ) := by omega
  have h2 : ¬ (k + 1 = μ) := by omega
  simp [insertSeq, h1, h2]

theorem bo_alpha_one {τ : ℕ → K} {μ : ℕ} {x : K} {q i : ℕ} (h : i + q < μ) :
    boehmAlpha τ μ x q i = 1 := by
  simp [boehmAlpha, h]

theorem bo_alpha_zero {τ : ℕ → K} {μ : ℕ} {x : K} {q i : ℕ} (h : μ ≤ i) :
    boehmAlpha τ μ x q i = 0 := by
  have h1 : ¬ (i + q < μ) := by omega
  simp [boehmAlpha, h1, h]

theorem bo_alpha_mid {τ : ℕ → K} {μ : ℕ} {x : K} {q i k : ℕ} (h1 : i < μ) (h2 : μ ≤ i + q)
    (hk : k = i + q) : boehmAlpha τ μ x q i = (x - τ i) / (τ k - τ i) := by
  subst hk
  have h3 : ¬ (i + q < μ) := by omega
  have h4 : ¬ (μ ≤ i) := by omega
  simp [boehmAlpha, h3, h4]

theorem bo_B_succ (s : Side) (τ : ℕ → K) (q i : ℕ) (t : K) :
    B s τ (q+1) i t = (t - τ i) / (τ (i+q+1) - τ i) * B s τ q i t
      + (τ (i+q+2) - t) / (τ (i+q+2) - τ (i+1)) * B s τ q (i+1) t := by
  rw [B]

theorem bo_B_succ' (s : Side) (τ : ℕ → K) (q i : ℕ) (t : K) :
    B s τ (q+1) (i+1) t = (t - τ (i+1)) / (τ (i+q+2) - τ (i+1)) * B s τ q (i+1) t
      + (τ (i+q+3) - t) / (τ (i+q+3) - τ (i+2)) * B s τ q (i+2) t := by
  rw [bo_B_succ, show i + 1 + q + 1 = i + q + 2 by omega, show i + 1 + q + 2 = i + q + 3 by omega]

theorem bo_dB_zero (s : Side) (τ : ℕ → K) (q i : ℕ) (t : K) :
    dB s τ q i 0 t = B s τ q i t := by
  cases q <;> rw [dB]

theorem bo_dB_succ (s : Side) (τ : ℕ → K) (q i d : ℕ) (t : K) :
    dB s τ (q+1) i (d+1) t = ((q : K) + 1) * (dB s τ q i d t / (τ (i+q+1) - τ i)
      - dB s τ q (i+1) d t / (τ (i+q+2) - τ (i+1))) := by
  rw [dB]

theorem bo_dB_succ' (s : Side) (τ : ℕ → K) (q i d : ℕ) (t : K) :
    dB s τ (q+1) (i+1) (d+1) t = ((q : K) + 1) * (dB s τ q (i+1) d t / (τ (i+q+2) - τ (i+1))
      - dB s τ q (i+2) d t / (τ (i+q+3) - τ (i+2))) := by
  rw [bo_dB_succ, show i + 1 + q + 1 = i + q + 2 by omega, show i + 1 + q + 2 = i + q + 3 by omega]

/-! ### local support -/

/-- `t` lies outside the half-open span belonging to side `s`. -/
def bo_out (s : Side) (a b t : K) : Prop :=
  match s with
  | .right => t < a ∨ b ≤ t
  | .left => t ≤ a ∨ b < t

theorem bo_ind_zero {s : Side} {a b t : K} (h : bo_out s a b t) : ind s a b t = 0 := by
  cases s
  · simp only [bo_out] at h
    simp only [ind]
    rw [if_neg]
    rintro ⟨h1, h2⟩
    rcases h with h | h
    · exact absurd h1 (not_le.2 h)
    · exact absurd h2 (not_lt.2 h)
  · simp only [bo_out] at h
    simp only [ind]
    rw [if_neg]
    rintro ⟨h1, h2⟩
    rcases h with h | h
    · exact absurd h1 (not_lt.2 h)
    · exact absurd h2 (not_le.2 h)

theorem bo_out_mono {s : Side} {a a' b b' t : K} (ha : a ≤ a') (hb : b' ≤ b)
    (h : bo_out s a b t) : bo_out s a' b' t := by
  cases s
  · simp only [bo_out] at h ⊢
    rcases h with h | h
    · exact Or.inl (lt_of_lt_of_le h ha)
    · exact Or.inr (le_trans hb h)
  · simp only [bo_out] at h ⊢
    rcases h with h | h
    · exact Or.inl (le_trans h ha)
    · exact Or.inr (lt_of_le_of_lt hb h)

theorem bo_out_of_le {s : Side} {a b : K} (t : K) (h : b ≤ a) : bo_out s a b t := by
  cases s
  · simp only [bo_out]
    rcases lt_or_ge t a with h1 | h1
    · exact Or.inl h1
    · exact Or.inr (le_trans h h1)
  · simp only [bo_out]
    rcases le_or_gt t a with h1 | h1
    · exact Or.inl h1
    · exact Or.inr (lt_of_le_of_lt h h1)

/-- Local support, both sides at once (`bo_out` spells out the side convention). -/
theorem bo_support (s : Side) (τ : ℕ → K) (hτ : Monotone τ) (q i : ℕ) (t : K)
    (h : bo_out s (τ i) (τ (i+q+1)) t) : B s τ q i t = 0 := by
  induction q generalizing i with
  | zero => exact bo_ind_zero h
  | succ q ih =>
    rw [bo_B_succ,
      ih i (bo_out_mono le_rfl (hτ (by omega)) h),
      ih (i+1) (bo_out_mono (hτ (by omega)) (hτ (by omega)) h)]
    simp

theorem bo_support_right (τ : ℕ → K) (hτ : Monotone τ) (q i : ℕ) (t : K)
    (h : t < τ i ∨ τ (i+q+1) ≤ t) : B .right τ q i t = 0 :=
  bo_support .right τ hτ q i t h

theorem bo_support_left (τ : ℕ → K) (hτ : Monotone τ) (q i : ℕ) (t : K)
    (h : t ≤ τ i ∨ τ (i+q+1) < t) : B .left τ q i t = 0 :=
  bo_support .left τ hτ q i t h

/-- A B-spline with empty support is identically zero. -/
theorem bo_B_eq_zero (s : Side) (τ : ℕ → K) (hτ : Monotone τ) (q i : ℕ) (t : K)
    (h : τ (i+q+1) ≤ τ i) : B s τ q i t = 0 :=
  bo_support s τ hτ q i t (bo_out_of_le t h)

theorem bo_dB_eq_zero (s : Side) (τ : ℕ → K) (hτ : Monotone τ) (q i d : ℕ) (t : K)
    (h : τ (i+q+1) ≤ τ i) : dB s τ q i d t = 0 := by
  induction d generalizing q i with
  | zero => rw [bo_dB_zero]; exact bo_B_eq_zero s τ hτ q i t h
  | succ d ih =>
    cases q with
    | zero => rw [dB]
    | succ q =>
      rw [bo_dB_succ,
        ih q i (le_trans (hτ (by omega)) h),
        ih q (i+1) (le_trans (le_trans (hτ (by omega)) h) (hτ (by omega)))]
      simp

theorem bo_ind_add {s : Side} {a b c t : K} (hab : a ≤ b) (hbc : b ≤ c) :
    ind s a c t = ind s a b t + ind s b c t := by
  cases s <;> simp only [ind] <;> split_ifs <;> grind

/-! ### the extended knot sequence is monotone -/

theorem bo_insertSeq_mono (τ : ℕ → K) (hτ : Monotone τ) (μ : ℕ) (x : K)
    (hlo : ∀ j, j < μ → τ j ≤ x) (hhi : ∀ j, μ ≤ j → x ≤ τ j) :
    Monotone (insertSeq τ μ x) := by
  apply monotone_nat_of_le_succ
  intro n
  rcases lt_trichotomy (n+1) μ with h | h | h
  · rw [bo_ins_lt (show n < μ by omega), bo_ins_lt h]
    exact hτ (Nat.le_succ n)
  · subst h
    rw [bo_ins_lt (Nat.lt_succ_self n), bo_ins_self]
    exact hlo n (Nat.lt_succ_self n)
  · rcases Nat.eq_or_lt_of_le (show μ ≤ n by omega) with h1 | h1
    · subst h1
      rw [bo_ins_self, bo_ins_gt (le_refl μ) rfl]
      exact hhi μ (le_refl μ)
    · obtain ⟨k, rfl⟩ : ∃ k, n = k + 1 := ⟨n - 1, by omega⟩
      rw [bo_ins_gt (show μ ≤ k by omega) rfl, bo_ins_gt (show μ ≤ k + 1 by omega) rfl]
      exact hτ (Nat.le_succ k)

theorem bo_bounds (τ : ℕ → K) (hτ : Monotone τ) (μ : ℕ) (x : K)
    (hx : τ (μ-1) ≤ x ∧ x ≤ τ μ) :
    (∀ j, j < μ → τ j ≤ x) ∧ (∀ j, μ ≤ j → x ≤ τ j) :=
  ⟨fun _ hj => le_trans (hτ (by omega)) hx.1, fun _ hj => le_trans hx.2 (hτ hj)⟩

/-! ### the three coefficient identities of the induction step

They are stated for a general pair `(P, Q)`; `(t, 1)` gives the value recursion and `(1, 0)` the
derivative recursion.  `Z` stands for the new B-spline (or derivative) the coefficient multiplies;
it vanishes whenever its support is empty, which is exactly when a denominator may vanish. -/

section coef

variable (τ : ℕ → K) (hτ : Monotone τ) (μ : ℕ) (x : K)
  (hlo : ∀ j, j < μ → τ j ≤ x) (hhi : ∀ j, μ ≤ j → x ≤ τ j)

include hτ hlo hhi

theorem bo_coef0 (q i : ℕ) (P Q Z : K)
    (hZ : insertSeq τ μ x (i+q+1) ≤ insertSeq τ μ x i → Z = 0) :
    (P - τ i * Q) / (τ (i+q+1) - τ i) * boehmAlpha τ μ x q i * Z
    = boehmAlpha τ μ x (q+1) i
      * ((P - insertSeq τ μ x i * Q) / (insertSeq τ μ x (i+q+1) - insertSeq τ μ x i)) * Z := by
  by_cases hnd : insertSeq τ μ x i < insertSeq τ μ x (i+q+1)
  swap
  · rw [hZ (not_lt.1 hnd)]; simp
  congr 1
  rcases Nat.lt_or_ge i μ with hi | hi
  · have hs0 : insertSeq τ μ x i = τ i := bo_ins_lt hi
    rcases lt_trichotomy μ (i+q+1) with h | h | h
    · have hs1 : insertSeq τ μ x (i+q+1) = τ (i+q) := bo_ins_gt (by omega) rfl
      have ha : boehmAlpha τ μ x q i = (x - τ i) / (τ (i+q) - τ i) :=
        bo_alpha_mid hi (by omega) rfl
      have ha' : boehmAlpha τ μ x (q+1) i = (x - τ i) / (τ (i+q+1) - τ i) :=
        bo_alpha_mid hi (by omega) rfl
      rw [hs0, hs1, ha, ha']; ring
    · have hs1 : insertSeq τ μ x (i+q+1) = x := by rw [← h]; exact bo_ins_self
      have ha : boehmAlpha τ μ x q i = 1 := bo_alpha_one (by omega)
      have ha' : boehmAlpha τ μ x (q+1) i = (x - τ i) / (τ (i+q+1) - τ i) :=
        bo_alpha_mid hi (by omega) rfl
      rw [hs0, hs1] at hnd
      have hx1 : x ≤ τ (i+q+1) := hhi _ (by omega)
      have h1 : x - τ i ≠ 0 := ne_of_gt (sub_pos.2 hnd)
      have h2 : τ (i+q+1) - τ i ≠ 0 := ne_of_gt (sub_pos.2 (lt_of_lt_of_le hnd hx1))
      rw [hs0, hs1, ha, ha']; field_simp
    · have hs1 : insertSeq τ μ x (i+q+1) = τ (i+q+1) := bo_ins_lt h
      have ha : boehmAlpha τ μ x q i = 1 := bo_alpha_one (by omega)
      have ha' : boehmAlpha τ μ x (q+1) i = 1 := bo_alpha_one (by omega)
      rw [hs0, hs1, ha, ha']; ring
  · have ha : boehmAlpha τ μ x q i = 0 := bo_alpha_zero hi
    have ha' : boehmAlpha τ μ x (q+1) i = 0 := bo_alpha_zero hi
    rw [ha, ha']; ring

theorem bo_coef2 (q i : ℕ) (P Q Z : K)
    (hZ : insertSeq τ μ x (i+q+3) ≤ insertSeq τ μ x (i+2) → Z = 0) :
    (τ (i+q+2) * Q - P) / (τ (i+q+2) - τ (i+1)) * (1 - boehmAlpha τ μ x q (i+2)) * Z
    = (1 - boehmAlpha τ μ x (q+1) (i+1))
      * ((insertSeq τ μ x (i+q+3) * Q - P)
          / (insertSeq τ μ x (i+q+3) - insertSeq τ μ x (i+2))) * Z := by
  by_cases hnd : insertSeq τ μ x (i+2) < insertSeq τ μ x (i+q+3)
  swap
  · rw [hZ (not_lt.1 hnd)]; simp
  congr 1
  rcases Nat.lt_or_ge (i+q+2) μ with hi | hi
  · have ha : boehmAlpha τ μ x q (i+2) = 1 := bo_alpha_one (by omega)
    have ha' : boehmAlpha τ μ x (q+1) (i+1) = 1 := bo_alpha_one (by omega)
    rw [ha, ha']; ring
  · have hs1 : insertSeq τ μ x (i+q+3) = τ (i+q+2) := bo_ins_gt hi rfl
    rcases lt_trichotomy μ (i+2) with h | h | h
    · have hs0 : insertSeq τ μ x (i+2) = τ (i+1) := bo_ins_gt (by omega) rfl
      have ha : boehmAlpha τ μ x q (i+2) = 0 := bo_alpha_zero (by omega)
      have ha' : boehmAlpha τ μ x (q+1) (i+1) = 0 := bo_alpha_zero (by omega)
      rw [hs0, hs1, ha, ha']; ring
    · have hs0 : insertSeq τ μ x (i+2) = x := by rw [← h]; exact bo_ins_self
      have ha : boehmAlpha τ μ x q (i+2) = 0 := bo_alpha_zero (by omega)
      have ha' : boehmAlpha τ μ x (q+1) (i+1) = (x - τ (i+1)) / (τ (i+q+2) - τ (i+1)) :=
        bo_alpha_mid (by omega) (by omega) (by omega)
      rw [hs0, hs1] at hnd
      have hx1 : τ (i+1) ≤ x := hlo _ (by omega)
      have h1 : τ (i+q+2) - x ≠ 0 := ne_of_gt (sub_pos.2 hnd)
      have h2 : τ (i+q+2) - τ (i+1) ≠ 0 := ne_of_gt (sub_pos.2 (lt_of_le_of_lt hx1 hnd))
      rw [hs0, hs1, ha, ha']; field_simp; ring
    · have hs0 : insertSeq τ μ x (i+2) = τ (i+2) := bo_ins_lt h
      have ha : boehmAlpha τ μ x q (i+2) = (x - τ (i+2)) / (τ (i+q+2) - τ (i+2)) :=
        bo_alpha_mid h (by omega) (by omega)
      have ha' : boehmAlpha τ μ x (q+1) (i+1) = (x - τ (i+1)) / (τ (i+q+2) - τ (i+1)) :=
        bo_alpha_mid (by omega) (by omega) (by omega)
      rw [hs0, hs1] at hnd
      have hx1 : τ (i+1) ≤ τ (i+2) := hτ (by omega)
      have h1 : τ (i+q+2) - τ (i+2) ≠ 0 := ne_of_gt (sub_pos.2 hnd)
      have h2 : τ (i+q+2) - τ (i+1) ≠ 0 := ne_of_gt (sub_pos.2 (lt_of_le_of_lt hx1 hnd))
      rw [hs0, hs1, ha, ha']; field_simp; ring

theorem bo_coef1 (q i : ℕ) (P Q Z : K)
    (hZ : insertSeq τ μ x (i+q+2) ≤ insertSeq τ μ x (i+1) → Z = 0) :
    ((P - τ i * Q) / (τ (i+q+1) - τ i) * (1 - boehmAlpha τ μ x q (i+1))
      + (τ (i+q+2) * Q - P) / (τ (i+q+2) - τ (i+1)) * boehmAlpha τ μ x q (i+1)) * Z
    = (boehmAlpha τ μ x (q+1) i
        * ((insertSeq τ μ x (i+q+2) * Q - P)
            / (insertSeq τ μ x (i+q+2) - insertSeq τ μ x (i+1)))
      + (1 - boehmAlpha τ μ x (q+1) (i+1))
        * ((P - insertSeq τ μ x (i+1) * Q)
            / (insertSeq τ μ x (i+q+2) - insertSeq τ μ x (i+1)))) * Z := by
  by_cases hnd : insertSeq τ μ x (i+1) < insertSeq τ μ x (i+q+2)
  swap
  · rw [hZ (not_lt.1 hnd)]; simp
  congr 1
  rcases Nat.lt_or_ge i μ with hi | hi
  swap
  · -- μ ≤ i
    have hs0 : insertSeq τ μ x (i+1) = τ i := bo_ins_gt hi rfl
    have hs1 : insertSeq τ μ x (i+q+2) = τ (i+q+1) := bo_ins_gt (by omega) rfl
    have ha : boehmAlpha τ μ x q (i+1) = 0 := bo_alpha_zero (by omega)
    have ha' : boehmAlpha τ μ x (q+1) i = 0 := bo_alpha_zero hi
    have ha'' : boehmAlpha τ μ x (q+1) (i+1) = 0 := bo_alpha_zero (by omega)
    rw [hs0, hs1, ha, ha', ha'']; ring
  rcases Nat.lt_or_ge (i+q+2) μ with hj | hj
  · -- i+q+2 < μ
    have hs0 : insertSeq τ μ x (i+1) = τ (i+1) := bo_ins_lt (by omega)
    have hs1 : insertSeq τ μ x (i+q+2) = τ (i+q+2) := bo_ins_lt hj
    have ha : boehmAlpha τ μ x q (i+1) = 1 := bo_alpha_one (by omega)
    have ha' : boehmAlpha τ μ x (q+1) i = 1 := bo_alpha_one (by omega)
    have ha'' : boehmAlpha τ μ x (q+1) (i+1) = 1 := bo_alpha_one (by omega)
    rw [hs0, hs1, ha, ha', ha'']; ring
  rcases Nat.eq_or_lt_of_le hj with hj' | hj'
  · -- μ = i+q+2
    have hs0 : insertSeq τ μ x (i+1) = τ (i+1) := bo_ins_lt (by omega)
    have hs1 : insertSeq τ μ x (i+q+2) = x := by rw [← hj']; exact bo_ins_self
    have ha : boehmAlpha τ μ x q (i+1) = 1 := bo_alpha_one (by omega)
    have ha' : boehmAlpha τ μ x (q+1) i = 1 := bo_alpha_one (by omega)
    have ha'' : boehmAlpha τ μ x (q+1) (i+1) = (x - τ (i+1)) / (τ (i+q+2) - τ (i+1)) :=
      bo_alpha_mid (by omega) (by omega) (by omega)
    rw [hs0, hs1] at hnd
    have hx1 : x ≤ τ (i+q+2) := hhi _ (by omega)
    have h1 : x - τ (i+1) ≠ 0 := ne_of_gt (sub_pos.2 hnd)
    have h2 : τ (i+q+2) - τ (i+1) ≠ 0 := ne_of_gt (sub_pos.2 (lt_of_lt_of_le hnd hx1))
    rw [hs0, hs1, ha, ha', ha'', sub_self, mul_zero, zero_add]; field_simp; ring
  have hs1 : insertSeq τ μ x (i+q+2) = τ (i+q+1) := bo_ins_gt (by omega) rfl
  have ha' : boehmAlpha τ μ x (q+1) i = (x - τ i) / (τ (i+q+1) - τ i) :=
    bo_alpha_mid hi (by omega) rfl
  rcases Nat.eq_or_lt_of_le (show i + 1 ≤ μ by omega) with hk | hk
  · -- μ = i+1
    have hs0 : insertSeq τ μ x (i+1) = x := by rw [hk]; exact bo_ins_self
    have ha : boehmAlpha τ μ x q (i+1) = 0 := bo_alpha_zero (by omega)
    have ha'' : boehmAlpha τ μ x (q+1) (i+1) = 0 := bo_alpha_zero (by omega)
    rw [hs0, hs1] at hnd
    have hx1 : τ i ≤ x := hlo _ hi
    have h1 : τ (i+q+1) - x ≠ 0 := ne_of_gt (sub_pos.2 hnd)
    have h2 : τ (i+q+1) - τ i ≠ 0 := ne_of_gt (sub_pos.2 (lt_of_le_of_lt hx1 hnd))
    rw [hs0, hs1, ha, ha', ha'']; field_simp; ring
  · -- i+2 ≤ μ ≤ i+q+1
    have hs0 : insertSeq τ μ x (i+1) = τ (i+1) := bo_ins_lt hk
    have ha : boehmAlpha τ μ x q (i+1) = (x - τ (i+1)) / (τ (i+q+1) - τ (i+1)) :=
      bo_alpha_mid hk (by omega) (by omega)
    have ha'' : boehmAlpha τ μ x (q+1) (i+1) = (x - τ (i+1)) / (τ (i+q+2) - τ (i+1)) :=
      bo_alpha_mid hk (by omega) (by omega)
    rw [hs0, hs1] at hnd
    have hx1 : τ i ≤ τ (i+1) := hτ (by omega)
    have hx2 : τ (i+q+1) ≤ τ (i+q+2) := hτ (by omega)
    have h1 : τ (i+q+1) - τ (i+1) ≠ 0 := ne_of_gt (sub_pos.2 hnd)
    have h2 : τ (i+q+1) - τ i ≠ 0 := ne_of_gt (sub_pos.2 (lt_of_le_of_lt hx1 hnd))
    have h3 : τ (i+q+2) - τ (i+1) ≠ 0 := ne_of_gt (sub_pos.2 (lt_of_lt_of_le hnd hx2))
    rw [hs0, hs1, ha, ha', ha'']; field_simp; ring

end coef

/-! ### Boehm's identity -/

/-- Boehm's identity under the position hypothesis in "all indices" form (this covers `μ = 0`,
i.e. insertion in front of the whole sequence, as well). -/
theorem boehm_of_bounds (s : Side) (τ : ℕ → K) (hτ : Monotone τ) (μ : ℕ) (x : K)
    (hlo : ∀ j, j < μ → τ j ≤ x) (hhi : ∀ j, μ ≤ j → x ≤ τ j) (q i : ℕ) (t : K) :
    B s τ q i t = boehmAlpha τ μ x q i * B s (insertSeq τ μ x) q i t
                + (1 - boehmAlpha τ μ x q (i+1)) * B s (insertSeq τ μ x) q (i+1) t := by
  have hσ : Monotone (insertSeq τ μ x) := bo_insertSeq_mono τ hτ μ x hlo hhi
  induction q generalizing i with
  | zero =>
    have hB : ∀ (ρ : ℕ → K) (j : ℕ), B s ρ 0 j t = ind s (ρ j) (ρ (j+1)) t := fun ρ j => by rw [B]
    rw [hB, hB, hB]
    rcases lt_trichotomy μ (i+1) with h | h | h
    · rw [bo_alpha_zero (show μ ≤ i by omega), bo_alpha_zero (show μ ≤ i + 1 by omega),
        bo_ins_gt (show μ ≤ i by omega) rfl, bo_ins_gt (show μ ≤ i + 1 by omega) rfl]
      ring
    · have h1 : insertSeq τ μ x (i+1) = x := by rw [← h]; exact bo_ins_self
      rw [bo_alpha_one (show i + 0 < μ by omega), bo_alpha_zero (show μ ≤ i + 1 by omega),
        bo_ins_lt (show i < μ by omega), h1, bo_ins_gt (show μ ≤ i + 1 by omega) rfl,
        bo_ind_add (hlo i (by omega)) (hhi (i+1) (by omega))]
      ring
    · rw [bo_alpha_one (show i + 0 < μ by omega), bo_alpha_one (show i + 1 + 0 < μ by omega),
        bo_ins_lt (show i < μ by omega), bo_ins_lt h]
      ring
  | succ q ih =>
    have ih1 : B s τ q (i+1) t = boehmAlpha τ μ x q (i+1) * B s (insertSeq τ μ x) q (i+1) t
        + (1 - boehmAlpha τ μ x q (i+2)) * B s (insertSeq τ μ x) q (i+2) t := ih (i+1)
    rw [bo_B_succ s τ, bo_B_succ s (insertSeq τ μ x), bo_B_succ' s (insertSeq τ μ x), ih i, ih1]
    have c0 := bo_coef0 τ hτ μ x hlo hhi q i t 1 (B s (insertSeq τ μ x) q i t)
      (fun h => bo_B_eq_zero s _ hσ q i t h)
    have c1 := bo_coef1 τ hτ μ x hlo hhi q i t 1 (B s (insertSeq τ μ x) q (i+1) t)
      (fun h => bo_B_eq_zero s _ hσ q (i+1) t
        (by rw [show i + 1 + q + 1 = i + q + 2 by omega]; exact h))
    have c2 := bo_coef2 τ hτ μ x hlo hhi q i t 1 (B s (insertSeq τ μ x) q (i+2) t)
      (fun h => bo_B_eq_zero s _ hσ q (i+2) t
        (by rw [show i + 2 + q + 1 = i + q + 3 by omega]; exact h))
    linear_combination c0 + c1 + c2

set_option linter.unusedVariables false in
/-- **Boehm's knot insertion identity** (L6), both one-sided versions. -/
theorem boehm (s : Side) (τ : ℕ → K) (hτ : Monotone τ) (μ : ℕ) (x : K) (hμ : 1 ≤ μ)
    (hx : τ (μ-1) ≤ x ∧ x ≤ τ μ) (q i : ℕ) (t : K) :
    B s τ q i t = boehmAlpha τ μ x q i * B s (insertSeq τ μ x) q i t
                + (1 - boehmAlpha τ μ x q (i+1)) * B s (insertSeq τ μ x) q (i+1) t :=
  boehm_of_bounds s τ hτ μ x (bo_bounds τ hτ μ x hx).1 (bo_bounds τ hτ μ x hx).2 q i t

theorem boehm_dB_of_bounds (s : Side) (τ : ℕ → K) (hτ : Monotone τ) (μ : ℕ) (x : K)
    (hlo : ∀ j, j < μ → τ j ≤ x) (hhi : ∀ j, μ ≤ j → x ≤ τ j) (q i d : ℕ) (t : K) :
    dB s τ q i d t = boehmAlpha τ μ x q i * dB s (insertSeq τ μ x) q i d t
                + (1 - boehmAlpha τ μ x q (i+1)) * dB s (insertSeq τ μ x) q (i+1) d t := by
  have hσ : Monotone (insertSeq τ μ x) := bo_insertSeq_mono τ hτ μ x hlo hhi
  induction d generalizing q i with
  | zero =>
    rw [bo_dB_zero, bo_dB_zero, bo_dB_zero]
    exact boehm_of_bounds s τ hτ μ x hlo hhi q i t
  | succ d ih =>
    cases q with
    | zero =>
      have h0 : ∀ (ρ : ℕ → K) (j : ℕ), dB s ρ 0 j (d+1) t = 0 := fun ρ j => by rw [dB]
      rw [h0, h0, h0]; ring
    | succ q =>
      have ih1 : dB s τ q (i+1) d t
          = boehmAlpha τ μ x q (i+1) * dB s (insertSeq τ μ x) q (i+1) d t
          + (1 - boehmAlpha τ μ x q (i+2)) * dB s (insertSeq τ μ x) q (i+2) d t := ih q (i+1)
      rw [bo_dB_succ s τ, bo_dB_succ s (insertSeq τ μ x), bo_dB_succ' s (insertSeq τ μ x),
        ih q i, ih1]
      have c0 := bo_coef0 τ hτ μ x hlo hhi q i 1 0 (dB s (insertSeq τ μ x) q i d t)
        (fun h => bo_dB_eq_zero s _ hσ q i d t h)
      have c1 := bo_coef1 τ hτ μ x hlo hhi q i 1 0 (dB s (insertSeq τ μ x) q (i+1) d t)
        (fun h => bo_dB_eq_zero s _ hσ q (i+1) d t
          (by rw [show i + 1 + q + 1 = i + q + 2 by omega]; exact h))
      have c2 := bo_coef2 τ hτ μ x hlo hhi q i 1 0 (dB s (insertSeq τ μ x) q (i+2) d t)
        (fun h => bo_dB_eq_zero s _ hσ q (i+2) d t
          (by rw [show i + 2 + q + 1 = i + q + 3 by omega]; exact h))
      linear_combination ((q : K) + 1) * (c0 + c1 + c2)

set_option linter.unusedVariables false in
/-- Derivative version of Boehm's identity (all orders `d`, both sides). -/
theorem boehm_dB (s : Side) (τ : ℕ → K) (hτ : Monotone τ) (μ : ℕ) (x : K) (hμ : 1 ≤ μ)
    (hx : τ (μ-1) ≤ x ∧ x ≤ τ μ) (q i d : ℕ) (t : K) :
    dB s τ q i d t = boehmAlpha τ μ x q i * dB s (insertSeq τ μ x) q i d t
                + (1 - boehmAlpha τ μ x q (i+1)) * dB s (insertSeq τ μ x) q (i+1) d t :=
  boehm_dB_of_bounds s τ hτ μ x (bo_bounds τ hτ μ x hx).1 (bo_bounds τ hτ μ x hx).2 q i d t

/-! ### spline-level corollary -/

theorem bo_sum_shift (n : ℕ) (f g : ℕ → K) :
    (Finset.range n).sum (fun i => f i + g (i+1))
    = (Finset.range (n+1)).sum
        (fun r => (if r < n then f r else 0) + (if 0 < r then g r else 0)) := by
  rw [Finset.sum_add_distrib, Finset.sum_add_distrib]
  congr 1
  · rw [Finset.sum_range_succ, if_neg (lt_irrefl n), add_zero]
    apply Finset.sum_congr rfl
    intro r hr
    rw [if_pos (Finset.mem_range.1 hr)]
  · rw [Finset.sum_range_succ', if_neg (lt_irrefl 0), add_zero]
    apply Finset.sum_congr rfl
    intro r _
    rw [if_pos (Nat.succ_pos r)]

/-- New control points after knot insertion, conventions explicit: the term with `c r` is only
present for `r < n`, the term with `c (r-1)` only for `0 < r`. -/
def boehmCoefGen (τ : ℕ → K) (μ : ℕ) (x : K) (q n : ℕ) (c : ℕ → K) (r : ℕ) : K :=
  (if r < n then boehmAlpha τ μ x q r * c r else 0)
  + (if 0 < r then (1 - boehmAlpha τ μ x q r) * c (r-1) else 0)

/-- New control points, plain formula `α_r c_r + (1-α_r) c_{r-1}` (with `c (0-1) = c 0` by
natural subtraction and `c n` arbitrary; harmless when `q < μ ≤ n`). -/
def boehmCoef (τ : ℕ → K) (μ : ℕ) (x : K) (q : ℕ) (c : ℕ → K) (r : ℕ) : K :=
  boehmAlpha τ μ x q r * c r + (1 - boehmAlpha τ μ x q r) * c (r-1)

/-- Abstract re-indexing step: if `F i = α i · G i + (1 - α (i+1)) · G (i+1)` then
`Σ_{i<n} c i F i = Σ_{r<n+1} c' r G r`. -/
theorem bo_spline_gen (α F G : ℕ → K)
    (h : ∀ i, F i = α i * G i + (1 - α (i+1)) * G (i+1)) (n : ℕ) (c : ℕ → K) :
    (Finset.range n).sum (fun i => c i * F i)
    = (Finset.range (n+1)).sum (fun r =>
        ((if r < n then α r * c r else 0) + (if 0 < r then (1 - α r) * c (r-1) else 0)) * G r) := by
  let f : ℕ → K := fun r => α r * c r * G r
  let g : ℕ → K := fun r => (1 - α r) * c (r-1) * G r
  have h1 : ∀ i, c i * F i = f i + g (i+1) := by
    intro i
    rw [h i]
    simp only [f, g, Nat.add_sub_cancel]
    ring
  calc (Finset.range n).sum (fun i => c i * F i)
      = (Finset.range n).sum (fun i => f i + g (i+1)) :=
        Finset.sum_congr rfl (fun i _ => h1 i)
    _ = (Finset.range (n+1)).sum
          (fun r => (if r < n then f r else 0) + (if 0 < r then g r else 0)) :=
        bo_sum_shift n f g
    _ = _ := by
        apply Finset.sum_congr rfl
        intro r _
        simp only [f, g]
        split_ifs <;> ring

theorem bo_coef_eq (τ : ℕ → K) (μ : ℕ) (x : K) (q n : ℕ) (hq : q < μ) (hn : μ ≤ n)
    (c : ℕ → K) (r : ℕ) (hr : r < n + 1) :
    boehmCoefGen τ μ x q n c r = boehmCoef τ μ x q c r := by
  simp only [boehmCoefGen, boehmCoef]
  rcases Nat.eq_zero_or_pos r with h0 | h0
  · subst h0
    rw [if_pos (by omega), if_neg (lt_irrefl 0), bo_alpha_one (show 0 + q < μ by omega)]
    ring
  · rcases Nat.lt_or_ge r n with h1 | h1
    · rw [if_pos h1, if_pos h0]
    · rw [if_neg (by omega), if_pos h0, bo_alpha_zero (show μ ≤ r by omega)]
      ring

/-- Knot insertion does not change the spline: general form, no condition on `n`. -/
theorem boehm_splineVal_gen (s : Side) (τ : ℕ → K) (hτ : Monotone τ) (μ : ℕ) (x : K)
    (hμ : 1 ≤ μ) (hx : τ (μ-1) ≤ x ∧ x ≤ τ μ) (q n : ℕ) (c : ℕ → K) (t : K) :
    splineVal s τ q n c t
    = splineVal s (insertSeq τ μ x) q (n+1) (boehmCoefGen τ μ x q n c) t :=
  bo_spline_gen (boehmAlpha τ μ x q) (fun i => B s τ q i t)
    (fun i => B s (insertSeq τ μ x) q i t) (fun i => boehm s τ hτ μ x hμ hx q i t) n c

/-- Knot insertion does not change the spline: `n` old functions, insertion position
`q < μ ≤ n` (in the code `μ ∈ [p, n]`, `p = q+1`), new control points `boehmCoef`. -/
theorem boehm_splineVal (s : Side) (τ : ℕ → K) (hτ : Monotone τ) (μ : ℕ) (x : K)
    (hx : τ (μ-1) ≤ x ∧ x ≤ τ μ) (q n : ℕ) (hq : q < μ) (hn : μ ≤ n) (c : ℕ → K) (t : K) :
    splineVal s τ q n c t
    = splineVal s (insertSeq τ μ x) q (n+1) (boehmCoef τ μ x q c) t := by
  rw [boehm_splineVal_gen s τ hτ μ x (by omega) hx q n c t]
  unfold splineVal
  apply Finset.sum_congr rfl
  intro r hr
  rw [bo_coef_eq τ μ x q n hq hn c r (Finset.mem_range.1 hr)]

/-- Same for all derivatives of the spline. -/
theorem boehm_splineDeriv_gen (s : Side) (τ : ℕ → K) (hτ : Monotone τ) (μ : ℕ) (x : K)
    (hμ : 1 ≤ μ) (hx : τ (μ-1) ≤ x ∧ x ≤ τ μ) (q n : ℕ) (c : ℕ → K) (d : ℕ) (t : K) :
    splineDeriv s τ q n c d t
    = splineDeriv s (insertSeq τ μ x) q (n+1) (boehmCoefGen τ μ x q n c) d t :=
  bo_spline_gen (boehmAlpha τ μ x q) (fun i => dB s τ q i d t)
    (fun i => dB s (insertSeq τ μ x) q i d t) (fun i => boehm_dB s τ hτ μ x hμ hx q i d t) n c

theorem boehm_splineDeriv (s : Side) (τ : ℕ → K) (hτ : Monotone τ) (μ : ℕ) (x : K)
    (hx : τ (μ-1) ≤ x ∧ x ≤ τ μ) (q n : ℕ) (hq : q < μ) (hn : μ ≤ n) (c : ℕ → K)
    (d : ℕ) (t : K) :
    splineDeriv s τ q n c d t
    = splineDeriv s (insertSeq τ μ x) q (n+1) (boehmCoef τ μ x q c) d t := by
  rw [boehm_splineDeriv_gen s τ hτ μ x (by omega) hx q n c d t]
  unfold splineDeriv
  apply Finset.sum_congr rfl
  intro r hr
  rw [bo_coef_eq τ μ x q n hq hn c r (Finset.mem_range.1 hr)]

/-! ### the guards used by `BSplineBasis.insert_knot` -/

/-- diagonal entry `C[i,i]` computed by `insert_knot` for `μ - p ≤ i < μ` (`p = q+1`) -/
def guardDiag (τ : ℕ → K) (x : K) (q i : ℕ) : K :=
  if τ (i+q) ≤ x ∧ x ≤ τ (i+q+1) then 1 else (x - τ i) / (τ (i+q) - τ i)

/-- sub-diagonal entry `C[i+1,i]` computed by `insert_knot` for `μ - p ≤ i < μ` -/
def guardSub (τ : ℕ → K) (x : K) (q i : ℕ) : K :=
  if τ i ≤ x ∧ x ≤ τ (i+1) then 1 else (τ (i+q+1) - x) / (τ (i+q+1) - τ (i+1))

set_option linter.unusedVariables false in
theorem boehm_guard_sub (τ : ℕ → K) (hτ : Monotone τ) (μ : ℕ) (x : K) (hμ : 1 ≤ μ)
    (hx : τ (μ-1) ≤ x ∧ x ≤ τ μ) (q i : ℕ) (hi1 : μ ≤ i + q + 1) (hi2 : i < μ) :
    guardSub τ x q i = 1 - boehmAlpha τ μ x q (i+1) := by
  obtain ⟨hlo, hhi⟩ := bo_bounds τ hτ μ x hx
  unfold guardSub
  rcases Nat.eq_or_lt_of_le (show i + 1 ≤ μ by omega) with h | h
  · rw [if_pos ⟨hlo i hi2, hhi (i+1) (by omega)⟩, bo_alpha_zero (by omega)]
    ring
  · have ha : boehmAlpha τ μ x q (i+1) = (x - τ (i+1)) / (τ (i+q+1) - τ (i+1)) :=
      bo_alpha_mid h (by omega) (by omega)
    rw [ha]
    have h1 : τ (i+1) ≤ x := hlo _ h
    have h2 : x ≤ τ (i+q+1) := hhi _ hi1
    by_cases hg : τ i ≤ x ∧ x ≤ τ (i+1)
    · rw [if_pos hg, le_antisymm hg.2 h1, sub_self, zero_div, sub_zero]
    · rw [if_neg hg]
      have h3 : τ (i+1) < x := lt_of_le_of_ne h1 (fun e => hg ⟨hlo i hi2, le_of_eq e.symm⟩)
      have h4 : τ (i+q+1) - τ (i+1) ≠ 0 := ne_of_gt (sub_pos.2 (lt_of_lt_of_le h3 h2))
      field_simp
      ring

theorem boehm_guard_diag_strict (τ : ℕ → K) (hτ : Monotone τ) (μ : ℕ) (x : K) (hμ : 1 ≤ μ)
    (hx : τ (μ-1) ≤ x ∧ x < τ μ) (q i : ℕ) (hi1 : μ ≤ i + q + 1) (hi2 : i < μ) :
    guardDiag τ x q i = boehmAlpha τ μ x q i := by
  unfold guardDiag
  rcases Nat.eq_or_lt_of_le hi1 with h | h
  · have e1 : τ (i+q) = τ (μ-1) := by congr 1; omega
    have e2 : τ (i+q+1) = τ μ := by rw [h]
    rw [if_pos ⟨by rw [e1]; exact hx.1, by rw [e2]; exact le_of_lt hx.2⟩,
      bo_alpha_one (by omega)]
  · have hg : ¬ (τ (i+q) ≤ x ∧ x ≤ τ (i+q+1)) := fun hg =>
      absurd (lt_of_lt_of_le hx.2 (hτ (show μ ≤ i + q by omega))) (not_lt.2 hg.1)
    rw [if_neg hg, bo_alpha_mid hi2 (by omega) rfl]

/-- Non-strict version: the guard and `boehmAlpha` may differ only when the multiplied new
B-spline has empty support. -/
theorem boehm_guard_diag (s : Side) (τ : ℕ → K) (hτ : Monotone τ) (μ : ℕ) (x : K) (hμ : 1 ≤ μ)
    (hx : τ (μ-1) ≤ x ∧ x ≤ τ μ) (q i : ℕ) (hi1 : μ ≤ i + q + 1) (hi2 : i < μ) (t : K) :
    guardDiag τ x q i * B s (insertSeq τ μ x) q i t
    = boehmAlpha τ μ x q i * B s (insertSeq τ μ x) q i t := by
  obtain ⟨hlo, hhi⟩ := bo_bounds τ hτ μ x hx
  have hσ : Monotone (insertSeq τ μ x) := bo_insertSeq_mono τ hτ μ x hlo hhi
  rcases lt_or_eq_of_le hx.2 with hlt | heq
  · rw [boehm_guard_diag_strict τ hτ μ x hμ ⟨hx.1, hlt⟩ q i hi1 hi2]
  unfold guardDiag
  rcases Nat.eq_or_lt_of_le hi1 with h | h
  · have e1 : τ (i+q) = τ (μ-1) := by congr 1; omega
    have e2 : τ (i+q+1) = τ μ := by rw [h]
    rw [if_pos ⟨by rw [e1]; exact hx.1, by rw [e2]; exact hx.2⟩, bo_alpha_one (by omega)]
  · rw [bo_alpha_mid hi2 (show μ ≤ i + q by omega) rfl]
    by_cases hg : τ (i+q) ≤ x ∧ x ≤ τ (i+q+1)
    · rw [if_pos hg]
      have e : τ (i+q) = x := le_antisymm hg.1 (hhi _ (by omega))
      rw [e]
      by_cases hxi : x - τ i = 0
      · have hz : B s (insertSeq τ μ x) q i t = 0 := by
          apply bo_B_eq_zero s _ hσ
          rw [bo_ins_lt hi2, bo_ins_gt (show μ ≤ i + q by omega) rfl, e]
          exact le_of_eq (sub_eq_zero.1 hxi)
        rw [hz, mul_zero, mul_zero]
      · rw [div_self hxi]
    · rw [if_neg hg]

/-- Boehm's identity with literally the matrix entries of `insert_knot`:
column `i` of `C` has `C[i,i] = 1` for `i < μ - p`; `C[i,i] = guardDiag`, `C[i+1,i] = guardSub`
for `μ - p ≤ i < μ`; `C[i+1,i] = 1` for `μ ≤ i`. -/
theorem boehm_code (s : Side) (τ : ℕ → K) (hτ : Monotone τ) (μ : ℕ) (x : K) (hμ : 1 ≤ μ)
    (hx : τ (μ-1) ≤ x ∧ x ≤ τ μ) (q i : ℕ) (t : K) :
    B s τ q i t =
      if i + q + 1 < μ then B s (insertSeq τ μ x) q i t
      else if i < μ then guardDiag τ x q i * B s (insertSeq τ μ x) q i t
                          + guardSub τ x q i * B s (insertSeq τ μ x) q (i+1) t
      else B s (insertSeq τ μ x) q (i+1) t := by
  rw [boehm s τ hτ μ x hμ hx q i t]
  split_ifs with h1 h2
  · rw [bo_alpha_one (show i + q < μ by omega), bo_alpha_one (show i + 1 + q < μ by omega)]
    ring
  · rw [boehm_guard_diag s τ hτ μ x hμ hx q i (by omega) h2 t,
      boehm_guard_sub τ hτ μ x hμ hx q i (by omega) h2]
  · rw [bo_alpha_zero (show μ ≤ i by omega), bo_alpha_zero (show μ ≤ i + 1 by omega)]
    ring

end Splipy
