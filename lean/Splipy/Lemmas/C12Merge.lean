import Splipy.Model.Identical
import Splipy.Lemmas.C05Knots

/-!
# C12 — the two mutual insertion passes of `make_splines_identical`

* `cont p m` — the value `continuity` returns at a knot of multiplicity `m` in a basis of order `p`
  (`none = np.inf` for `m = 0`, the knot is absent);
* `mergeCount_cont` — the arithmetic `min(c₂-c₁, p-1-c₁)` (with `inf`) is `max(m₁,m₂) - m₂`;
* `continuity_expand0` — `continuity` of a non-periodic basis whose knot vector is written over a
  COMMON list of separated distinct values `u` with multiplicities `m` that may be `0` (value absent
  from this basis): `continuity(u[i]) = cont p m[i]`;
* `mergeInserts_expand` — hence each pass, run over any list of positions of `u`, inserts
  `max(m₁,m₂) - mᵢ` copies of every visited value.
-/

namespace Splipy

set_option linter.unusedSectionVars false

variable {K : Type} [Field K] [LinearOrder K] [IsStrictOrderedRing K] [FloorRing K]

namespace C12

/-- `continuity` at a knot of multiplicity `m`: `p - 1 - m`, `inf` when absent. -/
def cont (p m : ℕ) : Option Int := if m = 0 then none else some ((p : Int) - 1 - (m : Int))

/-- **The insertion count of one pass** is `max(m_other, m_receiver) - m_receiver`, for all
    multiplicities (absent knots included). -/
theorem mergeCount_cont (p mo mr : ℕ) :
    Obj.mergeCount p (cont p mo) (cont p mr) = max mo mr - mr := by
  unfold cont Obj.mergeCount
  by_cases ho : mo = 0
  · subst ho; simp
  · rw [if_neg ho]
    by_cases hr : mr = 0
    · subst hr
      simp only [if_true, Nat.sub_zero]
      have : ((p : Int) - 1 - ((p : Int) - 1 - (mo : Int))) = (mo : Int) := by ring
      rw [this]; simp
    · rw [if_neg hr]
      simp only []
      by_cases hlt : mr < mo
      · have h1 : ((p : Int) - 1 - (mr : Int)) > ((p : Int) - 1 - (mo : Int)) := by omega
        rw [if_pos h1]
        have h2 : min (((p : Int) - 1 - (mr : Int)) - ((p : Int) - 1 - (mo : Int)))
            ((p : Int) - 1 - ((p : Int) - 1 - (mo : Int))) = ((mo - mr : ℕ) : Int) := by
          rw [min_def]; split_ifs <;> omega
        rw [h2, Int.toNat_natCast, max_eq_left (le_of_lt hlt)]
      · have h1 : ¬ ((p : Int) - 1 - (mr : Int)) > ((p : Int) - 1 - (mo : Int)) := by omega
        rw [if_neg h1, max_eq_right (not_lt.mp hlt)]; simp

/-- After the first pass the receiver has multiplicity `max(m₁,m₂)`; both passes together leave
    `max(m₁,m₂)` in both bases (arithmetic form of "multiset union"). -/
theorem merge_totals (mo mr : ℕ) : mr + (max mo mr - mr) = max mo mr ∧ mo + (max (max mo mr) mo - mo) = max mo mr := by
  constructor
  · have := le_max_right mo mr; omega
  · rw [max_eq_left (le_max_left mo mr)]
    have := le_max_left mo mr; omega

/-- The new multiplicity never exceeds `p - 1` when both old ones do not: the merged bases are
    still continuous. -/
theorem merge_le (p mo mr : ℕ) (ho : mo ≤ p - 1) (hr : mr ≤ p - 1) : max mo mr ≤ p - 1 := max_le ho hr

/-! ## `continuity` with absent knots -/

/-- `continuity` at a value `x` of the domain that is NOT a knot (every knot is more than `tol`
    away): `inf`. -/
theorem continuity_absent (B : Basis K) (tol : K) (htol : 0 < tol) (A C : List K) (x : K)
    (hk : B.knots = (A ++ C).toArray) (hs : (A ++ C).Pairwise (· ≤ ·))
    (hA : ∀ y ∈ A, y + tol < x) (hC : ∀ y ∈ C, x + tol < y)
    (hper : B.periodic = -1) (hin : B.start ≤ x ∧ x ≤ B.stop) :
    B.continuity tol x = .ok none := by
  have hhi : B.bisectL (x + tol) = A.length :=
    bisectL_split B A C (x + tol) hk hs (fun y hy => by have := hA y hy; linarith)
      (fun y hy => le_of_lt (hC y hy))
  have hlo : B.bisectL (x - tol) = A.length :=
    bisectL_split B A C (x - tol) hk hs (fun y hy => by have := hA y hy; linarith)
      (fun y hy => by have := hC y hy; linarith)
  unfold Basis.continuity
  have h1 : ¬ (B.periodic ≥ 0) := by rw [hper]; decide
  have h2 : ¬ (x < B.start - tol ∨ B.stop + tol < x) := by
    rintro (h | h)
    · exact absurd hin.1 (not_le.mpr (by linarith))
    · exact absurd hin.2 (not_le.mpr (by linarith))
  simp only [h1, h2, if_false, hhi, hlo, if_true]

/-- `continuity` at the `i`-th value of a common separated list `u`, multiplicity `m[i] ≥ 0`. -/
theorem continuity_expand0 (tol : K) (htol : 0 < tol) (B : Basis K) (u : List K) (m : List ℕ)
    (hlen : u.length = m.length) (hsep : Separated tol u)
    (hk : B.knots = (expand u m).toArray) (hper : B.periodic = -1)
    (i : ℕ) (hi : i < u.length) (hi' : i < m.length)
    (hin : B.start ≤ u[i] ∧ u[i] ≤ B.stop) :
    B.continuity tol u[i] = .ok (cont B.order m[i]) := by
  by_cases hmi : 1 ≤ m[i]
  · rw [continuity_expand tol htol B u m hlen hsep hk hper i hi hi' hmi hin]
    unfold cont
    rw [if_neg (by omega)]
    congr 2; ring
  · have hm0 : m[i] = 0 := by omega
    have hu : u = u.take i ++ u[i] :: u.drop (i+1) := by
      rw [← List.drop_eq_getElem_cons hi, List.take_append_drop]
    have hm : m = m.take i ++ m[i] :: m.drop (i+1) := by
      rw [← List.drop_eq_getElem_cons hi', List.take_append_drop]
    have hl1 : (u.take i).length = (m.take i).length := by simp [List.length_take]; omega
    have hE : expand u m = expand (u.take i) (m.take i) ++ expand (u.drop (i+1)) (m.drop (i+1)) := by
      conv_lhs => rw [hu, hm]
      rw [expand_append _ _ _ _ hl1, expand_cons, hm0]
      simp
    have hsep' : Separated tol (u.take i ++ u[i] :: u.drop (i+1)) := by rw [← hu]; exact hsep
    have hp := List.pairwise_append.mp hsep'
    unfold cont
    rw [if_pos hm0]
    refine continuity_absent B tol htol _ _ u[i] (by rw [hk, hE]) ?_ ?_ ?_ hper hin
    · rw [← hE]; exact expand_sorted tol (le_of_lt htol) _ _ hsep
    · intro y hy
      exact hp.2.2 y (mem_expand _ _ y hy) u[i] List.mem_cons_self
    · intro y hy
      exact List.rel_of_pairwise_cons hp.2.1 (mem_expand _ _ y hy)

/-! ## The passes -/

/-- `mergeInserts` when every `continuity` call returns a value. -/
theorem mergeInserts_ok (tol : K) (p : ℕ) (b1 b2 : Basis K) (into2 : Bool) (c1 c2 : K → Option Int) :
    ∀ ks : List K, (∀ k ∈ ks, b1.continuity tol k = .ok (c1 k) ∧ b2.continuity tol k = .ok (c2 k)) →
    Obj.mergeInserts tol p b1 b2 into2 ks = .ok (ks.flatMap (fun k =>
      List.replicate (if into2 then Obj.mergeCount p (c1 k) (c2 k) else Obj.mergeCount p (c2 k) (c1 k)) k)) := by
  intro ks
  induction ks with
  | nil => intro _; rfl
  | cons k ks ih =>
    intro h
    obtain ⟨h1, h2⟩ := h k (by simp)
    have := ih (fun k' hk' => h k' (by simp [hk']))
    simp only [Obj.mergeInserts, h1, h2, this, List.flatMap_cons]

/-- **One pass over positions of the common knot list.**  `b1`, `b2` non-periodic of the same order
    `p`, knot vectors `expand u m₁`, `expand u m₂` over the common separated list `u` (multiplicity
    `0` = absent), all of `u` inside both domains.  Visiting the positions `idx` (in any order, any
    subset), the pass into spline 2 (`into2 = true`) collects `max(m₁,m₂) - m₂` copies of each
    visited value, the pass into spline 1 `max(m₁,m₂) - m₁` copies. -/
theorem mergeInserts_expand (tol : K) (htol : 0 < tol) (p : ℕ) (b1 b2 : Basis K) (u : List K)
    (m1 m2 : List ℕ) (hl1 : u.length = m1.length) (hl2 : u.length = m2.length)
    (hsep : Separated tol u) (ho1 : b1.order = p) (ho2 : b2.order = p)
    (hk1 : b1.knots = (expand u m1).toArray) (hk2 : b2.knots = (expand u m2).toArray)
    (hper1 : b1.periodic = -1) (hper2 : b2.periodic = -1)
    (hin1 : ∀ x ∈ u, b1.start ≤ x ∧ x ≤ b1.stop) (hin2 : ∀ x ∈ u, b2.start ≤ x ∧ x ≤ b2.stop)
    (into2 : Bool) (idx : List ℕ) (hidx : ∀ i ∈ idx, i < u.length) :
    Obj.mergeInserts tol p b1 b2 into2 (idx.map (fun i => u.getD i 0)) =
      .ok (idx.flatMap (fun i => List.replicate
        (if into2 then max (m1.getD i 0) (m2.getD i 0) - m2.getD i 0
         else max (m2.getD i 0) (m1.getD i 0) - m1.getD i 0) (u.getD i 0))) := by
  -- continuity as a function of the VALUE: look the value up in `u`
  have hcont : ∀ i, i < u.length →
      b1.continuity tol (u.getD i 0) = .ok (cont p (m1.getD i 0)) ∧
      b2.continuity tol (u.getD i 0) = .ok (cont p (m2.getD i 0)) := by
    intro i hi
    have hi1 : i < m1.length := by omega
    have hi2 : i < m2.length := by omega
    have e : u.getD i 0 = u[i] := by simp [List.getD_eq_getElem?_getD, hi]
    have e1 : m1.getD i 0 = m1[i] := by simp [List.getD_eq_getElem?_getD, hi1]
    have e2 : m2.getD i 0 = m2[i] := by simp [List.getD_eq_getElem?_getD, hi2]
    rw [e, e1, e2, ← ho1]
    refine ⟨continuity_expand0 tol htol b1 u m1 hl1 hsep hk1 hper1 i hi hi1 (hin1 _ (List.getElem_mem hi)), ?_⟩
    rw [ho1, ← ho2]
    exact continuity_expand0 tol htol b2 u m2 hl2 hsep hk2 hper2 i hi hi2 (hin2 _ (List.getElem_mem hi))
  induction idx with
  | nil => rfl
  | cons i idx ih =>
    obtain ⟨h1, h2⟩ := hcont i (hidx i (by simp))
    have hrest := ih (fun j hj => hidx j (by simp [hj]))
    simp only [List.map_cons, Obj.mergeInserts, h1, h2, hrest, List.flatMap_cons]
    cases into2
    · simp only [Bool.false_eq_true, if_false, mergeCount_cont]
    · simp only [if_true, mergeCount_cont]

end C12

end Splipy
