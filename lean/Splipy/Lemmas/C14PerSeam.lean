import Splipy.Lemmas.C14Cubic
import Splipy.Lemmas.C14Periodic
import Splipy.Lemmas.C08SeamDeriv
import Splipy.Lemmas.C10Ctor
set_option linter.unusedSectionVars false

/-!
# C14: the basis of `cubic_curve(…, PERIODIC)` and the `C²` seam of the result
-/

namespace Splipy
open Finset
namespace Interp
variable {K : Type} [Field K] [LinearOrder K] [IsStrictOrderedRing K] [FloorRing K]

theorem pySet_nat (l : List K) (n : ℕ) (v : K) (h : n < l.length) : pySet l (n : Int) v = .ok (l.set n v) := by
  unfold pySet
  simp [pyIdx_nat _ _ h, bind, Except.bind, pure, Except.pure]

theorem pySet_neg (l : List K) (k : ℕ) (v : K) (hk : 0 < k) (h : k ≤ l.length) :
    pySet l (-(k : Int)) v = .ok (l.set (l.length - k) v) := by
  unfold pySet
  simp [pyIdx_neg _ _ hk h, bind, Except.bind, pure, Except.pure]

/-- The knot vector `cubic_curve` builds for `PERIODIC` from the closed parameter list `t₀ … t_N`. -/
def perKnots (ts : List K) : List K :=
  [ts.getD 0 0 + ts.getD (ts.length - 4) 0 - ts.getD (ts.length - 1) 0,
   ts.getD 0 0 + ts.getD (ts.length - 3) 0 - ts.getD (ts.length - 1) 0,
   ts.getD 0 0 + ts.getD (ts.length - 2) 0 - ts.getD (ts.length - 1) 0] ++ ts ++
  [ts.getD (ts.length - 1) 0 + ts.getD 1 0 - ts.getD 0 0,
   ts.getD (ts.length - 1) 0 + ts.getD 2 0 - ts.getD 0 0,
   ts.getD (ts.length - 1) 0 + ts.getD 3 0 - ts.getD 0 0]

/-- The basis `cubic_curve` builds for `PERIODIC`. -/
def perBasis (ts : List K) : Basis K := { order := 4, knots := (perKnots ts).toArray, periodic := 2 }

theorem cubicKnots_PERIODIC (ts : List K) (h4 : 4 ≤ ts.length) :
    cubicKnots bPERIODIC ts = .ok (perKnots ts) := by
  have e0 : pyGet ts 0 = .ok (ts.getD 0 0) := pyGet_nat ts 0 (by omega)
  have b1 : pyGet ts 1 = .ok (ts.getD 1 0) := pyGet_nat ts 1 (by omega)
  have b2 : pyGet ts 2 = .ok (ts.getD 2 0) := pyGet_nat ts 2 (by omega)
  have b3 : pyGet ts 3 = .ok (ts.getD 3 0) := pyGet_nat ts 3 (by omega)
  have e9 : pyGet ts (-1) = .ok (ts.getD (ts.length - 1) 0) := pyGet_neg ts 1 (by omega) (by omega)
  have a2 : pyGet ts (-2) = .ok (ts.getD (ts.length - 2) 0) := pyGet_neg ts 2 (by omega) (by omega)
  have a3 : pyGet ts (-3) = .ok (ts.getD (ts.length - 3) 0) := pyGet_neg ts 3 (by omega) (by omega)
  have a4 : pyGet ts (-4) = .ok (ts.getD (ts.length - 4) 0) := pyGet_neg ts 4 (by omega) (by omega)
  unfold cubicKnots
  simp only [e0, e9, a2, a3, a4, b1, b2, b3, bind, Except.bind, pure, Except.pure]
  rw [if_neg (by decide), if_neg (by decide), if_pos trivial]
  set t0 := ts.getD 0 0
  set tn := ts.getD (ts.length - 1) 0
  unfold pySetMany
  simp only [List.foldlM, bind, Except.bind, pure, Except.pure, List.replicate]
  have s0 : ∀ v : K, pySet ([t0, t0, t0] ++ ts ++ [tn, tn, tn]) 0 v = .ok (v :: t0 :: t0 :: (ts ++ [tn, tn, tn])) := by
    intro v
    have := pySet_nat ([t0, t0, t0] ++ ts ++ [tn, tn, tn]) 0 v (by simp)
    simpa using this
  have s1 : ∀ u v : K, pySet (u :: t0 :: t0 :: (ts ++ [tn, tn, tn])) 1 v = .ok (u :: v :: t0 :: (ts ++ [tn, tn, tn])) := by
    intro u v
    have := pySet_nat (u :: t0 :: t0 :: (ts ++ [tn, tn, tn])) 1 v (by simp)
    simpa using this
  have s2 : ∀ u u' v : K, pySet (u :: u' :: t0 :: (ts ++ [tn, tn, tn])) 2 v = .ok (u :: u' :: v :: (ts ++ [tn, tn, tn])) := by
    intro u u' v
    have := pySet_nat (u :: u' :: t0 :: (ts ++ [tn, tn, tn])) 2 v (by simp)
    simpa using this
  have s3 : ∀ p0 p1 p2 x y z v : K, pySet (p0 :: p1 :: p2 :: (ts ++ [x, y, z])) (-3) v
      = .ok (p0 :: p1 :: p2 :: (ts ++ [v, y, z])) := by
    intro p0 p1 p2 x y z v
    have := pySet_neg (p0 :: p1 :: p2 :: (ts ++ [x, y, z])) 3 v (by omega) (by simp)
    rw [show (-((3 : ℕ) : Int)) = -3 by rfl] at this
    rw [this]
    congr 1
    have : (p0 :: p1 :: p2 :: (ts ++ [x, y, z])).length - 3 = ts.length + 3 := by simp
    rw [this]
    simp [List.set_append_right]
  have s4 : ∀ p0 p1 p2 x y z v : K, pySet (p0 :: p1 :: p2 :: (ts ++ [x, y, z])) (-2) v
      = .ok (p0 :: p1 :: p2 :: (ts ++ [x, v, z])) := by
    intro p0 p1 p2 x y z v
    have := pySet_neg (p0 :: p1 :: p2 :: (ts ++ [x, y, z])) 2 v (by omega) (by simp)
    rw [show (-((2 : ℕ) : Int)) = -2 by rfl] at this
    rw [this]
    congr 1
    have : (p0 :: p1 :: p2 :: (ts ++ [x, y, z])).length - 2 = ts.length + 3 + 1 := by simp
    rw [this]
    simp [List.set_append_right]
  have s5 : ∀ p0 p1 p2 x y z v : K, pySet (p0 :: p1 :: p2 :: (ts ++ [x, y, z])) (-1) v
      = .ok (p0 :: p1 :: p2 :: (ts ++ [x, y, v])) := by
    intro p0 p1 p2 x y z v
    have := pySet_neg (p0 :: p1 :: p2 :: (ts ++ [x, y, z])) 1 v (by omega) (by simp)
    rw [show (-((1 : ℕ) : Int)) = -1 by rfl] at this
    rw [this]
    congr 1
    have : (p0 :: p1 :: p2 :: (ts ++ [x, y, z])).length - 1 = ts.length + 3 + 2 := by simp
    rw [this]
    simp [List.set_append_right]
  simp only [s0, s1, s2, s3, s4, s5]
  rfl

theorem perBasis_size (ts : List K) : (perBasis ts).knots.size = ts.length + 6 := by
  unfold perBasis perKnots; simp

theorem perKnots_length (ts : List K) : (perKnots ts).length = ts.length + 6 := by
  unfold perKnots; simp

theorem perBasis_kn_of_lt (ts : List K) (i : ℕ) (hi : i < ts.length + 6) :
    (perBasis ts).kn i = (perKnots ts).getD i 0 := by
  unfold Basis.kn perBasis
  simp only [List.size_toArray]
  rw [Array.getD_eq_getD_getElem?, List.getElem?_toArray, List.getD_eq_getElem?_getD,
    List.getElem?_eq_getElem (by rw [perKnots_length]; exact hi)]
  simp

theorem perBasis_kn_lo (ts : List K) (h4 : 4 ≤ ts.length) (r : ℕ) (hr : r < 3) :
    (perBasis ts).kn r = ts.getD 0 0 + ts.getD (ts.length - 4 + r) 0 - ts.getD (ts.length - 1) 0 := by
  rw [perBasis_kn_of_lt ts r (by omega)]
  unfold perKnots
  have e1 : ts.length - 4 + 1 = ts.length - 3 := by omega
  have e2 : ts.length - 4 + 2 = ts.length - 2 := by omega
  interval_cases r
  · simp
  · rw [e1]; simp
  · rw [e2]; simp

theorem perBasis_kn_mid (ts : List K) (k : ℕ) (hk : k < ts.length) :
    (perBasis ts).kn (k + 3) = ts.getD k 0 := by
  rw [perBasis_kn_of_lt ts (k + 3) (by omega)]
  unfold perKnots
  simp [List.getD_eq_getElem?_getD, List.getElem?_append_left, hk]

theorem perBasis_kn_hi (ts : List K) (r : ℕ) (hr : r < 3) :
    (perBasis ts).kn (ts.length + 3 + r) = ts.getD (ts.length - 1) 0 + ts.getD (r + 1) 0 - ts.getD 0 0 := by
  rw [perBasis_kn_of_lt ts _ (by omega)]
  unfold perKnots
  interval_cases r <;> simp [List.getD_eq_getElem?_getD, List.getElem?_append_right]

theorem perBasis_numFunctions (ts : List K) : (perBasis ts).numFunctions = ts.length - 1 := by
  unfold Basis.numFunctions
  rw [perBasis_size]
  unfold perBasis
  simp

section facts
variable (ts : List K) (tol : K) (h4 : 4 ≤ ts.length)
  (hgap : ∀ i j, i < j → j < ts.length → ts.getD i 0 + tol ≤ ts.getD j 0) (htol : 0 < tol)
include h4 hgap htol

theorem per_T_strict (i j : ℕ) (hij : i < j) (hj : j < ts.length) : ts.getD i 0 < ts.getD j 0 := by
  have := hgap i j hij hj; linarith

/-- Every index is in the left ghost block, the parameter block, or the right ghost block. -/
theorem per_idx_cases (i : ℕ) (hi : i < ts.length + 6) :
    i < 3 ∨ (∃ k, k < ts.length ∧ i = k + 3) ∨ (∃ r, r < 3 ∧ i = ts.length + 3 + r) := by
  by_cases h1 : i < 3
  · exact Or.inl h1
  · by_cases h2 : i < ts.length + 3
    · exact Or.inr (Or.inl ⟨i - 3, by omega, by omega⟩)
    · exact Or.inr (Or.inr ⟨i - (ts.length + 3), by omega, by omega⟩)

theorem perBasis_strict (i : ℕ) (hi : i + 1 < ts.length + 6) :
    (perBasis ts).kn i < (perBasis ts).kn (i + 1) := by
  have hs := per_T_strict ts tol h4 hgap htol
  rcases per_idx_cases ts tol h4 hgap htol i (by omega) with h | ⟨k, hk, rfl⟩ | ⟨r, hr, rfl⟩
  · by_cases h2 : i = 2
    · subst h2
      rw [perBasis_kn_lo ts h4 2 (by omega), perBasis_kn_mid ts 0 (by omega)]
      have := hs (ts.length - 4 + 2) (ts.length - 1) (by omega) (by omega)
      linarith
    · rw [perBasis_kn_lo ts h4 i h, perBasis_kn_lo ts h4 (i + 1) (by omega)]
      have := hs (ts.length - 4 + i) (ts.length - 4 + (i + 1)) (by omega) (by omega)
      linarith
  · by_cases h2 : k + 1 < ts.length
    · rw [perBasis_kn_mid ts k hk, show k + 3 + 1 = (k + 1) + 3 by omega, perBasis_kn_mid ts (k + 1) h2]
      exact hs k (k + 1) (by omega) h2
    · have hk' : k = ts.length - 1 := by omega
      rw [perBasis_kn_mid ts k hk, show k + 3 + 1 = ts.length + 3 + 0 by omega, perBasis_kn_hi ts 0 (by omega), hk']
      have := hs 0 (0 + 1) (by omega) (by omega)
      linarith
  · rw [perBasis_kn_hi ts r hr, show ts.length + 3 + r + 1 = ts.length + 3 + (r + 1) by omega,
      perBasis_kn_hi ts (r + 1) (by omega)]
    have := hs (r + 1) (r + 1 + 1) (by omega) (by omega)
    linarith

theorem perBasis_start : (perBasis ts).start = ts.getD 0 0 := by
  unfold Basis.start
  have : (perBasis ts).order - 1 = 0 + 3 := rfl
  rw [this, perBasis_kn_mid ts 0 (by omega)]

theorem perBasis_stop : (perBasis ts).stop = ts.getD (ts.length - 1) 0 := by
  unfold Basis.stop
  rw [perBasis_size]
  have : ts.length + 6 - (perBasis ts).order = (ts.length - 1) + 3 := by
    show ts.length + 6 - 4 = _
    omega
  rw [this, perBasis_kn_mid ts _ (by omega)]

theorem perBasis_valid : (perBasis ts).Valid where
  order_pos := by unfold perBasis; simp
  size_ge := by rw [perBasis_size]; unfold perBasis; simp; omega
  sorted := by
    intro i hi
    rw [perBasis_size] at hi
    exact (perBasis_strict ts tol h4 hgap htol i hi).le
  periodic_ge := by unfold perBasis; simp
  periodic_le := by left; unfold perBasis; simp
  start_lt_stop := by
    rw [perBasis_start ts tol h4 hgap htol, perBasis_stop ts tol h4 hgap htol]
    exact per_T_strict ts tol h4 hgap htol 0 (ts.length - 1) (by omega) (by omega)
  ghosts := by
    intro _ i hi
    rw [perBasis_numFunctions, perBasis_size] at hi
    rw [perBasis_numFunctions, perBasis_start ts tol h4 hgap htol, perBasis_stop ts tol h4 hgap htol]
    have hi7 : i < 7 := by omega
    by_cases h3 : i < 3
    · rw [show i + (ts.length - 1) = (ts.length - 4 + i) + 3 by omega, perBasis_kn_mid ts _ (by omega),
        perBasis_kn_lo ts h4 i h3]
      ring
    · by_cases h33 : i = 3
      · subst h33
        rw [show 3 + (ts.length - 1) = (ts.length - 1) + 3 by omega, perBasis_kn_mid ts _ (by omega),
          show (3 : ℕ) = 0 + 3 by rfl, perBasis_kn_mid ts 0 (by omega)]
        ring
      · obtain ⟨r, rfl⟩ : ∃ r, i = r + 1 + 3 := ⟨i - 4, by omega⟩
        rw [show r + 1 + 3 + (ts.length - 1) = ts.length + 3 + r by omega, perBasis_kn_hi ts r (by omega),
          perBasis_kn_mid ts (r + 1) (by omega)]
        ring

/-- Every data parameter is exact w.r.t. the knot tolerance. -/
theorem per_exact (l : ℕ) (hl : l < ts.length) : (perBasis ts).ExactAt tol (ts.getD l 0) := by
  intro i hi
  rw [perBasis_size] at hi
  have hT0 : ∀ k, k < ts.length → ts.getD 0 0 ≤ ts.getD k 0 := by
    intro k hk
    rcases Nat.eq_zero_or_pos k with h | h
    · rw [h]
    · exact (per_T_strict ts tol h4 hgap htol 0 k h hk).le
  have hTN : ∀ k, k < ts.length → ts.getD k 0 ≤ ts.getD (ts.length - 1) 0 := by
    intro k hk
    rcases Nat.lt_or_ge k (ts.length - 1) with h | h
    · exact (per_T_strict ts tol h4 hgap htol k _ h (by omega)).le
    · rw [show k = ts.length - 1 by omega]
  rcases per_idx_cases ts tol h4 hgap htol i hi with h | ⟨k, hk, rfl⟩ | ⟨r, hr, rfl⟩
  · right
    rw [perBasis_kn_lo ts h4 i h]
    have g1 := hgap (ts.length - 4 + i) (ts.length - 1) (by omega) (by omega)
    have g2 := hT0 l hl
    rw [abs_sub_comm, abs_of_nonneg (by linarith)]
    linarith
  · rw [perBasis_kn_mid ts k hk]
    rcases Nat.lt_trichotomy k l with h | h | h
    · right
      have := hgap _ _ h hl
      rw [abs_sub_comm, abs_of_nonneg (by linarith)]
      linarith
    · left; rw [h]
    · right
      have := hgap _ _ h hk
      rw [abs_of_nonneg (by linarith)]
      linarith
  · right
    rw [perBasis_kn_hi ts r hr]
    have g1 := hgap 0 (r + 1) (by omega) (by omega)
    have g2 := hTN l hl
    rw [abs_of_nonneg (by linarith)]
    linarith

theorem per_seamMult : (perBasis ts).SeamMultLe 1 := by
  intro j hj h1 h2
  rw [perBasis_size] at hj
  have := perBasis_strict ts tol h4 hgap htol j hj
  rw [h1, h2] at this
  exact lt_irrefl _ this

end facts

/-- A successful `cubic_curve(…, PERIODIC)` returns exactly `perBasis t`. -/
theorem cubicCurve_PERIODIC_basis (tol rt atl : K) (htol : 0 < tol) (x : Mat K) (ts : List K)
    (h4 : 4 ≤ ts.length) (hgap : ∀ i j, i < j → j < ts.length → ts.getD i 0 + tol ≤ ts.getD j 0)
    (tg : Option (Mat K)) (basis : Basis K) (cp : Mat K)
    (h : cubicCurve bPERIODIC tol rt atl x ts tg = .ok (basis, cp)) : basis = perBasis ts := by
  unfold cubicCurve at h
  simp only [bind, Except.bind, pure, Except.pure] at h
  split at h
  · exact absurd h (by simp)
  · rename_i sys hsys
    obtain ⟨b, N, rhs⟩ := sys
    simp only at h
    split at h
    · exact absurd h (by simp [throw, throwThe, MonadExceptOf.throw])
    · split at h
      · exact absurd h (by simp)
      · simp only [Except.ok.injEq, Prod.mk.injEq] at h
        obtain ⟨hb, _⟩ := h
        subst hb
        obtain ⟨_, knot, eN, eR, hknot, hmk, _⟩ := cubicSystem_ok bPERIODIC tol rt atl x ts tg b N rhs hsys
        rw [cubicKnots_PERIODIC ts h4] at hknot
        have hk : knot = perKnots ts := by cases hknot; rfl
        subst hk
        simp only [if_true] at hmk
        have := Basis.mk?_of_valid (perBasis_valid ts tol h4 hgap htol) tol htol.le
        have e : Basis.mk? 4 (perKnots ts).toArray 2 tol = .ok (perBasis ts) := this
        rw [e] at hmk
        cases hmk
        rfl

/-- **The result of `cubic_curve(…, PERIODIC)` is `C²` across the seam, in the model's own wrapped
evaluation**: for `d ≤ 2`, `derivative(stop, d)` (either side) and `derivative(start, d, above=False)`
return what `derivative(start, d, above=True)` returns. -/
theorem cubicCurve_PERIODIC_seam (tol rt atl : K) (htol : 0 < tol) (x : Mat K) (ts : List K)
    (h4 : 4 ≤ ts.length) (hgap : ∀ i j, i < j → j < ts.length → ts.getD i 0 + tol ≤ ts.getD j 0)
    (tg : Option (Mat K)) (basis : Basis K) (cp : Mat K)
    (h : cubicCurve bPERIODIC tol rt atl x ts tg = .ok (basis, cp)) (d : ℕ) (hd : d ≤ 2) (a tensor : Bool) :
    basis = perBasis ts ∧ basis.start = ts.getD 0 0 ∧ basis.stop = ts.getD (ts.length - 1) 0 ∧
    (curveOf basis cp).derivativeGeneric tol [[ts.getD (ts.length - 1) 0]] [d] [a] tensor
        = (curveOf basis cp).derivativeGeneric tol [[ts.getD 0 0]] [d] [true] tensor ∧
    (curveOf basis cp).derivativeGeneric tol [[ts.getD 0 0]] [d] [false] tensor
        = (curveOf basis cp).derivativeGeneric tol [[ts.getD 0 0]] [d] [true] tensor := by
  have hb := cubicCurve_PERIODIC_basis tol rt atl htol x ts h4 hgap tg basis cp h
  subst hb
  have hs0 := perBasis_start ts tol h4 hgap htol
  have hs1 := perBasis_stop ts tol h4 hgap htol
  have hv := perBasis_valid ts tol h4 hgap htol
  have hex0 : (perBasis ts).ExactAt tol (perBasis ts).start := by
    rw [hs0]; exact per_exact ts tol h4 hgap htol 0 (by omega)
  have hex1 : (perBasis ts).ExactAt tol (perBasis ts).stop := by
    rw [hs1]; exact per_exact ts tol h4 hgap htol _ (by omega)
  have := derivativeGeneric_seam (curveOf (perBasis ts) cp) (b := perBasis ts) rfl hv (by unfold perBasis; simp)
    (m := 1) (d := d) (per_seamMult ts tol h4 hgap htol) (by show d + 1 ≤ 4 - 1; omega) htol hex0 hex1 a tensor
  rw [hs0, hs1] at this
  exact ⟨rfl, hs0, hs1, this.1, this.2⟩

end Interp

section algebra2
variable {K : Type} [Field K] [LinearOrder K] [IsStrictOrderedRing K]

/-- A row-stochastic matrix in which EVERY COLUMN contains an entry `> 1/2` is injective
(Levy–Desplanques after a permutation of the columns). -/
theorem stochastic_coldom_injective_c14 (n : ℕ) (A : ℕ → ℕ → K)
    (hnn : ∀ i < n, ∀ j < n, 0 ≤ A i j) (hsum : ∀ i < n, ∑ j ∈ range n, A i j = 1)
    (hdom : ∀ k < n, ∃ i < n, 1 / 2 < A i k)
    (x : ℕ → K) (h : ∀ i < n, ∑ j ∈ range n, A i j * x j = 0) : ∀ j < n, x j = 0 := by
  rcases Nat.eq_zero_or_pos n with h0 | hpos
  · intro j hj; omega
  obtain ⟨k, hk, hmax⟩ := exists_max_image (range n) (fun j => |x j|) ⟨0, mem_range.mpr hpos⟩
  have hk' := mem_range.mp hk
  obtain ⟨i, hi', hd⟩ := hdom k hk'
  have hsplit : A i k * x k = - ∑ j ∈ (range n).erase k, A i j * x j := by
    have := h i hi'
    rw [← add_sum_erase _ _ hk] at this
    linarith
  have hsplit1 : ∑ j ∈ (range n).erase k, A i j = 1 - A i k := by
    have := hsum i hi'
    rw [← add_sum_erase _ _ hk] at this
    linarith
  have hbound : |∑ j ∈ (range n).erase k, A i j * x j| ≤ (1 - A i k) * |x k| := by
    calc |∑ j ∈ (range n).erase k, A i j * x j|
        ≤ ∑ j ∈ (range n).erase k, |A i j * x j| := abs_sum_le_sum_abs _ _
      _ ≤ ∑ j ∈ (range n).erase k, A i j * |x k| := by
          apply sum_le_sum
          intro j hj
          have hj' := mem_range.mp (mem_of_mem_erase hj)
          rw [abs_mul, abs_of_nonneg (hnn i hi' j hj')]
          exact mul_le_mul_of_nonneg_left (hmax j (mem_of_mem_erase hj)) (hnn i hi' j hj')
      _ = (1 - A i k) * |x k| := by rw [← sum_mul, hsplit1]
  have habs : A i k * |x k| ≤ (1 - A i k) * |x k| := by
    have : |A i k * x k| = A i k * |x k| := by rw [abs_mul, abs_of_nonneg (hnn i hi' k hk')]
    rw [← this, hsplit, abs_neg]
    exact hbound
  have hxk : |x k| = 0 := by
    have h0 : 0 ≤ |x k| := abs_nonneg _
    nlinarith
  intro j hj
  have := hmax j (mem_range.mpr hj)
  rw [hxk] at this
  exact abs_eq_zero.mp (le_antisymm this (abs_nonneg _))

end algebra2
end Splipy
