import Splipy.Lemmas.SolveSound
import Splipy.Lemmas.C14Interp
set_option linter.unusedSectionVars false

/-!
# C14: the certificate of `solveC` never fails

With `Mat.solve_sound` (Lemmas/SolveSound.lean) the exact check `A·X = B` that `Interp.solveC`
performs after `Mat.solve` always succeeds on well-shaped input, so `solveC = Mat.solve` and
`invC = Mat.inv`: every C14 theorem is a statement about the raw Gauss–Jordan model of
`np.linalg.solve`.
-/

namespace Splipy
open Finset

variable {K : Type} [Field K] [LinearOrder K]

/-- Two well-shaped `n × m` array matrices with equal entries are equal. -/
theorem Mat.ext_get_c14 (X Y : Mat K) (n m : ℕ)
    (hX : X.size = n ∧ ∀ i, i < n → (X.getD i #[]).size = m)
    (hY : Y.size = n ∧ ∀ i, i < n → (Y.getD i #[]).size = m)
    (h : ∀ i j, i < n → j < m → X.get i j = Y.get i j) : X = Y := by
  apply Array.ext (by rw [hX.1, hY.1])
  intro i h1 h2
  have hi : i < n := by rw [← hX.1]; exact h1
  have eX : X.getD i #[] = X[i] := by simp [Array.getD, h1]
  have eY : Y.getD i #[] = Y[i] := by simp [Array.getD, h2]
  have sX := hX.2 i hi
  have sY := hY.2 i hi
  rw [eX] at sX
  rw [eY] at sY
  apply Array.ext (by rw [sX, sY])
  intro j g1 g2
  have hj : j < m := by rw [← sX]; exact g1
  have := h i j hi hj
  unfold Mat.get at this
  rw [eX, eY] at this
  simpa [Array.getD, g1, g2] using this

namespace Interp

/-- **The certificate never fails**: on a square `n × n` system with an `n × m` right-hand side
the certified solve IS the raw Gauss–Jordan model. -/
theorem solveC_eq_solve (A B : Mat K) (n m : ℕ)
    (hA : A.size = n ∧ ∀ i, i < n → (A.getD i #[]).size = n)
    (hB : B.size = n ∧ ∀ i, i < n → (B.getD i #[]).size = m) :
    solveC A B = Mat.solve A B := by
  unfold solveC
  cases h : Mat.solve A B with
  | error e => rfl
  | ok X =>
    obtain ⟨s1, s2, s3⟩ := Mat.solve_sound A B X n m hA hB h
    have hcols : A.ncols = n := by
      unfold Mat.ncols
      by_cases hn : 0 < n
      · exact hA.2 0 hn
      · have : A.size = 0 := by omega
        simp [Array.getD, this]; omega
    have hmul : Mat.mul A X = B := by
      apply Mat.ext_get_c14 _ _ n m ⟨by rw [← hA.1]; exact Mat.nrows_mul_c14 A X, ?_⟩ hB
      · intro i j hi hj
        have hXc : X.ncols = m := s2 0 (by omega)
        rw [Mat.get_mul_c14 A X i j (by unfold Mat.nrows; omega) (by rw [hXc]; exact hj)]
        have : X.nrows = n := s1
        rw [this]
        exact s3 i j hi hj
      · intro i hi
        rw [Mat.row_size_mul_c14 A X i (by unfold Mat.nrows; omega)]
        exact s2 0 (by omega)
    simp only
    rw [if_pos ⟨by rw [s1, hcols], hmul⟩]

/-- `invC = Mat.inv` on a square matrix. -/
theorem invC_eq_inv (A : Mat K) (n : ℕ)
    (hA : A.size = n ∧ ∀ i, i < n → (A.getD i #[]).size = n) :
    invC A = Mat.inv A := by
  unfold invC Mat.inv
  have hs : isShape A A.size A.size = true := by
    rw [isShape_iff]
    exact ⟨rfl, fun i hi => by rw [hA.1] at hi ⊢; exact hA.2 i hi⟩
  rw [hs]
  simp only [Bool.not_true, Bool.false_eq_true, if_false]
  have : A.nrows = A.size := rfl
  rw [this, hA.1]
  exact solveC_eq_solve A (Mat.identity n) n n hA (Mat.identity_shape n)

/-- Completeness: a square system whose matrix has an (entrywise) left inverse is solved. -/
theorem solveC_complete (A B : Mat K) (n m : ℕ)
    (hA : A.size = n ∧ ∀ i, i < n → (A.getD i #[]).size = n)
    (hB : B.size = n ∧ ∀ i, i < n → (B.getD i #[]).size = m)
    (L : ℕ → ℕ → K)
    (hL : ∀ i j, i < n → j < n → ∑ l ∈ range n, L i l * A.get l j = if i = j then 1 else 0) :
    ∃ X, solveC A B = .ok X := by
  rw [solveC_eq_solve A B n m hA hB]
  exact Mat.solve_complete A B n m hA hB L hL

theorem invC_complete (A : Mat K) (n : ℕ)
    (hA : A.size = n ∧ ∀ i, i < n → (A.getD i #[]).size = n)
    (L : ℕ → ℕ → K)
    (hL : ∀ i j, i < n → j < n → ∑ l ∈ range n, L i l * A.get l j = if i = j then 1 else 0) :
    ∃ Ai, invC A = .ok Ai := by
  rw [invC_eq_inv A n hA]
  exact Mat.inv_complete A n hA L hL

/-- Dimensions of a certified solution: `X` has as many rows as `A` has columns and as many columns
as `B` (so statements quantified over `j < X.ncols` are not vacuous when `B` has columns). -/
theorem solveC_dims {A B X : Mat K} (h : solveC A B = .ok X) :
    X.size = A.ncols ∧ (0 < A.nrows → X.ncols = B.ncols) := by
  obtain ⟨h1, h2⟩ := solveC_ok h
  refine ⟨h1, fun hn => ?_⟩
  have := Mat.row_size_mul_c14 A X 0 hn
  rw [h2] at this
  exact this.symm

/-- Well-shapedness of a certified solution of a well-shaped system. -/
theorem solveC_shape {A B X : Mat K} (n m : ℕ)
    (hA : A.size = n ∧ ∀ i, i < n → (A.getD i #[]).size = n)
    (hB : B.size = n ∧ ∀ i, i < n → (B.getD i #[]).size = m)
    (h : solveC A B = .ok X) : X.size = n ∧ ∀ i, i < n → (X.getD i #[]).size = m := by
  rw [solveC_eq_solve A B n m hA hB] at h
  obtain ⟨s1, s2, _⟩ := Mat.solve_sound A B X n m hA hB h
  exact ⟨s1, s2⟩

section dims
variable [FloorRing K]

/-- A collocation matrix with as many points as basis functions is well shaped. -/
theorem colloc_shape (b : Basis K) (tol : K) (ts : List K) (d : ℕ) (hlen : ts.length = b.numFunctions) :
    (colloc b tol ts d).size = b.numFunctions ∧
      ∀ i, i < b.numFunctions → ((colloc b tol ts d).getD i #[]).size = b.numFunctions := by
  refine ⟨by rw [size_colloc, hlen], fun i hi => ?_⟩
  rw [row_colloc b tol ts d i (by omega), size_evaluate_c14]

/-- **Dimensions of the result of `interpolate`**: one row per basis function, as many columns as the
data; every row has the width of the data rows if these are uniform. -/
theorem interpolateCurve_dims (b : Basis K) (tol : K) (t : Option (List K)) (x c : Mat K)
    (h : interpolateCurve b tol t x = .ok c) :
    c.size = b.numFunctions ∧ c.ncols = x.ncols ∧
    ∀ m, (∀ i, i < x.size → (x.getD i #[]).size = m) → ∀ l, l < c.size → (c.getD l #[]).size = m := by
  unfold interpolateCurve at h
  simp only [bind, Except.bind] at h
  split at h
  · exact absurd h (by simp)
  · rename_i ts hts
    split at h
    · exact absurd h (by simp [throw, throwThe, MonadExceptOf.throw])
    · rename_i hc
      rw [size_colloc] at hc
      have h1 : ts.length = b.numFunctions := by omega
      have h2 : x.size = b.numFunctions := by omega
      have hshape := colloc_shape b tol ts 0 h1
      obtain ⟨d1, d2⟩ := solveC_dims h
      have hcs : c.size = b.numFunctions := by
        rw [d1]
        unfold Mat.ncols
        rcases Nat.eq_zero_or_pos b.numFunctions with h0 | hpos
        · have : (colloc b tol ts 0).size = 0 := by rw [hshape.1, h0]
          simp [Array.getD, this, h0]
        · exact hshape.2 0 hpos
      refine ⟨hcs, ?_, fun m hm => ?_⟩
      · rcases Nat.eq_zero_or_pos b.numFunctions with h0 | hpos
        · unfold Mat.ncols
          have e1 : c.size = 0 := by rw [hcs, h0]
          have e2 : x.size = 0 := by rw [h2, h0]
          simp [Array.getD, e1, e2]
        · exact d2 (by unfold Mat.nrows; rw [hshape.1]; exact hpos)
      · have := solveC_shape b.numFunctions m hshape ⟨h2, fun i hi => hm i (by omega)⟩ h
        intro l hl
        exact this.2 l (by omega)

/-- **Dimensions of the result of `least_square_fit`** (at least one sample point and one basis
function): one row per basis function, the columns of the data. -/
theorem leastSquareCurve_dims (b : Basis K) (tol : K) (ts : List K) (x c : Mat K) (hne : ts ≠ [])
    (hn : 0 < b.numFunctions) (h : leastSquareCurve b tol ts x = .ok c) :
    c.size = b.numFunctions ∧ c.ncols = x.ncols := by
  unfold leastSquareCurve at h
  simp only [bind, Except.bind] at h
  split at h
  · exact absurd h (by simp [throw, throwThe, MonadExceptOf.throw])
  · set N := colloc b tol ts 0 with hN
    have hpos : 0 < ts.length := List.length_pos_of_ne_nil hne
    have hcols : N.ncols = b.numFunctions := by
      unfold Mat.ncols
      rw [hN, row_colloc b tol ts 0 0 hpos, size_evaluate_c14]
    have hT : (Mat.transpose N).nrows = b.numFunctions := by rw [Mat.nrows_transpose_c14, hcols]
    obtain ⟨d1, d2⟩ := solveC_dims h
    have hG : (Mat.mul (Mat.transpose N) N).nrows = b.numFunctions := by rw [Mat.nrows_mul_c14, hT]
    constructor
    · rw [d1]
      unfold Mat.ncols
      rw [Mat.row_size_mul_c14 (Mat.transpose N) N 0 (by rw [hT]; exact hn), hcols]
    · rw [d2 (by rw [hG]; exact hn)]
      unfold Mat.ncols
      rw [Mat.row_size_mul_c14 (Mat.transpose N) x 0 (by rw [hT]; exact hn)]
      rfl

end dims

end Interp
end Splipy
