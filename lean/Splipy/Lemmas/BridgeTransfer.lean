import Splipy.Lemmas.BridgeEval
import Splipy.Lemmas.C04Tensor

/-!
# Bridge (p11), part 2: transfer of a one-directional identity to `Obj.evaluate`

`SameAlong o o' dir n n' w w'`: on every fibre of the control nets along `dir` the weighted sums
`Σ_j w' j · fibre' j` and `Σ_j w j · fibre j` agree.  Knot insertion, `reverse`, `reparam` give this
with `w`, `w'` the specification rows at corresponding parameters (`Lemmas/BridgeOps.lean`).

`transfer_curve`, `transfer_surface_u/_v`, `transfer_volume_u/_v/_w`: `SameAlong` at every
parameter of the changed direction ⇒ the two `evaluate` calls return the same value.
-/

namespace Splipy
namespace Bridge

set_option linter.unusedSectionVars false

open Finset C04

variable {K : Type} [Field K] [LinearOrder K] [IsStrictOrderedRing K] [FloorRing K]

/-- Equality of the weighted fibre sums along direction `dir`. -/
def SameAlong (o o' : Obj K) (dir n n' : ℕ) (w w' : ℕ → K) : Prop :=
  ∀ a i, a < outerN o dir → i < innerN o dir →
    ∑ j ∈ range n', w' j * fibre o' dir a i j = ∑ j ∈ range n, w j * fibre o dir a i j

omit [IsStrictOrderedRing K] [FloorRing K] in
theorem tensor_eq {t t' : Tensor K} (hs : t'.shape = t.shape) (hd : t'.data = t.data) : t' = t := by
  cases t; cases t'; simp_all

theorem inner_lt {i I c nc : ℕ} (hi : i < I) (hc : c < nc) : i * nc + c < I * nc := by
  have h : (i + 1) * nc ≤ I * nc := Nat.mul_le_mul_right nc hi
  rw [Nat.add_mul, Nat.one_mul] at h
  omega

/-- `SameAlong` in raw flat indices, for control nets whose shape splits at `dir` as
`(A, n, I·nc)` resp. `(A, n', I·nc)`. -/
theorem SameAlong.raw {o o' : Obj K} {dir A n n' I nc : ℕ} {w w' : ℕ → K}
    (h : SameAlong o o' dir n n' w w')
    (hsp : Tensor.split3 o.cps.shape dir = (A, n, I * nc))
    (hsp' : Tensor.split3 o'.cps.shape dir = (A, n', I * nc))
    {a i c : ℕ} (ha : a < A) (hi : i < I) (hc : c < nc) :
    ∑ j ∈ range n', w' j * o'.cps.get (((a * n' + j) * I + i) * nc + c)
      = ∑ j ∈ range n, w j * o.cps.get (((a * n + j) * I + i) * nc + c) := by
  have h1 := h a (i * nc + c) (by unfold outerN; rw [hsp]; exact ha)
    (by unfold innerN; rw [hsp]; exact inner_lt hi hc)
  unfold fibre Tensor.at3 at h1
  rw [hsp, hsp'] at h1
  simp only [] at h1
  have e : ∀ (m j : ℕ), (a * m + j) * (I * nc) + (i * nc + c) = ((a * m + j) * I + i) * nc + c := by
    intro m j; ring
  simp only [e] at h1
  exact h1

/-- Core: `IsEval` for both objects, weights of `W3` form differing in the middle factor only,
fibre identity ⇒ same data. -/
theorem core_transfer {o o' : Obj K} {N N' M : ℕ} {W W' : ℕ → ℕ → K} {res res' : Tensor K}
    (h : IsEval o N M W res) (h' : IsEval o' N' M W' res')
    (hrat : o'.rational = o.rational) (hnc : o'.ncomp = o.ncomp)
    (A n n' I : ℕ) (hN : N = A * n * I) (hN' : N' = A * n' * I) (wa wm wm' wi : ℕ → ℕ → K)
    (hW : ∀ p, p < M → ∀ k, k < N → W p k = W3 n I (wa p) (wm p) (wi p) k)
    (hW' : ∀ p, p < M → ∀ k, k < N' → W' p k = W3 n' I (wa p) (wm' p) (wi p) k)
    (hfib : ∀ p, p < M → ∀ a i c, a < A → i < I → c < o.ncomp →
      ∑ j ∈ range n', wm' p j * o'.cps.get (((a * n' + j) * I + i) * o.ncomp + c)
        = ∑ j ∈ range n, wm p j * o.cps.get (((a * n + j) * I + i) * o.ncomp + c)) :
    res'.data = res.data := by
  apply IsEval.data_eq h h' hrat hnc
  intro p c hp hc
  rw [num_congr _ _ _ _ _ _ (hW' p hp), num_congr _ _ _ _ _ _ (hW p hp), hN, hN']
  exact dir_transfer _ _ A n n' I _ _ _ _ _ c (fun a i ha hi => hfib p hp a i c ha hi hc)

/-! ### The six cases -/

/-- Curves. -/
theorem transfer_curve {o o' : Obj K} {b1 b1' : Basis K} (hb : o.bases = #[b1])
    (hb' : o'.bases = #[b1']) (hv1 : b1.Valid) (hv1' : b1'.Valid) {nc : ℕ}
    (hs : o.cps.shape = [b1.numFunctions, nc]) (hs' : o'.cps.shape = [b1'.numFunctions, nc])
    (hrat : o'.rational = o.rational) (hnc : o.rational = true → 1 ≤ nc)
    {tol : K} (htol : 0 < tol) {us us' : List K} (hlen : us'.length = us.length)
    (hus : ∀ u ∈ us, b1.Admissible tol u) (hus' : ∀ u ∈ us', b1'.Admissible tol u)
    (hsame : ∀ p, p < us.length → SameAlong o o' 0 b1.numFunctions b1'.numFunctions
      (b1.specRow (us.getD p 0)) (b1'.specRow (us'.getD p 0)))
    (hne_b1 : b1.periodic < 0 → us ≠ [] := by (first | assumption | (simp; done) | skip))
    (hne_b1p : b1'.periodic < 0 → us' ≠ [] := by (first | assumption | (simp; done) | skip)) :
    o'.evaluate tol [us'] true = o.evaluate tol [us] true ∧
      ∃ res, o.evaluate tol [us] true = .ok res ∧ res.shape = [us.length, o.dimension] := by
  obtain ⟨res, e1, e2, e3⟩ := eval_curve hb hv1 hs hnc htol hus
  obtain ⟨res', e1', e2', e3'⟩ := eval_curve hb' hv1' hs' (by rw [hrat]; exact hnc) htol hus'
  have hncomp := (Obj.dimension_of_shape (o := o) (pre := [b1.numFunctions]) hs).1
  have hncomp' := (Obj.dimension_of_shape (o := o') (pre := [b1'.numFunctions]) hs').1
  have hdim : o'.dimension = o.dimension := by unfold Obj.dimension; rw [hrat, hncomp, hncomp']
  rw [hlen] at e3' e2'
  have hd := core_transfer e3 e3' hrat (by rw [hncomp, hncomp']) 1 b1.numFunctions
    b1'.numFunctions 1 (by simp) (by simp) (fun _ _ => 1) (fun p => b1.specRow (us.getD p 0))
    (fun p => b1'.specRow (us'.getD p 0)) (fun _ _ => 1)
    (fun p _ k hk => curve_W3 _ _ k hk) (fun p _ k hk => curve_W3 _ _ k hk)
    (fun p hp a i c ha hi hc => by
      rw [hncomp] at hc ⊢
      exact (hsame p hp).raw (A := 1) (I := 1) (by rw [hs]; simp [Tensor.split3, Tensor.prod])
        (by rw [hs']; simp [Tensor.split3, Tensor.prod]) ha hi hc)
  refine ⟨?_, res, e1, e2⟩
  rw [e1, e1', tensor_eq (by rw [e2, e2', hdim]) hd]

/-- Surfaces, first direction. -/
theorem transfer_surface_u {o o' : Obj K} {b1 b1' b2 : Basis K} (hb : o.bases = #[b1, b2])
    (hb' : o'.bases = #[b1', b2]) (hv1 : b1.Valid) (hv1' : b1'.Valid) (hv2 : b2.Valid) {nc : ℕ}
    (hs : o.cps.shape = [b1.numFunctions, b2.numFunctions, nc])
    (hs' : o'.cps.shape = [b1'.numFunctions, b2.numFunctions, nc])
    (hrat : o'.rational = o.rational) (hnc : o.rational = true → 1 ≤ nc)
    {tol : K} (htol : 0 < tol) {us us' vs : List K} (hlen : us'.length = us.length)
    (hus : ∀ u ∈ us, b1.Admissible tol u) (hus' : ∀ u ∈ us', b1'.Admissible tol u)
    (hvs : ∀ v ∈ vs, b2.Admissible tol v)
    (hsame : ∀ p, p < us.length → SameAlong o o' 0 b1.numFunctions b1'.numFunctions
      (b1.specRow (us.getD p 0)) (b1'.specRow (us'.getD p 0)))
    (hne_b1 : b1.periodic < 0 → us ≠ [] := by (first | assumption | (simp; done) | skip))
    (hne_b1p : b1'.periodic < 0 → us' ≠ [] := by (first | assumption | (simp; done) | skip))
    (hne_b2 : b2.periodic < 0 → vs ≠ [] := by (first | assumption | (simp; done) | skip)) :
    o'.evaluate tol [us', vs] true = o.evaluate tol [us, vs] true ∧
      ∃ res, o.evaluate tol [us, vs] true = .ok res ∧
        res.shape = [us.length, vs.length, o.dimension] := by
  obtain ⟨res, e1, e2, e3⟩ := eval_surface hb hv1 hv2 hs hnc htol hus hvs
  obtain ⟨res', e1', e2', e3'⟩ :=
    eval_surface hb' hv1' hv2 hs' (by rw [hrat]; exact hnc) htol hus' hvs
  have hncomp := (Obj.dimension_of_shape (o := o) (pre := [b1.numFunctions, b2.numFunctions]) hs).1
  have hncomp' :=
    (Obj.dimension_of_shape (o := o') (pre := [b1'.numFunctions, b2.numFunctions]) hs').1
  have hdim : o'.dimension = o.dimension := by unfold Obj.dimension; rw [hrat, hncomp, hncomp']
  rw [hlen] at e3' e2'
  have hp1 : ∀ p, p < us.length * vs.length → p / vs.length < us.length := fun p hp =>
    Nat.div_lt_of_lt_mul (by rw [Nat.mul_comm]; exact hp)
  have hd := core_transfer e3 e3' hrat (by rw [hncomp, hncomp']) 1 b1.numFunctions
    b1'.numFunctions b2.numFunctions (by simp) (by simp) (fun _ _ => 1)
    (fun p => b1.specRow (us.getD (p / vs.length) 0))
    (fun p => b1'.specRow (us'.getD (p / vs.length) 0))
    (fun p => b2.specRow (vs.getD (p % vs.length) 0))
    (fun p _ k hk => Ws_W3_u _ _ _ _ k hk) (fun p _ k hk => Ws_W3_u _ _ _ _ k hk)
    (fun p hp a i c ha hi hc => by
      rw [hncomp] at hc ⊢
      exact (hsame _ (hp1 p hp)).raw (A := 1) (I := b2.numFunctions)
        (by rw [hs]; simp [Tensor.split3, Tensor.prod])
        (by rw [hs']; simp [Tensor.split3, Tensor.prod]) ha hi hc)
  refine ⟨?_, res, e1, e2⟩
  rw [e1, e1', tensor_eq (by rw [e2, e2', hdim]) hd]

/-- Surfaces, second direction. -/
theorem transfer_surface_v {o o' : Obj K} {b1 b2 b2' : Basis K} (hb : o.bases = #[b1, b2])
    (hb' : o'.bases = #[b1, b2']) (hv1 : b1.Valid) (hv2 : b2.Valid) (hv2' : b2'.Valid) {nc : ℕ}
    (hs : o.cps.shape = [b1.numFunctions, b2.numFunctions, nc])
    (hs' : o'.cps.shape = [b1.numFunctions, b2'.numFunctions, nc])
    (hrat : o'.rational = o.rational) (hnc : o.rational = true → 1 ≤ nc)
    {tol : K} (htol : 0 < tol) {us vs vs' : List K} (hlen : vs'.length = vs.length)
    (hus : ∀ u ∈ us, b1.Admissible tol u)
    (hvs : ∀ v ∈ vs, b2.Admissible tol v) (hvs' : ∀ v ∈ vs', b2'.Admissible tol v)
    (hsame : ∀ p, p < vs.length → SameAlong o o' 1 b2.numFunctions b2'.numFunctions
      (b2.specRow (vs.getD p 0)) (b2'.specRow (vs'.getD p 0)))
    (hne_b1 : b1.periodic < 0 → us ≠ [] := by (first | assumption | (simp; done) | skip))
    (hne_b2 : b2.periodic < 0 → vs ≠ [] := by (first | assumption | (simp; done) | skip))
    (hne_b2p : b2'.periodic < 0 → vs' ≠ [] := by (first | assumption | (simp; done) | skip)) :
    o'.evaluate tol [us, vs'] true = o.evaluate tol [us, vs] true ∧
      ∃ res, o.evaluate tol [us, vs] true = .ok res ∧
        res.shape = [us.length, vs.length, o.dimension] := by
  obtain ⟨res, e1, e2, e3⟩ := eval_surface hb hv1 hv2 hs hnc htol hus hvs
  obtain ⟨res', e1', e2', e3'⟩ :=
    eval_surface hb' hv1 hv2' hs' (by rw [hrat]; exact hnc) htol hus hvs'
  have hncomp := (Obj.dimension_of_shape (o := o) (pre := [b1.numFunctions, b2.numFunctions]) hs).1
  have hncomp' :=
    (Obj.dimension_of_shape (o := o') (pre := [b1.numFunctions, b2'.numFunctions]) hs').1
  have hdim : o'.dimension = o.dimension := by unfold Obj.dimension; rw [hrat, hncomp, hncomp']
  rw [hlen] at e3' e2'
  have hp2 : ∀ p, p < us.length * vs.length → p % vs.length < vs.length := fun p hp =>
    Nat.mod_lt _ (by
      rcases Nat.eq_zero_or_pos vs.length with h0 | h0
      · rw [h0] at hp; omega
      · exact h0)
  have hd := core_transfer e3 e3' hrat (by rw [hncomp, hncomp']) b1.numFunctions b2.numFunctions
    b2'.numFunctions 1 (by simp) (by simp)
    (fun p => b1.specRow (us.getD (p / vs.length) 0))
    (fun p => b2.specRow (vs.getD (p % vs.length) 0))
    (fun p => b2'.specRow (vs'.getD (p % vs.length) 0)) (fun _ _ => 1)
    (fun p _ k _ => Ws_W3_v _ _ _ k) (fun p _ k _ => Ws_W3_v _ _ _ k)
    (fun p hp a i c ha hi hc => by
      rw [hncomp] at hc ⊢
      exact (hsame _ (hp2 p hp)).raw (A := b1.numFunctions) (I := 1)
        (by rw [hs]; simp [Tensor.split3, Tensor.prod])
        (by rw [hs']; simp [Tensor.split3, Tensor.prod]) ha hi hc)
  refine ⟨?_, res, e1, e2⟩
  rw [e1, e1', tensor_eq (by rw [e2, e2', hdim]) hd]

/-! Volumes: index bookkeeping for the point index `p = (i₁·l₂ + i₂)·l₃ + i₃`. -/

theorem vol_idx {l1 l2 l3 p : ℕ} (hp : p < l1 * l2 * l3) :
    p / l3 / l2 < l1 ∧ p / l3 % l2 < l2 ∧ p % l3 < l3 := by
  have hpos3 : 0 < l3 := by
    rcases Nat.eq_zero_or_pos l3 with h0 | h0
    · rw [h0] at hp; omega
    · exact h0
  have h12 : p / l3 < l1 * l2 := Nat.div_lt_of_lt_mul (by rw [Nat.mul_comm]; exact hp)
  have hpos2 : 0 < l2 := by
    rcases Nat.eq_zero_or_pos l2 with h0 | h0
    · rw [h0, Nat.mul_zero] at h12; exact absurd h12 (Nat.not_lt_zero _)
    · exact h0
  exact ⟨Nat.div_lt_of_lt_mul (by rw [Nat.mul_comm]; exact h12), Nat.mod_lt _ hpos2,
    Nat.mod_lt _ hpos3⟩

/-- Volumes, first direction. -/
theorem transfer_volume_u {o o' : Obj K} {b1 b1' b2 b3 : Basis K} (hb : o.bases = #[b1, b2, b3])
    (hb' : o'.bases = #[b1', b2, b3]) (hv1 : b1.Valid) (hv1' : b1'.Valid) (hv2 : b2.Valid)
    (hv3 : b3.Valid) {nc : ℕ}
    (hs : o.cps.shape = [b1.numFunctions, b2.numFunctions, b3.numFunctions, nc])
    (hs' : o'.cps.shape = [b1'.numFunctions, b2.numFunctions, b3.numFunctions, nc])
    (hrat : o'.rational = o.rational) (hnc : o.rational = true → 1 ≤ nc)
    {tol : K} (htol : 0 < tol) {us us' vs ws : List K} (hlen : us'.length = us.length)
    (hus : ∀ u ∈ us, b1.Admissible tol u) (hus' : ∀ u ∈ us', b1'.Admissible tol u)
    (hvs : ∀ v ∈ vs, b2.Admissible tol v) (hws : ∀ w ∈ ws, b3.Admissible tol w)
    (hsame : ∀ p, p < us.length → SameAlong o o' 0 b1.numFunctions b1'.numFunctions
      (b1.specRow (us.getD p 0)) (b1'.specRow (us'.getD p 0)))
    (hne_b1 : b1.periodic < 0 → us ≠ [] := by (first | assumption | (simp; done) | skip))
    (hne_b1p : b1'.periodic < 0 → us' ≠ [] := by (first | assumption | (simp; done) | skip))
    (hne_b2 : b2.periodic < 0 → vs ≠ [] := by (first | assumption | (simp; done) | skip))
    (hne_b3 : b3.periodic < 0 → ws ≠ [] := by (first | assumption | (simp; done) | skip)) :
    o'.evaluate tol [us', vs, ws] true = o.evaluate tol [us, vs, ws] true ∧
      ∃ res, o.evaluate tol [us, vs, ws] true = .ok res ∧
        res.shape = [us.length, vs.length, ws.length, o.dimension] := by
  obtain ⟨res, e1, e2, e3⟩ := eval_volume hb hv1 hv2 hv3 hs hnc htol hus hvs hws
  obtain ⟨res', e1', e2', e3'⟩ :=
    eval_volume hb' hv1' hv2 hv3 hs' (by rw [hrat]; exact hnc) htol hus' hvs hws
  have hncomp := (Obj.dimension_of_shape (o := o)
    (pre := [b1.numFunctions, b2.numFunctions, b3.numFunctions]) hs).1
  have hncomp' := (Obj.dimension_of_shape (o := o')
    (pre := [b1'.numFunctions, b2.numFunctions, b3.numFunctions]) hs').1
  have hdim : o'.dimension = o.dimension := by unfold Obj.dimension; rw [hrat, hncomp, hncomp']
  rw [hlen] at e3' e2'
  have hd := core_transfer e3 e3' hrat (by rw [hncomp, hncomp']) 1 b1.numFunctions
    b1'.numFunctions (b2.numFunctions * b3.numFunctions)
    (by rw [Nat.one_mul, Nat.mul_assoc]) (by rw [Nat.one_mul, Nat.mul_assoc]) (fun _ _ => 1)
    (fun p => b1.specRow (us.getD (p / ws.length / vs.length) 0))
    (fun p => b1'.specRow (us'.getD (p / ws.length / vs.length) 0))
    (fun p => Ws b3.numFunctions (b2.specRow (vs.getD (p / ws.length % vs.length) 0))
      (b3.specRow (ws.getD (p % ws.length) 0)))
    (fun p _ k hk => Wv_W3_u _ _ _ _ _ _ k hk) (fun p _ k hk => Wv_W3_u _ _ _ _ _ _ k hk)
    (fun p hp a i c ha hi hc => by
      rw [hncomp] at hc ⊢
      exact (hsame _ (vol_idx hp).1).raw (A := 1) (I := b2.numFunctions * b3.numFunctions)
        (by rw [hs]; simp [Tensor.split3, Tensor.prod, Nat.mul_assoc])
        (by rw [hs']; simp [Tensor.split3, Tensor.prod, Nat.mul_assoc]) ha hi hc)
  refine ⟨?_, res, e1, e2⟩
  rw [e1, e1', tensor_eq (by rw [e2, e2', hdim]) hd]

/-- Volumes, second direction. -/
theorem transfer_volume_v {o o' : Obj K} {b1 b2 b2' b3 : Basis K} (hb : o.bases = #[b1, b2, b3])
    (hb' : o'.bases = #[b1, b2', b3]) (hv1 : b1.Valid) (hv2 : b2.Valid) (hv2' : b2'.Valid)
    (hv3 : b3.Valid) {nc : ℕ}
    (hs : o.cps.shape = [b1.numFunctions, b2.numFunctions, b3.numFunctions, nc])
    (hs' : o'.cps.shape = [b1.numFunctions, b2'.numFunctions, b3.numFunctions, nc])
    (hrat : o'.rational = o.rational) (hnc : o.rational = true → 1 ≤ nc)
    {tol : K} (htol : 0 < tol) {us vs vs' ws : List K} (hlen : vs'.length = vs.length)
    (hus : ∀ u ∈ us, b1.Admissible tol u)
    (hvs : ∀ v ∈ vs, b2.Admissible tol v) (hvs' : ∀ v ∈ vs', b2'.Admissible tol v)
    (hws : ∀ w ∈ ws, b3.Admissible tol w)
    (hsame : ∀ p, p < vs.length → SameAlong o o' 1 b2.numFunctions b2'.numFunctions
      (b2.specRow (vs.getD p 0)) (b2'.specRow (vs'.getD p 0)))
    (hne_b1 : b1.periodic < 0 → us ≠ [] := by (first | assumption | (simp; done) | skip))
    (hne_b2 : b2.periodic < 0 → vs ≠ [] := by (first | assumption | (simp; done) | skip))
    (hne_b2p : b2'.periodic < 0 → vs' ≠ [] := by (first | assumption | (simp; done) | skip))
    (hne_b3 : b3.periodic < 0 → ws ≠ [] := by (first | assumption | (simp; done) | skip)) :
    o'.evaluate tol [us, vs', ws] true = o.evaluate tol [us, vs, ws] true ∧
      ∃ res, o.evaluate tol [us, vs, ws] true = .ok res ∧
        res.shape = [us.length, vs.length, ws.length, o.dimension] := by
  obtain ⟨res, e1, e2, e3⟩ := eval_volume hb hv1 hv2 hv3 hs hnc htol hus hvs hws
  obtain ⟨res', e1', e2', e3'⟩ :=
    eval_volume hb' hv1 hv2' hv3 hs' (by rw [hrat]; exact hnc) htol hus hvs' hws
  have hncomp := (Obj.dimension_of_shape (o := o)
    (pre := [b1.numFunctions, b2.numFunctions, b3.numFunctions]) hs).1
  have hncomp' := (Obj.dimension_of_shape (o := o')
    (pre := [b1.numFunctions, b2'.numFunctions, b3.numFunctions]) hs').1
  have hdim : o'.dimension = o.dimension := by unfold Obj.dimension; rw [hrat, hncomp, hncomp']
  rw [hlen] at e3' e2'
  have hd := core_transfer e3 e3' hrat (by rw [hncomp, hncomp']) b1.numFunctions b2.numFunctions
    b2'.numFunctions b3.numFunctions rfl rfl
    (fun p => b1.specRow (us.getD (p / ws.length / vs.length) 0))
    (fun p => b2.specRow (vs.getD (p / ws.length % vs.length) 0))
    (fun p => b2'.specRow (vs'.getD (p / ws.length % vs.length) 0))
    (fun p => b3.specRow (ws.getD (p % ws.length) 0))
    (fun p _ k _ => Wv_W3_v _ _ _ _ _ k) (fun p _ k _ => Wv_W3_v _ _ _ _ _ k)
    (fun p hp a i c ha hi hc => by
      rw [hncomp] at hc ⊢
      exact (hsame _ (vol_idx hp).2.1).raw (A := b1.numFunctions) (I := b3.numFunctions)
        (by rw [hs]; simp [Tensor.split3, Tensor.prod])
        (by rw [hs']; simp [Tensor.split3, Tensor.prod]) ha hi hc)
  refine ⟨?_, res, e1, e2⟩
  rw [e1, e1', tensor_eq (by rw [e2, e2', hdim]) hd]

/-- Volumes, third direction. -/
theorem transfer_volume_w {o o' : Obj K} {b1 b2 b3 b3' : Basis K} (hb : o.bases = #[b1, b2, b3])
    (hb' : o'.bases = #[b1, b2, b3']) (hv1 : b1.Valid) (hv2 : b2.Valid) (hv3 : b3.Valid)
    (hv3' : b3'.Valid) {nc : ℕ}
    (hs : o.cps.shape = [b1.numFunctions, b2.numFunctions, b3.numFunctions, nc])
    (hs' : o'.cps.shape = [b1.numFunctions, b2.numFunctions, b3'.numFunctions, nc])
    (hrat : o'.rational = o.rational) (hnc : o.rational = true → 1 ≤ nc)
    {tol : K} (htol : 0 < tol) {us vs ws ws' : List K} (hlen : ws'.length = ws.length)
    (hus : ∀ u ∈ us, b1.Admissible tol u) (hvs : ∀ v ∈ vs, b2.Admissible tol v)
    (hws : ∀ w ∈ ws, b3.Admissible tol w) (hws' : ∀ w ∈ ws', b3'.Admissible tol w)
    (hsame : ∀ p, p < ws.length → SameAlong o o' 2 b3.numFunctions b3'.numFunctions
      (b3.specRow (ws.getD p 0)) (b3'.specRow (ws'.getD p 0)))
    (hne_b1 : b1.periodic < 0 → us ≠ [] := by (first | assumption | (simp; done) | skip))
    (hne_b2 : b2.periodic < 0 → vs ≠ [] := by (first | assumption | (simp; done) | skip))
    (hne_b3 : b3.periodic < 0 → ws ≠ [] := by (first | assumption | (simp; done) | skip))
    (hne_b3p : b3'.periodic < 0 → ws' ≠ [] := by (first | assumption | (simp; done) | skip)) :
    o'.evaluate tol [us, vs, ws'] true = o.evaluate tol [us, vs, ws] true ∧
      ∃ res, o.evaluate tol [us, vs, ws] true = .ok res ∧
        res.shape = [us.length, vs.length, ws.length, o.dimension] := by
  obtain ⟨res, e1, e2, e3⟩ := eval_volume hb hv1 hv2 hv3 hs hnc htol hus hvs hws
  obtain ⟨res', e1', e2', e3'⟩ :=
    eval_volume hb' hv1 hv2 hv3' hs' (by rw [hrat]; exact hnc) htol hus hvs hws'
  have hncomp := (Obj.dimension_of_shape (o := o)
    (pre := [b1.numFunctions, b2.numFunctions, b3.numFunctions]) hs).1
  have hncomp' := (Obj.dimension_of_shape (o := o')
    (pre := [b1.numFunctions, b2.numFunctions, b3'.numFunctions]) hs').1
  have hdim : o'.dimension = o.dimension := by unfold Obj.dimension; rw [hrat, hncomp, hncomp']
  rw [hlen] at e3' e2'
  have hd := core_transfer e3 e3' hrat (by rw [hncomp, hncomp'])
    (b1.numFunctions * b2.numFunctions) b3.numFunctions b3'.numFunctions 1 (by simp) (by simp)
    (fun p => Ws b2.numFunctions (b1.specRow (us.getD (p / ws.length / vs.length) 0))
      (b2.specRow (vs.getD (p / ws.length % vs.length) 0)))
    (fun p => b3.specRow (ws.getD (p % ws.length) 0))
    (fun p => b3'.specRow (ws'.getD (p % ws.length) 0)) (fun _ _ => 1)
    (fun p _ k _ => Wv_W3_w _ _ _ _ _ k) (fun p _ k _ => Wv_W3_w _ _ _ _ _ k)
    (fun p hp a i c ha hi hc => by
      rw [hncomp] at hc ⊢
      exact (hsame _ (vol_idx hp).2.2).raw (A := b1.numFunctions * b2.numFunctions) (I := 1)
        (by rw [hs]; simp [Tensor.split3, Tensor.prod])
        (by rw [hs']; simp [Tensor.split3, Tensor.prod]) ha hi hc)
  refine ⟨?_, res, e1, e2⟩
  rw [e1, e1', tensor_eq (by rw [e2, e2', hdim]) hd]

end Bridge
end Splipy
