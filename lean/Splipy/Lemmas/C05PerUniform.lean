import Splipy.Lemmas.C05PerDir
import Splipy.Lemmas.C14Periodic

/-!
# C05 — `H_sw` for a hypothesis-free periodic family: uniform periodic quadratics raised to cubics

The raised basis has order 4, continuity 1 and uniform DOUBLE knots.  Its Greville points are the
thirds `s0 + h·(m ± 1/3)`; every B-spline takes the value `16/27 > 1/2` at its own Greville point, so the
(row-stochastic) periodic collocation matrix is strictly diagonally dominant.
-/

namespace Splipy

set_option linter.unusedSectionVars false

open Finset

section values
variable {K : Type} [Field K] [LinearOrder K] [IsStrictOrderedRing K]

/-- Cubic B-spline on the knots `c + h·(0,0,1,1,2)` at `c + h·2/3`. -/
theorem double_cubic_value_even (τ : ℕ → K) (i : ℕ) (c h : K) (hh : 0 < h)
    (hu : ∀ j, j ≤ 4 → τ (i + j) = h * ((j / 2 : ℕ) : K) + c) : B .right τ 3 i (h * (2 / 3) + c) = 16 / 27 := by
  rw [B_congr_knots .right τ (fun j : ℕ => h * ((j / 2 : ℕ) : K) + c) 3 i 0 (h * (2 / 3) + c)
    (fun j hj => by rw [hu j hj]; simp)]
  rw [B_affine .right (fun j : ℕ => ((j / 2 : ℕ) : K)) 3 0 (2 / 3) h c hh]
  simp only [B, ind]
  norm_num

/-- Cubic B-spline on the knots `c + h·(0,1,1,2,2)` at `c + h·4/3`. -/
theorem double_cubic_value_odd (τ : ℕ → K) (i : ℕ) (c h : K) (hh : 0 < h)
    (hu : ∀ j, j ≤ 4 → τ (i + j) = h * (((j + 1) / 2 : ℕ) : K) + c) : B .right τ 3 i (h * (4 / 3) + c) = 16 / 27 := by
  rw [B_congr_knots .right τ (fun j : ℕ => h * (((j + 1) / 2 : ℕ) : K) + c) 3 i 0 (h * (4 / 3) + c)
    (fun j hj => by rw [hu j hj]; simp)]
  rw [B_affine .right (fun j : ℕ => (((j + 1) / 2 : ℕ) : K)) 3 0 (4 / 3) h c hh]
  simp only [B, ind]
  norm_num

end values

section diag
variable {K : Type} [Field K] [LinearOrder K] [IsStrictOrderedRing K] [FloorRing K]

/-- **`H_sw` from a dominant diagonal.**  Valid periodic basis, `n` exact parameters whose wrapped
    images are exact as well, diagonal collocation entries `> 1/2`: the collocation matrix is
    row-stochastic (C01) and strictly diagonally dominant, so the model's certified inverse exists. -/
theorem invChecked_of_diag {b : Basis K} (hv : b.Valid) (hper : 0 ≤ b.periodic)
    {tol : K} (htol : 0 < tol) (ts : List K) (hlen : ts.length = b.numFunctions)
    (hex : ∀ i < b.numFunctions, b.ExactAt tol (ts.getD i 0))
    (hexw : ∀ i < b.numFunctions, b.ExactAt tol (b.wrap (ts.getD i 0)))
    (hdiag : ∀ i < b.numFunctions, 1 / 2 < (b.evaluate tol (ts.getD i 0) 0 true).getD i 0) :
    ∃ Ni, Mat.invChecked (Obj.basisMat b tol ts 0 true) = .ok Ni := by
  set N := Obj.basisMat b tol ts 0 true with hN
  have hshape := basisMat_shape b tol ts hlen
  rw [hlen] at hshape
  have hget : ∀ i < b.numFunctions, ∀ j, N.get i j = (b.evaluate tol (ts.getD i 0) 0 true).getD j 0 := by
    intro i hi j
    have hi' : i < ts.length := by omega
    rw [hN, basisMat_get b tol ts i j hi', List.getD_eq_getElem _ _ hi']
  have hinj : ∀ y : ℕ → K, (∀ i < b.numFunctions, ∑ j ∈ range b.numFunctions, N.get i j * y j = 0) →
      ∀ j < b.numFunctions, y j = 0 := by
    intro y hy
    apply stochastic_diag_injective_c14 b.numFunctions (fun i j => N.get i j) _ _ _ y hy
    · intro i hi j _
      rw [hget i hi j]
      exact C01_nonneg hv htol (hex i hi) (fun _ => hexw i hi) true j
    · intro i hi
      rw [sum_congr rfl (fun j _ => hget i hi j)]
      exact C01_partition_of_unity_periodic_any_real hv hper htol (hex i hi) (hexw i hi) true
    · intro i hi
      show 1 / 2 < N.get i i
      rw [hget i hi i]; exact hdiag i hi
  obtain ⟨L, hL⟩ := left_inverse_of_injective_c14 b.numFunctions (fun i j => N.get i j) hinj
  exact Mat.invChecked_complete N b.numFunctions hshape L hL

end diag

section uniform
variable {K : Type} [Field K] [LinearOrder K] [IsStrictOrderedRing K] [FloorRing K]

/-- A third of the lattice `s0 + h·ℤ` that is not a lattice point is at least `h/3` from every
    lattice point: such a parameter is exact for every basis whose knots lie on the lattice. -/
theorem exactAt_third {b : Basis K} {s0 h tol : K} (hh : 0 < h) (htol : tol ≤ h / 3)
    (hkn : ∀ i, i < b.knots.size → ∃ z : ℤ, b.kn i = s0 + h * (z : K))
    (c : ℤ) (hc : ¬ (3 : ℤ) ∣ c) : b.ExactAt tol (s0 + h * ((c : K) / 3)) := by
  intro i hi
  obtain ⟨z, hz⟩ := hkn i hi
  right
  rw [hz]
  have e : s0 + h * (z : K) - (s0 + h * ((c : K) / 3)) = h * (((3 * z - c : ℤ) : K) / 3) := by
    push_cast; ring
  rw [e, abs_mul, abs_of_pos hh, abs_div, abs_of_pos (by norm_num : (0 : K) < 3)]
  have h1 : (1 : K) ≤ |((3 * z - c : ℤ) : K)| := by
    have hne : (3 * z - c) ≠ 0 := by
      intro h0; apply hc; exact ⟨z, by omega⟩
    have := Int.one_le_abs hne
    rw [← Int.cast_abs]; exact_mod_cast this
  calc tol ≤ h / 3 := htol
    _ = h * (1 / 3) := by ring
    _ ≤ h * (|((3 * z - c : ℤ) : K)| / 3) := by
        apply mul_le_mul_of_nonneg_left _ hh.le
        exact div_le_div_of_nonneg_right h1 (by norm_num)

/-- Numerator (in thirds of `h`, relative to `s0`) of the `i`-th Greville point of the double-knot
    cubic basis. -/
def gc (i : ℕ) : ℤ := (((i + 1) / 2 + (i + 2) / 2 + (i + 3) / 2 : ℕ) : ℤ) - 3

theorem gc_cast (i : ℕ) : ((gc i : ℤ) : K)
    = (((i + 1) / 2 : ℕ) : K) + (((i + 2) / 2 : ℕ) : K) + (((i + 3) / 2 : ℕ) : K) - 3 := by
  unfold gc
  rw [Int.cast_sub, Int.cast_natCast, Nat.cast_add, Nat.cast_add]
  norm_num

theorem gc_not_dvd (i : ℕ) : ¬ (3 : ℤ) ∣ gc i := by
  unfold gc
  omega

/-- Every B-spline of the uniform double-knot cubic basis takes the value `16/27` at its Greville point. -/
theorem double_cubic_greville_value (τ : ℕ → K) (s0 h : K) (hh : 0 < h) (j : ℕ)
    (hkn : ∀ t, t ≤ 4 → τ (j + t) = s0 + h * ((((j + t) / 2 : ℕ) : K) - 1)) :
    B .right τ 3 j (s0 + h * ((gc j : K) / 3)) = 16 / 27 := by
  rcases Nat.even_or_odd' j with ⟨m, rfl | rfl⟩
  · have hc : gc (2 * m) = 3 * (m : ℤ) - 1 := by unfold gc; omega
    rw [hc]
    have := double_cubic_value_even τ (2 * m) (s0 + h * ((m : K) - 1)) h hh (fun t ht => by
      rw [hkn t ht, Nat.mul_add_div (by norm_num : 0 < 2)]; push_cast; ring)
    rw [← this]
    congr 1
    push_cast; ring
  · have hc : gc (2 * m + 1) = 3 * (m : ℤ) + 1 := by unfold gc; omega
    rw [hc]
    have := double_cubic_value_odd τ (2 * m + 1) (s0 + h * ((m : K) - 1)) h hh (fun t ht => by
      rw [hkn t ht, show 2 * m + 1 + t = 2 * m + (t + 1) by ring, Nat.mul_add_div (by norm_num : 0 < 2)]
      push_cast; ring)
    rw [← this]
    congr 1
    push_cast; ring

end uniform

section uniformBasis
variable {K : Type} [Field K] [LinearOrder K] [IsStrictOrderedRing K] [FloorRing K]

/-- A basis shaped like the uniform double-knot periodic cubic: order 4, continuity 1, `2N + 6` knots
    `s0 + h·(⌊i/2⌋ − 1)`. -/
structure DoubleCubic (b : Basis K) (s0 h : K) (N : ℕ) : Prop where
  valid : b.Valid
  order : b.order = 4
  per : b.periodic = 1
  size : b.knots.size = 2 * N + 6
  pos : 1 ≤ N
  hh : 0 < h
  kn : ∀ i, i < 2 * N + 6 → b.kn i = s0 + h * ((((i / 2 : ℕ) : ℕ) : K) - 1)

variable {b : Basis K} {s0 h : K} {N : ℕ}

theorem DoubleCubic.nf (d : DoubleCubic b s0 h N) : b.numFunctions = 2 * N := by
  unfold Basis.numFunctions; rw [d.order, d.per, d.size]; simp

theorem DoubleCubic.nAll (d : DoubleCubic b s0 h N) : b.nAll = 2 * N + 2 := by
  unfold Basis.nAll; rw [d.order, d.size]; omega

theorem DoubleCubic.start (d : DoubleCubic b s0 h N) : b.start = s0 := by
  unfold Basis.start; rw [d.order, d.kn 3 (by omega)]; norm_num

theorem DoubleCubic.stop (d : DoubleCubic b s0 h N) : b.stop = s0 + h * (N : K) := by
  unfold Basis.stop
  rw [d.order, d.size, show 2 * N + 6 - 4 = 2 * (N + 1) by omega, d.kn _ (by omega),
    Nat.mul_div_cancel_left _ (by norm_num : 0 < 2)]
  push_cast; ring

theorem DoubleCubic.lattice (d : DoubleCubic b s0 h N) :
    ∀ i, i < b.knots.size → ∃ z : ℤ, b.kn i = s0 + h * (z : K) := by
  intro i hi
  rw [d.size] at hi
  exact ⟨((i / 2 : ℕ) : ℤ) - 1, by rw [d.kn i hi, Int.cast_sub, Int.cast_natCast, Int.cast_one]⟩

/-- The Greville points. -/
theorem DoubleCubic.greville (d : DoubleCubic b s0 h N) :
    ∃ pts : Array K, b.greville = .ok pts ∧ pts.size = 2 * N ∧
      ∀ l, l < 2 * N → pts.toList.getD l 0 = s0 + h * ((gc l : K) / 3) := by
  have hg := sw_greville_eq b (by rw [d.order]; norm_num)
  rw [d.order] at hg
  refine ⟨_, hg, by simp [d.nf], ?_⟩
  intro l hl
  have hl' : l < b.numFunctions := by rw [d.nf]; exact hl
  simp only [List.getD_eq_getElem?_getD, Array.toList_ofFn, List.getElem?_ofFn, hl', dite_true, Option.getD_some]
  unfold grevilleAbscissa grevilleSum
  rw [sum_range_succ, sum_range_succ, sum_range_succ, sum_range_zero,
    d.kn _ (by omega), d.kn _ (by omega), d.kn _ (by omega), gc_cast]
  rw [show l + 1 + 0 = l + 1 by ring, show l + 1 + 1 = l + 2 by ring, show l + 1 + 2 = l + 3 by ring]
  generalize (((l + 1) / 2 : ℕ) : K) = x1
  generalize (((l + 2) / 2 : ℕ) : K) = x2
  generalize (((l + 3) / 2 : ℕ) : K) = x3
  push_cast
  field_simp
  ring

/-- Numerator of the wrapped Greville point. -/
def gcw (N l : ℕ) : ℤ := if l = 0 then 3 * (N : ℤ) - 1 else gc l

theorem gcw_not_dvd (N l : ℕ) : ¬ (3 : ℤ) ∣ gcw N l := by
  unfold gcw
  split_ifs
  · omega
  · exact gc_not_dvd l

/-- The wrapped Greville points, for any periodic basis with the same `start`/`stop`. -/
theorem wrap_third {b0 : Basis K} (hv : b0.Valid) (hs : b0.start = s0) (he : b0.stop = s0 + h * (N : K))
    (hh : 0 < h) (hN : 1 ≤ N) (l : ℕ) (hl : l < 2 * N) :
    b0.wrap (s0 + h * ((gc l : K) / 3)) = s0 + h * ((gcw N l : K) / 3) := by
  have hNK : (1 : K) ≤ (N : K) := by exact_mod_cast hN
  by_cases h0 : l = 0
  · subst h0
    have hc0 : gc 0 = -1 := by unfold gc; norm_num
    have hw0 : gcw N 0 = 3 * (N : ℤ) - 1 := by simp [gcw]
    rw [hc0, hw0]
    have hper : b0.stop - b0.start = h * (N : K) := by rw [hs, he]; ring
    have e : s0 + h * (((3 * (N : ℤ) - 1 : ℤ) : K) / 3)
        = (s0 + h * (((-1 : ℤ) : K) / 3)) + ((1 : ℤ) : K) * (b0.stop - b0.start) := by
      rw [hper]; push_cast; ring
    have hne1 : s0 + h * (((-1 : ℤ) : K) / 3) ≠ b0.stop := by
      rw [he]; intro hc
      have : h * (((-1 : ℤ) : K) / 3) = h * (N : K) := by linarith
      have := mul_left_cancel₀ (ne_of_gt hh) this
      push_cast at this; linarith
    have hne2 : s0 + h * (((-1 : ℤ) : K) / 3) + ((1 : ℤ) : K) * (b0.stop - b0.start) ≠ b0.stop := by
      rw [← e, he]; intro hc
      have : h * (((3 * (N : ℤ) - 1 : ℤ) : K) / 3) = h * (N : K) := by linarith
      have := mul_left_cancel₀ (ne_of_gt hh) this
      push_cast at this; linarith
    rw [← Basis.wrap_add_int_mul hv _ 1 hne1 hne2, ← e]
    apply Basis.wrap_of_mem
    · rw [hs]; push_cast; nlinarith
    · rw [he]; push_cast; nlinarith
  · have hw : gcw N l = gc l := by simp [gcw, h0]
    rw [hw]
    have h1 : (1 : ℤ) ≤ gc l := by unfold gc; omega
    have h2 : gc l ≤ 3 * (N : ℤ) - 2 := by unfold gc; omega
    have h1K : (1 : K) ≤ (gc l : K) := by exact_mod_cast h1
    have h2K : (gc l : K) ≤ 3 * (N : K) - 2 := by exact_mod_cast h2
    apply Basis.wrap_of_mem
    · rw [hs]; nlinarith
    · rw [he]; nlinarith

/-- A Greville point of the double-knot cubic basis is admissible for every valid periodic basis with
    knots on the lattice `s0 + h·ℤ` and the same domain, when `tol ≤ h/3`. -/
theorem admissible_third {b0 : Basis K} (hv : b0.Valid) (hper : 0 ≤ b0.periodic) (hs : b0.start = s0) (he : b0.stop = s0 + h * (N : K))
    (hh : 0 < h) (hN : 1 ≤ N) {tol : K} (htol : tol ≤ h / 3)
    (hkn : ∀ i, i < b0.knots.size → ∃ z : ℤ, b0.kn i = s0 + h * (z : K)) (l : ℕ) (hl : l < 2 * N) :
    b0.Admissible tol (s0 + h * ((gc l : K) / 3)) := by
  refine ⟨exactAt_third hh htol hkn _ (gc_not_dvd l), ?_, fun _ => ?_⟩
  · intro hp
    rw [hp] at hper
    exact absurd hper (by decide)
  · rw [wrap_third hv hs he hh hN l hl]
    exact exactAt_third hh htol hkn _ (gcw_not_dvd N l)

/-- **`H_sw` for the uniform double-knot periodic cubic basis** (`tol ≤ h/3`): the Greville points are
    the thirds `s0 + h·gc(l)/3`, they are admissible, and the periodic Greville collocation matrix has
    the model's certified inverse (diagonal `≥ 16/27 > 1/2`). -/
theorem DoubleCubic.H_sw (d : DoubleCubic b s0 h N) {tol : K} (htol : 0 < tol) (htolh : tol ≤ h / 3) :
    ∃ pts : Array K, b.greville = .ok pts ∧ pts.size = 2 * N ∧
      (∀ l, l < 2 * N → pts.toList.getD l 0 = s0 + h * ((gc l : K) / 3)) ∧
      (∀ t ∈ pts.toList, b.Admissible tol t) ∧
      ∃ Ni, Mat.invChecked (Obj.basisMat b tol pts.toList 0 true) = .ok Ni := by
  obtain ⟨pts, hg, hsz, hG⟩ := d.greville
  have hv := d.valid
  have hper : 0 ≤ b.periodic := by rw [d.per]; decide
  have hadm : ∀ l, l < 2 * N → b.Admissible tol (pts.toList.getD l 0) := by
    intro l hl
    rw [hG l hl]
    exact admissible_third hv hper d.start d.stop d.hh d.pos htolh d.lattice l hl
  refine ⟨pts, hg, hsz, hG, ?_, ?_⟩
  · intro t ht
    obtain ⟨l, hl, rfl⟩ := List.getElem_of_mem ht
    have hl' : l < 2 * N := by simpa [hsz] using hl
    have := hadm l hl'
    rwa [List.getD_eq_getElem _ _ hl] at this
  · have hlen : pts.toList.length = b.numFunctions := by rw [d.nf]; simpa using hsz
    apply invChecked_of_diag hv hper htol pts.toList hlen
    · intro i hi; exact (hadm i (by rw [← d.nf]; exact hi)).1
    · intro i hi; exact (hadm i (by rw [← d.nf]; exact hi)).2.2 hper
    · intro l hl
      have hl2 : l < 2 * N := by rw [← d.nf]; exact hl
      have hA := hadm l hl2
      rw [C01_value_deriv_periodic_any_real hv hper htol hA.1 (hA.2.2 hper) true (by rw [d.order]; norm_num) hl]
      rw [hG l hl2, wrap_third hv d.start d.stop d.hh d.pos l hl2]
      -- the point is not the domain end
      have hWne : s0 + h * ((gcw N l : K) / 3) ≠ b.stop := by
        rw [d.stop]; intro hc
        have h1 : h * ((gcw N l : K) / 3) = h * (N : K) := by linarith
        have h2 := mul_left_cancel₀ (ne_of_gt d.hh) h1
        have h3 : ((gcw N l : ℤ) : K) = ((3 * (N : ℤ) : ℤ) : K) := by push_cast; linarith
        have h4 := Int.cast_injective h3
        exact gcw_not_dvd N l ⟨N, h4⟩
      have hpe : periodicEff b (s0 + h * ((gcw N l : K) / 3)) true
          = (s0 + h * ((gcw N l : K) / 3), Side.right) := by
        unfold periodicEff effSide
        simp [hWne]
      rw [hpe]
      simp only
      -- the B-spline whose Greville point this is
      set j : ℕ := if l = 0 then 2 * N else l with hj
      have hjc : gc j = gcw N l := by
        unfold gcw
        by_cases h0 : l = 0
        · simp only [hj, h0, if_true]; unfold gc; omega
        · simp only [hj, h0, if_false]
      have hjlt : j < 2 * N + 2 := by
        by_cases h0 : l = 0
        · simp only [hj, h0, if_true]; omega
        · simp only [hj, h0, if_false]; omega
      have hjmod : j % b.numFunctions = l := by
        rw [d.nf]
        by_cases h0 : l = 0
        · simp only [hj, h0, if_true]; exact Nat.mod_self _
        · simp only [hj, h0, if_false]; exact Nat.mod_eq_of_lt hl2
      have hmem : j ∈ (range b.nAll).filter (fun i => i % b.numFunctions = l) := by
        rw [mem_filter, mem_range, d.nAll]; exact ⟨hjlt, hjmod⟩
      have hval : dB .right b.kn (b.order - 1) j 0 (s0 + h * ((gcw N l : K) / 3)) = 16 / 27 := by
        rw [dB_zero, d.order, ← hjc]
        exact double_cubic_greville_value b.kn s0 h d.hh j (fun t ht => d.kn _ (by omega))
      calc (1 : K) / 2 < 16 / 27 := by norm_num
        _ = dB .right b.kn (b.order - 1) j 0 (s0 + h * ((gcw N l : K) / 3)) := hval.symm
        _ ≤ _ := single_le_sum (f := fun i => dB .right b.kn (b.order - 1) i 0 (s0 + h * ((gcw N l : K) / 3)))
            (fun i _ => by rw [dB_zero]; exact B_nonneg _ _ hv.kn_mono _ _ _) hmem

end uniformBasis

section family
variable {K : Type} [Field K] [LinearOrder K] [IsStrictOrderedRing K] [FloorRing K]

/-- Distinct knots `s0 + h·1, …, s0 + h·m` after the first one `s0` of a uniform period. -/
def uwr (s0 h : K) (m : ℕ) : List K := (List.range m).map (fun (i : ℕ) => s0 + h * ((i : K) + 1))

theorem uw_getD (s0 h : K) (m i : ℕ) (hi : i ≤ m) : (s0 :: uwr s0 h m).getD i 0 = s0 + h * (i : K) := by
  cases i with
  | zero => simp
  | succ i =>
    have : i < m := by omega
    simp [uwr, List.getD_eq_getElem?_getD, List.getElem?_map, List.getElem?_range this]

theorem uw_eq_map (s0 h : K) (m : ℕ) :
    s0 :: uwr s0 h m ++ [s0 + h * ((m : K) + 1)] = (List.range (m + 2)).map (fun (i : ℕ) => s0 + h * (i : K)) := by
  rw [List.range_succ_eq_map, List.map_cons, List.map_map, List.range_succ, List.map_append]
  simp [uwr, Function.comp_def]

/-- `expand` with a constant multiplicity. -/
theorem expand_replicate_getD (c : ℕ) (hc : 0 < c) : ∀ (w : List K) (r : ℕ), r < c * w.length →
    (expand w (List.replicate w.length c)).getD r 0 = w.getD (r / c) 0 := by
  intro w
  induction w with
  | nil => intro r hr; simp at hr
  | cons x xs ih =>
    intro r hr
    simp only [List.length_cons, List.replicate_succ, expand_cons]
    rcases Nat.lt_or_ge r c with h1 | h1
    · rw [List.getD_append _ _ _ _ (by simpa using h1), Nat.div_eq_of_lt h1]
      simp [List.getD_eq_getElem?_getD, List.getElem?_replicate, h1]
    · rw [List.getD_append_right _ _ _ _ (by simpa using h1)]
      simp only [List.length_replicate]
      rw [ih (r - c) (by simp only [List.length_cons] at hr; rw [Nat.mul_succ] at hr; omega)]
      have : r / c = (r - c) / c + 1 := by
        conv_lhs => rw [show r = (r - c) + c by omega]
        rw [Nat.add_div_right _ hc]
      rw [this]
      simp

/-- The uniform period with constant multiplicity `c` is a standard periodic knot vector of order
    `2 + c` and continuity 1 (`m + 1 ≥ 3` distinct knots per period, spacing `h > tol`). -/
theorem uniform_perData (tol s0 h : K) (h0 : 0 ≤ tol) (hth : tol < h) (m : ℕ) (hm : 2 ≤ m) (c : ℕ) (hc : 1 ≤ c) :
    PerData tol (2 + c) 1 s0 (uwr s0 h m) c (List.replicate m c) (h * ((m : K) + 1)) where
  len := by simp [uwr]
  pos0 := hc
  pos := by intro x hx; rw [List.eq_of_mem_replicate hx]; exact hc
  sep := by
    rw [show s0 :: uwr s0 h m ++ [s0 + h * ((m : K) + 1)]
        = (List.range (m + 2)).map (fun (i : ℕ) => s0 + h * (i : K)) from uw_eq_map s0 h m]
    unfold Separated
    rw [List.pairwise_map]
    apply List.Pairwise.imp _ (List.pairwise_lt_range (n := m + 2))
    intro i j hij
    have hh : 0 < h := lt_of_le_of_lt h0 hth
    have : (i : K) + 1 ≤ (j : K) := by exact_mod_cast hij
    nlinarith
  hk := by rw [List.sum_replicate, smul_eq_mul]; nlinarith
  hp := by rw [List.sum_replicate, smul_eq_mul]; nlinarith
  seam1 := by omega
  seam2 := by omega
  hk2 := by omega

/-- Knots of the uniform periodic basis with constant multiplicity `c`. -/
theorem uniform_kn (tol s0 h : K) (h0 : 0 ≤ tol) (hth : tol < h) (m : ℕ) (hm : 2 ≤ m) (c : ℕ) (hc : 1 ≤ c)
    (i : ℕ) (hi : i < 2 + (c + m * c) + (2 + c)) :
    (perBasis (2 + c) 1 (s0 :: uwr s0 h m) (c :: List.replicate m c) (h * ((m : K) + 1))).kn i
      = s0 + h * ((((i + (c + m * c - 2)) % (c + m * c) / c : ℕ) : K))
        + (((i + (c + m * c - 2)) / (c + m * c) : ℕ) : K) * (h * ((m : K) + 1)) - h * ((m : K) + 1) := by
  have hd := uniform_perData tol s0 h h0 hth m hm c hc
  have hsum : (List.replicate m c).sum = m * c := by rw [List.sum_replicate, smul_eq_mul]
  have hn : 0 < c + m * c := by omega
  rw [hd.kn_eq i (by rw [hsum]; simpa using hi), hsum]
  rw [pSeq_getD _ _ _ (by simp [uwr]) _ (by simp [hsum]; omega)]
  have hs2 : (c :: List.replicate m c).sum = c + m * c := by simp [hsum]
  rw [hs2]
  have hrep : c :: List.replicate m c = List.replicate (s0 :: uwr s0 h m).length c := by
    simp [uwr, List.replicate_succ]
  have hlt : (i + (c + m * c - 2)) % (c + m * c) < c * (s0 :: uwr s0 h m).length := by
    have := Nat.mod_lt (i + (c + m * c - 2)) hn
    simp only [List.length_cons, uwr, List.length_map, List.length_range]
    rw [Nat.mul_succ, Nat.mul_comm c m]; omega
  rw [hrep, expand_replicate_getD c (by omega) _ _ hlt]
  rw [uw_getD s0 h m _ (by
    have : (i + (c + m * c - 2)) % (c + m * c) < c * (m + 1) := by
      simpa [uwr] using hlt
    rw [Nat.div_le_iff_le_mul_add_pred (by omega)]
    have e : c * (m + 1) = c * m + c := by ring
    omega)]

theorem divmod_of_eq {J n q r : ℕ} (hJ : J = q * n + r) (hr : r < n) : J % n = r ∧ J / n = q := by
  have hn : 0 < n := by omega
  subst hJ
  constructor
  · rw [Nat.mul_comm, Nat.mul_add_mod, Nat.mod_eq_of_lt hr]
  · rw [Nat.mul_comm, Nat.mul_add_div hn, Nat.div_eq_of_lt hr, add_zero]

/-- The uniform periodic quadratic basis raised by 1 is a uniform double-knot periodic cubic basis. -/
theorem uniform_doubleCubic (tol s0 h : K) (h0 : 0 ≤ tol) (hth : tol < h) (m : ℕ) (hm : 2 ≤ m) :
    DoubleCubic (perBasis 4 1 (s0 :: uwr s0 h m) (2 :: List.replicate m 2) (h * ((m : K) + 1))) s0 h (m + 1) := by
  have hd := uniform_perData tol s0 h h0 hth m hm 2 (by norm_num)
  have hsum : (List.replicate m 2).sum = m * 2 := by rw [List.sum_replicate, smul_eq_mul]
  have hsize : (perBasis 4 1 (s0 :: uwr s0 h m) (2 :: List.replicate m 2) (h * ((m : K) + 1))).knots.size
      = 2 * (m + 1) + 6 := by
    have := hd.lengths.2.2.2
    show (perKnots 4 1 (s0 :: uwr s0 h m) (2 :: List.replicate m 2) (h * ((m : K) + 1))).toArray.size = _
    rw [List.size_toArray]
    rw [hsum] at this
    rw [show (4 : ℕ) = 2 + 2 from rfl, this]; omega
  refine ⟨hd.valid h0, rfl, rfl, hsize, by omega, lt_of_le_of_lt h0 hth, ?_⟩
  intro i hi
  have hk := uniform_kn tol s0 h h0 hth m hm 2 (by norm_num) i (by omega)
  rw [show (2 + 2 : ℕ) = 4 from rfl] at hk
  rw [hk]
  have hJ : i + (2 + m * 2 - 2) = i + m * 2 := by omega
  rw [hJ]
  rcases Nat.lt_or_ge i 2 with h1 | h1
  · obtain ⟨e1, e2⟩ := divmod_of_eq (J := i + m * 2) (n := 2 + m * 2) (q := 0) (r := i + m * 2) (by ring) (by omega)
    rw [e1, e2]
    have hnat : (i + m * 2) / 2 = m := by omega
    have hi2 : i / 2 = 0 := by omega
    rw [hnat, hi2]; push_cast; ring
  · rcases Nat.lt_or_ge i (2 + m * 2 + 2) with h2 | h2
    · obtain ⟨e1, e2⟩ := divmod_of_eq (J := i + m * 2) (n := 2 + m * 2) (q := 1) (r := i - 2) (by omega) (by omega)
      rw [e1, e2]
      have hnat : i / 2 = (i - 2) / 2 + 1 := by omega
      rw [hnat]; push_cast; ring
    · obtain ⟨e1, e2⟩ := divmod_of_eq (J := i + m * 2) (n := 2 + m * 2) (q := 2) (r := i - (2 + m * 2 + 2))
        (by omega) (by omega)
      rw [e1, e2]
      have hnat : i / 2 = (i - (2 + m * 2 + 2)) / 2 + (m + 2) := by omega
      rw [hnat]; push_cast; ring

/-- **`H_sw` and admissibility for the family "uniform periodic quadratic raised to cubic"** — the two
    hypotheses of `C05_geometry_periodic_partial`, for every number `m + 1 ≥ 3` of knots per period,
    every spacing `h` and every `0 < tol ≤ h/3`. -/
theorem uniform_quadratic_raise_hsw (tol s0 h : K) (htol : 0 < tol) (htolh : tol ≤ h / 3) (m : ℕ) (hm : 2 ≤ m) :
    PerData tol 3 1 s0 (uwr s0 h m) 1 (List.replicate m 1) (h * ((m : K) + 1)) ∧
    ∃ (pts : Array K) (Ni : Mat K),
      (perBasis (3 + 1) 1 (s0 :: uwr s0 h m) ((1 :: List.replicate m 1).map (· + 1)) (h * ((m : K) + 1))).greville
        = .ok pts ∧
      (∀ t ∈ pts.toList,
        (perBasis 3 1 (s0 :: uwr s0 h m) (1 :: List.replicate m 1) (h * ((m : K) + 1))).Admissible tol t ∧
        (perBasis (3 + 1) 1 (s0 :: uwr s0 h m) ((1 :: List.replicate m 1).map (· + 1))
          (h * ((m : K) + 1))).Admissible tol t) ∧
      Mat.invChecked (Obj.basisMat (perBasis (3 + 1) 1 (s0 :: uwr s0 h m) ((1 :: List.replicate m 1).map (· + 1))
        (h * ((m : K) + 1))) tol pts.toList 0 true) = .ok Ni := by
  have hh : 0 < h := by
    rcases lt_or_ge 0 h with h1 | h1
    · exact h1
    · exfalso; have : h / 3 ≤ 0 := by linarith
      linarith
  have hth : tol < h := by linarith
  have hd1 := uniform_perData tol s0 h htol.le hth m hm 1 (by norm_num)
  have hmap : (1 :: List.replicate m 1).map (· + 1) = 2 :: List.replicate m 2 := by simp
  rw [hmap]
  refine ⟨hd1, ?_⟩
  have dc := uniform_doubleCubic tol s0 h htol.le hth m hm
  obtain ⟨pts, hg, hsz, hG, hadm, Ni, hNi⟩ := dc.H_sw htol htolh
  refine ⟨pts, Ni, hg, ?_, hNi⟩
  intro t ht
  refine ⟨?_, hadm t ht⟩
  obtain ⟨l, hl, rfl⟩ := List.getElem_of_mem ht
  have hl' : l < 2 * (m + 1) := by simpa [hsz] using hl
  rw [← List.getD_eq_getElem _ 0 hl, hG l hl']
  obtain ⟨hst, hsp, _⟩ := hd1.start_stop
  apply admissible_third (hd1.valid htol.le) (by show (0 : Int) ≤ ((1 : ℕ) : Int); decide) hst
    (by rw [hsp]; push_cast; ring) hh (by omega) htolh _ l hl'
  intro i hi
  have hsum : (List.replicate m 1).sum = m * 1 := by rw [List.sum_replicate, smul_eq_mul]
  have hlen := hd1.lengths.2.2.2
  rw [hsum] at hlen
  have hi' : i < 2 + (1 + m * 1) + (2 + 1) := by
    have : (perBasis 3 1 (s0 :: uwr s0 h m) (1 :: List.replicate m 1) (h * ((m : K) + 1))).knots.size
        = (perKnots (2 + 1) 1 (s0 :: uwr s0 h m) (1 :: List.replicate m 1) (h * ((m : K) + 1))).length := by
      show (perKnots 3 1 _ _ _).toArray.size = _
      rw [List.size_toArray]
    rw [this, hlen] at hi; omega
  have hk := uniform_kn tol s0 h htol.le hth m hm 1 (by norm_num) i hi'
  rw [show (2 + 1 : ℕ) = 3 from rfl] at hk
  refine ⟨(((i + (1 + m * 1 - 2)) % (1 + m * 1) / 1 : ℕ) : ℤ)
    + (((i + (1 + m * 1 - 2)) / (1 + m * 1) : ℕ) : ℤ) * ((m : ℤ) + 1) - ((m : ℤ) + 1), ?_⟩
  rw [hk]
  simp only [Int.cast_sub, Int.cast_add, Int.cast_mul, Int.cast_natCast, Int.cast_one]
  ring

end family

end Splipy
